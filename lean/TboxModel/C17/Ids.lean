/-
C17 — run ids: every queued task (of the tree, of the script) has its own run id, below the allocation
counter.  So "run the task with id n" (`runTask`) addresses exactly one queued task, and a handler that
posts a task can never collide with one that is already queued (first step towards ParallelAction in the
whole-tree theorem: several subtrees have tasks queued at once, running one is local to its subtree).
-/
import TboxModel.C17.Model
import TboxModel.C17.InvProofs
namespace Tbox.C17
set_option linter.unusedSimpArgs false
set_option linter.unusedVariables false

/-- how many queued tasks of a node carry run id `id` -/
def cntN (d : Node) (id : Nat) : Nat := d.tasks.countP (fun p => p.1 == id)

mutual
def cntT : T → Nat → Nat
  | .node d cs, id => cntN d id + cntL cs id
def cntL : TL → Nat → Nat
  | .nil, _ => 0
  | .cons t ts, id => cntT t id + cntL ts id
end

/-- 1 for the ids allocated between two states of the counter -/
def fresh (a b id : Nat) : Nat := if a ≤ id ∧ id < b then 1 else 0

theorem fresh_self (a id : Nat) : fresh a a id = 0 := by simp [fresh]
theorem fresh_trans (a b c id : Nat) (h1 : a ≤ b) (h2 : b ≤ c) : fresh a b id + fresh b c id = fresh a c id := by
  unfold fresh; split <;> split <;> split <;> omega

/-- a function from (subtree, globals) to (subtree, globals): no task appears twice because of it -/
structure StepN (c c' : Nat → Nat) (g g' : G) : Prop where
  mono : g.nextId ≤ g'.nextId
  user : g'.user = g.user
  cnt : ∀ id, c' id ≤ c id + fresh g.nextId g'.nextId id

theorem StepN.refl (c : Nat → Nat) (g : G) : StepN c c g g := ⟨Nat.le_refl _, rfl, fun id => by rw [fresh_self]; omega⟩

theorem StepN.trans {c c' c'' : Nat → Nat} {g g' g'' : G} (h1 : StepN c c' g g') (h2 : StepN c' c'' g' g'') : StepN c c'' g g'' :=
  ⟨Nat.le_trans h1.mono h2.mono, h2.user.trans h1.user, fun id => by
    have a := h1.cnt id; have b := h2.cnt id
    have := fresh_trans g.nextId g'.nextId g''.nextId id h1.mono h2.mono; omega⟩

theorem StepN.le {c c' : Nat → Nat} (g : G) (h : ∀ id, c' id ≤ c id) : StepN c c' g g :=
  ⟨Nat.le_refl _, rfl, fun id => by have := h id; rw [fresh_self]; omega⟩

/-- the same change seen from a context that adds `k` to both sides -/
theorem StepN.frame {c c' : Nat → Nat} {g g' : G} (h : StepN c c' g g') (k : Nat → Nat) :
    StepN (fun id => k id + c id) (fun id => k id + c' id) g g' :=
  ⟨h.mono, h.user, fun id => by have := h.cnt id; omega⟩
theorem StepN.frameR {c c' : Nat → Nat} {g g' : G} (h : StepN c c' g g') (k : Nat → Nat) :
    StepN (fun id => c id + k id) (fun id => c' id + k id) g g' :=
  ⟨h.mono, h.user, fun id => by have := h.cnt id; omega⟩

theorem StepN.congr {c c' d d' : Nat → Nat} {g g' : G} (h : StepN c c' g g') (e1 : ∀ id, d id = c id) (e2 : ∀ id, d' id = c' id) : StepN d d' g g' :=
  ⟨h.mono, h.user, fun id => by rw [e1, e2]; exact h.cnt id⟩

/-! ### node-local pieces -/

theorem cntN_filter (d : Node) (p : Nat × TK → Bool) (id : Nat) (d' : Node) (h : d'.tasks = d.tasks.filter p) : cntN d' id ≤ cntN d id := by
  unfold cntN; rw [h, List.countP_filter]
  exact List.countP_mono_left (fun x _ hx => by simp only [Bool.and_eq_true] at hx; exact hx.1) 

theorem cntN_same (d d' : Node) (h : d'.tasks = d.tasks) (id : Nat) : cntN d' id = cntN d id := by unfold cntN; rw [h]

theorem cntN_post (d : Node) (g : G) (tk : TK) (id : Nat) : cntN (post d g tk).1 id = cntN d id + (if g.nextId = id then 1 else 0) := by
  simp [cntN, post, List.countP_append, List.countP_cons]

theorem post_step (d : Node) (g : G) (tk : TK) : StepN (cntN d) (cntN (post d g tk).1) g (post d g tk).2 :=
  ⟨by simp [post], rfl, fun id => by
    rw [cntN_post]; by_cases h : g.nextId = id <;> simp [post, fresh, h] <;> omega⟩

/-- the tasks of `d'` are among those of `d` -/
def NLe (d' d : Node) : Prop := ∀ id, cntN d' id ≤ cntN d id
/-- the globals differ in the log only -/
def GSame (g' g : G) : Prop := g'.nextId = g.nextId ∧ g'.user = g.user

theorem NLe.refl (d : Node) : NLe d d := fun _ => Nat.le_refl _
theorem NLe.trans {a b c : Node} (h1 : NLe a b) (h2 : NLe b c) : NLe a c := fun id => Nat.le_trans (h1 id) (h2 id)
theorem NLe.same (d d' : Node) (h : d'.tasks = d.tasks) : NLe d' d := fun id => Nat.le_of_eq (cntN_same d d' h id)
theorem NLe.filter (d d' : Node) (p : Nat × TK → Bool) (h : d'.tasks = d.tasks.filter p) : NLe d' d := fun id => cntN_filter d p id d' h

theorem GSame.refl (g : G) : GSame g g := ⟨rfl, rfl⟩
theorem GSame.trans {a b c : G} (h1 : GSame a b) (h2 : GSame b c) : GSame a c := ⟨h1.1.trans h2.1, h1.2.trans h2.2⟩
theorem gsame_emit (g : G) (e : Ev) : GSame (g.emit e) g := ⟨rfl, rfl⟩
theorem gsame_leafEv (d : Node) (g : G) (c : Nat) : GSame (leafEv d g c) g := by unfold leafEv; split <;> exact ⟨rfl, rfl⟩
theorem gsame_onFinal (d : Node) (g : G) : GSame (onFinal d g).2 g := by unfold onFinal; split <;> exact ⟨rfl, rfl⟩

theorem nle_onFinal (d : Node) (g : G) : NLe (onFinal d g).1 d := NLe.same _ _ rfl
theorem nle_cancelId (d : Node) (id : Nat) : NLe (cancelId d id) d := NLe.filter _ _ _ rfl
theorem nle_cancelDispatched (d : Node) : NLe (cancelDispatched d) d := NLe.filter _ _ _ rfl
theorem nle_cancelReplay (c : Cfg) (d : Node) : NLe (cancelReplay c d) d := by
  unfold cancelReplay
  repeat' split
  all_goals first | exact NLe.filter _ _ _ rfl | exact NLe.refl d
theorem nle_stopped (c : Cfg) (d : Node) : NLe (d.stopped c) d := by
  unfold Node.stopped
  refine NLe.trans (nle_cancelReplay c _) ?_
  split
  · exact NLe.trans (nle_cancelDispatched _) (NLe.same _ _ rfl)
  · exact NLe.same _ _ rfl
theorem nle_resetted (c : Cfg) (d : Node) : NLe (d.resetted c) d := by
  unfold Node.resetted
  exact NLe.trans (NLe.same _ (cancelDispatched (cancelReplay c d)) rfl) (NLe.trans (nle_cancelDispatched _) (nle_cancelReplay c d))
theorem nle_paused (n : Nat) (d : Node) : NLe (d.paused n) d := NLe.same _ _ rfl
theorem nle_armTmo (d : Node) (n : Nat) : NLe (armTmo d n) d := NLe.same _ _ rfl
theorem nle_resumed (n : Nat) (d : Node) : NLe (d.resumed n) d := NLe.same _ _ rfl
theorem nle_started (n : Nat) (d : Node) : NLe (d.started n) d := by
  unfold Node.started; split
  · exact NLe.same _ _ rfl
  · exact NLe.refl d

/-- node part and children part of one call: children first (globals g → g'), then the node, globals
differing from g' in the log only -/
theorem mkStep (d d' : Node) (cs cs' : TL) (g g' g'' : G) (hn : NLe d' d) (hc : StepN (cntL cs) (cntL cs') g g') (hg : GSame g'' g') :
    StepN (cntT (.node d cs)) (cntT (.node d' cs')) g g'' :=
  ⟨by rw [hg.1]; exact hc.mono, by rw [hg.2]; exact hc.user, fun id => by
    have a := hn id; have b := hc.cnt id; simp only [cntT]; rw [hg.1]; omega⟩

/-- the same for results given as (node, children, globals) -/
theorem mkStep3 (d d' : Node) (cs cs' : TL) (g g' g'' : G) (hn : NLe d' d) (hc : StepN (cntL cs) (cntL cs') g g') (hg : GSame g'' g') :
    StepN (fun id => cntN d id + cntL cs id) (fun id => cntN d' id + cntL cs' id) g g'' :=
  (mkStep d d' cs cs' g g' g'' hn hc hg).congr (fun _ => rfl) (fun _ => rfl)

theorem stepL_cons (t t' : T) (ts ts' : TL) (g g' g'' : G) (h1 : StepN (cntT t) (cntT t') g g') (h2 : StepN (cntL ts) (cntL ts') g' g'') :
    StepN (cntL (.cons t ts)) (cntL (.cons t' ts')) g g'' :=
  ((h1.frameR (cntL ts)).trans (h2.frame (cntT t'))).congr (fun _ => rfl) (fun _ => rfl)

/-! ### calls that go down the tree -/

mutual
theorem stop_ids : ∀ (t : T) (g : G), StepN (cntT t) (cntT (stop t g).1) g (stop t g).2
  | .node d cs, g => by
    rw [stop]
    split
    · exact StepN.refl _ _
    · split
      · exact mkStep d _ cs cs g g _ (NLe.trans (nle_onFinal _ _) (nle_stopped _ d)) (StepN.refl _ _)
          (GSame.trans (gsame_onFinal _ _) (gsame_leafEv d g 1))
      · exact mkStep d _ cs _ g _ _ (NLe.trans (nle_onFinal _ _) (nle_stopped _ d)) (stopAll_ids cs g) (gsame_onFinal _ _)
      · split
        · rename_i i _
          exact mkStep d _ cs _ g _ _ (NLe.trans (nle_onFinal _ _) (nle_stopped _ d)) (stopAt_ids cs i g) (gsame_onFinal _ _)
        · exact mkStep d _ cs cs g g _ (NLe.trans (nle_onFinal _ _) (nle_stopped _ d)) (StepN.refl _ _) (gsame_onFinal _ _)
theorem stopAt_ids : ∀ (cs : TL) (i : Nat) (g : G), StepN (cntL cs) (cntL (stopAt cs i g).1) g (stopAt cs i g).2
  | .nil, _, g => StepN.refl _ _
  | .cons t ts, 0, g => by
    simp only [stopAt]
    exact stepL_cons t _ ts ts g _ _ (stop_ids t g) (StepN.refl _ _)
  | .cons t ts, i + 1, g => by
    simp only [stopAt]
    exact stepL_cons t t ts _ g g _ (StepN.refl _ _) (stopAt_ids ts i g)
theorem stopAll_ids : ∀ (cs : TL) (g : G), StepN (cntL cs) (cntL (stopAll cs g).1) g (stopAll cs g).2
  | .nil, g => StepN.refl _ _
  | .cons t ts, g => by
    simp only [stopAll]
    exact stepL_cons t _ ts _ g _ _ (stop_ids t g) (stopAll_ids ts (stop t g).2)
end

def finPre (d : Node) (cs : TL) (g : G) : Node × TL × G :=
  let d := { d with st := .finished, tmoAt := none }
  if d.isLeaf then (d, cs, g)
  else if d.isPar then
    if g.cfg.fixFin then ((d, (stopAll cs g).1, (stopAll cs g).2)) else (d, cs, g)
  else if d.kind == .composite || g.cfg.fixFin then stopCurr d cs g
  else (d, cs, g)

theorem finish_eq (d : Node) (cs : TL) (g : G) (s : Bool) (w : Nat) :
    finish d cs g s w = if d.st == .finished || d.st == .stoped then (d, cs, g, false) else
      ((onFinal (post { ({ (finPre d cs g).1 with res := if s then .success else .fail } : Node) with finId := (finPre d cs g).2.2.nextId } (finPre d cs g).2.2 (.fin s w)).1
         (post { ({ (finPre d cs g).1 with res := if s then .success else .fail } : Node) with finId := (finPre d cs g).2.2.nextId } (finPre d cs g).2.2 (.fin s w)).2).1,
       (finPre d cs g).2.1,
       (onFinal (post { ({ (finPre d cs g).1 with res := if s then .success else .fail } : Node) with finId := (finPre d cs g).2.2.nextId } (finPre d cs g).2.2 (.fin s w)).1
         (post { ({ (finPre d cs g).1 with res := if s then .success else .fail } : Node) with finId := (finPre d cs g).2.2.nextId } (finPre d cs g).2.2 (.fin s w)).2).2, true) := by
  unfold finish finPre
  split
  · rfl
  · simp only
    repeat' split
    all_goals rfl

abbrev cnt3 (r : Node × TL × G) : Nat → Nat := fun id => cntN r.1 id + cntL r.2.1 id

theorem stopCurr_ids (d : Node) (cs : TL) (g : G) : StepN (cnt3 (d, cs, g)) (cnt3 (stopCurr d cs g)) g (stopCurr d cs g).2.2 := by
  unfold stopCurr
  split
  · rename_i i _
    exact mkStep3 d _ cs _ g _ _ (NLe.same _ _ rfl) (stopAt_ids cs i g) (GSame.refl _)
  · exact StepN.refl _ _

theorem finPre_ids (d : Node) (cs : TL) (g : G) : StepN (cnt3 (d, cs, g)) (cnt3 (finPre d cs g)) g (finPre d cs g).2.2 := by
  unfold finPre
  simp only
  split
  · exact mkStep3 d _ cs cs g g g (NLe.same _ _ rfl) (StepN.refl _ _) (GSame.refl _)
  · split
    · split
      · exact mkStep3 d _ cs _ g _ _ (NLe.same _ _ rfl) (stopAll_ids cs g) (GSame.refl _)
      · exact mkStep3 d _ cs cs g g g (NLe.same _ _ rfl) (StepN.refl _ _) (GSame.refl _)
    · split
      · exact (mkStep3 d { d with st := .finished, tmoAt := none } cs cs g g g (NLe.same _ _ rfl) (StepN.refl _ _) (GSame.refl _)).trans
          (stopCurr_ids { d with st := .finished, tmoAt := none } cs g)
      · exact mkStep3 d _ cs cs g g g (NLe.same _ _ rfl) (StepN.refl _ _) (GSame.refl _)

/-- a node posts one task -/
theorem postStep3 (x x0 : Node) (cs : TL) (g : G) (tk : TK) (hx : NLe x0 x) (g' : G) (d' : Node) (hd : NLe d' (post x0 g tk).1) (hg : GSame g' (post x0 g tk).2) :
    StepN (cnt3 (x, cs, g)) (cnt3 (d', cs, g')) g g' :=
  ⟨by rw [hg.1]; simp [post], by rw [hg.2]; rfl, fun id => by
    have a := hx id; have b := hd id; have c := (post_step x0 g tk).cnt id
    simp only [cnt3]; rw [hg.1]; omega⟩

theorem finTail (p : Node × TL × G) (x0 : Node) (h : NLe x0 p.1) (tk : TK) :
    StepN (cnt3 p) (cnt3 ((onFinal (post x0 p.2.2 tk).1 (post x0 p.2.2 tk).2).1, p.2.1, (onFinal (post x0 p.2.2 tk).1 (post x0 p.2.2 tk).2).2))
      p.2.2 (onFinal (post x0 p.2.2 tk).1 (post x0 p.2.2 tk).2).2 :=
  postStep3 p.1 x0 p.2.1 p.2.2 tk h _ _ (nle_onFinal _ _) (gsame_onFinal _ _)

theorem finish_ids (d : Node) (cs : TL) (g : G) (s : Bool) (w : Nat) :
    StepN (cnt3 (d, cs, g)) (cnt3 ((finish d cs g s w).1, (finish d cs g s w).2.1, (finish d cs g s w).2.2.1)) g (finish d cs g s w).2.2.1 := by
  rw [finish_eq]
  split
  · exact StepN.refl _ _
  · exact (finPre_ids d cs g).trans (finTail (finPre d cs g) _ (NLe.same _ _ rfl) _)

theorem finish3_ids (d : Node) (cs : TL) (g : G) (s : Bool) (w : Nat) :
    StepN (cnt3 (d, cs, g)) (cnt3 (finish3 d cs g s w)) g (finish3 d cs g s w).2.2 := finish_ids d cs g s w

theorem block_ids (d : Node) (cs : TL) (g : G) (w : Nat) :
    StepN (cnt3 (d, cs, g)) (cnt3 ((block d g w).1, cs, (block d g w).2.1)) g (block d g w).2.1 := by
  unfold block
  split
  · exact StepN.refl _ _
  · simp only
    exact postStep3 d _ cs g _ (by split <;> first | exact NLe.trans (NLe.same _ _ rfl) (nle_cancelId d _) | exact NLe.same _ _ rfl) _ _ (NLe.refl _) (GSame.refl _)

mutual
theorem reset_ids : ∀ (t : T) (g : G), StepN (cntT t) (cntT (reset t g).1) g (reset t g).2
  | .node d cs, g => by
    rw [reset]
    split
    · exact StepN.refl _ _
    · split
      · exact mkStep d _ cs cs g g _ (nle_resetted _ d) (StepN.refl _ _) (GSame.trans (gsame_leafEv d _ 4) (gsame_emit g _))
      · have a := resetAll_ids cs (g.emit (.rst d.id))
        exact mkStep d _ cs _ g _ _ (nle_resetted _ d) ⟨a.mono, a.user, a.cnt⟩ (GSame.refl _)
theorem resetAll_ids : ∀ (cs : TL) (g : G), StepN (cntL cs) (cntL (resetAll cs g).1) g (resetAll cs g).2
  | .nil, g => StepN.refl _ _
  | .cons t ts, g => by
    simp only [resetAll]
    exact stepL_cons t _ ts _ g _ _ (reset_ids t g) (resetAll_ids ts (reset t g).2)
end

theorem resetAt_ids : ∀ (cs : TL) (i : Nat) (g : G), StepN (cntL cs) (cntL (resetAt cs i g).1) g (resetAt cs i g).2
  | .nil, _, g => StepN.refl _ _
  | .cons t ts, 0, g => by
    simp only [resetAt]
    exact stepL_cons t _ ts ts g _ _ (reset_ids t g) (StepN.refl _ _)
  | .cons t ts, i + 1, g => by
    simp only [resetAt]
    exact stepL_cons t t ts _ g g _ (StepN.refl _ _) (resetAt_ids ts i g)

mutual
theorem pause_ids : ∀ (t : T) (g : G), StepN (cntT t) (cntT (pause t g).1) g (pause t g).2.1
  | .node d cs, g => by
    rw [pause]
    split
    · exact StepN.refl _ _
    · split
      · exact StepN.refl _ _
      · split
        · exact mkStep d _ cs cs g g _ (nle_paused _ d) (StepN.refl _ _) (gsame_leafEv d g 2)
        · exact mkStep d _ cs _ g _ _ (nle_paused _ d) (pauseAll_ids cs g) (GSame.refl _)
        · split
          · rename_i i _
            exact mkStep d _ cs _ g _ _ (nle_paused _ d) (pauseAt_ids cs i g) (GSame.refl _)
          · exact mkStep d _ cs cs g g _ (nle_paused _ d) (StepN.refl _ _) (GSame.refl _)
theorem pauseAt_ids : ∀ (cs : TL) (i : Nat) (g : G), StepN (cntL cs) (cntL (pauseAt cs i g).1) g (pauseAt cs i g).2
  | .nil, _, g => StepN.refl _ _
  | .cons t ts, 0, g => by
    simp only [pauseAt]
    exact stepL_cons t _ ts ts g _ _ (pause_ids t g) (StepN.refl _ _)
  | .cons t ts, i + 1, g => by
    simp only [pauseAt]
    exact stepL_cons t t ts _ g g _ (StepN.refl _ _) (pauseAt_ids ts i g)
theorem pauseAll_ids : ∀ (cs : TL) (g : G), StepN (cntL cs) (cntL (pauseAll cs g).1) g (pauseAll cs g).2
  | .nil, g => StepN.refl _ _
  | .cons t ts, g => by
    simp only [pauseAll]
    exact stepL_cons t _ ts _ g _ _ (pause_ids t g) (pauseAll_ids ts (pause t g).2.1)
end

/-- children first, then the node posts one task -/
theorem mkStepPost (d x0 d' : Node) (cs cs' : TL) (g g' g'' : G) (tk : TK) (hx : NLe x0 d) (hc : StepN (cntL cs) (cntL cs') g g')
    (hd : NLe d' (post x0 g' tk).1) (hg : GSame g'' (post x0 g' tk).2) :
    StepN (cntT (.node d cs)) (cntT (.node d' cs')) g g'' :=
  ((mkStep3 d d cs cs' g g' g' (NLe.refl d) hc (GSame.refl _)).trans (postStep3 d x0 cs' g' tk hx g'' d' hd hg)).congr (fun _ => rfl) (fun _ => rfl)

mutual
theorem resume_ids : ∀ (t : T) (g : G), StepN (cntT t) (cntT (resume t g).1) g (resume t g).2.1
  | .node d cs, g => by
    rw [resume]
    split
    · exact StepN.refl _ _
    · split
      · exact StepN.refl _ _
      · split
        · refine mkStep d _ cs cs g g _ (NLe.trans (nle_resumed _ _) ?_) (StepN.refl _ _) (gsame_leafEv d g 3)
          split <;> first | exact NLe.same _ _ rfl | exact NLe.refl d
        · simp only
          split
          · exact mkStepPost d _ _ cs _ g _ _ .replayPar (NLe.same _ _ rfl) (resumePaused_ids cs g) (nle_resumed _ _) (GSame.refl _)
          · exact mkStep d _ cs _ g _ _ (nle_resumed _ d) (resumePaused_ids cs g) (GSame.refl _)
        · split
          · rename_i i _
            exact mkStep d _ cs _ g _ _ (nle_resumed _ d) (resumeAt_ids cs i g) (GSame.refl _)
          · split
            · rename_i h _
              exact mkStepPost d _ _ cs cs g g _ (.replay h) (NLe.same _ _ rfl) (StepN.refl _ _) (nle_resumed _ _) (GSame.refl _)
            · exact mkStep d _ cs cs g g _ (nle_resumed _ d) (StepN.refl _ _) (GSame.refl _)
theorem resumeAt_ids : ∀ (cs : TL) (i : Nat) (g : G), StepN (cntL cs) (cntL (resumeAt cs i g).1) g (resumeAt cs i g).2
  | .nil, _, g => StepN.refl _ _
  | .cons t ts, 0, g => by
    simp only [resumeAt]
    exact stepL_cons t _ ts ts g _ _ (resume_ids t g) (StepN.refl _ _)
  | .cons t ts, i + 1, g => by
    simp only [resumeAt]
    exact stepL_cons t t ts _ g g _ (StepN.refl _ _) (resumeAt_ids ts i g)
theorem resumePaused_ids : ∀ (cs : TL) (g : G), StepN (cntL cs) (cntL (resumePaused cs g).1) g (resumePaused cs g).2
  | .nil, g => StepN.refl _ _
  | .cons (.node d cs) ts, g => by
    rw [resumePaused]
    split
    · exact stepL_cons _ _ ts _ g _ _ (resume_ids (.node d cs) g) (resumePaused_ids ts (resume (.node d cs) g).2.1)
    · exact stepL_cons _ _ ts _ g g _ (StepN.refl _ _) (resumePaused_ids ts g)
end

theorem StepN.ofSame {c c' : Nat → Nat} {g1 g g' : G} (h : StepN c c' g1 g') (hs : GSame g1 g) : StepN c c' g g' :=
  ⟨by rw [← hs.1]; exact h.mono, by rw [← hs.2]; exact h.user, fun id => by rw [← hs.1]; exact h.cnt id⟩

/-- from (node, children) form to tree form, the node losing tasks at most -/
theorem toT {d x x' : Node} {cs cs' : TL} {g g' : G} (h : StepN (fun id => cntN d id + cntL cs id) (fun id => cntN x id + cntL cs' id) g g') (hx : NLe x' x) :
    StepN (cntT (.node d cs)) (cntT (.node x' cs')) g g' :=
  ⟨h.mono, h.user, fun id => by have a := h.cnt id; have b := hx id; simp only [cntT] at a ⊢; omega⟩

theorem toT3 {d : Node} {cs : TL} {g g' : G} {r : Node × TL × G} (h : StepN (cnt3 (d, cs, g)) (cnt3 r) g g') :
    StepN (cntT (.node d cs)) (cntT (.node r.1 r.2.1)) g g' := toT h (NLe.refl _)

theorem nle_serialStart (c : Cfg) (d : Node) (n : Nat) : NLe (serialStart c d n).1 d := by
  unfold serialStart; split <;> exact NLe.same _ _ rfl

theorem nle_serialNext (d : Node) (n i : Nat) (s : Bool) (w : Nat) : NLe (serialNext d n i s w).1 d := by
  obtain ⟨idx, r, e⟩ := serialNext_node d n i s w
  rw [e]; exact NLe.same _ _ rfl

mutual
theorem start_ids : ∀ (t : T) (g : G), StepN (cntT t) (cntT (start t g).1) g (start t g).2.1
  | .node d cs, g => by
    rw [start]
    split
    · exact StepN.refl _ _
    · split
      · exact StepN.refl _ _
      · split
        · split
          · exact toT ((finish_ids d cs (g.emit (.fn d.id)) _ _).ofSame (gsame_emit g _)) (nle_started _ _)
          · exact mkStep d _ cs cs g g g (NLe.trans (nle_started _ _) (NLe.same _ _ rfl)) (StepN.refl _ _) (GSame.refl _)
          · exact mkStep d _ cs cs g g _ (nle_started _ _) (StepN.refl _ _) (gsame_leafEv d g 0)
        · have sc := startChildren_ids cs 0 (d.parMode == .anyFail) g
          simp only
          split
          · refine toT (x := (finish _ _ _ true 0).1) ?_ (nle_started _ _)
            have h1 := mkStep3 d { d with finished := (startChildren cs 0 (d.parMode == .anyFail) g).2.2.foldl (fun acc i => mapSet acc i false) d.finished } cs _ g _ _ (NLe.same _ _ rfl) sc (GSame.refl _)
            have h2 := finish_ids { d with finished := (startChildren cs 0 (d.parMode == .anyFail) g).2.2.foldl (fun acc i => mapSet acc i false) d.finished }
              (startChildren cs 0 (d.parMode == .anyFail) g).1 (startChildren cs 0 (d.parMode == .anyFail) g).2.1 true 0
            have h3 := stopAll_ids (finish { d with finished := (startChildren cs 0 (d.parMode == .anyFail) g).2.2.foldl (fun acc i => mapSet acc i false) d.finished }
              (startChildren cs 0 (d.parMode == .anyFail) g).1 (startChildren cs 0 (d.parMode == .anyFail) g).2.1 true 0).2.1
              (finish { d with finished := (startChildren cs 0 (d.parMode == .anyFail) g).2.2.foldl (fun acc i => mapSet acc i false) d.finished }
              (startChildren cs 0 (d.parMode == .anyFail) g).1 (startChildren cs 0 (d.parMode == .anyFail) g).2.1 true 0).2.2.1
            exact (h1.trans h2).trans (h3.frame _)
          · split
            · refine toT (x := (finish _ _ _ true 0).1) ?_ (nle_started _ _)
              have h1 := mkStep3 d { d with finished := (startChildren cs 0 (d.parMode == .anyFail) g).2.2.foldl (fun acc i => mapSet acc i false) d.finished } cs _ g _ _ (NLe.same _ _ rfl) sc (GSame.refl _)
              exact h1.trans (finish_ids _ _ _ true 0)
            · exact mkStep d _ cs _ g _ _ (NLe.trans (nle_started _ _) (NLe.same _ _ rfl)) sc (GSame.refl _)
        · simp only
          have hss := nle_serialStart g.cfg d cs.length
          split
          · refine toT (x := (finish _ _ _ _ _).1) ?_ (nle_started _ _)
            exact (mkStep3 d _ cs cs g g g hss (StepN.refl _ _) (GSame.refl _)).trans (finish_ids _ cs g _ _)
          · rename_i i rs onFail _
            have sa := startAt_ids cs i g
            split
            · exact mkStep d _ cs _ g _ _ (NLe.trans (nle_started _ _) (NLe.trans (NLe.same _ _ rfl) hss)) sa (GSame.refl _)
            · split
              · refine toT (x := (finish _ _ _ _ _).1) ?_ (nle_started _ _)
                exact (mkStep3 d _ cs _ g _ _ hss sa (GSame.refl _)).trans (finish_ids _ _ _ _ _)
              · exact mkStep d _ cs _ g _ _ (NLe.trans (nle_started _ _) hss) sa (GSame.refl _)
theorem startAt_ids : ∀ (cs : TL) (i : Nat) (g : G), StepN (cntL cs) (cntL (startAt cs i g).1) g (startAt cs i g).2.1
  | .nil, _, g => StepN.refl _ _
  | .cons t ts, 0, g => by
    simp only [startAt]
    exact stepL_cons t _ ts ts g _ _ (start_ids t g) (StepN.refl _ _)
  | .cons t ts, i + 1, g => by
    simp only [startAt]
    exact stepL_cons t t ts _ g g _ (StepN.refl _ _) (startAt_ids ts i g)
theorem startChildren_ids : ∀ (cs : TL) (idx : Nat) (saf : Bool) (g : G), StepN (cntL cs) (cntL (startChildren cs idx saf g).1) g (startChildren cs idx saf g).2.1
  | .nil, _, _, g => StepN.refl _ _
  | .cons t ts, idx, saf, g => by
    rw [startChildren]
    simp only
    split
    · exact stepL_cons t _ ts ts g _ _ (start_ids t g) (StepN.refl _ _)
    · exact stepL_cons t _ ts _ g _ _ (start_ids t g) (startChildren_ids ts (idx + 1) saf (start t g).2.1)
end

/-! ### handlers -/

def HIds (f : Node → TL → G → Node × TL × G) : Prop := ∀ d cs g, StepN (cnt3 (d, cs, g)) (cnt3 (f d cs g)) g (f d cs g).2.2

theorem resets_ids : ∀ (rs : List Nat) (cs : TL) (g : G),
    StepN (cntL cs) (cntL (rs.foldl (fun (p : TL × G) j => resetAt p.1 j p.2) (cs, g)).1) g (rs.foldl (fun (p : TL × G) j => resetAt p.1 j p.2) (cs, g)).2
  | [], cs, g => StepN.refl _ _
  | j :: rs, cs, g => by
    simp only [List.foldl_cons]
    exact (resetAt_ids cs j g).trans (resets_ids rs _ _)

theorem applyNext_ids (d : Node) (cs : TL) (g : G) (nx : Next) : StepN (cnt3 (d, cs, g)) (cnt3 (applyNext d cs g nx)) g (applyNext d cs g nx).2.2 := by
  cases nx with
  | finish s w => exact finish3_ids d cs g s w
  | start i rs onFail =>
    simp only [applyNext]
    have r := (resets_ids rs cs g).trans (startAt_ids (rs.foldl (fun (p : TL × G) j => resetAt p.1 j p.2) (cs, g)).1 i
      (rs.foldl (fun (p : TL × G) j => resetAt p.1 j p.2) (cs, g)).2)
    split
    · exact mkStep3 d _ cs _ g _ _ (NLe.same _ _ rfl) r (GSame.refl _)
    · split
      · exact (mkStep3 d d cs _ g _ _ (NLe.refl d) r (GSame.refl _)).trans (finish3_ids d _ _ _ _)
      · exact mkStep3 d d cs _ g _ _ (NLe.refl d) r (GSame.refl _)

theorem serialOnChild_ids (i : Nat) (s : Bool) (w : Nat) : HIds (fun d cs g => serialOnChild d cs g i s w) := by
  intro d cs g
  simp only [serialOnChild]
  have h0 : StepN (cnt3 (d, cs, g)) (cnt3 ({ d with curr := none }, cs, g)) g g := mkStep3 d _ cs cs g g g (NLe.same _ _ rfl) (StepN.refl _ _) (GSame.refl _)
  split
  · split
    · exact h0.trans (finish3_ids _ cs g s w)
    · split
      · exact mkStep3 d _ cs cs g g g (NLe.same _ _ rfl) (StepN.refl _ _) (GSame.refl _)
      · exact h0
  · split
    · refine h0.trans ?_
      exact (mkStep3 { d with curr := none } _ cs cs g g g (nle_serialNext _ cs.length i s w) (StepN.refl _ _) (GSame.refl _)).trans (applyNext_ids _ cs g _)
    · split
      · exact mkStep3 d _ cs cs g g g (NLe.same _ _ rfl) (StepN.refl _ _) (GSame.refl _)
      · exact h0

theorem parOnChild_ids (i : Nat) (s : Bool) : HIds (fun d cs g => parOnChild d cs g i s) := by
  intro d cs g
  simp only [parOnChild]
  split
  · split
    · exact (mkStep3 d { d with finished := mapSet d.finished i s } cs _ g _ _ (NLe.same _ _ rfl) (stopAll_ids cs g) (GSame.refl _)).trans (finish3_ids _ _ _ true 0)
    · split
      · exact (mkStep3 d { d with finished := mapSet d.finished i s } cs cs g g g (NLe.same _ _ rfl) (StepN.refl _ _) (GSame.refl _)).trans (finish3_ids _ cs g true 0)
      · exact mkStep3 d _ cs cs g g g (NLe.same _ _ rfl) (StepN.refl _ _) (GSame.refl _)
  · split
    · exact mkStep3 d _ cs cs g g g (NLe.same _ _ rfl) (StepN.refl _ _) (GSame.refl _)
    · exact StepN.refl _ _

theorem onChildFin_ids (i : Nat) (s : Bool) (w : Nat) : HIds (fun d cs g => onChildFin d cs g i s w) := by
  intro d cs g
  simp only [onChildFin]
  split
  · exact parOnChild_ids i s d cs g
  · exact serialOnChild_ids i s w d cs g

theorem onChildBlk_ids (w : Nat) : HIds (fun d cs g => onChildBlk d cs g w) := by
  intro d cs g
  simp only [onChildBlk]
  split
  · split
    · exact (mkStep3 d d cs _ g _ _ (NLe.refl d) (pauseAll_ids cs g) (GSame.refl _)).trans (block_ids d _ _ w)
    · exact StepN.refl _ _
  · exact block_ids d cs g w

theorem parFold_ids : ∀ (l : List (Nat × Bool)) (d : Node) (cs : TL) (g : G),
    StepN (cnt3 (d, cs, g)) (cnt3 (l.foldl (fun (p : Node × TL × G) r => parOnChild p.1 p.2.1 p.2.2 r.1 r.2) (d, cs, g))) g
      (l.foldl (fun (p : Node × TL × G) r => parOnChild p.1 p.2.1 p.2.2 r.1 r.2) (d, cs, g)).2.2
  | [], _, _, _ => StepN.refl _ _
  | r :: l, d, cs, g => by
    simp only [List.foldl_cons]
    exact (parOnChild_ids r.1 r.2 d cs g).trans (parFold_ids l _ _ _)

theorem onReplay_ids (tk : TK) : HIds (fun d cs g => onReplay d cs g tk) := by
  intro d cs g
  cases tk with
  | replay h =>
    cases h with
    | child i s w => exact serialOnChild_ids i s w d cs g
    | last s w => exact finish3_ids d cs g s w
  | replayPar =>
    simp only [onReplay]
    exact (mkStep3 d { d with heldPar := [], replayId := 0 } cs cs g g g (NLe.same _ _ rfl) (StepN.refl _ _) (GSame.refl _)).trans (parFold_ids d.heldPar _ cs g)
  | fin s w => exact StepN.refl _ _
  | blk w => exact StepN.refl _ _

theorem onTimer_ids (b : Bool) : HIds (fun d cs g => onTimer d cs g b) := by
  intro d cs g
  simp only [onTimer]
  split
  · exact (mkStep3 d { d with sleepAt := none } cs cs g g g (NLe.same _ _ rfl) (StepN.refl _ _) (GSame.refl _)).trans (finish3_ids _ cs g true 3)
  · exact (mkStep3 d { d with tmoAt := none } cs cs g g g (NLe.same _ _ rfl) (StepN.refl _ _) (GSame.refl _)).trans (finish3_ids _ cs g false 1)

mutual
theorem modifyAt_ids : ∀ (t : T) (p : List Nat) (f : Node → TL → G → Node × TL × G) (g : G), HIds f →
    StepN (cntT t) (cntT (modifyAt t p f g).1) g (modifyAt t p f g).2
  | .node d cs, [], f, g, h => by simp only [modifyAt]; exact toT3 (h d cs g)
  | .node d cs, i :: p, f, g, h => by
    simp only [modifyAt]
    exact mkStep d d cs _ g _ _ (NLe.refl d) (modifyAtL_ids cs i p f g h) (GSame.refl _)
theorem modifyAtL_ids : ∀ (cs : TL) (i : Nat) (p : List Nat) (f : Node → TL → G → Node × TL × G) (g : G), HIds f →
    StepN (cntL cs) (cntL (modifyAtL cs i p f g).1) g (modifyAtL cs i p f g).2
  | .nil, _, _, _, g, _ => StepN.refl _ _
  | .cons t ts, 0, p, f, g, h => by
    simp only [modifyAtL]
    exact stepL_cons t _ ts ts g _ _ (modifyAt_ids t p f g h) (StepN.refl _ _)
  | .cons t ts, i + 1, p, f, g, h => by
    simp only [modifyAtL]
    exact stepL_cons t t ts _ g g _ (StepN.refl _ _) (modifyAtL_ids ts i p f g h)
end

theorem popChild_le : ∀ (cs : TL) (i id : Nat) (k : Nat), cntL (popChild cs i id) k ≤ cntL cs k
  | .nil, _, _, _ => Nat.le_refl _
  | .cons (.node d ccs) ts, 0, id, k => by
    have := nle_cancelId d id k
    simp only [popChild, cntL, cntT, T.data, T.children]; omega
  | .cons t ts, i + 1, id, k => by
    have := popChild_le ts i id k
    simp only [popChild, cntL]; omega

theorem hids_pop (f : Node → TL → G → Node × TL × G) (hf : HIds f) (i id : Nat) : HIds (fun d cs g => f d (popChild cs i id) g) := by
  intro d cs g
  exact (StepN.le g (fun k => by have := popChild_le cs i id k; simp only [cnt3]; omega) : StepN (cnt3 (d, cs, g)) (cnt3 (d, popChild cs i id, g)) g g).trans (hf d _ g)

theorem hids_cancel (f : Node → TL → G → Node × TL × G) (hf : HIds f) (id : Nat) : HIds (fun d cs g => f (cancelId d id) cs g) := by
  intro d cs g
  exact (StepN.le g (fun k => by have := nle_cancelId d id k; simp only [cnt3]; omega) : StepN (cnt3 (d, cs, g)) (cnt3 (cancelId d id, cs, g)) g g).trans (hf _ cs g)

theorem runTask_ids (t : T) (g : G) (id : Nat) : StepN (cntT t) (cntT (runTask t g id).1) g (runTask t g id).2 := by
  unfold runTask
  split
  · exact StepN.refl _ _
  · rename_i x path tk _
    cases tk with
    | fin s w =>
      simp only
      split
      · obtain ⟨d, cs⟩ := t
        exact mkStep d _ cs cs g g _ (nle_cancelId d id) (StepN.refl _ _) (gsame_emit g _)
      · exact modifyAt_ids t _ _ g (hids_pop _ (onChildFin_ids _ s w) _ id)
    | blk w =>
      simp only
      split
      · obtain ⟨d, cs⟩ := t
        exact mkStep d _ cs cs g g _ (nle_cancelId d id) (StepN.refl _ _) (gsame_emit g _)
      · exact modifyAt_ids t _ _ g (hids_pop _ (onChildBlk_ids w) _ id)
    | replay h => exact modifyAt_ids t path _ g (hids_cancel _ (onReplay_ids (.replay h)) id)
    | replayPar => exact modifyAt_ids t path _ g (hids_cancel _ (onReplay_ids .replayPar) id)

theorem doCall_ids (t : T) (g : G) (c : Call) : StepN (cntT t) (cntT (doCall t g c).1) g (doCall t g c).2.1 := by
  cases c with
  | start => exact start_ids t g
  | pause => exact pause_ids t g
  | resume => exact resume_ids t g
  | stop => exact stop_ids t g
  | reset => exact reset_ids t g
  | emitFin n s =>
    simp only [doCall]
    split
    · exact StepN.refl _ _
    · split
      · exact modifyAt_ids t _ _ g (fun d cs g => finish3_ids d cs g s 0)
      · exact StepN.refl _ _
  | emitBlk n =>
    simp only [doCall]
    split
    · exact StepN.refl _ _
    · split
      · exact modifyAt_ids t _ _ g (fun d cs g => block_ids d cs g 0)
      · exact StepN.refl _ _

/-! ### the invariant -/

def cntU (g : G) (id : Nat) : Nat := g.user.countP (fun u => u.1 == id)

/-- every run id is used by at most one queued task (of the tree or of the script), and only ids below the
allocation counter are in use -/
def IdsOk (t : T) (g : G) : Prop := ∀ id, cntT t id + cntU g id ≤ (if id < g.nextId then 1 else 0)

theorem idsOk_step {t t' : T} {g g' : G} (h : IdsOk t g) (s : StepN (cntT t) (cntT t') g g') : IdsOk t' g' := by
  intro id
  have a := h id; have b := s.cnt id; have m := s.mono
  have u : cntU g' id = cntU g id := by unfold cntU; rw [s.user]
  rw [u]; unfold fresh at b
  split at a <;> split at b <;> split <;> omega

theorem idsOk_same {t : T} {g g' : G} (h : IdsOk t g) (hs : GSame g' g) : IdsOk t g' := by
  intro id; have a := h id; unfold cntU at *; rw [hs.1, hs.2]; exact a

theorem doCalls_idsOk : ∀ (cs : List Call) (t : T) (g : G) (acc : List Bool), IdsOk t g →
    IdsOk (cs.foldl (fun (p : T × G × List Bool) c => ((doCall p.1 p.2.1 c).1, (doCall p.1 p.2.1 c).2.1, p.2.2 ++ [(doCall p.1 p.2.1 c).2.2])) (t, g, acc)).1
      (cs.foldl (fun (p : T × G × List Bool) c => ((doCall p.1 p.2.1 c).1, (doCall p.1 p.2.1 c).2.1, p.2.2 ++ [(doCall p.1 p.2.1 c).2.2])) (t, g, acc)).2.1
  | [], _, _, _, h => h
  | c :: cs, t, g, acc, h => by
    simp only [List.foldl_cons]
    exact doCalls_idsOk cs _ _ _ (idsOk_step h (doCall_ids t g c))

theorem runUser_idsOk : ∀ (cs : List Call) (t : T) (g : G), IdsOk t g → IdsOk (runUser t g cs).1 (runUser t g cs).2
  | [], _, _, h => h
  | c :: cs, t, g, h => by
    simp only [runUser, List.foldl_cons]
    have := runUser_idsOk cs (doCall t g c).1 ((doCall t g c).2.1.emit (.ret (doCall t g c).2.2))
      (idsOk_same (idsOk_step h (doCall_ids t g c)) (gsame_emit _ _))
    simpa only [runUser] using this

theorem runItem_idsOk (t : T) (g : G) (id : Nat) (h : IdsOk t g) : IdsOk (runItem t g id).1 (runItem t g id).2 := by
  unfold runItem
  split
  · apply runUser_idsOk
    intro k
    have a := h k
    have : cntU { g with user := g.user.filter (fun u => u.1 != id) } k ≤ cntU g k := by
      unfold cntU; simp only [List.countP_filter]
      exact List.countP_mono_left (fun x _ hx => by simp only [Bool.and_eq_true] at hx; exact hx.1)
    show cntT t k + cntU { g with user := g.user.filter (fun u => u.1 != id) } k ≤ (if k < g.nextId then 1 else 0)
    omega
  · exact idsOk_step h (runTask_ids t g id)

theorem foldItems_idsOk : ∀ (ids : List (Nat × Unit)) (t : T) (g : G), IdsOk t g →
    IdsOk (ids.foldl (fun (p : T × G) x => runItem p.1 p.2 x.1) (t, g)).1 (ids.foldl (fun (p : T × G) x => runItem p.1 p.2 x.1) (t, g)).2
  | [], _, _, h => h
  | x :: ids, t, g, h => by simp only [List.foldl_cons]; exact foldItems_idsOk ids _ _ (runItem_idsOk t g x.1 h)

theorem fireOne_ids (t : T) (g : G) (dl : Nat) (path : List Nat) (b : Bool) : StepN (cntT t) (cntT (fireOne t g dl path b).1) g (fireOne t g dl path b).2 :=
  modifyAt_ids t path _ g (fun d cs g => by
    by_cases h : ((if b then d.sleepAt else d.tmoAt) == some dl) = true
    · simp only [h, ↓reduceIte]; exact onTimer_ids b d cs g
    · simp only [h, ↓reduceIte]; exact StepN.refl _ _)

theorem foldTimers_idsOk : ∀ (l : List (Nat × List Nat × Bool)) (t : T) (g : G), IdsOk t g →
    IdsOk (l.foldl (fun (p : T × G) x => fireOne p.1 p.2 x.1 x.2.1 x.2.2) (t, g)).1 (l.foldl (fun (p : T × G) x => fireOne p.1 p.2 x.1 x.2.1 x.2.2) (t, g)).2
  | [], _, _, h => h
  | x :: l, t, g, h => by simp only [List.foldl_cons]; exact foldTimers_idsOk l _ _ (idsOk_step h (fireOne_ids t g x.1 x.2.1 x.2.2))

/-- **the run-id invariant is inductive over `step`** -/
theorem step_idsOk (t : T) (g : G) (op : Op) (h : IdsOk t g) : IdsOk (step t g op).1 (step t g op).2.1 := by
  have a : IdsOk (applyOp t g op).1 (applyOp t g op).2.1 := by
    cases op with
    | calls cs => exact doCalls_idsOk cs t g [] h
    | defer cs =>
      intro k
      have b := h k
      show cntT t k + (g.user ++ [(g.nextId, cs)]).countP (fun u => u.1 == k) ≤ (if k < g.nextId + 1 then 1 else 0)
      rw [List.countP_append]
      have e1 : [(g.nextId, cs)].countP (fun u => u.1 == k) = if g.nextId = k then 1 else 0 := by
        by_cases e : g.nextId = k <;> simp [List.countP_cons, e]
      rw [e1]; unfold cntU at b
      split at b <;> split <;> split <;> omega
    | adv ms => exact idsOk_same h ⟨rfl, rfl⟩
    | pass => exact h
  exact foldTimers_idsOk _ _ _ (foldItems_idsOk _ _ _ a)

theorem run_idsOk : ∀ (ops : List Op) (t : T) (g : G), IdsOk t g → IdsOk (run t g ops).1 (run t g ops).2
  | [], _, _, h => h
  | op :: ops, t, g, h => by rw [run]; exact run_idsOk ops _ _ (step_idsOk t g op h)

mutual
theorem cnt_clean : ∀ (t : T), Clean t = true → ∀ id, cntT t id = 0
  | .node d cs, h, id => by
    simp only [Clean, Bool.and_eq_true] at h
    have c3 := (clean_fields d h.1).2.2.1
    simp [cntT, cntN, c3, cntL_clean cs h.2 id]
theorem cntL_clean : ∀ (cs : TL), CleanL cs = true → ∀ id, cntL cs id = 0
  | .nil, _, _ => rfl
  | .cons t ts, h, id => by
    simp only [CleanL, Bool.and_eq_true] at h
    simp [cntL, cnt_clean t h.1 id, cntL_clean ts h.2 id]
end

mutual
theorem cnt_allTasks : ∀ (t : T) (p : List Nat) (id : Nat), (allTasks t p).countP (fun x => x.1 == id) = cntT t id
  | .node d cs, p, id => by
    simp only [allTasks, cntT, List.countP_append, cntN, List.countP_map, cntL_allTasks cs p 0 id]
    congr 1
theorem cntL_allTasks : ∀ (cs : TL) (p : List Nat) (i : Nat) (id : Nat), (allTasksL cs p i).countP (fun x => x.1 == id) = cntL cs id
  | .nil, _, _, _ => rfl
  | .cons t ts, p, i, id => by
    simp only [allTasksL, cntL, List.countP_append, cnt_allTasks t _ id, cntL_allTasks ts p (i + 1) id]
end

/-- in plain words: the run ids of the queued tasks of the tree are pairwise distinct and below the counter -/
theorem idsOk_plain (t : T) (g : G) (h : IdsOk t g) :
    ((allTasks t []).map (·.1)).Nodup ∧ ∀ x ∈ allTasks t [], x.1 < g.nextId := by
  constructor
  · rw [List.nodup_iff_count]
    intro id
    have a := h id
    have : ((allTasks t []).map (·.1)).count id = cntT t id := by
      rw [← cnt_allTasks t [] id, List.count, List.countP_map]; congr 1
    rw [this]; split at a <;> omega
  · intro x hx
    have a := h x.1
    have : 1 ≤ cntT t x.1 := by
      rw [← cnt_allTasks t [] x.1]
      exact List.countP_pos_iff.2 ⟨x, hx, by simp⟩
    split at a
    · assumption
    · omega

end Tbox.C17
