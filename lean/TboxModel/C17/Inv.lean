/-
C17 — the tree invariant `WF` (decidable, evaluated by the driver on every visited state and proved
inductive in InvProofs.lean for the repaired configuration).

Per node (with its children):
* `nodeOk`     queued tasks are the tracked ones and belong to the current run:
               a finish notification is queued only while Finished, a block notification only while
               neither Idle nor Stoped, a replay only while not Idle; timers are armed only while
               not Idle (the timeout only while under way); the final hook ran exactly once iff the
               action is Finished/Stoped; an Idle action has the fields of a freshly built one.
* `shapeOk`    a leaf has no children.
* `childrenOk` an action that is not under way has only quiet descendants; an Idle one only clean
               ones; below a serial composite that is under way only `curr` may be under way and
               only `curr` may have a finish notification queued; while a held-back result exists
               (stored or re-posted) there is no current child and no child notification queued.
-/
import TboxModel.C17.Model
namespace Tbox.C17

def TK.isFin : TK → Bool
  | .fin _ _ => true
  | _ => false
def TK.isBlk : TK → Bool
  | .blk _ => true
  | _ => false
def TK.isReplay : TK → Bool
  | .replay _ => true
  | .replayPar => true
  | _ => false

def Node.isSerial (d : Node) : Bool := !d.isLeaf && !d.isPar
def Node.ended (d : Node) : Bool := d.st == .finished || d.st == .stoped

/-- a finish notification of this action is queued -/
def hasFin (t : T) : Bool := t.data.tasks.any fun p => p.2.isFin

mutual
/-- no action of the tree is running or paused -/
def Quiet : T → Bool
  | .node d cs => !d.underway && QuietL cs
def QuietL : TL → Bool
  | .nil => true
  | .cons t ts => Quiet t && QuietL ts
end

/-- every child except the one with index `i` is quiet -/
def QuietExcept : TL → Option Nat → Bool
  | .nil, _ => true
  | cs, none => QuietL cs
  | .cons _ ts, some 0 => QuietL ts
  | .cons t ts, some (i + 1) => Quiet t && QuietExcept ts (some i)

/-- no child except the one with index `i` has a finish notification queued -/
def NoFinL : TL → Bool
  | .nil => true
  | .cons t ts => !hasFin t && NoFinL ts
def NoFinExcept : TL → Option Nat → Bool
  | .nil, _ => true
  | cs, none => NoFinL cs
  | .cons _ ts, some 0 => NoFinL ts
  | .cons t ts, some (i + 1) => !hasFin t && NoFinExcept ts (some i)

/-- the fields of a freshly built action (run ids and the dead fields finishTime / remain /
remainTimes excepted) -/
def cleanNode (d : Node) : Bool :=
  d.st == .idle && d.res == .unsure && d.tasks.isEmpty && d.tmoAt.isNone && d.sleepAt.isNone && d.curr.isNone &&
  d.held.isNone && d.index == 0 && d.finished.isEmpty && d.heldPar.isEmpty && d.finals == 0

mutual
def Clean : T → Bool
  | .node d cs => cleanNode d && CleanL cs
def CleanL : TL → Bool
  | .nil => true
  | .cons t ts => Clean t && CleanL ts
end

def taskOk (d : Node) (p : Nat × TK) : Bool :=
  match p.2 with
  | .fin _ _ => d.st == .finished && p.1 == d.finId && d.finId != 0
  | .blk _ => p.1 == d.blkId && d.blkId != 0 && d.st != .idle && d.st != .stoped
  | .replay _ => p.1 == d.replayId && d.replayId != 0 && d.st != .idle && d.st != .stoped && d.isSerial && d.held.isNone
  | .replayPar => p.1 == d.replayId && d.replayId != 0 && d.st != .idle && d.st != .stoped && d.isPar

def nodeOk (d : Node) : Bool :=
  d.tasks.all (taskOk d) &&
  (d.tmoAt.isNone || d.underway) && (d.sleepAt.isNone || d.st != .idle) &&
  (d.finals == (if d.ended then 1 else 0)) &&
  (d.st != .idle || cleanNode d)

def childrenOk (d : Node) (cs : TL) : Bool :=
  if d.st == .idle then CleanL cs
  else if !d.underway then QuietL cs
  else if d.isSerial then
    QuietExcept cs d.curr && NoFinExcept cs d.curr &&
    ((d.held.isNone && !d.tasks.any (fun p => p.2.isReplay)) || (d.curr.isNone && NoFinL cs))
  else true

mutual
def WF : T → Bool
  | .node d cs => nodeOk d && (!d.isLeaf || cs.length == 0) && childrenOk d cs && WFL cs
def WFL : TL → Bool
  | .nil => true
  | .cons t ts => WF t && WFL ts
end

/-- loop-side invariant: repaired configuration, run ids start at 1 -/
def GI (g : G) : Prop := g.cfg = {} ∧ 1 ≤ g.nextId

end Tbox.C17
