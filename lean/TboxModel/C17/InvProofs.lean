/-
C17 — `WF` (Inv.lean) is an inductive invariant of the repaired model: it holds of every freshly
built tree and is preserved by every control call, every queued task the loop runs, every timer that
fires, i.e. by `step` for every op.
-/
import TboxModel.C17.Inv
namespace Tbox.C17
set_option linter.unusedSimpArgs false
set_option linter.unusedVariables false

/-! ### Prop view of `nodeOk` -/

structure NodeOkP (d : Node) : Prop where
  fin : ∀ id s w, (id, TK.fin s w) ∈ d.tasks → d.st = .finished ∧ id = d.finId ∧ d.finId ≠ 0
  blk : ∀ id w, (id, TK.blk w) ∈ d.tasks → id = d.blkId ∧ d.blkId ≠ 0 ∧ d.st ≠ .idle ∧ d.st ≠ .stoped
  rep : ∀ id h, (id, TK.replay h) ∈ d.tasks → id = d.replayId ∧ d.replayId ≠ 0 ∧ d.st ≠ .idle ∧ d.st ≠ .stoped ∧
          d.isSerial = true ∧ d.held = none
  repp : ∀ id, (id, TK.replayPar) ∈ d.tasks → id = d.replayId ∧ d.replayId ≠ 0 ∧ d.st ≠ .idle ∧ d.st ≠ .stoped ∧
          d.isPar = true
  tmo : d.tmoAt = none ∨ d.st = .running ∨ d.st = .pause
  slp : d.sleepAt = none ∨ d.st ≠ .idle
  fnl : d.finals = if d.st = .finished ∨ d.st = .stoped then 1 else 0
  idle : d.st = .idle → (d.res = .unsure ∧ d.tasks = [] ∧ d.tmoAt = none ∧ d.sleepAt = none ∧ d.curr = none ∧
          d.held = none ∧ d.index = 0 ∧ d.finished = [] ∧ d.heldPar = [] ∧ d.finals = 0)

theorem nodeOk_iff (d : Node) : nodeOk d = true ↔ NodeOkP d := by
  constructor
  · intro h
    simp only [nodeOk, Bool.and_eq_true, List.all_eq_true, Bool.or_eq_true, beq_iff_eq, Node.underway,
      Option.isNone_iff_eq_none, bne_iff_ne, ne_eq, Node.ended, cleanNode, List.isEmpty_iff, and_assoc] at h
    obtain ⟨h1, h2, h3, h4, h5⟩ := h
    refine ⟨?_, ?_, ?_, ?_, h2, h3, ?_, ?_⟩
    · intro id s w hm; have := h1 _ hm; simpa [taskOk, and_assoc] using this
    · intro id w hm; have := h1 _ hm; simpa [taskOk, and_assoc] using this
    · intro id hh hm; have := h1 _ hm; simpa [taskOk, and_assoc] using this
    · intro id hm; have := h1 _ hm; simpa [taskOk, and_assoc] using this
    · rw [h4]
    · intro hi; rcases h5 with h5 | h5
      · exact absurd hi h5
      · exact h5.2
  · intro ⟨h1, h2, h3, h4, h5, h6, h7, h8⟩
    simp only [nodeOk, Bool.and_eq_true, List.all_eq_true, Bool.or_eq_true, beq_iff_eq, Node.underway,
      Option.isNone_iff_eq_none, bne_iff_ne, ne_eq, Node.ended, cleanNode, List.isEmpty_iff, and_assoc]
    refine ⟨?_, h5, h6, ?_, ?_⟩
    · intro p hp
      obtain ⟨id, tk⟩ := p
      cases tk with
      | fin s w => have := h1 id s w hp; simpa [taskOk, and_assoc] using this
      | blk w => have := h2 id w hp; simpa [taskOk, and_assoc] using this
      | replay hh => have := h3 id hh hp; simpa [taskOk, and_assoc] using this
      | replayPar => have := h4 id hp; simpa [taskOk, and_assoc] using this
    · rw [h7]
    · by_cases hi : d.st = .idle
      · right; have := h8 hi; exact ⟨hi, this⟩
      · left; exact hi

/-! ### small facts -/

theorem underway_iff (d : Node) : d.underway = true ↔ (d.st = .running ∨ d.st = .pause) := by
  simp [Node.underway]
theorem not_underway_iff (d : Node) : d.underway = false ↔ (d.st = .idle ∨ d.st = .finished ∨ d.st = .stoped) := by
  simp only [Node.underway]; cases d.st <;> simp
theorem serial_not_leaf (d : Node) (h : d.isSerial = true) : d.isLeaf = false ∧ d.isPar = false := by
  simpa [Node.isSerial] using h
theorem par_not_leaf (d : Node) (h : d.isPar = true) : d.isLeaf = false := by
  unfold Node.isPar at h; unfold Node.isLeaf; split at h <;> simp_all
theorem shape_leaf (d : Node) : d.shape = .leaf ↔ d.isLeaf = true := by
  unfold Node.shape; by_cases h : d.isLeaf = true <;> simp [h]; split <;> simp
theorem shape_par (d : Node) : d.shape = .par ↔ d.isPar = true := by
  unfold Node.shape
  by_cases h : d.isLeaf = true
  · simp [h]; cases hp : d.isPar with
    | false => rfl
    | true => have := par_not_leaf d hp; simp [h] at this
  · by_cases h2 : d.isPar = true <;> simp [h, h2]
theorem shape_serial (d : Node) : d.shape = .serial ↔ d.isSerial = true := by
  unfold Node.shape Node.isSerial
  by_cases h : d.isLeaf = true <;> by_cases h2 : d.isPar = true <;> simp [h, h2]

theorem quietExcept_of_quietL : ∀ (cs : TL) (o : Option Nat), QuietL cs = true → QuietExcept cs o = true
  | .nil, _, _ => by simp [QuietExcept]
  | .cons t ts, none, h => by simpa [QuietExcept] using h
  | .cons t ts, some 0, h => by simp [QuietExcept, QuietL] at *; exact h.2
  | .cons t ts, some (i + 1), h => by
      simp [QuietExcept, QuietL] at *
      exact ⟨h.1, quietExcept_of_quietL ts (some i) h.2⟩

theorem noFinExcept_of_noFinL : ∀ (cs : TL) (o : Option Nat), NoFinL cs = true → NoFinExcept cs o = true
  | .nil, _, _ => by simp [NoFinExcept]
  | .cons t ts, none, h => by simpa [NoFinExcept] using h
  | .cons t ts, some 0, h => by simp [NoFinExcept, NoFinL] at *; exact h.2
  | .cons t ts, some (i + 1), h => by
      simp [NoFinExcept, NoFinL] at *
      exact ⟨h.1, noFinExcept_of_noFinL ts (some i) h.2⟩

theorem quietL_of_except_none (cs : TL) (h : QuietExcept cs none = true) : QuietL cs = true := by
  cases cs with
  | nil => simp [QuietL]
  | cons t ts => simpa [QuietExcept] using h

theorem noFinL_of_except_none (cs : TL) (h : NoFinExcept cs none = true) : NoFinL cs = true := by
  cases cs with
  | nil => simp [NoFinL]
  | cons t ts => simpa [NoFinExcept] using h

mutual
theorem quiet_of_clean : ∀ t, Clean t = true → Quiet t = true
  | .node d cs, h => by
    simp only [Clean, cleanNode, Bool.and_eq_true, beq_iff_eq] at h
    have : d.st = .idle := h.1.1.1.1.1.1.1.1.1.1.1
    simp [Quiet, Node.underway, this, quietL_of_cleanL cs h.2]
theorem quietL_of_cleanL : ∀ cs, CleanL cs = true → QuietL cs = true
  | .nil, _ => by simp [QuietL]
  | .cons t ts, h => by
    simp only [CleanL, Bool.and_eq_true] at h
    simp [QuietL, quiet_of_clean t h.1, quietL_of_cleanL ts h.2]
end

theorem hasFin_of_clean : ∀ t, Clean t = true → hasFin t = false
  | .node d cs, h => by
    simp only [Clean, cleanNode, Bool.and_eq_true, beq_iff_eq, List.isEmpty_iff] at h
    have : d.tasks = [] := h.1.1.1.1.1.1.1.1.1.2
    simp [hasFin, T.data, this]

theorem noFinL_of_cleanL : ∀ cs, CleanL cs = true → NoFinL cs = true
  | .nil, _ => by simp [NoFinL]
  | .cons t ts, h => by
    simp only [CleanL, Bool.and_eq_true] at h
    simp [NoFinL, hasFin_of_clean t h.1, noFinL_of_cleanL ts h.2]

/-- the children of a node that is not under way are quiet -/
theorem children_quiet (d : Node) (cs : TL) (h : childrenOk d cs = true) (hu : d.underway = false) : QuietL cs = true := by
  unfold childrenOk at h
  by_cases hi : d.st = .idle
  · simp [hi] at h; exact quietL_of_cleanL cs h
  · simp [hi, hu] at h; exact h

theorem GI_emit (g : G) (e : Ev) (h : GI g) : GI (g.emit e) := h
theorem GI_leafEv (d : Node) (g : G) (c : Nat) (h : GI g) : GI (leafEv d g c) := by
  unfold leafEv; split <;> exact h
theorem onFinal_GI (d : Node) (g : G) (h : GI g) : GI (onFinal d g).2 := by
  unfold onFinal; split <;> exact h

/-! ### node parts -/

theorem stopped_tasks (d : Node) (p : Nat × TK) (hp : p ∈ (d.stopped {}).tasks) :
    p ∈ d.tasks ∧ (d.blkId ≠ 0 → p.1 ≠ d.blkId) ∧ (d.finId ≠ 0 → p.1 ≠ d.finId) ∧ (d.replayId ≠ 0 → p.1 ≠ d.replayId) := by
  simp only [Node.stopped, cancelReplay, cancelDispatched, Node.isPar] at hp
  split at hp <;> simp [List.mem_filter] at hp <;> grind

theorem stopped_fields (d : Node) :
    (d.stopped {}).st = .stoped ∧ (d.stopped {}).tmoAt = none ∧ (d.stopped {}).sleepAt = none ∧
    (d.stopped {}).finals = d.finals ∧ (d.stopped {}).kind = d.kind ∧ (d.stopped {}).curr = none ∧ (d.stopped {}).id = d.id := by
  simp only [Node.stopped, cancelReplay, cancelDispatched, Node.isPar]
  split <;> simp

theorem onFinal_node (d : Node) (g : G) : (onFinal d g).1 = { d with finals := d.finals + 1 } := rfl

theorem nodeOkP_stopped (d : Node) (g : G) (h : NodeOkP d) (hu : d.st = .running ∨ d.st = .pause) :
    NodeOkP (onFinal (d.stopped {}) g).1 := by
  obtain ⟨h1, h2, h3, h4, h5, h6, h7, h8⟩ := h
  obtain ⟨f1, f2, f3, f4, f5, f6, f7⟩ := stopped_fields d
  rw [onFinal_node]
  constructor
  · intro id s w hm; have a := stopped_tasks d _ hm; have := h1 id s w a.1; grind
  · intro id w hm; have a := stopped_tasks d _ hm; have := h2 id w a.1; grind
  · intro id hh hm; have a := stopped_tasks d _ hm; have := h3 id hh a.1; grind
  · intro id hm; have a := stopped_tasks d _ hm; have := h4 id a.1; grind
  · exact Or.inl f2
  · exact Or.inl f3
  · show (d.stopped {}).finals + 1 = _; rw [f4, f1, h7]; rcases hu with hu | hu <;> simp [hu]
  · intro hi; change (d.stopped {}).st = .idle at hi; rw [f1] at hi; cases hi

theorem isLeaf_congr (d d' : Node) (h : d'.kind = d.kind) : d'.isLeaf = d.isLeaf := by simp [Node.isLeaf, h]
theorem isPar_congr (d d' : Node) (h : d'.kind = d.kind) : d'.isPar = d.isPar := by simp [Node.isPar, h]
theorem isSerial_congr (d d' : Node) (h : d'.kind = d.kind) : d'.isSerial = d.isSerial := by
  simp [Node.isSerial, isLeaf_congr d d' h, isPar_congr d d' h]

/-- a node that ended (Finished / Stoped) with quiet children -/
theorem wf_ended (d : Node) (cs : TL) (hn : NodeOkP d) (he : d.st = .finished ∨ d.st = .stoped)
    (hl : (!d.isLeaf || cs.length == 0) = true) (hq : QuietL cs = true) (hcs : WFL cs = true) : WF (.node d cs) = true := by
  simp only [WF, Bool.and_eq_true]
  refine ⟨⟨⟨(nodeOk_iff d).2 hn, hl⟩, ?_⟩, hcs⟩
  unfold childrenOk
  rcases he with he | he <;> simp [he, Node.underway, hq]

/-! ### stop -/

mutual
theorem stop_wf : ∀ (t : T) (g : G), WF t = true → GI g → WF (stop t g).1 = true ∧ GI (stop t g).2 ∧ Quiet (stop t g).1 = true
  | .node d cs, g, h, hg => by
    rw [stop]
    simp only [WF, Bool.and_eq_true] at h
    obtain ⟨⟨⟨hn, hleaf⟩, hch⟩, hcs⟩ := h
    by_cases hu : d.underway = true
    · have hu' := (underway_iff d).1 hu
      have hN := (nodeOk_iff d).1 hn
      simp only [hu, Bool.not_true, Bool.false_eq_true, ↓reduceIte, hg.1]
      obtain ⟨f1, f2, f3, f4, f5, f6, f7⟩ := stopped_fields d
      have key : ∀ (g' : G) (cs' : TL), (!d.isLeaf || cs'.length == 0) = true → QuietL cs' = true → WFL cs' = true →
          WF (.node (onFinal (d.stopped {}) g').1 cs') = true ∧ Quiet (.node (onFinal (d.stopped {}) g').1 cs') = true := by
        intro g' cs' hl hq hw
        have hst : (onFinal (d.stopped {}) g').1.st = .stoped := f1
        refine ⟨wf_ended _ cs' (nodeOkP_stopped d g' hN hu') (Or.inr hst) ?_ hq hw, ?_⟩
        · rw [isLeaf_congr d _ (show (onFinal (d.stopped {}) g').1.kind = d.kind from f5)]; exact hl
        · simp [Quiet, Node.underway, hst, hq]
      split
      · -- leaf
        rename_i hs
        have hl := (shape_leaf d).1 hs
        have hq : QuietL cs = true := by
          cases cs with
          | nil => simp [QuietL]
          | cons a b => simp [hl, TL.length] at hleaf
        have := key (leafEv d g 1) cs hleaf hq hcs
        exact ⟨this.1, onFinal_GI _ _ (GI_leafEv d g 1 hg), this.2⟩
      · -- parallel
        rename_i hs
        have hp := (shape_par d).1 hs
        have hnl := par_not_leaf d hp
        have a := stopAll_wf cs g hcs hg
        have := key (stopAll cs g).2 (stopAll cs g).1 (by simp [hnl]) a.2.2 a.1
        exact ⟨this.1, onFinal_GI _ _ a.2.1, this.2⟩
      · -- serial
        rename_i hs
        have hser := (shape_serial d).1 hs
        have hnl := (serial_not_leaf d hser).1
        have hqe : QuietExcept cs d.curr = true := by
          unfold childrenOk at hch
          have hni : (d.st == St.idle) = false := by rcases hu' with h | h <;> simp [h]
          simp only [hni, hu, hser, Bool.not_true, Bool.false_eq_true, ↓reduceIte, Bool.and_eq_true] at hch
          exact hch.1.1
        split
        · rename_i i hc
          rw [hc] at hqe
          have a := stopAt_wf cs i g hcs hg hqe
          have := key (stopAt cs i g).2 (stopAt cs i g).1 (by simp [hnl]) a.2.2 a.1
          exact ⟨this.1, onFinal_GI _ _ a.2.1, this.2⟩
        · rename_i hc
          rw [hc] at hqe
          have := key g cs (by simp [hnl]) (quietL_of_except_none cs hqe) hcs
          exact ⟨this.1, onFinal_GI _ _ hg, this.2⟩
    · have hq : QuietL cs = true := children_quiet d cs hch (by simpa using hu)
      simp only [hu, Bool.not_false, ↓reduceIte]
      refine ⟨?_, hg, ?_⟩
      · simp only [WF, Bool.and_eq_true]; exact ⟨⟨⟨hn, hleaf⟩, hch⟩, hcs⟩
      · simp [Quiet, hu, hq]
theorem stopAll_wf : ∀ (cs : TL) (g : G), WFL cs = true → GI g → WFL (stopAll cs g).1 = true ∧ GI (stopAll cs g).2 ∧ QuietL (stopAll cs g).1 = true
  | .nil, g, _, hg => by simp [stopAll, WFL, QuietL, hg]
  | .cons t ts, g, h, hg => by
    simp only [WFL, Bool.and_eq_true] at h
    have a := stop_wf t g h.1 hg
    have b := stopAll_wf ts _ h.2 a.2.1
    simp only [stopAll, WFL, QuietL, Bool.and_eq_true]
    exact ⟨⟨a.1, b.1⟩, b.2.1, a.2.2, b.2.2⟩
theorem stopAt_wf : ∀ (cs : TL) (i : Nat) (g : G), WFL cs = true → GI g → QuietExcept cs (some i) = true →
    WFL (stopAt cs i g).1 = true ∧ GI (stopAt cs i g).2 ∧ QuietL (stopAt cs i g).1 = true
  | .nil, _, g, _, hg, _ => by simp [stopAt, WFL, QuietL, hg]
  | .cons t ts, 0, g, h, hg, hq => by
    simp only [WFL, Bool.and_eq_true] at h
    simp only [QuietExcept] at hq
    have a := stop_wf t g h.1 hg
    simp only [stopAt, WFL, QuietL, Bool.and_eq_true]
    exact ⟨⟨a.1, h.2⟩, a.2.1, a.2.2, hq⟩
  | .cons t ts, i + 1, g, h, hg, hq => by
    simp only [WFL, Bool.and_eq_true] at h
    simp only [QuietExcept, Bool.and_eq_true] at hq
    have b := stopAt_wf ts i g h.2 hg hq.2
    simp only [stopAt, WFL, QuietL, Bool.and_eq_true]
    exact ⟨⟨h.1, b.1⟩, b.2.1, hq.1, b.2.2⟩
end

/-! ### reset -/

theorem resetted_tasks (d : Node) (h : NodeOkP d) : (d.resetted {}).tasks = [] := by
  cases hl : (d.resetted {}).tasks with
  | nil => rfl
  | cons p ps =>
    exfalso
    have hp : p ∈ (d.resetted {}).tasks := by rw [hl]; simp
    simp only [Node.resetted, cancelReplay, cancelDispatched] at hp
    obtain ⟨id, tk⟩ := p
    have hmem : (id, tk) ∈ d.tasks ∧ (d.finId ≠ 0 → id ≠ d.finId) ∧ (d.blkId ≠ 0 → id ≠ d.blkId) ∧ (d.replayId ≠ 0 → id ≠ d.replayId) := by
      cases hpar : d.isPar <;> simp [hpar, List.mem_filter] at hp <;> grind
    cases tk with
    | fin s w => have := h.fin id s w hmem.1; grind
    | blk w => have := h.blk id w hmem.1; grind
    | replay hh => have := h.rep id hh hmem.1; grind
    | replayPar => have := h.repp id hmem.1; grind

theorem resetted_clean (d : Node) (h : NodeOkP d) : cleanNode (d.resetted {}) = true := by
  have ht := resetted_tasks d h
  simp only [cleanNode, ht]
  simp [Node.resetted]

theorem nodeOkP_of_clean (d : Node) (h : cleanNode d = true) : NodeOkP d := by
  simp only [cleanNode, Bool.and_eq_true, beq_iff_eq, List.isEmpty_iff, Option.isNone_iff_eq_none, and_assoc] at h
  obtain ⟨a1, a2, a3, a4, a5, a6, a7, a8, a9, a10, a11⟩ := h
  constructor <;> simp_all

theorem wf_clean_node (d : Node) (cs : TL) (hc : cleanNode d = true) (hl : (!d.isLeaf || cs.length == 0) = true)
    (hcl : CleanL cs = true) (hw : WFL cs = true) : WF (.node d cs) = true ∧ Clean (.node d cs) = true := by
  have hi : d.st = .idle := by
    simp only [cleanNode, Bool.and_eq_true, beq_iff_eq, and_assoc] at hc; exact hc.1
  simp only [WF, Clean, Bool.and_eq_true]
  refine ⟨⟨⟨⟨(nodeOk_iff d).2 (nodeOkP_of_clean d hc), hl⟩, ?_⟩, hw⟩, hc, hcl⟩
  simp [childrenOk, hi, hcl]

theorem resetted_kind (d : Node) : (d.resetted {}).kind = d.kind := by
  simp only [Node.resetted, cancelReplay, cancelDispatched]; cases hpar : d.isPar <;> simp [hpar]

mutual
theorem reset_wf : ∀ (t : T) (g : G), WF t = true → GI g → WF (reset t g).1 = true ∧ GI (reset t g).2 ∧ Clean (reset t g).1 = true
  | .node d cs, g, h, hg => by
    rw [reset]
    simp only [WF, Bool.and_eq_true] at h
    obtain ⟨⟨⟨hn, hleaf⟩, hch⟩, hcs⟩ := h
    have hN := (nodeOk_iff d).1 hn
    by_cases hi : d.st = .idle
    · simp only [hi, beq_self_eq_true, ↓reduceIte]
      have hc : cleanNode d = true := by
        simp only [nodeOk, Bool.and_eq_true, Bool.or_eq_true, bne_iff_ne, ne_eq] at hn
        rcases hn.2 with h | h
        · exact absurd hi h
        · exact h
      have hcl : CleanL cs = true := by simpa [childrenOk, hi] using hch
      have := wf_clean_node d cs hc hleaf hcl hcs
      exact ⟨this.1, hg, this.2⟩
    · have hne : (d.st == St.idle) = false := by simpa using hi
      simp only [hne, Bool.false_eq_true, ↓reduceIte]
      have hcfg : (g.emit (.rst d.id)).cfg = {} := hg.1
      rw [hcfg]
      have hlk := isLeaf_congr d _ (resetted_kind d)
      split
      · rename_i hl
        have hcl : CleanL cs = true := by
          cases cs with
          | nil => simp [CleanL]
          | cons a b => simp [hl, TL.length] at hleaf
        have := wf_clean_node (d.resetted {}) cs (resetted_clean d hN) (by rw [hlk]; exact hleaf) hcl hcs
        exact ⟨this.1, GI_leafEv d _ 4 (GI_emit g _ hg), this.2⟩
      · rename_i hl
        have a := resetAll_wf cs (g.emit (.rst d.id)) hcs (GI_emit g _ hg)
        have := wf_clean_node (d.resetted {}) (resetAll cs (g.emit (.rst d.id))).1 (resetted_clean d hN)
          (by rw [hlk]; simp [hl]) a.2.2 a.1
        exact ⟨this.1, a.2.1, this.2⟩
theorem resetAll_wf : ∀ (cs : TL) (g : G), WFL cs = true → GI g → WFL (resetAll cs g).1 = true ∧ GI (resetAll cs g).2 ∧ CleanL (resetAll cs g).1 = true
  | .nil, g, _, hg => by simp [resetAll, WFL, CleanL, hg]
  | .cons t ts, g, h, hg => by
    simp only [WFL, Bool.and_eq_true] at h
    have a := reset_wf t g h.1 hg
    have b := resetAll_wf ts _ h.2 a.2.1
    simp only [resetAll, WFL, CleanL, Bool.and_eq_true]
    exact ⟨⟨a.1, b.1⟩, b.2.1, a.2.2, b.2.2⟩
end

/-! ### how a parent sees a change inside one of its children -/

/-- `R t t'`: seen from the parent, `t'` is no worse than `t`: a quiet subtree stays quiet, a clean one
is untouched, and a finish notification appears only at an action that was under way -/
def R (t t' : T) : Prop :=
  (Quiet t = true → Quiet t' = true) ∧ (Clean t = true → t' = t) ∧
  (hasFin t' = true → hasFin t = true ∨ t.data.underway = true)

theorem R_refl (t : T) : R t t := ⟨id, fun _ => rfl, fun h => Or.inl h⟩

/-- pointwise `R` -/
def RL : TL → TL → Prop
  | .nil, .nil => True
  | .cons t ts, .cons t' ts' => R t t' ∧ RL ts ts'
  | _, _ => False

theorem RL_refl : ∀ cs, RL cs cs
  | .nil => trivial
  | .cons t ts => ⟨R_refl t, RL_refl ts⟩

theorem RL_length : ∀ cs cs', RL cs cs' → cs'.length = cs.length
  | .nil, .nil, _ => rfl
  | .cons t ts, .cons t' ts', h => by simp [TL.length, RL_length ts ts' h.2]
  | .nil, .cons _ _, h => h.elim
  | .cons _ _, .nil, h => h.elim

theorem quiet_not_underway (t : T) (h : Quiet t = true) : t.data.underway = false := by
  obtain ⟨d, cs⟩ := t; simp only [Quiet, Bool.and_eq_true, Bool.not_eq_true'] at h; exact h.1

theorem RL_quietL : ∀ cs cs', RL cs cs' → QuietL cs = true → QuietL cs' = true
  | .nil, .nil, _, _ => by simp [QuietL]
  | .cons t ts, .cons t' ts', h, hq => by
    simp only [QuietL, Bool.and_eq_true] at hq ⊢
    exact ⟨h.1.1 hq.1, RL_quietL ts ts' h.2 hq.2⟩
  | .nil, .cons _ _, h, _ => h.elim
  | .cons _ _, .nil, h, _ => h.elim

theorem RL_cleanL : ∀ cs cs', RL cs cs' → CleanL cs = true → cs' = cs
  | .nil, .nil, _, _ => rfl
  | .cons t ts, .cons t' ts', h, hq => by
    simp only [CleanL, Bool.and_eq_true] at hq
    rw [h.1.2.1 hq.1, RL_cleanL ts ts' h.2 hq.2]
  | .nil, .cons _ _, h, _ => h.elim
  | .cons _ _, .nil, h, _ => h.elim

theorem RL_noFinL : ∀ cs cs', RL cs cs' → QuietL cs = true → NoFinL cs = true → NoFinL cs' = true
  | .nil, .nil, _, _, _ => by simp [NoFinL]
  | .cons t ts, .cons t' ts', h, hq, hn => by
    simp only [QuietL, NoFinL, Bool.and_eq_true, Bool.not_eq_true'] at hq hn ⊢
    refine ⟨?_, RL_noFinL ts ts' h.2 hq.2 hn.2⟩
    cases hf : hasFin t' with
    | false => rfl
    | true => rcases h.1.2.2 hf with a | a
              · rw [hn.1] at a; cases a
              · rw [quiet_not_underway t hq.1] at a; cases a
  | .nil, .cons _ _, h, _, _ => h.elim
  | .cons _ _, .nil, h, _, _ => h.elim

theorem RL_quietExcept : ∀ cs cs' o, RL cs cs' → QuietExcept cs o = true → QuietExcept cs' o = true
  | .nil, .nil, _, _, _ => by simp [QuietExcept]
  | .cons t ts, .cons t' ts', none, h, hq => by
    simp only [QuietExcept] at hq ⊢; exact RL_quietL _ _ h hq
  | .cons t ts, .cons t' ts', some 0, h, hq => by
    simp only [QuietExcept] at hq ⊢; exact RL_quietL _ _ h.2 hq
  | .cons t ts, .cons t' ts', some (i + 1), h, hq => by
    simp only [QuietExcept, Bool.and_eq_true] at hq ⊢
    exact ⟨h.1.1 hq.1, RL_quietExcept ts ts' (some i) h.2 hq.2⟩
  | .nil, .cons _ _, _, h, _ => h.elim
  | .cons _ _, .nil, _, h, _ => h.elim

theorem RL_noFinExcept : ∀ cs cs' o, RL cs cs' → QuietExcept cs o = true → NoFinExcept cs o = true → NoFinExcept cs' o = true
  | .nil, .nil, _, _, _, _ => by simp [NoFinExcept]
  | .cons t ts, .cons t' ts', none, h, hq, hn => by
    simp only [QuietExcept, NoFinExcept] at hq hn ⊢; exact RL_noFinL _ _ h hq hn
  | .cons t ts, .cons t' ts', some 0, h, hq, hn => by
    simp only [QuietExcept, NoFinExcept] at hq hn ⊢; exact RL_noFinL _ _ h.2 hq hn
  | .cons t ts, .cons t' ts', some (i + 1), h, hq, hn => by
    simp only [QuietExcept, NoFinExcept, Bool.and_eq_true, Bool.not_eq_true'] at hq hn ⊢
    refine ⟨?_, RL_noFinExcept ts ts' (some i) h.2 hq.2 hn.2⟩
    cases hf : hasFin t' with
    | false => rfl
    | true => rcases h.1.2.2 hf with a | a
              · rw [hn.1] at a; cases a
              · rw [quiet_not_underway t hq.1] at a; cases a
  | .nil, .cons _ _, _, h, _, _ => h.elim
  | .cons _ _, .nil, _, h, _, _ => h.elim

/-- the parent's view is stable under `RL` as long as the parent node itself does not change what
`childrenOk` reads (state, kind, curr, held, replay tasks) -/
theorem childrenOk_RL (d d' : Node) (cs cs' : TL) (h : childrenOk d cs = true) (hr : RL cs cs')
    (hst : (d'.st == .idle) = (d.st == .idle)) (hu : d'.underway = d.underway) (hk : d'.kind = d.kind) (hc : d'.curr = d.curr)
    (hheld : d.isSerial = true → (d.held.isNone && !d.tasks.any (fun p => p.2.isReplay)) = true →
             (d'.held.isNone && !d'.tasks.any (fun p => p.2.isReplay)) = true) :
    childrenOk d' cs' = true := by
  unfold childrenOk at h ⊢
  rw [hst, hu, isSerial_congr d d' hk, hc]
  by_cases hi : d.st = .idle
  · simp only [hi, beq_self_eq_true, ↓reduceIte] at h ⊢
    rw [RL_cleanL cs cs' hr h]; exact h
  · have hne : (d.st == St.idle) = false := by simpa using hi
    simp only [hne, Bool.false_eq_true, ↓reduceIte] at h ⊢
    by_cases hun : d.underway = true
    · simp only [hun, Bool.not_true, Bool.false_eq_true, ↓reduceIte] at h ⊢
      by_cases hs : d.isSerial = true
      · simp only [hs, ↓reduceIte, Bool.and_eq_true] at h ⊢
        obtain ⟨⟨h1, h2⟩, h3⟩ := h
        refine ⟨⟨RL_quietExcept cs cs' _ hr h1, RL_noFinExcept cs cs' _ hr h1 h2⟩, ?_⟩
        simp only [Bool.or_eq_true] at h3 ⊢
        rcases h3 with h3 | h3
        · exact Or.inl (hheld hs h3)
        · right
          simp only [Bool.and_eq_true] at h3 ⊢
          refine ⟨h3.1, ?_⟩
          have hcn : d.curr = none := by simpa using h3.1
          rw [hcn] at h1
          exact RL_noFinL cs cs' hr (quietL_of_except_none cs h1) h3.2
      · simp [hs]
    · have hun' : d.underway = false := by simpa using hun
      simp only [hun', Bool.not_false, ↓reduceIte] at h ⊢
      exact RL_quietL cs cs' hr h

/-! ### pause -/

theorem nodeOkP_paused (d : Node) (now : Nat) (h : NodeOkP d) (hr : d.st = .running) : NodeOkP (d.paused now) := by
  obtain ⟨h1, h2, h3, h4, h5, h6, h7, h8⟩ := h
  constructor
  · intro id s w hm; have := h1 id s w hm; simp [hr] at this
  · intro id w hm; have := h2 id w hm; simp [Node.paused]; exact ⟨this.1, this.2.1⟩
  · intro id hh hm; have := h3 id hh hm
    simp only [Node.paused]; refine ⟨this.1, this.2.1, by simp, by simp, ?_, this.2.2.2.2.2⟩
    rw [← this.2.2.2.2.1]; exact isSerial_congr d _ rfl
  · intro id hm; have := h4 id hm
    simp only [Node.paused]; refine ⟨this.1, this.2.1, by simp, by simp, ?_⟩
    rw [← this.2.2.2.2]; exact isPar_congr d _ rfl
  · exact Or.inl rfl
  · exact Or.inl rfl
  · simp [Node.paused, h7, hr]
  · intro hi; simp [Node.paused] at hi

mutual
theorem pause_wf : ∀ (t : T) (g : G), WF t = true → GI g →
    WF (pause t g).1 = true ∧ GI (pause t g).2.1 ∧ R t (pause t g).1
  | .node d cs, g, h, hg => by
    rw [pause]
    by_cases hp : d.st = .pause
    · simp only [hp, beq_self_eq_true, ↓reduceIte]; exact ⟨h, hg, R_refl _⟩
    · have hp' : (d.st == St.pause) = false := by simpa using hp
      simp only [hp', Bool.false_eq_true, ↓reduceIte]
      by_cases hr : d.st = .running
      · have hr' : (d.st != St.running) = false := by simp [hr]
        simp only [hr', Bool.false_eq_true, ↓reduceIte]
        simp only [WF, Bool.and_eq_true] at h
        obtain ⟨⟨⟨hn, hleaf⟩, hch⟩, hcs⟩ := h
        have hN := (nodeOk_iff d).1 hn
        have hN' := nodeOkP_paused d g.now hN hr
        have hnofin : hasFin (.node d cs) = false := by
          simp only [hasFin, T.data, List.any_eq_false]
          intro p hp; obtain ⟨id, tk⟩ := p
          cases tk with
          | fin s w => have := hN.fin id s w hp; simp [hr] at this
          | _ => simp [TK.isFin]
        have key : ∀ (cs' : TL), RL cs cs' → WFL cs' = true →
            WF (.node (d.paused g.now) cs') = true ∧ R (.node d cs) (.node (d.paused g.now) cs') := by
          intro cs' hrl hw
          refine ⟨?_, ?_, ?_, ?_⟩
          · simp only [WF, Bool.and_eq_true]
            refine ⟨⟨⟨(nodeOk_iff _).2 hN', ?_⟩, ?_⟩, hw⟩
            · rw [RL_length cs cs' hrl]; exact hleaf
            · exact childrenOk_RL d _ cs cs' hch hrl (by simp [Node.paused, hr]; decide) (by simp [Node.paused, Node.underway, hr]) rfl rfl (fun _ x => x)
          · intro hq; simp [Quiet, Node.underway, hr] at hq
          · intro hc; simp [Clean, cleanNode, hr] at hc
          · intro hf; left; simpa [hasFin, T.data, Node.paused] using hf
        split
        · exact ⟨(key cs (RL_refl cs) hcs).1, GI_leafEv d g 2 hg, (key cs (RL_refl cs) hcs).2⟩
        · have a := pauseAll_wf cs g hcs hg
          exact ⟨(key _ a.2.2 a.1).1, a.2.1, (key _ a.2.2 a.1).2⟩
        · split
          · rename_i i hc
            have a := pauseAt_wf cs i g hcs hg
            exact ⟨(key _ a.2.2 a.1).1, a.2.1, (key _ a.2.2 a.1).2⟩
          · exact ⟨(key cs (RL_refl cs) hcs).1, hg, (key cs (RL_refl cs) hcs).2⟩
      · have hr' : (d.st != St.running) = true := by simpa using hr
        simp only [hr', ↓reduceIte]; exact ⟨h, hg, R_refl _⟩
theorem pauseAll_wf : ∀ (cs : TL) (g : G), WFL cs = true → GI g →
    WFL (pauseAll cs g).1 = true ∧ GI (pauseAll cs g).2 ∧ RL cs (pauseAll cs g).1
  | .nil, g, _, hg => by simp [pauseAll, WFL, RL, hg]
  | .cons t ts, g, h, hg => by
    simp only [WFL, Bool.and_eq_true] at h
    have a := pause_wf t g h.1 hg
    have b := pauseAll_wf ts _ h.2 a.2.1
    simp only [pauseAll, WFL, RL, Bool.and_eq_true]
    exact ⟨⟨a.1, b.1⟩, b.2.1, a.2.2, b.2.2⟩
theorem pauseAt_wf : ∀ (cs : TL) (i : Nat) (g : G), WFL cs = true → GI g →
    WFL (pauseAt cs i g).1 = true ∧ GI (pauseAt cs i g).2 ∧ RL cs (pauseAt cs i g).1
  | .nil, _, g, _, hg => by simp [pauseAt, WFL, RL, hg]
  | .cons t ts, 0, g, h, hg => by
    simp only [WFL, Bool.and_eq_true] at h
    have a := pause_wf t g h.1 hg
    simp only [pauseAt, WFL, RL, Bool.and_eq_true]
    exact ⟨⟨a.1, h.2⟩, a.2.1, a.2.2, RL_refl ts⟩
  | .cons t ts, i + 1, g, h, hg => by
    simp only [WFL, Bool.and_eq_true] at h
    have b := pauseAt_wf ts i g h.2 hg
    simp only [pauseAt, WFL, RL, Bool.and_eq_true]
    exact ⟨⟨h.1, b.1⟩, b.2.1, R_refl t, b.2.2⟩
end

/-! ### resume -/

theorem nodeOkP_resumed (d : Node) (now : Nat) (h : NodeOkP d) (hp : d.st = .pause) : NodeOkP (d.resumed now) := by
  obtain ⟨h1, h2, h3, h4, h5, h6, h7, h8⟩ := h
  constructor
  · intro id s w hm; have := h1 id s w (by simpa [Node.resumed, armTmo] using hm); simp [hp] at this
  · intro id w hm; have := h2 id w (by simpa [Node.resumed, armTmo] using hm)
    simp [Node.resumed, armTmo]; exact ⟨this.1, this.2.1⟩
  · intro id hh hm; have := h3 id hh (by simpa [Node.resumed, armTmo] using hm)
    simp only [Node.resumed, armTmo]; refine ⟨this.1, this.2.1, by simp, by simp, ?_, this.2.2.2.2.2⟩
    rw [← this.2.2.2.2.1]; exact isSerial_congr d _ rfl
  · intro id hm; have := h4 id (by simpa [Node.resumed, armTmo] using hm)
    simp only [Node.resumed, armTmo]; refine ⟨this.1, this.2.1, by simp, by simp, ?_⟩
    rw [← this.2.2.2.2]; exact isPar_congr d _ rfl
  · right; left; rfl
  · right; simp [Node.resumed]
  · simp [Node.resumed, armTmo, h7, hp]
  · intro hi; simp [Node.resumed] at hi

/-- posting a replay task keeps the node well-formed (the node is paused, no replay is queued) -/
theorem nodeOkP_post_replay (d : Node) (g : G) (hg : GI g) (h : NodeOkP d) (hp : d.st = .pause) (hs : d.isSerial = true)
    (hh : Held) (hheld : d.held = some hh) :
    NodeOkP (post { d with held := none, replayId := g.nextId } g (.replay hh)).1 := by
  obtain ⟨h1, h2, h3, h4, h5, h6, h7, h8⟩ := h
  have hpos : g.nextId ≠ 0 := by have := hg.2; omega
  constructor
  · intro id s w hm; simp [post] at hm; have := h1 id s w hm; simp [hp] at this
  · intro id w hm; simp [post] at hm; have := h2 id w hm; simp [post, hp]; exact ⟨this.1, this.2.1⟩
  · intro id x hm; simp [post] at hm
    rcases hm with hm | hm
    · have := h3 id x hm; rw [hheld] at this; simp at this
    · simp only [post]; refine ⟨hm.1, hpos, by simp [hp], by simp [hp], ?_, by simp⟩
      rw [← hs]; exact isSerial_congr d _ rfl
  · intro id hm; simp [post] at hm; have := h4 id hm
    have := (serial_not_leaf d hs).2; simp_all
  · simpa [post] using h5
  · simpa [post] using h6
  · simp [post, h7, hp]
  · intro hi; simp [post, hp] at hi

theorem nodeOkP_post_replayPar (d : Node) (g : G) (hg : GI g) (h : NodeOkP d) (hp : d.st = .pause) (hs : d.isPar = true)
    (hz : d.replayId = 0) :
    NodeOkP (post { d with replayId := g.nextId } g .replayPar).1 := by
  obtain ⟨h1, h2, h3, h4, h5, h6, h7, h8⟩ := h
  have hpos : g.nextId ≠ 0 := by have := hg.2; omega
  constructor
  · intro id s w hm; simp [post] at hm; have := h1 id s w hm; simp [hp] at this
  · intro id w hm; simp [post] at hm; have := h2 id w hm; simp [post, hp]; exact ⟨this.1, this.2.1⟩
  · intro id x hm; simp [post] at hm; have := h3 id x hm; rw [hz] at this; simp at this
  · intro id hm; simp [post] at hm
    rcases hm with hm | hm
    · have := h4 id hm; rw [hz] at this; simp at this
    · simp only [post]; refine ⟨hm, hpos, by simp [hp], by simp [hp], ?_⟩
      rw [← hs]; exact isPar_congr d _ rfl
  · simpa [post] using h5
  · simpa [post] using h6
  · simp [post, h7, hp]
  · intro hi; simp [post, hp] at hi

theorem post_GI (d : Node) (g : G) (tk : TK) (hg : GI g) : GI (post d g tk).2 := by
  simp only [post, GI]; exact ⟨hg.1, by have := hg.2; omega⟩

theorem hasFin_node (d : Node) (cs : TL) : hasFin (.node d cs) = d.tasks.any (fun p => p.2.isFin) := rfl

/-- assembling the resumed node: `d0` is the paused node after the kind-specific part of onResume -/
theorem resume_key (d d0 : Node) (cs cs' : TL) (now : Nat)
    (hleaf : (!d.isLeaf || cs.length == 0) = true) (hch : childrenOk d cs = true) (hp : d.st = .pause)
    (hN0 : NodeOkP d0) (hst : d0.st = .pause) (hk : d0.kind = d.kind) (hc : d0.curr = d.curr)
    (hfin : d0.tasks.any (fun p => p.2.isFin) = d.tasks.any (fun p => p.2.isFin))
    (hheld : d.isSerial = true → (d.held.isNone && !d.tasks.any (fun p => p.2.isReplay)) = true →
             (d0.held.isNone && !d0.tasks.any (fun p => p.2.isReplay)) = true)
    (hrl : RL cs cs') (hw : WFL cs' = true) :
    WF (.node (d0.resumed now) cs') = true ∧ R (.node d cs) (.node (d0.resumed now) cs') := by
  refine ⟨?_, ?_, ?_, ?_⟩
  · simp only [WF, Bool.and_eq_true]
    refine ⟨⟨⟨(nodeOk_iff _).2 (nodeOkP_resumed d0 now hN0 hst), ?_⟩, ?_⟩, hw⟩
    · rw [RL_length cs cs' hrl, isLeaf_congr d (d0.resumed now) (by simp [Node.resumed, armTmo, hk])]; exact hleaf
    · refine childrenOk_RL d _ cs cs' hch hrl (by simp [Node.resumed, hp]; decide) (by simp [Node.resumed, Node.underway, hp])
        (by simp [Node.resumed, armTmo, hk]) (by simp [Node.resumed, armTmo, hc]) ?_
      intro hs hx; simpa [Node.resumed, armTmo] using hheld hs hx
  · intro hq; simp [Quiet, Node.underway, hp] at hq
  · intro hc; simp [Clean, cleanNode, hp] at hc
  · intro hf; left
    rw [hasFin_node] at hf ⊢
    rw [← hfin]; simpa [Node.resumed, armTmo] using hf

mutual
theorem resume_wf : ∀ (t : T) (g : G), WF t = true → GI g →
    WF (resume t g).1 = true ∧ GI (resume t g).2.1 ∧ R t (resume t g).1
  | .node d cs, g, h, hg => by
    rw [resume]
    by_cases hr : d.st = .running
    · simp only [hr, beq_self_eq_true, ↓reduceIte]; exact ⟨h, hg, R_refl _⟩
    · have hr' : (d.st == St.running) = false := by simpa using hr
      simp only [hr', Bool.false_eq_true, ↓reduceIte]
      by_cases hp : d.st = .pause
      · have hp' : (d.st != St.pause) = false := by simp [hp]
        simp only [hp', Bool.false_eq_true, ↓reduceIte]
        simp only [WF, Bool.and_eq_true] at h
        obtain ⟨⟨⟨hn, hleaf⟩, hch⟩, hcs⟩ := h
        have hN := (nodeOk_iff d).1 hn
        split
        · -- leaf
          rename_i hs
          have hN0 : NodeOkP (match d.kind with | .sleep _ => { d with sleepAt := some ((g.now : Int) + d.remain).toNat } | _ => d) := by
            split
            · obtain ⟨h1, h2, h3, h4, h5, h6, h7, h8⟩ := hN
              exact ⟨h1, h2, h3, h4, h5, Or.inr (by simp [hp]), h7, fun hi => by simp [hp] at hi⟩
            · exact hN
          have k := resume_key d _ cs cs g.now hleaf hch hp hN0 (by split <;> simp [hp]) (by split <;> rfl) (by split <;> rfl)
            (by split <;> rfl) (by intro _ hx; split <;> exact hx) (RL_refl cs) hcs
          exact ⟨k.1, GI_leafEv d g 3 hg, k.2⟩
        · -- parallel
          rename_i hs
          have hpar := (shape_par d).1 hs
          have a := resumePaused_wf cs g hcs hg
          simp only [hg.1]
          split
          · rename_i hcond
            have hz : d.replayId = 0 := by simp only [Bool.and_eq_true, beq_iff_eq] at hcond; exact hcond.2
            have hN0 := nodeOkP_post_replayPar d (resumePaused cs g).2 a.2.1 hN hp hpar hz
            have hns : d.isSerial = false := by simp [Node.isSerial, hpar]
            have k := resume_key d (post { d with replayId := (resumePaused cs g).2.nextId } (resumePaused cs g).2 .replayPar).1
              cs (resumePaused cs g).1 g.now hleaf hch hp hN0 (by simp [post, hp]) (by simp [post]) (by simp [post])
              (by simp [post, TK.isFin]) (by intro hs'; rw [hns] at hs'; cases hs') a.2.2 a.1
            exact ⟨k.1, post_GI { d with replayId := (resumePaused cs g).2.nextId } (resumePaused cs g).2 .replayPar a.2.1, k.2⟩
          · have k := resume_key d d cs (resumePaused cs g).1 g.now hleaf hch hp hN hp rfl rfl rfl (fun _ x => x) a.2.2 a.1
            exact ⟨k.1, a.2.1, k.2⟩
        · -- serial
          rename_i hs
          have hser := (shape_serial d).1 hs
          split
          · rename_i i hc
            have a := resumeAt_wf cs i g hcs hg
            have k := resume_key d d cs (resumeAt cs i g).1 g.now hleaf hch hp hN hp rfl rfl rfl (fun _ x => x) a.2.2 a.1
            exact ⟨k.1, a.2.1, k.2⟩
          · rename_i hc
            split
            · rename_i hh hheld
              simp only [hg.1]
              have hN0 := nodeOkP_post_replay d g hg hN hp hser hh hheld
              have k := resume_key d (post { d with held := none, replayId := g.nextId } g (.replay hh)).1
                cs cs g.now hleaf hch hp hN0 (by simp [post, hp]) (by simp [post]) (by simp [post])
                (by simp [post, TK.isFin]) (by intro _ hx; simp [hheld] at hx) (RL_refl cs) hcs
              exact ⟨k.1, post_GI { d with held := none, replayId := g.nextId } g (.replay hh) hg, k.2⟩
            · have k := resume_key d d cs cs g.now hleaf hch hp hN hp rfl rfl rfl (fun _ x => x) (RL_refl cs) hcs
              exact ⟨k.1, hg, k.2⟩
      · have hp' : (d.st != St.pause) = true := by simpa using hp
        simp only [hp', ↓reduceIte]; exact ⟨h, hg, R_refl _⟩
theorem resumeAt_wf : ∀ (cs : TL) (i : Nat) (g : G), WFL cs = true → GI g →
    WFL (resumeAt cs i g).1 = true ∧ GI (resumeAt cs i g).2 ∧ RL cs (resumeAt cs i g).1
  | .nil, _, g, _, hg => by simp [resumeAt, WFL, RL, hg]
  | .cons t ts, 0, g, h, hg => by
    simp only [WFL, Bool.and_eq_true] at h
    have a := resume_wf t g h.1 hg
    simp only [resumeAt, WFL, RL, Bool.and_eq_true]
    exact ⟨⟨a.1, h.2⟩, a.2.1, a.2.2, RL_refl ts⟩
  | .cons t ts, i + 1, g, h, hg => by
    simp only [WFL, Bool.and_eq_true] at h
    have b := resumeAt_wf ts i g h.2 hg
    simp only [resumeAt, WFL, RL, Bool.and_eq_true]
    exact ⟨⟨h.1, b.1⟩, b.2.1, R_refl t, b.2.2⟩
theorem resumePaused_wf : ∀ (cs : TL) (g : G), WFL cs = true → GI g →
    WFL (resumePaused cs g).1 = true ∧ GI (resumePaused cs g).2 ∧ RL cs (resumePaused cs g).1
  | .nil, g, _, hg => by simp [resumePaused, WFL, RL, hg]
  | .cons (.node d cs) ts, g, h, hg => by
    simp only [WFL, Bool.and_eq_true] at h
    rw [resumePaused]
    split
    · have a := resume_wf (.node d cs) g h.1 hg
      have b := resumePaused_wf ts _ h.2 a.2.1
      simp only [WFL, RL, Bool.and_eq_true]
      exact ⟨⟨a.1, b.1⟩, b.2.1, a.2.2, b.2.2⟩
    · have b := resumePaused_wf ts g h.2 hg
      simp only [WFL, RL, Bool.and_eq_true]
      exact ⟨⟨h.1, b.1⟩, b.2.1, R_refl _, b.2.2⟩
end

/-! ### finish / block (node level, called by start and by the handlers) -/

theorem stopCurr_spec (d : Node) (cs : TL) (g : G) (hw : WFL cs = true) (hg : GI g) (hq : QuietExcept cs d.curr = true) :
    WFL (stopCurr d cs g).2.1 = true ∧ GI (stopCurr d cs g).2.2 ∧ QuietL (stopCurr d cs g).2.1 = true ∧
    ((stopCurr d cs g).1 = d ∨ (stopCurr d cs g).1 = { d with curr := none }) := by
  unfold stopCurr
  split
  · rename_i i hc
    rw [hc] at hq
    have a := stopAt_wf cs i g hw hg hq
    exact ⟨a.1, a.2.1, a.2.2, Or.inr rfl⟩
  · rename_i hc
    rw [hc] at hq
    exact ⟨hw, hg, quietL_of_except_none cs hq, Or.inl rfl⟩

theorem nodeOkP_curr_none (d : Node) (h : NodeOkP d) : NodeOkP { d with curr := none } := by
  obtain ⟨h1, h2, h3, h4, h5, h6, h7, h8⟩ := h
  refine ⟨h1, h2, ?_, ?_, h5, h6, h7, ?_⟩
  · intro id x hm; have := h3 id x hm
    exact ⟨this.1, this.2.1, this.2.2.1, this.2.2.2.1, by rw [← this.2.2.2.2.1]; exact isSerial_congr d _ rfl, this.2.2.2.2.2⟩
  · intro id hm; have := h4 id hm
    exact ⟨this.1, this.2.1, this.2.2.1, this.2.2.2.1, by rw [← this.2.2.2.2]; exact isPar_congr d _ rfl⟩
  · intro hi; have := h8 hi; simp_all

/-- node part of a successful `finish` -/
theorem nodeOkP_finished (d : Node) (g : G) (hg : GI g) (h : NodeOkP d) (hne : d.st ≠ .finished ∧ d.st ≠ .stoped)
    (r : Res) (s : Bool) (w : Nat) :
    NodeOkP (onFinal (post { { { d with st := .finished, tmoAt := none } with res := r } with finId := g.nextId } g (.fin s w)).1
              (post { { { d with st := .finished, tmoAt := none } with res := r } with finId := g.nextId } g (.fin s w)).2).1 := by
  obtain ⟨h1, h2, h3, h4, h5, h6, h7, h8⟩ := h
  have hpos : g.nextId ≠ 0 := by have := hg.2; omega
  have hf0 : d.finals = 0 := by rw [h7]; simp [hne.1, hne.2]
  rw [onFinal_node]
  constructor
  · intro id s' w' hm; simp [post] at hm
    rcases hm with hm | hm
    · have := h1 id s' w' hm; exact absurd this.1 hne.1
    · simp [post]; exact ⟨hm.1, hpos⟩
  · intro id w' hm; simp [post] at hm; have := h2 id w' hm; simp [post]; exact ⟨this.1, this.2.1⟩
  · intro id x hm; simp [post] at hm; have := h3 id x hm
    simp only [post]; refine ⟨this.1, this.2.1, by simp, by simp, ?_, this.2.2.2.2.2⟩
    rw [← this.2.2.2.2.1]; exact isSerial_congr d _ rfl
  · intro id hm; simp [post] at hm; have := h4 id hm
    simp only [post]; refine ⟨this.1, this.2.1, by simp, by simp, ?_⟩
    rw [← this.2.2.2.2]; exact isPar_congr d _ rfl
  · left; rfl
  · right; simp [post]
  · simp [post, hf0]
  · intro hi; simp [post] at hi

theorem onFinal_st (d : Node) (g : G) : (onFinal d g).1.st = d.st := rfl
theorem onFinal_kind (d : Node) (g : G) : (onFinal d g).1.kind = d.kind := rfl

/-- `finish` on a node that has not ended: Finished, children quiet, well-formed -/
theorem finish_wf (d : Node) (cs : TL) (g : G) (s : Bool) (w : Nat) (hN : NodeOkP d)
    (hleaf : (!d.isLeaf || cs.length == 0) = true) (hw : WFL cs = true) (hg : GI g)
    (hne : d.st ≠ .finished ∧ d.st ≠ .stoped) (hq : d.isSerial = true → QuietExcept cs d.curr = true) :
    WF (.node (finish d cs g s w).1 (finish d cs g s w).2.1) = true ∧ GI (finish d cs g s w).2.2.1 ∧
    (finish d cs g s w).2.2.2 = true ∧ (finish d cs g s w).1.st = .finished ∧ (finish d cs g s w).1.kind = d.kind ∧
    QuietL (finish d cs g s w).2.1 = true := by
  have hne' : (d.st == St.finished || d.st == St.stoped) = false := by simp [hne.1, hne.2]
  unfold finish
  simp only [hne', Bool.false_eq_true, ↓reduceIte, hg.1]
  have hlk : ({ d with st := St.finished, tmoAt := none } : Node).isLeaf = d.isLeaf := isLeaf_congr d _ rfl
  have hpk : ({ d with st := St.finished, tmoAt := none } : Node).isPar = d.isPar := isPar_congr d _ rfl
  rw [hlk, hpk]
  -- the three shapes
  have build : ∀ (d1 : Node) (cs' : TL) (g1 : G), NodeOkP d1 → d1.st = d.st → d1.kind = d.kind → GI g1 →
      (!d.isLeaf || cs'.length == 0) = true → QuietL cs' = true → WFL cs' = true →
      let nd := (onFinal (post { { { d1 with st := .finished, tmoAt := none } with res := if s then .success else .fail } with finId := g1.nextId } g1 (.fin s w)).1
              (post { { { d1 with st := .finished, tmoAt := none } with res := if s then .success else .fail } with finId := g1.nextId } g1 (.fin s w)).2)
      WF (.node nd.1 cs') = true ∧ GI nd.2 ∧ nd.1.st = .finished ∧ nd.1.kind = d.kind := by
    intro d1 cs' g1 hN1 hst hk hg1 hl hq' hw'
    have hne1 : d1.st ≠ .finished ∧ d1.st ≠ .stoped := by rw [hst]; exact hne
    have hNf := nodeOkP_finished d1 g1 hg1 hN1 hne1 (if s then .success else .fail) s w
    refine ⟨wf_ended _ cs' hNf (Or.inl rfl) ?_ hq' hw', onFinal_GI _ _ (post_GI _ _ _ hg1), rfl, hk⟩
    have : ∀ (x : Node), x.kind = d.kind → (!x.isLeaf || cs'.length == 0) = true := by
      intro x hx; rw [isLeaf_congr d x hx]; exact hl
    exact this _ hk
  by_cases hl : d.isLeaf = true
  · simp only [hl, ↓reduceIte]
    have hq0 : QuietL cs = true := by
      cases cs with
      | nil => simp [QuietL]
      | cons a b => simp [hl, TL.length] at hleaf
    have b := build d cs g hN rfl rfl hg hleaf hq0 hw
    exact ⟨b.1, b.2.1, trivial, b.2.2.1, b.2.2.2, hq0⟩
  · have hl' : d.isLeaf = false := by simpa using hl
    simp only [hl', Bool.false_eq_true, ↓reduceIte]
    by_cases hp : d.isPar = true
    · simp only [hp, ↓reduceIte]
      have a := stopAll_wf cs g hw hg
      have b := build d (stopAll cs g).1 (stopAll cs g).2 hN rfl rfl a.2.1 (by simp [hl']) a.2.2 a.1
      exact ⟨b.1, b.2.1, trivial, b.2.2.1, b.2.2.2, a.2.2⟩
    · have hp' : d.isPar = false := by simpa using hp
      simp only [hp', Bool.false_eq_true, ↓reduceIte, Bool.or_true]
      have hser : d.isSerial = true := by simp [Node.isSerial, hl', hp']
      have a := stopCurr_spec { d with st := St.finished, tmoAt := none } cs g hw hg (hq hser)
      rcases a.2.2.2 with e | e
      · rw [e]
        have b := build d (stopCurr { d with st := St.finished, tmoAt := none } cs g).2.1
          (stopCurr { d with st := St.finished, tmoAt := none } cs g).2.2 hN rfl rfl a.2.1 (by simp [hl']) a.2.2.1 a.1
        exact ⟨b.1, b.2.1, trivial, b.2.2.1, b.2.2.2, a.2.2.1⟩
      · rw [e]
        have b := build { d with curr := none } (stopCurr { d with st := St.finished, tmoAt := none } cs g).2.1
          (stopCurr { d with st := St.finished, tmoAt := none } cs g).2.2 (nodeOkP_curr_none d hN) rfl rfl a.2.1 (by simp [hl']) a.2.2.1 a.1
        exact ⟨b.1, b.2.1, trivial, b.2.2.1, b.2.2.2, a.2.2.1⟩

/-! ### start -/

/-- a running node with nothing queued is well-formed -/
theorem nodeOkP_running_empty (x : Node) (ht : x.tasks = []) (hst : x.st = .running) (hf : x.finals = 0) : NodeOkP x := by
  constructor
  · intro id s w hm; rw [ht] at hm; cases hm
  · intro id w hm; rw [ht] at hm; cases hm
  · intro id h hm; rw [ht] at hm; cases hm
  · intro id hm; rw [ht] at hm; cases hm
  · right; left; exact hst
  · right; simp [hst]
  · simp [hf, hst]
  · intro hi; rw [hst] at hi; cases hi

theorem clean_fields (d : Node) (h : cleanNode d = true) :
    d.st = .idle ∧ d.res = .unsure ∧ d.tasks = [] ∧ d.tmoAt = none ∧ d.sleepAt = none ∧ d.curr = none ∧ d.held = none ∧
    d.index = 0 ∧ d.finished = [] ∧ d.heldPar = [] ∧ d.finals = 0 := by
  simpa only [cleanNode, Bool.and_eq_true, beq_iff_eq, List.isEmpty_iff, Option.isNone_iff_eq_none, and_assoc] using h

theorem serialStart_node (c : Cfg) (d : Node) (n : Nat) :
    (serialStart c d n).1 = d ∨ (serialStart c d n).1 = { d with index := 0 } ∨ ∃ r, (serialStart c d n).1 = { d with remainTimes := r } := by
  unfold serialStart
  split <;> first
    | exact Or.inl rfl
    | exact Or.inr (Or.inl rfl)
    | exact Or.inr (Or.inr ⟨_, rfl⟩)

theorem started_finished (x : Node) (now : Nat) (h : x.st = .finished) : x.started now = x := by simp [Node.started, h]

theorem quietExcept_some_of_all (cs : TL) (i : Nat) (h : QuietL cs = true) : QuietExcept cs (some i) = true :=
  quietExcept_of_quietL cs _ h

theorem clean_root_idle (t : T) (h : Clean t = true) : t.data.st = .idle := by
  obtain ⟨d, cs⟩ := t
  simp only [Clean, Bool.and_eq_true] at h
  exact (clean_fields d h.1).1

/-- the node after a start that leaves it Running -/
theorem start_running_node (d x : Node) (cs' : TL) (now : Nat) (hc : cleanNode d = true)
    (hst : x.st = .idle) (ht : x.tasks = []) (hf : x.finals = 0) (hk : x.kind = d.kind) (hheld : x.held = none)
    (hleaf : (!d.isLeaf || cs'.length == 0) = true) (hw : WFL cs' = true)
    (hch : d.isSerial = true → QuietExcept cs' x.curr = true ∧ NoFinExcept cs' x.curr = true) :
    WF (.node (x.started now) cs') = true := by
  simp only [Node.started, hst, beq_self_eq_true, ↓reduceIte]
  have hN : NodeOkP { armTmo x now with st := St.running } :=
    nodeOkP_running_empty _ (by simp [armTmo, ht]) rfl (by simp [armTmo, hf])
  have hk' : ({ armTmo x now with st := St.running } : Node).kind = d.kind := by simp [armTmo, hk]
  simp only [WF, Bool.and_eq_true]
  refine ⟨⟨⟨(nodeOk_iff _).2 hN, ?_⟩, ?_⟩, hw⟩
  · rw [isLeaf_congr d _ hk']; exact hleaf
  · unfold childrenOk
    rw [isSerial_congr d _ hk']
    by_cases hs : d.isSerial = true
    · have := hch hs
      simp [Node.underway, hs, armTmo, this.1, this.2, hheld, ht]
    · simp [Node.underway, hs]

mutual
theorem start_wf : ∀ (t : T) (g : G), WF t = true → GI g →
    WF (start t g).1 = true ∧ GI (start t g).2.1 ∧ (t.data.st ≠ .idle → (start t g).1 = t) ∧
    (t.data.st = .idle → (start t g).2.2 = true)
  | .node d cs, g, h, hg => by
    rw [start]
    by_cases hr : d.st = .running
    · simp only [hr, beq_self_eq_true, ↓reduceIte, T.data]; refine ⟨h, hg, ?_, ?_⟩ <;> simp
    · have hr' : (d.st == St.running) = false := by simpa using hr
      simp only [hr', Bool.false_eq_true, ↓reduceIte]
      by_cases hi : d.st = .idle
      · have hi' : (d.st != St.idle) = false := by simp [hi]
        simp only [hi', Bool.false_eq_true, ↓reduceIte, T.data]
        simp only [WF, Bool.and_eq_true] at h
        obtain ⟨⟨⟨hn, hleaf⟩, hch⟩, hcs⟩ := h
        have hN := (nodeOk_iff d).1 hn
        have hc : cleanNode d = true := by
          simp only [nodeOk, Bool.and_eq_true, Bool.or_eq_true, bne_iff_ne, ne_eq] at hn
          rcases hn.2 with h | h
          · exact absurd hi h
          · exact h
        obtain ⟨c1, c2, c3, c4, c5, c6, c7, c8, c9, c10, c11⟩ := clean_fields d hc
        have hcl : CleanL cs = true := by simpa [childrenOk, hi] using hch
        have hq0 : QuietL cs = true := quietL_of_cleanL cs hcl
        have hnf0 : NoFinL cs = true := noFinL_of_cleanL cs hcl
        have hne : d.st ≠ .finished ∧ d.st ≠ .stoped := by simp [hi]
        split
        · -- leaf
          rename_i hs
          have hl := (shape_leaf d).1 hs
          have hns : d.isSerial = true → False := fun x => by have := (serial_not_leaf d x).1; simp [hl] at this
          split
          · rename_i succ tag hk
            have a := fun w => finish_wf d cs (g.emit (.fn d.id)) succ w hN hleaf hcs (GI_emit g _ hg) hne (fun x => (hns x).elim)
            refine ⟨?_, (a _).2.1, fun x => absurd hi x, fun _ => rfl⟩
            rw [started_finished _ _ (a _).2.2.2.1]; exact (a _).1
          · refine ⟨?_, hg, fun x => absurd hi x, fun _ => rfl⟩
            exact start_running_node d _ cs g.now hc hi (by simp [c3]) (by simp [c11]) rfl c7 hleaf hcs (fun x => (hns x).elim)
          · refine ⟨?_, GI_leafEv d g 0 hg, fun x => absurd hi x, fun _ => rfl⟩
            exact start_running_node d d cs g.now hc hi c3 c11 rfl c7 hleaf hcs (fun x => (hns x).elim)
        · -- parallel
          rename_i hs
          have hp := (shape_par d).1 hs
          have hnl := par_not_leaf d hp
          have hns : d.isSerial = true → False := fun x => by have := (serial_not_leaf d x).2; simp [hp] at this
          have a := startChildren_wf cs 0 (d.parMode == .anyFail) g hcs hg
          have hfail := a.2.2 hcl
          simp only [hfail, List.foldl_nil, List.isEmpty_nil, Bool.not_true, Bool.and_false, Bool.false_eq_true, ↓reduceIte]
          have hd0 : ({ d with finished := d.finished } : Node) = d := rfl
          split
          · have f := finish_wf { d with finished := d.finished } _ _ true 0 hN (by simp [hnl]) a.1 a.2.1 hne (fun x => (hns x).elim)
            refine ⟨?_, f.2.1, fun x => absurd hi x, fun _ => rfl⟩
            rw [started_finished _ _ f.2.2.2.1]; exact f.1
          · refine ⟨?_, a.2.1, fun x => absurd hi x, fun _ => rfl⟩
            exact start_running_node d _ _ g.now hc hi c3 c11 rfl c7 (by simp [hnl]) a.1 (fun x => (hns x).elim)
        · -- serial
          rename_i hs
          have hser := (shape_serial d).1 hs
          have hnl := (serial_not_leaf d hser).1
          simp only [hg.1]
          -- the node after serialStart is still a clean idle node (index / remainTimes apart)
          have hss : ∀ x, x = (serialStart {} d cs.length).1 → NodeOkP x ∧ cleanNode x = true ∧ x.kind = d.kind ∧ x.curr = none := by
            intro x hx
            rcases serialStart_node {} d cs.length with e | e | ⟨r, e⟩ <;> rw [e] at hx <;> subst hx
            · exact ⟨hN, hc, rfl, c6⟩
            · have : cleanNode { d with index := 0 } = true := by simp [cleanNode, c1, c2, c3, c4, c5, c6, c7, c9, c10, c11]
              exact ⟨nodeOkP_of_clean _ this, this, rfl, c6⟩
            · have : cleanNode { d with remainTimes := r } = true := by simpa [cleanNode] using hc
              exact ⟨nodeOkP_of_clean _ this, this, rfl, c6⟩
          obtain ⟨sN, sc, sk, scur⟩ := hss _ rfl
          obtain ⟨s1, s2, s3, s4, s5, s6, s7, s8, s9, s10, s11⟩ := clean_fields _ sc
          have sne : (serialStart {} d cs.length).1.st ≠ .finished ∧ (serialStart {} d cs.length).1.st ≠ .stoped := by simp [s1]
          have sleaf : ∀ cs' : TL, (!(serialStart {} d cs.length).1.isLeaf || cs'.length == 0) = true := by
            intro cs'; rw [isLeaf_congr d _ sk]; simp [hnl]
          split
          · rename_i s w hnx
            have f := finish_wf _ cs g s w sN (sleaf cs) hcs hg sne (fun _ => quietExcept_of_quietL cs _ hq0)
            refine ⟨?_, f.2.1, fun x => absurd hi x, fun _ => rfl⟩
            rw [started_finished _ _ f.2.2.2.1]; exact f.1
          · rename_i i rs onFail hnx
            have a := startAt_wf cs i g hcs hg
            split
            · refine ⟨?_, a.2.1, fun x => absurd hi x, fun _ => rfl⟩
              exact start_running_node d _ _ g.now hc s1 s3 s11 sk s7 (by simp [hnl]) a.1
                (fun _ => ⟨a.2.2.1 (quietExcept_of_quietL cs _ hq0), a.2.2.2.1 (noFinExcept_of_noFinL cs _ hnf0)⟩)
            · rename_i hok
              have hok' : (startAt cs i g).2.2 = false := by simpa using hok
              have hsame := a.2.2.2.2 hok'
              split
              · rename_i s w
                have f := finish_wf _ (startAt cs i g).1 (startAt cs i g).2.1 s w sN (sleaf _) a.1 a.2.1 sne
                  (fun _ => by rw [hsame]; exact quietExcept_of_quietL cs _ hq0)
                refine ⟨?_, f.2.1, fun x => absurd hi x, fun _ => rfl⟩
                rw [started_finished _ _ f.2.2.2.1]; exact f.1
              · refine ⟨?_, a.2.1, fun x => absurd hi x, fun _ => rfl⟩
                exact start_running_node d _ _ g.now hc s1 s3 s11 sk s7 (by simp [hnl]) a.1
                  (fun _ => by rw [hsame, scur]; exact ⟨quietExcept_of_quietL cs _ hq0, noFinExcept_of_noFinL cs _ hnf0⟩)
      · have hi' : (d.st != St.idle) = true := by simpa using hi
        simp only [hi', ↓reduceIte, T.data]; refine ⟨h, hg, ?_, ?_⟩ <;> simp [hi]
theorem startAt_wf : ∀ (cs : TL) (i : Nat) (g : G), WFL cs = true → GI g →
    WFL (startAt cs i g).1 = true ∧ GI (startAt cs i g).2.1 ∧
    (QuietExcept cs (some i) = true → QuietExcept (startAt cs i g).1 (some i) = true) ∧
    (NoFinExcept cs (some i) = true → NoFinExcept (startAt cs i g).1 (some i) = true) ∧
    ((startAt cs i g).2.2 = false → (startAt cs i g).1 = cs)
  | .nil, _, g, _, hg => by simp [startAt, WFL, hg]
  | .cons t ts, 0, g, h, hg => by
    simp only [WFL, Bool.and_eq_true] at h
    have a := start_wf t g h.1 hg
    simp only [startAt, WFL, QuietExcept, NoFinExcept, Bool.and_eq_true]
    refine ⟨⟨a.1, h.2⟩, a.2.1, id, id, ?_⟩
    intro hok
    by_cases hi : t.data.st = .idle
    · rw [a.2.2.2 hi] at hok; cases hok
    · rw [a.2.2.1 hi]
  | .cons t ts, i + 1, g, h, hg => by
    simp only [WFL, Bool.and_eq_true] at h
    have b := startAt_wf ts i g h.2 hg
    simp only [startAt, WFL, QuietExcept, NoFinExcept, Bool.and_eq_true]
    refine ⟨⟨h.1, b.1⟩, b.2.1, fun x => ⟨x.1, b.2.2.1 x.2⟩, fun x => ⟨x.1, b.2.2.2.1 x.2⟩, ?_⟩
    intro hok; rw [b.2.2.2.2 hok]
theorem startChildren_wf : ∀ (cs : TL) (idx : Nat) (saf : Bool) (g : G), WFL cs = true → GI g →
    WFL (startChildren cs idx saf g).1 = true ∧ GI (startChildren cs idx saf g).2.1 ∧
    (CleanL cs = true → (startChildren cs idx saf g).2.2 = [])
  | .nil, _, _, g, _, hg => by simp [startChildren, WFL, hg]
  | .cons t ts, idx, saf, g, h, hg => by
    simp only [WFL, Bool.and_eq_true] at h
    have a := start_wf t g h.1 hg
    rw [startChildren]
    by_cases hcond : (!(start t g).2.2 && saf) = true
    · simp only [hcond, ↓reduceIte, WFL, Bool.and_eq_true]
      refine ⟨⟨a.1, h.2⟩, a.2.1, ?_⟩
      intro hcl; simp only [CleanL, Bool.and_eq_true] at hcl
      have := a.2.2.2 (clean_root_idle t hcl.1)
      simp [this] at hcond
    · have b := startChildren_wf ts (idx + 1) saf _ h.2 a.2.1
      simp only [hcond, Bool.false_eq_true, ↓reduceIte, WFL, Bool.and_eq_true]
      refine ⟨⟨a.1, b.1⟩, b.2.1, ?_⟩
      intro hcl; simp only [CleanL, Bool.and_eq_true] at hcl
      have := a.2.2.2 (clean_root_idle t hcl.1)
      simp [this, b.2.2 hcl.2]
end

/-! ### handlers: helpers -/

/-- `NodeOkP` reads only these fields (for a node that is not idle) -/
theorem nodeOkP_congr (d d' : Node) (h : NodeOkP d) (hni : d.st ≠ .idle) (hst : d'.st = d.st) (ht : d'.tasks = d.tasks)
    (h1 : d'.finId = d.finId) (h2 : d'.blkId = d.blkId)
    (h3 : d'.replayId = d.replayId ∨ ((∀ id x, (id, TK.replay x) ∉ d.tasks) ∧ (∀ id, (id, TK.replayPar) ∉ d.tasks)))
    (h4 : d'.tmoAt = d.tmoAt)
    (h5 : d'.sleepAt = none ∨ d'.sleepAt = d.sleepAt) (h6 : d'.finals = d.finals) (hk : d'.kind = d.kind)
    (hh : d'.held = d.held ∨ (d'.held = none) ∨ (∀ id x, (id, TK.replay x) ∉ d.tasks)) : NodeOkP d' := by
  obtain ⟨a1, a2, a3, a4, a5, a6, a7, a8⟩ := h
  constructor
  · intro id s w hm; rw [ht] at hm; have := a1 id s w hm; rw [hst, h1]; exact this
  · intro id w hm; rw [ht] at hm; have := a2 id w hm; rw [hst, h2]; exact this
  · intro id x hm; rw [ht] at hm; have := a3 id x hm
    rcases h3 with h3 | h3
    · rw [hst, h3, isSerial_congr d d' hk]
      refine ⟨this.1, this.2.1, this.2.2.1, this.2.2.2.1, this.2.2.2.2.1, ?_⟩
      rcases hh with hh | hh | hh
      · rw [hh]; exact this.2.2.2.2.2
      · exact hh
      · exact absurd hm (hh id x)
    · exact absurd hm (h3.1 id x)
  · intro id hm; rw [ht] at hm; have := a4 id hm
    rcases h3 with h3 | h3
    · rw [hst, h3, isPar_congr d d' hk]; exact this
    · exact absurd hm (h3.2 id)
  · rw [h4, hst]; exact a5
  · rcases h5 with h5 | h5
    · exact Or.inl h5
    · rw [h5, hst]; exact a6
  · rw [h6, hst]; exact a7
  · intro hi; rw [hst] at hi; exact absurd hi hni

theorem R_of_underway (d : Node) (cs : TL) (t' : T) (hu : d.underway = true) : R (.node d cs) t' := by
  refine ⟨?_, ?_, fun _ => Or.inr hu⟩
  · intro hq; simp [Quiet, hu] at hq
  · intro hc; simp only [Clean, Bool.and_eq_true] at hc
    have := (clean_fields d hc.1).1
    simp [Node.underway, this] at hu

/-- `R` for a node that is not under way and not idle: it stays that way, its children stay quiet,
no finish notification appears -/
theorem R_of_ended (d d' : Node) (cs cs' : TL) (hni : d.st ≠ .idle) (hu' : d'.underway = false) (hq : QuietL cs' = true)
    (hf : d'.tasks.any (fun p => p.2.isFin) = true → d.tasks.any (fun p => p.2.isFin) = true) :
    R (.node d cs) (.node d' cs') := by
  refine ⟨fun _ => by simp [Quiet, hu', hq], ?_, fun h => Or.inl (hf h)⟩
  intro hc; simp only [Clean, Bool.and_eq_true] at hc
  exact absurd (clean_fields d hc.1).1 hni

theorem nodeOkP_cancelId (d : Node) (id : Nat) (h : NodeOkP d) : NodeOkP (cancelId d id) := by
  obtain ⟨a1, a2, a3, a4, a5, a6, a7, a8⟩ := h
  have sub : ∀ p, p ∈ (cancelId d id).tasks → p ∈ d.tasks := by
    intro p hp; simp only [cancelId, List.mem_filter] at hp; exact hp.1
  refine ⟨fun i s w hm => a1 i s w (sub _ hm), fun i w hm => a2 i w (sub _ hm), ?_, ?_, a5, a6, a7, ?_⟩
  · intro i x hm; have := a3 i x (sub _ hm)
    exact ⟨this.1, this.2.1, this.2.2.1, this.2.2.2.1, by rw [← this.2.2.2.2.1]; exact isSerial_congr d _ rfl, this.2.2.2.2.2⟩
  · intro i hm; have := a4 i (sub _ hm)
    exact ⟨this.1, this.2.1, this.2.2.1, this.2.2.2.1, by rw [← this.2.2.2.2]; exact isPar_congr d _ rfl⟩
  · intro hi; have := a8 hi
    simp only [cancelId]; simp [this.2.1]; exact ⟨this.1, this.2.2.1, this.2.2.2.1, this.2.2.2.2.1, this.2.2.2.2.2.1, this.2.2.2.2.2.2.1, this.2.2.2.2.2.2.2.1, this.2.2.2.2.2.2.2.2.1, this.2.2.2.2.2.2.2.2.2⟩

/-- node part of a successful `block` -/
theorem nodeOkP_blocked (d : Node) (g : G) (w : Nat) (hg : GI g) (h : NodeOkP d) (hne : d.st ≠ .finished ∧ d.st ≠ .stoped) :
    NodeOkP (block d g w).1 ∧ (block d g w).1.st = .pause ∧ (block d g w).1.kind = d.kind ∧ (block d g w).1.curr = d.curr ∧
    (block d g w).1.held = d.held ∧ GI (block d g w).2.1 ∧
    (∀ p ∈ (block d g w).1.tasks, p.2.isReplay = true → p ∈ d.tasks) ∧
    ((block d g w).1.tasks.any (fun p => p.2.isFin) = true → d.tasks.any (fun p => p.2.isFin) = true) := by
  obtain ⟨a1, a2, a3, a4, a5, a6, a7, a8⟩ := h
  have hpos : g.nextId ≠ 0 := by have := hg.2; omega
  have hne' : (d.st == St.finished || d.st == St.stoped) = false := by simp [hne.1, hne.2]
  unfold block
  simp only [hne', Bool.false_eq_true, ↓reduceIte, hg.1, Bool.true_and]
  have hf0 : d.finals = 0 := by rw [a7]; simp [hne.1, hne.2]
  by_cases hb : d.blkId = 0
  · simp only [hb, bne_self_eq_false, Bool.false_eq_true, ↓reduceIte]
    refine ⟨?_, rfl, rfl, rfl, rfl, post_GI _ _ _ hg, ?_, ?_⟩
    · constructor
      · intro id s w' hm; simp [post] at hm; have := a1 id s w' hm; exact absurd this.1 hne.1
      · intro id w' hm; simp [post] at hm
        rcases hm with hm | hm
        · have := a2 id w' hm; exact absurd hb this.2.1
        · simp [post]; exact ⟨hm.1, hpos⟩
      · intro id x hm; simp [post] at hm; have := a3 id x hm
        simp only [post]; refine ⟨this.1, this.2.1, by simp, by simp, ?_, this.2.2.2.2.2⟩
        rw [← this.2.2.2.2.1]; exact isSerial_congr d _ rfl
      · intro id hm; simp [post] at hm; have := a4 id hm
        simp only [post]; refine ⟨this.1, this.2.1, by simp, by simp, ?_⟩
        rw [← this.2.2.2.2]; exact isPar_congr d _ rfl
      · rcases a5 with h | h | h
        · exact Or.inl (by simpa [post] using h)
        · right; right; rfl
        · right; right; rfl
      · right; simp [post]
      · simp [post, hf0]
      · intro hi; simp [post] at hi
    · intro p hp hr; simp [post] at hp
      rcases hp with hp | hp
      · exact hp
      · subst hp; simp [TK.isReplay] at hr
    · intro hx; simp [post, List.any_append, TK.isFin] at hx ⊢; exact hx
  · have hb' : (d.blkId != 0) = true := by simpa using hb
    simp only [hb', ↓reduceIte]
    have sub : ∀ p, p ∈ (cancelId d d.blkId).tasks → p ∈ d.tasks ∧ p.1 ≠ d.blkId := by
      intro p hp; simp only [cancelId, List.mem_filter, bne_iff_ne, ne_eq] at hp; exact hp
    refine ⟨?_, rfl, rfl, rfl, rfl, post_GI _ _ _ hg, ?_, ?_⟩
    · constructor
      · intro id s w' hm; simp [post] at hm; have := a1 id s w' (sub _ hm).1; exact absurd this.1 hne.1
      · intro id w' hm; simp [post] at hm
        rcases hm with hm | hm
        · have := a2 id w' (sub _ hm).1; exact absurd this.1 (sub _ hm).2
        · simp [post]; exact ⟨hm.1, hpos⟩
      · intro id x hm; simp [post] at hm; have := a3 id x (sub _ hm).1
        simp only [post]; refine ⟨this.1, this.2.1, by simp, by simp, ?_, this.2.2.2.2.2⟩
        rw [← this.2.2.2.2.1]; exact isSerial_congr d _ rfl
      · intro id hm; simp [post] at hm; have := a4 id (sub _ hm).1
        simp only [post]; refine ⟨this.1, this.2.1, by simp, by simp, ?_⟩
        rw [← this.2.2.2.2]; exact isPar_congr d _ rfl
      · rcases a5 with h | h | h
        · exact Or.inl (by simpa [post, cancelId] using h)
        · right; right; rfl
        · right; right; rfl
      · right; simp [post]
      · simp [post, cancelId, hf0]
      · intro hi; simp [post] at hi
    · intro p hp hr; simp [post] at hp
      rcases hp with hp | hp
      · exact (sub _ hp).1
      · subst hp; simp [TK.isReplay] at hr
    · intro hx; simp [post, List.any_append, TK.isFin] at hx ⊢
      obtain ⟨a, b, hab, hfin⟩ := hx
      exact ⟨a, b, (sub _ hab).1, hfin⟩

/-! ### the serial composites' handler -/

theorem resetAt_spec : ∀ (cs : TL) (j : Nat) (g : G), WFL cs = true → GI g → QuietL cs = true → NoFinL cs = true →
    WFL (resetAt cs j g).1 = true ∧ GI (resetAt cs j g).2 ∧ QuietL (resetAt cs j g).1 = true ∧ NoFinL (resetAt cs j g).1 = true
  | .nil, _, g, _, hg, _, _ => by simp [resetAt, WFL, QuietL, NoFinL, hg]
  | .cons t ts, 0, g, h, hg, hq, hn => by
    simp only [WFL, QuietL, NoFinL, Bool.and_eq_true, Bool.not_eq_true'] at h hq hn
    have a := reset_wf t g h.1 hg
    simp only [resetAt, WFL, QuietL, NoFinL, Bool.and_eq_true, Bool.not_eq_true']
    exact ⟨⟨a.1, h.2⟩, a.2.1, ⟨quiet_of_clean _ a.2.2, hq.2⟩, hasFin_of_clean _ a.2.2, hn.2⟩
  | .cons t ts, j + 1, g, h, hg, hq, hn => by
    simp only [WFL, QuietL, NoFinL, Bool.and_eq_true, Bool.not_eq_true'] at h hq hn
    have b := resetAt_spec ts j g h.2 hg hq.2 hn.2
    simp only [resetAt, WFL, QuietL, NoFinL, Bool.and_eq_true, Bool.not_eq_true']
    exact ⟨⟨h.1, b.1⟩, b.2.1, ⟨hq.1, b.2.2.1⟩, hn.1, b.2.2.2⟩

theorem resets_spec : ∀ (rs : List Nat) (cs : TL) (g : G), WFL cs = true → GI g → QuietL cs = true → NoFinL cs = true →
    let r := rs.foldl (fun (p : TL × G) j => resetAt p.1 j p.2) (cs, g)
    WFL r.1 = true ∧ GI r.2 ∧ QuietL r.1 = true ∧ NoFinL r.1 = true
  | [], cs, g, h, hg, hq, hn => ⟨h, hg, hq, hn⟩
  | j :: rs, cs, g, h, hg, hq, hn => by
    have a := resetAt_spec cs j g h hg hq hn
    simp only [List.foldl_cons]
    exact resets_spec rs _ _ a.1 a.2.1 a.2.2.1 a.2.2.2

/-- a running serial node with quiet children, nothing held back: WF for any `curr` whose
QuietExcept / NoFinExcept hold -/
theorem wf_running_serial (x : Node) (cs : TL) (hN : NodeOkP x) (hst : x.st = .running) (hs : x.isSerial = true)
    (hheld : x.held = none) (hrep : ∀ id h, (id, TK.replay h) ∉ x.tasks)
    (hq : QuietExcept cs x.curr = true) (hn : NoFinExcept cs x.curr = true) (hw : WFL cs = true) : WF (.node x cs) = true := by
  simp only [WF, Bool.and_eq_true]
  refine ⟨⟨⟨(nodeOk_iff x).2 hN, by simp [(serial_not_leaf x hs).1]⟩, ?_⟩, hw⟩
  have hnr : x.tasks.any (fun p => p.2.isReplay) = false := by
    simp only [List.any_eq_false]
    intro p hp; obtain ⟨id, tk⟩ := p
    cases tk with
    | fin _ _ => simp [TK.isReplay]
    | blk _ => simp [TK.isReplay]
    | replay h => exact absurd hp (hrep id h)
    | replayPar => have := (hN.repp id hp).2.2.2.2; have := (serial_not_leaf x hs).2; simp_all
  unfold childrenOk
  simp [hst, Node.underway, hs, hq, hn, hheld, hnr]

theorem serialNext_node (d : Node) (n i : Nat) (s : Bool) (w : Nat) :
    ∃ idx r, (serialNext d n i s w).1 = { d with index := idx, remainTimes := r } := by
  unfold serialNext
  repeat' split
  all_goals first
    | exact ⟨_, _, rfl⟩
    | (dsimp only; repeat' split
       all_goals exact ⟨_, _, rfl⟩)

theorem finish3_ended (d : Node) (cs : TL) (g : G) (s : Bool) (w : Nat) (h : d.st = .finished ∨ d.st = .stoped) :
    finish3 d cs g s w = (d, cs, g) := by
  unfold finish3 finish
  rcases h with h | h <;> simp [h]

/-- `applyNext` on a running serial node whose children are all quiet, with nothing held back -/
theorem applyNext_wf (x : Node) (cs : TL) (g : G) (nx : Next) (hN : NodeOkP x) (hst : x.st = .running) (hs : x.isSerial = true)
    (hheld : x.held = none) (hrep : ∀ id h, (id, TK.replay h) ∉ x.tasks) (hcur : x.curr = none)
    (hq : QuietL cs = true) (hn : NoFinL cs = true) (hw : WFL cs = true) (hg : GI g) :
    WF (.node (applyNext x cs g nx).1 (applyNext x cs g nx).2.1) = true ∧ GI (applyNext x cs g nx).2.2 ∧
    (applyNext x cs g nx).1.kind = x.kind ∧ (applyNext x cs g nx).1.st ≠ .idle := by
  have hnl := (serial_not_leaf x hs).1
  have hne : x.st ≠ .finished ∧ x.st ≠ .stoped := by simp [hst]
  cases nx with
  | finish s w =>
    have f := finish_wf x cs g s w hN (by simp [hnl]) hw hg hne (fun _ => by rw [hcur]; exact quietExcept_of_quietL cs _ hq)
    simp only [applyNext, finish3]
    exact ⟨f.1, f.2.1, f.2.2.2.2.1, by rw [f.2.2.2.1]; simp⟩
  | start i rs onFail =>
    simp only [applyNext]
    have r := resets_spec rs cs g hw hg hq hn
    have a := startAt_wf _ i _ r.1 r.2.1
    have hqe := a.2.2.1 (quietExcept_of_quietL _ (some i) r.2.2.1)
    have hne' := a.2.2.2.1 (noFinExcept_of_noFinL _ (some i) r.2.2.2)
    split
    · have hN' : NodeOkP { x with curr := some i } :=
        nodeOkP_congr x _ hN (by simp [hst]) rfl rfl rfl rfl (Or.inl rfl) rfl (Or.inr rfl) rfl rfl (Or.inl rfl)
      exact ⟨wf_running_serial _ _ hN' hst (by rw [← hs]; exact isSerial_congr x _ rfl) hheld hrep hqe hne' a.1, a.2.1, rfl, by simp [hst]⟩
    · rename_i hok
      have hok' : (startAt (rs.foldl (fun (p : TL × G) j => resetAt p.1 j p.2) (cs, g)).1 i (rs.foldl (fun (p : TL × G) j => resetAt p.1 j p.2) (cs, g)).2).2.2 = false := by simpa using hok
      have hsame := a.2.2.2.2 hok'
      split
      · rename_i s w
        have f := finish_wf x _ _ s w hN (by simp [hnl]) a.1 a.2.1 hne
          (fun _ => by rw [hcur, hsame]; exact quietExcept_of_quietL _ _ r.2.2.1)
        simp only [finish3]
        exact ⟨f.1, f.2.1, f.2.2.2.2.1, by rw [f.2.2.2.1]; simp⟩
      · refine ⟨wf_running_serial x _ hN hst hs hheld hrep ?_ ?_ a.1, a.2.1, rfl, by simp [hst]⟩
        · rw [hcur, hsame]; exact quietExcept_of_quietL _ _ r.2.2.1
        · rw [hcur, hsame]; exact noFinExcept_of_noFinL _ _ r.2.2.2

/-- what the serial handler may assume about the children: if the node is under way they are all
quiet, none has a finish notification queued, nothing is held back -/
def SPre (d : Node) (cs : TL) : Prop :=
  (d.underway = true → QuietL cs = true ∧ NoFinL cs = true ∧ d.held = none ∧ (∀ id h, (id, TK.replay h) ∉ d.tasks)) ∧
  (d.underway = false → QuietL cs = true)

theorem childrenOk_serial_underway (x : Node) (cs : TL) (hs : x.isSerial = true) (hu : x.underway = true) :
    childrenOk x cs = (QuietExcept cs x.curr && NoFinExcept cs x.curr &&
      ((x.held.isNone && !x.tasks.any (fun p => p.2.isReplay)) || (x.curr.isNone && NoFinL cs))) := by
  have hni : (x.st == St.idle) = false := by
    rcases (underway_iff x).1 hu with h | h <;> simp [h]
  unfold childrenOk
  simp [hni, hu, hs]

/-- what every handler establishes for the node it runs in -/
def HP (d : Node) (cs : TL) (r : Node × TL × G) : Prop :=
  WF (.node r.1 r.2.1) = true ∧ GI r.2.2 ∧ R (.node d cs) (.node r.1 r.2.1) ∧ r.1.kind = d.kind ∧ r.1.st ≠ .idle

theorem serialOnChild_wf (d : Node) (cs : TL) (g : G) (i : Nat) (s : Bool) (w : Nat) (hN : NodeOkP d)
    (hser : d.isSerial = true) (hni : d.st ≠ .idle) (hpre : SPre d cs) (hw : WFL cs = true) (hg : GI g) :
    HP d cs (serialOnChild d cs g i s w) := by
  have hnl := (serial_not_leaf d hser).1
  have hN0 : NodeOkP { d with curr := none } := nodeOkP_curr_none d hN
  have hs0 : ({ d with curr := none } : Node).isSerial = true := by rw [← hser]; exact isSerial_congr d _ rfl
  have hleaf0 : ∀ (x : Node) (cs' : TL), x.kind = d.kind → (!x.isLeaf || cs'.length == 0) = true := by
    intro x cs' hx; rw [isLeaf_congr d x hx]; simp [hnl]
  -- the three situations
  have run : d.st = .running →
      (∀ s w, HP d cs (finish3 { d with curr := none } cs g s w)) ∧
      HP d cs (applyNext (serialNext { d with curr := none } cs.length i s w).1 cs g (serialNext { d with curr := none } cs.length i s w).2) := by
    intro hr
    have hu : d.underway = true := by simp [Node.underway, hr]
    obtain ⟨hq, hn, hheld, hrep⟩ := hpre.1 hu
    have hne : ({ d with curr := none } : Node).st ≠ .finished ∧ ({ d with curr := none } : Node).st ≠ .stoped := by
      show d.st ≠ _ ∧ d.st ≠ _; simp [hr]
    constructor
    · intro s w
      have f := finish_wf { d with curr := none } cs g s w hN0 (hleaf0 _ cs rfl) hw hg hne (fun _ => quietExcept_of_quietL cs _ hq)
      exact ⟨f.1, f.2.1, R_of_underway d cs _ hu, f.2.2.2.2.1, by show (finish _ cs g s w).1.st ≠ _; rw [f.2.2.2.1]; simp⟩
    · obtain ⟨idx, r, e⟩ := serialNext_node { d with curr := none } cs.length i s w
      have hNx : NodeOkP { { d with curr := none } with index := idx, remainTimes := r } :=
        nodeOkP_congr d _ hN hni rfl rfl rfl rfl (Or.inl rfl) rfl (Or.inr rfl) rfl rfl (Or.inl rfl)
      have a := applyNext_wf { { d with curr := none } with index := idx, remainTimes := r } cs g
        (serialNext { d with curr := none } cs.length i s w).2 hNx hr (by rw [← hser]; exact isSerial_congr d _ rfl)
        hheld hrep rfl hq hn hw hg
      rw [e]
      exact ⟨a.1, a.2.1, R_of_underway d cs _ hu, a.2.2.1, a.2.2.2⟩
  have pau : d.st = .pause → ∀ (hd : Held),
      WF (.node { { d with curr := none } with held := some hd } cs) = true ∧ R (.node d cs) (.node { { d with curr := none } with held := some hd } cs) := by
    intro hp hd
    have hu : d.underway = true := by simp [Node.underway, hp]
    obtain ⟨hq, hn, hheld, hrep⟩ := hpre.1 hu
    have hN' : NodeOkP { { d with curr := none } with held := some hd } :=
      nodeOkP_congr d _ hN hni rfl rfl rfl rfl (Or.inl rfl) rfl (Or.inr rfl) rfl rfl (Or.inr (Or.inr hrep))
    refine ⟨?_, R_of_underway d cs _ hu⟩
    simp only [WF, Bool.and_eq_true]
    refine ⟨⟨⟨(nodeOk_iff _).2 hN', hleaf0 _ cs rfl⟩, ?_⟩, hw⟩
    have e1 : ({ { d with curr := none } with held := some hd } : Node).isSerial = true := by rw [← hser]; exact isSerial_congr d _ rfl
    have e3 : ({ { d with curr := none } with held := some hd } : Node).underway = true := hu
    rw [childrenOk_serial_underway _ cs e1 e3]
    simp [quietExcept_of_quietL cs none hq, noFinExcept_of_noFinL cs none hn, hn]
  have oth : d.st ≠ .running → d.st ≠ .pause →
      WF (.node { d with curr := none } cs) = true ∧ R (.node d cs) (.node { d with curr := none } cs) := by
    intro hr hp
    have hu : d.underway = false := by simp [Node.underway, hr, hp]
    have hq := hpre.2 hu
    have he : d.st = .finished ∨ d.st = .stoped := by
      rcases (not_underway_iff d).1 hu with h | h | h
      · exact absurd h hni
      · exact Or.inl h
      · exact Or.inr h
    exact ⟨wf_ended _ cs hN0 he (hleaf0 _ cs rfl) hq hw, R_of_ended d _ cs cs hni hu hq (fun x => x)⟩
  unfold serialOnChild
  by_cases hr : d.st = .running
  · have c1 : (({ d with curr := none } : Node).st == St.running) = true := by show (d.st == _) = true; simp [hr]
    simp only [c1, ↓reduceIte]
    split
    · exact (run hr).1 s w
    · exact (run hr).2
  · have c1 : (({ d with curr := none } : Node).st == St.running) = false := by show (d.st == _) = false; simpa using hr
    simp only [c1, Bool.false_eq_true, ↓reduceIte]
    by_cases hp : d.st = .pause
    · have c2 : (({ d with curr := none } : Node).st == St.pause) = true := by show (d.st == _) = true; simp [hp]
      simp only [c2, ↓reduceIte]
      split <;> exact ⟨(pau hp _).1, hg, (pau hp _).2, rfl, by show d.st ≠ _; simp [hp]⟩
    · have c2 : (({ d with curr := none } : Node).st == St.pause) = false := by show (d.st == _) = false; simpa using hp
      simp only [c2, Bool.false_eq_true, ↓reduceIte]
      split <;> exact ⟨(oth hr hp).1, hg, (oth hr hp).2, rfl, hni⟩

/-! ### the parallel composite's handler -/

theorem childrenOk_par_underway (x : Node) (cs : TL) (hp : x.isPar = true) (hu : x.underway = true) : childrenOk x cs = true := by
  have hni : (x.st == St.idle) = false := by
    rcases (underway_iff x).1 hu with h | h <;> simp [h]
  unfold childrenOk
  simp [hni, hu, Node.isSerial, hp]

theorem wf_par_underway (x : Node) (cs : TL) (hN : NodeOkP x) (hp : x.isPar = true) (hu : x.underway = true) (hw : WFL cs = true) :
    WF (.node x cs) = true := by
  simp only [WF, Bool.and_eq_true]
  exact ⟨⟨⟨(nodeOk_iff x).2 hN, by simp [par_not_leaf x hp]⟩, childrenOk_par_underway x cs hp hu⟩, hw⟩

theorem parOnChild_wf (d : Node) (cs : TL) (g : G) (i : Nat) (s : Bool) (hN : NodeOkP d) (hpar : d.isPar = true)
    (hni : d.st ≠ .idle) (hch : childrenOk d cs = true) (hw : WFL cs = true) (hg : GI g) :
    HP d cs (parOnChild d cs g i s) := by
  have hnl := par_not_leaf d hpar
  have hns : ∀ x : Node, x.kind = d.kind → x.isSerial = true → False := by
    intro x hx hs; rw [isSerial_congr d x hx] at hs; have := (serial_not_leaf d hs).2; simp [hpar] at this
  have hleaf0 : ∀ (x : Node) (cs' : TL), x.kind = d.kind → (!x.isLeaf || cs'.length == 0) = true := by
    intro x cs' hx; rw [isLeaf_congr d x hx]; simp [hnl]
  unfold parOnChild
  by_cases hr : d.st = .running
  · have hu : d.underway = true := by simp [Node.underway, hr]
    have c1 : (d.st == St.running) = true := by simp [hr]
    simp only [c1, ↓reduceIte]
    have hN0 : NodeOkP { d with finished := mapSet d.finished i s } :=
      nodeOkP_congr d _ hN hni rfl rfl rfl rfl (Or.inl rfl) rfl (Or.inr rfl) rfl rfl (Or.inl rfl)
    have hne : ({ d with finished := mapSet d.finished i s } : Node).st ≠ .finished ∧ ({ d with finished := mapSet d.finished i s } : Node).st ≠ .stoped := by
      show d.st ≠ _ ∧ d.st ≠ _; simp [hr]
    have fin : ∀ (cs' : TL) (g' : G), WFL cs' = true → GI g' → HP d cs (finish3 { d with finished := mapSet d.finished i s } cs' g' true 0) := by
      intro cs' g' hw' hg'
      have f := finish_wf { d with finished := mapSet d.finished i s } cs' g' true 0 hN0 (hleaf0 _ cs' rfl) hw' hg' hne
        (fun x => (hns _ rfl x).elim)
      exact ⟨f.1, f.2.1, R_of_underway d cs _ hu, f.2.2.2.2.1, by show (finish _ cs' g' true 0).1.st ≠ _; rw [f.2.2.2.1]; simp⟩
    split
    · have a := stopAll_wf cs g hw hg
      exact fin (stopAll cs g).1 (stopAll cs g).2 a.1 a.2.1
    · split
      · exact fin cs g hw hg
      · exact ⟨wf_par_underway _ cs hN0 (by rw [← hpar]; exact isPar_congr d _ rfl) hu hw, hg, R_of_underway d cs _ hu, rfl, hni⟩
  · have hr' : (d.st == St.running) = false := by simpa using hr
    simp only [hr', Bool.false_eq_true, ↓reduceIte, hg.1]
    have same : HP d cs (d, cs, g) := by
      refine ⟨?_, hg, R_refl _, rfl, hni⟩
      simp only [WF, Bool.and_eq_true]
      exact ⟨⟨⟨(nodeOk_iff d).2 hN, hleaf0 d cs rfl⟩, hch⟩, hw⟩
    by_cases hp : d.st = .pause
    · have hu : d.underway = true := by simp [Node.underway, hp]
      have c2 : (d.st == St.pause) = true := by simp [hp]
      simp only [c2, Bool.and_self, ↓reduceIte]
      have hN0 : NodeOkP { d with heldPar := d.heldPar ++ [(i, s)] } :=
        nodeOkP_congr d _ hN hni rfl rfl rfl rfl (Or.inl rfl) rfl (Or.inr rfl) rfl rfl (Or.inl rfl)
      exact ⟨wf_par_underway _ cs hN0 (by rw [← hpar]; exact isPar_congr d _ rfl) hu hw, hg, R_of_underway d cs _ hu, rfl, hni⟩
    · have hp' : (d.st == St.pause) = false := by simpa using hp
      simp only [hp', Bool.false_and, Bool.false_eq_true, ↓reduceIte]
      exact same

/-! ### block notification of a child, timers -/

theorem wf_parts (d : Node) (cs : TL) (h : WF (.node d cs) = true) :
    NodeOkP d ∧ (!d.isLeaf || cs.length == 0) = true ∧ childrenOk d cs = true ∧ WFL cs = true := by
  simp only [WF, Bool.and_eq_true] at h
  exact ⟨(nodeOk_iff d).1 h.1.1.1, h.1.1.2, h.1.2, h.2⟩

theorem wf_mk (d : Node) (cs : TL) (h1 : NodeOkP d) (h2 : (!d.isLeaf || cs.length == 0) = true) (h3 : childrenOk d cs = true)
    (h4 : WFL cs = true) : WF (.node d cs) = true := by
  simp only [WF, Bool.and_eq_true]; exact ⟨⟨⟨(nodeOk_iff d).2 h1, h2⟩, h3⟩, h4⟩

theorem block_ended (d : Node) (g : G) (w : Nat) (h : d.st = .finished ∨ d.st = .stoped) : block d g w = (d, g, false) := by
  unfold block; rcases h with h | h <;> simp [h]

theorem onChildBlk_wf (d : Node) (cs : TL) (g : G) (w : Nat) (hWF : WF (.node d cs) = true) (hni : d.st ≠ .idle) (hg : GI g) :
    HP d cs (onChildBlk d cs g w) := by
  obtain ⟨hN, hleaf, hch, hw⟩ := wf_parts d cs hWF
  have same : HP d cs (d, cs, g) := ⟨hWF, hg, R_refl _, rfl, hni⟩
  unfold onChildBlk
  by_cases he : d.st = .finished ∨ d.st = .stoped
  · -- ended: a parallel node ignores it, `block` refuses
    split
    · have : (d.st == St.running) = false := by rcases he with h | h <;> simp [h]
      simp only [this, Bool.false_eq_true, ↓reduceIte]; exact same
    · rw [block_ended d g w he]; exact same
  · have hne : d.st ≠ .finished ∧ d.st ≠ .stoped := by
      constructor <;> intro h <;> exact he (by simp [h])
    have hu : d.underway = true := by
      cases hs : d.st <;> simp_all [Node.underway]
    split
    · rename_i hpar
      split
      · have a := pauseAll_wf cs g hw hg
        have b := nodeOkP_blocked d (pauseAll cs g).2 w a.2.1 hN hne
        have hu' : (block d (pauseAll cs g).2 w).1.underway = true := by simp [Node.underway, b.2.1]
        exact ⟨wf_par_underway _ _ b.1 (by rw [← hpar]; exact isPar_congr d _ b.2.2.1) hu' a.1, b.2.2.2.2.2.1,
          R_of_underway d cs _ hu, b.2.2.1, by rw [b.2.1]; simp⟩
      · exact same
    · have b := nodeOkP_blocked d g w hg hN hne
      have hu' : (block d g w).1.underway = true := by simp [Node.underway, b.2.1]
      refine ⟨wf_mk _ cs b.1 ?_ ?_ hw, b.2.2.2.2.2.1, R_of_underway d cs _ hu, b.2.2.1, by rw [b.2.1]; simp⟩
      · rw [isLeaf_congr d _ b.2.2.1]; exact hleaf
      · refine childrenOk_RL d _ cs cs hch (RL_refl cs) ?_ (by rw [hu', hu]) b.2.2.1 b.2.2.2.1 ?_
        · rw [b.2.1]; have : (d.st == St.idle) = false := by simpa using hni
          rw [this]; decide
        · intro _ hx
          simp only [Bool.and_eq_true, Bool.not_eq_true', List.any_eq_false, Option.isNone_iff_eq_none] at hx ⊢
          refine ⟨by rw [b.2.2.2.2.1]; exact hx.1, ?_⟩
          intro p hp
          cases hr : p.2.isReplay with
          | false => simp
          | true => have := hx.2 p (b.2.2.2.2.2.2.1 p hp hr); simp [hr] at this

/-- `finish` applied to the node `x` = `d` with a timer disarmed and / or queued tasks popped -/
theorem finish3_HP (d : Node) (cs : TL) (g : G) (hWF : WF (.node d cs) = true) (hni : d.st ≠ .idle) (hg : GI g)
    (x : Node) (e1 : x.st = d.st) (e2 : ∀ p ∈ x.tasks, p ∈ d.tasks) (e3 : x.finId = d.finId) (e4 : x.blkId = d.blkId)
    (e5 : x.replayId = d.replayId) (e6 : x.tmoAt = none ∨ x.tmoAt = d.tmoAt) (e7 : x.sleepAt = none ∨ x.sleepAt = d.sleepAt)
    (e8 : x.finals = d.finals) (e9 : x.kind = d.kind) (e10 : x.held = d.held) (e11 : x.curr = d.curr) (s : Bool) (w : Nat) :
    HP d cs (finish3 x cs g s w) := by
  obtain ⟨hN, hleaf, hch, hw⟩ := wf_parts d cs hWF
  have hNx : NodeOkP x := by
    obtain ⟨a1, a2, a3, a4, a5, a6, a7, a8⟩ := hN
    refine ⟨?_, ?_, ?_, ?_, ?_, ?_, ?_, ?_⟩
    · intro id s w hm; rw [e1, e3]; exact a1 id s w (e2 _ hm)
    · intro id w hm; rw [e1, e4]; exact a2 id w (e2 _ hm)
    · intro id h hm; rw [e1, e5, isSerial_congr d x e9, e10]; exact a3 id h (e2 _ hm)
    · intro id hm; rw [e1, e5, isPar_congr d x e9]; exact a4 id (e2 _ hm)
    · rcases e6 with e6 | e6
      · exact Or.inl e6
      · rw [e6, e1]; exact a5
    · rcases e7 with e7 | e7
      · exact Or.inl e7
      · rw [e7, e1]; exact a6
    · rw [e8, e1]; exact a7
    · intro hi; rw [e1] at hi; exact absurd hi hni
  have hleafx : (!x.isLeaf || cs.length == 0) = true := by rw [isLeaf_congr d x e9]; exact hleaf
  have hany : ∀ (q : TK → Bool), x.tasks.any (fun p => q p.2) = true → d.tasks.any (fun p => q p.2) = true := by
    intro q hx; simp only [List.any_eq_true] at hx ⊢
    obtain ⟨p, hp, hq⟩ := hx; exact ⟨p, e2 p hp, hq⟩
  have hchx : childrenOk x cs = true :=
    childrenOk_RL d x cs cs hch (RL_refl cs) (by rw [e1]) (by simp [Node.underway, e1]) e9 e11
      (by intro _ hx
          simp only [Bool.and_eq_true, Bool.not_eq_true'] at hx ⊢
          refine ⟨by rw [e10]; exact hx.1, ?_⟩
          cases hr : x.tasks.any (fun p => p.2.isReplay) with
          | false => rfl
          | true => have := hany TK.isReplay hr; rw [hx.2] at this; cases this)
  by_cases he : d.st = .finished ∨ d.st = .stoped
  · rw [finish3_ended x cs g s w (by rw [e1]; exact he)]
    have hu : d.underway = false := by rcases he with h | h <;> simp [Node.underway, h]
    have hq := children_quiet d cs hch hu
    exact ⟨wf_mk x cs hNx hleafx hchx hw, hg,
      R_of_ended d x cs cs hni (by simp [Node.underway, e1] at hu ⊢; exact hu) hq (hany TK.isFin), e9, by rw [e1]; exact hni⟩
  · have hne : x.st ≠ .finished ∧ x.st ≠ .stoped := by
      rw [e1]; constructor <;> intro h <;> exact he (by simp [h])
    have hu : d.underway = true := by
      cases hs : d.st <;> simp_all [Node.underway]
    have f := finish_wf x cs g s w hNx hleafx hw hg hne (by
      intro hs
      have hux : x.underway = true := by simp [Node.underway, e1] at hu ⊢; exact hu
      have := childrenOk_serial_underway x cs hs hux
      rw [this] at hchx; simp only [Bool.and_eq_true] at hchx; exact hchx.1.1)
    exact ⟨f.1, f.2.1, R_of_underway d cs _ hu, by show (finish x cs g s w).1.kind = _; rw [f.2.2.2.2.1, e9],
      by show (finish x cs g s w).1.st ≠ _; rw [f.2.2.2.1]; simp⟩

theorem onTimer_wf (d : Node) (cs : TL) (g : G) (isSleep : Bool) (hWF : WF (.node d cs) = true) (hg : GI g)
    (htrig : if isSleep then d.sleepAt ≠ none else d.tmoAt ≠ none) :
    HP d cs (onTimer d cs g isSleep) := by
  obtain ⟨hN, hleaf, hch, hw⟩ := wf_parts d cs hWF
  have hni : d.st ≠ .idle := by
    cases isSleep with
    | true => simp at htrig; rcases hN.slp with h | h; exact absurd h htrig; exact h
    | false => simp at htrig; rcases hN.tmo with h | h | h
               · exact absurd h htrig
               · simp [h]
               · simp [h]
  unfold onTimer
  split
  · exact finish3_HP d cs g hWF hni hg { d with sleepAt := none } rfl (fun _ h => h) rfl rfl rfl (Or.inr rfl) (Or.inl rfl) rfl rfl rfl rfl true 3
  · exact finish3_HP d cs g hWF hni hg { d with tmoAt := none } rfl (fun _ h => h) rfl rfl rfl (Or.inl rfl) (Or.inr rfl) rfl rfl rfl rfl false 1

/-! ### popping the queued item of a child -/

theorem R_trans (a b c : T) (h1 : R a b) (h2 : R b c) (hu : b.data.underway = true → a.data.underway = true) : R a c := by
  refine ⟨fun h => h2.1 (h1.1 h), ?_, ?_⟩
  · intro hc; have e := h1.2.1 hc; rw [e] at h2; exact h2.2.1 hc
  · intro hf
    rcases h2.2.2 hf with h | h
    · exact h1.2.2 h
    · exact Or.inr (hu h)

theorem cancelId_eq_of_nil (d : Node) (id : Nat) (h : d.tasks = []) : cancelId d id = d := by
  cases d; simp only [cancelId] at *; subst h; rfl

theorem wf_cancelId (d : Node) (cs : TL) (id : Nat) (h : WF (.node d cs) = true) :
    WF (.node (cancelId d id) cs) = true ∧ R (.node d cs) (.node (cancelId d id) cs) := by
  obtain ⟨hN, hleaf, hch, hw⟩ := wf_parts d cs h
  have sub : ∀ p, p ∈ (cancelId d id).tasks → p ∈ d.tasks := by
    intro p hp; simp only [cancelId, List.mem_filter] at hp; exact hp.1
  have hany : ∀ (q : TK → Bool), (cancelId d id).tasks.any (fun p => q p.2) = true → d.tasks.any (fun p => q p.2) = true := by
    intro q hx; simp only [List.any_eq_true] at hx ⊢
    obtain ⟨p, hp, hq⟩ := hx; exact ⟨p, sub p hp, hq⟩
  refine ⟨wf_mk _ cs (nodeOkP_cancelId d id hN) hleaf ?_ hw, ?_, ?_, ?_⟩
  · refine childrenOk_RL d _ cs cs hch (RL_refl cs) rfl rfl rfl rfl ?_
    intro _ hx
    simp only [Bool.and_eq_true, Bool.not_eq_true'] at hx ⊢
    refine ⟨hx.1, ?_⟩
    cases hr : (cancelId d id).tasks.any (fun p => p.2.isReplay) with
    | false => rfl
    | true => have := hany TK.isReplay hr; rw [hx.2] at this; cases this
  · intro hq; simpa [Quiet, cancelId, Node.underway] using hq
  · intro hc
    simp only [Clean, Bool.and_eq_true] at hc
    rw [cancelId_eq_of_nil d id (clean_fields d hc.1).2.2.1]
  · intro hf; left; rw [hasFin_node] at hf ⊢; exact hany TK.isFin hf

theorem popChild_spec : ∀ (cs : TL) (i id : Nat), WFL cs = true → WFL (popChild cs i id) = true ∧ RL cs (popChild cs i id)
  | .nil, _, _, _ => by simp [popChild, WFL, RL]
  | .cons (.node d ccs) ts, 0, id, h => by
    simp only [WFL, Bool.and_eq_true] at h
    have a := wf_cancelId d ccs id h.1
    simp only [popChild, WFL, RL, Bool.and_eq_true, T.data, T.children]
    exact ⟨⟨a.1, h.2⟩, a.2, RL_refl ts⟩
  | .cons t ts, i + 1, id, h => by
    simp only [WFL, Bool.and_eq_true] at h
    have b := popChild_spec ts i id h.2
    simp only [popChild, WFL, RL, Bool.and_eq_true]
    exact ⟨⟨h.1, b.1⟩, R_refl t, b.2⟩

theorem get_wf : ∀ (cs : TL) (i : Nat) (t : T), WFL cs = true → cs.get? i = some t → WF t = true
  | .cons a ts, 0, t, h, hg => by
    simp only [WFL, Bool.and_eq_true] at h; simp only [TL.get?] at hg; cases hg; exact h.1
  | .cons a ts, i + 1, t, h, hg => by
    simp only [WFL, Bool.and_eq_true] at h; simp only [TL.get?] at hg; exact get_wf ts i t h.2 hg

theorem get_clean : ∀ (cs : TL) (i : Nat) (t : T), CleanL cs = true → cs.get? i = some t → Clean t = true
  | .cons a ts, 0, t, h, hg => by
    simp only [CleanL, Bool.and_eq_true] at h; simp only [TL.get?] at hg; cases hg; exact h.1
  | .cons a ts, i + 1, t, h, hg => by
    simp only [CleanL, Bool.and_eq_true] at h; simp only [TL.get?] at hg; exact get_clean ts i t h.2 hg

theorem get_quiet : ∀ (cs : TL) (i : Nat) (t : T), QuietL cs = true → cs.get? i = some t → Quiet t = true
  | .cons a ts, 0, t, h, hg => by
    simp only [QuietL, Bool.and_eq_true] at h; simp only [TL.get?] at hg; cases hg; exact h.1
  | .cons a ts, i + 1, t, h, hg => by
    simp only [QuietL, Bool.and_eq_true] at h; simp only [TL.get?] at hg; exact get_quiet ts i t h.2 hg

theorem noFinL_get : ∀ (cs : TL) (i : Nat) (t : T), NoFinL cs = true → cs.get? i = some t → hasFin t = false
  | .cons a ts, 0, t, h, hg => by
    simp only [NoFinL, Bool.and_eq_true, Bool.not_eq_true'] at h; simp only [TL.get?] at hg; cases hg; exact h.1
  | .cons a ts, i + 1, t, h, hg => by
    simp only [NoFinL, Bool.and_eq_true] at h; simp only [TL.get?] at hg; exact noFinL_get ts i t h.2 hg

/-- only `curr` may have a finish notification queued -/
theorem noFinExcept_curr : ∀ (cs : TL) (o : Option Nat) (i : Nat) (t : T), NoFinExcept cs o = true → cs.get? i = some t →
    hasFin t = true → o = some i
  | .cons a ts, none, i, t, h, hg, hf => by
    simp only [NoFinExcept] at h
    have := noFinL_get _ i t h hg; rw [hf] at this; cases this
  | .cons a ts, some 0, 0, t, h, hg, hf => rfl
  | .cons a ts, some 0, i + 1, t, h, hg, hf => by
    simp only [NoFinExcept] at h; simp only [TL.get?] at hg
    have := noFinL_get ts i t h hg; rw [hf] at this; cases this
  | .cons a ts, some (j + 1), 0, t, h, hg, hf => by
    simp only [NoFinExcept, Bool.and_eq_true, Bool.not_eq_true'] at h; simp only [TL.get?] at hg
    cases hg; rw [hf] at h; exact absurd h.1 (by simp)
  | .cons a ts, some (j + 1), i + 1, t, h, hg, hf => by
    simp only [NoFinExcept, Bool.and_eq_true] at h; simp only [TL.get?] at hg
    have := noFinExcept_curr ts (some j) i t h.2 hg hf
    cases this; rfl

theorem quietL_of_except_and_child : ∀ (cs : TL) (i : Nat) (t : T), QuietExcept cs (some i) = true → cs.get? i = some t →
    Quiet t = true → QuietL cs = true
  | .cons a ts, 0, t, h, hg, hq => by
    simp only [QuietExcept] at h; simp only [TL.get?] at hg; cases hg
    simp [QuietL, hq, h]
  | .cons a ts, i + 1, t, h, hg, hq => by
    simp only [QuietExcept, Bool.and_eq_true] at h; simp only [TL.get?] at hg
    simp [QuietL, h.1, quietL_of_except_and_child ts i t h.2 hg hq]

theorem noFinL_pop : ∀ (cs : TL) (i id : Nat) (d : Node) (ccs : TL), NoFinExcept cs (some i) = true →
    cs.get? i = some (.node d ccs) → (cancelId d id).tasks.any (fun p => p.2.isFin) = false → NoFinL (popChild cs i id) = true
  | .nil, _, _, _, _, _, hg, _ => by simp [TL.get?] at hg
  | .cons a ts, 0, id, d, ccs, h, hg, hf => by
    simp only [NoFinExcept] at h; simp only [TL.get?] at hg
    cases hg
    simp only [popChild, NoFinL, hasFin_node, T.data, T.children, hf, h]; rfl
  | .cons a ts, i + 1, id, d, ccs, h, hg, hf => by
    simp only [NoFinExcept, Bool.and_eq_true] at h; simp only [TL.get?] at hg
    simp only [popChild, NoFinL, Bool.and_eq_true]
    exact ⟨h.1, noFinL_pop ts i id d ccs h.2 hg hf⟩

/-! ### a queued task runs: pop + handler -/

theorem HP_rebase (d0 d : Node) (cs0 cs : TL) (r : Node × TL × G) (h : HP d cs r) (hR : R (.node d0 cs0) (.node d cs))
    (hu : d.underway = true → d0.underway = true) (hk : d.kind = d0.kind) : HP d0 cs0 r :=
  ⟨h.1, h.2.1, R_trans _ _ _ hR h.2.2.1 hu, by rw [h.2.2.2.1, hk], h.2.2.2.2⟩

theorem R_children (d : Node) (cs cs' : TL) (h : RL cs cs') : R (.node d cs) (.node d cs') := by
  refine ⟨?_, ?_, fun hf => Or.inl hf⟩
  · intro hq; simp only [Quiet, Bool.and_eq_true] at hq ⊢; exact ⟨hq.1, RL_quietL cs cs' h hq.2⟩
  · intro hc; simp only [Clean, Bool.and_eq_true] at hc; rw [RL_cleanL cs cs' h hc.2]

theorem wf_children_RL (d : Node) (cs cs' : TL) (h : WF (.node d cs) = true) (hr : RL cs cs') (hw : WFL cs' = true) :
    WF (.node d cs') = true := by
  obtain ⟨hN, hleaf, hch, _⟩ := wf_parts d cs h
  exact wf_mk d cs' hN (by rw [RL_length cs cs' hr]; exact hleaf)
    (childrenOk_RL d d cs cs' hch hr rfl rfl rfl rfl (fun _ x => x)) hw

theorem not_idle_of_child (d : Node) (cs : TL) (i : Nat) (dc : Node) (ccs : TL) (h : WF (.node d cs) = true)
    (hget : cs.get? i = some (.node dc ccs)) (hne : dc.tasks ≠ []) : d.st ≠ .idle := by
  intro hi
  obtain ⟨_, _, hch, _⟩ := wf_parts d cs h
  have hcl : CleanL cs = true := by simpa [childrenOk, hi] using hch
  have := get_clean cs i _ hcl hget
  simp only [Clean, Bool.and_eq_true] at this
  exact hne (clean_fields dc this.1).2.2.1

theorem childFin_HP (d : Node) (cs : TL) (g : G) (i id : Nat) (s : Bool) (w : Nat) (hWF : WF (.node d cs) = true) (hg : GI g)
    (dc : Node) (ccs : TL) (hget : cs.get? i = some (.node dc ccs)) (hmem : (id, TK.fin s w) ∈ dc.tasks) :
    HP d cs (onChildFin d (popChild cs i id) g i s w) := by
  obtain ⟨hN, hleaf, hch, hw⟩ := wf_parts d cs hWF
  have hni := not_idle_of_child d cs i dc ccs hWF hget (by intro h; rw [h] at hmem; cases hmem)
  have hpop := popChild_spec cs i id hw
  have hWF' := wf_children_RL d cs _ hWF hpop.2 hpop.1
  have hRb := R_children d cs _ hpop.2
  -- the child: Finished, quiet, and after the pop without a finish notification
  have hcWF := get_wf cs i _ hw hget
  obtain ⟨hNc, _, hchc, _⟩ := wf_parts dc ccs hcWF
  have hcfin := hNc.fin id s w hmem
  have hcq : Quiet (.node dc ccs) = true := by
    have hu : dc.underway = false := by simp [Node.underway, hcfin.1]
    simp [Quiet, hu, children_quiet dc ccs hchc hu]
  have hcf : hasFin (.node dc ccs) = true := by
    rw [hasFin_node]; simp only [List.any_eq_true]; exact ⟨_, hmem, rfl⟩
  have hnofin : (cancelId dc id).tasks.any (fun p => p.2.isFin) = false := by
    simp only [List.any_eq_false, cancelId, List.mem_filter, bne_iff_ne, ne_eq]
    intro p hp
    obtain ⟨pid, tk⟩ := p
    cases tk with
    | fin s' w' => have := (hNc.fin pid s' w' hp.1).2.1; exact absurd (this.trans hcfin.2.1.symm) hp.2
    | _ => simp [TK.isFin]
  unfold onChildFin
  split
  · rename_i hpar
    obtain ⟨_, _, hch', hw'⟩ := wf_parts d _ hWF'
    exact HP_rebase d d cs _ _ (parOnChild_wf d _ g i s hN hpar hni hch' hw' hg) hRb (fun h => h) rfl
  · rename_i hpar
    by_cases hl : d.isLeaf = true
    · -- a leaf has no children
      have : cs.length = 0 := by simpa [hl] using hleaf
      cases cs with
      | nil => simp [TL.get?] at hget
      | cons a b => simp [TL.length] at this
    · have hser : d.isSerial = true := by simp [Node.isSerial, hl, hpar]
      have hpre : SPre d (popChild cs i id) := by
        constructor
        · intro hu
          rw [childrenOk_serial_underway d cs hser hu] at hch
          simp only [Bool.and_eq_true, Bool.or_eq_true] at hch
          obtain ⟨⟨hqe, hne⟩, h3⟩ := hch
          have hcur := noFinExcept_curr cs d.curr i _ hne hget hcf
          rw [hcur] at hqe hne
          have hq := quietL_of_except_and_child cs i _ hqe hget hcq
          have h3' : d.held.isNone = true ∧ (!d.tasks.any fun p => p.2.isReplay) = true := by
            rcases h3 with h3 | h3
            · exact h3
            · have := noFinL_get cs i _ h3.2 hget; rw [hcf] at this; cases this
          refine ⟨RL_quietL cs _ hpop.2 hq, noFinL_pop cs i id dc ccs hne hget hnofin, by simpa using h3'.1, ?_⟩
          intro rid h hm
          have : d.tasks.any (fun p => p.2.isReplay) = true := by
            simp only [List.any_eq_true]; exact ⟨_, hm, rfl⟩
          rw [this] at h3'; simp at h3'
        · intro hu
          exact RL_quietL cs _ hpop.2 (children_quiet d cs hch hu)
      exact HP_rebase d d cs _ _ (serialOnChild_wf d _ g i s w hN hser hni hpre hpop.1 hg) hRb (fun h => h) rfl

theorem childBlk_HP (d : Node) (cs : TL) (g : G) (i id w : Nat) (hWF : WF (.node d cs) = true) (hg : GI g)
    (dc : Node) (ccs : TL) (hget : cs.get? i = some (.node dc ccs)) (hmem : (id, TK.blk w) ∈ dc.tasks) :
    HP d cs (onChildBlk d (popChild cs i id) g w) := by
  obtain ⟨hN, hleaf, hch, hw⟩ := wf_parts d cs hWF
  have hni := not_idle_of_child d cs i dc ccs hWF hget (by intro h; rw [h] at hmem; cases hmem)
  have hpop := popChild_spec cs i id hw
  have hWF' := wf_children_RL d cs _ hWF hpop.2 hpop.1
  exact HP_rebase d d cs _ _ (onChildBlk_wf d _ g w hWF' hni hg) (R_children d cs _ hpop.2) (fun h => h) rfl

theorem parOnChild_ended (x : Node) (cs : TL) (g : G) (i : Nat) (s : Bool) (hu : x.underway = false) :
    parOnChild x cs g i s = (x, cs, g) := by
  have h1 : (x.st == St.running) = false := by
    cases hs : x.st <;> simp_all [Node.underway]
  have h2 : (x.st == St.pause) = false := by
    cases hs : x.st <;> simp_all [Node.underway]
  unfold parOnChild; simp [h1, h2]

theorem par_fold : ∀ (l : List (Nat × Bool)) (x : Node) (cs : TL) (g : G), NodeOkP x → x.isPar = true → x.st ≠ .idle →
    childrenOk x cs = true → (!x.isLeaf || cs.length == 0) = true → WFL cs = true → GI g →
    let r := l.foldl (fun (p : Node × TL × G) r => parOnChild p.1 p.2.1 p.2.2 r.1 r.2) (x, cs, g)
    WF (.node r.1 r.2.1) = true ∧ GI r.2.2 ∧ r.1.kind = x.kind ∧ r.1.st ≠ .idle ∧ (x.underway = false → r = (x, cs, g))
  | [], x, cs, g, hN, hp, hni, hch, hl, hw, hg => ⟨wf_mk x cs hN hl hch hw, hg, rfl, hni, fun _ => rfl⟩
  | (i, s) :: l, x, cs, g, hN, hp, hni, hch, hl, hw, hg => by
    have a := parOnChild_wf x cs g i s hN hp hni hch hw hg
    obtain ⟨aN, al, ach, aw⟩ := wf_parts _ _ a.1
    have ih := par_fold l (parOnChild x cs g i s).1 (parOnChild x cs g i s).2.1 (parOnChild x cs g i s).2.2 aN
      (by rw [← hp]; exact isPar_congr x _ a.2.2.2.1) a.2.2.2.2 ach al aw a.2.1
    simp only [List.foldl_cons]
    refine ⟨ih.1, ih.2.1, by rw [ih.2.2.1, a.2.2.2.1], ih.2.2.2.1, ?_⟩
    intro hu
    have e := parOnChild_ended x cs g i s hu
    have := ih.2.2.2.2 (by rw [e]; exact hu)
    rw [this, e]

theorem replay_HP (d : Node) (cs : TL) (g : G) (id : Nat) (tk : TK) (hWF : WF (.node d cs) = true) (hg : GI g)
    (hmem : (id, tk) ∈ d.tasks) (hr : tk.isReplay = true) : HP d cs (onReplay (cancelId d id) cs g tk) := by
  obtain ⟨hN, hleaf, hch, hw⟩ := wf_parts d cs hWF
  have c := wf_cancelId d cs id hWF
  obtain ⟨hN1, hleaf1, hch1, _⟩ := wf_parts _ cs c.1
  have sub : ∀ p, p ∈ (cancelId d id).tasks → p ∈ d.tasks ∧ p.1 ≠ id := by
    intro p hp; simp only [cancelId, List.mem_filter, bne_iff_ne, ne_eq] at hp; exact hp
  cases tk with
  | fin _ _ => simp [TK.isReplay] at hr
  | blk _ => simp [TK.isReplay] at hr
  | replay h =>
    have hrep := hN.rep id h hmem
    have hni : d.st ≠ .idle := hrep.2.2.1
    have hnorep : ∀ rid x, (rid, TK.replay x) ∉ (cancelId d id).tasks := by
      intro rid x hm
      have := sub _ hm
      exact this.2 ((hN.rep rid x this.1).1.trans hrep.1.symm)
    cases h with
    | child i s w =>
      have hpre : SPre (cancelId d id) cs := by
        constructor
        · intro hu
          have hu' : d.underway = true := hu
          rw [childrenOk_serial_underway d cs hrep.2.2.2.2.1 hu'] at hch
          simp only [Bool.and_eq_true, Bool.or_eq_true] at hch
          obtain ⟨⟨hqe, hne⟩, h3⟩ := hch
          have hany : d.tasks.any (fun p => p.2.isReplay) = true := by
            simp only [List.any_eq_true]; exact ⟨_, hmem, rfl⟩
          rcases h3 with h3 | h3
          · rw [hany] at h3; simp at h3
          · have hcn : d.curr = none := by simpa using h3.1
            rw [hcn] at hqe
            exact ⟨quietL_of_except_none cs hqe, h3.2, hrep.2.2.2.2.2, hnorep⟩
        · intro hu; exact children_quiet d cs hch hu
      exact HP_rebase d _ cs cs _ (serialOnChild_wf (cancelId d id) cs g i s w hN1
        (by rw [← hrep.2.2.2.2.1]; exact isSerial_congr d _ rfl) hni hpre hw hg) c.2 (fun h => h) rfl
    | last s w =>
      exact finish3_HP d cs g hWF hni hg (cancelId d id) rfl (fun p hp => (sub p hp).1) rfl rfl rfl (Or.inr rfl) (Or.inr rfl) rfl rfl rfl rfl s w
  | replayPar =>
    have hrep := hN.repp id hmem
    have hni : d.st ≠ .idle := hrep.2.2.1
    have hpar := hrep.2.2.2.2
    have hnl := par_not_leaf d hpar
    have hN0 : NodeOkP { cancelId d id with heldPar := [], replayId := 0 } := by
      refine nodeOkP_congr (cancelId d id) _ hN1 hni rfl rfl rfl rfl (Or.inr ⟨?_, ?_⟩) rfl (Or.inr rfl) rfl rfl (Or.inl rfl)
      · intro rid x hm
        have := (hN.rep rid x (sub _ hm).1).2.2.2.2.1
        have := (serial_not_leaf d this).2; simp [hpar] at this
      · intro rid hm
        have := sub _ hm
        exact this.2 ((hN.repp rid this.1).1.trans hrep.1.symm)
    have hch0 : childrenOk { cancelId d id with heldPar := [], replayId := 0 } cs = true :=
      childrenOk_RL d _ cs cs hch (RL_refl cs) rfl rfl rfl rfl
        (by intro hs; have := (serial_not_leaf d hs).2; simp [hpar] at this)
    have f := par_fold (cancelId d id).heldPar { cancelId d id with heldPar := [], replayId := 0 } cs g hN0
      (by rw [← hpar]; exact isPar_congr d _ rfl) hni hch0 (by simp [Node.isLeaf] at hnl ⊢; exact Or.inl hnl) hw hg
    simp only [onReplay]
    refine ⟨f.1, f.2.1, ?_, f.2.2.1, f.2.2.2.1⟩
    by_cases hu : d.underway = true
    · exact R_of_underway d cs _ hu
    · have hu' : d.underway = false := by simpa using hu
      have e := f.2.2.2.2 hu'
      rw [e]
      exact R_of_ended d _ cs cs hni hu' (children_quiet d cs hch hu')
        (by intro hx; simp only [List.any_eq_true] at hx ⊢; obtain ⟨p, hp, hq⟩ := hx; exact ⟨p, (sub p hp).1, hq⟩)

/-! ### lifting a handler that runs somewhere inside the tree -/

theorem HP3 {d : Node} {cs : TL} {r : Node × TL × G} (h : HP d cs r) :
    WF (.node r.1 r.2.1) = true ∧ GI r.2.2 ∧ R (.node d cs) (.node r.1 r.2.1) := ⟨h.1, h.2.1, h.2.2.1⟩


mutual
theorem lift : ∀ (t : T) (path : List Nat) (f : Node → TL → G → Node × TL × G) (g : G) (d : Node) (cs : TL),
    WF t = true → subAt t path = some (.node d cs) →
    (WF (.node (f d cs g).1 (f d cs g).2.1) = true ∧ GI (f d cs g).2.2 ∧ R (.node d cs) (.node (f d cs g).1 (f d cs g).2.1)) →
    WF (modifyAt t path f g).1 = true ∧ GI (modifyAt t path f g).2 ∧ R t (modifyAt t path f g).1
  | .node d0 cs0, [], f, g, d, cs, h, hs, hp => by
    simp only [subAt, Option.some.injEq, T.node.injEq] at hs
    obtain ⟨e1, e2⟩ := hs; subst e1; subst e2
    simp only [modifyAt]
    exact hp
  | .node d0 cs0, i :: p, f, g, d, cs, h, hs, hp => by
    simp only [subAt] at hs
    obtain ⟨_, _, _, hw⟩ := wf_parts d0 cs0 h
    have a := liftL cs0 i p f g d cs hw hs hp
    simp only [modifyAt]
    exact ⟨wf_children_RL d0 cs0 _ h a.2.2 a.1, a.2.1, R_children d0 cs0 _ a.2.2⟩
theorem liftL : ∀ (cs0 : TL) (i : Nat) (path : List Nat) (f : Node → TL → G → Node × TL × G) (g : G) (d : Node) (cs : TL),
    WFL cs0 = true → subAtL cs0 i path = some (.node d cs) →
    (WF (.node (f d cs g).1 (f d cs g).2.1) = true ∧ GI (f d cs g).2.2 ∧ R (.node d cs) (.node (f d cs g).1 (f d cs g).2.1)) →
    WFL (modifyAtL cs0 i path f g).1 = true ∧ GI (modifyAtL cs0 i path f g).2 ∧ RL cs0 (modifyAtL cs0 i path f g).1
  | .nil, _, _, _, _, _, _, _, hs, _ => by simp [subAtL] at hs
  | .cons t ts, 0, p, f, g, d, cs, h, hs, hp => by
    simp only [WFL, Bool.and_eq_true] at h
    simp only [subAtL] at hs
    have a := lift t p f g d cs h.1 hs hp
    simp only [modifyAtL, WFL, RL, Bool.and_eq_true]
    exact ⟨⟨a.1, h.2⟩, a.2.1, a.2.2, RL_refl ts⟩
  | .cons t ts, i + 1, p, f, g, d, cs, h, hs, hp => by
    simp only [WFL, Bool.and_eq_true] at h
    simp only [subAtL] at hs
    have b := liftL ts i p f g d cs h.2 hs hp
    simp only [modifyAtL, WFL, RL, Bool.and_eq_true]
    exact ⟨⟨h.1, b.1⟩, b.2.1, R_refl t, b.2.2⟩
end

mutual
theorem subAt_wf : ∀ (t : T) (path : List Nat) (s : T), WF t = true → subAt t path = some s → WF s = true
  | t, [], s, h, hs => by simp only [subAt, Option.some.injEq] at hs; subst hs; exact h
  | .node d cs, i :: p, s, h, hs => by
    simp only [subAt] at hs
    exact subAtL_wf cs i p s (wf_parts d cs h).2.2.2 hs
theorem subAtL_wf : ∀ (cs : TL) (i : Nat) (path : List Nat) (s : T), WFL cs = true → subAtL cs i path = some s → WF s = true
  | .nil, _, _, _, _, hs => by simp [subAtL] at hs
  | .cons t ts, 0, p, s, h, hs => by
    simp only [WFL, Bool.and_eq_true] at h; simp only [subAtL] at hs; exact subAt_wf t p s h.1 hs
  | .cons t ts, i + 1, p, s, h, hs => by
    simp only [WFL, Bool.and_eq_true] at h; simp only [subAtL] at hs; exact subAtL_wf ts i p s h.2 hs
end

theorem subAtL_nil_get : ∀ (cs : TL) (i : Nat), subAtL cs i [] = cs.get? i
  | .nil, _ => by simp [subAtL, TL.get?]
  | .cons t ts, 0 => by simp [subAtL, subAt, TL.get?]
  | .cons t ts, i + 1 => by simp [subAtL, TL.get?, subAtL_nil_get ts i]

mutual
theorem subAt_snoc : ∀ (t : T) (pp : List Nat) (i : Nat) (c : T), subAt t (pp ++ [i]) = some c →
    ∃ d cs, subAt t pp = some (.node d cs) ∧ cs.get? i = some c
  | .node d cs, [], i, c, h => by
    simp only [List.nil_append, subAt] at h
    rw [subAtL_nil_get] at h
    exact ⟨d, cs, rfl, h⟩
  | .node d cs, j :: pp, i, c, h => by
    simp only [List.cons_append, subAt] at h ⊢
    exact subAtL_snoc cs j pp i c h
theorem subAtL_snoc : ∀ (cs0 : TL) (j : Nat) (pp : List Nat) (i : Nat) (c : T), subAtL cs0 j (pp ++ [i]) = some c →
    ∃ d cs, subAtL cs0 j pp = some (.node d cs) ∧ cs.get? i = some c
  | .nil, _, _, _, _, h => by simp [subAtL] at h
  | .cons t ts, 0, pp, i, c, h => by simp only [subAtL] at h ⊢; exact subAt_snoc t pp i c h
  | .cons t ts, j + 1, pp, i, c, h => by simp only [subAtL] at h ⊢; exact subAtL_snoc ts j pp i c h
end

theorem splitLast_some : ∀ (path pp : List Nat) (i : Nat), splitLast path = some (pp, i) → path = pp ++ [i]
  | [], _, _, h => by simp [splitLast] at h
  | [a], pp, i, h => by simp [splitLast] at h; obtain ⟨h1, h2⟩ := h; subst h1; subst h2; rfl
  | a :: b :: rest, pp, i, h => by
    simp only [splitLast] at h
    cases hr : splitLast (b :: rest) with
    | none => simp [hr] at h
    | some q =>
      obtain ⟨p', l⟩ := q
      simp [hr] at h
      obtain ⟨h1, h2⟩ := h; subst h1; subst h2
      rw [splitLast_some (b :: rest) p' l hr]; rfl

theorem splitLast_none : ∀ (path : List Nat), splitLast path = none → path = []
  | [], _ => rfl
  | [a], h => by simp [splitLast] at h
  | a :: b :: rest, h => by
    simp only [splitLast] at h
    cases hr : splitLast (b :: rest) with
    | none => have := splitLast_none (b :: rest) hr; cases this
    | some q => simp [hr] at h

mutual
theorem allTasks_at : ∀ (t : T) (pre : List Nat) (x : Nat × List Nat × TK), x ∈ allTasks t pre →
    ∃ p, x.2.1 = pre ++ p ∧ ∃ d cs, subAt t p = some (.node d cs) ∧ (x.1, x.2.2) ∈ d.tasks
  | .node d cs, pre, x, h => by
    simp only [allTasks, List.mem_append, List.mem_map] at h
    rcases h with ⟨q, hq, e⟩ | h
    · subst e; exact ⟨[], by simp, d, cs, rfl, hq⟩
    · obtain ⟨j, p, e, d', cs', hs, hm⟩ := allTasksL_at cs pre 0 x h
      refine ⟨j :: p, by simpa using e, d', cs', ?_, hm⟩
      simp only [subAt]; exact hs
theorem allTasksL_at : ∀ (cs : TL) (pre : List Nat) (k : Nat) (x : Nat × List Nat × TK), x ∈ allTasksL cs pre k →
    ∃ j p, x.2.1 = pre ++ [k + j] ++ p ∧ ∃ d cs', subAtL cs j p = some (.node d cs') ∧ (x.1, x.2.2) ∈ d.tasks
  | .nil, _, _, _, h => by simp [allTasksL] at h
  | .cons t ts, pre, k, x, h => by
    simp only [allTasksL, List.mem_append] at h
    rcases h with h | h
    · obtain ⟨p, e, d, cs', hs, hm⟩ := allTasks_at t (pre ++ [k]) x h
      exact ⟨0, p, by simpa using e, d, cs', by simpa [subAtL] using hs, hm⟩
    · obtain ⟨j, p, e, d, cs', hs, hm⟩ := allTasksL_at ts pre (k + 1) x h
      refine ⟨j + 1, p, ?_, d, cs', by simpa [subAtL] using hs, hm⟩
      rw [e]; have : k + 1 + j = k + (j + 1) := by omega
      rw [this]
end

/-! ### the loop -/

theorem runTask_wf (t : T) (g : G) (id : Nat) (h : WF t = true) (hg : GI g) :
    WF (runTask t g id).1 = true ∧ GI (runTask t g id).2 := by
  unfold runTask
  cases hf : (allTasks t []).find? (fun x => x.1 == id) with
  | none => exact ⟨h, hg⟩
  | some x =>
    obtain ⟨id', path, tk⟩ := x
    have hid : id' = id := by have := List.find?_some hf; simpa using this
    subst hid
    obtain ⟨p, e, dN, csN, hs, hm⟩ := allTasks_at t [] _ (List.mem_of_find?_eq_some hf)
    simp only [List.nil_append] at e; subst e
    simp only at hm hs
    cases tk with
    | fin s w =>
      simp only
      cases hsl : splitLast path with
      | none =>
        have := splitLast_none path hsl; subst this
        obtain ⟨d, cs⟩ := t
        simp only [T.data, T.children]
        exact ⟨(wf_cancelId d cs id' h).1, hg⟩
      | some q =>
        obtain ⟨pp, i⟩ := q
        have := splitLast_some path pp i hsl; subst this
        obtain ⟨d, cs, hs', hget⟩ := subAt_snoc t pp i _ hs
        have a := lift t pp (fun d cs g => onChildFin d (popChild cs i id') g i s w) g d cs h hs'
          (HP3 (childFin_HP d cs g i id' s w (subAt_wf t pp _ h hs') hg dN csN hget hm))
        exact ⟨a.1, a.2.1⟩
    | blk w =>
      simp only
      cases hsl : splitLast path with
      | none =>
        have := splitLast_none path hsl; subst this
        obtain ⟨d, cs⟩ := t
        simp only [T.data, T.children]
        exact ⟨(wf_cancelId d cs id' h).1, hg⟩
      | some q =>
        obtain ⟨pp, i⟩ := q
        have := splitLast_some path pp i hsl; subst this
        obtain ⟨d, cs, hs', hget⟩ := subAt_snoc t pp i _ hs
        have a := lift t pp (fun d cs g => onChildBlk d (popChild cs i id') g w) g d cs h hs'
          (HP3 (childBlk_HP d cs g i id' w (subAt_wf t pp _ h hs') hg dN csN hget hm))
        exact ⟨a.1, a.2.1⟩
    | replay hh =>
      simp only
      have a := lift t path (fun d cs g => onReplay (cancelId d id') cs g (.replay hh)) g dN csN h hs
        (HP3 (replay_HP dN csN g id' _ (subAt_wf t path _ h hs) hg hm rfl))
      exact ⟨a.1, a.2.1⟩
    | replayPar =>
      simp only
      have a := lift t path (fun d cs g => onReplay (cancelId d id') cs g .replayPar) g dN csN h hs
        (HP3 (replay_HP dN csN g id' _ (subAt_wf t path _ h hs) hg hm rfl))
      exact ⟨a.1, a.2.1⟩

mutual
theorem modifyAt_none : ∀ (t : T) (path : List Nat) (f : Node → TL → G → Node × TL × G) (g : G),
    subAt t path = none → modifyAt t path f g = (t, g)
  | t, [], _, _, h => by simp [subAt] at h
  | .node d cs, i :: p, f, g, h => by
    simp only [subAt] at h
    simp only [modifyAt, modifyAtL_none cs i p f g h]
theorem modifyAtL_none : ∀ (cs : TL) (i : Nat) (path : List Nat) (f : Node → TL → G → Node × TL × G) (g : G),
    subAtL cs i path = none → modifyAtL cs i path f g = (cs, g)
  | .nil, _, _, _, _, _ => by simp [modifyAtL]
  | .cons t ts, 0, p, f, g, h => by
    simp only [subAtL] at h
    simp only [modifyAtL, modifyAt_none t p f g h]
  | .cons t ts, i + 1, p, f, g, h => by
    simp only [subAtL] at h
    simp only [modifyAtL, modifyAtL_none ts i p f g h]
end

theorem fireOne_wf (t : T) (g : G) (dl : Nat) (path : List Nat) (isSleep : Bool) (h : WF t = true) (hg : GI g) :
    WF (fireOne t g dl path isSleep).1 = true ∧ GI (fireOne t g dl path isSleep).2 := by
  unfold fireOne
  cases hs : subAt t path with
  | none => rw [modifyAt_none t path _ g hs]; exact ⟨h, hg⟩
  | some s =>
    obtain ⟨d, cs⟩ := s
    have hWF := subAt_wf t path _ h hs
    have a := lift t path (fun d cs g =>
        if (if isSleep then d.sleepAt else d.tmoAt) == some dl then onTimer d cs g isSleep else (d, cs, g)) g d cs h hs (by
      by_cases hc : ((if isSleep = true then d.sleepAt else d.tmoAt) == some dl) = true
      · simp only [hc, ↓reduceIte]
        refine HP3 (onTimer_wf d cs g isSleep hWF hg ?_)
        cases isSleep with
        | true => simp at hc ⊢; rw [hc]; simp
        | false => simp at hc ⊢; rw [hc]; simp
      · simp only [hc, Bool.false_eq_true, ↓reduceIte]
        exact ⟨hWF, hg, R_refl _⟩)
    exact ⟨a.1, a.2.1⟩

theorem fold_wf {α : Type} (step : T × G → α → T × G)
    (hstep : ∀ t g x, WF t = true → GI g → WF (step (t, g) x).1 = true ∧ GI (step (t, g) x).2) :
    ∀ (l : List α) (t : T) (g : G), WF t = true → GI g → WF (l.foldl step (t, g)).1 = true ∧ GI (l.foldl step (t, g)).2
  | [], t, g, h, hg => ⟨h, hg⟩
  | x :: l, t, g, h, hg => by
    have a := hstep t g x h hg
    simp only [List.foldl_cons]
    exact fold_wf step hstep l (step (t, g) x).1 (step (t, g) x).2 a.1 a.2

theorem fireTimers_wf (t : T) (g : G) (h : WF t = true) (hg : GI g) :
    WF (fireTimers t g).1 = true ∧ GI (fireTimers t g).2 := by
  unfold fireTimers
  exact fold_wf (fun (p : T × G) (x : Nat × List Nat × Bool) => fireOne p.1 p.2 x.1 x.2.1 x.2.2)
    (fun t g x h hg => fireOne_wf t g x.1 x.2.1 x.2.2 h hg) _ t g h hg

theorem doCall_wf (t : T) (g : G) (c : Call) (h : WF t = true) (hg : GI g) :
    WF (doCall t g c).1 = true ∧ GI (doCall t g c).2.1 := by
  cases c with
  | start => have a := start_wf t g h hg; exact ⟨a.1, a.2.1⟩
  | pause => have a := pause_wf t g h hg; exact ⟨a.1, a.2.1⟩
  | resume => have a := resume_wf t g h hg; exact ⟨a.1, a.2.1⟩
  | stop => have a := stop_wf t g h hg; exact ⟨a.1, a.2.1⟩
  | reset => have a := reset_wf t g h hg; exact ⟨a.1, a.2.1⟩
  | emitFin n s =>
    simp only [doCall]
    split
    · exact ⟨h, hg⟩
    · rename_i p hp
      split
      · rename_i hrd
        unfold runningDummyAt at hrd
        cases hs : subAt t p with
        | none => simp [hs] at hrd
        | some sub =>
          obtain ⟨d, cs⟩ := sub
          simp only [hs, T.data, Bool.and_eq_true, beq_iff_eq] at hrd
          have hWF := subAt_wf t p _ h hs
          have a := lift t p (fun d cs g => finish3 d cs g s 0) g d cs h hs
            (HP3 (finish3_HP d cs g hWF (by simp [hrd.2]) hg d rfl (fun _ x => x) rfl rfl rfl (Or.inr rfl) (Or.inr rfl) rfl rfl rfl rfl s 0))
          exact ⟨a.1, a.2.1⟩
      · exact ⟨h, hg⟩
  | emitBlk n =>
    simp only [doCall]
    split
    · exact ⟨h, hg⟩
    · rename_i p hp
      split
      · rename_i hrd
        unfold runningDummyAt at hrd
        cases hs : subAt t p with
        | none => simp [hs] at hrd
        | some sub =>
          obtain ⟨d, cs⟩ := sub
          simp only [hs, T.data, Bool.and_eq_true, beq_iff_eq] at hrd
          have hWF := subAt_wf t p _ h hs
          have hnp : d.isPar = false := by simp [Node.isPar, hrd.1]
          have hb := onChildBlk_wf d cs g 0 hWF (by simp [hrd.2]) hg
          have e : onChildBlk d cs g 0 = ((block d g 0).1, cs, (block d g 0).2.1) := by simp [onChildBlk, hnp]
          rw [e] at hb
          have a := lift t p (fun d cs g => ((block d g 0).1, cs, (block d g 0).2.1)) g d cs h hs (HP3 hb)
          exact ⟨a.1, a.2.1⟩
      · exact ⟨h, hg⟩

theorem doCalls_wf (t : T) (g : G) (cs : List Call) (h : WF t = true) (hg : GI g) :
    WF (doCalls t g cs).1 = true ∧ GI (doCalls t g cs).2.1 := by
  unfold doCalls
  suffices hgen : ∀ (l : List Call) (t : T) (g : G) (acc : List Bool), WF t = true → GI g →
      WF (l.foldl (fun (p : T × G × List Bool) c => ((doCall p.1 p.2.1 c).1, (doCall p.1 p.2.1 c).2.1, p.2.2 ++ [(doCall p.1 p.2.1 c).2.2])) (t, g, acc)).1 = true ∧
      GI (l.foldl (fun (p : T × G × List Bool) c => ((doCall p.1 p.2.1 c).1, (doCall p.1 p.2.1 c).2.1, p.2.2 ++ [(doCall p.1 p.2.1 c).2.2])) (t, g, acc)).2.1 from
    hgen cs t g [] h hg
  intro l
  induction l with
  | nil => intro t g acc h hg; exact ⟨h, hg⟩
  | cons c l ih =>
    intro t g acc h hg
    have a := doCall_wf t g c h hg
    simp only [List.foldl_cons]
    exact ih _ _ _ a.1 a.2

theorem runUser_wf (t : T) (g : G) (cs : List Call) (h : WF t = true) (hg : GI g) :
    WF (runUser t g cs).1 = true ∧ GI (runUser t g cs).2 := by
  unfold runUser
  exact fold_wf (fun (q : T × G) c => ((doCall q.1 q.2 c).1, (doCall q.1 q.2 c).2.1.emit (.ret (doCall q.1 q.2 c).2.2)))
    (fun t g c h hg => by have a := doCall_wf t g c h hg; exact ⟨a.1, GI_emit _ _ a.2⟩) cs t g h hg

theorem runItem_wf (t : T) (g : G) (id : Nat) (h : WF t = true) (hg : GI g) :
    WF (runItem t g id).1 = true ∧ GI (runItem t g id).2 := by
  unfold runItem
  split
  · exact runUser_wf t _ _ h hg
  · exact runTask_wf t g id h hg

theorem runQueue_wf (t : T) (g : G) (h : WF t = true) (hg : GI g) :
    WF (runQueue t g).1 = true ∧ GI (runQueue t g).2 := by
  unfold runQueue
  exact fold_wf (fun (p : T × G) (x : Nat × Unit) => runItem p.1 p.2 x.1)
    (fun t g x h hg => runItem_wf t g x.1 h hg) _ t g h hg

theorem step_wf (t : T) (g : G) (op : Op) (h : WF t = true) (hg : GI g) :
    WF (step t g op).1 = true ∧ GI (step t g op).2.1 := by
  have a : WF (applyOp t g op).1 = true ∧ GI (applyOp t g op).2.1 := by
    cases op with
    | calls cs => exact doCalls_wf t g cs h hg
    | defer cs => exact ⟨h, hg.1, by simp only [applyOp]; have := hg.2; omega⟩
    | adv ms => exact ⟨h, hg⟩
    | pass => exact ⟨h, hg⟩
  have q := runQueue_wf _ _ a.1 a.2
  have f := fireTimers_wf _ _ q.1 q.2
  exact f

theorem run_wf : ∀ (ops : List Op) (t : T) (g : G), WF t = true → GI g → WF (run t g ops).1 = true ∧ GI (run t g ops).2
  | [], t, g, h, hg => ⟨h, hg⟩
  | op :: ops, t, g, h, hg => by
    have a := step_wf t g op h hg
    simp only [run]
    exact run_wf ops _ _ a.1 a.2

/-! ### freshly built trees, and what `WF` says in plain words -/

mutual
/-- leaves have no children (what the parser builds) -/
def LeafShape : T → Bool
  | .node d cs => (!d.isLeaf || cs.length == 0) && LeafShapeL cs
def LeafShapeL : TL → Bool
  | .nil => true
  | .cons t ts => LeafShape t && LeafShapeL ts
end

mutual
theorem wf_of_clean : ∀ (t : T), Clean t = true → LeafShape t = true → WF t = true
  | .node d cs, hc, hl => by
    simp only [Clean, LeafShape, Bool.and_eq_true] at hc hl
    exact (wf_clean_node d cs hc.1 hl.1 hc.2 (wfL_of_cleanL cs hc.2 hl.2)).1
theorem wfL_of_cleanL : ∀ (cs : TL), CleanL cs = true → LeafShapeL cs = true → WFL cs = true
  | .nil, _, _ => by simp [WFL]
  | .cons t ts, hc, hl => by
    simp only [CleanL, LeafShapeL, Bool.and_eq_true] at hc hl
    simp [WFL, wf_of_clean t hc.1 hl.1, wfL_of_cleanL ts hc.2 hl.2]
end

theorem GI_init : GI {} := ⟨rfl, by decide⟩

/-- **the tree invariant holds in every reachable state** -/
theorem reachable_wf (t : T) (ops : List Op) (hc : Clean t = true) (hl : LeafShape t = true) :
    WF (run t {} ops).1 = true ∧ GI (run t {} ops).2 :=
  run_wf ops t {} (wf_of_clean t hc hl) GI_init

mutual
/-- every action of the tree satisfies `P` -/
def AllNodes (P : Node → Bool) : T → Bool
  | .node d cs => P d && AllNodesL P cs
def AllNodesL (P : Node → Bool) : TL → Bool
  | .nil => true
  | .cons t ts => AllNodes P t && AllNodesL P ts
end

mutual
theorem wf_allNodes : ∀ (t : T), WF t = true → AllNodes nodeOk t = true
  | .node d cs, h => by
    simp only [WF, Bool.and_eq_true] at h
    simp [AllNodes, h.1.1.1, wfL_allNodes cs h.2]
theorem wfL_allNodes : ∀ (cs : TL), WFL cs = true → AllNodesL nodeOk cs = true
  | .nil, _ => by simp [AllNodesL]
  | .cons t ts, h => by
    simp only [WFL, Bool.and_eq_true] at h
    simp [AllNodesL, wf_allNodes t h.1, wfL_allNodes ts h.2]
end

mutual
/-- below every action that is not under way nothing is running or paused -/
def EndedQuiet : T → Bool
  | .node d cs => (d.underway || QuietL cs) && EndedQuietL cs
def EndedQuietL : TL → Bool
  | .nil => true
  | .cons t ts => EndedQuiet t && EndedQuietL ts
end

mutual
theorem wf_endedQuiet : ∀ (t : T), WF t = true → EndedQuiet t = true
  | .node d cs, h => by
    obtain ⟨_, _, hch, hw⟩ := wf_parts d cs h
    simp only [EndedQuiet, Bool.and_eq_true, Bool.or_eq_true]
    refine ⟨?_, wfL_endedQuiet cs hw⟩
    by_cases hu : d.underway = true
    · exact Or.inl hu
    · exact Or.inr (children_quiet d cs hch (by simpa using hu))
theorem wfL_endedQuiet : ∀ (cs : TL), WFL cs = true → EndedQuietL cs = true
  | .nil, _ => by simp [EndedQuietL]
  | .cons t ts, h => by
    simp only [WFL, Bool.and_eq_true] at h
    simp [EndedQuietL, wf_endedQuiet t h.1, wfL_endedQuiet ts h.2]
end

end Tbox.C17
