/-
C17 — late loop passes and C++ widths (round 9).

* `stepLate`: in `step` every clock step is followed at once by the timer phase, so a control call never sees a
  timer that is due but has not fired.  In the real loop time passes between the timer phase of a pass and its
  fd callbacks: `pause()` may find `finish_time_ < now` (SleepAction: negative `remain_time_span_`, converted to
  `uint64_t` by `TimerEventImpl::enable` → `CommonLoop::addTimer`).  `stepLate t g ms cs` = the clock moves by `ms`
  AFTER the timer phase, then the control calls `cs` of this pass, the rest of the pass, the next timer phase.
* the widths of the C++ quantities the model keeps as `Nat` / `Int`: `remain_times_` (size_t), the timer deadline
  (`uint64_t expired = now + interval`), `finish_time_` (int64 nanoseconds).
-/
import TboxModel.C17.Reent
namespace Tbox.C17

/-- a late pass: clock += ms between the timer phase and the control calls of the same pass -/
def stepLate (t : T) (g : G) (ms : Nat) (cs : List Call) : T × G × List Bool :=
  step t { g with now := g.now + ms } (.calls cs)

/-- the same with callback scripts on the root -/
def stepLateR (t : T) (g : G) (ms : Nat) (cs : List Call) : T × G × List Bool :=
  stepR t { g with now := g.now + ms } (.op (.calls cs))

/-- ops of `run` plus late passes -/
inductive OpL where
  | op (o : Op)
  | late (ms : Nat) (cs : List Call)
deriving Repr

def stepL (t : T) (g : G) : OpL → T × G × List Bool
  | .op o => step t g o
  | .late ms cs => stepLate t g ms cs

def runL (t : T) (g : G) : List OpL → T × G
  | [] => (t, g)
  | o :: ops => runL (stepL t g o).1 (stepL t g o).2.1 ops

/-! ### C++ widths -/

/-- `RepeatAction::onStart`: `remain_times_ = repeat_times_ - 1` in `size_t` (64 bit) -/
def remainTimes64 (times : Nat) : Nat := (times % 2 ^ 64 + (2 ^ 64 - 1)) % 2 ^ 64

/-- `CommonLoop::addTimer(uint64_t interval)` called with `interval_.count()` (int64 milliseconds):
`expired = now + (uint64_t)interval` in `uint64_t` -/
def deadline64 (now : Nat) (interval : Int) : Nat := (now % 2 ^ 64 + (interval % (2 ^ 64 : Int)).toNat) % 2 ^ 64

/-- `SleepAction::onStart`: `finish_time_ = steady_clock::now() + time_span` is an int64 count of NANOseconds -/
def finishTimeFits (nowMs ms : Nat) : Bool := (nowMs + ms) * 1000000 < 2 ^ 63

end Tbox.C17
