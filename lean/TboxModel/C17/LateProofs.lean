/- C17 — late passes keep the tree invariant; the C++ widths behind the model's `Nat` / `Int` fields (round 9). -/
import TboxModel.C17.InvProofs
import TboxModel.C17.ReentProofs
import TboxModel.C17.Late
namespace Tbox.C17

theorem stepL_wf (t : T) (g : G) (o : OpL) (h : WF t = true) (hg : GI g) :
    WF (stepL t g o).1 = true ∧ GI (stepL t g o).2.1 := by
  cases o with
  | op o => exact step_wf t g o h hg
  | late ms cs => exact step_wf t _ (.calls cs) h ⟨hg.1, hg.2⟩

theorem runL_wf : ∀ (ops : List OpL) (t : T) (g : G), WF t = true → GI g → WF (runL t g ops).1 = true ∧ GI (runL t g ops).2
  | [], t, g, h, hg => ⟨h, hg⟩
  | o :: ops, t, g, h, hg => by
    have a := stepL_wf t g o h hg
    simp only [runL]
    exact runL_wf ops _ _ a.1 a.2

theorem reachableL_wf (t : T) (ops : List OpL) (hc : Clean t = true) (hl : LeafShape t = true) :
    WF (runL t {} ops).1 = true ∧ GI (runL t {} ops).2 :=
  runL_wf ops t {} (wf_of_clean t hc hl) GI_init

theorem stepLateR_wf (t : T) (g : G) (ms : Nat) (cs : List Call) (h : WF t = true) (hg : GI g) :
    WF (stepLateR t g ms cs).1 = true ∧ GI (stepLateR t g ms cs).2.1 :=
  stepR_wf t _ (.op (.calls cs)) h ⟨hg.1, hg.2⟩

/-! ### widths -/

theorem remainTimes64_eq (times : Nat) (h : times < 2 ^ 64) :
    remainTimes64 times = if times = 0 then 2 ^ 64 - 1 else times - 1 := by
  unfold remainTimes64
  split <;> omega

theorem serialStart_remain (cfg : Cfg) (d : Node) (n times : Nat) (m : RepMode) (hk : d.kind = .repeat_ times m) :
    (serialStart cfg d n).1.remainTimes = if times = 0 then 2 ^ 64 - 1 else times - 1 := by
  unfold serialStart
  simp only [hk]
  by_cases h : times = 0 <;> simp [h]

theorem deadline64_nonneg (now : Nat) (ms : Nat) (h : now + ms < 2 ^ 64) : deadline64 now (ms : Int) = now + ms := by
  unfold deadline64
  have h1 : ((ms : Int) % (2 ^ 64 : Int)).toNat = ms := by omega
  rw [h1]; omega

theorem deadline64_neg (now r : Nat) (hr : r ≤ now) (h : now < 2 ^ 64) : deadline64 now (-(r : Int)) = now - r := by
  unfold deadline64
  by_cases h0 : r = 0
  · subst h0; simp; omega
  · have h1 : ((-(r : Int)) % (2 ^ 64 : Int)).toNat = 2 ^ 64 - r := by omega
    rw [h1]; omega

end Tbox.C17
