/-
C17 — liveness of control-free runs for the serial class of Sim7: a progress measure.  `cost t` bounds
the number of "big" ops (clock steps of at least the longest delay of the tree; plain passes when the tree
has no SleepAction) after which the run started on `t` has finished, whatever other passes and clock
steps are interleaved.
-/
import TboxModel.C17.Sim4
namespace Tbox.C17
set_option linter.unusedSimpArgs false
set_option linter.unusedVariables false

/-- an op that lets every armed delay of at most `M` ms expire -/
def big (M : Nat) : Op → Bool
  | .adv ms => decide (M ≤ ms)
  | .pass => M == 0
  | _ => false

def bigCount (M : Nat) (ops : List Op) : Nat := (ops.filter (big M)).length

theorem bigCount_cons (M : Nat) (op : Op) (ops : List Op) : bigCount M (op :: ops) = (if big M op then 1 else 0) + bigCount M ops := by
  unfold bigCount; simp only [List.filter_cons]; split <;> simp <;> omega

mutual
/-- the longest delay of a SleepAction in the tree -/
def maxDelay : T → Nat
  | .node d cs => max (match d.kind with | .sleep ms => ms | _ => 0) (maxDelayL cs)
def maxDelayL : TL → Nat
  | .nil => 0
  | .cons t ts => max (maxDelay t) (maxDelayL ts)
end

/-- how often a composite runs its children at most (RepeatAction: `times`) -/
def mult (d : Node) : Nat := match d.kind with | .repeat_ n _ => n | _ => 1

mutual
/-- progress measure: one big op per SleepAction, one per notification delivered to a parent -/
def cost : T → Nat
  | .node d cs => (match d.kind with | .sleep _ => 1 | _ => 0) + mult d * costL cs
def costL : TL → Nat
  | .nil => 0
  | .cons t ts => cost t + 1 + costL ts
end

/-- the run started on the freshly built `s` finishes within `cost s` big ops (when the documented
meaning says that it finishes at all) -/
def Live (s : T) : Prop := ∀ g : G, GIu g → eval s ≠ none → ∀ M, maxDelay s ≤ M → ∀ ops, ops.all cfOp = true → cost s ≤ bigCount M ops →
  hasFin (runU (start s g).1 (start s g).2.1 ops).1 = true ∧
  bigCount M ops ≤ bigCount M (runU (start s g).1 (start s g).2.1 ops).2.2 + cost s

theorem live_func (d : Node) (succ : Bool) (tag : Option Nat) (hk : d.kind = .func succ tag) (hc : cleanNode d = true) :
    Live (.node d .nil) := by
  obtain ⟨c1, c2, c3, c4, c5, c6, c7, c8, c9, c10, c11⟩ := clean_fields d hc
  intro g hg _ M _ ops _ _
  have hsh : d.shape = .leaf := by simp [Node.shape, Node.isLeaf, hk]
  have hst : start (.node d .nil) g = (.node (funcDone d g succ tag) .nil, { (g.emit (.fn d.id)) with nextId := g.nextId + 1 }, true) := by
    rw [start]
    simp only [c1, hsh, hk]
    cases tag <;> simp [finish, c1, Node.isLeaf, hk, post, onFinal, Node.started, G.emit, c3, c11, funcDone, fnWhy]
  rw [hst]
  have hfin : hasFin (.node (funcDone d g succ tag) .nil) = true := by simp [hasFin, T.data, TK.isFin, funcDone]
  rw [runU_hasFin _ _ ops hfin]
  exact ⟨hfin, by show bigCount M ops ≤ bigCount M ops + _; omega⟩

theorem sleep_live (d : Node) (ms t0 M : Nat) (hk : d.kind = .sleep ms) (hc : cleanNode d = true) (htmo : d.tmo = none) (hM : ms ≤ M) :
    ∀ (ops : List Op) (g : G), ops.all cfOp = true → g.user = [] → t0 ≤ g.now → 1 ≤ bigCount M ops →
      hasFin (runU (.node (sleepRun d t0 ms) .nil) g ops).1 = true ∧
      bigCount M ops ≤ bigCount M (runU (.node (sleepRun d t0 ms) .nil) g ops).2.2 + 1
  | [], g, _, _, _, h => by simp [bigCount] at h
  | op :: ops, g, hcf, hu, hnow, h => by
    obtain ⟨c1, c2, c3, c4, c5, c6, c7, c8, c9, c10, c11⟩ := clean_fields d hc
    simp only [List.all_cons, Bool.and_eq_true] at hcf
    have hnf : hasFin (.node (sleepRun d t0 ms) .nil) = false := by simp [hasFin, T.data, sleepRun, c3]
    have e : runU (.node (sleepRun d t0 ms) .nil) g (op :: ops) =
        runU (step (.node (sleepRun d t0 ms) .nil) g op).1 (step (.node (sleepRun d t0 ms) .nil) g op).2.1 ops := by
      simp [runU, hnf]
    rw [e, sleep_step d ms t0 hk hc htmo g op hcf.1 hu]
    by_cases hdue : t0 + ms ≤ (advG g op).now
    · simp only [hdue, ↓reduceIte]
      have hfin : hasFin (.node (sleepDone d t0 ms (advG g op)) .nil) = true := by simp [hasFin, T.data, sleepDone, TK.isFin]
      rw [runU_hasFin _ _ ops hfin]
      refine ⟨hfin, ?_⟩
      show bigCount M (op :: ops) ≤ bigCount M ops + 1
      rw [bigCount_cons]; split <;> omega
    · simp only [hdue, ↓reduceIte]
      -- the op was not big (a big op lets the delay expire)
      have hnb : big M op = false := by
        cases op with
        | adv ms' =>
          simp only [big, decide_eq_false_iff_not]
          intro hle; apply hdue; simp only [advG]; omega
        | pass =>
          simp only [big, beq_eq_false_iff_ne]
          intro hz; apply hdue; simp only [advG]; omega
        | _ => simp [cfOp] at hcf
      have hnow' : t0 ≤ (advG g op).now := by cases op <;> simp [advG] <;> omega
      rw [bigCount_cons, hnb] at h ⊢
      have ih := sleep_live d ms t0 M hk hc htmo hM ops (advG g op) hcf.2 (by rw [advG_user]; exact hu) hnow' (by simpa using h)
      simpa using ih

theorem live_sleep (d : Node) (ms : Nat) (hk : d.kind = .sleep ms) (hc : cleanNode d = true) (htmo : d.tmo = none) :
    Live (.node d .nil) := by
  obtain ⟨c1, c2, c3, c4, c5, c6, c7, c8, c9, c10, c11⟩ := clean_fields d hc
  intro g hg _ M hM ops hcf hcost
  have hsh : d.shape = .leaf := by simp [Node.shape, Node.isLeaf, hk]
  have hst : start (.node d .nil) g = (.node (sleepRun d g.now ms) .nil, g, true) := by
    rw [start]
    simp only [c1, hsh, hk]
    simp [Node.started, c1, armTmo, htmo, sleepRun, c4, hk]
  rw [hst]
  have hM' : ms ≤ M := by simpa [maxDelay, hk, maxDelayL] using hM
  have hc1 : 1 ≤ bigCount M ops := by simpa [cost, hk, costL] using hcost
  have := sleep_live d ms g.now M hk hc htmo hM' ops g hcf hg.2 (Nat.le_refl _) hc1
  simpa [cost, hk, costL] using this

/-! ### serial composites -/

def costAt (cs0 : TL) (j : Nat) : Nat := match cs0.get? j with | some c => cost c | none => 0

/-- big ops still needed from a decision point with the children `F` not yet started -/
def need (cs0 : TL) (F : List Nat) : Nat := (F.map (fun j => costAt cs0 j + 1)).sum

theorem need_erase (cs0 : TL) : ∀ (F : List Nat) (j : Nat), j ∈ F → need cs0 F = costAt cs0 j + 1 + need cs0 (F.erase j)
  | [], j, h => by cases h
  | k :: F, j, h => by
    by_cases e : k = j
    · subst e; simp [need]
    · have hj : j ∈ F := by rcases List.mem_cons.1 h with x | x; exact absurd x.symm e; exact x
      have ih := need_erase cs0 F j hj
      have : (k :: F).erase j = k :: F.erase j := by simp [List.erase_cons, e]
      rw [this]; simp only [need, List.map_cons, List.sum_cons] at ih ⊢; omega

theorem need_range_aux : ∀ (cs0 : TL) (k : Nat) (big : TL), (∀ j, big.get? (k + j) = cs0.get? j) →
    need big ((List.range cs0.length).map (· + k)) = costL cs0
  | .nil, k, big, _ => by simp [need, TL.length, costL]
  | .cons t ts, k, big, h => by
    have ih := need_range_aux ts (k + 1) big (fun j => by have := h (j + 1); simpa [TL.get?, Nat.add_assoc, Nat.add_comm 1 j] using this)
    have h0 : costAt big k = cost t := by have := h 0; simp only [Nat.add_zero, TL.get?] at this; simp [costAt, this]
    simp only [TL.length, List.range_succ_eq_map, List.map_cons, List.map_map, need, List.sum_cons, costL, Nat.zero_add, h0] at ih ⊢
    have e : ((fun j => costAt big j + 1) ∘ (fun x => x + k) ∘ Nat.succ) = ((fun j => costAt big j + 1) ∘ fun x => x + (k + 1)) := by
      funext x; simp [Nat.succ_eq_add_one]; congr 1; omega
    rw [e]; simp only [Function.comp_def] at ih ⊢; omega

theorem need_range (cs0 : TL) : need cs0 (List.range cs0.length) = costL cs0 := by
  have := need_range_aux cs0 0 cs0 (fun j => by simp)
  simpa using this

theorem maxDelayL_get : ∀ (cs : TL) (j : Nat) (c : T), cs.get? j = some c → maxDelay c ≤ maxDelayL cs
  | .nil, j, c, h => by simp [TL.get?] at h
  | .cons t ts, 0, c, h => by simp only [TL.get?, Option.some.injEq] at h; subst h; simp only [maxDelayL]; omega
  | .cons t ts, j + 1, c, h => by
    simp only [TL.get?] at h
    have := maxDelayL_get ts j c h
    simp only [maxDelayL]; omega

theorem bigCount_nil (M : Nat) : bigCount M [] = 0 := rfl

/-- **progress of serial composites**: from a decision point with the fresh children `F` left, the run
is finished after `need cs0 F` big ops -/
theorem gen_live (cs0 : TL) (KI : Node → Next → List Nat → Prop) (val : Node → Next → Option (Bool × Nat))
    (vis : Node → Next → List Nat) (hK : KSpec cs0 KI val vis) (M : Nat)
    (hL : ∀ j c, cs0.get? j = some c → Live c ∧ maxDelay c ≤ M) :
    ∀ (n : Nat) (ops : List Op), ops.length ≤ n → ∀ (d : Node) (cs : TL) (g : G) (nx : Next) (F : List Nat),
      ops.all cfOp = true → DPS d cs → cs.length = cs0.length → Fresh cs0 cs F → F.Nodup → KI d nx F → GIu g →
      val d nx ≠ none → need cs0 F ≤ bigCount M ops →
      hasFin (runU (.node (applyNext d cs g nx).1 (applyNext d cs g nx).2.1) (applyNext d cs g nx).2.2 ops).1 = true ∧
      bigCount M ops ≤ bigCount M (runU (.node (applyNext d cs g nx).1 (applyNext d cs g nx).2.1) (applyNext d cs g nx).2.2 ops).2.2 + need cs0 F := by
  intro n
  induction n with
  | zero =>
    intro ops hlen d cs g nx F hcf hd hlen0 hF hnd hki hg hv hneed
    have : ops = [] := List.eq_nil_of_length_eq_zero (by omega)
    subst this
    cases nx with
    | finish s w =>
      have hne : d.st ≠ .finished ∧ d.st ≠ .stoped := by simp [hd.st]
      simp only [applyNext, runU]
      rw [finish3_nocurr d cs g s w hg.1 hd.ser hne hd.curr]
      exact ⟨(done_of_finish d cs g s w hd).2, by simp [bigCount_nil]⟩
    | start j rst onFail =>
      obtain ⟨hr, hj⟩ := hK.kstart d j rst onFail F hki
      have := need_erase cs0 F j hj
      rw [bigCount_nil] at hneed; omega
  | succ n ih =>
    intro ops hlen d cs g nx F hcf hd hlen0 hF hnd hki hg hv hneed
    cases nx with
    | finish s w =>
      have hne : d.st ≠ .finished ∧ d.st ≠ .stoped := by simp [hd.st]
      simp only [applyNext]
      rw [finish3_nocurr d cs g s w hg.1 hd.ser hne hd.curr]
      have hdn := done_of_finish d cs g s w hd
      rw [runU_hasFin _ _ ops hdn.2]
      exact ⟨hdn.2, by show bigCount M ops ≤ bigCount M ops + _; omega⟩
    | start j rst onFail =>
      obtain ⟨hr, hj⟩ := hK.kstart d j rst onFail F hki
      subst hr
      obtain ⟨c, hget, hget0, hgood⟩ := hF j hj
      obtain ⟨ok, hg0, hnow, _, htim, hrun⟩ := hgood g hg
      obtain ⟨hlive, hMc⟩ := hL j c hget0
      have hne := need_erase cs0 F j hj
      have hca : costAt cs0 j = cost c := by simp [costAt, hget0]
      rw [hca] at hne
      rw [applyNext_start d cs g j onFail c hget ok]
      have hctx := ctx_of_dps d cs j c (start c g).1 hd hget
      have hway : OnWay (start c g).1 (start c g).2.1 := fun ops' hc' => ⟨(hrun ops' hc').2.1, (hrun ops' hc').1.2⟩
      rw [runU_embed ops _ _ j _ _ hctx hcf hway]
      have rc := hrun ops hcf
      have hec : eval c ≠ none := fun e => hv (hK.kdiv d j onFail F c hki hget0 e)
      have lc := hlive g hg hec M hMc ops hcf (by omega)
      generalize hR : runU (start c g).1 (start c g).2.1 ops = R at rc lc ⊢
      obtain ⟨c', g', rest⟩ := R
      obtain ⟨a1, a2, a3, a4⟩ := rc
      obtain ⟨hcf', hcnt⟩ := lc
      simp only at a1 a2 a3 a4 hcf' hcnt ⊢
      have hctx' : Ctx { d with curr := some j } (setChild (setChild cs j (start c g).1) j c') j c' := ctx_setChild hctx c'
      rw [setChild_setChild] at hctx' ⊢
      have hPnf : hasFin (.node { d with curr := some j } (setChild cs j c')) = false := hasFin_of_no_tasks _ _ hd.tasks
      have hrr := runU_rest ops (start c g).1 (start c g).2.1
      rw [hR] at hrr
      simp only at hrr
      cases rest with
      | nil => rw [bigCount_nil] at hcnt; omega
      | cons op rest' =>
        obtain ⟨⟨r, her, ⟨id, ht⟩, htm, hcst⟩, hfn⟩ := a3 hcf'
        have hopcf : cfOp op = true ∧ rest'.all cfOp = true := by
          have := hrr.2 hcf; simpa using this
        have hb1 : bigCount M (op :: rest') ≤ bigCount M rest' + 1 := by rw [bigCount_cons]; split <;> omega
        have e1 : runU (.node { d with curr := some j } (setChild cs j c')) g' (op :: rest') =
            runU (step (.node { d with curr := some j } (setChild cs j c')) g' op).1
                 (step (.node { d with curr := some j } (setChild cs j c')) g' op).2.1 rest' := by
          simp [runU, hPnf]
        rw [e1, step_done hctx' (by rw [← hd.ser]; exact isSerial_congr d _ rfl) g' a1.2 op hopcf.1 id r ht]
        have hinert := popChild_done (setChild cs j c') j id c' r hctx'.get ht htm hctx'.others
        have hdp : DPS d (popChild (setChild cs j c') j id) :=
          ⟨hd.st, hd.curr, hd.tasks, hd.tmoAt, hd.slp, hd.tmo, hd.ser, hd.fin0, hinert⟩
        have hlenp : (popChild (setChild cs j c') j id).length = cs0.length := by
          rw [length_popChild, length_setChild]; exact hlen0
        have hg1 : GIu (advG g' op) := advG_GIu g' op a1
        have hso : serialOnChild { d with curr := some j } (popChild (setChild cs j c') j id) (advG g' op) j r.1 r.2 =
            if viaLast d.kind j then finish3 d (popChild (setChild cs j c') j id) (advG g' op) r.1 r.2
            else applyNext (serialNext d cs0.length j r.1 r.2).1 (popChild (setChild cs j c') j id) (advG g' op)
                   (serialNext d cs0.length j r.1 r.2).2 := by
          unfold serialOnChild
          have e : ({ ({ d with curr := some j } : Node) with curr := none } : Node) = d := curr_roundtrip d j hd.curr
          have c1 : (d.st == St.running) = true := by simp [hd.st]
          simp only [e, c1, ↓reduceIte, hlenp]
        rw [hso]
        have ks := hK.kstep d j onFail F c r hki hget0 her
        have hne2 : d.st ≠ .finished ∧ d.st ≠ .stoped := by simp [hd.st]
        by_cases hvl : viaLast d.kind j = true
        · simp only [hvl, ↓reduceIte]
          rw [finish3_nocurr d _ (advG g' op) r.1 r.2 hg1.1 hd.ser hne2 hd.curr]
          have hdn := done_of_finish d _ (advG g' op) r.1 r.2 hdp
          simp only
          rw [fireTimers_notdue _ _ (by rw [hdn.1.2.1]; intro x hx; cases hx)]
          rw [runU_hasFin _ _ rest' hdn.2]
          exact ⟨hdn.2, by show bigCount M ops ≤ bigCount M rest' + _; omega⟩
        · have hvl' : viaLast d.kind j = false := by simpa using hvl
          simp only [hvl', Bool.false_eq_true, ↓reduceIte]
          obtain ⟨k1, k2, k3⟩ := ks.2 hvl'
          have hd1 := dps_serialNext d (popChild (setChild cs j c') j id) cs0.length j r.1 r.2 hdp
          have hF1 := fresh_erase cs0 cs F j id c' hF hnd
          have hnd1 : (F.erase j).Nodup := hnd.erase j
          rw [fireTimers_notdue _ _ (by
            rw [applyNext_now cs0 KI val vis hK _ _ _ _ _ hd1 hF1 k1 hg1]
            exact applyNext_notdue cs0 KI val vis hK _ _ _ _ _ hd1 hF1 k1 hg1)]
          have hlen' : rest'.length ≤ n := by
            have := hrr.1; simp only [List.length_cons] at this hlen; omega
          have ihr := ih rest' hlen' _ _ (advG g' op) _ (F.erase j) hopcf.2 hd1 hlenp hF1 hnd1 k1 hg1 (by rw [← k2]; exact hv) (by omega)
          refine ⟨ihr.1, ?_⟩
          have h2 := ihr.2
          simp only at h2 ⊢
          omega

end Tbox.C17
