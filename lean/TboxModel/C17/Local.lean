/-
C17 — running a queued task is local: `runTask t g id` changes the subtree of the node whose handler runs
(the parent of the posting node for a finish / block notification, the posting node itself for a replay) and
nothing else of the tree.  Together with `C17_run_ids_distinct` (the id addresses exactly one task): second
step towards ParallelAction in the whole-tree theorem.
-/
import TboxModel.C17.Ids
namespace Tbox.C17
set_option linter.unusedSimpArgs false
set_option linter.unusedVariables false

/-- `p` and `q` lead into different branches: neither is a prefix of the other -/
def Apart : List Nat → List Nat → Prop
  | [], _ => False
  | _, [] => False
  | i :: p, j :: q => i ≠ j ∨ Apart p q

mutual
theorem modifyAt_apart : ∀ (t : T) (p q : List Nat) (f : Node → TL → G → Node × TL × G) (g : G), Apart p q →
    subAt (modifyAt t p f g).1 q = subAt t q
  | _, [], _, _, _, h => h.elim
  | .node d cs, i :: p, [], _, _, h => h.elim
  | .node d cs, i :: p, j :: q, f, g, h => by
    simp only [modifyAt, subAt]
    exact modifyAtL_apart cs i j p q f g h
theorem modifyAtL_apart : ∀ (cs : TL) (i j : Nat) (p q : List Nat) (f : Node → TL → G → Node × TL × G) (g : G), (i ≠ j ∨ Apart p q) →
    subAtL (modifyAtL cs i p f g).1 j q = subAtL cs j q
  | .nil, _, _, _, _, _, _, _ => rfl
  | .cons t ts, 0, 0, p, q, f, g, h => by
    simp only [modifyAtL, subAtL]
    rcases h with h | h
    · exact absurd rfl h
    · exact modifyAt_apart t p q f g h
  | .cons t ts, 0, j + 1, p, q, f, g, _ => by simp only [modifyAtL, subAtL]
  | .cons t ts, i + 1, 0, p, q, f, g, _ => by simp only [modifyAtL, subAtL]
  | .cons t ts, i + 1, j + 1, p, q, f, g, h => by
    simp only [modifyAtL, subAtL]
    exact modifyAtL_apart ts i j p q f g (by rcases h with h | h; exact Or.inl (by omega); exact Or.inr h)
end

/-- the node whose handler `runTask id` runs: none when no such task is queued or it is the root's own
notification (which goes to the owner of the tree) -/
def handlerPath (t : T) (id : Nat) : Option (List Nat) :=
  match (allTasks t []).find? (fun x => x.1 == id) with
  | none => none
  | some (_, path, tk) =>
    match tk with
    | .fin _ _ | .blk _ => (splitLast path).map (·.1)
    | _ => some path

/-- **running a task is local to the subtree of its handler** -/
theorem runTask_local (t : T) (g : G) (id : Nat) (p : List Nat) (hp : handlerPath t id = some p) (q : List Nat) (hq : Apart p q) :
    subAt (runTask t g id).1 q = subAt t q := by
  unfold handlerPath at hp
  unfold runTask
  split at hp
  · cases hp
  · rename_i x path tk hf
    rw [hf]
    cases tk with
    | fin s w =>
      simp only at hp ⊢
      cases hsl : splitLast path with
      | none => rw [hsl] at hp; cases hp
      | some pi =>
        rw [hsl] at hp; simp only [Option.map_some, Option.some.injEq] at hp; subst hp
        exact modifyAt_apart t _ q _ g hq
    | blk w =>
      simp only at hp ⊢
      cases hsl : splitLast path with
      | none => rw [hsl] at hp; cases hp
      | some pi =>
        rw [hsl] at hp; simp only [Option.map_some, Option.some.injEq] at hp; subst hp
        exact modifyAt_apart t _ q _ g hq
    | replay h => simp only [Option.some.injEq] at hp ⊢; subst hp; exact modifyAt_apart t _ q _ g hq
    | replayPar => simp only [Option.some.injEq] at hp ⊢; subst hp; exact modifyAt_apart t _ q _ g hq

/-- no task queued with that id (or the root's own notification): the tree below the root is untouched -/
theorem runTask_none (t : T) (g : G) (id : Nat) (h : (allTasks t []).find? (fun x => x.1 == id) = none) : runTask t g id = (t, g) := by
  unfold runTask; rw [h]

end Tbox.C17
