/-
C17 — simulation of control-free runs, part 6b: composites that run a child again (LoopAction,
LoopIfAction, RepeatAction).  Their handlers reset children before starting them; a reset child is `Clean`
and has the skeleton of the freshly built one, so it behaves like it (`Good` is needed for every clean
tree with that skeleton, not only for the one the parser built).
-/
import TboxModel.C17.Sim6
import TboxModel.C17.Skel
namespace Tbox.C17
set_option linter.unusedSimpArgs false
set_option linter.unusedVariables false

/-! ### what `reset` does to the loop-side globals: only unobservable log entries -/

theorem leafEv_g (d : Node) (g : G) (c : Nat) :
    (leafEv d g c).cfg = g.cfg ∧ (leafEv d g c).now = g.now ∧ (leafEv d g c).nextId = g.nextId ∧
    (leafEv d g c).user = g.user ∧ trOf (leafEv d g c).log = trOf g.log := by
  unfold leafEv
  split
  · exact ⟨rfl, rfl, rfl, rfl, by simp only [G.emit]; exact trOf_cons_other _ _ (by intro n; simp) (by intro a b c; simp)⟩
  · exact ⟨rfl, rfl, rfl, rfl, rfl⟩

mutual
theorem reset_g : ∀ (t : T) (g : G),
    (reset t g).2.cfg = g.cfg ∧ (reset t g).2.now = g.now ∧ (reset t g).2.nextId = g.nextId ∧
    (reset t g).2.user = g.user ∧ trOf (reset t g).2.log = trOf g.log
  | .node d cs, g => by
    rw [reset]
    have he : trOf (g.emit (.rst d.id)).log = trOf g.log := by
      simp only [G.emit]; exact trOf_cons_other _ _ (by intro n; simp) (by intro a b c; simp)
    split
    · exact ⟨rfl, rfl, rfl, rfl, rfl⟩
    · split
      · obtain ⟨a, b, c, e, f⟩ := leafEv_g d (g.emit (.rst d.id)) 4
        exact ⟨a, b, c, e, by rw [f, he]⟩
      · obtain ⟨a, b, c, e, f⟩ := resetAll_g cs (g.emit (.rst d.id))
        exact ⟨a, b, c, e, by simp only; rw [f, he]⟩
theorem resetAll_g : ∀ (cs : TL) (g : G),
    (resetAll cs g).2.cfg = g.cfg ∧ (resetAll cs g).2.now = g.now ∧ (resetAll cs g).2.nextId = g.nextId ∧
    (resetAll cs g).2.user = g.user ∧ trOf (resetAll cs g).2.log = trOf g.log
  | .nil, g => ⟨rfl, rfl, rfl, rfl, rfl⟩
  | .cons t ts, g => by
    obtain ⟨a, b, c, e, f⟩ := reset_g t g
    obtain ⟨a', b', c', e', f'⟩ := resetAll_g ts (reset t g).2
    simp only [resetAll]
    exact ⟨by rw [a', a], by rw [b', b], by rw [c', c], by rw [e', e], by rw [f', f]⟩
end

theorem resetAt_get : ∀ (cs : TL) (j : Nat) (g : G) (c : T), cs.get? j = some c →
    resetAt cs j g = (setChild cs j (reset c g).1, (reset c g).2)
  | .nil, _, _, _, h => by simp [TL.get?] at h
  | .cons t ts, 0, g, c, h => by simp only [TL.get?, Option.some.injEq] at h; subst h; simp [resetAt, setChild]
  | .cons t ts, j + 1, g, c, h => by
    simp only [TL.get?] at h
    simp [resetAt, setChild, resetAt_get ts j g c h]

theorem resetAt_none : ∀ (cs : TL) (j : Nat) (g : G), cs.get? j = none → resetAt cs j g = (cs, g)
  | .nil, _, _, _ => rfl
  | .cons t ts, 0, g, h => by simp [TL.get?] at h
  | .cons t ts, j + 1, g, h => by
    simp only [TL.get?] at h
    simp [resetAt, resetAt_none ts j g h]

theorem wfL_setChild : ∀ (cs : TL) (j : Nat) (s : T), WFL cs = true → WF s = true → WFL (setChild cs j s) = true
  | .nil, _, _, _, _ => rfl
  | .cons t ts, 0, s, h, hs => by simp only [WFL, Bool.and_eq_true] at h; simp [setChild, WFL, h.2, hs]
  | .cons t ts, j + 1, s, h, hs => by
    simp only [WFL, Bool.and_eq_true] at h; simp [setChild, WFL, h.1, wfL_setChild ts j s h.2 hs]

theorem othersInert_set_none : ∀ (cs : TL) (j : Nat) (s : T), OthersInert cs none → Inert s → OthersInert (setChild cs j s) none
  | .nil, _, _, _, _ => trivial
  | .cons t ts, 0, s, h, hs => ⟨hs, h.2⟩
  | .cons t ts, j + 1, s, h, hs => ⟨h.1, othersInert_set_none ts j s h.2 hs⟩

theorem get_setChild_self : ∀ (cs : TL) (j : Nat) (s c : T), (setChild cs j s).get? j = some c → c = s
  | .nil, _, _, _, h => by simp [setChild, TL.get?] at h
  | .cons t ts, 0, s, c, h => by simp only [setChild, TL.get?, Option.some.injEq] at h; exact h.symm
  | .cons t ts, j + 1, s, c, h => by simp only [setChild, TL.get?] at h; exact get_setChild_self ts j s c h

theorem resetAt_ok (cs : TL) (j : Nat) (g : G) (hw : WFL cs = true) (hi : OthersInert cs none) (hg : GIu g) :
    WFL (resetAt cs j g).1 = true ∧ OthersInert (resetAt cs j g).1 none ∧ GIu (resetAt cs j g).2 ∧
    (resetAt cs j g).2.now = g.now ∧ trOf (resetAt cs j g).2.log = trOf g.log ∧ (resetAt cs j g).1.length = cs.length ∧
    (∀ k c, (resetAt cs j g).1.get? k = some c → (k = j → Clean c = true) ∧ (k ≠ j → cs.get? k = some c)) := by
  cases hget : cs.get? j with
  | none =>
    rw [resetAt_none cs j g hget]
    exact ⟨hw, hi, hg, rfl, rfl, rfl, fun k c h => ⟨(fun e => by subst e; rw [hget] at h; cases h), fun _ => h⟩⟩
  | some c0 =>
    rw [resetAt_get cs j g c0 hget]
    obtain ⟨w1, g1, cl⟩ := reset_wf c0 g (get_wf cs j c0 hw hget) hg.1
    obtain ⟨a, b, c, e, f⟩ := reset_g c0 g
    refine ⟨wfL_setChild cs j _ hw w1, othersInert_set_none cs j _ hi (clean_inert _ cl), ⟨g1, by rw [e]; exact hg.2⟩, b, f,
      length_setChild cs j _, fun k c h => ⟨fun e => ?_, fun ne => ?_⟩⟩
    · subst e; rw [get_setChild_self cs k _ c h]; exact cl
    · rw [get_setChild_ne cs j k _ ne] at h; exact h

theorem resets_ok : ∀ (rs : List Nat) (cs : TL) (g : G), WFL cs = true → OthersInert cs none → GIu g →
    WFL (rs.foldl (fun (p : TL × G) j => resetAt p.1 j p.2) (cs, g)).1 = true ∧
    OthersInert (rs.foldl (fun (p : TL × G) j => resetAt p.1 j p.2) (cs, g)).1 none ∧
    GIu (rs.foldl (fun (p : TL × G) j => resetAt p.1 j p.2) (cs, g)).2 ∧
    (rs.foldl (fun (p : TL × G) j => resetAt p.1 j p.2) (cs, g)).2.now = g.now ∧
    trOf (rs.foldl (fun (p : TL × G) j => resetAt p.1 j p.2) (cs, g)).2.log = trOf g.log ∧
    (rs.foldl (fun (p : TL × G) j => resetAt p.1 j p.2) (cs, g)).1.length = cs.length ∧
    (∀ k c, (rs.foldl (fun (p : TL × G) j => resetAt p.1 j p.2) (cs, g)).1.get? k = some c →
      (k ∈ rs ∨ ∀ c', cs.get? k = some c' → Clean c' = true) → Clean c = true)
  | [], cs, g, hw, hi, hg => by
    refine ⟨hw, hi, hg, rfl, rfl, rfl, fun k c h hor => ?_⟩
    rcases hor with x | h2
    · cases x
    · simp only [List.foldl_nil] at h; exact h2 c h
  | j :: rs, cs, g, hw, hi, hg => by
    simp only [List.foldl_cons]
    obtain ⟨a1, a2, a3, a4, a5, a6, a7⟩ := resetAt_ok cs j g hw hi hg
    obtain ⟨b1, b2, b3, b4, b5, b6, b7⟩ := resets_ok rs (resetAt cs j g).1 (resetAt cs j g).2 a1 a2 a3
    refine ⟨b1, b2, b3, by rw [b4, a4], by rw [b5, a5], by rw [b6, a6], fun k c h hor => ?_⟩
    apply b7 k c h
    by_cases hk : k ∈ rs
    · exact Or.inl hk
    · right
      intro c1 hc1
      by_cases e : k = j
      · exact (a7 k c1 hc1).1 e
      · have := (a7 k c1 hc1).2 e
        rcases hor with x | h2
        · rcases List.mem_cons.1 x with y | y
          · exact absurd y e
          · exact absurd y hk
        · exact h2 c1 this

/-! ### the measure reads the skeleton only; runs keep `WF` and the skeleton -/

mutual
theorem cost_sk : ∀ (t : T), cost (sk t) = cost t ∧ maxDelay (sk t) = maxDelay t
  | .node d cs => by
    have hk : (skN d).kind = d.kind := rfl
    have hm : mult (skN d) = mult d := rfl
    simp only [sk, cost, maxDelay, hk, hm, (costL_sk cs).1, (costL_sk cs).2, and_self]
theorem costL_sk : ∀ (cs : TL), costL (skL cs) = costL cs ∧ maxDelayL (skL cs) = maxDelayL cs
  | .nil => ⟨rfl, rfl⟩
  | .cons t ts => by simp only [skL, costL, maxDelayL, (cost_sk t).1, (cost_sk t).2, (costL_sk ts).1, (costL_sk ts).2, and_self]
end

theorem cost_of_sk (t t' : T) (h : sk t' = sk t) : cost t' = cost t ∧ maxDelay t' = maxDelay t := by
  rw [← (cost_sk t').1, ← (cost_sk t').2, h, (cost_sk t).1, (cost_sk t).2]; exact ⟨rfl, rfl⟩

theorem runU_wf_sk : ∀ (ops : List Op) (t : T) (g : G), WF t = true → GI g → WF (runU t g ops).1 = true ∧ sk (runU t g ops).1 = sk t
  | [], t, g, h, _ => ⟨h, rfl⟩
  | op :: ops, t, g, h, hg => by
    by_cases hf : hasFin t = true
    · simp [runU, hf, h]
    · have hf' : hasFin t = false := by simpa using hf
      simp only [runU, hf', Bool.false_eq_true, ↓reduceIte]
      have a := step_wf t g op h hg
      have b := runU_wf_sk ops (step t g op).1 (step t g op).2.1 a.1 a.2
      exact ⟨b.1, by rw [b.2, step_sk]⟩

theorem skL_setChild : ∀ (cs : TL) (j : Nat) (c s : T), cs.get? j = some c → sk s = sk c → skL (setChild cs j s) = skL cs
  | .nil, _, _, _, h, _ => by simp [TL.get?] at h
  | .cons t ts, 0, c, s, h, e => by simp only [TL.get?, Option.some.injEq] at h; subst h; simp [setChild, skL, e]
  | .cons t ts, j + 1, c, s, h, e => by simp only [TL.get?] at h; simp [setChild, skL, skL_setChild ts j c s h e]

theorem sk_of_skL (cs cs0 : TL) (h : skL cs = skL cs0) (j : Nat) (c c0 : T) (h1 : cs.get? j = some c) (h2 : cs0.get? j = some c0) :
    sk c = sk c0 := by
  have a := skL_get cs j; have b := skL_get cs0 j
  rw [h, h1] at a; rw [h2] at b
  rw [b] at a
  simp only [Option.map_some, Option.some.injEq] at a
  exact a.symm

theorem runOk_none (R : T × G × List Op) (L : List (Nat ⊕ (Bool × Nat))) (a : List Nat) (vs vs' : List Nat)
    (h : RunOk R (L ++ a.map Sum.inl) none vs) : RunOk R L none vs' := by
  obtain ⟨h1, h2, h3, h4⟩ := h
  refine ⟨h1, h2, fun hf => ?_, fun hf => ⟨(h4 hf).1, fun hv => absurd rfl hv, ?_⟩⟩
  · obtain ⟨⟨r, e, _⟩, _⟩ := h3 hf
    cases e
  · obtain ⟨tr, e⟩ := (h4 hf).2.2
    exact ⟨a ++ tr, by rw [e, List.map_append, List.append_assoc]⟩

/-! ### the generic theorem with reset lists -/

/-- what a kind that resets children has to provide.  `F`: the children that are clean (never started, or
reset); `need`: big ops still needed from a decision point (a progress measure) -/
structure KSpecR (cs0 : TL) (KI : Node → Next → List Nat → Prop) (val : Node → Next → Option (Bool × Nat))
    (vis : Node → Next → List Nat) (need : Node → Next → Nat) : Prop where
  kfin : ∀ d s w F, KI d (.finish s w) F → val d (.finish s w) = some (s, w) ∧ vis d (.finish s w) = []
  kstart : ∀ d j rst onFail F, KI d (.start j rst onFail) F → j ∈ rst ++ F ∧ j < cs0.length ∧ viaLast d.kind j = false
  kstep : ∀ d j rst onFail F c r, KI d (.start j rst onFail) F → cs0.get? j = some c → eval c = some r →
      KI (serialNext d cs0.length j r.1 r.2).1 (serialNext d cs0.length j r.1 r.2).2 ((rst ++ F).filter (· != j)) ∧
      val d (.start j rst onFail) = val (serialNext d cs0.length j r.1 r.2).1 (serialNext d cs0.length j r.1 r.2).2 ∧
      (val d (.start j rst onFail) ≠ none →
        vis d (.start j rst onFail) = visit c ++ vis (serialNext d cs0.length j r.1 r.2).1 (serialNext d cs0.length j r.1 r.2).2 ∧
        cost c + 1 + need (serialNext d cs0.length j r.1 r.2).1 (serialNext d cs0.length j r.1 r.2).2 ≤ need d (.start j rst onFail))
  kdiv : ∀ d j rst onFail F c, KI d (.start j rst onFail) F → cs0.get? j = some c → eval c = none → val d (.start j rst onFail) = none

/-- the state in which a decision is carried out -/
structure DP (cs0 : TL) (d : Node) (cs : TL) (F : List Nat) (g : G) : Prop where
  dps : DPS d cs
  skl : skL cs = skL cs0
  wf : WFL cs = true
  clean : ∀ j ∈ F, ∀ c, cs.get? j = some c → Clean c = true
  gi : GIu g

theorem applyNext_resets (d : Node) (cs : TL) (g : G) (j : Nat) (rst : List Nat) (onFail : Option (Bool × Nat)) :
    applyNext d cs g (.start j rst onFail) =
      applyNext d (rst.foldl (fun (p : TL × G) j => resetAt p.1 j p.2) (cs, g)).1 (rst.foldl (fun (p : TL × G) j => resetAt p.1 j p.2) (cs, g)).2
        (.start j [] onFail) := by
  rfl

/-- carrying out the reset list of a decision: the same decision without resets, in a state where the
chosen child is clean -/
theorem dp_resets (cs0 : TL) (d : Node) (cs : TL) (F : List Nat) (g : G) (rst : List Nat) (h : DP cs0 d cs F g) :
    DP cs0 d (rst.foldl (fun (p : TL × G) j => resetAt p.1 j p.2) (cs, g)).1 (rst ++ F)
      (rst.foldl (fun (p : TL × G) j => resetAt p.1 j p.2) (cs, g)).2 ∧
    (rst.foldl (fun (p : TL × G) j => resetAt p.1 j p.2) (cs, g)).2.now = g.now ∧
    trOf (rst.foldl (fun (p : TL × G) j => resetAt p.1 j p.2) (cs, g)).2.log = trOf g.log := by
  obtain ⟨b1, b2, b3, b4, b5, b6, b7⟩ := resets_ok rst cs g h.wf h.dps.inert h.gi
  refine ⟨⟨⟨h.dps.st, h.dps.curr, h.dps.tasks, h.dps.tmoAt, h.dps.slp, h.dps.tmo, h.dps.ser, h.dps.fin0, b2⟩, ?_, b1, ?_, b3⟩, b4, b5⟩
  · rw [resets_sk]; exact h.skl
  · intro k hk c hc
    apply b7 k c hc
    rcases List.mem_append.1 hk with x | x
    · exact Or.inl x
    · exact Or.inr (fun c' hc' => h.clean k x c' hc')

/-- carrying out a decision does not move the clock and arms no timer that is already due -/
theorem dec_facts (cs0 : TL) (KI : Node → Next → List Nat → Prop) (val : Node → Next → Option (Bool × Nat))
    (vis : Node → Next → List Nat) (need : Node → Next → Nat) (hK : KSpecR cs0 KI val vis need)
    (hG : ∀ j c0, cs0.get? j = some c0 → ∀ c, sk c = sk c0 → Clean c = true → Good c ∧ Live c)
    (d : Node) (cs : TL) (g : G) (nx : Next) (F : List Nat) (hdp : DP cs0 d cs F g) (hki : KI d nx F) :
    (applyNext d cs g nx).2.2.now = g.now ∧
    (∀ x ∈ allTimers (.node (applyNext d cs g nx).1 (applyNext d cs g nx).2.1) [], g.now < x.1) := by
  cases nx with
  | finish s w =>
    have hd := hdp.dps
    have hne : d.st ≠ .finished ∧ d.st ≠ .stoped := by simp [hd.st]
    simp only [applyNext]
    rw [finish3_nocurr d cs g s w hdp.gi.1 hd.ser hne hd.curr]
    have := (inert_all_tasks (finNode d g s w) cs hd.inert (by simp [finNode, hd.slp]) (by simp [finNode])).2
    refine ⟨rfl, ?_⟩
    simp only
    rw [this]; intro x hx; cases hx
  | start j rst onFail =>
    obtain ⟨hj, hjlt, hnvl⟩ := hK.kstart d j rst onFail F hki
    obtain ⟨hdp1, hnow1, htr1⟩ := dp_resets cs0 d cs F g rst hdp
    rw [applyNext_resets]
    generalize (rst.foldl (fun (p : TL × G) j => resetAt p.1 j p.2) (cs, g)) = R0 at hdp1 hnow1 htr1 ⊢
    obtain ⟨cs1, g1⟩ := R0
    simp only at hdp1 hnow1 htr1 ⊢
    have hlen1 : cs1.length = cs0.length := by rw [← skL_length cs1, hdp1.skl, skL_length]
    obtain ⟨c0, hget0⟩ := get_of_lt cs0 j hjlt
    obtain ⟨c, hget⟩ := get_of_lt cs1 j (by omega)
    have hskc : sk c = sk c0 := sk_of_skL cs1 cs0 hdp1.skl j c c0 hget hget0
    obtain ⟨hgood, _⟩ := hG j c0 hget0 c hskc (hdp1.clean j hj c hget)
    obtain ⟨ok, hg0, hnow, _, htim, _⟩ := hgood g1 hdp1.gi
    rw [applyNext_start d cs1 g1 j onFail c hget ok]
    refine ⟨by rw [← hnow1]; exact hnow, ?_⟩
    rw [← hnow1]
    exact timers_embed_notdue (ctx_of_dps d cs1 j c _ hdp1.dps hget) g1.now htim

/-- **the generic serial-composite theorem with reset lists** (safety and progress in one induction) -/
theorem genR (cs0 : TL) (KI : Node → Next → List Nat → Prop) (val : Node → Next → Option (Bool × Nat))
    (vis : Node → Next → List Nat) (need : Node → Next → Nat) (hK : KSpecR cs0 KI val vis need) (M : Nat)
    (hG : ∀ j c0, cs0.get? j = some c0 → ∀ c, sk c = sk c0 → Clean c = true → Good c ∧ Live c)
    (hMd : ∀ j c0, cs0.get? j = some c0 → maxDelay c0 ≤ M) :
    ∀ (n : Nat) (ops : List Op), ops.length < n → ∀ (d : Node) (cs : TL) (g : G) (nx : Next) (F : List Nat),
      ops.all cfOp = true → DP cs0 d cs F g → KI d nx F →
      RunOk (runU (.node (applyNext d cs g nx).1 (applyNext d cs g nx).2.1) (applyNext d cs g nx).2.2 ops)
        (trOf g.log) (val d nx) (vis d nx) ∧
      (val d nx ≠ none → need d nx ≤ bigCount M ops →
        hasFin (runU (.node (applyNext d cs g nx).1 (applyNext d cs g nx).2.1) (applyNext d cs g nx).2.2 ops).1 = true ∧
        bigCount M ops ≤ bigCount M (runU (.node (applyNext d cs g nx).1 (applyNext d cs g nx).2.1) (applyNext d cs g nx).2.2 ops).2.2 + need d nx) := by
  intro n
  induction n with
  | zero => intro ops hlen; omega
  | succ n ih =>
    intro ops hlen d cs g nx F hcf hdp hki
    cases nx with
    | finish s w =>
      have hd := hdp.dps
      have hg := hdp.gi
      have hne : d.st ≠ .finished ∧ d.st ≠ .stoped := by simp [hd.st]
      simp only [applyNext]
      rw [finish3_nocurr d cs g s w hg.1 hd.ser hne hd.curr]
      have hdn := done_of_finish d cs g s w hd
      have hv := hK.kfin d s w F hki
      rw [runU_hasFin _ _ ops hdn.2]
      refine ⟨⟨⟨⟨hg.1.1, by have := hg.1.2; simp only [G.emit]; omega⟩, hg.2⟩, ?_, ?_, ?_⟩, fun _ _ => ⟨hdn.2, ?_⟩⟩
      · right; obtain ⟨⟨id, e⟩, _, _⟩ := hdn.1; exact ⟨id, [], s, w, e⟩
      · intro _; exact ⟨⟨(s, w), hv.1, hdn.1⟩, by simp only [G.emit]; rw [trOf_cons_other _ _ (by intro n; simp) (by intro a b c; simp), hv.2]; simp⟩
      · intro hf; rw [hdn.2] at hf; cases hf
      · show bigCount M ops ≤ bigCount M ops + _; omega
    | start j rst onFail =>
      obtain ⟨hj, hjlt, hnvl⟩ := hK.kstart d j rst onFail F hki
      obtain ⟨hdp1, hnow1, htr1⟩ := dp_resets cs0 d cs F g rst hdp
      rw [applyNext_resets, ← htr1]
      generalize (rst.foldl (fun (p : TL × G) j => resetAt p.1 j p.2) (cs, g)) = R0 at hdp1 hnow1 htr1 ⊢
      obtain ⟨cs1, g1⟩ := R0
      simp only at hdp1 hnow1 htr1 ⊢
      have hlen1 : cs1.length = cs0.length := by rw [← skL_length cs1, hdp1.skl, skL_length]
      obtain ⟨c0, hget0⟩ := get_of_lt cs0 j hjlt
      obtain ⟨c, hget⟩ := get_of_lt cs1 j (by omega)
      have hskc : sk c = sk c0 := sk_of_skL cs1 cs0 hdp1.skl j c c0 hget hget0
      obtain ⟨hgood, hlive⟩ := hG j c0 hget0 c hskc (hdp1.clean j hj c hget)
      obtain ⟨hev, hvi⟩ := eval_of_sk c0 c hskc
      obtain ⟨hco, hmd⟩ := cost_of_sk c0 c hskc
      have hd := hdp1.dps
      have hg := hdp1.gi
      obtain ⟨ok, hg0, hnow, _, htim, hrun⟩ := hgood g1 hg
      rw [applyNext_start d cs1 g1 j onFail c hget ok]
      have hctx := ctx_of_dps d cs1 j c (start c g1).1 hd hget
      have hway : OnWay (start c g1).1 (start c g1).2.1 := fun ops' hc' => ⟨(hrun ops' hc').2.1, (hrun ops' hc').1.2⟩
      rw [runU_embed ops _ _ j _ _ hctx hcf hway]
      have hwc := start_wf c g1 (get_wf cs1 j c hdp1.wf hget) hg.1
      have hws := runU_wf_sk ops (start c g1).1 (start c g1).2.1 hwc.1 hwc.2.1
      rw [start_sk] at hws
      have rc := hrun ops hcf
      -- progress of the child
      have lc : val d (.start j rst onFail) ≠ none → need d (.start j rst onFail) ≤ bigCount M ops →
          hasFin (runU (start c g1).1 (start c g1).2.1 ops).1 = true ∧
          bigCount M ops ≤ bigCount M (runU (start c g1).1 (start c g1).2.1 ops).2.2 + cost c0 ∧
          cost c0 + 1 ≤ need d (.start j rst onFail) := by
        intro hv hn
        have hec : eval c0 ≠ none := fun e => hv (hK.kdiv d j rst onFail F c0 hki hget0 e)
        obtain ⟨r, her⟩ := Option.ne_none_iff_exists'.1 hec
        have k4 := ((hK.kstep d j rst onFail F c0 r hki hget0 her).2.2 hv).2
        have := hlive g1 hg (by rw [hev]; exact hec) M (by rw [hmd]; exact hMd j c0 hget0) ops hcf (by rw [hco]; omega)
        rw [hco] at this
        exact ⟨this.1, this.2, by omega⟩
      generalize hR : runU (start c g1).1 (start c g1).2.1 ops = R at rc lc hws ⊢
      obtain ⟨c', g', rest⟩ := R
      obtain ⟨a1, a2, a3, a4⟩ := rc
      simp only at a1 a2 a3 a4 lc hws ⊢
      have hctx' : Ctx { d with curr := some j } (setChild (setChild cs1 j (start c g1).1) j c') j c' := ctx_setChild hctx c'
      rw [setChild_setChild] at hctx' ⊢
      have hPnf : hasFin (.node { d with curr := some j } (setChild cs1 j c')) = false := hasFin_of_no_tasks _ _ hd.tasks
      have hvis : val d (.start j rst onFail) ≠ none → visit c <+: vis d (.start j rst onFail) := by
        intro hv
        have hec : eval c0 ≠ none := fun e => hv (hK.kdiv d j rst onFail F c0 hki hget0 e)
        obtain ⟨r, her⟩ := Option.ne_none_iff_exists'.1 hec
        rw [((hK.kstep d j rst onFail F c0 r hki hget0 her).2.2 hv).1, hvi]; exact List.prefix_append _ _
      have hwait : RunOk (.node { d with curr := some j } (setChild cs1 j c'), g', []) (trOf g1.log)
          (val d (.start j rst onFail)) (vis d (.start j rst onFail)) :=
        wait_ok hctx' g' _ _ _ (visit c) a1 a2 (fun hf => (a3 hf).2)
          (fun hf hv => (a4 hf).2.1 (fun e => hv (hK.kdiv d j rst onFail F c0 hki hget0 (by rw [← hev]; exact e)))) (fun hf => (a4 hf).2.2) hvis
      have hrr := runU_rest ops (start c g1).1 (start c g1).2.1
      rw [hR] at hrr
      simp only at hrr
      cases rest with
      | nil =>
        refine ⟨by simpa [runU] using hwait, fun hv hn => ?_⟩
        have := lc hv hn
        rw [bigCount_nil] at this; omega
      | cons op rest' =>
        have hcf' : hasFin c' = true := by
          cases hh : hasFin c' with
          | true => rfl
          | false => have := (a4 hh).1; cases this
        obtain ⟨⟨r, her, ⟨id, ht⟩, htm, hcst⟩, hfn⟩ := a3 hcf'
        rw [hev] at her
        have hopcf : cfOp op = true ∧ rest'.all cfOp = true := by
          have := hrr.2 hcf; simpa using this
        have hb1 : bigCount M (op :: rest') ≤ bigCount M rest' + 1 := by rw [bigCount_cons]; split <;> omega
        have e1 : runU (.node { d with curr := some j } (setChild cs1 j c')) g' (op :: rest') =
            runU (step (.node { d with curr := some j } (setChild cs1 j c')) g' op).1
                 (step (.node { d with curr := some j } (setChild cs1 j c')) g' op).2.1 rest' := by
          simp [runU, hPnf]
        rw [e1, step_done hctx' (by rw [← hd.ser]; exact isSerial_congr d _ rfl) g' a1.2 op hopcf.1 id r ht]
        have hinert := popChild_done (setChild cs1 j c') j id c' r hctx'.get ht htm hctx'.others
        have hdpp : DPS d (popChild (setChild cs1 j c') j id) :=
          ⟨hd.st, hd.curr, hd.tasks, hd.tmoAt, hd.slp, hd.tmo, hd.ser, hd.fin0, hinert⟩
        have hlenp : (popChild (setChild cs1 j c') j id).length = cs0.length := by
          rw [length_popChild, length_setChild]; exact hlen1
        have hg1 : GIu (advG g' op) := advG_GIu g' op a1
        have hso : serialOnChild { d with curr := some j } (popChild (setChild cs1 j c') j id) (advG g' op) j r.1 r.2 =
            applyNext (serialNext d cs0.length j r.1 r.2).1 (popChild (setChild cs1 j c') j id) (advG g' op)
                   (serialNext d cs0.length j r.1 r.2).2 := by
          unfold serialOnChild
          have e : ({ ({ d with curr := some j } : Node) with curr := none } : Node) = d := curr_roundtrip d j hd.curr
          have c1 : (d.st == St.running) = true := by simp [hd.st]
          simp only [e, c1, ↓reduceIte, hlenp, hnvl, Bool.false_eq_true]
        rw [hso]
        obtain ⟨k1, k2, k34⟩ := hK.kstep d j rst onFail F c0 r hki hget0 her
        have hdp' : DP cs0 (serialNext d cs0.length j r.1 r.2).1 (popChild (setChild cs1 j c') j id) ((rst ++ F).filter (· != j)) (advG g' op) := by
          refine ⟨dps_serialNext d _ cs0.length j r.1 r.2 hdpp, ?_, (popChild_spec _ j id (wfL_setChild cs1 j c' hdp1.wf hws.1)).1, ?_, hg1⟩
          · rw [popChild_sk, skL_setChild cs1 j c c' hget hws.2]; exact hdp1.skl
          · intro k hk c2 hc2
            simp only [List.mem_filter, bne_iff_ne, ne_eq] at hk
            rw [get_popChild_ne _ _ _ _ hk.2, get_setChild_ne _ _ _ _ hk.2] at hc2
            exact hdp1.clean k hk.1 c2 hc2
        have hfacts := dec_facts cs0 KI val vis need hK hG _ _ _ _ _ hdp' k1
        rw [fireTimers_notdue _ _ (by rw [hfacts.1]; exact hfacts.2)]
        have hlen' : rest'.length < n := by
          have := hrr.1; simp only [List.length_cons] at this hlen; omega
        have ihr := ih rest' hlen' _ _ (advG g' op) _ _ hopcf.2 hdp' k1
        refine ⟨?_, fun hv hn => ?_⟩
        · by_cases hv : val d (.start j rst onFail) = none
          · rw [hv]
            have hvn := ihr.1
            rw [← k2, hv, advG_log, hfn] at hvn
            exact runOk_none _ _ _ _ _ hvn
          · obtain ⟨k3, _⟩ := k34 hv
            have hvn := ihr.1
            rw [advG_log, hfn, hvi] at hvn
            rw [k2, k3]
            exact runOk_shift _ _ _ _ _ hvn
        · obtain ⟨_, k4⟩ := k34 hv
          obtain ⟨l1, l2, l3⟩ := lc hv hn
          have ihl := ihr.2 (by rw [← k2]; exact hv) (by omega)
          refine ⟨ihl.1, ?_⟩
          have h2 := ihl.2
          simp only at h2 ⊢
          omega

theorem cleanL_get : ∀ (cs : TL) (j : Nat) (c : T), CleanL cs = true → cs.get? j = some c → Clean c = true
  | .nil, _, _, _, h => by simp [TL.get?] at h
  | .cons t ts, 0, c, hc, h => by
    simp only [CleanL, Bool.and_eq_true] at hc; simp only [TL.get?, Option.some.injEq] at h; subst h; exact hc.1
  | .cons t ts, j + 1, c, hc, h => by
    simp only [CleanL, Bool.and_eq_true] at hc; simp only [TL.get?] at h; exact cleanL_get ts j c hc.2 h

/-- from the kind's specification to the behaviour and the progress of the freshly built composite -/
theorem both_serialR (d : Node) (cs : TL) (hc : cleanNode d = true) (hser : d.isSerial = true) (htmo : d.tmo = none)
    (hcl : CleanL cs = true) (hwf : WFL cs = true)
    (hG : ∀ j c0, cs.get? j = some c0 → ∀ c, sk c = sk c0 → Clean c = true → Good c ∧ Live c)
    (KI : Node → Next → List Nat → Prop) (val : Node → Next → Option (Bool × Nat)) (vis : Node → Next → List Nat)
    (need : Node → Next → Nat) (hK : KSpecR cs KI val vis need)
    (hki : KI (decNode d cs.length) (serialStart {} d cs.length).2 (List.range cs.length))
    (hrst : ∀ j rst onFail, (serialStart {} d cs.length).2 = .start j rst onFail → rst = [])
    (hval : val (decNode d cs.length) (serialStart {} d cs.length).2 = eval (.node d cs))
    (hvis : vis (decNode d cs.length) (serialStart {} d cs.length).2 = visit (.node d cs))
    (hneed : need (decNode d cs.length) (serialStart {} d cs.length).2 ≤ cost (.node d cs)) :
    Good (.node d cs) ∧ Live (.node d cs) := by
  have hd := dps_decNode d cs hc hser htmo hcl
  have hdp : ∀ g, GIu g → DP cs (decNode d cs.length) cs (List.range cs.length) g := fun g hg =>
    ⟨hd, rfl, hwf, fun j _ c h => cleanL_get cs j c hcl h, hg⟩
  have hnx : ∀ g, GIu g → ∀ j rst onFail, (serialStart {} d cs.length).2 = .start j rst onFail →
      rst = [] ∧ ∃ c, cs.get? j = some c ∧ (start c g).2.2 = true := by
    intro g hg j rst onFail e
    have hr := hrst j rst onFail e
    rw [e] at hki
    obtain ⟨_, hjlt, _⟩ := hK.kstart _ j rst onFail _ hki
    obtain ⟨c, hcget⟩ := get_of_lt cs j hjlt
    exact ⟨hr, c, hcget, ((hG j c hcget c rfl (cleanL_get cs j c hcl hcget)).1 g hg).1⟩
  constructor
  · intro g hg
    rw [start_serial d cs g hc hser htmo hg.1 (hnx g hg)]
    have hgen := fun ops hcf => (genR cs KI val vis need hK (maxDelayL cs) hG (fun j c0 h => maxDelayL_get cs j c0 h)
      (List.length ops + 1) ops (Nat.lt_succ_self _) (decNode d cs.length) cs g
      (serialStart {} d cs.length).2 (List.range cs.length) hcf (hdp g hg) hki).1
    have hf := dec_facts cs KI val vis need hK hG _ _ _ _ _ (hdp g hg) hki
    refine ⟨rfl, ?_, hf.1, trivial, hf.2, ?_⟩
    · have := (hgen [] (by simp)).1; simpa [runU] using this
    · intro ops hcf
      have := hgen ops hcf
      rw [hval, hvis] at this
      exact this
  · intro g hg hev M hM ops hcf hcost
    rw [start_serial d cs g hc hser htmo hg.1 (hnx g hg)]
    have hML : maxDelayL cs ≤ M := by
      have : maxDelayL cs ≤ maxDelay (.node d cs) := by rw [maxDelay]; omega
      omega
    have := (genR cs KI val vis need hK M hG (fun j c0 h => Nat.le_trans (maxDelayL_get cs j c0 h) hML)
      (List.length ops + 1) ops (Nat.lt_succ_self _) (decNode d cs.length) cs g
      (serialStart {} d cs.length).2 (List.range cs.length) hcf (hdp g hg) hki).2 (by rw [hval]; exact hev) (by omega)
    refine ⟨this.1, ?_⟩
    have h2 := this.2
    simp only at h2 ⊢
    omega

theorem costAt0_le : ∀ (cs : TL), 1 ≤ cs.length → costAt cs 0 + 1 ≤ costL cs
  | .nil, h => by simp [TL.length] at h
  | .cons t ts, _ => by simp [costAt, TL.get?, costL]

/-! ### LoopAction -/

/-- is this the result a LoopAction waits for? -/
def loopEnds (m : LoopMode) (s : Bool) : Bool := (m == .untilSucc && s) || (m == .untilFail && !s)

theorem good_loop (d : Node) (cs : TL) (m : LoopMode) (hk : d.kind = .loop m) (hc : cleanNode d = true) (htmo : d.tmo = none)
    (hcl : CleanL cs = true) (hwf : WFL cs = true)
    (hG : ∀ j c0, cs.get? j = some c0 → ∀ c, sk c = sk c0 → Clean c = true → Good c ∧ Live c) (hlen : cs.length = 1) :
    Good (.node d cs) ∧ Live (.node d cs) := by
  have hser : d.isSerial = true := serial_of_kind d (by simp [Node.isLeaf, Node.isPar, hk])
  have hev : eval (.node d cs) = match evalAt cs 0 with
      | none => none
      | some (s, w) => if loopEnds m s then some (s, w) else none := by rw [eval]; simp only [hk, loopEnds]; rfl
  refine both_serialR d cs hc hser htmo hcl hwf hG
    (fun d' nx F => d'.kind = .loop m ∧ ((∃ rst, nx = .start 0 rst none ∧ 0 ∈ rst ++ F) ∨ ∃ s w, nx = .finish s w))
    (fun _ nx => match nx with | .finish s w => some (s, w) | .start _ _ _ => eval (.node d cs))
    (fun _ nx => match nx with | .finish _ _ => [] | .start _ _ _ => visitAt cs 0)
    (fun _ nx => match nx with | .finish _ _ => 0 | .start _ _ _ => costAt cs 0 + 1)
    ⟨?_, ?_, ?_, ?_⟩ ?_ ?_ ?_ ?_ ?_
  · intro d' s w F _; exact ⟨rfl, rfl⟩
  · intro d' j rst onFail F h
    rcases h.2 with ⟨rst', e, h0⟩ | ⟨s, w, e⟩
    · cases e; exact ⟨h0, by omega, by simp [viaLast, h.1]⟩
    · cases e
  · intro d' j rst onFail F c r h hget her
    rcases h.2 with ⟨rst', e, h0⟩ | ⟨s, w, e⟩
    · cases e
      have hev0 := (evalAt_get cs 0 c hget)
      by_cases hend : loopEnds m r.1 = true
      · have hsn : serialNext d' cs.length 0 r.1 r.2 = (d', .finish r.1 r.2) := by
          unfold serialNext; rw [h.1]; simp only [loopEnds] at hend; simp [hend]
        rw [hsn]
        refine ⟨⟨h.1, Or.inr ⟨_, _, rfl⟩⟩, ?_, fun _ => ⟨?_, ?_⟩⟩
        · simp only; rw [hev, hev0.1, her]; simp [hend]
        · simp [hev0.2]
        · simp [costAt, hget]
      · have hend' : loopEnds m r.1 = false := by simpa using hend
        have hsn : serialNext d' cs.length 0 r.1 r.2 = (d', .start 0 [0] none) := by
          unfold serialNext; rw [h.1]; simp only [loopEnds] at hend'; simp [hend']
        rw [hsn]
        refine ⟨⟨h.1, Or.inl ⟨[0], rfl, by simp⟩⟩, rfl, fun hv => ?_⟩
        exfalso; apply hv
        simp only; rw [hev, hev0.1, her]; simp [hend']
    · cases e
  · intro d' j rst onFail F c h hget her
    rcases h.2 with ⟨rst', e, h0⟩ | ⟨s, w, e⟩
    · cases e; simp only; rw [hev, (evalAt_get cs 0 c hget).1, her]
    · cases e
  · refine ⟨by simp [decNode, serialStart, hk], Or.inl ⟨[], by simp [serialStart, hk], List.mem_range.2 (by omega)⟩⟩
  · intro j rst onFail e; simp [serialStart, hk] at e; exact e.2.1
  · simp only [serialStart, hk]
  · simp only [serialStart, hk]; rw [visit]; simp only [hk]
  · simp only [serialStart, hk]
    rw [cost]; simp only [hk, mult]
    have := costAt0_le cs (by omega); omega

/-! ### LoopIfAction (children: condition, body) -/

theorem good_loopIf (d : Node) (cs : TL) (fr : Bool) (hk : d.kind = .loopIf fr) (hc : cleanNode d = true) (htmo : d.tmo = none)
    (hcl : CleanL cs = true) (hwf : WFL cs = true)
    (hG : ∀ j c0, cs.get? j = some c0 → ∀ c, sk c = sk c0 → Clean c = true → Good c ∧ Live c) (hlen : cs.length = 2) :
    Good (.node d cs) ∧ Live (.node d cs) := by
  have hser : d.isSerial = true := serial_of_kind d (by simp [Node.isLeaf, Node.isPar, hk])
  have hev : eval (.node d cs) = match evalAt cs 0 with
      | some (false, w) => some (fr, w)
      | _ => none := by rw [eval]; simp only [hk]; rfl
  refine both_serialR d cs hc hser htmo hcl hwf hG
    (fun d' nx F => d'.kind = .loopIf fr ∧
      ((∃ rst onFail, nx = .start 0 rst onFail ∧ 0 ∈ rst ++ F ∧ 1 ∈ rst ++ F) ∨
       (nx = .start 1 [] none ∧ 1 ∈ F ∧ ∃ w, evalAt cs 0 = some (true, w)) ∨ ∃ s w, nx = .finish s w))
    (fun _ nx => match nx with | .finish s w => some (s, w) | .start _ _ _ => eval (.node d cs))
    (fun _ nx => match nx with | .finish _ _ => [] | .start _ _ _ => visitAt cs 0)
    (fun _ nx => match nx with | .finish _ _ => 0 | .start _ _ _ => costAt cs 0 + 1)
    ⟨?_, ?_, ?_, ?_⟩ ?_ ?_ ?_ ?_ ?_
  · intro d' s w F _; exact ⟨rfl, rfl⟩
  · intro d' j rst onFail F h
    rcases h.2 with ⟨rst', onFail', e, h0, h1⟩ | ⟨e, h1, _⟩ | ⟨s, w, e⟩
    · cases e; exact ⟨h0, by omega, by simp [viaLast, h.1]⟩
    · cases e; exact ⟨by simpa using h1, by omega, by simp [viaLast, h.1]⟩
    · cases e
  · intro d' j rst onFail F c r h hget her
    rcases h.2 with ⟨rst', onFail', e, h0, h1⟩ | ⟨e, h1, w0, hw0⟩ | ⟨s, w, e⟩
    · cases e
      have hev0 := (evalAt_get cs 0 c hget)
      obtain ⟨r1, r2⟩ := r
      cases r1 with
      | true =>
        have hsn : serialNext d' cs.length 0 true r2 = (d', .start 1 [] none) := by
          unfold serialNext; rw [h.1]; simp
        rw [hsn]
        refine ⟨⟨h.1, Or.inr (Or.inl ⟨rfl, ?_, r2, by rw [hev0.1, her]⟩)⟩, rfl, fun hv => ?_⟩
        · simp only [List.mem_filter, bne_iff_ne, ne_eq]; exact ⟨h1, by omega⟩
        · exfalso; apply hv; simp only; rw [hev, hev0.1, her]
      | false =>
        have hsn : serialNext d' cs.length 0 false r2 = (d', .finish fr r2) := by
          unfold serialNext; rw [h.1]; simp
        rw [hsn]
        refine ⟨⟨h.1, Or.inr (Or.inr ⟨_, _, rfl⟩)⟩, ?_, fun _ => ⟨?_, ?_⟩⟩
        · simp only; rw [hev, hev0.1, her]
        · simp [hev0.2]
        · simp [costAt, hget]
    · cases e
      have hsn : serialNext d' cs.length 1 r.1 r.2 = (d', .start 0 [0, 1] (some (fr, r.2))) := by
        unfold serialNext; rw [h.1]; simp
      rw [hsn]
      refine ⟨⟨h.1, Or.inl ⟨[0, 1], _, rfl, by simp, by simp⟩⟩, rfl, fun hv => ?_⟩
      exfalso; apply hv; simp only; rw [hev, hw0]
    · cases e
  · intro d' j rst onFail F c h hget her
    rcases h.2 with ⟨rst', onFail', e, h0, h1⟩ | ⟨e, h1, w0, hw0⟩ | ⟨s, w, e⟩
    · cases e; simp only; rw [hev, (evalAt_get cs 0 c hget).1, her]
    · cases e; simp only; rw [hev, hw0]
    · cases e
  · refine ⟨by simp [decNode, serialStart, hk], Or.inl ⟨[], none, by simp [serialStart, hk], List.mem_range.2 (by omega), List.mem_range.2 (by omega)⟩⟩
  · intro j rst onFail e; simp [serialStart, hk] at e; exact e.2.1
  · simp only [serialStart, hk]
  · simp only [serialStart, hk]; rw [visit]; simp only [hk]
  · simp only [serialStart, hk]
    rw [cost]; simp only [hk, mult]
    have := costAt0_le cs (by omega); omega

/-! ### RepeatAction (times ≥ 1) -/

def repBreak (m : RepMode) (s : Bool) : Bool := (m == .breakSucc && s) || (m == .breakFail && !s)

theorem flatten_replicate_succ {α} (k : Nat) (v : List α) : (List.replicate (k + 1) v).flatten = v ++ (List.replicate k v).flatten := by
  simp [List.replicate_succ]

theorem good_repeat (d : Node) (cs : TL) (n : Nat) (m : RepMode) (hk : d.kind = .repeat_ n m) (hc : cleanNode d = true) (htmo : d.tmo = none)
    (hcl : CleanL cs = true) (hwf : WFL cs = true)
    (hG : ∀ j c0, cs.get? j = some c0 → ∀ c, sk c = sk c0 → Clean c = true → Good c ∧ Live c) (hlen : cs.length = 1) (hn : 1 ≤ n) :
    Good (.node d cs) ∧ Live (.node d cs) := by
  have hser : d.isSerial = true := serial_of_kind d (by simp [Node.isLeaf, Node.isPar, hk])
  have hn0 : (n == 0) = false := by simp; omega
  have hev : eval (.node d cs) = match evalAt cs 0 with
      | none => none
      | some (s, w) => if repBreak m s then some (s, w) else some (true, 7) := by
    rw [eval]; simp only [hk, repBreak, hn0, Bool.false_eq_true, ↓reduceIte]; rfl
  refine both_serialR d cs hc hser htmo hcl hwf hG
    (fun d' nx F => d'.kind = .repeat_ n m ∧ ((∃ rst, nx = .start 0 rst none ∧ 0 ∈ rst ++ F) ∨ ∃ s w, nx = .finish s w))
    (fun _ nx => match nx with | .finish s w => some (s, w) | .start _ _ _ => eval (.node d cs))
    (fun d' nx => match nx with
      | .finish _ _ => []
      | .start _ _ _ => match evalAt cs 0 with
        | none => visitAt cs 0
        | some (s, _) => if repBreak m s then visitAt cs 0 else (List.replicate (d'.remainTimes + 1) (visitAt cs 0)).flatten)
    (fun d' nx => match nx with | .finish _ _ => 0 | .start _ _ _ => (d'.remainTimes + 1) * (costAt cs 0 + 1))
    ⟨?_, ?_, ?_, ?_⟩ ?_ ?_ ?_ ?_ ?_
  · intro d' s w F _; exact ⟨rfl, rfl⟩
  · intro d' j rst onFail F h
    rcases h.2 with ⟨rst', e, h0⟩ | ⟨s, w, e⟩
    · cases e; exact ⟨h0, by omega, by simp [viaLast, h.1]⟩
    · cases e
  · intro d' j rst onFail F c r h hget her
    rcases h.2 with ⟨rst', e, h0⟩ | ⟨s, w, e⟩
    · cases e
      have hev0 := (evalAt_get cs 0 c hget)
      have hca : costAt cs 0 = cost c := by simp [costAt, hget]
      by_cases hb : repBreak m r.1 = true
      · have hsn : serialNext d' cs.length 0 r.1 r.2 = (d', .finish r.1 r.2) := by
          unfold serialNext; rw [h.1]; simp only [repBreak] at hb; simp [hb]
        rw [hsn]
        refine ⟨⟨h.1, Or.inr ⟨_, _, rfl⟩⟩, ?_, fun _ => ⟨?_, ?_⟩⟩
        · simp only; rw [hev, hev0.1, her]; simp [hb]
        · simp only; rw [hev0.1, her]; simp [hb, hev0.2]
        · simp only [hca, Nat.add_zero]
          have := Nat.le_mul_of_pos_left (cost c + 1) (Nat.succ_pos d'.remainTimes); omega
      · have hb' : repBreak m r.1 = false := by simpa using hb
        by_cases hrem : d'.remainTimes > 0
        · have hsn : serialNext d' cs.length 0 r.1 r.2 = ({ d' with remainTimes := d'.remainTimes - 1 }, .start 0 [0] none) := by
            unfold serialNext; rw [h.1]; simp only [repBreak] at hb'; simp [hb', hrem]
          rw [hsn]
          refine ⟨⟨h.1, Or.inl ⟨[0], rfl, by simp⟩⟩, rfl, fun _ => ⟨?_, ?_⟩⟩
          · simp only; rw [hev0.1, her]; simp only [hb', Bool.false_eq_true, ↓reduceIte]
            have e : d'.remainTimes - 1 + 1 = d'.remainTimes := by omega
            rw [e, flatten_replicate_succ, hev0.2]
          · simp only [hca]
            have e : d'.remainTimes - 1 + 1 = d'.remainTimes := by omega
            rw [e, Nat.succ_mul]; omega
        · have hsn : serialNext d' cs.length 0 r.1 r.2 = (d', .finish true 7) := by
            unfold serialNext; rw [h.1]; simp only [repBreak] at hb'; simp [hb', hrem]
          rw [hsn]
          refine ⟨⟨h.1, Or.inr ⟨_, _, rfl⟩⟩, ?_, fun _ => ⟨?_, ?_⟩⟩
          · simp only; rw [hev, hev0.1, her]; simp [hb']
          · simp only; rw [hev0.1, her]; simp only [hb', Bool.false_eq_true, ↓reduceIte]
            have e : d'.remainTimes = 0 := by omega
            rw [e]; simp [hev0.2]
          · simp only [hca, Nat.add_zero]
            have := Nat.le_mul_of_pos_left (cost c + 1) (Nat.succ_pos d'.remainTimes); omega
    · cases e
  · intro d' j rst onFail F c h hget her
    rcases h.2 with ⟨rst', e, h0⟩ | ⟨s, w, e⟩
    · cases e; simp only; rw [hev, (evalAt_get cs 0 c hget).1, her]
    · cases e
  · refine ⟨by simp [decNode, serialStart, hk], Or.inl ⟨[], by simp [serialStart, hk], List.mem_range.2 (by omega)⟩⟩
  · intro j rst onFail e; simp [serialStart, hk] at e; exact e.2.1
  · simp only [serialStart, hk]
  · have hrt : (decNode d cs.length).remainTimes = n - 1 := by simp [decNode, serialStart, hk, hn0]
    simp only [serialStart, hk, hrt]
    rw [visit]; simp only [hk, repBreak]
    have e : n - 1 + 1 = n := by omega
    rw [e]; rfl
  · have hrt : (decNode d cs.length).remainTimes = n - 1 := by simp [decNode, serialStart, hk, hn0]
    simp only [serialStart, hk, hrt]
    rw [cost]; simp only [hk, mult]
    have e : n - 1 + 1 = n := by omega
    rw [e]
    have := costAt0_le cs (by omega)
    have := Nat.mul_le_mul_left n this
    omega

end Tbox.C17
