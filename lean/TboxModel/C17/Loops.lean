/-
C17 — simulation of control-free runs, part 6b: composites that run a child again (LoopAction,
LoopIfAction, RepeatAction).  Their handlers reset children before starting them; a reset child is `Clean`
and has the skeleton of the freshly built one, so it behaves like it (`Good` is needed for every clean
tree with that skeleton, not only for the one the parser built).
-/
import TboxModel.C17.Sim6
import TboxModel.C17.Skel
namespace Tbox.C17
set_option linter.unusedSimpArgs false
set_option linter.unusedVariables false

/-! ### what `reset` does to the loop-side globals: only unobservable log entries -/

theorem leafEv_g (d : Node) (g : G) (c : Nat) :
    (leafEv d g c).cfg = g.cfg ∧ (leafEv d g c).now = g.now ∧ (leafEv d g c).nextId = g.nextId ∧
    (leafEv d g c).user = g.user ∧ trOf (leafEv d g c).log = trOf g.log := by
  unfold leafEv
  split
  · exact ⟨rfl, rfl, rfl, rfl, by simp only [G.emit]; exact trOf_cons_other _ _ (by intro n; simp) (by intro a b c; simp)⟩
  · exact ⟨rfl, rfl, rfl, rfl, rfl⟩

mutual
theorem reset_g : ∀ (t : T) (g : G),
    (reset t g).2.cfg = g.cfg ∧ (reset t g).2.now = g.now ∧ (reset t g).2.nextId = g.nextId ∧
    (reset t g).2.user = g.user ∧ trOf (reset t g).2.log = trOf g.log
  | .node d cs, g => by
    rw [reset]
    have he : trOf (g.emit (.rst d.id)).log = trOf g.log := by
      simp only [G.emit]; exact trOf_cons_other _ _ (by intro n; simp) (by intro a b c; simp)
    split
    · exact ⟨rfl, rfl, rfl, rfl, rfl⟩
    · split
      · obtain ⟨a, b, c, e, f⟩ := leafEv_g d (g.emit (.rst d.id)) 4
        exact ⟨a, b, c, e, by rw [f, he]⟩
      · obtain ⟨a, b, c, e, f⟩ := resetAll_g cs (g.emit (.rst d.id))
        exact ⟨a, b, c, e, by simp only; rw [f, he]⟩
theorem resetAll_g : ∀ (cs : TL) (g : G),
    (resetAll cs g).2.cfg = g.cfg ∧ (resetAll cs g).2.now = g.now ∧ (resetAll cs g).2.nextId = g.nextId ∧
    (resetAll cs g).2.user = g.user ∧ trOf (resetAll cs g).2.log = trOf g.log
  | .nil, g => ⟨rfl, rfl, rfl, rfl, rfl⟩
  | .cons t ts, g => by
    obtain ⟨a, b, c, e, f⟩ := reset_g t g
    obtain ⟨a', b', c', e', f'⟩ := resetAll_g ts (reset t g).2
    simp only [resetAll]
    exact ⟨by rw [a', a], by rw [b', b], by rw [c', c], by rw [e', e], by rw [f', f]⟩
end

theorem resetAt_get : ∀ (cs : TL) (j : Nat) (g : G) (c : T), cs.get? j = some c →
    resetAt cs j g = (setChild cs j (reset c g).1, (reset c g).2)
  | .nil, _, _, _, h => by simp [TL.get?] at h
  | .cons t ts, 0, g, c, h => by simp only [TL.get?, Option.some.injEq] at h; subst h; simp [resetAt, setChild]
  | .cons t ts, j + 1, g, c, h => by
    simp only [TL.get?] at h
    simp [resetAt, setChild, resetAt_get ts j g c h]

theorem resetAt_none : ∀ (cs : TL) (j : Nat) (g : G), cs.get? j = none → resetAt cs j g = (cs, g)
  | .nil, _, _, _ => rfl
  | .cons t ts, 0, g, h => by simp [TL.get?] at h
  | .cons t ts, j + 1, g, h => by
    simp only [TL.get?] at h
    simp [resetAt, resetAt_none ts j g h]

theorem wfL_setChild : ∀ (cs : TL) (j : Nat) (s : T), WFL cs = true → WF s = true → WFL (setChild cs j s) = true
  | .nil, _, _, _, _ => rfl
  | .cons t ts, 0, s, h, hs => by simp only [WFL, Bool.and_eq_true] at h; simp [setChild, WFL, h.2, hs]
  | .cons t ts, j + 1, s, h, hs => by
    simp only [WFL, Bool.and_eq_true] at h; simp [setChild, WFL, h.1, wfL_setChild ts j s h.2 hs]

theorem othersInert_set_none : ∀ (cs : TL) (j : Nat) (s : T), OthersInert cs none → Inert s → OthersInert (setChild cs j s) none
  | .nil, _, _, _, _ => trivial
  | .cons t ts, 0, s, h, hs => ⟨hs, h.2⟩
  | .cons t ts, j + 1, s, h, hs => ⟨h.1, othersInert_set_none ts j s h.2 hs⟩

theorem get_setChild_self : ∀ (cs : TL) (j : Nat) (s c : T), (setChild cs j s).get? j = some c → c = s
  | .nil, _, _, _, h => by simp [setChild, TL.get?] at h
  | .cons t ts, 0, s, c, h => by simp only [setChild, TL.get?, Option.some.injEq] at h; exact h.symm
  | .cons t ts, j + 1, s, c, h => by simp only [setChild, TL.get?] at h; exact get_setChild_self ts j s c h

theorem resetAt_ok (cs : TL) (j : Nat) (g : G) (hw : WFL cs = true) (hi : OthersInert cs none) (hg : GIu g) :
    WFL (resetAt cs j g).1 = true ∧ OthersInert (resetAt cs j g).1 none ∧ GIu (resetAt cs j g).2 ∧
    (resetAt cs j g).2.now = g.now ∧ trOf (resetAt cs j g).2.log = trOf g.log ∧ (resetAt cs j g).1.length = cs.length ∧
    (∀ k c, (resetAt cs j g).1.get? k = some c → (k = j → Clean c = true) ∧ (k ≠ j → cs.get? k = some c)) := by
  cases hget : cs.get? j with
  | none =>
    rw [resetAt_none cs j g hget]
    exact ⟨hw, hi, hg, rfl, rfl, rfl, fun k c h => ⟨(fun e => by subst e; rw [hget] at h; cases h), fun _ => h⟩⟩
  | some c0 =>
    rw [resetAt_get cs j g c0 hget]
    obtain ⟨w1, g1, cl⟩ := reset_wf c0 g (get_wf cs j c0 hw hget) hg.1
    obtain ⟨a, b, c, e, f⟩ := reset_g c0 g
    refine ⟨wfL_setChild cs j _ hw w1, othersInert_set_none cs j _ hi (clean_inert _ cl), ⟨g1, by rw [e]; exact hg.2⟩, b, f,
      length_setChild cs j _, fun k c h => ⟨fun e => ?_, fun ne => ?_⟩⟩
    · subst e; rw [get_setChild_self cs k _ c h]; exact cl
    · rw [get_setChild_ne cs j k _ ne] at h; exact h

theorem resets_ok : ∀ (rs : List Nat) (cs : TL) (g : G), WFL cs = true → OthersInert cs none → GIu g →
    WFL (rs.foldl (fun (p : TL × G) j => resetAt p.1 j p.2) (cs, g)).1 = true ∧
    OthersInert (rs.foldl (fun (p : TL × G) j => resetAt p.1 j p.2) (cs, g)).1 none ∧
    GIu (rs.foldl (fun (p : TL × G) j => resetAt p.1 j p.2) (cs, g)).2 ∧
    (rs.foldl (fun (p : TL × G) j => resetAt p.1 j p.2) (cs, g)).2.now = g.now ∧
    trOf (rs.foldl (fun (p : TL × G) j => resetAt p.1 j p.2) (cs, g)).2.log = trOf g.log ∧
    (rs.foldl (fun (p : TL × G) j => resetAt p.1 j p.2) (cs, g)).1.length = cs.length ∧
    (∀ k c, (rs.foldl (fun (p : TL × G) j => resetAt p.1 j p.2) (cs, g)).1.get? k = some c →
      (k ∈ rs ∨ ∀ c', cs.get? k = some c' → Clean c' = true) → Clean c = true)
  | [], cs, g, hw, hi, hg => by
    refine ⟨hw, hi, hg, rfl, rfl, rfl, fun k c h hor => ?_⟩
    rcases hor with x | h2
    · cases x
    · simp only [List.foldl_nil] at h; exact h2 c h
  | j :: rs, cs, g, hw, hi, hg => by
    simp only [List.foldl_cons]
    obtain ⟨a1, a2, a3, a4, a5, a6, a7⟩ := resetAt_ok cs j g hw hi hg
    obtain ⟨b1, b2, b3, b4, b5, b6, b7⟩ := resets_ok rs (resetAt cs j g).1 (resetAt cs j g).2 a1 a2 a3
    refine ⟨b1, b2, b3, by rw [b4, a4], by rw [b5, a5], by rw [b6, a6], fun k c h hor => ?_⟩
    apply b7 k c h
    by_cases hk : k ∈ rs
    · exact Or.inl hk
    · right
      intro c1 hc1
      by_cases e : k = j
      · exact (a7 k c1 hc1).1 e
      · have := (a7 k c1 hc1).2 e
        rcases hor with x | h2
        · rcases List.mem_cons.1 x with y | y
          · exact absurd y e
          · exact absurd y hk
        · exact h2 c1 this

/-! ### the measure reads the skeleton only; runs keep `WF` and the skeleton -/

mutual
theorem cost_sk : ∀ (t : T), cost (sk t) = cost t ∧ maxDelay (sk t) = maxDelay t
  | .node d cs => by
    have hk : (skN d).kind = d.kind := rfl
    have hm : mult (skN d) = mult d := rfl
    simp only [sk, cost, maxDelay, hk, hm, (costL_sk cs).1, (costL_sk cs).2, and_self]
theorem costL_sk : ∀ (cs : TL), costL (skL cs) = costL cs ∧ maxDelayL (skL cs) = maxDelayL cs
  | .nil => ⟨rfl, rfl⟩
  | .cons t ts => by simp only [skL, costL, maxDelayL, (cost_sk t).1, (cost_sk t).2, (costL_sk ts).1, (costL_sk ts).2, and_self]
end

theorem cost_of_sk (t t' : T) (h : sk t' = sk t) : cost t' = cost t ∧ maxDelay t' = maxDelay t := by
  rw [← (cost_sk t').1, ← (cost_sk t').2, h, (cost_sk t).1, (cost_sk t).2]; exact ⟨rfl, rfl⟩

theorem runU_wf_sk : ∀ (ops : List Op) (t : T) (g : G), WF t = true → GI g → WF (runU t g ops).1 = true ∧ sk (runU t g ops).1 = sk t
  | [], t, g, h, _ => ⟨h, rfl⟩
  | op :: ops, t, g, h, hg => by
    by_cases hf : hasFin t = true
    · simp [runU, hf, h]
    · have hf' : hasFin t = false := by simpa using hf
      simp only [runU, hf', Bool.false_eq_true, ↓reduceIte]
      have a := step_wf t g op h hg
      have b := runU_wf_sk ops (step t g op).1 (step t g op).2.1 a.1 a.2
      exact ⟨b.1, by rw [b.2, step_sk]⟩

theorem skL_setChild : ∀ (cs : TL) (j : Nat) (c s : T), cs.get? j = some c → sk s = sk c → skL (setChild cs j s) = skL cs
  | .nil, _, _, _, h, _ => by simp [TL.get?] at h
  | .cons t ts, 0, c, s, h, e => by simp only [TL.get?, Option.some.injEq] at h; subst h; simp [setChild, skL, e]
  | .cons t ts, j + 1, c, s, h, e => by simp only [TL.get?] at h; simp [setChild, skL, skL_setChild ts j c s h e]

theorem sk_of_skL (cs cs0 : TL) (h : skL cs = skL cs0) (j : Nat) (c c0 : T) (h1 : cs.get? j = some c) (h2 : cs0.get? j = some c0) :
    sk c = sk c0 := by
  have a := skL_get cs j; have b := skL_get cs0 j
  rw [h, h1] at a; rw [h2] at b
  rw [b] at a
  simp only [Option.map_some, Option.some.injEq] at a
  exact a.symm

theorem runOk_none (R : T × G × List Op) (L L' : List (Nat ⊕ (Bool × Nat))) (vs vs' : List Nat) (h : RunOk R L none vs) :
    RunOk R L' none vs' := by
  obtain ⟨h1, h2, h3, h4⟩ := h
  refine ⟨h1, h2, fun hf => ?_, fun hf => ⟨(h4 hf).1, fun hv => absurd rfl hv⟩⟩
  obtain ⟨⟨r, e, _⟩, _⟩ := h3 hf
  cases e

/-! ### the generic theorem with reset lists -/

/-- what a kind that resets children has to provide.  `F`: the children that are clean (never started, or
reset); `need`: big ops still needed from a decision point (a progress measure) -/
structure KSpecR (cs0 : TL) (KI : Node → Next → List Nat → Prop) (val : Node → Next → Option (Bool × Nat))
    (vis : Node → Next → List Nat) (need : Node → Next → Nat) : Prop where
  kfin : ∀ d s w F, KI d (.finish s w) F → val d (.finish s w) = some (s, w) ∧ vis d (.finish s w) = []
  kstart : ∀ d j rst onFail F, KI d (.start j rst onFail) F → j ∈ rst ++ F ∧ j < cs0.length ∧ viaLast d.kind j = false
  kstep : ∀ d j rst onFail F c r, KI d (.start j rst onFail) F → cs0.get? j = some c → eval c = some r →
      KI (serialNext d cs0.length j r.1 r.2).1 (serialNext d cs0.length j r.1 r.2).2 ((rst ++ F).filter (· != j)) ∧
      val d (.start j rst onFail) = val (serialNext d cs0.length j r.1 r.2).1 (serialNext d cs0.length j r.1 r.2).2 ∧
      (val d (.start j rst onFail) ≠ none →
        vis d (.start j rst onFail) = visit c ++ vis (serialNext d cs0.length j r.1 r.2).1 (serialNext d cs0.length j r.1 r.2).2 ∧
        cost c + 1 + need (serialNext d cs0.length j r.1 r.2).1 (serialNext d cs0.length j r.1 r.2).2 ≤ need d (.start j rst onFail))
  kdiv : ∀ d j rst onFail F c, KI d (.start j rst onFail) F → cs0.get? j = some c → eval c = none → val d (.start j rst onFail) = none

/-- the state in which a decision is carried out -/
structure DP (cs0 : TL) (d : Node) (cs : TL) (F : List Nat) (g : G) : Prop where
  dps : DPS d cs
  skl : skL cs = skL cs0
  wf : WFL cs = true
  clean : ∀ j ∈ F, ∀ c, cs.get? j = some c → Clean c = true
  gi : GIu g

theorem applyNext_resets (d : Node) (cs : TL) (g : G) (j : Nat) (rst : List Nat) (onFail : Option (Bool × Nat)) :
    applyNext d cs g (.start j rst onFail) =
      applyNext d (rst.foldl (fun (p : TL × G) j => resetAt p.1 j p.2) (cs, g)).1 (rst.foldl (fun (p : TL × G) j => resetAt p.1 j p.2) (cs, g)).2
        (.start j [] onFail) := by
  rfl

/-- carrying out the reset list of a decision: the same decision without resets, in a state where the
chosen child is clean -/
theorem dp_resets (cs0 : TL) (d : Node) (cs : TL) (F : List Nat) (g : G) (rst : List Nat) (h : DP cs0 d cs F g) :
    DP cs0 d (rst.foldl (fun (p : TL × G) j => resetAt p.1 j p.2) (cs, g)).1 (rst ++ F)
      (rst.foldl (fun (p : TL × G) j => resetAt p.1 j p.2) (cs, g)).2 ∧
    (rst.foldl (fun (p : TL × G) j => resetAt p.1 j p.2) (cs, g)).2.now = g.now ∧
    trOf (rst.foldl (fun (p : TL × G) j => resetAt p.1 j p.2) (cs, g)).2.log = trOf g.log := by
  obtain ⟨b1, b2, b3, b4, b5, b6, b7⟩ := resets_ok rst cs g h.wf h.dps.inert h.gi
  refine ⟨⟨⟨h.dps.st, h.dps.curr, h.dps.tasks, h.dps.tmoAt, h.dps.slp, h.dps.tmo, h.dps.ser, h.dps.fin0, b2⟩, ?_, b1, ?_, b3⟩, b4, b5⟩
  · rw [resets_sk]; exact h.skl
  · intro k hk c hc
    apply b7 k c hc
    rcases List.mem_append.1 hk with x | x
    · exact Or.inl x
    · exact Or.inr (fun c' hc' => h.clean k x c' hc')

end Tbox.C17
