/-
C17 — executable model of the action framework of modules/flow:
  action.{h,cpp}                 Action base lifecycle (start/pause/resume/stop/reset/finish/block,
                                 timeout timer, finish/block notifications posted with loop.runNext and
                                 withdrawn by cancelDispatchedCallback)
  actions/assemble_action.cpp    AssembleAction::onFinal, SerialAssembleAction (curr_action_,
                                 child_finish_func_ = result held back while paused, replay on resume)
  actions/{sequence,parallel,if_else,if_then,switch,loop,loop_if,repeat,wrapper,composite,
           function,sleep,dummy}_action.cpp

Representation.
* An action tree is the mutual inductive `T`/`TL`; every node carries the fields of the C++ object
  (`Node`).  Calls that go DOWN the tree (start/pause/resume/stop/reset of children) are
  synchronous in the code and are structural recursions here.  Everything that goes UP
  (finish/block notifications) is posted with `loop_.runNext` in the code; here the posted task
  lives in the posting node (`Node.tasks`) together with its run id.  Run ids are handed out by
  one increasing counter (`G.nextId`, CommonLoop::allocRunNextId), the loop's next-queue is FIFO,
  so "the queue" is exactly "all tasks of the tree ordered by id" and `Loop::cancel(id)` is removal
  of the task with that id.  `handleNextFunc` swaps the queue out and runs that batch; tasks
  posted meanwhile wait for the next pass: `runQueue` takes the snapshot of ids first.
* Timers (SleepAction's timer, Action's timeout timer) are armed deadlines in the node; a pass
  fires the due ones in deadline order (C02 is about the timer core; the harness makes all
  deadlines pairwise distinct, so no tie-break is involved).
* Reasons are their integer code; a FunctionAction built with a reason callback reports code
  100+tag and message "case:<tag>", the only messages a SwitchAction can match.
* `Cfg` selects the code as it was before the three repairs delivered with this package
  (patches/C17-0x): `fixPar` (ParallelAction keeps a child result that arrives while paused and
  replays it on resume), `fixReplay` (SerialAssembleAction tracks and cancels the re-posted
  held-back result), `fixFin` (a composite that finishes by its own timeout stops its children), `fixBlk` (stop()
  withdraws a queued block notification; a repeated block() replaces the queued one).
  The driver runs the repaired configuration; the `…_counterexample` theorems run the old one.
-/
namespace Tbox.C17

inductive St where | idle | running | pause | finished | stoped
deriving DecidableEq, Repr, Inhabited

inductive Res where | unsure | success | fail
deriving DecidableEq, Repr, Inhabited

/-- Sequence / Parallel modes -/
inductive Mode3 where | all | anyFail | anySucc
deriving DecidableEq, Repr
inductive LoopMode where | forever | untilFail | untilSucc
deriving DecidableEq, Repr
inductive RepMode where | noBreak | breakFail | breakSucc
deriving DecidableEq, Repr
inductive WrapMode where | normal | invert | alwaysSucc | alwaysFail
deriving DecidableEq, Repr

inductive Kind where
  | func (succ : Bool) (tag : Option Nat)   -- FunctionAction (with / without reason callback)
  | sleep (ms : Nat)                        -- SleepAction(time_span)
  | dummy                                   -- DummyAction: finishes / blocks when told to (emit)
  | seq (m : Mode3)
  | par (m : Mode3)
  | ifElse (hasThen hasElse : Bool)         -- children: if, [then], [else]
  | ifThen                                  -- children: if0, then0, if1, then1, …
  | switch (hasDefault : Bool)              -- children: switch, case:0 … case:k-1, [default]
  | loop (m : LoopMode)
  | loopIf (finishResult : Bool)            -- children: if, exec
  | repeat_ (n : Nat) (m : RepMode)
  | wrapper (m : WrapMode)
  | composite
deriving DecidableEq, Repr

/-- `SerialAssembleAction::child_finish_func_`: the closure stored while paused -/
inductive Held where
  | child (idx : Nat) (succ : Bool) (why : Nat)   -- [this,…]{ on<Child>Finished(is_succ, why, trace); }
  | last (succ : Bool) (why : Nat)                -- [this,…]{ finish(is_succ, reason, trace); }
deriving DecidableEq, Repr

/-- a task posted with `loop_.runNext` by this node -/
inductive TK where
  | fin (succ : Bool) (why : Nat)     -- std::bind(finish_cb_, is_succ, why, trace)
  | blk (why : Nat)                   -- std::bind(block_cb_, why, trace)
  | replay (h : Held)                 -- SerialAssembleAction::onResume: the held-back result re-posted
  | replayPar                         -- (repaired) ParallelAction::onResume: held-back child results
deriving DecidableEq, Repr

structure Node where
  id : Nat
  kind : Kind
  tmo : Option Nat := none            -- setTimeout(ms) made at construction time
  st : St := .idle
  res : Res := .unsure
  tasks : List (Nat × TK) := []       -- queued runNext tasks of this node (id, what)
  finId : Nat := 0                    -- finish_cb_run_id_
  blkId : Nat := 0                    -- block_cb_run_id_
  replayId : Nat := 0                 -- (repaired) run id of the re-posted held-back result
  tmoAt : Option Nat := none          -- timer_ev_ armed: deadline
  sleepAt : Option Nat := none        -- SleepAction::timer_ armed: deadline
  finishTime : Nat := 0               -- SleepAction::finish_time_
  remain : Int := 0                   -- SleepAction::remain_time_span_ (may be negative)
  curr : Option Nat := none           -- curr_action_ (child index)
  held : Option Held := none          -- child_finish_func_
  index : Nat := 0                    -- SequenceAction::index_ / IfThenAction::index_
  remainTimes : Nat := 0              -- RepeatAction::remain_times_
  finished : List (Nat × Bool) := []  -- ParallelAction::finished_children_ (std::map as assoc list)
  heldPar : List (Nat × Bool) := []   -- (repaired) child results that arrived while paused
  finals : Nat := 0                   -- ghost: how often `onFinal()` ran since construction / the last reset
deriving DecidableEq, Repr

mutual
inductive T where
  | node (d : Node) (cs : TL)
inductive TL where
  | nil
  | cons (t : T) (ts : TL)
end

structure Cfg where
  fixPar : Bool := true
  fixReplay : Bool := true
  fixFin : Bool := true
  fixBlk : Bool := true
  fixTail : Bool := true     -- patches/C17-07: the tail of Action::start() is skipped after a re-entrant reset()
  fixLoop : Bool := true     -- patches/C17-08: the replay of held-back results stops when the action was reset
deriving DecidableEq, Repr

/-- what the user of the tree can see happening -/
inductive Ev where
  | fn (n : Nat)                    -- the function of FunctionAction n was called
  | final (n : Nat)                 -- final callback of assemble action n
  | dcb (n : Nat) (c : Nat)         -- DummyAction n callback: 0 start 1 stop 2 pause 3 resume 4 reset
  | rootFin (s : Bool) (w : Nat) (st : St)   -- finish callback of the root delivered (ghost: root state then)
  | rootBlk (w : Nat) (st : St)              -- block callback of the root delivered
  | ret (b : Bool)                  -- result of a deferred control call
  | rst (n : Nat)                   -- ghost (not observable): action n was reset from a non-idle state
deriving DecidableEq, Repr

inductive Call where
  | start | pause | resume | stop | reset
  | emitFin (n : Nat) (succ : Bool)     -- DummyAction n: emitFinish(succ)   (applied only while it is running)
  | emitBlk (n : Nat)                   -- DummyAction n: emitBlock(Reason())
deriving DecidableEq, Repr

/-- one-shot scripts attached to the callbacks of the root: every invocation of the callback takes the
next script and makes its control calls on the root, synchronously, from inside the callback -/
structure Scr where
  final : List (List Call) := []        -- setFinalCallback of the root (runs at the end of finish() / stop())
  fin : List (List Call) := []          -- setFinishCallback of the root (runs from the loop)
  blk : List (List Call) := []          -- setBlockCallback of the root (runs from the loop)
deriving Repr

/-- loop-side globals -/
structure G where
  cfg : Cfg := {}
  now : Nat := 0                        -- steady clock, ms
  nextId : Nat := 1                     -- CommonLoop::run_next_id_alloc_ (only the order matters)
  log : List Ev := []                   -- newest first
  user : List (Nat × List Call) := []   -- tasks posted by the script itself (`defer`)
  scr : Scr := {}                       -- callback scripts (used by the re-entrant layer Reent.lean only)
deriving Repr

def G.emit (g : G) (e : Ev) : G := { g with log := e :: g.log }

/-! ### node-local pieces of `Action` -/

def TL.length : TL → Nat
  | .nil => 0
  | .cons _ ts => ts.length + 1

def T.data : T → Node
  | .node d _ => d
def T.children : T → TL
  | .node _ cs => cs

def TL.get? : TL → Nat → Option T
  | .nil, _ => none
  | .cons t _, 0 => some t
  | .cons _ ts, i + 1 => ts.get? i

def Node.underway (d : Node) : Bool := d.st == .running || d.st == .pause

def Node.isLeaf (d : Node) : Bool :=
  match d.kind with
  | .func .. | .sleep _ | .dummy => true
  | _ => false

def Node.isPar (d : Node) : Bool :=
  match d.kind with
  | .par _ => true
  | _ => false

/-- `loop_.runNext(task)`: appended to the node's tasks with a fresh id -/
def post (d : Node) (g : G) (tk : TK) : Node × G :=
  ({ d with tasks := d.tasks ++ [(g.nextId, tk)] }, { g with nextId := g.nextId + 1 })

/-- `loop_.cancel(id)` -/
def cancelId (d : Node) (id : Nat) : Node := { d with tasks := d.tasks.filter (fun p => p.1 != id) }

/-- `AssembleAction::onFinal` (the harness installs a final callback on every assemble action) -/
def onFinal (d : Node) (g : G) : Node × G :=
  ({ d with finals := d.finals + 1 }, if d.isLeaf then g else g.emit (.final d.id))

/-- `timer_ev_->enable()` of the one-shot timeout timer (no-op when none is configured or it is armed) -/
def armTmo (d : Node) (now : Nat) : Node :=
  { d with tmoAt := match d.tmo with
      | none => d.tmoAt
      | some ms => if d.tmoAt.isSome then d.tmoAt else some (now + ms) }

/-- `cancelDispatchedCallback()`: `loop_.cancel(id)` for the finish / block run ids that are not 0 -/
def cancelDispatched (d : Node) : Node :=
  { d with tasks := d.tasks.filter (fun p => !((d.finId != 0 && p.1 == d.finId) || (d.blkId != 0 && p.1 == d.blkId))),
           finId := 0, blkId := 0 }

/-- cancel of the tracked replay task (repaired code only) -/
def cancelReplay (cfg : Cfg) (d : Node) : Node :=
  if (if d.isPar then cfg.fixPar else cfg.fixReplay) then
    { d with tasks := d.tasks.filter (fun p => !(d.replayId != 0 && p.1 == d.replayId)), replayId := 0 }
  else d

/-- `std::map::operator[]=`: insert or overwrite -/
def mapSet (m : List (Nat × Bool)) (k : Nat) (v : Bool) : List (Nat × Bool) :=
  if m.any (fun p => p.1 == k) then m.map (fun p => if p.1 == k then (k, v) else p) else m ++ [(k, v)]

/-! ### calls that go down the tree

The node part of every call is written once for all kinds (`Node.stopped`, `Node.resetted`,
`Node.paused`): fields a kind never uses (curr/held of a leaf, sleepAt of a non-sleep, …) are
cleared along; they are never read for that kind, so the observable behaviour is that of the
per-class overrides (onStop/onReset/onPause of SerialAssembleAction, ParallelAction, SleepAction). -/

inductive Shape where | leaf | par | serial
deriving DecidableEq, Repr

def Node.shape (d : Node) : Shape := if d.isLeaf then .leaf else if d.isPar then .par else .serial

/-- callbacks of a DummyAction leaf (0 start 1 stop 2 pause 3 resume 4 reset) -/
def leafEv (d : Node) (g : G) (c : Nat) : G := if d.kind == .dummy then g.emit (.dcb d.id c) else g

/-- node part of `Action::stop` + onStop of the classes: Stoped, timers off, (repaired) queued block
notification and replay withdrawn, held-back results dropped -/
def Node.stopped (cfg : Cfg) (d : Node) : Node :=
  let d := { d with st := .stoped, tmoAt := none, sleepAt := none, curr := none, held := none, heldPar := [] }
  cancelReplay cfg (if cfg.fixBlk then cancelDispatched d else d)

mutual
/-- `Action::stop` -/
def stop : T → G → T × G
  | .node d cs, g =>
    if !d.underway then (.node d cs, g) else
    match d.shape with
    | .leaf => let r := onFinal (d.stopped g.cfg) (leafEv d g 1); (.node r.1 cs, r.2)
    | .par => let (cs', g') := stopAll cs g; let r := onFinal (d.stopped g.cfg) g'; (.node r.1 cs', r.2)
    | .serial =>
        -- SerialAssembleAction::onStop: stopCurrAction(); child_finish_func_ = nullptr
        match d.curr with
        | some i => let (cs', g') := stopAt cs i g; let r := onFinal (d.stopped g.cfg) g'; (.node r.1 cs', r.2)
        | none => let r := onFinal (d.stopped g.cfg) g; (.node r.1 cs, r.2)
def stopAt : TL → Nat → G → TL × G
  | .nil, _, g => (.nil, g)
  | .cons t ts, 0, g => let (t', g') := stop t g; (.cons t' ts, g')
  | .cons t ts, i + 1, g => let (ts', g') := stopAt ts i g; (.cons t ts', g')
def stopAll : TL → G → TL × G
  | .nil, g => (.nil, g)
  | .cons t ts, g => let (t', g1) := stop t g; let (ts', g2) := stopAll ts g1; (.cons t' ts', g2)
end

/-- `SerialAssembleAction::stopCurrAction` -/
def stopCurr (d : Node) (cs : TL) (g : G) : Node × TL × G :=
  match d.curr with
  | some i => let (cs', g') := stopAt cs i g; ({ d with curr := none }, cs', g')
  | none => (d, cs, g)

/-- `Action::finish(is_succ, why)` on node `d` with children `cs` -/
def finish (d : Node) (cs : TL) (g : G) (succ : Bool) (why : Nat) : Node × TL × G × Bool :=
  if d.st == .finished || d.st == .stoped then (d, cs, g, false) else
  let d := { d with st := .finished, tmoAt := none }
  -- onFinished: CompositeAction stops its current child first; the repaired serial / parallel
  -- composites do the same (a finish that does not come from the last child: the timeout)
  let (d, cs, g) :=
    if d.isLeaf then (d, cs, g)
    else if d.isPar then
      if g.cfg.fixFin then let (cs', g') := stopAll cs g; (d, cs', g') else (d, cs, g)
    else if d.kind == .composite || g.cfg.fixFin then stopCurr d cs g
    else (d, cs, g)
  let d := { d with res := if succ then .success else .fail }
  let (d, g) := post { d with finId := g.nextId } g (.fin succ why)
  ((onFinal d g).1, cs, (onFinal d g).2, true)

/-- `Action::block(why)` -/
def block (d : Node) (g : G) (why : Nat) : Node × G × Bool :=
  if d.st == .finished || d.st == .stoped then (d, g, false) else
  -- (repaired) a block notification that is still queued is replaced by the new one
  let d := if g.cfg.fixBlk && d.blkId != 0 then cancelId d d.blkId else d
  let (d, g) := post { d with st := .pause, blkId := g.nextId } g (.blk why)
  (d, g, true)

/-- node part of `Action::reset` + onReset of the classes -/
def Node.resetted (cfg : Cfg) (d : Node) : Node :=
  { cancelDispatched (cancelReplay cfg d) with
      st := .idle, res := .unsure, finals := 0, tmoAt := none, sleepAt := none, curr := none, held := none,
      index := 0, finished := [], heldPar := [] }

mutual
/-- `Action::reset` -/
def reset : T → G → T × G
  | .node d cs, g =>
    if d.st == .idle then (.node d cs, g) else
    let g := g.emit (.rst d.id)
    if d.isLeaf then (.node (d.resetted g.cfg) cs, leafEv d g 4)
    else let (cs', g') := resetAll cs g; (.node (d.resetted g.cfg) cs', g')
def resetAll : TL → G → TL × G
  | .nil, g => (.nil, g)
  | .cons t ts, g => let (t', g1) := reset t g; let (ts', g2) := resetAll ts g1; (.cons t' ts', g2)
end

def resetAt : TL → Nat → G → TL × G
  | .nil, _, g => (.nil, g)
  | .cons t ts, 0, g => let (t', g') := reset t g; (.cons t' ts, g')
  | .cons t ts, i + 1, g => let (ts', g') := resetAt ts i g; (.cons t ts', g')

/-- node part of `Action::pause` + SleepAction::onPause (remaining time saved, timer off) -/
def Node.paused (now : Nat) (d : Node) : Node :=
  { d with st := .pause, tmoAt := none, sleepAt := none, remain := (d.finishTime : Int) - (now : Int) }

mutual
/-- `Action::pause` -/
def pause : T → G → T × G × Bool
  | .node d cs, g =>
    if d.st == .pause then (.node d cs, g, true) else
    if d.st != .running then (.node d cs, g, false) else
    match d.shape with
    | .leaf => (.node (d.paused g.now) cs, leafEv d g 2, true)
    | .par => let (cs', g') := pauseAll cs g; (.node (d.paused g.now) cs', g', true)
    | .serial =>
        match d.curr with
        | some i => let (cs', g') := pauseAt cs i g; (.node (d.paused g.now) cs', g', true)
        | none => (.node (d.paused g.now) cs, g, true)
def pauseAt : TL → Nat → G → TL × G
  | .nil, _, g => (.nil, g)
  | .cons t ts, 0, g => let (t', g', _) := pause t g; (.cons t' ts, g')
  | .cons t ts, i + 1, g => let (ts', g') := pauseAt ts i g; (.cons t ts', g')
def pauseAll : TL → G → TL × G
  | .nil, g => (.nil, g)
  | .cons t ts, g => let (t', g1, _) := pause t g; let (ts', g2) := pauseAll ts g1; (.cons t' ts', g2)
end

/-- node part of `Action::resume`: timeout re-armed (full interval), Running -/
def Node.resumed (now : Nat) (d : Node) : Node := { armTmo d now with st := .running }

mutual
/-- `Action::resume` -/
def resume : T → G → T × G × Bool
  | .node d cs, g =>
    if d.st == .running then (.node d cs, g, true) else
    if d.st != .pause then (.node d cs, g, false) else
    match d.shape with
    | .leaf =>
        -- SleepAction: timer_->initialize(remain_time_span_); enable(): deadline = now + (uint64)remain
        let d' := match d.kind with
          | .sleep _ => { d with sleepAt := some ((g.now : Int) + d.remain).toNat }
          | _ => d
        (.node (d'.resumed g.now) cs, leafEv d g 3, true)
    | .par =>
        -- resume the children that are paused; (repaired) re-post the held-back results
        let (cs', g') := resumePaused cs g
        -- (one replay task at a time: it handles everything held back when it runs)
        if g.cfg.fixPar && !d.heldPar.isEmpty && d.replayId == 0 then
          let (d', g'') := post { d with replayId := g'.nextId } g' .replayPar
          (.node (d'.resumed g.now) cs', g'', true)
        else (.node (d.resumed g.now) cs', g', true)
    | .serial =>
        match d.curr with
        | some i => let (cs', g') := resumeAt cs i g; (.node (d.resumed g.now) cs', g', true)
        | none =>
          match d.held with
          | some h =>
              -- loop_.runNext(std::move(child_finish_func_)) — tracked in the repaired code
              let (d', g') := post { d with held := none, replayId := if g.cfg.fixReplay then g.nextId else d.replayId } g (.replay h)
              (.node (d'.resumed g.now) cs, g', true)
          | none => (.node (d.resumed g.now) cs, g, true)
def resumeAt : TL → Nat → G → TL × G
  | .nil, _, g => (.nil, g)
  | .cons t ts, 0, g => let (t', g', _) := resume t g; (.cons t' ts, g')
  | .cons t ts, i + 1, g => let (ts', g') := resumeAt ts i g; (.cons t ts', g')
def resumePaused : TL → G → TL × G
  | .nil, g => (.nil, g)
  | .cons (.node d cs) ts, g =>
      if d.st == .pause then
        let (t', g1, _) := resume (.node d cs) g
        let (ts', g2) := resumePaused ts g1
        (.cons t' ts', g2)
      else
        let (ts', g2) := resumePaused ts g
        (.cons (.node d cs) ts', g2)
end

/-! ### control flow of the serial composites (pure part of their handlers) -/

/-- what a serial composite does next -/
inductive Next where
  /-- reset the listed children, then `startThisAction(child i)`; if that fails, `onFail` -/
  | start (i : Nat) (resets : List Nat) (onFail : Option (Bool × Nat))
  | finish (succ : Bool) (why : Nat)
deriving DecidableEq, Repr

/-- `SequenceAction::startOtheriseFinish` -/
def seqStartOrFinish (d : Node) (n : Nat) (succ : Bool) (why : Nat) : Next :=
  if d.index < n then .start d.index [] (some (false, 6)) else .finish succ why

/-- `IfThenAction::doStart` -/
def ifThenDoStart (d : Node) (n : Nat) : Next :=
  if d.index ≥ n / 2 then .finish false 10 else .start (2 * d.index) [] none

/-- the `onStart` of the serial composites; `n` = number of children -/
def serialStart (_cfg : Cfg) (d : Node) (n : Nat) : Node × Next :=
  match d.kind with
  | .seq _ => (d, seqStartOrFinish d n true 0)
  | .ifThen => let d := { d with index := 0 }; (d, ifThenDoStart d n)
  | .repeat_ times _ =>
      -- remain_times_ = repeat_times_ - 1  (size_t: 0 - 1 wraps: times = 0 repeats "for ever", which is what
      -- the unit test RepeatAction.FunctionActionForeverNoBreak relies on)
      ({ d with remainTimes := if times == 0 then 2^64 - 1 else times - 1 }, .start 0 [] none)
  | _ => (d, .start 0 [] none)

/-- does child `i` report through `SerialAssembleAction::onLastChildFinished`? -/
def viaLast (k : Kind) (i : Nat) : Bool :=
  match k with
  | .ifElse _ _ => i ≥ 1
  | .ifThen => i % 2 == 1
  | .switch _ => i ≥ 1
  | .composite => true
  | _ => false

/-- body of `on<Child>Finished` after `handleChildFinishEvent` returned false (state is running) -/
def serialNext (d : Node) (n : Nat) (i : Nat) (succ : Bool) (why : Nat) : Node × Next :=
  match d.kind with
  | .seq m =>
      if (m == .anySucc && succ) || (m == .anyFail && !succ) then (d, .finish succ why)
      else let d := { d with index := d.index + 1 }; (d, seqStartOrFinish d n succ why)
  | .ifElse hasThen hasElse =>
      if succ then (if hasThen then (d, .start 1 [] none) else (d, .finish true why))
      else (if hasElse then (d, .start (if hasThen then 2 else 1) [] none) else (d, .finish true why))
  | .ifThen =>
      if succ then (d, .start (2 * d.index + 1) [] none)
      else let d := { d with index := d.index + 1 }; (d, ifThenDoStart d n)
  | .switch hasDefault =>
      if succ then
        let ncases := n - 1 - (if hasDefault then 1 else 0)
        if why ≥ 100 && why - 100 < ncases then (d, .start (1 + (why - 100)) [] none)
        else if hasDefault then (d, .start (n - 1) [] none)
        else (d, .finish false 9)
      else (d, .finish false 8)
  | .loop m =>
      if (m == .untilSucc && succ) || (m == .untilFail && !succ) then (d, .finish succ why)
      else (d, .start 0 [0] none)
  | .loopIf fr =>
      if i == 0 then (if succ then (d, .start 1 [] none) else (d, .finish fr why))
      else (d, .start 0 [0, 1] (some (fr, why)))
  | .repeat_ _ m =>
      if (m == .breakSucc && succ) || (m == .breakFail && !succ) then (d, .finish succ why)
      else if d.remainTimes > 0 then ({ d with remainTimes := d.remainTimes - 1 }, .start 0 [0] none)
      else (d, .finish true 7)
  | .wrapper m =>
      match m with
      | .normal => (d, .finish succ why)
      | .invert => (d, .finish (!succ) why)
      | .alwaysSucc => (d, .finish true why)
      | .alwaysFail => (d, .finish false why)
  | _ => (d, .finish succ why)     -- (composite: never reached, its child reports via onLastChildFinished)

/-! ### `Action::start` -/

/-- `if (last_state == state_) { timer_ev_->enable(); state_ = kRunning; }` at the end of `Action::start` -/
def Node.started (now : Nat) (d : Node) : Node := if d.st == .idle then { armTmo d now with st := .running } else d

/-- the mode of a ParallelAction node -/
def Node.parMode (d : Node) : Mode3 := match d.kind with | .par m => m | _ => .all

mutual
def start : T → G → T × G × Bool
  | .node d cs, g =>
    if d.st == .running then (.node d cs, g, true) else
    if d.st != .idle then (.node d cs, g, false) else
    match d.shape with
    | .leaf =>
        match d.kind with
        | .func succ tag =>
            let r := finish d cs (g.emit (.fn d.id)) succ (match tag with | some t => 100 + t | none => 2)
            (.node (r.1.started g.now) r.2.1, r.2.2.1, true)
        | .sleep ms =>
            (.node ({ d with finishTime := g.now + ms, sleepAt := some (g.now + ms) }.started g.now) cs, g, true)
        | _ => (.node (d.started g.now) cs, leafEv d g 0, true)
    | .par =>
        let m := d.parMode
        let sc := startChildren cs 0 (m == .anyFail) g
        let d := { d with finished := sc.2.2.foldl (fun acc i => mapSet acc i false) d.finished }
        if m == .anyFail && !sc.2.2.isEmpty then
          -- finish(true); stopAllActions(); return
          let r := finish d sc.1 sc.2.1 true 0
          let sa := stopAll r.2.1 r.2.2.1
          (.node (r.1.started g.now) sa.1, sa.2, true)
        else if d.finished.length == cs.length then
          let r := finish d sc.1 sc.2.1 true 0
          (.node (r.1.started g.now) r.2.1, r.2.2.1, true)
        else (.node (d.started g.now) sc.1, sc.2.1, true)
    | .serial =>
        let ss := serialStart g.cfg d cs.length
        match ss.2 with
        | .finish s w =>
            let r := finish ss.1 cs g s w
            (.node (r.1.started g.now) r.2.1, r.2.2.1, true)
        | .start i _ onFail =>
            let sa := startAt cs i g
            if sa.2.2 then (.node ({ ss.1 with curr := some i }.started g.now) sa.1, sa.2.1, true)
            else match onFail with
              | some (s, w) =>
                  let r := finish ss.1 sa.1 sa.2.1 s w
                  (.node (r.1.started g.now) r.2.1, r.2.2.1, true)
              | none => (.node (ss.1.started g.now) sa.1, sa.2.1, true)
def startAt : TL → Nat → G → TL × G × Bool
  | .nil, _, g => (.nil, g, false)
  | .cons t ts, 0, g => let (t', g', ok) := start t g; (.cons t' ts, g', ok)
  | .cons t ts, i + 1, g => let (ts', g', ok) := startAt ts i g; (.cons t ts', g', ok)
/-- `ParallelAction::onStart` loop: start every child; returns the indices whose start() failed;
with `stopAtFail` the loop is left at the first failure -/
def startChildren : TL → Nat → Bool → G → TL × G × List Nat
  | .nil, _, _, g => (.nil, g, [])
  | .cons t ts, idx, stopAtFail, g =>
      let r := start t g
      if !r.2.2 && stopAtFail then (.cons r.1 ts, r.2.1, [idx])
      else
        let rest := startChildren ts (idx + 1) stopAtFail r.2.1
        (.cons r.1 rest.1, rest.2.1, if r.2.2 then rest.2.2 else idx :: rest.2.2)
end

/-! ### handlers run by the loop: child notifications, replays, timers -/

/-- drop the Bool of `finish` -/
def finish3 (d : Node) (cs : TL) (g : G) (succ : Bool) (why : Nat) : Node × TL × G :=
  ((finish d cs g succ why).1, (finish d cs g succ why).2.1, (finish d cs g succ why).2.2.1)

/-- carry out a `Next` (handlers of the serial composites, state is running) -/
def applyNext (d : Node) (cs : TL) (g : G) : Next → Node × TL × G
  | .finish s w => finish3 d cs g s w
  | .start i resets onFail =>
      let r0 := resets.foldl (fun (p : TL × G) j => resetAt p.1 j p.2) (cs, g)
      let sa := startAt r0.1 i r0.2
      if sa.2.2 then ({ d with curr := some i }, sa.1, sa.2.1)
      else match onFail with
        | some (s, w) => finish3 d sa.1 sa.2.1 s w
        | none => (d, sa.1, sa.2.1)

/-- a serial composite is told that child `i` finished (finish callback of the child, or replay) -/
def serialOnChild (d : Node) (cs : TL) (g : G) (i : Nat) (succ : Bool) (why : Nat) : Node × TL × G :=
  let d := { d with curr := none }
  if viaLast d.kind i then
    -- onLastChildFinished
    if d.st == .running then finish3 d cs g succ why
    else if d.st == .pause then ({ d with held := some (.last succ why) }, cs, g)
    else (d, cs, g)
  else
    -- handleChildFinishEvent
    if d.st == .running then
      applyNext (serialNext d cs.length i succ why).1 cs g (serialNext d cs.length i succ why).2
    else if d.st == .pause then ({ d with held := some (.child i succ why) }, cs, g)
    else (d, cs, g)

/-- `ParallelAction::onChildFinished(index, is_succ)` -/
def parOnChild (d : Node) (cs : TL) (g : G) (i : Nat) (succ : Bool) : Node × TL × G :=
  if d.st == .running then
    let d := { d with finished := mapSet d.finished i succ }
    let m := d.parMode
    if (m == .anySucc && succ) || (m == .anyFail && !succ) then
      finish3 d (stopAll cs g).1 (stopAll cs g).2 true 0
    else if d.finished.length == cs.length then finish3 d cs g true 0
    else (d, cs, g)
  else if d.st == .pause && g.cfg.fixPar then ({ d with heldPar := d.heldPar ++ [(i, succ)] }, cs, g)
  else (d, cs, g)

/-- the finish callback of child `i` runs in its parent `d` -/
def onChildFin (d : Node) (cs : TL) (g : G) (i : Nat) (succ : Bool) (why : Nat) : Node × TL × G :=
  if d.isPar then parOnChild d cs g i succ else serialOnChild d cs g i succ why

/-- the block callback of a child runs in its parent `d` -/
def onChildBlk (d : Node) (cs : TL) (g : G) (why : Nat) : Node × TL × G :=
  if d.isPar then
    -- onChildBlocked
    if d.st == .running then
      ((block d (pauseAll cs g).2 why).1, (pauseAll cs g).1, (block d (pauseAll cs g).2 why).2.1)
    else (d, cs, g)
  else ((block d g why).1, cs, (block d g why).2.1)

/-- a re-posted held-back result runs in node `d` itself -/
def onReplay (d : Node) (cs : TL) (g : G) : TK → Node × TL × G
  | .replay (.child i s w) => serialOnChild d cs g i s w
  | .replay (.last s w) => finish3 d cs g s w
  | .replayPar =>
      d.heldPar.foldl (fun (p : Node × TL × G) r => parOnChild p.1 p.2.1 p.2.2 r.1 r.2) ({ d with heldPar := [], replayId := 0 }, cs, g)
  | _ => (d, cs, g)

/-- SleepAction's timer callback / Action's timeout callback on node `d` -/
def onTimer (d : Node) (cs : TL) (g : G) (isSleep : Bool) : Node × TL × G :=
  if isSleep then finish3 { d with sleepAt := none } cs g true 3
  else finish3 { d with tmoAt := none } cs g false 1

/-! ### the loop: locating tasks and timers in the tree, running a pass -/

mutual
/-- apply `f` to the node at `path` (child indices from the root) -/
def modifyAt : T → List Nat → (Node → TL → G → Node × TL × G) → G → T × G
  | .node d cs, [], f, g => let (d', cs', g') := f d cs g; (.node d' cs', g')
  | .node d cs, i :: p, f, g => let (cs', g') := modifyAtL cs i p f g; (.node d cs', g')
def modifyAtL : TL → Nat → List Nat → (Node → TL → G → Node × TL × G) → G → TL × G
  | .nil, _, _, _, g => (.nil, g)
  | .cons t ts, 0, p, f, g => let (t', g') := modifyAt t p f g; (.cons t' ts, g')
  | .cons t ts, i + 1, p, f, g => let (ts', g') := modifyAtL ts i p f g; (.cons t ts', g')
end

mutual
/-- every queued task of the tree: (run id, path of the posting node, what) -/
def allTasks : T → List Nat → List (Nat × List Nat × TK)
  | .node d cs, path => d.tasks.map (fun p => (p.1, path, p.2)) ++ allTasksL cs path 0
def allTasksL : TL → List Nat → Nat → List (Nat × List Nat × TK)
  | .nil, _, _ => []
  | .cons t ts, path, i => allTasks t (path ++ [i]) ++ allTasksL ts path (i + 1)
end

mutual
/-- every armed timer: (deadline, path, isSleep) -/
def allTimers : T → List Nat → List (Nat × List Nat × Bool)
  | .node d cs, path =>
      (match d.sleepAt with | some t => [(t, path, true)] | none => []) ++
      (match d.tmoAt with | some t => [(t, path, false)] | none => []) ++ allTimersL cs path 0
def allTimersL : TL → List Nat → Nat → List (Nat × List Nat × Bool)
  | .nil, _, _ => []
  | .cons t ts, path, i => allTimers t (path ++ [i]) ++ allTimersL ts path (i + 1)
end

/-- insertion sort on the first component -/
def insertBy {α} (x : Nat × α) : List (Nat × α) → List (Nat × α)
  | [] => [x]
  | y :: ys => if x.1 ≤ y.1 then x :: y :: ys else y :: insertBy x ys
def sortBy {α} (l : List (Nat × α)) : List (Nat × α) := l.foldr insertBy []

def splitLast : List Nat → Option (List Nat × Nat)
  | [] => none
  | [i] => some ([], i)
  | i :: rest => match splitLast rest with
      | some (p, l) => some (i :: p, l)
      | none => none

/-- the loop pops the queued item `id` of child `i` before calling it -/
def popChild : TL → Nat → Nat → TL
  | .nil, _, _ => .nil
  | .cons t ts, 0, id => .cons (.node (cancelId t.data id) t.children) ts
  | .cons t ts, i + 1, id => .cons t (popChild ts i id)

/-- run the task `id` if it is still queued: a child's notification runs in its parent, a replay in
the node itself, the root's notification reaches the owner of the tree -/
def runTask (t : T) (g : G) (id : Nat) : T × G :=
  match (allTasks t []).find? (fun x => x.1 == id) with
  | none => (t, g)
  | some (_, path, tk) =>
    match tk with
    | .fin s w =>
        match splitLast path with
        | none => (.node (cancelId t.data id) t.children, g.emit (.rootFin s w t.data.st))
        | some (pp, i) => modifyAt t pp (fun d cs g => onChildFin d (popChild cs i id) g i s w) g
    | .blk w =>
        match splitLast path with
        | none => (.node (cancelId t.data id) t.children, g.emit (.rootBlk w t.data.st))
        | some (pp, i) => modifyAt t pp (fun d cs g => onChildBlk d (popChild cs i id) g w) g
    | tk => modifyAt t path (fun d cs g => onReplay (cancelId d id) cs g tk) g

mutual
def pathOf : T → Nat → List Nat → Option (List Nat)
  | .node d cs, n, path => if d.id == n then some path else pathOfL cs n path 0
def pathOfL : TL → Nat → List Nat → Nat → Option (List Nat)
  | .nil, _, _, _ => none
  | .cons t ts, n, path, i =>
      match pathOf t n (path ++ [i]) with
      | some p => some p
      | none => pathOfL ts n path (i + 1)
end

mutual
/-- the subtree at a path of child indices -/
def subAt : T → List Nat → Option T
  | t, [] => some t
  | .node _ cs, i :: p => subAtL cs i p
def subAtL : TL → Nat → List Nat → Option T
  | .nil, _, _ => none
  | .cons t _, 0, p => subAt t p
  | .cons _ ts, i + 1, p => subAtL ts i p
end

/-- is the node at `p` a DummyAction in state running? -/
def runningDummyAt (t : T) (p : List Nat) : Bool :=
  match subAt t p with
  | some s => s.data.kind == .dummy && s.data.st == .running
  | none => false

/-- one control call of the script on the root (or an emit on a dummy leaf) -/
def doCall (t : T) (g : G) : Call → T × G × Bool
  | .start => start t g
  | .pause => pause t g
  | .resume => resume t g
  | .stop => ((stop t g).1, (stop t g).2, true)
  | .reset => ((reset t g).1, (reset t g).2, true)
  | .emitFin n s =>
      match pathOf t n [] with
      | none => (t, g, false)
      | some p =>
        if runningDummyAt t p then
          ((modifyAt t p (fun d cs g => finish3 d cs g s 0) g).1, (modifyAt t p (fun d cs g => finish3 d cs g s 0) g).2, true)
        else (t, g, false)
  | .emitBlk n =>
      match pathOf t n [] with
      | none => (t, g, false)
      | some p =>
        if runningDummyAt t p then
          ((modifyAt t p (fun d cs g => ((block d g 0).1, cs, (block d g 0).2.1)) g).1,
           (modifyAt t p (fun d cs g => ((block d g 0).1, cs, (block d g 0).2.1)) g).2, true)
        else (t, g, false)

def doCalls (t : T) (g : G) (calls : List Call) : T × G × List Bool :=
  calls.foldl (fun (p : T × G × List Bool) c => ((doCall p.1 p.2.1 c).1, (doCall p.1 p.2.1 c).2.1, p.2.2 ++ [(doCall p.1 p.2.1 c).2.2])) (t, g, [])

/-- a task posted by the script itself: every call's result is reported as it is made -/
def runUser (t : T) (g : G) (calls : List Call) : T × G :=
  calls.foldl (fun (q : T × G) c => ((doCall q.1 q.2 c).1, (doCall q.1 q.2 c).2.1.emit (.ret (doCall q.1 q.2 c).2.2))) (t, g)

/-- one item of the batch: a task of the script, or a queued task of the tree -/
def runItem (t : T) (g : G) (id : Nat) : T × G :=
  match g.user.find? (fun u => u.1 == id) with
  | some (_, calls) => runUser t { g with user := g.user.filter (fun u => u.1 != id) } calls
  | none => runTask t g id

/-- `handleNextFunc`: the batch queued so far, in FIFO (= id) order; tasks posted meanwhile wait -/
def runQueue (t : T) (g : G) : T × G :=
  let ids := sortBy (((allTasks t []).map fun x => (x.1, ())) ++ (g.user.map fun x => (x.1, ())))
  ids.foldl (fun (p : T × G) x => runItem p.1 p.2 x.1) (t, g)

/-- one due timer: it fires if it is still armed with that deadline -/
def fireOne (t : T) (g : G) (dl : Nat) (path : List Nat) (isSleep : Bool) : T × G :=
  modifyAt t path (fun d cs g =>
    if (if isSleep then d.sleepAt else d.tmoAt) == some dl then onTimer d cs g isSleep else (d, cs, g)) g

/-- `handleExpiredTimers`: due timers in deadline order (a timer disarmed meanwhile does not fire) -/
def fireTimers (t : T) (g : G) : T × G :=
  let due := sortBy ((allTimers t []).filter (fun x => x.1 ≤ g.now))
  due.foldl (fun (p : T × G) x => fireOne p.1 p.2 x.1 x.2.1 x.2.2) (t, g)

/-- script operations; each is followed by the rest of the loop pass (`runQueue`) and the timer
phase of the next one (`fireTimers`) -/
inductive Op where
  | calls (cs : List Call)        -- control calls made back to back from an fd callback
  | defer (cs : List Call)        -- the same calls posted with runNext
  | adv (ms : Nat)                -- the clock moves on
  | pass
deriving Repr

def applyOp (t : T) (g : G) : Op → T × G × List Bool
  | .calls cs => doCalls t g cs
  | .defer cs => (t, { g with user := g.user ++ [(g.nextId, cs)], nextId := g.nextId + 1 }, [])
  | .adv ms => (t, { g with now := g.now + ms }, [])
  | .pass => (t, g, [])

def step (t : T) (g : G) (op : Op) : T × G × List Bool :=
  let a := applyOp t g op
  let q := runQueue a.1 a.2.1
  let f := fireTimers q.1 q.2
  (f.1, f.2, a.2.2)

def run (t : T) (g : G) : List Op → T × G
  | [] => (t, g)
  | op :: ops => run (step t g op).1 (step t g op).2.1 ops

end Tbox.C17
