/-
C17 — "a Running composite waits for something" (round 9): `stuckRoot` never holds in the control-free runs of the
covered classes.  The argument avoids a new tree invariant: a stuck root is `Inert` (nothing queued, nothing armed), an inert
tree is a fixed point of every control-free step (`run_inert`), so it would stay Running for ever — but the liveness theorems
(`Live`, `par_leaves_run`) say that after enough big ops the root has handed in its finish notification.
-/
import TboxModel.C17.Sim7
import TboxModel.C17.ParLeaves
import TboxModel.C17.Rerun
namespace Tbox.C17

/-- a Running composite with nothing to wait for: nothing under way, queued or armed in its subtree -/
def stuckRoot (t : T) : Bool :=
  t.data.st == .running && !t.data.isLeaf && (allTasks t []).isEmpty && (allTimers t []).isEmpty &&
  AllNodesL (fun d => !d.underway) t.children

theorem stuck_inert (t : T) (h : stuckRoot t = true) : Inert t ∧ t.data.st = .running := by
  simp only [stuckRoot, Bool.and_eq_true, beq_iff_eq, List.isEmpty_iff] at h
  exact ⟨⟨h.1.1.2, h.1.2⟩, h.1.1.1.1⟩

theorem not_stuck_of_st (t : T) (h : t.data.st ≠ .running) : stuckRoot t = false := by
  simp [stuckRoot, h]

theorem inert_hasFin (t : T) (h : Inert t) : hasFin t = false := by
  obtain ⟨d, cs⟩ := t
  have h1 := h.1
  rw [allTasks] at h1
  have : d.tasks = [] := by
    cases hd : d.tasks with
    | nil => rfl
    | cons p ps => rw [hd] at h1; simp at h1
  simp [hasFin, T.data, this]

theorem runU_append_nil : ∀ (a b : List Op) (t : T) (g : G), (runU t g a).2.2 = [] →
    runU t g (a ++ b) = runU (runU t g a).1 (runU t g a).2.1 b
  | [], b, t, g, _ => by simp [runU]
  | op :: a, b, t, g, h => by
    by_cases hf : hasFin t = true
    · simp [runU, hf] at h
    · have hf' : hasFin t = false := by simpa using hf
      simp only [runU, hf', List.cons_append, Bool.false_eq_true, ↓reduceIte] at h ⊢
      exact runU_append_nil a b _ _ h

theorem runU_inert : ∀ (ops : List Op) (t : T) (g : G), ops.all cfOp = true → Inert t → g.user = [] → (runU t g ops).1 = t
  | [], t, g, _, _, _ => rfl
  | op :: ops, t, g, hcf, hi, hu => by
    simp only [List.all_cons, Bool.and_eq_true] at hcf
    have e : step t g op = (t, advG g op, []) := by
      rw [step_cf t g op hcf.1, runQueue_none t _ hi.1 (by rw [advG_user]; exact hu), fireTimers_none t _ hi.2]
    simp only [runU, inert_hasFin t hi, Bool.false_eq_true, ↓reduceIte]
    rw [e]
    exact runU_inert ops t (advG g op) hcf.2 hi (by rw [advG_user]; exact hu)

/-- the state after the owner received the finish notification: the root is still Finished -/
theorem step_deliver_st (t : T) (g : G) (op : Op) (hop : cfOp op = true) (hu : g.user = []) (r : Bool × Nat) (hd : DoneAs t r) :
    (step t g op).1.data.st = .finished := by
  obtain ⟨⟨id, ht⟩, htm, hst⟩ := hd
  obtain ⟨d, cs⟩ := t
  have hroot : d.tasks = [(id, TK.fin r.1 r.2)] ∧ allTasksL cs [] 0 = [] := by
    rw [allTasks] at ht
    cases hdt : d.tasks with
    | nil =>
      rw [hdt] at ht; simp only [List.map_nil, List.nil_append] at ht
      have : (id, ([] : List Nat), TK.fin r.1 r.2) ∈ allTasksL cs [] 0 := by rw [ht]; simp
      exact absurd rfl (tasksL_path_ne cs 0 _ this)
    | cons p ps =>
      rw [hdt] at ht
      simp only [List.map_cons, List.cons_append, List.cons.injEq] at ht
      have h2 := ht.2
      have hps : ps = [] := by
        cases ps with
        | nil => rfl
        | cons q qs => simp at h2
      subst hps
      simp only [List.map_nil, List.nil_append] at h2
      refine ⟨?_, h2⟩
      obtain ⟨a, b⟩ := p
      simp only [Prod.mk.injEq] at ht
      simp [ht.1.1, ht.1.2.2]
  have e : runTask (.node d cs) (advG g op) id = (.node (cancelId d id) cs, (advG g op).emit (.rootFin r.1 r.2 d.st)) := by
    unfold runTask; rw [ht]; simp [splitLast, T.data, T.children]
  have hin : Inert (.node (cancelId d id) cs) := by
    constructor
    · rw [allTasks]; simp [cancelId, hroot.1, hroot.2]
    · rw [allTimers] at htm ⊢; exact htm
  rw [step_cf _ g op hop, runQueue_one _ _ _ ht (by rw [advG_user]; exact hu), e, fireTimers_none _ _ hin.2]
  simpa [T.data, cancelId] using hst

theorem bigCount_append (M : Nat) (a b : List Op) : bigCount M (a ++ b) = bigCount M a + bigCount M b := by
  simp [bigCount, List.filter_append]

/-- **never stuck, serial class**: in a control-free run of a covered tree whose documented meaning terminates, the
root is never a Running composite with nothing queued, armed or under way below it. -/
theorem never_stuck_run (t : T) (hs : SerOk t = true) (hc : Clean t = true) (ops : List Op) (hcf : ops.all cfOp = true)
    (hr : eval t ≠ none) : stuckRoot (run t {} (.calls [.start] :: ops)).1 = false := by
  obtain ⟨hgood, hlive⟩ := both_all t hs hc
  have hg0 : GIu ({} : G) := ⟨GI_init, rfl⟩
  obtain ⟨ok, hg1, _, _, _, hrun⟩ := hgood {} hg0
  have e0 : run t {} (.calls [.start] :: ops) = run (start t {}).1 (start t {}).2.1 (.pass :: ops) := by
    rw [run, run]
    have := step_start t {}
    simp only [Prod.mk.injEq] at this
    rw [this.1, this.2]
  rw [e0, run_runU]
  have hcf1 : (Op.pass :: ops).all cfOp = true := by simp [cfOp, hcf]
  have rk := hrun (.pass :: ops) hcf1
  have hrest := runU_rest (.pass :: ops) (start t {}).1 (start t {}).2.1
  generalize hR : runU (start t {}).1 (start t {}).2.1 (.pass :: ops) = R at rk hrest ⊢
  obtain ⟨t', g', rest⟩ := R
  obtain ⟨a1, a2, a3, a4⟩ := rk
  simp only at a1 a2 a3 a4 hrest ⊢
  by_cases hf : hasFin t' = true
  · obtain ⟨⟨r', _, hdone⟩, _⟩ := a3 hf
    cases rest with
    | nil => simp only [run]; exact not_stuck_of_st t' (by rw [hdone.2.2]; simp)
    | cons op rest' =>
      have hopcf : cfOp op = true ∧ rest'.all cfOp = true := by have := hrest.2 hcf1; simpa using this
      obtain ⟨t'', st, hin, e1, e2⟩ := step_deliver t' g' op hopcf.1 a1.2 r' hdone
      have hst := step_deliver_st t' g' op hopcf.1 a1.2 r' hdone
      rw [run, e1, e2]
      have hi := run_inert rest' t'' ((advG g' op).emit (.rootFin r'.1 r'.2 st)) hopcf.2 hin (by simp [G.emit, advG_user, a1.2])
      rw [hi.1]
      rw [e1] at hst
      exact not_stuck_of_st t'' (by rw [hst]; simp)
  · have hf' : hasFin t' = false := by simpa using hf
    obtain ⟨hre, _, _⟩ := a4 hf'
    subst hre
    simp only [run]
    cases hst : stuckRoot t' with
    | false => rfl
    | true =>
      exfalso
      obtain ⟨hin, _⟩ := stuck_inert t' hst
      have hext : (List.replicate (cost t) (Op.adv (maxDelay t))).all cfOp = true := by
        simp [cfOp]
      have lk := hlive {} hg0 hr (maxDelay t) (Nat.le_refl _) ((.pass :: ops) ++ List.replicate (cost t) (Op.adv (maxDelay t)))
        (by rw [List.all_append, hcf1, hext]; rfl)
        (by rw [bigCount_append, bigCount_replicate]; omega)
      rw [runU_append_nil _ _ _ _ (by rw [hR])] at lk
      rw [hR] at lk
      simp only at lk
      rw [runU_inert _ t' g' hext hin a1.2, hf'] at lk
      exact absurd lk.1 (by simp)

/-- **never stuck, Parallel over leaves** -/
theorem par_leaves_never_stuck (d : Node) (l : List Node) (m : Mode3) (hk : d.kind = .par m) (htmo : d.tmo = none)
    (hc : cleanNode d = true) (hl : ∀ c ∈ l, leafOkB c = true) (ops : List Op) (hcf : ops.all cfOp = true) :
    stuckRoot (run (.node d (ofList l)) {} (.calls [.start] :: ops)).1 = false := by
  cases hst : stuckRoot (run (.node d (ofList l)) {} (.calls [.start] :: ops)).1 with
  | false => rfl
  | true =>
    exfalso
    obtain ⟨hin, hrun⟩ := stuck_inert _ hst
    -- the loop-side globals of that state: no deferred script call is queued
    have hg0 : GIu ({} : G) := ⟨GI_init, rfl⟩
    obtain ⟨d0, l0, g0, e0, h0, _⟩ := start_PI d l m (maxMs l) {} hk htmo hc hl (Nat.le_refl _) hg0
    have er : run (.node d (ofList l)) {} (.calls [.start] :: ops) = run (.node d0 (ofList l0)) g0 (.pass :: ops) := by
      rw [run, run]
      have := step_start (.node d (ofList l)) {}
      simp only [Prod.mk.injEq] at this
      rw [this.1, this.2, e0]
    have hcf1 : (Op.pass :: ops).all cfOp = true := by simp [cfOp, hcf]
    obtain ⟨d1, l1, g1, e1, h1, _⟩ := run_PI (.pass :: ops) d0 l0 g0 h0 hcf1
    have hu : (run (.node d (ofList l)) {} (.calls [.start] :: ops)).2.user = [] := by rw [er, e1]; exact h1.gi.2
    have hext : (List.replicate 3 (Op.adv (maxMs l))).all cfOp = true := by simp [cfOp]
    have fin := ((par_leaves_run d l m (maxMs l) hk htmo hc hl (Nat.le_refl _) (ops ++ List.replicate 3 (Op.adv (maxMs l)))
      (by rw [List.all_append, hcf, hext]; rfl)).2.2 (by rw [bigCount_append, bigCount_replicate]; omega)).2.1
    have ea : (Op.calls [.start] :: (ops ++ List.replicate 3 (Op.adv (maxMs l)))) = (Op.calls [.start] :: ops) ++ List.replicate 3 (Op.adv (maxMs l)) := rfl
    rw [ea, run_append, (run_inert _ _ _ hext hin hu).1, hrun] at fin
    cases fin

end Tbox.C17
