/-
C17 — OPEN M3, stage (i): `ParallelAction` over Function / Sleep leaves as a CHILD of a serial composite.

Part 1 (this file): what the parent needs to know about the parallel node while it is on its way.
* step (2): the batch-level invariant `BX` beside `PI` (ParLeaves.lean): every task queued at the parallel node itself has a
  run id `≥ N0` (`N0` = the id counter when the batch began), so the node's OWN finish notification, posted in the middle of
  a batch, is never in the snapshot.  Kept by every `runTask id` with `id < N0`.  Consequence `par_leaves_batchOk`: `BatchOk`
  (SimBatch.lean) of every state in which the node has nothing queued itself.
* step (3): `par_leaves_doneAs` / `step_PI_done`: at the end of the step in which the parallel node finished, `DoneAs … (true, 0)`:
  every leaf notification of the snapshot has been delivered (also those that arrive after the node finished, in the same
  batch), the leaves stopped by `stopAll` have no timer, exactly the node's own notification is queued.
* `runU_PI`: the run of the parallel node up to the moment its notification is queued.
-/
import TboxModel.C17.ParLeaves
import TboxModel.C17.SimBatch
namespace Tbox.C17
set_option linter.unusedSimpArgs false
set_option linter.unusedVariables false

theorem ofList_inj : ∀ (a b : List Node), ofList a = ofList b → a = b
  | [], [], _ => rfl
  | [], _ :: _, h => by simp [ofList] at h
  | _ :: _, [], h => by simp [ofList] at h
  | x :: a, y :: b, h => by
    simp only [ofList, TL.cons.injEq, T.node.injEq, and_true] at h
    rw [h.1, ofList_inj a b h.2]

/-! ### the shapes of `parOnChild` and `runTask` on a parallel node over leaves -/

/-- a child's notification reaches the running parallel node: it is recorded, or the node finishes (posting its own
notification with the CURRENT value of the id counter) and every leaf has gone through `stop` -/
theorem parOnChild_cases {t0 M : Nat} (d : Node) (l0 : List Node) (g : G) (j : Nat) (s : Bool) (m : Mode3)
    (hk : d.kind = .par m) (hst : d.st = .running) (hg : g.cfg = {}) (hl : ∀ c ∈ l0, LeafOk t0 M c) :
    parOnChild d (ofList l0) g j s = ({ d with finished := mapSet d.finished j s }, ofList l0, g) ∨
    ∃ l1 : List Node, parOnChild d (ofList l0) g j s =
      (parFin { d with finished := mapSet d.finished j s } g, ofList (l1.map stopN),
       parFinG { d with finished := mapSet d.finished j s } g) := by
  have hk1 : ({ d with finished := mapSet d.finished j s } : Node).kind = .par m := hk
  have hst1 : ({ d with finished := mapSet d.finished j s } : Node).st = .running := hst
  rw [parOnChild_running d _ g j s m hst hk]
  by_cases hA : ((m == .anySucc && s) || (m == .anyFail && !s)) = true
  · rw [if_pos hA, stopAll_leaves _ g hg (fun c hc => (hl c hc).fs)]
    right
    exact ⟨l0.map stopN, finish_par _ _ g m hk1 (Or.inl hst1) hg (fun c hc => (leaves_map hl c hc).fs)⟩
  · rw [if_neg hA]
    by_cases hB : ((mapSet d.finished j s).length == (ofList l0).length) = true
    · rw [if_pos hB]; right
      exact ⟨l0, finish_par _ l0 g m hk1 (Or.inl hst1) hg (fun c hc => (hl c hc).fs)⟩
    · rw [if_neg hB]; left; rfl

/-- the three things `runTask id` can be on a parallel node over leaves -/
theorem runTask_form {m : Mode3} {L : List (Nat ⊕ (Bool × Nat))} {fns : List Nat} {t0 M : Nat} {d : Node} {l : List Node} {g : G}
    (h : PI m L fns t0 M d l g) (id : Nat) :
    runTask (.node d (ofList l)) g id = (.node d (ofList l), g) ∨
    ((id, TK.fin true 0) ∈ d.tasks ∧
        runTask (.node d (ofList l)) g id = (.node (cancelId d id) (ofList l), g.emit (.rootFin true 0 d.st))) ∨
    (∃ j s, runTask (.node d (ofList l)) g id =
        (.node (parOnChild d (ofList (upd l j (fun c => cancelId c id))) g j s).1
               (parOnChild d (ofList (upd l j (fun c => cancelId c id))) g j s).2.1,
         (parOnChild d (ofList (upd l j (fun c => cancelId c id))) g j s).2.2)) := by
  cases hf : (allTasks (.node d (ofList l)) []).find? (fun x => x.1 == id) with
  | none => left; unfold runTask; rw [hf]
  | some x =>
    right
    have hx : (x.1 == id) = true := List.find?_some (p := fun (x : Nat × List Nat × TK) => x.1 == id) hf
    have hx' : x.1 = id := by simpa using hx
    have hm := List.mem_of_find?_eq_some hf
    rw [allTasks] at hm
    simp only [List.mem_append, List.mem_map] at hm
    rcases hm with ⟨p, hp, ex⟩ | hm
    · left
      rcases h.phase with ⟨_, ht, _⟩ | ⟨hst, ⟨id0, ht⟩, htr⟩ | ⟨_, ht, _⟩
      · rw [ht] at hp; cases hp
      · rw [ht] at hp; simp at hp; subst hp
        have e0 : id0 = id := by rw [← ex] at hx'; exact hx'
        subst e0
        refine ⟨by rw [ht]; simp, ?_⟩
        unfold runTask; rw [hf, ← ex]; simp [splitLast, T.data, T.children]
      · rw [ht] at hp; cases hp
    · right
      rw [mem_tasksL] at hm
      obtain ⟨j, c, p, hj, hp, ex⟩ := hm
      obtain ⟨s, w, hs⟩ := (h.leaves c (List.mem_iff_getElem?.2 ⟨j, hj⟩)).fins p hp
      have hpar : d.isPar = true := by simp [Node.isPar, h.kind]
      refine ⟨j, s, ?_⟩
      unfold runTask; rw [hf, ex, hs]
      simp only [Nat.zero_add, splitLast, modifyAt, onChildFin, hpar, ↓reduceIte, popChild_leaves]

theorem fireOne_root (d : Node) (cs : TL) (g : G) (dl : Nat) (path : List Nat) (b : Bool) (h1 : d.sleepAt = none) (h2 : d.tmoAt = none) :
    ∃ cs', (fireOne (.node d cs) g dl path b).1 = .node d cs' := by
  cases path with
  | nil => cases b <;> simp [fireOne, modifyAt, h1, h2]
  | cons i p => simp [fireOne, modifyAt]

theorem fireFold_root : ∀ (D : List (Nat × List Nat × Bool)) (d : Node) (cs : TL) (g : G), d.sleepAt = none → d.tmoAt = none →
    ∃ cs', (D.foldl (fun (p : T × G) x => fireOne p.1 p.2 x.1 x.2.1 x.2.2) (.node d cs, g)).1 = .node d cs'
  | [], d, cs, g, _, _ => ⟨cs, rfl⟩
  | x :: D, d, cs, g, h1, h2 => by
    obtain ⟨cs1, e1⟩ := fireOne_root d cs g x.1 x.2.1 x.2.2 h1 h2
    rw [List.foldl_cons]
    have : fireOne (.node d cs) g x.1 x.2.1 x.2.2 = (.node d cs1, (fireOne (.node d cs) g x.1 x.2.1 x.2.2).2) := by
      rw [← e1]
    rw [this]
    exact fireFold_root D d cs1 _ h1 h2

/-! ### step (2): the batch-level invariant -/

/-- while a batch is worked off: `N0` = the id counter when the batch began.  Every task queued at the parallel node itself
was posted during the batch (`own`); with `q`: a finished node still has its notification queued; once it has finished no
leaf is running (they all went through `stop`). -/
structure BX (q : Bool) (N0 : Nat) (d : Node) (l : List Node) (g : G) : Prop where
  n0 : N0 ≤ g.nextId
  own : ∀ p ∈ d.tasks, N0 ≤ p.1
  queued : q = true → d.st = .finished → d.tasks ≠ []
  norun : q = true → d.st = .finished → ∀ c ∈ l, c.st ≠ .running

/-- **one task of the snapshot runs** (`id < N0`): `PI` and `BX` are kept -/
theorem runTask_BX {q : Bool} {N0 : Nat} {m : Mode3} {L : List (Nat ⊕ (Bool × Nat))} {fns : List Nat} {t0 M : Nat} {d : Node}
    {l : List Node} {g : G} (h : PI m L fns t0 M d l g) (hx : BX q N0 d l g) (id : Nat) (hid : id < N0) :
    ∃ d' l' g', runTask (.node d (ofList l)) g id = (.node d' (ofList l'), g') ∧ StepOk m L fns t0 M d l g d' l' g' ∧
      BX q N0 d' l' g' := by
  obtain ⟨d', l', g', e, sok, _, _, _⟩ := runTask_PI h id
  refine ⟨d', l', g', e, sok, ?_⟩
  have hn0 : N0 ≤ g'.nextId := by
    have := (runTask_ids (.node d (ofList l)) g id).mono
    rw [e] at this; exact Nat.le_trans hx.n0 this
  rcases runTask_form h id with e0 | ⟨hmem, e0⟩ | ⟨j, s, e0⟩
  · rw [e] at e0
    simp only [Prod.mk.injEq, T.node.injEq] at e0
    obtain ⟨⟨e1, e2⟩, e3⟩ := e0
    have e2' := ofList_inj _ _ e2
    rw [e1, e2', e3]
    exact hx
  · have := hx.own _ hmem
    simp only at this; omega
  · rw [e] at e0
    have hst : d.st = .running ∨ d.st = .finished := by
      rcases h.phase with ⟨a, _⟩ | ⟨a, _⟩ | ⟨a, _⟩
      · exact Or.inl a
      · exact Or.inr a
      · exact Or.inr a
    rcases hst with hst | hst
    · rcases parOnChild_cases d (upd l j (fun c => cancelId c id)) g j s m h.kind hst h.gi.1.1 (leaves_upd h.leaves j id) with e1 | ⟨l1, e1⟩
      · rw [e1] at e0
        simp only [Prod.mk.injEq, T.node.injEq] at e0
        obtain ⟨⟨e1, e2⟩, e3⟩ := e0
        have e2' := ofList_inj _ _ e2
        rw [e1, e2', e3]
        exact ⟨hx.n0, hx.own, (fun _ hf => by rw [hst] at hf; cases hf), (fun _ hf => by rw [hst] at hf; cases hf)⟩
      · rw [e1] at e0
        simp only [Prod.mk.injEq, T.node.injEq] at e0
        obtain ⟨⟨e1, e2⟩, e3⟩ := e0
        have e2' := ofList_inj _ _ e2
        rw [e3] at hn0
        rw [e1, e2', e3]
        refine ⟨hn0, ?_, (fun _ _ => by simp [parFin]), fun _ _ c hc => ?_⟩
        · intro p hp
          simp only [parFin, List.mem_append, List.mem_singleton] at hp
          rcases hp with hp | hp
          · exact hx.own p hp
          · rw [hp]; exact hx.n0
        · obtain ⟨c0, _, ec⟩ := List.mem_map.1 hc
          rw [← ec]; exact (stopN_st c0).1
    · rw [parOnChild_finished d _ g j s hst] at e0
      simp only [Prod.mk.injEq, T.node.injEq] at e0
      obtain ⟨⟨e1, e2⟩, e3⟩ := e0
      have e2' := ofList_inj _ _ e2
      rw [e1, e2', e3]
      exact ⟨hx.n0, hx.own, hx.queued, fun hq hf => norun_mono (mono_upd d l j id) (hx.norun hq hf)⟩

/-- **the whole snapshot** (all its ids are below `N0`): `BatchOk`, and the state after the batch -/
theorem tasks_foldX {q : Bool} {N0 : Nat} {m : Mode3} {L : List (Nat ⊕ (Bool × Nat))} {fns : List Nat} {t0 M : Nat} :
    ∀ (ids : List (Nat × Unit)) (d : Node) (l : List Node) (g : G), PI m L fns t0 M d l g → BX q N0 d l g → (∀ x ∈ ids, x.1 < N0) →
    BatchOk (.node d (ofList l)) g ids ∧
    ∃ d' l' g', ids.foldl (fun (p : T × G) x => runItem p.1 p.2 x.1) (.node d (ofList l), g) = (.node d' (ofList l'), g') ∧
      PI m L fns t0 M d' l' g' ∧ BX q N0 d' l' g'
  | [], d, l, g, h, hx, _ => ⟨trivial, d, l, g, rfl, h, hx⟩
  | x :: ids, d, l, g, h, hx, hlt => by
    obtain ⟨d1, l1, g1, e1, s1, x1⟩ := runTask_BX h hx x.1 (hlt x (by simp))
    obtain ⟨b2, d2, l2, g2, e2, h2, x2⟩ := tasks_foldX ids d1 l1 g1 s1.pi x1 (fun y hy => hlt y (by simp [hy]))
    have eI : runItem (.node d (ofList l)) g x.1 = runTask (.node d (ofList l)) g x.1 := by simp [runItem, h.gi.2]
    refine ⟨⟨?_, by rw [e1]; exact b2⟩, d2, l2, g2, by rw [List.foldl_cons, eI, e1]; exact e2, h2, x2⟩
    intro qp tk hf
    have hm := List.mem_of_find?_eq_some hf
    rw [allTasks] at hm
    simp only [List.mem_append, List.mem_map] at hm
    rcases hm with ⟨p, hp, ex⟩ | hm
    · exfalso
      have := hx.own p hp
      have e0 : p.1 = x.1 := by
        have := congrArg Prod.fst ex; simpa using this
      have := hlt x (by simp)
      omega
    · rw [mem_tasksL] at hm
      obtain ⟨j, c, p, hj, hp, ex⟩ := hm
      obtain ⟨s, w, hs⟩ := (h.leaves c (List.mem_iff_getElem?.2 ⟨j, hj⟩)).fins p hp
      simp only [Prod.mk.injEq] at ex
      exact ⟨by rw [ex.2.1]; simp, s, w, by rw [ex.2.2]; exact hs⟩

theorem snapshot_lt {t : T} {g : G} (h : IdsOk t g) : ∀ x ∈ batchOf t, x.1 < g.nextId := by
  intro x hx
  unfold batchOf at hx
  rw [mem_sortBy] at hx
  obtain ⟨y, hy, e⟩ := List.mem_map.1 hx
  rw [← e]; exact (idsOk_plain t g h).2 y hy

/-- **step (2), closed: `BatchOk` of every state of the parallel node in which it has nothing queued itself** (it is running, or
its notification has been delivered), for every op that may come next -/
theorem par_leaves_batchOk_op {m : Mode3} {L : List (Nat ⊕ (Bool × Nat))} {fns : List Nat} {t0 M : Nat} {d : Node} {l : List Node} {g : G}
    (h : PI m L fns t0 M d l g) (ht : d.tasks = []) (op : Op) :
    BatchOk (.node d (ofList l)) (advG g op) (batchOf (.node d (ofList l))) := by
  have h0 := pi_adv h op
  have hx : BX false (advG g op).nextId d l (advG g op) :=
    ⟨Nat.le_refl _, (fun p hp => by rw [ht] at hp; cases hp), (fun hq => by cases hq), (fun hq => by cases hq)⟩
  exact (tasks_foldX _ d l (advG g op) h0 hx (snapshot_lt h0.ids)).1

/-- the same with the clock step written out (the form asked for by OPEN M3, step (1)) -/
theorem par_leaves_batchOk {m : Mode3} {L : List (Nat ⊕ (Bool × Nat))} {fns : List Nat} {t0 M : Nat} {d : Node} {l : List Node} {g : G}
    (h : PI m L fns t0 M d l g) (ht : d.tasks = []) :
    ∀ ms, BatchOk (.node d (ofList l)) { g with now := g.now + ms } (batchOf (.node d (ofList l))) :=
  fun ms => par_leaves_batchOk_op h ht (.adv ms)

/-! ### step (3): `DoneAs` at the end of the step in which the parallel node finished -/

theorem leaves_no_tasks (l : List Node) (h : ∀ c ∈ l, c.tasks = []) : allTasksL (ofList l) [] 0 = [] := by
  apply List.eq_nil_iff_forall_not_mem.2
  intro x hx
  rw [mem_tasksL] at hx
  obtain ⟨j, c, p, hj, hp, _⟩ := hx
  rw [h c (List.mem_iff_getElem?.2 ⟨j, hj⟩)] at hp; cases hp

theorem leaves_no_timers (l : List Node) (h : ∀ c ∈ l, c.sleepAt = none ∧ c.tmoAt = none) : allTimersL (ofList l) [] 0 = [] := by
  apply List.eq_nil_iff_forall_not_mem.2
  intro x hx
  rw [mem_timersL] at hx
  obtain ⟨j, c, hj, hp, _⟩ := hx
  have := h c (List.mem_iff_getElem?.2 ⟨j, hj⟩)
  rcases hp with ⟨a, _⟩ | ⟨a, _⟩
  · rw [this.1] at a; cases a
  · rw [this.2] at a; cases a

/-- **one op from a state in which the parallel node is running**: either it is still running afterwards, or it has finished
and is `DoneAs … (true, 0)`: exactly its own notification is queued (every leaf notification of the snapshot has been
delivered, also the ones that came after the node finished), nothing is armed (the leaves went through `stop`) -/
theorem step_PI_done {m : Mode3} {L : List (Nat ⊕ (Bool × Nat))} {fns : List Nat} {t0 M : Nat} {d : Node} {l : List Node} {g : G}
    (h : PI m L fns t0 M d l g) (hst : d.st = .running) (op : Op) (hop : cfOp op = true) :
    ∃ d' l' g', step (.node d (ofList l)) g op = (.node d' (ofList l'), g', []) ∧ PI m L fns t0 M d' l' g' ∧ Mono d l d' l' ∧
      (d'.st = .running ∨
       (d'.st = .finished ∧ DoneAs (.node d' (ofList l')) (true, 0) ∧ hasFin (.node d' (ofList l')) = true)) := by
  obtain ⟨d', l', g', e, hpi', hmono, _, _, _⟩ := step_PI h op hop
  refine ⟨d', l', g', e, hpi', hmono, ?_⟩
  have h0 := pi_adv h op
  have htk : d.tasks = [] := by
    rcases h.phase with ⟨_, a, _⟩ | ⟨a, _⟩ | ⟨a, _⟩
    · exact a
    · rw [hst] at a; cases a
    · rw [hst] at a; cases a
  have hx : BX true (advG g op).nextId d l (advG g op) :=
    ⟨Nat.le_refl _, (fun p hp => by rw [htk] at hp; cases hp), (fun _ hf => by rw [hst] at hf; cases hf),
     (fun _ hf => by rw [hst] at hf; cases hf)⟩
  rw [step_cf _ g op hop] at e
  unfold runQueue at e
  rw [show (advG g op).user = [] from h0.gi.2] at e
  simp only [List.map_nil, List.append_nil] at e
  obtain ⟨_, d1, l1, g1, e1, h1, x1⟩ := tasks_foldX (batchOf (.node d (ofList l))) d l (advG g op) h0 hx (snapshot_lt h0.ids)
  obtain ⟨d1', l1', g1', e1', s1, a1, b1, c1⟩ := tasks_fold (batchOf (.node d (ofList l))) d l (advG g op) h0
  unfold batchOf at e1 e1' b1
  rw [e1] at e1'
  simp only [Prod.mk.injEq, T.node.injEq] at e1'
  obtain ⟨⟨i1, i2⟩, i3⟩ := e1'
  have i2' := ofList_inj _ _ i2
  rw [← i2'] at a1 b1
  rw [e1] at e
  -- every queued child notification has been delivered by the batch
  have hdel : ∀ k, leafCnt l1 k = 0 := by
    intro k
    by_cases hz : leafCnt l k = 0
    · have := a1 k; omega
    · have hpos : 0 < cntT (.node d (ofList l)) k := by rw [cntT, cntL_ofList]; omega
      rw [← cnt_allTasks _ [] k] at hpos
      obtain ⟨x, hx, hxk⟩ := List.countP_pos_iff.1 hpos
      have hxk' : x.1 = k := by simpa using hxk
      have := b1 (k, ()) ((mem_sortBy _ _).2 (List.mem_map.2 ⟨x, hx, by rw [hxk']⟩))
      exact this
  have hnot : ∀ c ∈ l1, c.tasks = [] := by
    intro c hc
    obtain ⟨k, hk⟩ := List.mem_iff_getElem?.1 hc
    apply cntN_zero_tasks
    intro i; have := leafCnt_get l1 k c i hk; have := hdel i; omega
  have hst1 : d1.st = .running ∨ d1.st = .finished := by
    rcases h1.phase with ⟨a, _⟩ | ⟨a, _⟩ | ⟨a, _⟩
    · exact Or.inl a
    · exact Or.inr a
    · exact Or.inr a
  rcases hst1 with hr | hf
  · -- still running after the batch: the timer phase does not touch the node itself
    left
    obtain ⟨cs', ec⟩ := fireFold_root (sortBy ((allTimers (.node d1 (ofList l1)) []).filter (fun x => x.1 ≤ g1.now))) d1 (ofList l1) g1
      h1.slp h1.tmoAt
    unfold fireTimers at e
    simp only [Prod.mk.injEq] at e
    have := e.1
    rw [ec] at this
    simp only [T.node.injEq] at this
    rw [← this.1]; exact hr
  · right
    have hnr := x1.norun rfl hf
    have htm : allTimers (.node d1 (ofList l1)) [] = [] := by
      rw [allTimers, h1.slp, h1.tmoAt, leaves_no_timers l1 (fun c hc => ⟨(h1.leaves c hc).nrun (hnr c hc), (h1.leaves c hc).tmo⟩)]
      rfl
    rw [fireTimers_none _ _ htm] at e
    simp only [Prod.mk.injEq, T.node.injEq, and_true] at e
    obtain ⟨⟨j1, j2⟩, j3⟩ := e
    have j2' := ofList_inj _ _ j2
    rw [← j1, ← j2']
    have htk1 : ∃ id, d1.tasks = [(id, TK.fin true 0)] := by
      rcases h1.phase with ⟨a, _⟩ | ⟨_, a, _⟩ | ⟨_, a, _⟩
      · rw [hf] at a; cases a
      · exact a
      · exact absurd a (x1.queued rfl hf)
    obtain ⟨id, hid⟩ := htk1
    refine ⟨hf, ⟨⟨id, ?_⟩, htm, hf⟩, by simp [hasFin, T.data, hid, TK.isFin]⟩
    rw [allTasks, hid, leaves_no_tasks l1 hnot]; rfl

/-- **step (3), closed**, in the words of OPEN M3: at the end of the step in which the parallel node finished, `DoneAs` holds
for it with the documented result (true, 0) -/
theorem par_leaves_doneAs {m : Mode3} {L : List (Nat ⊕ (Bool × Nat))} {fns : List Nat} {t0 M : Nat} {d : Node} {l : List Node} {g : G}
    (h : PI m L fns t0 M d l g) (hst : d.st = .running) (op : Op) (hop : cfOp op = true)
    (hfin : (step (.node d (ofList l)) g op).1.data.st = .finished) :
    DoneAs (step (.node d (ofList l)) g op).1 (true, 0) := by
  obtain ⟨d', l', g', e, _, _, hr | ⟨_, hd, _⟩⟩ := step_PI_done h hst op hop
  · rw [e] at hfin; simp only [T.data] at hfin; rw [hr] at hfin; cases hfin
  · rw [e]; exact hd

/-- the run of the parallel node up to the moment its own notification is queued -/
theorem runU_PI {m : Mode3} {L : List (Nat ⊕ (Bool × Nat))} {fns : List Nat} {t0 M : Nat} :
    ∀ (ops : List Op) (d : Node) (l : List Node) (g : G), PI m L fns t0 M d l g → d.st = .running → ops.all cfOp = true →
    ∃ d' l' g' rest, runU (.node d (ofList l)) g ops = (.node d' (ofList l'), g', rest) ∧ PI m L fns t0 M d' l' g' ∧
      ((d'.st = .running ∧ rest = []) ∨
       (d'.st = .finished ∧ DoneAs (.node d' (ofList l')) (true, 0) ∧ hasFin (.node d' (ofList l')) = true))
  | [], d, l, g, h, hst, _ => ⟨d, l, g, [], rfl, h, Or.inl ⟨hst, rfl⟩⟩
  | op :: ops, d, l, g, h, hst, hcf => by
    simp only [List.all_cons, Bool.and_eq_true] at hcf
    have htk : d.tasks = [] := by
      rcases h.phase with ⟨_, a, _⟩ | ⟨a, _⟩ | ⟨a, _⟩
      · exact a
      · rw [hst] at a; cases a
      · rw [hst] at a; cases a
    have hnf : hasFin (.node d (ofList l)) = false := by simp [hasFin, T.data, htk]
    obtain ⟨d1, l1, g1, e1, h1, _, hr | ⟨hf, hd, hh⟩⟩ := step_PI_done h hst op hcf.1
    · obtain ⟨d2, l2, g2, rest, e2, h2, r2⟩ := runU_PI ops d1 l1 g1 h1 hr hcf.2
      exact ⟨d2, l2, g2, rest, by simp only [runU, hnf, Bool.false_eq_true, ↓reduceIte]; rw [e1]; exact e2, h2, r2⟩
    · refine ⟨d1, l1, g1, ops, ?_, h1, Or.inr ⟨hf, hd, hh⟩⟩
      simp only [runU, hnf, Bool.false_eq_true, ↓reduceIte]; rw [e1]
      exact runU_hasFin _ _ ops hh

end Tbox.C17
