/-
C17 — OPEN M3, stage (i), part 2: step (1) as NEW definitions beside the old ones (Sim2 / Sim4 are not touched):
`APB` = "`AP`, or `BatchOk` for every clock step that may come next", `RunOkB` / `GoodB` / `OnWayB` = `RunOk` / `Good` / `OnWay`
with `AP` replaced by `APB`; the consumers (`AP_embed`, `runU_embed`) in batch form; `Good → GoodB`; and
`goodB_par_leaves`: a freshly built ParallelAction over Function / Sleep leaves is `GoodB`.
-/
import TboxModel.C17.ParChild
namespace Tbox.C17
set_option linter.unusedSimpArgs false
set_option linter.unusedVariables false

/-- at most one queued task (a finish notification), or: whatever the clock does next, the snapshot can be worked off inside
the subtree -/
def APB (c : T) (g : G) : Prop := AP c ∨ ∀ ms, BatchOk c { g with now := g.now + ms } (batchOf c)

theorem APB_batch (c : T) (g : G) (h : APB c g) (hnf : hasFin c = false) (op : Op) (hop : cfOp op = true) :
    BatchOk c (advG g op) (batchOf c) := by
  rcases h with h | h
  · exact batchOk_of_AP c _ h hnf
  · cases op with
    | adv ms => exact h ms
    | pass => exact h 0
    | calls cs => simp [cfOp] at hop
    | defer cs => simp [cfOp] at hop

/-- `BatchOk` of the active child is `BatchOk` of its parent (same snapshot, every path one step longer) -/
theorem batchOk_embed : ∀ (ids : List (Nat × Unit)) (d : Node) (cs : TL) (i : Nat) (c : T) (g : G), Ctx d cs i c → g.user = [] →
    BatchOk c g ids → BatchOk (.node d cs) g ids
  | [], _, _, _, _, _, _, _, _ => trivial
  | x :: ids, d, cs, i, c, g, h, hu, hb => by
    refine ⟨?_, ?_⟩
    · intro q tk hf
      rw [(ctx_tasks h).1, List.find?_map] at hf
      have : ((fun (y : Nat × List Nat × TK) => y.1 == x.1) ∘ pre i) = (fun y => y.1 == x.1) := by funext y; rfl
      rw [this] at hf
      cases hc : (allTasks c []).find? (fun y => y.1 == x.1) with
      | none => rw [hc] at hf; cases hf
      | some y =>
        rw [hc] at hf; simp only [Option.map_some, Option.some.injEq] at hf
        obtain ⟨a, q0, tk0⟩ := y
        have ha : a = x.1 := find_id _ _ _ hc
        subst ha
        obtain ⟨_, s, w, e⟩ := hb.1 q0 tk0 hc
        simp only [pre, Prod.mk.injEq] at hf
        exact ⟨by rw [← hf.2.1]; simp, s, w, by rw [← hf.2.2]; exact e⟩
    · have e1 : ∀ t : T, runItem t g x.1 = runTask t g x.1 := fun t => by simp [runItem, hu]
      have := runItem_embed h g hu x.1 hb.1
      rw [e1, e1] at this
      rw [this]
      exact batchOk_embed ids d _ i _ _ (ctx_setChild h _) (by rw [(runTask_ids c g x.1).user]; exact hu) hb.2

theorem batchOf_embed {d : Node} {cs : TL} {i : Nat} {c : T} (h : Ctx d cs i c) : batchOf (.node d cs) = batchOf c := by
  unfold batchOf; rw [snapshot_embed h]

/-- consumer `AP_embed`, batch form -/
theorem APB_embed {d : Node} {cs : TL} {i : Nat} {c : T} (h : Ctx d cs i c) (g : G) (hu : g.user = []) (hap : APB c g) :
    APB (.node d cs) g := by
  rcases hap with h0 | h0
  · exact Or.inl (AP_embed h h0)
  · right; intro ms
    rw [batchOf_embed h]
    exact batchOk_embed _ d cs i c _ h hu (h0 ms)

/-- `RunOk` (Sim2) with `AP` replaced by `APB` -/
def RunOkB (R : T × G × List Op) (L : List (Nat ⊕ (Bool × Nat))) (v : Option (Bool × Nat)) (vs : List Nat) : Prop :=
  GIu R.2.1 ∧ APB R.1 R.2.1 ∧
  (hasFin R.1 = true → (∃ r, v = some r ∧ DoneAs R.1 r) ∧ trOf R.2.1.log = L ++ vs.map Sum.inl) ∧
  (hasFin R.1 = false → R.2.2 = [] ∧ (v ≠ none → ∃ pfx, pfx <+: vs ∧ trOf R.2.1.log = L ++ pfx.map Sum.inl) ∧
    ∃ tr : List Nat, trOf R.2.1.log = L ++ tr.map Sum.inl)

/-- `Good` (Sim2) with `RunOk` replaced by `RunOkB` -/
def GoodB (s : T) : Prop := ∀ g : G, GIu g →
  (start s g).2.2 = true ∧ GIu (start s g).2.1 ∧ (start s g).2.1.now = g.now ∧
  True ∧
  (∀ x ∈ allTimers (start s g).1 [], g.now < x.1) ∧
  ∀ ops, ops.all cfOp = true → RunOkB (runU (start s g).1 (start s g).2.1 ops) (trOf g.log) (eval s) (visit s)

theorem runOkB_of_runOk {R : T × G × List Op} {L : List (Nat ⊕ (Bool × Nat))} {v : Option (Bool × Nat)} {vs : List Nat}
    (h : RunOk R L v vs) : RunOkB R L v vs := ⟨h.1, Or.inl h.2.1, h.2.2.1, h.2.2.2⟩

/-- everything proved `Good` so far (all serial trees of `SerOk`) is `GoodB` -/
theorem goodB_of_good (s : T) (h : Good s) : GoodB s := fun g hg =>
  ⟨(h g hg).1, (h g hg).2.1, (h g hg).2.2.1, trivial, (h g hg).2.2.2.2.1, fun ops hcf => runOkB_of_runOk ((h g hg).2.2.2.2.2 ops hcf)⟩

/-- `OnWay` (Sim) with `AP` replaced by `APB` -/
def OnWayB (c : T) (g : G) : Prop :=
  ∀ ops', ops'.all cfOp = true → APB (runU c g ops').1 (runU c g ops').2.1 ∧ (runU c g ops').2.1.user = []

theorem onWayB_step (c : T) (g : G) (op : Op) (hop : cfOp op = true) (h : OnWayB c g) (hnf : hasFin c = false) :
    OnWayB (step c g op).1 (step c g op).2.1 := by
  intro ops' hcf
  have := h (op :: ops') (by simp [hop, hcf])
  simpa [runU, hnf] using this

/-- consumer `runU_embed`, batch form: the run of the parent while its active child is on its way is the child's run, embedded —
also when several notifications are queued below the child at once -/
theorem runU_embedB : ∀ (ops : List Op) (d : Node) (cs : TL) (i : Nat) (c : T) (g : G), Ctx d cs i c → ops.all cfOp = true → OnWayB c g →
    runU (.node d cs) g ops =
      runU (.node d (setChild cs i (runU c g ops).1)) (runU c g ops).2.1 (runU c g ops).2.2
  | [], d, cs, i, c, g, h, _, _ => by simp [runU, setChild_self cs i c h.get]
  | op :: ops, d, cs, i, c, g, h, hcf, hw => by
    simp only [List.all_cons, Bool.and_eq_true] at hcf
    have hP : hasFin (.node d cs) = false := by simp [hasFin, T.data, h.tasks]
    by_cases hf : hasFin c = true
    · have e : runU c g (op :: ops) = (c, g, op :: ops) := by simp [runU, hf]
      rw [e]; simp only [setChild_self cs i c h.get]
    · have hf' : hasFin c = false := by simpa using hf
      have e : runU c g (op :: ops) = runU (step c g op).1 (step c g op).2.1 ops := by simp [runU, hf']
      rw [e]
      have hw0 := hw [] (by simp)
      have e2 : runU (.node d cs) g (op :: ops) = runU (step (.node d cs) g op).1 (step (.node d cs) g op).2.1 ops := by
        simp [runU, hP]
      have hu : g.user = [] := by simpa [runU] using hw0.2
      have hap : APB c g := by simpa [runU] using hw0.1
      rw [e2, step_embed_batch h g op hcf.1 hu (APB_batch c g hap hf' op hcf.1)]
      have ih := runU_embedB ops d (setChild cs i (step c g op).1) i (step c g op).1 (step c g op).2.1 (ctx_setChild h _) hcf.2
        (onWayB_step c g op hcf.1 hw hf')
      rw [ih, setChild_setChild]

/-! ### a freshly built ParallelAction over Function / Sleep leaves is `GoodB` -/

/-- SleepAction(0) is excluded, as in `good_sleep`: its timer is due in the pass that starts it -/
def sleepPos (c : Node) : Bool := match c.kind with | .sleep ms => decide (1 ≤ ms) | _ => true

theorem visitAll_ofList : ∀ (l : List Node), (∀ c ∈ l, leafOkB c = true) → visitAll (ofList l) = fnIds l
  | [], _ => rfl
  | c :: l, h => by
    have hc := h c (by simp)
    have ih := visitAll_ofList l (fun x hx => h x (by simp [hx]))
    simp only [leafOkB, Bool.and_eq_true] at hc
    have e : fnIds (c :: l) = fnIds [c] ++ fnIds l := by simp [fnIds, List.filterMap_cons]; split <;> simp
    rw [e, ofList, visitAll, ih, visit]
    congr 1
    revert hc; cases hk : c.kind <;> simp [fnIds, hk]

theorem startN_now (g : G) (c : Node) : (startN g c).2.now = g.now := by
  unfold startN; split <;> rfl

theorem startLs_future : ∀ (l : List Node) (g : G), (∀ c ∈ l, leafOkB c = true ∧ sleepPos c = true) →
    ∀ c' ∈ (startLs l g).1, ∀ dl, c'.sleepAt = some dl → g.now < dl
  | [], _, _, c', hc', _, _ => by simp [startLs] at hc'
  | c :: l, g, h, c', hc', dl, hs => by
    simp only [startLs, List.mem_cons] at hc'
    rcases hc' with e | hc'
    · obtain ⟨hok, hpos⟩ := h c (by simp)
      simp only [leafOkB, Bool.and_eq_true] at hok
      obtain ⟨c1, c2, c3, c4, c5, c6, c7, c8, c9, c10, c11⟩ := clean_fields c hok.1.1
      rw [e] at hs
      cases hk : c.kind with
      | func s tag => simp [startN, hk, funcDone, c5] at hs
      | sleep ms =>
        simp only [startN, hk, sleepRun, Option.some.injEq] at hs
        simp only [sleepPos, hk, decide_eq_true_eq] at hpos
        omega
      | _ => rw [hk] at hok; simp at hok
    · have := startLs_future l (startN g c).2 (fun x hx => h x (by simp [hx])) c' hc' dl hs
      rw [startN_now] at this; exact this

/-- `start` of the freshly built node, written out -/
theorem start_par_leaves (d : Node) (l : List Node) (m : Mode3) (g : G) (hk : d.kind = .par m) (htmo : d.tmo = none)
    (hc : cleanNode d = true) (hl : ∀ c ∈ l, leafOkB c = true) (hg : GIu g) :
    start (.node d (ofList l)) g =
      if l.length = 0 then (.node (parFin d (startLs l g).2) (ofList ((startLs l g).1.map stopN)), parFinG d (startLs l g).2, true)
      else (.node { d with st := .running } (ofList (startLs l g).1), (startLs l g).2, true) := by
  obtain ⟨c1, c2, c3, c4, c5, c6, c7, c8, c9, c10, c11⟩ := clean_fields d hc
  have hsh : d.shape = .par := by simp [Node.shape, Node.isLeaf, Node.isPar, hk]
  have hmode : d.parMode = m := by simp [Node.parMode, hk]
  cases l with
  | nil =>
    rw [start]
    simp [c1, hsh, hmode, startChildren, c9, finish, Node.isLeaf, Node.isPar, hk, hg.1.1, stopAll, post, onFinal, G.emit, parFin, parFinG,
      Node.started, TL.length, ofList, startLs, c3, c11]
  | cons c l' =>
    rw [start]
    simp only [c1, hsh, hmode]
    rw [startChildren_leaves (c :: l') 0 _ g hl]
    have : (0 == (c :: l').length) = false := by simp
    simp [c9, ofList_length, this, Node.started, c1, armTmo, htmo, c4]

/-- **`GoodB` of a ParallelAction (any mode, any number of children) over Function / Sleep leaves**: started at any moment by
its parent, it calls the functions of its FunctionAction children in child order inside `start()`, every state on its way can be
embedded into the parent (`APB`), and when its own notification is queued it is `DoneAs … (true, 0)` -/
theorem goodB_par_leaves (d : Node) (l : List Node) (m : Mode3) (hk : d.kind = .par m) (htmo : d.tmo = none)
    (hc : cleanNode d = true) (hl : ∀ c ∈ l, leafOkB c = true) (hp : ∀ c ∈ l, sleepPos c = true) : GoodB (.node d (ofList l)) := by
  obtain ⟨c1, c2, c3, c4, c5, c6, c7, c8, c9, c10, c11⟩ := clean_fields d hc
  intro g hg
  obtain ⟨d0, l0, g0, e0, h0, _⟩ := start_PI d l m (maxMs l) g hk htmo hc hl (Nat.le_refl _) hg
  obtain ⟨a1, a2, a3, a4, a5⟩ := startLs_ok (maxMs l) l g hl (Nat.le_refl _) hg
  have hev : eval (.node d (ofList l)) = some (true, 0) := by rw [eval]; simp [hk, evalAll_ofList l hl]
  have hvis : visit (.node d (ofList l)) = fnIds l := by rw [visit]; simp only [hk]; exact visitAll_ofList l hl
  have hst := start_par_leaves d l m g hk htmo hc hl hg
  rw [e0] at hst
  rw [e0, hev, hvis]
  by_cases hn : l.length = 0
  · -- no children: finished inside start()
    rw [if_pos hn] at hst
    have hl0 : l = [] := List.eq_nil_of_length_eq_zero hn
    subst hl0
    simp only [startLs, List.map_nil, Prod.mk.injEq, T.node.injEq, and_true] at hst
    obtain ⟨⟨i1, i2⟩, i3⟩ := hst
    have i2' := ofList_inj _ _ i2
    subst i1; subst i2'; subst i3
    have hT : allTasks (.node (parFin d g) (ofList [])) [] = [(g.nextId, [], TK.fin true 0)] := by
      simp [allTasks, allTasksL, ofList, parFin, c3]
    have hTm : allTimers (.node (parFin d g) (ofList [])) [] = [] := by
      simp [allTimers, allTimersL, ofList, parFin, c5]
    have hF : hasFin (.node (parFin d g) (ofList [])) = true := by simp [hasFin, T.data, parFin, TK.isFin]
    refine ⟨rfl, h0.gi, rfl, trivial, (by rw [hTm]; intro x hx; cases hx), ?_⟩
    intro ops _
    rw [runU_hasFin _ _ ops hF]
    refine ⟨h0.gi, Or.inl (Or.inr ⟨_, _, _, _, hT⟩), fun _ => ⟨⟨(true, 0), rfl, ⟨_, hT⟩, hTm, rfl⟩, ?_⟩,
      fun hf => by rw [hF] at hf; cases hf⟩
    simp [parFinG, fnIds, trOf_cons_other]
  · rw [if_neg hn] at hst
    simp only [Prod.mk.injEq, T.node.injEq, and_true] at hst
    obtain ⟨⟨i1, i2⟩, i3⟩ := hst
    have i2' := ofList_inj _ _ i2
    have hrun : d0.st = .running := by rw [i1]
    refine ⟨rfl, h0.gi, by rw [i3]; exact a3, trivial, ?_, ?_⟩
    · intro x hx
      rw [allTimers, h0.slp, h0.tmoAt] at hx
      simp only [List.nil_append] at hx
      rw [mem_timersL] at hx
      obtain ⟨j, c, hj, hcase, _⟩ := hx
      have hmem : c ∈ (startLs l g).1 := by rw [← i2']; exact List.mem_iff_getElem?.2 ⟨j, hj⟩
      rcases hcase with ⟨hs, _⟩ | ⟨hs, _⟩
      · exact startLs_future l g (fun c hc => ⟨hl c hc, hp c hc⟩) c hmem x.1 hs
      · rw [(h0.leaves c (List.mem_iff_getElem?.2 ⟨j, hj⟩)).tmo] at hs; cases hs
    · intro ops hcf
      obtain ⟨d', l', g', rest, e, h', hr⟩ := runU_PI ops d0 l0 g0 h0 hrun hcf
      rw [e]
      have htr : ∀ (tr : List (Nat ⊕ (Bool × Nat))), d'.tasks ≠ [] ∨ d'.st = .running → trOf g'.log = trOf g.log ++ (fnIds l).map Sum.inl := by
        intro _ hne
        rcases h'.phase with ⟨_, _, a⟩ | ⟨_, _, a⟩ | ⟨b, a, _⟩
        · exact a
        · exact a
        · rcases hne with hne | hne
          · exact absurd a hne
          · rw [b] at hne; cases hne
      rcases hr with ⟨hr, hrest⟩ | ⟨hf, hd, hh⟩
      · have htk : d'.tasks = [] := by
          rcases h'.phase with ⟨_, a, _⟩ | ⟨a, _⟩ | ⟨a, _⟩
          · exact a
          · rw [hr] at a; cases a
          · rw [hr] at a; cases a
        have hnf : hasFin (.node d' (ofList l')) = false := by simp [hasFin, T.data, htk]
        refine ⟨h'.gi, Or.inr (par_leaves_batchOk h' htk), (fun hf => by rw [hnf] at hf; cases hf), fun _ => ⟨hrest, fun _ => ?_, ?_⟩⟩
        · exact ⟨fnIds l, List.prefix_refl _, htr [] (Or.inr hr)⟩
        · exact ⟨fnIds l, htr [] (Or.inr hr)⟩
      · refine ⟨h'.gi, Or.inl ?_, fun _ => ⟨⟨(true, 0), rfl, hd⟩, ?_⟩, fun hf' => by rw [hh] at hf'; cases hf'⟩
        · obtain ⟨⟨id, eT⟩, _, _⟩ := hd
          exact Or.inr ⟨id, [], true, 0, eT⟩
        · apply htr []
          left; intro e0'
          simp [hasFin, T.data, e0'] at hh

end Tbox.C17
