/-
C17 — OPEN M3, stage (i), part 3: the generic serial-composite theorem over `GoodB` children (`genB` = `gen` of Sim4 with `AP`
replaced by `APB`, the embedding by its batch form `runU_embedB`), `good_serialB`, and the kinds Wrapper / Composite / Sequence
over `GoodB` children.  The proofs are those of Sim4 / Sim5 / Sim6 with the three consumers of `AP` exchanged.
-/
import TboxModel.C17.ParChild2
namespace Tbox.C17
set_option linter.unusedSimpArgs false
set_option linter.unusedVariables false

/-- the children in `F` are still the freshly built ones of `cs0`, and they behave -/
def FreshB (cs0 cs : TL) (F : List Nat) : Prop := ∀ j ∈ F, ∃ c, cs.get? j = some c ∧ cs0.get? j = some c ∧ GoodB c

/-- all timers of the tree right after a decision was carried out are in the future -/
theorem applyNext_notdueB (cs0 : TL) (KI : Node → Next → List Nat → Prop) (val : Node → Next → Option (Bool × Nat))
    (vis : Node → Next → List Nat) (hK : KSpec cs0 KI val vis) (d : Node) (cs : TL) (g : G) (nx : Next) (F : List Nat)
    (hd : DPS d cs) (hF : FreshB cs0 cs F) (hki : KI d nx F) (hg : GIu g) :
    ∀ x ∈ allTimers (.node (applyNext d cs g nx).1 (applyNext d cs g nx).2.1) [], g.now < x.1 := by
  cases nx with
  | finish s w =>
    have hne : d.st ≠ .finished ∧ d.st ≠ .stoped := by simp [hd.st]
    simp only [applyNext]
    rw [finish3_nocurr d cs g s w hg.1 hd.ser hne hd.curr]
    have := (inert_all_tasks (finNode d g s w) cs hd.inert (by simp [finNode, hd.slp]) (by simp [finNode])).2
    simp only
    rw [this]; intro x hx; cases hx
  | start j rst onFail =>
    obtain ⟨hr, hj⟩ := hK.kstart d j rst onFail F hki
    subst hr
    obtain ⟨c, hget, hget0, hgood⟩ := hF j hj
    obtain ⟨ok, hg0, hnow, _, htim, _⟩ := hgood g hg
    rw [applyNext_start d cs g j onFail c hget ok]
    exact timers_embed_notdue (ctx_of_dps d cs j c _ hd hget) g.now htim

theorem freshB_erase (cs0 cs : TL) (F : List Nat) (j id : Nat) (c' : T) (h : FreshB cs0 cs F) (hnd : F.Nodup) :
    FreshB cs0 (popChild (setChild cs j c') j id) (F.erase j) := by
  intro k hk
  have hne : k ≠ j := by
    intro e; subst e
    exact (List.Nodup.mem_erase_iff hnd).1 hk |>.1 rfl
  obtain ⟨c, h1, h2, h3⟩ := h k (List.mem_of_mem_erase hk)
  exact ⟨c, by rw [get_popChild_ne _ _ _ _ hne, get_setChild_ne _ _ _ _ hne]; exact h1, h2, h3⟩

theorem runOkB_shift (R : T × G × List Op) (L : List (Nat ⊕ (Bool × Nat))) (a : List Nat) (v : Option (Bool × Nat)) (vs : List Nat)
    (h : RunOkB R (L ++ a.map Sum.inl) v vs) : RunOkB R L v (a ++ vs) := by
  obtain ⟨h1, h2, h3, h4⟩ := h
  refine ⟨h1, h2, ?_, ?_⟩
  · intro hf; obtain ⟨x, y⟩ := h3 hf; exact ⟨x, by rw [y, List.map_append, List.append_assoc]⟩
  · intro hf; obtain ⟨x, y, tr, z⟩ := h4 hf
    refine ⟨x, fun hv => ?_, a ++ tr, by rw [z, List.map_append, List.append_assoc]⟩
    obtain ⟨pfx, hp, e⟩ := y hv
    exact ⟨a ++ pfx, (List.prefix_append_right_inj a).2 hp, by rw [e, List.map_append, List.append_assoc]⟩

/-- carrying out a decision does not move the clock -/
theorem applyNext_nowB (cs0 : TL) (KI : Node → Next → List Nat → Prop) (val : Node → Next → Option (Bool × Nat))
    (vis : Node → Next → List Nat) (hK : KSpec cs0 KI val vis) (d : Node) (cs : TL) (g : G) (nx : Next) (F : List Nat)
    (hd : DPS d cs) (hF : FreshB cs0 cs F) (hki : KI d nx F) (hg : GIu g) : (applyNext d cs g nx).2.2.now = g.now := by
  cases nx with
  | finish s w =>
    have hne : d.st ≠ .finished ∧ d.st ≠ .stoped := by simp [hd.st]
    simp only [applyNext]
    rw [finish3_nocurr d cs g s w hg.1 hd.ser hne hd.curr]; rfl
  | start j rst onFail =>
    obtain ⟨hr, hj⟩ := hK.kstart d j rst onFail F hki
    subst hr
    obtain ⟨c, hget, hget0, hgood⟩ := hF j hj
    obtain ⟨ok, hg0, hnow, _, htim, _⟩ := hgood g hg
    rw [applyNext_start d cs g j onFail c hget ok]; exact hnow

/-- the parent while its child is on its way, or done with no op left to deliver its notification -/
theorem wait_okB {d' : Node} {cs' : TL} {j : Nat} {c' : T} (hctx : Ctx d' cs' j c') (g' : G) (L : List (Nat ⊕ (Bool × Nat)))
    (v : Option (Bool × Nat)) (vs vc : List Nat) (a1 : GIu g') (a2 : APB c' g')
    (a3 : hasFin c' = true → trOf g'.log = L ++ vc.map Sum.inl)
    (a4 : hasFin c' = false → v ≠ none → ∃ pfx, pfx <+: vc ∧ trOf g'.log = L ++ pfx.map Sum.inl)
    (a5 : hasFin c' = false → ∃ tr : List Nat, trOf g'.log = L ++ tr.map Sum.inl)
    (hvis : v ≠ none → vc <+: vs) : RunOkB (.node d' cs', g', []) L v vs := by
  have hPnf : hasFin (.node d' cs') = false := hasFin_of_no_tasks _ _ hctx.tasks
  refine ⟨a1, APB_embed hctx _ a1.2 a2, (fun hf => absurd hf (by rw [hPnf]; simp)), (fun _ => ⟨rfl, fun hv => ?_, ?_⟩)⟩
  · by_cases hcf' : hasFin c' = true
    · exact ⟨vc, hvis hv, a3 hcf'⟩
    · obtain ⟨pfx, hp, e⟩ := a4 (by simpa using hcf') hv
      exact ⟨pfx, List.IsPrefix.trans hp (hvis hv), e⟩
  · by_cases hcf' : hasFin c' = true
    · exact ⟨vc, a3 hcf'⟩
    · exact a5 (by simpa using hcf')

/-- **the generic serial-composite theorem**: from a valid decision point, the control-free run does
what `val` / `vis` say -/
theorem genB (cs0 : TL) (KI : Node → Next → List Nat → Prop) (val : Node → Next → Option (Bool × Nat))
    (vis : Node → Next → List Nat) (hK : KSpec cs0 KI val vis) :
    ∀ (n : Nat) (ops : List Op), ops.length ≤ n → ∀ (d : Node) (cs : TL) (g : G) (nx : Next) (F : List Nat),
      ops.all cfOp = true → DPS d cs → cs.length = cs0.length → FreshB cs0 cs F → F.Nodup → KI d nx F → GIu g →
      RunOkB (runU (.node (applyNext d cs g nx).1 (applyNext d cs g nx).2.1) (applyNext d cs g nx).2.2 ops)
        (trOf g.log) (val d nx) (vis d nx) := by
  intro n
  induction n with
  | zero =>
    intro ops hlen d cs g nx F hcf hd hlen0 hF hnd hki hg
    have : ops = [] := List.eq_nil_of_length_eq_zero (by omega)
    subst this
    -- no op: the state right after the decision
    cases nx with
    | finish s w =>
      have hne : d.st ≠ .finished ∧ d.st ≠ .stoped := by simp [hd.st]
      simp only [applyNext, runU]
      rw [finish3_nocurr d cs g s w hg.1 hd.ser hne hd.curr]
      have hdn := done_of_finish d cs g s w hd
      have hv := hK.kfin d s w F hki
      refine ⟨⟨⟨hg.1.1, by have := hg.1.2; simp only [G.emit]; omega⟩, hg.2⟩, ?_, ?_, ?_⟩
      · left; right; obtain ⟨⟨id, e⟩, _, _⟩ := hdn.1; exact ⟨id, [], s, w, e⟩
      · intro _; exact ⟨⟨(s, w), hv.1, hdn.1⟩, by simp only [G.emit]; rw [trOf_cons_other _ _ (by intro n; simp) (by intro a b c; simp), hv.2]; simp⟩
      · intro hf; rw [hdn.2] at hf; cases hf
    | start j rst onFail =>
      obtain ⟨hr, hj⟩ := hK.kstart d j rst onFail F hki
      subst hr
      obtain ⟨c, hget, hget0, hgood⟩ := hF j hj
      obtain ⟨ok, hg0, hnow, _, htim, hrun⟩ := hgood g hg
      rw [applyNext_start d cs g j onFail c hget ok]
      have hctx := ctx_of_dps d cs j c (start c g).1 hd hget
      have r0 := hrun [] (by simp)
      simp only [runU] at r0 ⊢
      obtain ⟨a1, a2, a3, a4⟩ := r0
      have hPnf : hasFin (.node { d with curr := some j } (setChild cs j (start c g).1)) = false := hasFin_of_no_tasks _ _ hd.tasks
      refine ⟨a1, APB_embed hctx _ a1.2 a2, (fun hf => absurd hf (by rw [hPnf]; simp)), (fun _ => ⟨rfl, fun hv => ?_, ?_⟩)⟩
      rotate_left
      · by_cases hcf' : hasFin (start c g).1 = true
        · exact ⟨visit c, (a3 hcf').2⟩
        · exact (a4 (by simpa using hcf')).2.2
      -- the calls made so far are the child's so far: a prefix of its visit order
      have hec : eval c ≠ none := fun e => hv (hK.kdiv d j onFail F c hki hget0 e)
      obtain ⟨r, her⟩ := Option.ne_none_iff_exists'.1 hec
      have hvis : visit c <+: vis d (.start j [] onFail) := by
        have ks := hK.kstep d j onFail F c r hki hget0 her
        by_cases hvl : viaLast d.kind j = true
        · rw [(ks.1 hvl).2]; exact List.prefix_refl _
        · rw [(ks.2 (by simpa using hvl)).2.2]; exact List.prefix_append _ _
      by_cases hcf' : hasFin (start c g).1 = true
      · exact ⟨visit c, hvis, (a3 hcf').2⟩
      · obtain ⟨pfx, hp, e⟩ := (a4 (by simpa using hcf')).2.1 hec
        exact ⟨pfx, List.IsPrefix.trans hp hvis, e⟩
  | succ n ih =>
    intro ops hlen d cs g nx F hcf hd hlen0 hF hnd hki hg
    cases nx with
    | finish s w =>
      have hne : d.st ≠ .finished ∧ d.st ≠ .stoped := by simp [hd.st]
      simp only [applyNext]
      rw [finish3_nocurr d cs g s w hg.1 hd.ser hne hd.curr]
      have hdn := done_of_finish d cs g s w hd
      have hv := hK.kfin d s w F hki
      rw [runU_hasFin _ _ ops hdn.2]
      refine ⟨⟨⟨hg.1.1, by have := hg.1.2; simp only [G.emit]; omega⟩, hg.2⟩, ?_, ?_, ?_⟩
      · left; right; obtain ⟨⟨id, e⟩, _, _⟩ := hdn.1; exact ⟨id, [], s, w, e⟩
      · intro _; exact ⟨⟨(s, w), hv.1, hdn.1⟩, by simp only [G.emit]; rw [trOf_cons_other _ _ (by intro n; simp) (by intro a b c; simp), hv.2]; simp⟩
      · intro hf; rw [hdn.2] at hf; cases hf
    | start j rst onFail =>
      obtain ⟨hr, hj⟩ := hK.kstart d j rst onFail F hki
      subst hr
      obtain ⟨c, hget, hget0, hgood⟩ := hF j hj
      obtain ⟨ok, hg0, hnow, _, htim, hrun⟩ := hgood g hg
      rw [applyNext_start d cs g j onFail c hget ok]
      have hctx := ctx_of_dps d cs j c (start c g).1 hd hget
      have hway : OnWayB (start c g).1 (start c g).2.1 := fun ops' hc' => ⟨(hrun ops' hc').2.1, (hrun ops' hc').1.2⟩
      rw [runU_embedB ops _ _ j _ _ hctx hcf hway]
      -- the child's run over `ops`
      have rc := hrun ops hcf
      generalize hR : runU (start c g).1 (start c g).2.1 ops = R at rc ⊢
      obtain ⟨c', g', rest⟩ := R
      obtain ⟨a1, a2, a3, a4⟩ := rc
      simp only at a1 a2 a3 a4 ⊢
      have hctx' : Ctx { d with curr := some j } (setChild (setChild cs j (start c g).1) j c') j c' := ctx_setChild hctx c'
      rw [setChild_setChild] at hctx' ⊢
      have hPnf : hasFin (.node { d with curr := some j } (setChild cs j c')) = false := hasFin_of_no_tasks _ _ hd.tasks
      -- what `vis` / `val` of this decision look like once the child's result is known
      have hvis : val d (.start j [] onFail) ≠ none → visit c <+: vis d (.start j [] onFail) := by
        intro hv
        have hec : eval c ≠ none := fun e => hv (hK.kdiv d j onFail F c hki hget0 e)
        obtain ⟨r, her⟩ := Option.ne_none_iff_exists'.1 hec
        have ks := hK.kstep d j onFail F c r hki hget0 her
        by_cases hvl : viaLast d.kind j = true
        · rw [(ks.1 hvl).2]; exact List.prefix_refl _
        · rw [(ks.2 (by simpa using hvl)).2.2]; exact List.prefix_append _ _
      have hwait : RunOkB (.node { d with curr := some j } (setChild cs j c'), g', []) (trOf g.log)
          (val d (.start j [] onFail)) (vis d (.start j [] onFail)) :=
        wait_okB hctx' g' _ _ _ (visit c) a1 a2 (fun hf => (a3 hf).2)
          (fun hf hv => (a4 hf).2.1 (fun e => hv (hK.kdiv d j onFail F c hki hget0 e))) (fun hf => (a4 hf).2.2) hvis
      have hrr := runU_rest ops (start c g).1 (start c g).2.1
      rw [hR] at hrr
      simp only at hrr
      cases rest with
      | nil => simpa [runU] using hwait
      | cons op rest' =>
        -- the child must be done (otherwise it would have consumed all ops)
        have hcf' : hasFin c' = true := by
          cases hh : hasFin c' with
          | true => rfl
          | false => have := (a4 hh).1; cases this
        obtain ⟨⟨r, her, ⟨id, ht⟩, htm, hcst⟩, hfn⟩ := a3 hcf'
        have hopcf : cfOp op = true ∧ rest'.all cfOp = true := by
          have := hrr.2 hcf; simpa using this
        have e1 : runU (.node { d with curr := some j } (setChild cs j c')) g' (op :: rest') =
            runU (step (.node { d with curr := some j } (setChild cs j c')) g' op).1
                 (step (.node { d with curr := some j } (setChild cs j c')) g' op).2.1 rest' := by
          simp [runU, hPnf]
        rw [e1, step_done hctx' (by rw [← hd.ser]; exact isSerial_congr d _ rfl) g' a1.2 op hopcf.1 id r ht]
        -- the handler: the node is the decision node again
        have hinert := popChild_done (setChild cs j c') j id c' r hctx'.get ht htm hctx'.others
        have hdp : DPS d (popChild (setChild cs j c') j id) :=
          ⟨hd.st, hd.curr, hd.tasks, hd.tmoAt, hd.slp, hd.tmo, hd.ser, hd.fin0, hinert⟩
        have hlenp : (popChild (setChild cs j c') j id).length = cs0.length := by
          rw [length_popChild, length_setChild]; exact hlen0
        have hg1 : GIu (advG g' op) := advG_GIu g' op a1
        have hso : serialOnChild { d with curr := some j } (popChild (setChild cs j c') j id) (advG g' op) j r.1 r.2 =
            if viaLast d.kind j then finish3 d (popChild (setChild cs j c') j id) (advG g' op) r.1 r.2
            else applyNext (serialNext d cs0.length j r.1 r.2).1 (popChild (setChild cs j c') j id) (advG g' op)
                   (serialNext d cs0.length j r.1 r.2).2 := by
          unfold serialOnChild
          have e : ({ ({ d with curr := some j } : Node) with curr := none } : Node) = d := curr_roundtrip d j hd.curr
          have c1 : (d.st == St.running) = true := by simp [hd.st]
          simp only [e, c1, ↓reduceIte, hlenp]
        rw [hso]
        have ks := hK.kstep d j onFail F c r hki hget0 her
        have hne : d.st ≠ .finished ∧ d.st ≠ .stoped := by simp [hd.st]
        by_cases hvl : viaLast d.kind j = true
        · -- the child's result is the composite's result
          simp only [hvl, ↓reduceIte]
          rw [finish3_nocurr d _ (advG g' op) r.1 r.2 hg1.1 hd.ser hne hd.curr]
          have hdn := done_of_finish d _ (advG g' op) r.1 r.2 hdp
          simp only
          rw [fireTimers_notdue _ _ (by rw [hdn.1.2.1]; intro x hx; cases hx)]
          rw [runU_hasFin _ _ rest' hdn.2]
          refine ⟨⟨⟨hg1.1.1, by have := hg1.1.2; simp only [G.emit]; omega⟩, hg1.2⟩, ?_, ?_, ?_⟩
          · left; right; obtain ⟨⟨id2, e⟩, _, _⟩ := hdn.1; exact ⟨id2, [], r.1, r.2, e⟩
          · intro _
            refine ⟨⟨r, (ks.1 hvl).1, hdn.1⟩, ?_⟩
            simp only [G.emit]
            rw [trOf_cons_other _ _ (by intro n; simp) (by intro a b c; simp), advG_log, hfn, (ks.1 hvl).2]
          · intro hf; rw [hdn.2] at hf; cases hf
        · have hvl' : viaLast d.kind j = false := by simpa using hvl
          simp only [hvl', Bool.false_eq_true, ↓reduceIte]
          obtain ⟨k1, k2, k3⟩ := ks.2 hvl'
          have hd1 := dps_serialNext d (popChild (setChild cs j c') j id) cs0.length j r.1 r.2 hdp
          have hF1 := freshB_erase cs0 cs F j id c' hF hnd
          have hnd1 : (F.erase j).Nodup := hnd.erase j
          rw [fireTimers_notdue _ _ (by
            rw [applyNext_nowB cs0 KI val vis hK _ _ _ _ _ hd1 hF1 k1 hg1]
            exact applyNext_notdueB cs0 KI val vis hK _ _ _ _ _ hd1 hF1 k1 hg1)]
          have hlen' : rest'.length ≤ n := by
            have := hrr.1; simp only [List.length_cons] at this hlen; omega
          have ihr := ih rest' hlen' _ _ (advG g' op) _ (F.erase j) hopcf.2 hd1 hlenp hF1 hnd1 k1 hg1
          rw [advG_log, hfn] at ihr
          rw [k2, k3]
          exact runOkB_shift _ _ _ _ _ ihr


/-- from the kind's specification to the behaviour of the freshly built composite -/
theorem good_serialB (d : Node) (cs : TL) (hc : cleanNode d = true) (hser : d.isSerial = true) (htmo : d.tmo = none)
    (hcl : CleanL cs = true) (hgoodc : ∀ j c, cs.get? j = some c → GoodB c)
    (KI : Node → Next → List Nat → Prop) (val : Node → Next → Option (Bool × Nat)) (vis : Node → Next → List Nat)
    (hK : KSpec cs KI val vis)
    (hki : KI (decNode d cs.length) (serialStart {} d cs.length).2 (List.range cs.length))
    (hval : val (decNode d cs.length) (serialStart {} d cs.length).2 = eval (.node d cs))
    (hvis : vis (decNode d cs.length) (serialStart {} d cs.length).2 = visit (.node d cs)) : GoodB (.node d cs) := by
  intro g hg
  have hF : FreshB cs cs (List.range cs.length) := by
    intro j hj
    obtain ⟨c, hcget⟩ := get_of_lt cs j (List.mem_range.1 hj)
    exact ⟨c, hcget, hcget, hgoodc j c hcget⟩
  have hd := dps_decNode d cs hc hser htmo hcl
  have hnx : ∀ j rst onFail, (serialStart {} d cs.length).2 = .start j rst onFail →
      rst = [] ∧ ∃ c, cs.get? j = some c ∧ (start c g).2.2 = true := by
    intro j rst onFail e
    rw [e] at hki
    obtain ⟨hr, hj⟩ := hK.kstart _ j rst onFail _ hki
    obtain ⟨c, hcget, _, hgc⟩ := hF j hj
    exact ⟨hr, c, hcget, (hgc g hg).1⟩
  rw [start_serial d cs g hc hser htmo hg.1 hnx]
  have hgen := fun ops hcf => genB cs KI val vis hK (List.length ops) ops (Nat.le_refl _) (decNode d cs.length) cs g
    (serialStart {} d cs.length).2 (List.range cs.length) hcf hd rfl hF (List.nodup_range) hki hg
  refine ⟨rfl, ?_, applyNext_nowB cs KI val vis hK _ _ _ _ _ hd hF hki hg, trivial,
    applyNext_notdueB cs KI val vis hK _ _ _ _ _ hd hF hki hg, ?_⟩
  · have := (hgen [] (by simp)).1; simpa [runU] using this
  · intro ops hcf
    have := hgen ops hcf
    rw [hval, hvis] at this
    exact this

theorem good_wrapperB (d : Node) (cs : TL) (m : WrapMode) (hk : d.kind = .wrapper m) (hc : cleanNode d = true) (htmo : d.tmo = none)
    (hcl : CleanL cs = true) (hgoodc : ∀ j c, cs.get? j = some c → GoodB c) (hlen : 1 ≤ cs.length) :
    GoodB (.node d cs) := by
  have hser : d.isSerial = true := serial_of_kind d (by simp [Node.isLeaf, Node.isPar, hk])
  refine good_serialB d cs hc hser htmo hcl hgoodc
    (fun d' nx F => d'.kind = .wrapper m ∧ ((nx = .start 0 [] none ∧ 0 ∈ F) ∨ ∃ s w, nx = .finish s w))
    (fun _ nx => match nx with | .finish s w => some (s, w) | .start _ _ _ => (evalAt cs 0).map (wrapRes m))
    (fun _ nx => match nx with | .finish _ _ => [] | .start _ _ _ => visitAt cs 0)
    ⟨?_, ?_, ?_, ?_⟩ ?_ ?_ ?_
  · intro d' s w F _; exact ⟨rfl, rfl⟩
  · intro d' j rst onFail F h
    rcases h.2 with ⟨e, h0⟩ | ⟨s, w, e⟩
    · cases e; exact ⟨rfl, h0⟩
    · cases e
  · intro d' j onFail F c r h hget her
    rcases h.2 with ⟨e, h0⟩ | ⟨s, w, e⟩
    · cases e
      have hev := (evalAt_get cs 0 c hget)
      refine ⟨fun hv => by simp [viaLast, h.1] at hv, fun _ => ?_⟩
      have hsn : serialNext d' cs.length 0 r.1 r.2 = (d', .finish (wrapRes m r).1 (wrapRes m r).2) := by
        unfold serialNext; rw [h.1]; cases m <;> simp [wrapRes]
      rw [hsn]
      refine ⟨⟨h.1, Or.inr ⟨_, _, rfl⟩⟩, ?_, ?_⟩
      · simp [hev.1, her]
      · simp [hev.2]
    · cases e
  · intro d' j onFail F c h hget her
    rcases h.2 with ⟨e, h0⟩ | ⟨s, w, e⟩
    · cases e; simp [(evalAt_get cs 0 c hget).1, her]
    · cases e
  · refine ⟨by simp [decNode, serialStart, hk], Or.inl ⟨by simp [serialStart, hk], List.mem_range.2 (by omega)⟩⟩
  · simp only [serialStart, hk]
    rw [eval]; simp only [hk]
    cases evalAt cs 0 with
    | none => rfl
    | some r => cases m <;> simp [wrapRes]
  · simp only [serialStart, hk]; rw [visit]; simp only [hk]

/-! ### CompositeAction -/

theorem good_compositeB (d : Node) (cs : TL) (hk : d.kind = .composite) (hc : cleanNode d = true) (htmo : d.tmo = none)
    (hcl : CleanL cs = true) (hgoodc : ∀ j c, cs.get? j = some c → GoodB c) (hlen : 1 ≤ cs.length) :
    GoodB (.node d cs) := by
  have hser : d.isSerial = true := serial_of_kind d (by simp [Node.isLeaf, Node.isPar, hk])
  refine good_serialB d cs hc hser htmo hcl hgoodc
    (fun d' nx F => d'.kind = .composite ∧ nx = .start 0 [] none ∧ 0 ∈ F)
    (fun _ nx => match nx with | .finish s w => some (s, w) | .start _ _ _ => evalAt cs 0)
    (fun _ nx => match nx with | .finish _ _ => [] | .start _ _ _ => visitAt cs 0)
    ⟨?_, ?_, ?_, ?_⟩ ?_ ?_ ?_
  · intro d' s w F _; exact ⟨rfl, rfl⟩
  · intro d' j rst onFail F h; cases h.2.1; exact ⟨rfl, h.2.2⟩
  · intro d' j onFail F c r h hget her
    cases h.2.1
    have hev := evalAt_get cs 0 c hget
    refine ⟨fun _ => ⟨by simp [hev.1, her], by simp [hev.2]⟩, fun hv => by simp [viaLast, h.1] at hv⟩
  · intro d' j onFail F c h hget her
    cases h.2.1; simp [(evalAt_get cs 0 c hget).1, her]
  · exact ⟨by simp [decNode, serialStart, hk], by simp [serialStart, hk], List.mem_range.2 (by omega)⟩
  · simp only [serialStart, hk]; rw [eval]; simp only [hk]
  · simp only [serialStart, hk]; rw [visit]; simp only [hk]

theorem good_seqB (d : Node) (cs : TL) (m : Mode3) (hk : d.kind = .seq m) (hc : cleanNode d = true) (htmo : d.tmo = none)
    (hcl : CleanL cs = true) (hgoodc : ∀ j c, cs.get? j = some c → GoodB c) :
    GoodB (.node d cs) := by
  have hser : d.isSerial = true := serial_of_kind d (by simp [Node.isLeaf, Node.isPar, hk])
  obtain ⟨c1, c2, c3, c4, c5, c6, c7, c8, c9, c10, c11⟩ := clean_fields d hc
  refine good_serialB d cs hc hser htmo hcl hgoodc
    (fun d' nx F => d'.kind = .seq m ∧
      ((∃ onFail, nx = .start d'.index [] onFail ∧ d'.index < cs.length ∧ ∀ k, d'.index ≤ k → k < cs.length → k ∈ F) ∨ ∃ s w, nx = .finish s w))
    (fun _ nx => match nx with | .finish s w => some (s, w) | .start i _ _ => evalSeq m (dropTL cs i) (true, 0))
    (fun _ nx => match nx with | .finish _ _ => [] | .start i _ _ => visitSeq m (dropTL cs i))
    ⟨?_, ?_, ?_, ?_⟩ ?_ ?_ ?_
  · intro d' s w F _; exact ⟨rfl, rfl⟩
  · intro d' j rst onFail F h
    rcases h.2 with ⟨of, e, hlt, hF⟩ | ⟨s, w, e⟩
    · cases e; exact ⟨rfl, hF _ (Nat.le_refl _) hlt⟩
    · cases e
  · intro d' j onFail F c r h hget her
    rcases h.2 with ⟨of, e, hlt, hF⟩ | ⟨s, w, e⟩
    · cases e
      have hdrop := dropTL_get cs d'.index c hget
      refine ⟨fun hv => by simp [viaLast, h.1] at hv, fun _ => ?_⟩
      by_cases hb : ((m == .anySucc && r.1) || (m == .anyFail && !r.1)) = true
      · have hsn : serialNext d' cs.length d'.index r.1 r.2 = (d', .finish r.1 r.2) := by
          unfold serialNext; rw [h.1]; simp only [hb, ↓reduceIte]
        rw [hsn]
        refine ⟨⟨h.1, Or.inr ⟨_, _, rfl⟩⟩, ?_, ?_⟩
        · simp only [hdrop, evalSeq, her, hb, ↓reduceIte]
        · simp only [hdrop, visitSeq, her, hb, ↓reduceIte, List.append_nil]
      · have hb' : ((m == .anySucc && r.1) || (m == .anyFail && !r.1)) = false := by simpa using hb
        have hsn : serialNext d' cs.length d'.index r.1 r.2 =
            ({ d' with index := d'.index + 1 }, seqStartOrFinish { d' with index := d'.index + 1 } cs.length r.1 r.2) := by
          unfold serialNext; rw [h.1]; simp only [hb', Bool.false_eq_true, ↓reduceIte]
        rw [hsn]
        by_cases hn : d'.index + 1 < cs.length
        · have e2 : seqStartOrFinish { d' with index := d'.index + 1 } cs.length r.1 r.2 = .start (d'.index + 1) [] (some (false, 6)) := by
            simp [seqStartOrFinish, hn]
          rw [e2]
          obtain ⟨t2, ts2, hd2⟩ := dropTL_lt_ne cs (d'.index + 1) hn
          refine ⟨⟨h.1, Or.inl ⟨_, rfl, hn, fun k hk1 hk2 => by
            have hk1' : d'.index + 1 ≤ k := hk1
            exact (List.mem_erase_of_ne (by omega)).2 (hF k (by omega) hk2)⟩⟩, ?_, ?_⟩
          · simp only [hdrop, evalSeq, her, hb', Bool.false_eq_true, ↓reduceIte, hd2]
          · simp only [hdrop, visitSeq, her, hb', Bool.false_eq_true, ↓reduceIte]
        · have e2 : seqStartOrFinish { d' with index := d'.index + 1 } cs.length r.1 r.2 = .finish r.1 r.2 := by
            simp [seqStartOrFinish, hn]
          rw [e2]
          have hd2 := dropTL_ge cs (d'.index + 1) (by omega)
          refine ⟨⟨h.1, Or.inr ⟨_, _, rfl⟩⟩, ?_, ?_⟩
          · simp only [hdrop, evalSeq, her, hb', Bool.false_eq_true, ↓reduceIte, hd2]
          · simp only [hdrop, visitSeq, her, hb', Bool.false_eq_true, ↓reduceIte, hd2, List.append_nil]
    · cases e
  · intro d' j onFail F c h hget her
    rcases h.2 with ⟨of, e, hlt, hF⟩ | ⟨s, w, e⟩
    · cases e; simp only [dropTL_get cs d'.index c hget, evalSeq, her]
    · cases e
  · have hidx : (decNode d cs.length).index = 0 := by simp [decNode, serialStart, hk, c8]
    refine ⟨by simp [decNode, serialStart, hk], ?_⟩
    simp only [serialStart, hk, seqStartOrFinish, c8]
    by_cases hn : 0 < cs.length
    · simp only [hn, ↓reduceIte]
      exact Or.inl ⟨_, by rw [hidx], by rw [hidx]; exact hn, fun k _ hk => List.mem_range.2 hk⟩
    · simp only [hn, ↓reduceIte]; exact Or.inr ⟨_, _, rfl⟩
  · simp only [serialStart, hk, seqStartOrFinish, c8]
    rw [eval]; simp only [hk]
    by_cases hn : 0 < cs.length
    · simp [hn, dropTL]
    · have : cs = .nil := by cases cs with | nil => rfl | cons a b => simp [TL.length] at hn
      subst this; simp [TL.length, evalSeq]
  · simp only [serialStart, hk, seqStartOrFinish, c8]
    rw [visit]; simp only [hk]
    by_cases hn : 0 < cs.length
    · simp [hn, dropTL]
    · have : cs = .nil := by cases cs with | nil => rfl | cons a b => simp [TL.length] at hn
      subst this; simp [TL.length, visitSeq]

/-! ### the composition theorems -/

/-- `result_matches_doc_run` (Sim7) for every `GoodB` tree: start the freshly built tree, then any sequence of loop passes and
clock steps; the owner observes a prefix of the evaluator's visit order, or the complete visit order followed by exactly one
finish notification carrying the evaluator's result -/
theorem result_matches_doc_runB (t : T) (hgood : GoodB t) (ops : List Op) (hcf : ops.all cfOp = true)
    (r : Bool × Nat) (hr : eval t = some r) :
    (∃ pfx, pfx <+: visit t ∧ trOf (run t {} (.calls [.start] :: ops)).2.log = pfx.map Sum.inl) ∨
    trOf (run t {} (.calls [.start] :: ops)).2.log = (visit t).map Sum.inl ++ [Sum.inr r] := by
  have hg0 : GIu ({} : G) := ⟨GI_init, rfl⟩
  obtain ⟨ok, hg1, _, _, _, hrun⟩ := hgood {} hg0
  have e0 : run t {} (.calls [.start] :: ops) = run (start t {}).1 (start t {}).2.1 (.pass :: ops) := by
    rw [run, run]
    have := step_start t {}
    simp only [Prod.mk.injEq] at this
    rw [this.1, this.2]
  rw [e0, run_runU]
  have hcf1 : (Op.pass :: ops).all cfOp = true := by simp [cfOp, hcf]
  have rk := hrun (.pass :: ops) hcf1
  have hrest := runU_rest (.pass :: ops) (start t {}).1 (start t {}).2.1
  generalize runU (start t {}).1 (start t {}).2.1 (.pass :: ops) = R at rk hrest ⊢
  obtain ⟨t', g', rest⟩ := R
  obtain ⟨a1, a2, a3, a4⟩ := rk
  simp only [trOf_nil, List.nil_append, hr] at a3 a4
  simp only at a1 a2 a3 a4 hrest ⊢
  by_cases hf : hasFin t' = true
  · obtain ⟨⟨r', hr', hdone⟩, htr⟩ := a3 hf
    cases hr'
    cases rest with
    | nil => left; exact ⟨visit t, List.prefix_refl _, by simpa [run] using htr⟩
    | cons op rest' =>
      right
      have hopcf : cfOp op = true ∧ rest'.all cfOp = true := by have := hrest.2 hcf1; simpa using this
      obtain ⟨t'', st, hin, e1, e2⟩ := step_deliver t' g' op hopcf.1 a1.2 r hdone
      rw [run, e1, e2]
      have hi := run_inert rest' t'' ((advG g' op).emit (.rootFin r.1 r.2 st)) hopcf.2 hin (by simp [G.emit, advG_user, a1.2])
      rw [hi.2]
      simp only [G.emit]
      rw [trOf_cons_rootFin, advG_log, htr]
  · have hf' : hasFin t' = false := by simpa using hf
    obtain ⟨hre, hp, _⟩ := a4 hf'
    subst hre
    obtain ⟨pfx, hpp, e⟩ := hp (by simp)
    left; exact ⟨pfx, hpp, by simpa [run] using e⟩

/-- a freshly built ParallelAction (any mode, any number of children, no timeout) over freshly built FunctionAction /
SleepAction(≥ 1 ms) leaves without timeouts -/
def ParLeafTree (c : T) : Prop :=
  ∃ (d : Node) (l : List Node) (m : Mode3), c = .node d (ofList l) ∧ d.kind = .par m ∧ d.tmo = none ∧ cleanNode d = true ∧
    (∀ x ∈ l, leafOkB x = true) ∧ (∀ x ∈ l, sleepPos x = true)

/-- the children allowed below the serial parent: any serial tree of the whole-tree theorem (`SerOk`), or a ParallelAction
over leaves -/
def ChildOk (c : T) : Prop := (SerOk c = true ∧ Clean c = true) ∨ ParLeafTree c

theorem childOk_goodB (c : T) (h : ChildOk c) : GoodB c ∧ Clean c = true := by
  rcases h with ⟨hs, hc⟩ | ⟨d, l, m, e, hk, htmo, hc, hl, hp⟩
  · exact ⟨goodB_of_good c (good_all c hs hc), hc⟩
  · subst e
    exact ⟨goodB_par_leaves d l m hk htmo hc hl hp, by simp [Clean, hc, cleanL_ofList l hl]⟩

theorem cleanL_of_get : ∀ (cs : TL), (∀ j c, cs.get? j = some c → Clean c = true) → CleanL cs = true
  | .nil, _ => rfl
  | .cons t ts, h => by
    simp only [CleanL, Bool.and_eq_true]
    exact ⟨h 0 t rfl, cleanL_of_get ts (fun j c hj => h (j + 1) c (by simpa [TL.get?] using hj))⟩

/-- **SequenceAction (any mode) over any number of children, each a serial tree or a ParallelAction over leaves, at any
positions** is `GoodB` (so it can itself be a child again) -/
theorem goodB_seq_over_par_leaves (ds : Node) (cs : TL) (m : Mode3) (hk : ds.kind = .seq m) (hc : cleanNode ds = true)
    (htmo : ds.tmo = none) (hch : ∀ j c, cs.get? j = some c → ChildOk c) : GoodB (.node ds cs) :=
  good_seqB ds cs m hk hc htmo (cleanL_of_get cs (fun j c hj => (childOk_goodB c (hch j c hj)).2))
    (fun j c hj => (childOk_goodB c (hch j c hj)).1)

/-- **the documented trace and result of `Sequence[ …, Parallel over leaves, … ]`**, for every pass / clock schedule -/
theorem seq_over_par_leaves (ds : Node) (cs : TL) (m : Mode3) (hk : ds.kind = .seq m) (hc : cleanNode ds = true)
    (htmo : ds.tmo = none) (hch : ∀ j c, cs.get? j = some c → ChildOk c) (ops : List Op) (hcf : ops.all cfOp = true)
    (r : Bool × Nat) (hr : eval (.node ds cs) = some r) :
    (∃ pfx, pfx <+: visit (.node ds cs) ∧ trOf (run (.node ds cs) {} (.calls [.start] :: ops)).2.log = pfx.map Sum.inl) ∨
    trOf (run (.node ds cs) {} (.calls [.start] :: ops)).2.log = (visit (.node ds cs)).map Sum.inl ++ [Sum.inr r] :=
  result_matches_doc_runB _ (goodB_seq_over_par_leaves ds cs m hk hc htmo hch) ops hcf r hr

/-- the same for WrapperAction (all four modes) and CompositeAction over such a child -/
theorem wrapper_over_par_leaves (ds : Node) (cs : TL) (m : WrapMode) (hk : ds.kind = .wrapper m) (hc : cleanNode ds = true)
    (htmo : ds.tmo = none) (hch : ∀ j c, cs.get? j = some c → ChildOk c) (hlen : 1 ≤ cs.length) (ops : List Op)
    (hcf : ops.all cfOp = true) (r : Bool × Nat) (hr : eval (.node ds cs) = some r) :
    (∃ pfx, pfx <+: visit (.node ds cs) ∧ trOf (run (.node ds cs) {} (.calls [.start] :: ops)).2.log = pfx.map Sum.inl) ∨
    trOf (run (.node ds cs) {} (.calls [.start] :: ops)).2.log = (visit (.node ds cs)).map Sum.inl ++ [Sum.inr r] :=
  result_matches_doc_runB _ (good_wrapperB ds cs m hk hc htmo (cleanL_of_get cs (fun j c hj => (childOk_goodB c (hch j c hj)).2))
    (fun j c hj => (childOk_goodB c (hch j c hj)).1) hlen) ops hcf r hr

theorem composite_over_par_leaves (ds : Node) (cs : TL) (hk : ds.kind = .composite) (hc : cleanNode ds = true)
    (htmo : ds.tmo = none) (hch : ∀ j c, cs.get? j = some c → ChildOk c) (hlen : 1 ≤ cs.length) (ops : List Op)
    (hcf : ops.all cfOp = true) (r : Bool × Nat) (hr : eval (.node ds cs) = some r) :
    (∃ pfx, pfx <+: visit (.node ds cs) ∧ trOf (run (.node ds cs) {} (.calls [.start] :: ops)).2.log = pfx.map Sum.inl) ∨
    trOf (run (.node ds cs) {} (.calls [.start] :: ops)).2.log = (visit (.node ds cs)).map Sum.inl ++ [Sum.inr r] :=
  result_matches_doc_runB _ (good_compositeB ds cs hk hc htmo (cleanL_of_get cs (fun j c hj => (childOk_goodB c (hch j c hj)).2))
    (fun j c hj => (childOk_goodB c (hch j c hj)).1) hlen) ops hcf r hr

/-- sanity: the hypotheses are satisfiable and the statement is not vacuous — Sequence[ f1, Parallel(all)[ f2, sleep 5, f3 ], f4 ] -/
def exSeqPar : T :=
  .node { id := 1, kind := .seq .all }
    (.cons (.node { id := 2, kind := .func true none } .nil)
      (.cons (.node { id := 3, kind := .par .all }
          (ofList [{ id := 4, kind := .func false none }, { id := 5, kind := .sleep 5 }, { id := 6, kind := .func true (some 1) }]))
        (.cons (.node { id := 7, kind := .func true none } .nil) .nil)))

theorem exSeqPar_run : eval exSeqPar = some (true, 2) ∧ visit exSeqPar = [2, 4, 6, 7] ∧
    trOf (run exSeqPar {} [.calls [.start], .pass, .adv 5, .pass, .pass, .pass, .pass]).2.log =
      [Sum.inl 2, Sum.inl 4, Sum.inl 6, Sum.inl 7, Sum.inr (true, 2)] := by decide +kernel

/-- … and the tree is covered by `seq_over_par_leaves` (the hypotheses are satisfiable) -/
theorem exSeqPar_covered : ∀ j c, exSeqPar.children.get? j = some c → ChildOk c := by
  intro j c h
  match j, h with
  | 0, h => simp only [exSeqPar, T.children, TL.get?, Option.some.injEq] at h; subst h; exact Or.inl ⟨by decide, by decide⟩
  | 1, h =>
    simp only [exSeqPar, T.children, TL.get?, Option.some.injEq] at h; subst h
    exact Or.inr ⟨_, _, .all, rfl, rfl, rfl, by decide, by decide, by decide⟩
  | 2, h => simp only [exSeqPar, T.children, TL.get?, Option.some.injEq] at h; subst h; exact Or.inl ⟨by decide, by decide⟩
  | n + 3, h => simp [exSeqPar, T.children, TL.get?] at h

end Tbox.C17
