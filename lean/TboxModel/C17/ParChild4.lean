/-
C17 — OPEN M3, stage (i), part 4: the `B` copies (children `GoodB` instead of `Good`) of the remaining six serial parent kinds.
IfElse / Switch (`good_twophaseB`) and IfThen over `good_serialB` (ParChild3); Loop / LoopIf / Repeat over `genRB`, the reset-list
form of `genB` (`genR` of Loops.lean with `AP` replaced by `APB`, the embedding by its batch form; the progress half is not copied:
liveness over a Parallel child stays open).  The kind specifications are those of Sim6 / Loops verbatim.
-/
import TboxModel.C17.ParChild3
namespace Tbox.C17
set_option linter.unusedSimpArgs false
set_option linter.unusedVariables false

theorem good_twophaseB (d : Node) (cs : TL) (hc : cleanNode d = true) (hser : d.isSerial = true) (htmo : d.tmo = none)
    (hcl : CleanL cs = true) (hgoodc : ∀ j c, cs.get? j = some c → GoodB c) (hlen : 1 ≤ cs.length)
    (branch : Bool × Nat → Next)
    (hstart : ∀ d', d'.kind = d.kind → (serialStart {} d' cs.length) = (d', .start 0 [] none))
    (hnext : ∀ d' r, d'.kind = d.kind → serialNext d' cs.length 0 r.1 r.2 = (d', branch r))
    (hbr : ∀ r, (∃ s w, branch r = .finish s w) ∨ (∃ k, 1 ≤ k ∧ k < cs.length ∧ branch r = .start k [] none))
    (hvl : ∀ k, viaLast d.kind k = decide (1 ≤ k))
    (heval : eval (.node d cs) = match evalAt cs 0 with
        | none => none
        | some r => match branch r with | .finish s w => some (s, w) | .start k _ _ => evalAt cs k)
    (hvisit : visit (.node d cs) = visitAt cs 0 ++ match evalAt cs 0 with
        | none => []
        | some r => match branch r with | .finish _ _ => [] | .start k _ _ => visitAt cs k) :
    GoodB (.node d cs) := by
  refine good_serialB d cs hc hser htmo hcl hgoodc
    (fun d' nx F => d'.kind = d.kind ∧
      ((nx = .start 0 [] none ∧ ∀ k, k < cs.length → k ∈ F) ∨ (∃ k, 1 ≤ k ∧ nx = .start k [] none ∧ k ∈ F) ∨ ∃ s w, nx = .finish s w))
    (fun _ nx => match nx with
      | .finish s w => some (s, w)
      | .start k _ _ => if k = 0 then eval (.node d cs) else evalAt cs k)
    (fun _ nx => match nx with
      | .finish _ _ => []
      | .start k _ _ => if k = 0 then visit (.node d cs) else visitAt cs k)
    ⟨?_, ?_, ?_, ?_⟩ ?_ ?_ ?_
  · intro d' s w F _; exact ⟨rfl, rfl⟩
  · intro d' j rst onFail F h
    rcases h.2 with ⟨e, hF⟩ | ⟨k, hk1, e, hkF⟩ | ⟨s, w, e⟩
    · cases e; exact ⟨rfl, hF 0 (by omega)⟩
    · cases e; exact ⟨rfl, hkF⟩
    · cases e
  · intro d' j onFail F c r h hget her
    have hev := evalAt_get cs j c hget
    rcases h.2 with ⟨e, hF⟩ | ⟨k, hk1, e, hkF⟩ | ⟨s, w, e⟩
    · cases e
      refine ⟨fun hv => by rw [h.1, hvl] at hv; simp at hv, fun _ => ?_⟩
      rw [hnext d' r h.1]
      have hev0 : evalAt cs 0 = some r := by rw [hev.1, her]
      rcases hbr r with ⟨s, w, eb⟩ | ⟨k, hk1, hkn, eb⟩
      · refine ⟨⟨h.1, Or.inr (Or.inr ⟨s, w, eb⟩)⟩, ?_, ?_⟩
        · simp only [↓reduceIte, eb]; rw [heval, hev0]; simp [eb]
        · simp only [↓reduceIte, eb]; rw [hvisit, hev0, hev.2]; simp [eb]
      · have hkne : k ≠ 0 := by omega
        refine ⟨⟨h.1, Or.inr (Or.inl ⟨k, hk1, eb, List.mem_erase_of_ne hkne |>.2 (hF k hkn)⟩)⟩, ?_, ?_⟩
        · simp only [↓reduceIte, eb, hkne]; rw [heval, hev0]; simp [eb]
        · simp only [↓reduceIte, eb, hkne]; rw [hvisit, hev0, hev.2]; simp [eb]
    · cases e
      have hkne : j ≠ 0 := by omega
      refine ⟨fun _ => ⟨by simp [hkne, hev.1, her], by simp [hkne, hev.2]⟩, fun hv => by rw [h.1, hvl] at hv; simp at hv; omega⟩
    · cases e
  · intro d' j onFail F c h hget her
    have hev := evalAt_get cs j c hget
    rcases h.2 with ⟨e, hF⟩ | ⟨k, hk1, e, hkF⟩ | ⟨s, w, e⟩
    · cases e; simp only [↓reduceIte]; rw [heval, hev.1, her]
    · cases e; have hkne : j ≠ 0 := by omega
      simp [hkne, hev.1, her]
    · cases e
  · have hs := hstart (decNode d cs.length) (by simp [decNode]; exact (serialStart_fields {} d cs.length).2.2.2.2.2.2.1)
    refine ⟨by simp [decNode]; exact (serialStart_fields {} d cs.length).2.2.2.2.2.2.1, Or.inl ⟨?_, fun k hk => List.mem_range.2 hk⟩⟩
    have := hstart d rfl; rw [this]
  · have := hstart d rfl; rw [this]; simp
  · have := hstart d rfl; rw [this]; simp

theorem good_ifElseB (d : Node) (cs : TL) (a b : Bool) (hk : d.kind = .ifElse a b) (hc : cleanNode d = true) (htmo : d.tmo = none)
    (hcl : CleanL cs = true) (hgoodc : ∀ j c, cs.get? j = some c → GoodB c)
    (hlen : cs.length = 1 + (if a then 1 else 0) + (if b then 1 else 0)) :
    GoodB (.node d cs) := by
  have hser : d.isSerial = true := serial_of_kind d (by simp [Node.isLeaf, Node.isPar, hk])
  refine good_twophaseB d cs hc hser htmo hcl hgoodc (by omega) (ifElseBranch a b) ?_ ?_ ?_ ?_ ?_ ?_
  · intro d' hk'; rw [hk] at hk'; simp [serialStart, hk']
  · intro d' r hk'; rw [hk] at hk'
    unfold serialNext ifElseBranch; rw [hk']
    cases r.1 <;> cases a <;> cases b <;> simp
  · intro r
    unfold ifElseBranch
    cases r.1 <;> cases a <;> cases b <;> simp_all <;> omega
  · intro k; simp [viaLast, hk]
  · rw [eval]; simp only [hk]
    cases evalAt cs 0 with
    | none => rfl
    | some r => obtain ⟨c, w⟩ := r; unfold ifElseBranch; cases c <;> cases a <;> cases b <;> simp
  · rw [visit]; simp only [hk]
    cases evalAt cs 0 with
    | none => rfl
    | some r => obtain ⟨c, w⟩ := r; unfold ifElseBranch; cases c <;> cases a <;> cases b <;> simp

theorem good_switchB (d : Node) (cs : TL) (hd : Bool) (hk : d.kind = .switch hd) (hc : cleanNode d = true) (htmo : d.tmo = none)
    (hcl : CleanL cs = true) (hgoodc : ∀ j c, cs.get? j = some c → GoodB c) (hlen : 2 ≤ cs.length) :
    GoodB (.node d cs) := by
  have hser : d.isSerial = true := serial_of_kind d (by simp [Node.isLeaf, Node.isPar, hk])
  refine good_twophaseB d cs hc hser htmo hcl hgoodc (by omega) (switchBranch cs.length hd) ?_ ?_ ?_ ?_ ?_ ?_
  · intro d' hk'; rw [hk] at hk'; simp [serialStart, hk']
  · intro d' r hk'; rw [hk] at hk'
    unfold serialNext switchBranch; rw [hk']
    cases r.1 <;> simp
    split <;> (try split) <;> simp_all
  · intro r
    unfold switchBranch
    by_cases h1 : r.1 = true
    · simp only [h1, ↓reduceIte]
      by_cases h2 : (decide (r.2 ≥ 100) && decide (r.2 - 100 < cs.length - 1 - (if hd = true then 1 else 0))) = true
      · simp only [h2, ↓reduceIte]
        right; refine ⟨1 + (r.2 - 100), by omega, ?_, rfl⟩
        simp only [Bool.and_eq_true, decide_eq_true_eq] at h2
        have := h2.2
        cases hd <;> simp at this <;> omega
      · simp only [h2, Bool.false_eq_true, ↓reduceIte]
        cases hd
        · left; exact ⟨false, 9, by simp⟩
        · right; exact ⟨cs.length - 1, by omega, by omega, by simp⟩
    · simp only [h1, Bool.false_eq_true, ↓reduceIte]; left; exact ⟨false, 8, rfl⟩
  · intro k; simp [viaLast, hk]
  · rw [eval]; simp only [hk]
    cases evalAt cs 0 with
    | none => rfl
    | some r =>
      obtain ⟨c, w⟩ := r; unfold switchBranch
      cases c <;> simp
      split <;> (try split) <;> simp_all
  · rw [visit]; simp only [hk]
    cases evalAt cs 0 with
    | none => simp
    | some r =>
      obtain ⟨c, w⟩ := r; unfold switchBranch
      cases c <;> simp
      split <;> (try split) <;> simp_all

theorem good_ifThenB (d : Node) (cs : TL) (hk : d.kind = .ifThen) (hc : cleanNode d = true) (htmo : d.tmo = none)
    (hcl : CleanL cs = true) (hgoodc : ∀ j c, cs.get? j = some c → GoodB c) (heven : cs.length % 2 = 0) :
    GoodB (.node d cs) := by
  have hser : d.isSerial = true := serial_of_kind d (by simp [Node.isLeaf, Node.isPar, hk])
  obtain ⟨c1, c2, c3, c4, c5, c6, c7, c8, c9, c10, c11⟩ := clean_fields d hc
  refine good_serialB d cs hc hser htmo hcl hgoodc
    (fun d' nx F => d'.kind = .ifThen ∧
      ((nx = .start (2 * d'.index) [] none ∧ 2 * d'.index + 1 < cs.length ∧ ∀ k, 2 * d'.index ≤ k → k < cs.length → k ∈ F) ∨
       (nx = .start (2 * d'.index + 1) [] none ∧ 2 * d'.index + 1 < cs.length ∧ (2 * d'.index + 1) ∈ F) ∨ ∃ s w, nx = .finish s w))
    (fun _ nx => match nx with
      | .finish s w => some (s, w)
      | .start i _ _ => if i % 2 = 0 then evalIfThen (dropTL cs i) else evalAt cs i)
    (fun _ nx => match nx with
      | .finish _ _ => []
      | .start i _ _ => if i % 2 = 0 then visitIfThen (dropTL cs i) else visitAt cs i)
    ⟨?_, ?_, ?_, ?_⟩ ?_ ?_ ?_
  · intro d' s w F _; exact ⟨rfl, rfl⟩
  · intro d' j rst onFail F h
    rcases h.2 with ⟨e, hlt, hF⟩ | ⟨e, hlt, hF⟩ | ⟨s, w, e⟩
    · cases e; exact ⟨rfl, hF _ (Nat.le_refl _) (by omega)⟩
    · cases e; exact ⟨rfl, hF⟩
    · cases e
  · intro d' j onFail F c r h hget her
    have hev := evalAt_get cs j c hget
    rcases h.2 with ⟨e, hlt, hF⟩ | ⟨e, hlt, hF⟩ | ⟨s, w, e⟩
    · cases e
      have hmod : (2 * d'.index) % 2 = 0 := by omega
      obtain ⟨th, hth⟩ := get_of_lt cs (2 * d'.index + 1) hlt
      have hdrop : dropTL cs (2 * d'.index) = .cons c (.cons th (dropTL cs (2 * d'.index + 2))) := by
        rw [dropTL_get cs _ c hget, dropTL_get cs _ th hth]
      have hevt := evalAt_get cs (2 * d'.index + 1) th hth
      refine ⟨fun hv => by simp [viaLast, h.1, hmod] at hv, fun _ => ?_⟩
      by_cases hs : r.1 = true
      · have hsn : serialNext d' cs.length (2 * d'.index) r.1 r.2 = (d', .start (2 * d'.index + 1) [] none) := by
          unfold serialNext; rw [h.1]; simp [hs]
        rw [hsn]
        have hmod1 : (2 * d'.index + 1) % 2 ≠ 0 := by omega
        have hr' : eval c = some (true, r.2) := by rw [her]; obtain ⟨a, b⟩ := r; simp at hs; simp [hs]
        refine ⟨⟨h.1, Or.inr (Or.inl ⟨rfl, hlt, (List.mem_erase_of_ne (show 2 * d'.index + 1 ≠ 2 * d'.index by omega)).2 (hF _ (by omega) hlt)⟩)⟩, ?_, ?_⟩
        · simp only [hmod, ↓reduceIte, hmod1, hdrop, evalIfThen, hr', hevt.1]
        · simp only [hmod, ↓reduceIte, hmod1, hdrop, visitIfThen, hr', hevt.2]
      · have hs' : r.1 = false := by simpa using hs
        have hr' : eval c = some (false, r.2) := by rw [her]; obtain ⟨a, b⟩ := r; simp at hs'; simp [hs']
        have hsn : serialNext d' cs.length (2 * d'.index) r.1 r.2 =
            ({ d' with index := d'.index + 1 }, ifThenDoStart { d' with index := d'.index + 1 } cs.length) := by
          unfold serialNext; rw [h.1]; simp [hs']
        rw [hsn]
        by_cases hn : d'.index + 1 ≥ cs.length / 2
        · have e2 : ifThenDoStart { d' with index := d'.index + 1 } cs.length = .finish false 10 := by
            simp [ifThenDoStart, hn]
          rw [e2]
          have hd2 := dropTL_ge cs (2 * d'.index + 2) (by omega)
          refine ⟨⟨h.1, Or.inr (Or.inr ⟨_, _, rfl⟩)⟩, ?_, ?_⟩
          · simp only [hmod, ↓reduceIte, hdrop, evalIfThen, hr', hd2]
          · simp only [hmod, ↓reduceIte, hdrop, visitIfThen, hr', hd2, List.append_nil]
        · have e2 : ifThenDoStart { d' with index := d'.index + 1 } cs.length = .start (2 * (d'.index + 1)) [] none := by
            simp [ifThenDoStart, hn]
          rw [e2]
          have hmod2 : (2 * (d'.index + 1)) % 2 = 0 := by omega
          have e3 : 2 * (d'.index + 1) = 2 * d'.index + 2 := by omega
          refine ⟨⟨h.1, Or.inl ⟨rfl, by show 2 * (d'.index + 1) + 1 < cs.length; omega, fun k hk1 hk2 => by
            have hk1' : 2 * (d'.index + 1) ≤ k := hk1
            exact (List.mem_erase_of_ne (by omega)).2 (hF k (by omega) hk2)⟩⟩, ?_, ?_⟩
          · have hm3 : (2 * d'.index + 2) % 2 = 0 := by omega
            simp only [hmod, ↓reduceIte, hmod2, hdrop, evalIfThen, hr', e3, hm3]
          · have hm3 : (2 * d'.index + 2) % 2 = 0 := by omega
            simp only [hmod, ↓reduceIte, hmod2, hdrop, visitIfThen, hr', e3, hm3]
    · cases e
      have hmod1 : (2 * d'.index + 1) % 2 ≠ 0 := by omega
      refine ⟨fun _ => ⟨by simp [hmod1, hev.1, her], by simp [hmod1, hev.2]⟩, fun hv => by simp [viaLast, h.1] at hv⟩
    · cases e
  · intro d' j onFail F c h hget her
    have hev := evalAt_get cs j c hget
    rcases h.2 with ⟨e, hlt, hF⟩ | ⟨e, hlt, hF⟩ | ⟨s, w, e⟩
    · cases e
      have hmod : (2 * d'.index) % 2 = 0 := by omega
      obtain ⟨th, hth⟩ := get_of_lt cs (2 * d'.index + 1) hlt
      simp only [hmod, ↓reduceIte, dropTL_get cs _ c hget, dropTL_get cs _ th hth, evalIfThen, her]
    · cases e
      have hmod1 : (2 * d'.index + 1) % 2 ≠ 0 := by omega
      simp [hmod1, hev.1, her]
    · cases e
  · have hidx : (decNode d cs.length).index = 0 := by simp [decNode, serialStart, hk]
    refine ⟨by simp [decNode, serialStart, hk], ?_⟩
    simp only [serialStart, hk, ifThenDoStart]
    by_cases hn : 0 ≥ cs.length / 2
    · simp only [hn, ↓reduceIte]; exact Or.inr (Or.inr ⟨_, _, rfl⟩)
    · simp only [hn, ↓reduceIte]
      exact Or.inl ⟨by rw [hidx], by rw [hidx]; omega, fun k _ hk => List.mem_range.2 hk⟩
  · simp only [serialStart, hk, ifThenDoStart]
    rw [eval]; simp only [hk]
    by_cases hn : 0 ≥ cs.length / 2
    · have : cs = .nil := by
        cases cs with
        | nil => rfl
        | cons a b => cases b with
          | nil => simp [TL.length] at heven
          | cons x y => simp [TL.length] at hn; omega
      subst this; simp [TL.length, evalIfThen]
    · simp [hn, dropTL]
  · simp only [serialStart, hk, ifThenDoStart]
    rw [visit]; simp only [hk]
    by_cases hn : 0 ≥ cs.length / 2
    · have : cs = .nil := by
        cases cs with
        | nil => rfl
        | cons a b => cases b with
          | nil => simp [TL.length] at heven
          | cons x y => simp [TL.length] at hn; omega
      subst this; simp [TL.length, visitIfThen]
    · simp [hn, dropTL]

/-! ### kinds that run a child again: the generic theorem with reset lists, `B` form -/
theorem runOkB_none (R : T × G × List Op) (L : List (Nat ⊕ (Bool × Nat))) (a : List Nat) (vs vs' : List Nat)
    (h : RunOkB R (L ++ a.map Sum.inl) none vs) : RunOkB R L none vs' := by
  obtain ⟨h1, h2, h3, h4⟩ := h
  refine ⟨h1, h2, fun hf => ?_, fun hf => ⟨(h4 hf).1, fun hv => absurd rfl hv, ?_⟩⟩
  · obtain ⟨⟨r, e, _⟩, _⟩ := h3 hf
    cases e
  · obtain ⟨tr, e⟩ := (h4 hf).2.2
    exact ⟨a ++ tr, by rw [e, List.map_append, List.append_assoc]⟩


/-- carrying out a decision does not move the clock and arms no timer that is already due -/
theorem dec_factsB (cs0 : TL) (KI : Node → Next → List Nat → Prop) (val : Node → Next → Option (Bool × Nat))
    (vis : Node → Next → List Nat) (need : Node → Next → Nat) (hK : KSpecR cs0 KI val vis need)
    (hG : ∀ j c0, cs0.get? j = some c0 → ∀ c, sk c = sk c0 → Clean c = true → GoodB c)
    (d : Node) (cs : TL) (g : G) (nx : Next) (F : List Nat) (hdp : DP cs0 d cs F g) (hki : KI d nx F) :
    (applyNext d cs g nx).2.2.now = g.now ∧
    (∀ x ∈ allTimers (.node (applyNext d cs g nx).1 (applyNext d cs g nx).2.1) [], g.now < x.1) := by
  cases nx with
  | finish s w =>
    have hd := hdp.dps
    have hne : d.st ≠ .finished ∧ d.st ≠ .stoped := by simp [hd.st]
    simp only [applyNext]
    rw [finish3_nocurr d cs g s w hdp.gi.1 hd.ser hne hd.curr]
    have := (inert_all_tasks (finNode d g s w) cs hd.inert (by simp [finNode, hd.slp]) (by simp [finNode])).2
    refine ⟨rfl, ?_⟩
    simp only
    rw [this]; intro x hx; cases hx
  | start j rst onFail =>
    obtain ⟨hj, hjlt, hnvl⟩ := hK.kstart d j rst onFail F hki
    obtain ⟨hdp1, hnow1, htr1⟩ := dp_resets cs0 d cs F g rst hdp
    rw [applyNext_resets]
    generalize (rst.foldl (fun (p : TL × G) j => resetAt p.1 j p.2) (cs, g)) = R0 at hdp1 hnow1 htr1 ⊢
    obtain ⟨cs1, g1⟩ := R0
    simp only at hdp1 hnow1 htr1 ⊢
    have hlen1 : cs1.length = cs0.length := by rw [← skL_length cs1, hdp1.skl, skL_length]
    obtain ⟨c0, hget0⟩ := get_of_lt cs0 j hjlt
    obtain ⟨c, hget⟩ := get_of_lt cs1 j (by omega)
    have hskc : sk c = sk c0 := sk_of_skL cs1 cs0 hdp1.skl j c c0 hget hget0
    have hgood := hG j c0 hget0 c hskc (hdp1.clean j hj c hget)
    obtain ⟨ok, hg0, hnow, _, htim, _⟩ := hgood g1 hdp1.gi
    rw [applyNext_start d cs1 g1 j onFail c hget ok]
    refine ⟨by rw [← hnow1]; exact hnow, ?_⟩
    rw [← hnow1]
    exact timers_embed_notdue (ctx_of_dps d cs1 j c _ hdp1.dps hget) g1.now htim


/-- **the generic serial-composite theorem with reset lists over `GoodB` children** (the safety half of `genR`) -/
theorem genRB (cs0 : TL) (KI : Node → Next → List Nat → Prop) (val : Node → Next → Option (Bool × Nat))
    (vis : Node → Next → List Nat) (need : Node → Next → Nat) (hK : KSpecR cs0 KI val vis need)
    (hG : ∀ j c0, cs0.get? j = some c0 → ∀ c, sk c = sk c0 → Clean c = true → GoodB c) :
    ∀ (n : Nat) (ops : List Op), ops.length < n → ∀ (d : Node) (cs : TL) (g : G) (nx : Next) (F : List Nat),
      ops.all cfOp = true → DP cs0 d cs F g → KI d nx F →
      RunOkB (runU (.node (applyNext d cs g nx).1 (applyNext d cs g nx).2.1) (applyNext d cs g nx).2.2 ops)
        (trOf g.log) (val d nx) (vis d nx) := by
  intro n
  induction n with
  | zero => intro ops hlen; omega
  | succ n ih =>
    intro ops hlen d cs g nx F hcf hdp hki
    cases nx with
    | finish s w =>
      have hd := hdp.dps
      have hg := hdp.gi
      have hne : d.st ≠ .finished ∧ d.st ≠ .stoped := by simp [hd.st]
      simp only [applyNext]
      rw [finish3_nocurr d cs g s w hg.1 hd.ser hne hd.curr]
      have hdn := done_of_finish d cs g s w hd
      have hv := hK.kfin d s w F hki
      rw [runU_hasFin _ _ ops hdn.2]
      refine ⟨⟨⟨hg.1.1, by have := hg.1.2; simp only [G.emit]; omega⟩, hg.2⟩, ?_, ?_, ?_⟩
      · left; right; obtain ⟨⟨id, e⟩, _, _⟩ := hdn.1; exact ⟨id, [], s, w, e⟩
      · intro _; exact ⟨⟨(s, w), hv.1, hdn.1⟩, by simp only [G.emit]; rw [trOf_cons_other _ _ (by intro n; simp) (by intro a b c; simp), hv.2]; simp⟩
      · intro hf; rw [hdn.2] at hf; cases hf
    | start j rst onFail =>
      obtain ⟨hj, hjlt, hnvl⟩ := hK.kstart d j rst onFail F hki
      obtain ⟨hdp1, hnow1, htr1⟩ := dp_resets cs0 d cs F g rst hdp
      rw [applyNext_resets, ← htr1]
      generalize (rst.foldl (fun (p : TL × G) j => resetAt p.1 j p.2) (cs, g)) = R0 at hdp1 hnow1 htr1 ⊢
      obtain ⟨cs1, g1⟩ := R0
      simp only at hdp1 hnow1 htr1 ⊢
      have hlen1 : cs1.length = cs0.length := by rw [← skL_length cs1, hdp1.skl, skL_length]
      obtain ⟨c0, hget0⟩ := get_of_lt cs0 j hjlt
      obtain ⟨c, hget⟩ := get_of_lt cs1 j (by omega)
      have hskc : sk c = sk c0 := sk_of_skL cs1 cs0 hdp1.skl j c c0 hget hget0
      have hgood := hG j c0 hget0 c hskc (hdp1.clean j hj c hget)
      obtain ⟨hev, hvi⟩ := eval_of_sk c0 c hskc
      have hd := hdp1.dps
      have hg := hdp1.gi
      obtain ⟨ok, hg0, hnow, _, htim, hrun⟩ := hgood g1 hg
      rw [applyNext_start d cs1 g1 j onFail c hget ok]
      have hctx := ctx_of_dps d cs1 j c (start c g1).1 hd hget
      have hway : OnWayB (start c g1).1 (start c g1).2.1 := fun ops' hc' => ⟨(hrun ops' hc').2.1, (hrun ops' hc').1.2⟩
      rw [runU_embedB ops _ _ j _ _ hctx hcf hway]
      have hwc := start_wf c g1 (get_wf cs1 j c hdp1.wf hget) hg.1
      have hws := runU_wf_sk ops (start c g1).1 (start c g1).2.1 hwc.1 hwc.2.1
      rw [start_sk] at hws
      have rc := hrun ops hcf
      generalize hR : runU (start c g1).1 (start c g1).2.1 ops = R at rc hws ⊢
      obtain ⟨c', g', rest⟩ := R
      obtain ⟨a1, a2, a3, a4⟩ := rc
      simp only at a1 a2 a3 a4 hws ⊢
      have hctx' : Ctx { d with curr := some j } (setChild (setChild cs1 j (start c g1).1) j c') j c' := ctx_setChild hctx c'
      rw [setChild_setChild] at hctx' ⊢
      have hPnf : hasFin (.node { d with curr := some j } (setChild cs1 j c')) = false := hasFin_of_no_tasks _ _ hd.tasks
      have hvis : val d (.start j rst onFail) ≠ none → visit c <+: vis d (.start j rst onFail) := by
        intro hv
        have hec : eval c0 ≠ none := fun e => hv (hK.kdiv d j rst onFail F c0 hki hget0 e)
        obtain ⟨r, her⟩ := Option.ne_none_iff_exists'.1 hec
        rw [((hK.kstep d j rst onFail F c0 r hki hget0 her).2.2 hv).1, hvi]; exact List.prefix_append _ _
      have hwait : RunOkB (.node { d with curr := some j } (setChild cs1 j c'), g', []) (trOf g1.log)
          (val d (.start j rst onFail)) (vis d (.start j rst onFail)) :=
        wait_okB hctx' g' _ _ _ (visit c) a1 a2 (fun hf => (a3 hf).2)
          (fun hf hv => (a4 hf).2.1 (fun e => hv (hK.kdiv d j rst onFail F c0 hki hget0 (by rw [← hev]; exact e)))) (fun hf => (a4 hf).2.2) hvis
      have hrr := runU_rest ops (start c g1).1 (start c g1).2.1
      rw [hR] at hrr
      simp only at hrr
      cases rest with
      | nil => simpa [runU] using hwait
      | cons op rest' =>
        have hcf' : hasFin c' = true := by
          cases hh : hasFin c' with
          | true => rfl
          | false => have := (a4 hh).1; cases this
        obtain ⟨⟨r, her, ⟨id, ht⟩, htm, hcst⟩, hfn⟩ := a3 hcf'
        rw [hev] at her
        have hopcf : cfOp op = true ∧ rest'.all cfOp = true := by
          have := hrr.2 hcf; simpa using this
        have e1 : runU (.node { d with curr := some j } (setChild cs1 j c')) g' (op :: rest') =
            runU (step (.node { d with curr := some j } (setChild cs1 j c')) g' op).1
                 (step (.node { d with curr := some j } (setChild cs1 j c')) g' op).2.1 rest' := by
          simp [runU, hPnf]
        rw [e1, step_done hctx' (by rw [← hd.ser]; exact isSerial_congr d _ rfl) g' a1.2 op hopcf.1 id r ht]
        have hinert := popChild_done (setChild cs1 j c') j id c' r hctx'.get ht htm hctx'.others
        have hdpp : DPS d (popChild (setChild cs1 j c') j id) :=
          ⟨hd.st, hd.curr, hd.tasks, hd.tmoAt, hd.slp, hd.tmo, hd.ser, hd.fin0, hinert⟩
        have hlenp : (popChild (setChild cs1 j c') j id).length = cs0.length := by
          rw [length_popChild, length_setChild]; exact hlen1
        have hg1 : GIu (advG g' op) := advG_GIu g' op a1
        have hso : serialOnChild { d with curr := some j } (popChild (setChild cs1 j c') j id) (advG g' op) j r.1 r.2 =
            applyNext (serialNext d cs0.length j r.1 r.2).1 (popChild (setChild cs1 j c') j id) (advG g' op)
                   (serialNext d cs0.length j r.1 r.2).2 := by
          unfold serialOnChild
          have e : ({ ({ d with curr := some j } : Node) with curr := none } : Node) = d := curr_roundtrip d j hd.curr
          have c1 : (d.st == St.running) = true := by simp [hd.st]
          simp only [e, c1, ↓reduceIte, hlenp, hnvl, Bool.false_eq_true]
        rw [hso]
        obtain ⟨k1, k2, k34⟩ := hK.kstep d j rst onFail F c0 r hki hget0 her
        have hdp' : DP cs0 (serialNext d cs0.length j r.1 r.2).1 (popChild (setChild cs1 j c') j id) ((rst ++ F).filter (· != j)) (advG g' op) := by
          refine ⟨dps_serialNext d _ cs0.length j r.1 r.2 hdpp, ?_, (popChild_spec _ j id (wfL_setChild cs1 j c' hdp1.wf hws.1)).1, ?_, hg1⟩
          · rw [popChild_sk, skL_setChild cs1 j c c' hget hws.2]; exact hdp1.skl
          · intro k hk c2 hc2
            simp only [List.mem_filter, bne_iff_ne, ne_eq] at hk
            rw [get_popChild_ne _ _ _ _ hk.2, get_setChild_ne _ _ _ _ hk.2] at hc2
            exact hdp1.clean k hk.1 c2 hc2
        have hfacts := dec_factsB cs0 KI val vis need hK hG _ _ _ _ _ hdp' k1
        rw [fireTimers_notdue _ _ (by rw [hfacts.1]; exact hfacts.2)]
        have hlen' : rest'.length < n := by
          have := hrr.1; simp only [List.length_cons] at this hlen; omega
        have ihr := ih rest' hlen' _ _ (advG g' op) _ _ hopcf.2 hdp' k1
        by_cases hv : val d (.start j rst onFail) = none
        · rw [hv]
          have hvn := ihr
          rw [← k2, hv, advG_log, hfn] at hvn
          exact runOkB_none _ _ _ _ _ hvn
        · obtain ⟨k3, _⟩ := k34 hv
          have hvn := ihr
          rw [advG_log, hfn, hvi] at hvn
          rw [k2, k3]
          exact runOkB_shift _ _ _ _ _ hvn

/-- from the kind's specification to the behaviour of the freshly built composite (children may be run again) -/
theorem good_serialRB (d : Node) (cs : TL) (hc : cleanNode d = true) (hser : d.isSerial = true) (htmo : d.tmo = none)
    (hcl : CleanL cs = true) (hwf : WFL cs = true)
    (hG : ∀ j c0, cs.get? j = some c0 → ∀ c, sk c = sk c0 → Clean c = true → GoodB c)
    (KI : Node → Next → List Nat → Prop) (val : Node → Next → Option (Bool × Nat)) (vis : Node → Next → List Nat)
    (need : Node → Next → Nat) (hK : KSpecR cs KI val vis need)
    (hki : KI (decNode d cs.length) (serialStart {} d cs.length).2 (List.range cs.length))
    (hrst : ∀ j rst onFail, (serialStart {} d cs.length).2 = .start j rst onFail → rst = [])
    (hval : val (decNode d cs.length) (serialStart {} d cs.length).2 = eval (.node d cs))
    (hvis : vis (decNode d cs.length) (serialStart {} d cs.length).2 = visit (.node d cs)) :
    GoodB (.node d cs) := by
  have hd := dps_decNode d cs hc hser htmo hcl
  have hdp : ∀ g, GIu g → DP cs (decNode d cs.length) cs (List.range cs.length) g := fun g hg =>
    ⟨hd, rfl, hwf, fun j _ c h => cleanL_get cs j c hcl h, hg⟩
  have hnx : ∀ g, GIu g → ∀ j rst onFail, (serialStart {} d cs.length).2 = .start j rst onFail →
      rst = [] ∧ ∃ c, cs.get? j = some c ∧ (start c g).2.2 = true := by
    intro g hg j rst onFail e
    have hr := hrst j rst onFail e
    rw [e] at hki
    obtain ⟨_, hjlt, _⟩ := hK.kstart _ j rst onFail _ hki
    obtain ⟨c, hcget⟩ := get_of_lt cs j hjlt
    exact ⟨hr, c, hcget, ((hG j c hcget c rfl (cleanL_get cs j c hcl hcget)) g hg).1⟩
  intro g hg
  rw [start_serial d cs g hc hser htmo hg.1 (hnx g hg)]
  have hgen := fun ops hcf => genRB cs KI val vis need hK hG
    (List.length ops + 1) ops (Nat.lt_succ_self _) (decNode d cs.length) cs g
    (serialStart {} d cs.length).2 (List.range cs.length) hcf (hdp g hg) hki
  have hf := dec_factsB cs KI val vis need hK hG _ _ _ _ _ (hdp g hg) hki
  refine ⟨rfl, ?_, hf.1, trivial, hf.2, ?_⟩
  · have := (hgen [] (by simp)).1; simpa [runU] using this
  · intro ops hcf
    have := hgen ops hcf
    rw [hval, hvis] at this
    exact this

/-! ### LoopAction, LoopIfAction, RepeatAction over `GoodB` children (the kind specifications of Loops.lean) -/

theorem good_loopB (d : Node) (cs : TL) (m : LoopMode) (hk : d.kind = .loop m) (hc : cleanNode d = true) (htmo : d.tmo = none)
    (hcl : CleanL cs = true) (hwf : WFL cs = true)
    (hG : ∀ j c0, cs.get? j = some c0 → ∀ c, sk c = sk c0 → Clean c = true → GoodB c) (hlen : cs.length = 1) :
    GoodB (.node d cs) := by
  have hser : d.isSerial = true := serial_of_kind d (by simp [Node.isLeaf, Node.isPar, hk])
  have hev : eval (.node d cs) = match evalAt cs 0 with
      | none => none
      | some (s, w) => if loopEnds m s then some (s, w) else none := by rw [eval]; simp only [hk, loopEnds]; rfl
  refine good_serialRB d cs hc hser htmo hcl hwf hG
    (fun d' nx F => d'.kind = .loop m ∧ ((∃ rst, nx = .start 0 rst none ∧ 0 ∈ rst ++ F) ∨ ∃ s w, nx = .finish s w))
    (fun _ nx => match nx with | .finish s w => some (s, w) | .start _ _ _ => eval (.node d cs))
    (fun _ nx => match nx with | .finish _ _ => [] | .start _ _ _ => visitAt cs 0)
    (fun _ nx => match nx with | .finish _ _ => 0 | .start _ _ _ => costAt cs 0 + 1)
    ⟨?_, ?_, ?_, ?_⟩ ?_ ?_ ?_ ?_
  · intro d' s w F _; exact ⟨rfl, rfl⟩
  · intro d' j rst onFail F h
    rcases h.2 with ⟨rst', e, h0⟩ | ⟨s, w, e⟩
    · cases e; exact ⟨h0, by omega, by simp [viaLast, h.1]⟩
    · cases e
  · intro d' j rst onFail F c r h hget her
    rcases h.2 with ⟨rst', e, h0⟩ | ⟨s, w, e⟩
    · cases e
      have hev0 := (evalAt_get cs 0 c hget)
      by_cases hend : loopEnds m r.1 = true
      · have hsn : serialNext d' cs.length 0 r.1 r.2 = (d', .finish r.1 r.2) := by
          unfold serialNext; rw [h.1]; simp only [loopEnds] at hend; simp [hend]
        rw [hsn]
        refine ⟨⟨h.1, Or.inr ⟨_, _, rfl⟩⟩, ?_, fun _ => ⟨?_, ?_⟩⟩
        · simp only; rw [hev, hev0.1, her]; simp [hend]
        · simp [hev0.2]
        · simp [costAt, hget]
      · have hend' : loopEnds m r.1 = false := by simpa using hend
        have hsn : serialNext d' cs.length 0 r.1 r.2 = (d', .start 0 [0] none) := by
          unfold serialNext; rw [h.1]; simp only [loopEnds] at hend'; simp [hend']
        rw [hsn]
        refine ⟨⟨h.1, Or.inl ⟨[0], rfl, by simp⟩⟩, rfl, fun hv => ?_⟩
        exfalso; apply hv
        simp only; rw [hev, hev0.1, her]; simp [hend']
    · cases e
  · intro d' j rst onFail F c h hget her
    rcases h.2 with ⟨rst', e, h0⟩ | ⟨s, w, e⟩
    · cases e; simp only; rw [hev, (evalAt_get cs 0 c hget).1, her]
    · cases e
  · refine ⟨by simp [decNode, serialStart, hk], Or.inl ⟨[], by simp [serialStart, hk], List.mem_range.2 (by omega)⟩⟩
  · intro j rst onFail e; simp [serialStart, hk] at e; exact e.2.1
  · simp only [serialStart, hk]
  · simp only [serialStart, hk]; rw [visit]; simp only [hk]


theorem good_loopIfB (d : Node) (cs : TL) (fr : Bool) (hk : d.kind = .loopIf fr) (hc : cleanNode d = true) (htmo : d.tmo = none)
    (hcl : CleanL cs = true) (hwf : WFL cs = true)
    (hG : ∀ j c0, cs.get? j = some c0 → ∀ c, sk c = sk c0 → Clean c = true → GoodB c) (hlen : cs.length = 2) :
    GoodB (.node d cs) := by
  have hser : d.isSerial = true := serial_of_kind d (by simp [Node.isLeaf, Node.isPar, hk])
  have hev : eval (.node d cs) = match evalAt cs 0 with
      | some (false, w) => some (fr, w)
      | _ => none := by rw [eval]; simp only [hk]; rfl
  refine good_serialRB d cs hc hser htmo hcl hwf hG
    (fun d' nx F => d'.kind = .loopIf fr ∧
      ((∃ rst onFail, nx = .start 0 rst onFail ∧ 0 ∈ rst ++ F ∧ 1 ∈ rst ++ F) ∨
       (nx = .start 1 [] none ∧ 1 ∈ F ∧ ∃ w, evalAt cs 0 = some (true, w)) ∨ ∃ s w, nx = .finish s w))
    (fun _ nx => match nx with | .finish s w => some (s, w) | .start _ _ _ => eval (.node d cs))
    (fun _ nx => match nx with | .finish _ _ => [] | .start _ _ _ => visitAt cs 0)
    (fun _ nx => match nx with | .finish _ _ => 0 | .start _ _ _ => costAt cs 0 + 1)
    ⟨?_, ?_, ?_, ?_⟩ ?_ ?_ ?_ ?_
  · intro d' s w F _; exact ⟨rfl, rfl⟩
  · intro d' j rst onFail F h
    rcases h.2 with ⟨rst', onFail', e, h0, h1⟩ | ⟨e, h1, _⟩ | ⟨s, w, e⟩
    · cases e; exact ⟨h0, by omega, by simp [viaLast, h.1]⟩
    · cases e; exact ⟨by simpa using h1, by omega, by simp [viaLast, h.1]⟩
    · cases e
  · intro d' j rst onFail F c r h hget her
    rcases h.2 with ⟨rst', onFail', e, h0, h1⟩ | ⟨e, h1, w0, hw0⟩ | ⟨s, w, e⟩
    · cases e
      have hev0 := (evalAt_get cs 0 c hget)
      obtain ⟨r1, r2⟩ := r
      cases r1 with
      | true =>
        have hsn : serialNext d' cs.length 0 true r2 = (d', .start 1 [] none) := by
          unfold serialNext; rw [h.1]; simp
        rw [hsn]
        refine ⟨⟨h.1, Or.inr (Or.inl ⟨rfl, ?_, r2, by rw [hev0.1, her]⟩)⟩, rfl, fun hv => ?_⟩
        · simp only [List.mem_filter, bne_iff_ne, ne_eq]; exact ⟨h1, by omega⟩
        · exfalso; apply hv; simp only; rw [hev, hev0.1, her]
      | false =>
        have hsn : serialNext d' cs.length 0 false r2 = (d', .finish fr r2) := by
          unfold serialNext; rw [h.1]; simp
        rw [hsn]
        refine ⟨⟨h.1, Or.inr (Or.inr ⟨_, _, rfl⟩)⟩, ?_, fun _ => ⟨?_, ?_⟩⟩
        · simp only; rw [hev, hev0.1, her]
        · simp [hev0.2]
        · simp [costAt, hget]
    · cases e
      have hsn : serialNext d' cs.length 1 r.1 r.2 = (d', .start 0 [0, 1] (some (fr, r.2))) := by
        unfold serialNext; rw [h.1]; simp
      rw [hsn]
      refine ⟨⟨h.1, Or.inl ⟨[0, 1], _, rfl, by simp, by simp⟩⟩, rfl, fun hv => ?_⟩
      exfalso; apply hv; simp only; rw [hev, hw0]
    · cases e
  · intro d' j rst onFail F c h hget her
    rcases h.2 with ⟨rst', onFail', e, h0, h1⟩ | ⟨e, h1, w0, hw0⟩ | ⟨s, w, e⟩
    · cases e; simp only; rw [hev, (evalAt_get cs 0 c hget).1, her]
    · cases e; simp only; rw [hev, hw0]
    · cases e
  · refine ⟨by simp [decNode, serialStart, hk], Or.inl ⟨[], none, by simp [serialStart, hk], List.mem_range.2 (by omega), List.mem_range.2 (by omega)⟩⟩
  · intro j rst onFail e; simp [serialStart, hk] at e; exact e.2.1
  · simp only [serialStart, hk]
  · simp only [serialStart, hk]; rw [visit]; simp only [hk]


theorem good_repeatB (d : Node) (cs : TL) (n : Nat) (m : RepMode) (hk : d.kind = .repeat_ n m) (hc : cleanNode d = true) (htmo : d.tmo = none)
    (hcl : CleanL cs = true) (hwf : WFL cs = true)
    (hG : ∀ j c0, cs.get? j = some c0 → ∀ c, sk c = sk c0 → Clean c = true → GoodB c) (hlen : cs.length = 1) (hn : 1 ≤ n) :
    GoodB (.node d cs) := by
  have hser : d.isSerial = true := serial_of_kind d (by simp [Node.isLeaf, Node.isPar, hk])
  have hn0 : (n == 0) = false := by simp; omega
  have hev : eval (.node d cs) = match evalAt cs 0 with
      | none => none
      | some (s, w) => if repBreak m s then some (s, w) else some (true, 7) := by
    rw [eval]; simp only [hk, repBreak, hn0, Bool.false_eq_true, ↓reduceIte]; rfl
  refine good_serialRB d cs hc hser htmo hcl hwf hG
    (fun d' nx F => d'.kind = .repeat_ n m ∧ ((∃ rst, nx = .start 0 rst none ∧ 0 ∈ rst ++ F) ∨ ∃ s w, nx = .finish s w))
    (fun _ nx => match nx with | .finish s w => some (s, w) | .start _ _ _ => eval (.node d cs))
    (fun d' nx => match nx with
      | .finish _ _ => []
      | .start _ _ _ => match evalAt cs 0 with
        | none => visitAt cs 0
        | some (s, _) => if repBreak m s then visitAt cs 0 else (List.replicate (d'.remainTimes + 1) (visitAt cs 0)).flatten)
    (fun d' nx => match nx with | .finish _ _ => 0 | .start _ _ _ => (d'.remainTimes + 1) * (costAt cs 0 + 1))
    ⟨?_, ?_, ?_, ?_⟩ ?_ ?_ ?_ ?_
  · intro d' s w F _; exact ⟨rfl, rfl⟩
  · intro d' j rst onFail F h
    rcases h.2 with ⟨rst', e, h0⟩ | ⟨s, w, e⟩
    · cases e; exact ⟨h0, by omega, by simp [viaLast, h.1]⟩
    · cases e
  · intro d' j rst onFail F c r h hget her
    rcases h.2 with ⟨rst', e, h0⟩ | ⟨s, w, e⟩
    · cases e
      have hev0 := (evalAt_get cs 0 c hget)
      have hca : costAt cs 0 = cost c := by simp [costAt, hget]
      by_cases hb : repBreak m r.1 = true
      · have hsn : serialNext d' cs.length 0 r.1 r.2 = (d', .finish r.1 r.2) := by
          unfold serialNext; rw [h.1]; simp only [repBreak] at hb; simp [hb]
        rw [hsn]
        refine ⟨⟨h.1, Or.inr ⟨_, _, rfl⟩⟩, ?_, fun _ => ⟨?_, ?_⟩⟩
        · simp only; rw [hev, hev0.1, her]; simp [hb]
        · simp only; rw [hev0.1, her]; simp [hb, hev0.2]
        · simp only [hca, Nat.add_zero]
          have := Nat.le_mul_of_pos_left (cost c + 1) (Nat.succ_pos d'.remainTimes); omega
      · have hb' : repBreak m r.1 = false := by simpa using hb
        by_cases hrem : d'.remainTimes > 0
        · have hsn : serialNext d' cs.length 0 r.1 r.2 = ({ d' with remainTimes := d'.remainTimes - 1 }, .start 0 [0] none) := by
            unfold serialNext; rw [h.1]; simp only [repBreak] at hb'; simp [hb', hrem]
          rw [hsn]
          refine ⟨⟨h.1, Or.inl ⟨[0], rfl, by simp⟩⟩, rfl, fun _ => ⟨?_, ?_⟩⟩
          · simp only; rw [hev0.1, her]; simp only [hb', Bool.false_eq_true, ↓reduceIte]
            have e : d'.remainTimes - 1 + 1 = d'.remainTimes := by omega
            rw [e, flatten_replicate_succ, hev0.2]
          · simp only [hca]
            have e : d'.remainTimes - 1 + 1 = d'.remainTimes := by omega
            rw [e, Nat.succ_mul]; omega
        · have hsn : serialNext d' cs.length 0 r.1 r.2 = (d', .finish true 7) := by
            unfold serialNext; rw [h.1]; simp only [repBreak] at hb'; simp [hb', hrem]
          rw [hsn]
          refine ⟨⟨h.1, Or.inr ⟨_, _, rfl⟩⟩, ?_, fun _ => ⟨?_, ?_⟩⟩
          · simp only; rw [hev, hev0.1, her]; simp [hb']
          · simp only; rw [hev0.1, her]; simp only [hb', Bool.false_eq_true, ↓reduceIte]
            have e : d'.remainTimes = 0 := by omega
            rw [e]; simp [hev0.2]
          · simp only [hca, Nat.add_zero]
            have := Nat.le_mul_of_pos_left (cost c + 1) (Nat.succ_pos d'.remainTimes); omega
    · cases e
  · intro d' j rst onFail F c h hget her
    rcases h.2 with ⟨rst', e, h0⟩ | ⟨s, w, e⟩
    · cases e; simp only; rw [hev, (evalAt_get cs 0 c hget).1, her]
    · cases e
  · refine ⟨by simp [decNode, serialStart, hk], Or.inl ⟨[], by simp [serialStart, hk], List.mem_range.2 (by omega)⟩⟩
  · intro j rst onFail e; simp [serialStart, hk] at e; exact e.2.1
  · simp only [serialStart, hk]
  · have hrt : (decNode d cs.length).remainTimes = n - 1 := by simp [decNode, serialStart, hk, hn0]
    simp only [serialStart, hk, hrt]
    rw [visit]; simp only [hk, repBreak]
    have e : n - 1 + 1 = n := by omega
    rw [e]; rfl

end Tbox.C17
