/-
C17 — OPEN M3, stage (i), part 5: ONE theorem over a decidable class of trees.  `SerParOk t`: the serial class `SerOk` of the
whole-tree theorem (Sim7) in which any leaf position may hold a ParallelAction (any mode, any number of children) over
FunctionAction / SleepAction(≥ 1 ms) leaves.  `goodB_all`: every clean tree of the class is `GoodB` — structural induction by
size as `both_size`, with the `B` copies of all nine serial composite kinds (ParChild3 / ParChild4) and `goodB_par_leaves` as one
more base case.  The kinds that run a child again (Loop, LoopIf, Repeat) need the statement for every clean tree with the child's
skeleton: the class is closed under `sk`.
-/
import TboxModel.C17.ParChild4
namespace Tbox.C17
set_option linter.unusedSimpArgs false
set_option linter.unusedVariables false

/-- a child the ParallelAction of the class may have: FunctionAction / SleepAction(≥ 1 ms), no timeout, no children -/
def parLeaf : T → Bool
  | .node x .nil => x.tmo.isNone && (match x.kind with | .func _ _ => true | .sleep ms => decide (1 ≤ ms) | _ => false)
  | .node _ (.cons _ _) => false

def parLeafL : TL → Bool
  | .nil => true
  | .cons t ts => parLeaf t && parLeafL ts

def isParKind (d : Node) : Bool := match d.kind with | .par _ => true | _ => false

mutual
/-- the serial class of Sim7 (`kindOk`: leaves and the nine serial composite kinds with their arities, no timeouts) with
ParallelAction-over-leaves nodes allowed wherever a leaf may stand -/
def SerParOk : T → Bool
  | .node d cs => d.tmo.isNone && ((kindOk d cs.length && SerParOkL cs) || (isParKind d && parLeafL cs))
def SerParOkL : TL → Bool
  | .nil => true
  | .cons t ts => SerParOk t && SerParOkL ts
end

theorem parLeaf_sk : ∀ (t : T), parLeaf (sk t) = parLeaf t
  | .node x .nil => by simp only [sk, skL, parLeaf]; rfl
  | .node x (.cons a b) => by simp only [sk, skL, parLeaf]

theorem parLeafL_sk : ∀ (cs : TL), parLeafL (skL cs) = parLeafL cs
  | .nil => rfl
  | .cons t ts => by simp only [skL, parLeafL, parLeaf_sk t, parLeafL_sk ts]

mutual
theorem serParOk_sk : ∀ (t : T), SerParOk (sk t) = SerParOk t
  | .node d cs => by
    have h1 : (skN d).tmo = d.tmo := rfl
    have h2 : kindOk (skN d) = kindOk d := rfl
    have h3 : isParKind (skN d) = isParKind d := rfl
    simp only [sk, SerParOk, h1, h2, h3, skL_length, serParOkL_sk cs, parLeafL_sk cs]
theorem serParOkL_sk : ∀ (cs : TL), SerParOkL (skL cs) = SerParOkL cs
  | .nil => rfl
  | .cons t ts => by simp only [skL, SerParOkL, serParOk_sk t, serParOkL_sk ts]
end

theorem serParOkL_get : ∀ (cs : TL) (j : Nat) (c : T), SerParOkL cs = true → cs.get? j = some c → SerParOk c = true
  | .nil, _, _, _, h => by simp [TL.get?] at h
  | .cons t ts, 0, c, hs, h => by
    simp only [SerParOkL, Bool.and_eq_true] at hs; simp only [TL.get?, Option.some.injEq] at h; subst h; exact hs.1
  | .cons t ts, j + 1, c, hs, h => by
    simp only [SerParOkL, Bool.and_eq_true] at hs; simp only [TL.get?] at h; exact serParOkL_get ts j c hs.2 h

theorem parLeaf_leafShape : ∀ (t : T), parLeaf t = true → LeafShape t = true
  | .node x .nil, _ => by simp [LeafShape, LeafShapeL, TL.length]
  | .node x (.cons a b), h => by simp [parLeaf] at h

theorem parLeafL_leafShape : ∀ (cs : TL), parLeafL cs = true → LeafShapeL cs = true
  | .nil, _ => rfl
  | .cons t ts, h => by
    simp only [parLeafL, Bool.and_eq_true] at h
    simp only [LeafShapeL, Bool.and_eq_true]
    exact ⟨parLeaf_leafShape t h.1, parLeafL_leafShape ts h.2⟩

theorem isParKind_notLeaf (d : Node) (h : isParKind d = true) : d.isLeaf = false := by
  unfold isParKind at h
  cases hk : d.kind <;> simp [hk, Node.isLeaf] at h ⊢

mutual
theorem serParOk_leafShape : ∀ (t : T), SerParOk t = true → LeafShape t = true
  | .node d cs, h => by
    simp only [SerParOk, Bool.and_eq_true, Bool.or_eq_true] at h
    simp only [LeafShape, Bool.and_eq_true, Bool.or_eq_true, Bool.not_eq_true', beq_iff_eq]
    rcases h.2 with ⟨hk, hl⟩ | ⟨hp, hl⟩
    · refine ⟨?_, serParOkL_leafShape cs hl⟩
      unfold kindOk at hk
      cases hkd : d.kind <;> simp [hkd, Node.isLeaf] at hk ⊢ <;> first | exact hk | exact hk.1
    · exact ⟨Or.inl (isParKind_notLeaf d hp), parLeafL_leafShape cs hl⟩
theorem serParOkL_leafShape : ∀ (cs : TL), SerParOkL cs = true → LeafShapeL cs = true
  | .nil, _ => rfl
  | .cons t ts, h => by
    simp only [SerParOkL, Bool.and_eq_true] at h
    simp only [LeafShapeL, Bool.and_eq_true]
    exact ⟨serParOk_leafShape t h.1, serParOkL_leafShape ts h.2⟩
end

/-- the nodes of a list of childless children -/
def toNodes : TL → List Node
  | .nil => []
  | .cons (.node x _) ts => x :: toNodes ts

theorem parLeafL_ofList : ∀ (cs : TL), parLeafL cs = true → CleanL cs = true →
    cs = ofList (toNodes cs) ∧ (∀ x ∈ toNodes cs, leafOkB x = true) ∧ (∀ x ∈ toNodes cs, sleepPos x = true)
  | .nil, _, _ => ⟨rfl, by simp [toNodes], by simp [toNodes]⟩
  | .cons (.node x (.cons a b)) ts, h, _ => by simp [parLeafL, parLeaf] at h
  | .cons (.node x .nil) ts, h, hc => by
    simp only [parLeafL, parLeaf, Bool.and_eq_true] at h
    simp only [CleanL, Clean, Bool.and_eq_true] at hc
    obtain ⟨e, h1, h2⟩ := parLeafL_ofList ts h.2 hc.2
    refine ⟨by simp only [toNodes, ofList]; rw [← e], ?_, ?_⟩
    · intro y hy
      simp only [toNodes, List.mem_cons] at hy
      rcases hy with rfl | hy
      · simp only [leafOkB, Bool.and_eq_true]
        refine ⟨⟨hc.1.1, h.1.1⟩, ?_⟩
        have := h.1.2
        cases hk : y.kind <;> simp [hk] at this ⊢
      · exact h1 y hy
    · intro y hy
      simp only [toNodes, List.mem_cons] at hy
      rcases hy with rfl | hy
      · have := h.1.2
        unfold sleepPos
        cases hk : y.kind <;> simp [hk] at this ⊢
        exact this
      · exact h2 y hy

/-- a clean ParallelAction node of the class is a `ParLeafTree` (ParChild3) -/
theorem parLeafTree_of (d : Node) (cs : TL) (hp : isParKind d = true) (htmo : d.tmo = none) (hl : parLeafL cs = true)
    (hc : Clean (.node d cs) = true) : ParLeafTree (.node d cs) := by
  simp only [Clean, Bool.and_eq_true] at hc
  obtain ⟨e, h1, h2⟩ := parLeafL_ofList cs hl hc.2
  unfold isParKind at hp
  cases hk : d.kind with
  | par m => exact ⟨d, toNodes cs, m, by rw [← e], hk, htmo, hc.1, h1, h2⟩
  | _ => simp [hk] at hp

/-- **structural induction over the tree, by size**: every clean tree of the class behaves as its parent needs (`GoodB`) -/
theorem goodB_size : ∀ (n : Nat) (t : T), size t ≤ n → SerParOk t = true → Clean t = true → GoodB t := by
  intro n
  induction n with
  | zero => intro t h; cases t; simp only [size] at h; omega
  | succ n ih =>
    intro t hsz hs hc0
    obtain ⟨d, cs⟩ := t
    have hc := hc0
    simp only [size] at hsz
    simp only [SerParOk, Bool.and_eq_true, Bool.or_eq_true, Option.isNone_iff_eq_none] at hs
    simp only [Clean, Bool.and_eq_true] at hc
    obtain ⟨htmo, hcase⟩ := hs
    rcases hcase with ⟨hko, hsl⟩ | ⟨hp, hl⟩
    · have hch : ∀ j c, cs.get? j = some c → GoodB c := fun j c h =>
        ih c (by have := sizeL_get cs j c h; omega) (serParOkL_get cs j c hsl h) (cleanL_get cs j c hc.2 h)
      have hG : ∀ j c0, cs.get? j = some c0 → ∀ c, sk c = sk c0 → Clean c = true → GoodB c := fun j c0 h c e hcl =>
        ih c (by have := sizeL_get cs j c0 h; rw [← size_sk c, e, size_sk]; omega)
          (by rw [← serParOk_sk c, e, serParOk_sk]; exact serParOkL_get cs j c0 hsl h) hcl
      have hwf : WFL cs = true := wfL_of_cleanL cs hc.2 (serParOkL_leafShape cs hsl)
      unfold kindOk at hko
      split at hko
      · rename_i s tag hk
        have : cs = .nil := by cases cs with | nil => rfl | cons a b => simp [TL.length] at hko
        subst this; exact goodB_of_good _ (good_func d s tag hk hc.1)
      · rename_i ms hk
        simp only [Bool.and_eq_true, beq_iff_eq, decide_eq_true_eq] at hko
        have : cs = .nil := by cases cs with | nil => rfl | cons a b => simp [TL.length] at hko
        subst this; exact goodB_of_good _ (good_sleep d ms hk hko.2 hc.1 htmo)
      · rename_i m hk; exact good_wrapperB d cs m hk hc.1 htmo hc.2 hch (by simpa using hko)
      · rename_i hk; exact good_compositeB d cs hk hc.1 htmo hc.2 hch (by simpa using hko)
      · rename_i a b hk; exact good_ifElseB d cs a b hk hc.1 htmo hc.2 hch (by simpa using hko)
      · rename_i hd hk; exact good_switchB d cs hd hk hc.1 htmo hc.2 hch (by simpa using hko)
      · rename_i m hk; exact good_seqB d cs m hk hc.1 htmo hc.2 hch
      · rename_i hk; exact good_ifThenB d cs hk hc.1 htmo hc.2 hch (by simpa using hko)
      · rename_i m hk; exact good_loopB d cs m hk hc.1 htmo hc.2 hwf hG (by simpa using hko)
      · rename_i fr hk; exact good_loopIfB d cs fr hk hc.1 htmo hc.2 hwf hG (by simpa using hko)
      · rename_i k m hk
        simp only [Bool.and_eq_true, beq_iff_eq, decide_eq_true_eq] at hko
        exact good_repeatB d cs k m hk hc.1 htmo hc.2 hwf hG hko.1 hko.2
      · cases hko
    · exact (childOk_goodB _ (Or.inr (parLeafTree_of d cs hp htmo hl hc0))).1

theorem goodB_all (t : T) (hs : SerParOk t = true) (hc : Clean t = true) : GoodB t := goodB_size (size t) t (Nat.le_refl _) hs hc

/-! the old class is inside the new one -/
mutual
theorem serParOk_of_serOk : ∀ (t : T), SerOk t = true → SerParOk t = true
  | .node d cs, h => by
    simp only [SerOk, Bool.and_eq_true] at h
    simp only [SerParOk, Bool.and_eq_true, Bool.or_eq_true]
    exact ⟨h.1.1, Or.inl ⟨h.1.2, serParOkL_of_serOkL cs h.2⟩⟩
theorem serParOkL_of_serOkL : ∀ (cs : TL), SerOkL cs = true → SerParOkL cs = true
  | .nil, _ => rfl
  | .cons t ts, h => by
    simp only [SerOkL, Bool.and_eq_true] at h
    simp only [SerParOkL, Bool.and_eq_true]
    exact ⟨serParOk_of_serOk t h.1, serParOkL_of_serOkL ts h.2⟩
end

/-- every child allowed by the round-11 theorems (`ChildOk`) is in the class -/
theorem serParOk_of_childOk (c : T) (h : ChildOk c) : SerParOk c = true := by
  rcases h with ⟨hs, _⟩ | ⟨d, l, m, e, hk, htmo, hc, hl, hp⟩
  · exact serParOk_of_serOk c hs
  · subst e
    simp only [SerParOk, Bool.and_eq_true, Bool.or_eq_true, Option.isNone_iff_eq_none]
    refine ⟨htmo, Or.inr ⟨by simp [isParKind, hk], ?_⟩⟩
    clear hk htmo hc
    induction l with
    | nil => rfl
    | cons x l ih =>
      have hx := hl x (by simp)
      have hpx := hp x (by simp)
      simp only [leafOkB, Bool.and_eq_true] at hx
      simp only [ofList, parLeafL, parLeaf, Bool.and_eq_true]
      refine ⟨⟨hx.1.2, ?_⟩, ih (fun y hy => hl y (by simp [hy])) (fun y hy => hp y (by simp [hy]))⟩
      unfold sleepPos at hpx
      have := hx.2
      cases hk : x.kind <;> simp [hk] at this hpx ⊢
      exact hpx

/-- **the documented trace and result of every tree of the class**, for every pass / clock schedule: the owner observes a
prefix of the evaluator's visit order, or the complete visit order followed by exactly one finish notification carrying the
evaluator's result -/
theorem serial_with_par_leaves (t : T) (hs : SerParOk t = true) (hc : Clean t = true) (ops : List Op) (hcf : ops.all cfOp = true)
    (r : Bool × Nat) (hr : eval t = some r) :
    (∃ pfx, pfx <+: visit t ∧ trOf (run t {} (.calls [.start] :: ops)).2.log = pfx.map Sum.inl) ∨
    trOf (run t {} (.calls [.start] :: ops)).2.log = (visit t).map Sum.inl ++ [Sum.inr r] :=
  result_matches_doc_runB t (goodB_all t hs hc) ops hcf r hr

/-! ### the six remaining serial parent kinds over `ChildOk` children (the form of the round-11 theorems) -/

theorem serParOkL_of_get : ∀ (cs : TL), (∀ j c, cs.get? j = some c → SerParOk c = true) → SerParOkL cs = true
  | .nil, _ => rfl
  | .cons t ts, h => by
    simp only [SerParOkL, Bool.and_eq_true]
    exact ⟨h 0 t rfl, serParOkL_of_get ts (fun j c hj => h (j + 1) c (by simpa [TL.get?] using hj))⟩

/-- a serial parent of an allowed kind and arity (`kindOk`) over `ChildOk` children is a clean tree of the class -/
theorem node_over_childOk (ds : Node) (cs : TL) (hc : cleanNode ds = true) (htmo : ds.tmo = none)
    (hk : kindOk ds cs.length = true) (hch : ∀ j c, cs.get? j = some c → ChildOk c) :
    SerParOk (.node ds cs) = true ∧ Clean (.node ds cs) = true := by
  refine ⟨?_, by simp [Clean, hc, cleanL_of_get cs (fun j c hj => (childOk_goodB c (hch j c hj)).2)]⟩
  simp only [SerParOk, Bool.and_eq_true, Bool.or_eq_true, Option.isNone_iff_eq_none]
  exact ⟨htmo, Or.inl ⟨hk, serParOkL_of_get cs (fun j c hj => serParOk_of_childOk c (hch j c hj))⟩⟩

/-- the trace / result statement for such a parent -/
theorem kind_over_par_leaves (ds : Node) (cs : TL) (hc : cleanNode ds = true) (htmo : ds.tmo = none)
    (hk : kindOk ds cs.length = true) (hch : ∀ j c, cs.get? j = some c → ChildOk c) (ops : List Op) (hcf : ops.all cfOp = true)
    (r : Bool × Nat) (hr : eval (.node ds cs) = some r) :
    (∃ pfx, pfx <+: visit (.node ds cs) ∧ trOf (run (.node ds cs) {} (.calls [.start] :: ops)).2.log = pfx.map Sum.inl) ∨
    trOf (run (.node ds cs) {} (.calls [.start] :: ops)).2.log = (visit (.node ds cs)).map Sum.inl ++ [Sum.inr r] :=
  serial_with_par_leaves _ (node_over_childOk ds cs hc htmo hk hch).1 (node_over_childOk ds cs hc htmo hk hch).2 ops hcf r hr

theorem kindOk_ifElse (ds : Node) (n : Nat) (a b : Bool) (hk : ds.kind = .ifElse a b)
    (hlen : n = 1 + (if a then 1 else 0) + (if b then 1 else 0)) : kindOk ds n = true := by simp [kindOk, hk, hlen]
theorem kindOk_ifThen (ds : Node) (n : Nat) (hk : ds.kind = .ifThen) (hlen : n % 2 = 0) : kindOk ds n = true := by simp [kindOk, hk, hlen]
theorem kindOk_switch (ds : Node) (n : Nat) (hd : Bool) (hk : ds.kind = .switch hd) (hlen : 2 ≤ n) : kindOk ds n = true := by
  simp [kindOk, hk, hlen]
theorem kindOk_loop (ds : Node) (n : Nat) (m : LoopMode) (hk : ds.kind = .loop m) (hlen : n = 1) : kindOk ds n = true := by
  simp [kindOk, hk, hlen]
theorem kindOk_loopIf (ds : Node) (n : Nat) (fr : Bool) (hk : ds.kind = .loopIf fr) (hlen : n = 2) : kindOk ds n = true := by
  simp [kindOk, hk, hlen]
theorem kindOk_repeat (ds : Node) (n k : Nat) (m : RepMode) (hk : ds.kind = .repeat_ k m) (hlen : n = 1) (hn : 1 ≤ k) :
    kindOk ds n = true := by simp [kindOk, hk, hlen, hn]

/-! ### sanity: the class is inhabited by trees no earlier theorem covers, and the statement is not vacuous -/

/-- Repeat(2, no break)[ Parallel(all)[ f4, sleep 3, f6 ] ]: the ParallelAction is reset and run a second time -/
def exRepPar : T :=
  .node { id := 1, kind := .repeat_ 2 .noBreak }
    (.cons (.node { id := 3, kind := .par .all }
        (ofList [{ id := 4, kind := .func false none }, { id := 5, kind := .sleep 3 }, { id := 6, kind := .func true (some 1) }])) .nil)

theorem exRepPar_covered : SerParOk exRepPar = true ∧ Clean exRepPar = true ∧ SerOk exRepPar = false := by decide

theorem exRepPar_run : eval exRepPar = some (true, 7) ∧ visit exRepPar = [4, 6, 4, 6] ∧
    trOf (run exRepPar {} [.calls [.start], .pass, .adv 3, .pass, .pass, .adv 3, .pass, .pass, .pass]).2.log =
      [Sum.inl 4, Sum.inl 6, Sum.inl 4, Sum.inl 6, Sum.inr (true, 7)] := by decide +kernel

/-- IfElse[ Parallel(anySucc)[ f2, f3 ], Sequence[ f5, Parallel(all)[ sleep 2, f8 ] ], LoopIf … ]: a ParallelAction as the
condition, another two levels down -/
def exIfPar : T :=
  .node { id := 1, kind := .ifElse true true }
    (.cons (.node { id := 10, kind := .par .anySucc } (ofList [{ id := 2, kind := .func false none }, { id := 3, kind := .func true none }]))
      (.cons (.node { id := 4, kind := .seq .all }
          (.cons (.node { id := 5, kind := .func true none } .nil)
            (.cons (.node { id := 6, kind := .par .all } (ofList [{ id := 7, kind := .sleep 2 }, { id := 8, kind := .func false none }])) .nil)))
        (.cons (.node { id := 9, kind := .func false none } .nil) .nil)))

theorem exIfPar_covered : SerParOk exIfPar = true ∧ Clean exIfPar = true ∧ SerOk exIfPar = false := by decide

theorem exIfPar_run : eval exIfPar = some (true, 0) ∧ visit exIfPar = [2, 3, 5, 8] ∧
    trOf (run exIfPar {} [.calls [.start], .pass, .pass, .adv 2, .pass, .pass, .pass, .pass]).2.log =
      [Sum.inl 2, Sum.inl 3, Sum.inl 5, Sum.inl 8, Sum.inr (true, 0)] := by decide +kernel

end Tbox.C17
