/-
C17 — M3, first closed case: `ParallelAction` (all three modes, any number of children) over FunctionAction and
SleepAction leaves.  Several children are active at once, so the one-active-child simulation of Sim*.lean does
not apply; this file proves the run of such a tree directly, by an invariant over the loop's batches:

* the children of the node are kept as a `List Node` (`ofList`), every handler of Model.lean that can run in a
  control-free run is computed on that representation (`stopAll`, `popChild`, `parOnChild`, `finish`, timers);
* `PI` is the invariant (root phase: running / finished with its notification queued / delivered; leaves; the
  bookkeeping of `finished_children_`), preserved by every `runTask id` and every `fireOne` — for ANY id / timer,
  so the batch order plays no role for safety;
* liveness: a batch delivers every queued child notification (`runQueue` empties the leaves' queues: run ids are
  distinct, `IdsOk`), a big clock step lets every armed SleepAction expire, and `finished_children_.size() ==
  children_.size()` is reached exactly when the last child has reported.
-/
import TboxModel.C17.Sim7
import TboxModel.C17.Ids
namespace Tbox.C17
set_option linter.unusedSimpArgs false
set_option linter.unusedVariables false

/-- children that are leaves -/
def ofList : List Node → TL
  | [] => .nil
  | c :: l => .cons (.node c .nil) (ofList l)

/-- apply `f` to element `j` -/
def upd (l : List Node) (j : Nat) (f : Node → Node) : List Node :=
  match l, j with
  | [], _ => []
  | c :: l, 0 => f c :: l
  | c :: l, j + 1 => c :: upd l j f

theorem upd_length : ∀ (l : List Node) (j : Nat) (f : Node → Node), (upd l j f).length = l.length
  | [], _, _ => rfl
  | c :: l, 0, f => rfl
  | c :: l, j + 1, f => by simp [upd, upd_length l j f]

theorem upd_get : ∀ (l : List Node) (j k : Nat) (f : Node → Node),
    (upd l j f)[k]? = if k = j then (l[k]?).map f else l[k]?
  | [], _, _, _ => by simp [upd]
  | c :: l, 0, 0, f => by simp [upd]
  | c :: l, 0, k + 1, f => by simp [upd]
  | c :: l, j + 1, 0, f => by simp [upd]
  | c :: l, j + 1, k + 1, f => by simp [upd, upd_get l j k f]

theorem ofList_length : ∀ (l : List Node), (ofList l).length = l.length
  | [] => rfl
  | c :: l => by simp [ofList, TL.length, ofList_length l]

theorem ofList_get : ∀ (l : List Node) (j : Nat), (ofList l).get? j = (l[j]?).map (fun c => T.node c .nil)
  | [], _ => by simp [ofList, TL.get?]
  | c :: l, 0 => by simp [ofList, TL.get?]
  | c :: l, j + 1 => by simp [ofList, TL.get?, ofList_get l j]

/-- FunctionAction or SleepAction -/
def isFS (c : Node) : Prop := (∃ s tag, c.kind = .func s tag) ∨ ∃ ms, c.kind = .sleep ms

theorem isFS_leaf (c : Node) (h : isFS c) : c.isLeaf = true ∧ c.isPar = false ∧ (c.kind == .dummy) = false ∧ c.shape = .leaf := by
  rcases h with ⟨s, tag, e⟩ | ⟨ms, e⟩ <;> simp [Node.isLeaf, Node.isPar, Node.shape, e]

/-! ### the handlers on `ofList` -/

/-- `stop` on a leaf (repaired configuration) -/
def stopN (c : Node) : Node :=
  if !c.underway then c else { (c.stopped {}) with finals := (c.stopped {}).finals + 1 }

theorem stop_leaf (c : Node) (g : G) (hg : g.cfg = {}) (h : isFS c) : stop (.node c .nil) g = (.node (stopN c) .nil, g) := by
  obtain ⟨h1, h2, h3, h4⟩ := isFS_leaf c h
  obtain ⟨f1, f2, f3, f4, f5, f6, f7⟩ := stopped_fields c
  have hl : (c.stopped {}).isLeaf = true := by simp only [Node.isLeaf, f5] at h1 ⊢; exact h1
  rw [stop]
  by_cases hu : c.underway = true
  · simp [hu, h4, onFinal, leafEv, h3, stopN, hg, hl]
  · simp [hu, stopN]

theorem stopAll_leaves : ∀ (l : List Node) (g : G), g.cfg = {} → (∀ c ∈ l, isFS c) → stopAll (ofList l) g = (ofList (l.map stopN), g)
  | [], g, _, _ => by simp [ofList, stopAll]
  | c :: l, g, hg, h => by
    simp only [ofList, stopAll, List.map_cons]
    rw [stop_leaf c g hg (h c (by simp))]
    simp only []
    rw [stopAll_leaves l g hg (fun x hx => h x (by simp [hx]))]

theorem popChild_leaves : ∀ (l : List Node) (j id : Nat), popChild (ofList l) j id = ofList (upd l j (fun c => cancelId c id))
  | [], _, _ => by simp [ofList, popChild, upd]
  | c :: l, 0, id => by simp [ofList, popChild, upd, T.data, T.children]
  | c :: l, j + 1, id => by simp [ofList, popChild, upd, popChild_leaves l j id]

/-- the tasks queued at the leaves -/
theorem mem_tasksL : ∀ (l : List Node) (k : Nat) (x : Nat × List Nat × TK),
    x ∈ allTasksL (ofList l) [] k ↔ ∃ j c p, l[j]? = some c ∧ p ∈ c.tasks ∧ x = (p.1, [k + j], p.2)
  | [], k, x => by simp [ofList, allTasksL]
  | c :: l, k, x => by
    simp only [ofList, allTasksL, List.mem_append, allTasks, List.nil_append, List.append_nil, List.mem_map]
    rw [mem_tasksL l (k + 1) x]
    constructor
    · rintro (⟨p, hp, e⟩ | ⟨j, c', p, hj, hp, e⟩)
      · exact ⟨0, c, p, by simp, hp, by simp [← e]⟩
      · exact ⟨j + 1, c', p, by simpa using hj, hp, by rw [e]; simp; omega⟩
    · rintro ⟨j, c', p, hj, hp, e⟩
      cases j with
      | zero => simp at hj; subst hj; left; exact ⟨p, hp, by simp [e]⟩
      | succ j => right; exact ⟨j, c', p, by simpa using hj, hp, by rw [e]; simp; omega⟩

theorem mem_timersL : ∀ (l : List Node) (k : Nat) (x : Nat × List Nat × Bool),
    x ∈ allTimersL (ofList l) [] k ↔ ∃ j c, l[j]? = some c ∧
      ((c.sleepAt = some x.1 ∧ x.2.2 = true) ∨ (c.tmoAt = some x.1 ∧ x.2.2 = false)) ∧ x.2.1 = [k + j]
  | [], k, x => by simp [ofList, allTimersL]
  | c :: l, k, x => by
    simp only [ofList, allTimersL, List.mem_append, allTimers, List.nil_append, List.append_nil]
    rw [mem_timersL l (k + 1) x]
    constructor
    · rintro (h | ⟨j, c', hj, hp, e⟩)
      · refine ⟨0, c, by simp, ?_⟩
        obtain ⟨a, b, e⟩ := x
        cases hs : c.sleepAt <;> cases ht : c.tmoAt <;> simp [hs, ht] at h ⊢ <;> grind
      · exact ⟨j + 1, c', by simpa using hj, hp, by rw [e]; simp; omega⟩
    · rintro ⟨j, c', hj, hp, e⟩
      cases j with
      | zero =>
        simp at hj; subst hj; left
        obtain ⟨a, b, e'⟩ := x
        simp at e hp; subst e
        cases hs : c.sleepAt <;> cases ht : c.tmoAt <;> simp [hs, ht] at hp ⊢ <;> grind
      | succ j => right; exact ⟨j, c', by simpa using hj, hp, by rw [e]; simp; omega⟩

/-! ### counting queued tasks at the leaves -/

def leafCnt (l : List Node) (id : Nat) : Nat := (l.map (fun c => cntN c id)).sum

theorem cntL_ofList : ∀ (l : List Node) (id : Nat), cntL (ofList l) id = leafCnt l id
  | [], _ => rfl
  | c :: l, id => by simp [ofList, cntL, cntT, leafCnt, cntL_ofList l id] <;> rfl

theorem leafCnt_upd : ∀ (l : List Node) (j : Nat) (f : Node → Node) (c : Node) (k : Nat), l[j]? = some c →
    leafCnt (upd l j f) k + cntN c k = leafCnt l k + cntN (f c) k
  | [], _, _, _, _, h => by simp at h
  | a :: l, 0, f, c, k, h => by simp at h; subst h; simp [upd, leafCnt]; omega
  | a :: l, j + 1, f, c, k, h => by
    have := leafCnt_upd l j f c k (by simpa using h)
    simp only [upd, leafCnt, List.map_cons, List.sum_cons] at this ⊢; omega

theorem leafCnt_upd_none : ∀ (l : List Node) (j : Nat) (f : Node → Node), l[j]? = none → upd l j f = l
  | [], _, _, _ => rfl
  | a :: l, 0, f, h => by simp at h
  | a :: l, j + 1, f, h => by simp [upd, leafCnt_upd_none l j f (by simpa using h)]

theorem leafCnt_map_le : ∀ (l : List Node) (f : Node → Node) (k : Nat), (∀ c, cntN (f c) k ≤ cntN c k) → leafCnt (l.map f) k ≤ leafCnt l k
  | [], _, _, _ => Nat.le_refl _
  | a :: l, f, k, h => by
    have := leafCnt_map_le l f k h
    have := h a
    simp only [leafCnt, List.map_cons, List.sum_cons, List.map_map] at *; omega

theorem leafCnt_get : ∀ (l : List Node) (j : Nat) (c : Node) (k : Nat), l[j]? = some c → cntN c k ≤ leafCnt l k
  | [], _, _, _, h => by simp at h
  | a :: l, 0, c, k, h => by simp at h; subst h; simp [leafCnt]
  | a :: l, j + 1, c, k, h => by
    have := leafCnt_get l j c k (by simpa using h)
    simp only [leafCnt, List.map_cons, List.sum_cons] at *; omega

theorem cntN_pos (c : Node) (p : Nat × TK) (h : p ∈ c.tasks) : 1 ≤ cntN c p.1 := by
  unfold cntN; exact List.countP_pos_iff.2 ⟨p, h, by simp⟩

theorem cntN_zero_tasks (c : Node) (h : ∀ k, cntN c k = 0) : c.tasks = [] := by
  cases hc : c.tasks with
  | nil => rfl
  | cons p ps => have := cntN_pos c p (by rw [hc]; simp); have := h p.1; omega

theorem cntN_cancelId_self (c : Node) (id : Nat) : cntN (cancelId c id) id = 0 := by
  unfold cntN cancelId; simp [List.countP_eq_zero, List.mem_filter]

theorem cntN_stopN (c : Node) (k : Nat) : cntN (stopN c) k ≤ cntN c k := by
  unfold stopN; split
  · exact Nat.le_refl _
  · exact nle_stopped {} c k

/-! ### `std::map` keys -/

def keys (m : List (Nat × Bool)) : List Nat := m.map (·.1)

theorem keys_mapSet (m : List (Nat × Bool)) (k : Nat) (v : Bool) :
    keys (mapSet m k v) = if k ∈ keys m then keys m else keys m ++ [k] := by
  unfold mapSet keys
  by_cases h : m.any (fun p => p.1 == k) = true
  · have hk : k ∈ m.map (·.1) := by
      simp only [List.any_eq_true, beq_iff_eq] at h; obtain ⟨p, hp, e⟩ := h
      exact List.mem_map.2 ⟨p, hp, e⟩
    simp only [h, ↓reduceIte, hk, List.map_map]
    apply List.map_congr_left
    intro p _; simp only [Function.comp]; split <;> simp_all
  · have hk : k ∉ m.map (·.1) := by
      intro hk; obtain ⟨p, hp, e⟩ := List.mem_map.1 hk
      exact h (List.any_eq_true.2 ⟨p, hp, by simp [e]⟩)
    simp [h, hk]

theorem keys_length (m : List (Nat × Bool)) : (keys m).length = m.length := by simp [keys]

/-- `finished_children_.size() == children_.size()` exactly when every child has reported -/
theorem keys_full (ks : List Nat) (n : Nat) (hn : ks.Nodup) (hb : ∀ k ∈ ks, k < n) (ha : ∀ j, j < n → j ∈ ks) : ks.length = n := by
  have h1 : ks.length ≤ (List.range n).length := hn.length_le_of_subset (fun k hk => List.mem_range.2 (hb k hk))
  have h2 : (List.range n).length ≤ ks.length := List.nodup_range.length_le_of_subset (fun k hk => ha k (List.mem_range.1 hk))
  simp at h1 h2; omega

/-! ### `finish` of the parallel node and of a leaf -/

/-- the parallel node after `finish(true)` -/
def parFin (d : Node) (g : G) : Node :=
  { d with st := .finished, tmoAt := none, res := .success, finId := g.nextId, tasks := d.tasks ++ [(g.nextId, TK.fin true 0)],
           finals := d.finals + 1 }

def parFinG (d : Node) (g : G) : G := { g with nextId := g.nextId + 1, log := .final d.id :: g.log }

theorem finish_par (d : Node) (l : List Node) (g : G) (m : Mode3) (hk : d.kind = .par m) (hst : d.st = .running ∨ d.st = .idle) (hg : g.cfg = {})
    (hl : ∀ c ∈ l, isFS c) :
    finish3 d (ofList l) g true 0 = (parFin d g, ofList (l.map stopN), parFinG d g) := by
  have h1 : d.isLeaf = false := by simp [Node.isLeaf, hk]
  have h2 : d.isPar = true := by simp [Node.isPar, hk]
  unfold finish3 finish
  rcases hst with hst | hst <;>
    simp [hst, Node.isLeaf, Node.isPar, hk, hg, stopAll_leaves l g hg hl, post, onFinal, G.emit, parFin, parFinG]

/-- a leaf after `finish(s, w)` -/
def leafFin (c : Node) (g : G) (s : Bool) (w : Nat) : Node :=
  { c with st := .finished, tmoAt := none, res := (if s then Res.success else Res.fail), finId := g.nextId,
           tasks := c.tasks ++ [(g.nextId, TK.fin s w)], finals := c.finals + 1 }

theorem finish_leaf (c : Node) (g : G) (s : Bool) (w : Nat) (hfs : isFS c) (hst : c.st = .running ∨ c.st = .idle) :
    finish3 c .nil g s w = (leafFin c g s w, .nil, { g with nextId := g.nextId + 1 }) := by
  obtain ⟨h1, h2, h3, h4⟩ := isFS_leaf c hfs
  have hl : ({ c with st := St.finished, tmoAt := none } : Node).isLeaf = true := by simpa [Node.isLeaf] using h1
  unfold finish3 finish
  rcases hst with hst | hst <;> simp [hst, hl, post, onFinal, leafFin] <;> simp [Node.isLeaf] at h1 ⊢ <;> simp [h1]

/-! ### the invariant -/

/-- a leaf of the running tree: `t0` = start time of the parallel node, `M` bounds the delays -/
structure LeafOk (t0 M : Nat) (c : Node) : Prop where
  fs : isFS c
  tmo : c.tmoAt = none
  fins : ∀ p ∈ c.tasks, ∃ s w, p.2 = TK.fin s w
  st : c.st = .running ∨ c.st = .finished ∨ c.st = .stoped
  run : c.st = .running → c.tasks = [] ∧ ∃ dl, c.sleepAt = some dl ∧ dl ≤ t0 + M
  nrun : c.st ≠ .running → c.sleepAt = none

/-- the three phases of the root: running / finished, its notification queued / notification delivered -/
def Phase (L : List (Nat ⊕ (Bool × Nat))) (fns : List Nat) (d : Node) (g : G) : Prop :=
  (d.st = .running ∧ d.tasks = [] ∧ trOf g.log = L ++ fns.map Sum.inl) ∨
  (d.st = .finished ∧ (∃ id, d.tasks = [(id, TK.fin true 0)]) ∧ trOf g.log = L ++ fns.map Sum.inl) ∨
  (d.st = .finished ∧ d.tasks = [] ∧ trOf g.log = L ++ fns.map Sum.inl ++ [Sum.inr (true, 0)])

/-- the bookkeeping of `finished_children_` while the parallel node is running -/
structure Book (d : Node) (l : List Node) : Prop where
  keysN : (keys d.finished).Nodup
  keysB : ∀ k ∈ keys d.finished, k < l.length
  notFull : d.finished.length ≠ l.length
  recd : ∀ (j : Nat) (c : Node), l[j]? = some c → c.st = .finished → c.tasks = [] → j ∈ keys d.finished
  nostop : ∀ c ∈ l, c.st ≠ .stoped

structure PI (m : Mode3) (L : List (Nat ⊕ (Bool × Nat))) (fns : List Nat) (t0 M : Nat) (d : Node) (l : List Node) (g : G) : Prop where
  gi : GIu g
  ids : IdsOk (.node d (ofList l)) g
  kind : d.kind = .par m
  tmoAt : d.tmoAt = none
  slp : d.sleepAt = none
  leaves : ∀ c ∈ l, LeafOk t0 M c
  phase : Phase L fns d g
  now : t0 ≤ g.now
  book : d.st = .running → Book d l

/-- what only ever goes one way in a control-free run -/
structure Mono (d : Node) (l : List Node) (d' : Node) (l' : List Node) : Prop where
  len : l'.length = l.length
  slp : ∀ (j : Nat) (c c' : Node), l[j]? = some c → l'[j]? = some c' → (c'.sleepAt = none ∨ c'.sleepAt = c.sleepAt)
  run : ∀ (j : Nat) (c c' : Node), l[j]? = some c → l'[j]? = some c' → c.st ≠ .running → c'.st ≠ .running
  rootSt : d.st = .finished → d'.st = .finished
  deliv : (d.st = .finished ∧ d.tasks = []) → (d'.st = .finished ∧ d'.tasks = [])

theorem Mono.refl (d : Node) (l : List Node) : Mono d l d l :=
  ⟨rfl, (fun j c c' h1 h2 => by rw [h1] at h2; cases h2; exact Or.inr rfl), (fun j c c' h1 h2 h => by rw [h1] at h2; cases h2; exact h),
   fun h => h, fun h => h⟩

theorem get_of_len {l l' : List Node} (h : l'.length = l.length) (j : Nat) (c' : Node) (h' : l'[j]? = some c') : ∃ c, l[j]? = some c := by
  have : j < l'.length := by
    rcases Nat.lt_or_ge j l'.length with h1 | h1
    · exact h1
    · rw [List.getElem?_eq_none h1] at h'; cases h'
  exact ⟨l[j]'(by omega), List.getElem?_eq_getElem (by omega)⟩

theorem Mono.trans {d d1 d2 : Node} {l l1 l2 : List Node} (a : Mono d l d1 l1) (b : Mono d1 l1 d2 l2) : Mono d l d2 l2 := by
  refine ⟨b.len.trans a.len, ?_, ?_, fun h => b.rootSt (a.rootSt h), fun h => b.deliv (a.deliv h)⟩
  · intro j c c2 h h2
    obtain ⟨c1, h1⟩ := get_of_len b.len j c2 h2
    rcases b.slp j c1 c2 h1 h2 with e | e
    · exact Or.inl e
    · rcases a.slp j c c1 h h1 with e' | e'
      · left; rw [e, e']
      · right; rw [e, e']
  · intro j c c2 h h2 hn
    obtain ⟨c1, h1⟩ := get_of_len b.len j c2 h2
    exact b.run j c1 c2 h1 h2 (a.run j c c1 h h1 hn)

theorem leafOk_cancelId {t0 M : Nat} {c : Node} (h : LeafOk t0 M c) (id : Nat) : LeafOk t0 M (cancelId c id) := by
  refine ⟨h.fs, h.tmo, ?_, h.st, ?_, h.nrun⟩
  · intro p hp; exact h.fins p (List.mem_filter.1 hp).1
  · intro hr; have := h.run hr; exact ⟨by simp [cancelId, this.1], this.2⟩

theorem stopN_fields (c : Node) : (c.underway = false → stopN c = c) ∧
    (c.underway = true → (stopN c).st = .stoped ∧ (stopN c).sleepAt = none ∧ (stopN c).tmoAt = none ∧ (stopN c).kind = c.kind ∧
      ∀ p ∈ (stopN c).tasks, p ∈ c.tasks) := by
  obtain ⟨f1, f2, f3, f4, f5, f6, f7⟩ := stopped_fields c
  constructor
  · intro h; simp [stopN, h]
  · intro h; simp only [stopN, h, Bool.not_true, Bool.false_eq_true, ↓reduceIte]
    exact ⟨f1, f3, f2, f5, fun p hp => (stopped_tasks c p hp).1⟩

theorem leafOk_stopN {t0 M : Nat} {c : Node} (h : LeafOk t0 M c) : LeafOk t0 M (stopN c) := by
  by_cases hu : c.underway = true
  · obtain ⟨a1, a2, a3, a4, a5⟩ := (stopN_fields c).2 hu
    refine ⟨?_, a3, fun p hp => h.fins p (a5 p hp), Or.inr (Or.inr a1), (fun hr => by rw [a1] at hr; cases hr), fun _ => a2⟩
    unfold isFS; rw [a4]; exact h.fs
  · rw [(stopN_fields c).1 (by simpa using hu)]; exact h

theorem stopN_st (c : Node) : (stopN c).st ≠ .running ∧ ((stopN c).st = .stoped ∨ stopN c = c) ∧
    ((stopN c).sleepAt = none ∨ (stopN c).sleepAt = c.sleepAt) ∧ ((stopN c).st = .finished → stopN c = c) := by
  by_cases hu : c.underway = true
  · obtain ⟨a1, a2, a3, a4, a5⟩ := (stopN_fields c).2 hu
    exact ⟨by rw [a1]; simp, Or.inl a1, Or.inl a2, fun h => by rw [a1] at h; cases h⟩
  · have e := (stopN_fields c).1 (by simpa using hu)
    rw [e]
    refine ⟨?_, Or.inr rfl, Or.inr rfl, fun _ => rfl⟩
    intro h; simp [Node.underway, h] at hu

theorem pi_cnt {m : Mode3} {L : List (Nat ⊕ (Bool × Nat))} {fns : List Nat} {t0 M : Nat} {d : Node} {l : List Node} {g : G}
    (h : PI m L fns t0 M d l g) (k : Nat) : cntN d k + leafCnt l k ≤ 1 := by
  have a := h.ids k
  have u : cntU g k = 0 := by unfold cntU; rw [h.gi.2]; rfl
  rw [cntT, cntL_ofList, u] at a
  split at a <;> omega

theorem mono_upd (d : Node) (l : List Node) (j id : Nat) : Mono d l d (upd l j (fun c => cancelId c id)) := by
  refine ⟨upd_length _ _ _, ?_, ?_, fun h => h, fun h => h⟩
  · intro k c c' h1 h2
    rw [upd_get, h1] at h2
    split at h2 <;> simp at h2 <;> subst h2 <;> exact Or.inr rfl
  · intro k c c' h1 h2 hn
    rw [upd_get, h1] at h2
    split at h2 <;> simp at h2 <;> subst h2 <;> exact hn

theorem mono_map (d : Node) (l : List Node) : Mono d l d (l.map stopN) := by
  refine ⟨by simp, ?_, ?_, fun h => h, fun h => h⟩
  · intro k c c' h1 h2
    rw [List.getElem?_map, h1] at h2; simp at h2; subst h2; exact (stopN_st c).2.2.1
  · intro k c c' h1 h2 _
    rw [List.getElem?_map, h1] at h2; simp at h2; subst h2; exact (stopN_st c).1

theorem mono_root (d d' : Node) (l : List Node) (h : d.st = .running) : Mono d l d' l :=
  ⟨rfl, (fun j c c' h1 h2 => by rw [h1] at h2; cases h2; exact Or.inr rfl), (fun j c c' h1 h2 hn => by rw [h1] at h2; cases h2; exact hn),
   (fun h' => by rw [h] at h'; cases h'), (fun h' => by rw [h] at h'; cases h'.1)⟩

theorem leafCnt_upd_le (l : List Node) (j id k : Nat) : leafCnt (upd l j (fun c => cancelId c id)) k ≤ leafCnt l k := by
  cases hj : l[j]? with
  | none => rw [leafCnt_upd_none l j _ hj]; exact Nat.le_refl _
  | some c =>
    have := leafCnt_upd l j (fun c => cancelId c id) c k hj
    have := nle_cancelId c id k
    omega

theorem leaves_upd {t0 M : Nat} {l : List Node} (h : ∀ c ∈ l, LeafOk t0 M c) (j id : Nat) :
    ∀ c ∈ upd l j (fun c => cancelId c id), LeafOk t0 M c := by
  intro c' hc'
  obtain ⟨k, hk⟩ := List.mem_iff_getElem?.1 hc'
  rw [upd_get] at hk
  split at hk
  · cases hl : l[k]? with
    | none => rw [hl] at hk; cases hk
    | some c => rw [hl] at hk; simp at hk; subst hk; exact leafOk_cancelId (h c (List.mem_iff_getElem?.2 ⟨k, hl⟩)) id
  · exact h c' (List.mem_iff_getElem?.2 ⟨k, hk⟩)

theorem leaves_map {t0 M : Nat} {l : List Node} (h : ∀ c ∈ l, LeafOk t0 M c) : ∀ c ∈ l.map stopN, LeafOk t0 M c := by
  intro c' hc'; obtain ⟨c, hc, e⟩ := List.mem_map.1 hc'; subst e; exact leafOk_stopN (h c hc)

/-- the parallel node finishes (from a child's notification): everything but `ids` -/
theorem fin_PI {m : Mode3} {L : List (Nat ⊕ (Bool × Nat))} {fns : List Nat} {t0 M : Nat} {d : Node} {l : List Node} {g : G}
    (hgi : GIu g) (hk : d.kind = .par m) (hst : d.st = .running) (ht : d.tasks = []) (htm : d.tmoAt = none) (hsl : d.sleepAt = none)
    (hl : ∀ c ∈ l, LeafOk t0 M c) (htr : trOf g.log = L ++ fns.map Sum.inl) (hnow : t0 ≤ g.now) :
    finish3 d (ofList l) g true 0 = (parFin d g, ofList (l.map stopN), parFinG d g) ∧
    (IdsOk (.node (parFin d g) (ofList (l.map stopN))) (parFinG d g) → PI m L fns t0 M (parFin d g) (l.map stopN) (parFinG d g)) := by
  refine ⟨finish_par d l g m hk (Or.inl hst) hgi.1.1 (fun c hc => (hl c hc).fs), fun hids => ?_⟩
  refine ⟨⟨⟨hgi.1.1, by have := hgi.1.2; simp only [parFinG]; omega⟩, hgi.2⟩, hids, hk, rfl, hsl, leaves_map hl, ?_, hnow, ?_⟩
  · right; left
    refine ⟨rfl, ⟨g.nextId, by simp [parFin, ht]⟩, ?_⟩
    simp only [parFinG]; rw [trOf_cons_other _ _ (by intro n; simp) (by intro s w st; simp)]; exact htr
  · intro h; simp [parFin] at h

/-- what one `runTask` / `fireOne` guarantees -/
structure StepOk (m : Mode3) (L : List (Nat ⊕ (Bool × Nat))) (fns : List Nat) (t0 M : Nat) (d : Node) (l : List Node) (g : G)
    (d' : Node) (l' : List Node) (g' : G) : Prop where
  pi : PI m L fns t0 M d' l' g'
  mono : Mono d l d' l'
  now : g'.now = g.now

theorem parOnChild_running (d : Node) (cs : TL) (g : G) (i : Nat) (s : Bool) (m : Mode3) (hst : d.st = .running) (hk : d.kind = .par m) :
    parOnChild d cs g i s =
      if ((m == .anySucc && s) || (m == .anyFail && !s)) = true then
        finish3 { d with finished := mapSet d.finished i s } (stopAll cs g).1 (stopAll cs g).2 true 0
      else if ((mapSet d.finished i s).length == cs.length) = true then finish3 { d with finished := mapSet d.finished i s } cs g true 0
      else ({ d with finished := mapSet d.finished i s }, cs, g) := by
  unfold parOnChild
  simp only [hst, Node.parMode, hk, beq_self_eq_true, ↓reduceIte]

theorem parOnChild_finished (d : Node) (cs : TL) (g : G) (i : Nat) (s : Bool) (hst : d.st = .finished) :
    parOnChild d cs g i s = (d, cs, g) := by
  unfold parOnChild
  simp [hst]

/-- a child's notification reaches the parallel node -/
theorem parOnChild_PI {m : Mode3} {L : List (Nat ⊕ (Bool × Nat))} {fns : List Nat} {t0 M : Nat} {d : Node} {l : List Node} {g : G}
    (h : PI m L fns t0 M d l g) (j id : Nat) (s : Bool) (c : Node) (hj : l[j]? = some c) :
    ∃ d' l' g', parOnChild d (ofList (upd l j (fun c => cancelId c id))) g j s = (d', ofList l', g') ∧
      (IdsOk (.node d' (ofList l')) g' → PI m L fns t0 M d' l' g') ∧ Mono d l d' l' ∧ g'.now = g.now ∧
      (∀ k, leafCnt l' k ≤ leafCnt (upd l j (fun c => cancelId c id)) k) ∧ (d.st = .finished → d' = d) := by
  have hl1 := leaves_upd h.leaves j id
  have hlen1 : (upd l j (fun c => cancelId c id)).length = l.length := upd_length _ _ _
  have hjl : j < l.length := by
    rcases Nat.lt_or_ge j l.length with h1 | h1
    · exact h1
    · rw [List.getElem?_eq_none h1] at hj; cases hj
  rcases h.phase with ⟨hst, ht, htr⟩ | hfin
  · -- running
    have hb := h.book hst
    -- the node with the child recorded
    have hk1 : ({ d with finished := mapSet d.finished j s } : Node).kind = .par m := h.kind
    rw [parOnChild_running d _ g j s m hst h.kind]
    by_cases hA : ((m == .anySucc && s) || (m == .anyFail && !s)) = true
    · rw [if_pos hA]
      rw [stopAll_leaves _ g h.gi.1.1 (fun c hc => (hl1 c hc).fs)]
      obtain ⟨e, hpi⟩ := fin_PI (m := m) (L := L) (fns := fns) (t0 := t0) (M := M) (d := { d with finished := mapSet d.finished j s })
        (l := (upd l j (fun c => cancelId c id)).map stopN) (g := g) h.gi hk1 hst ht h.tmoAt h.slp (leaves_map hl1) htr h.now
      refine ⟨_, _, _, e, hpi, ?_, rfl, ?_, fun hf => by rw [hst] at hf; cases hf⟩
      · exact ((mono_upd d l j id).trans (mono_map d _)).trans ((mono_map d _).trans (mono_root d _ _ hst))
      · intro k
        exact Nat.le_trans (leafCnt_map_le _ stopN k (fun c => cntN_stopN c k)) (leafCnt_map_le _ stopN k (fun c => cntN_stopN c k))
    · rw [if_neg hA]
      by_cases hB : ((mapSet d.finished j s).length == (ofList (upd l j (fun c => cancelId c id))).length) = true
      · rw [if_pos hB]
        obtain ⟨e, hpi⟩ := fin_PI (m := m) (L := L) (fns := fns) (t0 := t0) (M := M) (d := { d with finished := mapSet d.finished j s })
          (l := upd l j (fun c => cancelId c id)) (g := g) h.gi hk1 hst ht h.tmoAt h.slp hl1 htr h.now
        refine ⟨_, _, _, e, hpi, ?_, rfl, ?_, fun hf => by rw [hst] at hf; cases hf⟩
        · exact (mono_upd d l j id).trans ((mono_map d _).trans (mono_root d _ _ hst))
        · intro k; exact leafCnt_map_le _ stopN k (fun c => cntN_stopN c k)
      · rw [if_neg hB]
        refine ⟨_, _, _, rfl, fun hids => ?_, (mono_upd d l j id).trans (mono_root d _ _ hst), rfl, fun k => Nat.le_refl _,
          fun hf => by rw [hst] at hf; cases hf⟩
        refine ⟨h.gi, hids, h.kind, h.tmoAt, h.slp, hl1, Or.inl ⟨hst, ht, htr⟩, h.now, fun _ => ?_⟩
        have hkeys : ∀ k, k ∈ keys d.finished → k ∈ keys (mapSet d.finished j s) := by
          intro k hk; rw [keys_mapSet]; split
          · exact hk
          · simp [hk]
        have hjk : j ∈ keys (mapSet d.finished j s) := by
          rw [keys_mapSet]; split
          · assumption
          · simp
        refine ⟨?_, ?_, ?_, ?_, ?_⟩
        · show (keys (mapSet d.finished j s)).Nodup
          rw [keys_mapSet]; split
          · exact hb.keysN
          · rename_i hn
            rw [List.nodup_append]
            refine ⟨hb.keysN, by simp, ?_⟩
            intro a ha b hb'; simp at hb'; subst hb'; intro e; subst e; exact hn ha
        · intro k hk
          change k ∈ keys (mapSet d.finished j s) at hk
          rw [hlen1]
          rw [keys_mapSet] at hk; split at hk
          · exact hb.keysB k hk
          · simp at hk; rcases hk with hk | hk
            · exact hb.keysB k hk
            · omega
        · show (mapSet d.finished j s).length ≠ _
          rw [ofList_length] at hB
          simpa using hB
        · intro k c' hk hcf hct
          show k ∈ keys (mapSet d.finished j s)
          rw [upd_get] at hk
          split at hk
          · rename_i e; subst e; exact hjk
          · exact hkeys k (hb.recd k c' hk hcf hct)
        · intro c' hc'
          obtain ⟨k, hk⟩ := List.mem_iff_getElem?.1 hc'
          rw [upd_get] at hk
          split at hk
          · rename_i e; subst e; rw [hj] at hk; simp at hk; subst hk
            exact hb.nostop c (List.mem_iff_getElem?.2 ⟨k, hj⟩)
          · exact hb.nostop c' (List.mem_iff_getElem?.2 ⟨k, hk⟩)
  · -- finished: the notification of a child is ignored
    have hst : d.st = .finished := by rcases hfin with ⟨a, _⟩ | ⟨a, _⟩ <;> exact a
    rw [parOnChild_finished d _ g j s hst]
    refine ⟨_, _, _, rfl, fun hids => ?_, mono_upd d l j id, rfl, fun k => Nat.le_refl _, fun _ => rfl⟩
    exact ⟨h.gi, hids, h.kind, h.tmoAt, h.slp, hl1, Or.inr hfin, h.now, fun hr => by rw [hst] at hr; cases hr⟩

/-- **one queued task runs** (any id, in any order): the invariant is kept; queued child notifications only disappear,
the one with this id is gone afterwards -/
theorem runTask_PI {m : Mode3} {L : List (Nat ⊕ (Bool × Nat))} {fns : List Nat} {t0 M : Nat} {d : Node} {l : List Node} {g : G}
    (h : PI m L fns t0 M d l g) (id : Nat) :
    ∃ d' l' g', runTask (.node d (ofList l)) g id = (.node d' (ofList l'), g') ∧ StepOk m L fns t0 M d l g d' l' g' ∧
      (∀ k, leafCnt l' k ≤ leafCnt l k) ∧ leafCnt l' id = 0 ∧
      (d.st = .finished → (∀ k, cntN d' k ≤ cntN d k) ∧ cntN d' id = 0) := by
  have hids := idsOk_step h.ids (runTask_ids (.node d (ofList l)) g id)
  have hcnt := pi_cnt h
  cases hf : (allTasks (.node d (ofList l)) []).find? (fun x => x.1 == id) with
  | none =>
    have e : runTask (.node d (ofList l)) g id = (.node d (ofList l), g) := by unfold runTask; rw [hf]
    have hz : cntT (.node d (ofList l)) id = 0 := by
      rw [← cnt_allTasks _ [] id, List.countP_eq_zero]
      intro x hx; exact List.find?_eq_none.1 hf x hx
    rw [cntT, cntL_ofList] at hz
    exact ⟨d, l, g, e, ⟨h, Mono.refl d l, rfl⟩, fun k => Nat.le_refl _, by omega, fun _ => ⟨fun k => Nat.le_refl _, by omega⟩⟩
  | some x =>
    have hx : (x.1 == id) = true := List.find?_some (p := fun (x : Nat × List Nat × TK) => x.1 == id) hf
    have hx' : x.1 = id := by simpa using hx
    have hm := List.mem_of_find?_eq_some hf
    rw [allTasks] at hm
    simp only [List.mem_append, List.mem_map] at hm
    rcases hm with ⟨p, hp, ex⟩ | hm
    · -- the root's own finish notification reaches the owner
      rcases h.phase with ⟨_, ht, _⟩ | ⟨hst, ⟨id0, ht⟩, htr⟩ | ⟨_, ht, _⟩
      · rw [ht] at hp; cases hp
      · rw [ht] at hp; simp at hp; subst hp
        have e0 : id0 = id := by rw [← ex] at hx'; exact hx'
        subst e0
        have e : runTask (.node d (ofList l)) g id0 = (.node (cancelId d id0) (ofList l), g.emit (.rootFin true 0 d.st)) := by
          unfold runTask; rw [hf, ← ex]; simp [splitLast, T.data, T.children]
        rw [e] at hids
        have htasks : (cancelId d id0).tasks = [] := by simp [cancelId, ht]
        have hl0 : leafCnt l id0 = 0 := by
          have := hcnt id0
          have : 1 ≤ cntN d id0 := by unfold cntN; rw [ht]; simp
          omega
        refine ⟨_, _, _, e, ⟨⟨h.gi, hids, h.kind, h.tmoAt, h.slp, h.leaves, ?_, h.now, fun hr => by simp [cancelId, hst] at hr⟩, ?_, rfl⟩,
          fun k => Nat.le_refl _, hl0, fun _ => ⟨fun k => nle_cancelId d id0 k, cntN_cancelId_self d id0⟩⟩
        · right; right
          refine ⟨hst, htasks, ?_⟩
          simp only [G.emit]; rw [trOf_cons_rootFin, htr]
        · exact ⟨rfl, (fun j c c' h1 h2 => by rw [h1] at h2; cases h2; exact Or.inr rfl),
            (fun j c c' h1 h2 hn => by rw [h1] at h2; cases h2; exact hn), (fun _ => hst), (fun _ => ⟨hst, htasks⟩)⟩
      · rw [ht] at hp; cases hp
    · -- the notification of child j reaches the parallel node
      rw [mem_tasksL] at hm
      obtain ⟨j, c, p, hj, hp, ex⟩ := hm
      obtain ⟨s, w, hs⟩ := (h.leaves c (List.mem_iff_getElem?.2 ⟨j, hj⟩)).fins p hp
      have hpid : p.1 = id := by rw [ex] at hx'; exact hx'
      have hpar : d.isPar = true := by simp [Node.isPar, h.kind]
      obtain ⟨d', l', g', e1, hpi, hmono, hnow, hle, hfin⟩ := parOnChild_PI h j id s c hj
      have e : runTask (.node d (ofList l)) g id = (.node d' (ofList l'), g') := by
        unfold runTask; rw [hf, ex, hs]
        simp only [Nat.zero_add, splitLast, modifyAt, onChildFin, hpar, ↓reduceIte, popChild_leaves, e1]
      rw [e] at hids
      have hcj : 1 ≤ cntN c id := by rw [← hpid]; exact cntN_pos c p hp
      have hz1 : leafCnt (upd l j (fun c => cancelId c id)) id = 0 := by
        have a := leafCnt_upd l j (fun c => cancelId c id) c id hj
        rw [cntN_cancelId_self] at a
        have := hcnt id
        omega
      refine ⟨d', l', g', e, ⟨hpi hids, hmono, hnow⟩, fun k => Nat.le_trans (hle k) (leafCnt_upd_le l j id k),
        by have := hle id; omega, fun hf' => ?_⟩
      rw [hfin hf']
      refine ⟨fun k => Nat.le_refl _, ?_⟩
      have := hcnt id
      have := leafCnt_get l j c id hj
      omega

/-! ### timers -/

/-- the callback of one timer, as `fireOne` applies it to a node -/
def timerF (dl : Nat) (b : Bool) : Node → TL → G → Node × TL × G :=
  fun d cs g => if (if b then d.sleepAt else d.tmoAt) == some dl then onTimer d cs g b else (d, cs, g)

def fireN (g : G) (dl : Nat) (b : Bool) (c : Node) : Node :=
  if b = true ∧ c.sleepAt = some dl then leafFin { c with sleepAt := none } g true 3 else c

def fireG (g : G) (dl : Nat) (b : Bool) : Option Node → G
  | some c => if b = true ∧ c.sleepAt = some dl then { g with nextId := g.nextId + 1 } else g
  | none => g

theorem timer_leaf {t0 M : Nat} {c : Node} (h : LeafOk t0 M c) (g : G) (dl : Nat) (b : Bool) :
    timerF dl b c .nil g = (fireN g dl b c, .nil, fireG g dl b (some c)) := by
  unfold timerF fireN fireG
  cases b with
  | false => simp [h.tmo]
  | true =>
    by_cases hs : c.sleepAt = some dl
    · have hr : c.st = .running := by
        rcases h.st with a | a | a
        · exact a
        · have := h.nrun (by rw [a]; simp); rw [this] at hs; cases hs
        · have := h.nrun (by rw [a]; simp); rw [this] at hs; cases hs
      have hfs : isFS ({ c with sleepAt := none } : Node) := h.fs
      simp only [hs, ↓reduceIte, beq_self_eq_true, onTimer, true_and]
      rw [finish_leaf _ g true 3 hfs (Or.inl hr)]
    · have : (c.sleepAt == some dl) = false := by simpa using hs
      simp [hs, this]

theorem fire_leaves {t0 M : Nat} : ∀ (l : List Node) (j : Nat) (p : List Nat) (g : G) (dl : Nat) (b : Bool), (∀ c ∈ l, LeafOk t0 M c) →
    modifyAtL (ofList l) j p (timerF dl b) g =
      (ofList (if p = [] then upd l j (fireN g dl b) else l), if p = [] then fireG g dl b l[j]? else g)
  | [], j, p, g, dl, b, _ => by
    simp [ofList, modifyAtL, upd, fireG]
  | c :: l, 0, p, g, dl, b, h => by
    cases p with
    | nil =>
      simp only [ofList, modifyAtL, modifyAt, ↓reduceIte, upd, List.getElem?_cons_zero]
      rw [timer_leaf (h c (by simp)) g dl b]
    | cons i p' => simp [ofList, modifyAtL, modifyAt]
  | c :: l, j + 1, p, g, dl, b, h => by
    simp only [ofList, modifyAtL]
    rw [fire_leaves l j p g dl b (fun x hx => h x (by simp [hx]))]
    cases p <;> simp [upd, ofList]

theorem leafOk_fireN {t0 M : Nat} {c : Node} (h : LeafOk t0 M c) (g : G) (dl : Nat) (b : Bool) :
    LeafOk t0 M (fireN g dl b c) ∧ ((fireN g dl b c).sleepAt = none ∨ (fireN g dl b c).sleepAt = c.sleepAt) ∧
    (fireN g dl b c).st ≠ .running ∨ fireN g dl b c = c := by
  unfold fireN
  split
  · left
    refine ⟨⟨h.fs, rfl, ?_, Or.inr (Or.inl rfl), fun hr => by simp [leafFin] at hr, fun _ => rfl⟩, Or.inl rfl, by simp [leafFin]⟩
    intro p hp
    simp only [leafFin, List.mem_append, List.mem_singleton] at hp
    rcases hp with hp | hp
    · exact h.fins p hp
    · exact ⟨true, 3, by rw [hp]⟩
  · right; rfl

/-- **one timer fires** (any timer, in any order) -/
theorem fireOne_PI {m : Mode3} {L : List (Nat ⊕ (Bool × Nat))} {fns : List Nat} {t0 M : Nat} {d : Node} {l : List Node} {g : G}
    (h : PI m L fns t0 M d l g) (dl : Nat) (path : List Nat) (b : Bool) :
    ∃ d' l' g', fireOne (.node d (ofList l)) g dl path b = (.node d' (ofList l'), g') ∧ StepOk m L fns t0 M d l g d' l' g' ∧
      (∀ (j : Nat) (c : Node), l[j]? = some c → c.sleepAt = some dl → path = [j] → b = true → ∃ c', l'[j]? = some c' ∧ c'.sleepAt = none) := by
  have hids := idsOk_step h.ids (fireOne_ids (.node d (ofList l)) g dl path b)
  have hF : fireOne (.node d (ofList l)) g dl path b = modifyAt (.node d (ofList l)) path (timerF dl b) g := rfl
  cases path with
  | nil =>
    have e : fireOne (.node d (ofList l)) g dl [] b = (.node d (ofList l), g) := by
      rw [hF, modifyAt]; unfold timerF; cases b <;> simp [h.slp, h.tmoAt]
    exact ⟨d, l, g, e, ⟨h, Mono.refl d l, rfl⟩, fun j c _ _ hp => by cases hp⟩
  | cons j p =>
    have e : fireOne (.node d (ofList l)) g dl (j :: p) b =
        (.node d (ofList (if p = [] then upd l j (fireN g dl b) else l)), if p = [] then fireG g dl b l[j]? else g) := by
      rw [hF, modifyAt, fire_leaves l j p g dl b h.leaves]
    rw [e] at hids
    cases p with
    | cons i p' =>
      simp only [List.cons_ne_nil, ↓reduceIte, reduceCtorEq] at e hids ⊢
      exact ⟨d, l, g, e, ⟨h, Mono.refl d l, rfl⟩, fun j' c _ _ hp => by simp at hp⟩
    | nil =>
      simp only [↓reduceIte] at e hids
      -- the globals: only the id counter moves
      have hg' : GIu (fireG g dl b l[j]?) ∧ (fireG g dl b l[j]?).log = g.log ∧ (fireG g dl b l[j]?).now = g.now := by
        unfold fireG
        cases l[j]? with
        | none => exact ⟨h.gi, rfl, rfl⟩
        | some c =>
          simp only; split
          · exact ⟨⟨⟨h.gi.1.1, by have := h.gi.1.2; simp only []; omega⟩, h.gi.2⟩, rfl, rfl⟩
          · exact ⟨h.gi, rfl, rfl⟩
      have hget : ∀ (k : Nat) (c' : Node), (upd l j (fireN g dl b))[k]? = some c' →
          ∃ c, l[k]? = some c ∧ ((k = j ∧ c' = fireN g dl b c) ∨ (k ≠ j ∧ c' = c)) := by
        intro k c' hk
        rw [upd_get] at hk
        split at hk
        · cases hl : l[k]? with
          | none => rw [hl] at hk; cases hk
          | some c => rw [hl] at hk; simp at hk; exact ⟨c, rfl, Or.inl ⟨by assumption, hk.symm⟩⟩
        · exact ⟨c', hk, Or.inr ⟨by assumption, rfl⟩⟩
      have hleaves : ∀ c ∈ upd l j (fireN g dl b), LeafOk t0 M c := by
        intro c' hc'
        obtain ⟨k, hk⟩ := List.mem_iff_getElem?.1 hc'
        obtain ⟨c, hc, ⟨_, e'⟩ | ⟨_, e'⟩⟩ := hget k c' hk
        · rw [e']
          rcases leafOk_fireN (h.leaves c (List.mem_iff_getElem?.2 ⟨k, hc⟩)) g dl b with a | a
          · exact a.1
          · rw [a]; exact h.leaves c (List.mem_iff_getElem?.2 ⟨k, hc⟩)
        · rw [e']; exact h.leaves c (List.mem_iff_getElem?.2 ⟨k, hc⟩)
      refine ⟨d, _, _, e, ⟨⟨hg'.1, hids, h.kind, h.tmoAt, h.slp, hleaves, ?_, by rw [hg'.2.2]; exact h.now, ?_⟩, ?_, hg'.2.2⟩, ?_⟩
      · unfold Phase; rw [hg'.2.1]; exact h.phase
      · intro hr
        have hb := h.book hr
        refine ⟨hb.keysN, by rw [upd_length]; exact hb.keysB, by rw [upd_length]; exact hb.notFull, ?_, ?_⟩
        · intro k c' hk hcf hct
          obtain ⟨c, hc, ⟨_, e'⟩ | ⟨_, e'⟩⟩ := hget k c' hk
          · have hlo := h.leaves c (List.mem_iff_getElem?.2 ⟨k, hc⟩)
            unfold fireN at e'
            split at e'
            · rw [e'] at hct; simp [leafFin] at hct
            · rw [e'] at hcf hct; exact hb.recd k c hc hcf hct
          · rw [e'] at hcf hct; exact hb.recd k c hc hcf hct
        · intro c' hc'
          obtain ⟨k, hk⟩ := List.mem_iff_getElem?.1 hc'
          obtain ⟨c, hc, ⟨_, e'⟩ | ⟨_, e'⟩⟩ := hget k c' hk
          · have hns := hb.nostop c (List.mem_iff_getElem?.2 ⟨k, hc⟩)
            unfold fireN at e'
            split at e'
            · rw [e']; simp [leafFin]
            · rw [e']; exact hns
          · rw [e']; exact hb.nostop c (List.mem_iff_getElem?.2 ⟨k, hc⟩)
      · refine ⟨upd_length _ _ _, ?_, ?_, fun x => x, fun x => x⟩
        · intro k c c' h1 h2
          obtain ⟨c0, hc0, ⟨_, e'⟩ | ⟨_, e'⟩⟩ := hget k c' h2
          · rw [h1] at hc0; cases hc0
            rcases leafOk_fireN (h.leaves c (List.mem_iff_getElem?.2 ⟨k, h1⟩)) g dl b with a | a
            · rw [e']; exact a.2.1
            · rw [e', a]; exact Or.inr rfl
          · rw [h1] at hc0; cases hc0; rw [e']; exact Or.inr rfl
        · intro k c c' h1 h2 hn
          obtain ⟨c0, hc0, ⟨_, e'⟩ | ⟨_, e'⟩⟩ := hget k c' h2
          · rw [h1] at hc0; cases hc0
            rcases leafOk_fireN (h.leaves c (List.mem_iff_getElem?.2 ⟨k, h1⟩)) g dl b with a | a
            · rw [e']; exact a.2.2
            · rw [e', a]; exact hn
          · rw [h1] at hc0; cases hc0; rw [e']; exact hn
      · intro j' c hc hs hp hb'
        simp at hp; subst hp
        refine ⟨fireN g dl b c, by rw [upd_get, hc]; simp, ?_⟩
        unfold fireN; simp [hb', hs, leafFin]

/-! ### a whole batch -/

theorem StepOk.trans {m : Mode3} {L : List (Nat ⊕ (Bool × Nat))} {fns : List Nat} {t0 M : Nat} {d d1 d2 : Node} {l l1 l2 : List Node} {g g1 g2 : G}
    (a : StepOk m L fns t0 M d l g d1 l1 g1) (b : StepOk m L fns t0 M d1 l1 g1 d2 l2 g2) : StepOk m L fns t0 M d l g d2 l2 g2 :=
  ⟨b.pi, a.mono.trans b.mono, b.now.trans a.now⟩

theorem tasks_fold {m : Mode3} {L : List (Nat ⊕ (Bool × Nat))} {fns : List Nat} {t0 M : Nat} :
    ∀ (ids : List (Nat × Unit)) (d : Node) (l : List Node) (g : G), PI m L fns t0 M d l g →
    ∃ d' l' g', ids.foldl (fun (p : T × G) x => runItem p.1 p.2 x.1) (.node d (ofList l), g) = (.node d' (ofList l'), g') ∧
      StepOk m L fns t0 M d l g d' l' g' ∧ (∀ k, leafCnt l' k ≤ leafCnt l k) ∧ (∀ x ∈ ids, leafCnt l' x.1 = 0) ∧
      (d.st = .finished → (∀ k, cntN d' k ≤ cntN d k) ∧ ∀ x ∈ ids, cntN d' x.1 = 0)
  | [], d, l, g, h => ⟨d, l, g, rfl, ⟨h, Mono.refl d l, rfl⟩, fun k => Nat.le_refl _, (fun x hx => by cases hx),
      fun _ => ⟨fun k => Nat.le_refl _, (fun x hx => by cases hx)⟩⟩
  | x :: ids, d, l, g, h => by
    obtain ⟨d1, l1, g1, e1, s1, a1, b1, c1⟩ := runTask_PI h x.1
    obtain ⟨d2, l2, g2, e2, s2, a2, b2, c2⟩ := tasks_fold ids d1 l1 g1 s1.pi
    have eI : runItem (.node d (ofList l)) g x.1 = runTask (.node d (ofList l)) g x.1 := by simp [runItem, h.gi.2]
    refine ⟨d2, l2, g2, by rw [List.foldl_cons, eI, e1]; exact e2, s1.trans s2, fun k => Nat.le_trans (a2 k) (a1 k), ?_, ?_⟩
    · intro y hy
      rcases List.mem_cons.1 hy with e | hy
      · subst e; have := a2 y.1; omega
      · exact b2 y hy
    · intro hf
      have hf1 := s1.mono.rootSt hf
      refine ⟨fun k => Nat.le_trans ((c2 hf1).1 k) ((c1 hf).1 k), ?_⟩
      intro y hy
      rcases List.mem_cons.1 hy with e | hy
      · subst e; have := (c2 hf1).1 y.1; have := (c1 hf).2; omega
      · exact (c2 hf1).2 y hy

theorem timers_fold {m : Mode3} {L : List (Nat ⊕ (Bool × Nat))} {fns : List Nat} {t0 M : Nat} :
    ∀ (D : List (Nat × List Nat × Bool)) (d : Node) (l : List Node) (g : G), PI m L fns t0 M d l g →
    ∃ d' l' g', D.foldl (fun (p : T × G) x => fireOne p.1 p.2 x.1 x.2.1 x.2.2) (.node d (ofList l), g) = (.node d' (ofList l'), g') ∧
      StepOk m L fns t0 M d l g d' l' g' ∧
      (∀ (j : Nat) (c : Node) (dl : Nat), l[j]? = some c → c.sleepAt = some dl → (dl, [j], true) ∈ D → ∃ c', l'[j]? = some c' ∧ c'.sleepAt = none)
  | [], d, l, g, h => ⟨d, l, g, rfl, ⟨h, Mono.refl d l, rfl⟩, fun j c dl _ _ hx => by cases hx⟩
  | x :: D, d, l, g, h => by
    obtain ⟨d1, l1, g1, e1, s1, a1⟩ := fireOne_PI h x.1 x.2.1 x.2.2
    obtain ⟨d2, l2, g2, e2, s2, a2⟩ := timers_fold D d1 l1 g1 s1.pi
    refine ⟨d2, l2, g2, by rw [List.foldl_cons, e1]; exact e2, s1.trans s2, ?_⟩
    intro j c dl hc hs hmem
    have hj1 : ∃ c1, l1[j]? = some c1 := by
      have hlt : j < l.length := by
        rcases Nat.lt_or_ge j l.length with h1 | h1
        · exact h1
        · rw [List.getElem?_eq_none h1] at hc; cases hc
      exact ⟨l1[j]'(by rw [s1.mono.len]; exact hlt), List.getElem?_eq_getElem (by rw [s1.mono.len]; exact hlt)⟩
    obtain ⟨c1, hc1⟩ := hj1
    have hj2 : ∃ c2, l2[j]? = some c2 := by
      have hlt : j < l1.length := by
        rcases Nat.lt_or_ge j l1.length with h1 | h1
        · exact h1
        · rw [List.getElem?_eq_none h1] at hc1; cases hc1
      exact ⟨l2[j]'(by rw [s2.mono.len]; exact hlt), List.getElem?_eq_getElem (by rw [s2.mono.len]; exact hlt)⟩
    obtain ⟨c2, hc2⟩ := hj2
    have keep : c1.sleepAt = none → c2.sleepAt = none := by
      intro hn; rcases s2.mono.slp j c1 c2 hc1 hc2 with e | e
      · exact e
      · rw [e, hn]
    rcases List.mem_cons.1 hmem with e | hmem
    · obtain ⟨c1', hc1', hn⟩ := a1 j c hc (by rw [← e]; exact hs) (by rw [← e]) (by rw [← e])
      rw [hc1] at hc1'; cases hc1'
      exact ⟨c2, hc2, keep hn⟩
    · rcases s1.mono.slp j c c1 hc hc1 with e | e
      · exact ⟨c2, hc2, keep e⟩
      · exact a2 j c1 dl hc1 (by rw [e, hs]) hmem

theorem mem_insertBy {α : Type} (x y : Nat × α) : ∀ (l : List (Nat × α)), y ∈ insertBy x l ↔ y = x ∨ y ∈ l
  | [] => by simp [insertBy]
  | z :: zs => by
    simp only [insertBy]; split
    · simp
    · simp only [List.mem_cons, mem_insertBy x y zs]
      constructor
      · rintro (h | h | h) <;> simp [h]
      · rintro (h | h | h) <;> simp [h]

theorem mem_sortBy {α : Type} (y : Nat × α) : ∀ (l : List (Nat × α)), y ∈ sortBy l ↔ y ∈ l
  | [] => by simp [sortBy]
  | x :: xs => by
    have ih := mem_sortBy y xs
    simp only [sortBy, List.foldr_cons] at ih ⊢
    rw [mem_insertBy, ih]; simp

theorem pi_adv {m : Mode3} {L : List (Nat ⊕ (Bool × Nat))} {fns : List Nat} {t0 M : Nat} {d : Node} {l : List Node} {g : G}
    (h : PI m L fns t0 M d l g) (op : Op) : PI m L fns t0 M d l (advG g op) := by
  have hs : GSame (advG g op) g := by cases op <;> exact ⟨rfl, rfl⟩
  refine ⟨advG_GIu g op h.gi, idsOk_same h.ids hs, h.kind, h.tmoAt, h.slp, h.leaves, ?_, ?_, h.book⟩
  · unfold Phase; rw [advG_log]; exact h.phase
  · have := h.now; cases op <;> simp [advG] <;> omega

theorem get_lt {l : List Node} {j : Nat} {c : Node} (h : l[j]? = some c) : j < l.length := by
  rcases Nat.lt_or_ge j l.length with h1 | h1
  · exact h1
  · rw [List.getElem?_eq_none h1] at h; cases h

theorem norun_mono {d d' : Node} {l l' : List Node} (hm : Mono d l d' l') (h : ∀ c ∈ l, c.st ≠ .running) : ∀ c ∈ l', c.st ≠ .running := by
  intro c' hc'
  obtain ⟨k, hk⟩ := List.mem_iff_getElem?.1 hc'
  obtain ⟨c, hc⟩ := get_of_len hm.len k c' hk
  exact hm.run k c c' hc hk (h c (List.mem_iff_getElem?.2 ⟨k, hc⟩))

/-- **one op of a control-free run** (the rest of a loop pass and the timer phase of the next one): the invariant is kept, and
(1) a big op lets every armed SleepAction expire; (2) once no child is running, the batch delivers every child's notification
and the parallel node has finished; (3) once it has finished, the batch delivers its own notification -/
theorem step_PI {m : Mode3} {L : List (Nat ⊕ (Bool × Nat))} {fns : List Nat} {t0 M : Nat} {d : Node} {l : List Node} {g : G}
    (h : PI m L fns t0 M d l g) (op : Op) (hop : cfOp op = true) :
    ∃ d' l' g', step (.node d (ofList l)) g op = (.node d' (ofList l'), g', []) ∧ PI m L fns t0 M d' l' g' ∧ Mono d l d' l' ∧
      (big M op = true → ∀ c ∈ l', c.st ≠ .running) ∧
      ((∀ c ∈ l, c.st ≠ .running) → d'.st = .finished) ∧
      (d.st = .finished → d'.tasks = []) := by
  have h0 := pi_adv h op
  rw [step_cf _ g op hop]
  unfold runQueue
  rw [show (advG g op).user = [] from h0.gi.2]
  simp only [List.map_nil, List.append_nil]
  obtain ⟨d1, l1, g1, e1, s1, a1, b1, c1⟩ := tasks_fold (sortBy ((allTasks (.node d (ofList l)) []).map fun x => (x.1, ()))) d l (advG g op) h0
  rw [e1]
  unfold fireTimers
  obtain ⟨d2, l2, g2, e2, s2, a2⟩ := timers_fold (sortBy ((allTimers (.node d1 (ofList l1)) []).filter (fun x => x.1 ≤ g1.now))) d1 l1 g1 s1.pi
  simp only []
  rw [e2]
  -- every queued child notification has been delivered by the batch
  have hdel : ∀ k, leafCnt l1 k = 0 := by
    intro k
    by_cases hz : leafCnt l k = 0
    · have := a1 k; omega
    · have hpos : 0 < cntT (.node d (ofList l)) k := by rw [cntT, cntL_ofList]; omega
      rw [← cnt_allTasks _ [] k] at hpos
      obtain ⟨x, hx, hxk⟩ := List.countP_pos_iff.1 hpos
      have hxk' : x.1 = k := by simpa using hxk
      have := b1 (k, ()) ((mem_sortBy _ _).2 (List.mem_map.2 ⟨x, hx, by rw [hxk']⟩))
      exact this
  have hnot : ∀ c ∈ l1, c.tasks = [] := by
    intro c hc
    obtain ⟨k, hk⟩ := List.mem_iff_getElem?.1 hc
    apply cntN_zero_tasks
    intro i; have := leafCnt_get l1 k c i hk; have := hdel i; omega
  refine ⟨d2, l2, g2, rfl, s2.pi, s1.mono.trans s2.mono, ?_, ?_, ?_⟩
  · -- (1)
    intro hbig c2 hc2 hrun
    obtain ⟨k, hk2⟩ := List.mem_iff_getElem?.1 hc2
    obtain ⟨c1', hk1⟩ := get_of_len s2.mono.len k c2 hk2
    have hlo2 := s2.pi.leaves c2 hc2
    obtain ⟨_, dl, hdl, _⟩ := hlo2.run hrun
    have hs1 : c1'.sleepAt = some dl := by
      rcases s2.mono.slp k c1' c2 hk1 hk2 with e | e
      · rw [e] at hdl; cases hdl
      · rw [← e]; exact hdl
    have hlo1 := s1.pi.leaves c1' (List.mem_iff_getElem?.2 ⟨k, hk1⟩)
    have hr1 : c1'.st = .running := by
      rcases hlo1.st with a | a | a
      · exact a
      · have := hlo1.nrun (by rw [a]; simp); rw [this] at hs1; cases hs1
      · have := hlo1.nrun (by rw [a]; simp); rw [this] at hs1; cases hs1
    obtain ⟨_, dl', hdl', hle⟩ := hlo1.run hr1
    rw [hs1] at hdl'; cases hdl'
    have hnow : t0 + M ≤ g1.now := by
      rw [s1.now]
      have := h.now
      cases op <;> simp [big, advG] at hbig ⊢ <;> omega
    have hmem : (dl, [k], true) ∈ sortBy ((allTimers (.node d1 (ofList l1)) []).filter (fun x => x.1 ≤ g1.now)) := by
      rw [mem_sortBy, List.mem_filter]
      refine ⟨?_, by simp; omega⟩
      rw [allTimers]; simp only [List.mem_append]; right
      rw [mem_timersL]; exact ⟨k, c1', hk1, Or.inl ⟨hs1, rfl⟩, by simp⟩
    obtain ⟨c2', hk2', hn⟩ := a2 k c1' dl hk1 hs1 hmem
    rw [hk2] at hk2'; cases hk2'
    rw [hn] at hdl; cases hdl
  · -- (2)
    intro hnr
    have hnr1 := norun_mono s1.mono hnr
    have hd1 : d1.st = .finished := by
      rcases s1.pi.phase with ⟨hst, _, _⟩ | ⟨hst, _⟩ | ⟨hst, _⟩
      · exfalso
        have hb := s1.pi.book hst
        have hall : ∀ j, j < l1.length → j ∈ keys d1.finished := by
          intro j hj
          have hc : l1[j]? = some (l1[j]'hj) := List.getElem?_eq_getElem hj
          have hm : l1[j]'hj ∈ l1 := List.mem_iff_getElem?.2 ⟨j, hc⟩
          refine hb.recd j _ hc ?_ (hnot _ hm)
          rcases (s1.pi.leaves _ hm).st with a | a | a
          · exact absurd a (hnr1 _ hm)
          · exact a
          · exact absurd a (hb.nostop _ hm)
        have := keys_full _ _ hb.keysN hb.keysB hall
        rw [keys_length] at this
        exact hb.notFull this
      · exact hst
      · exact hst
    exact s2.mono.rootSt hd1
  · -- (3)
    intro hf
    have hd1 := s1.mono.rootSt hf
    have ht1 : d1.tasks = [] := by
      apply cntN_zero_tasks
      intro k
      by_cases hz : cntN d k = 0
      · have := (c1 hf).1 k; omega
      · have hpos : 0 < cntN d k := by omega
        unfold cntN at hpos
        obtain ⟨p, hp, hpk⟩ := List.countP_pos_iff.1 hpos
        have hpk' : p.1 = k := by simpa using hpk
        have hx : (p.1, ([] : List Nat), p.2) ∈ allTasks (.node d (ofList l)) [] := by
          rw [allTasks]; simp only [List.mem_append, List.mem_map]; left; exact ⟨p, hp, rfl⟩
        have := (c1 hf).2 (k, ()) ((mem_sortBy _ _).2 (List.mem_map.2 ⟨_, hx, by simp [hpk']⟩))
        exact this
    exact (s2.mono.deliv ⟨hd1, ht1⟩).2

/-! ### the run -/

/-- progress: 1 = no child is running any more, 2 = the parallel node has finished, 3 = its notification is delivered -/
def Stg (k : Nat) (d : Node) (l : List Node) : Prop :=
  (1 ≤ k → ∀ c ∈ l, c.st ≠ .running) ∧ (2 ≤ k → d.st = .finished) ∧ (3 ≤ k → d.tasks = [])

theorem run_PI {m : Mode3} {L : List (Nat ⊕ (Bool × Nat))} {fns : List Nat} {t0 M : Nat} :
    ∀ (ops : List Op) (d : Node) (l : List Node) (g : G), PI m L fns t0 M d l g → ops.all cfOp = true →
    ∃ d' l' g', run (.node d (ofList l)) g ops = (.node d' (ofList l'), g') ∧ PI m L fns t0 M d' l' g' ∧
      ∀ k, Stg k d l → Stg (k + bigCount M ops) d' l'
  | [], d, l, g, h, _ => ⟨d, l, g, rfl, h, fun k hk => by simpa [bigCount_nil] using hk⟩
  | op :: ops, d, l, g, h, hcf => by
    simp only [List.all_cons, Bool.and_eq_true] at hcf
    obtain ⟨d1, l1, g1, e1, h1, hm, p1, p2, p3⟩ := step_PI h op hcf.1
    obtain ⟨d2, l2, g2, e2, h2, hs⟩ := run_PI ops d1 l1 g1 h1 hcf.2
    refine ⟨d2, l2, g2, by rw [run, e1]; exact e2, h2, fun k hk => ?_⟩
    rw [bigCount_cons]
    have stable : Stg k d1 l1 := by
      refine ⟨fun a => norun_mono hm (hk.1 a), fun a => hm.rootSt (hk.2.1 a), fun a => ?_⟩
      exact (hm.deliv ⟨hk.2.1 (by omega), hk.2.2 a⟩).2
    by_cases hb : big M op = true
    · simp only [hb, ↓reduceIte]
      have adv : Stg (k + 1) d1 l1 := by
        refine ⟨fun _ => ?_, fun a => ?_, fun a => ?_⟩
        · by_cases h1k : 1 ≤ k
          · exact stable.1 h1k
          · exact p1 hb
        · by_cases h2k : 2 ≤ k
          · exact stable.2.1 h2k
          · exact p2 (hk.1 (by omega))
        · by_cases h3k : 3 ≤ k
          · exact stable.2.2 h3k
          · exact p3 (hk.2.1 (by omega))
      have := hs (k + 1) adv
      have e : k + 1 + bigCount M ops = k + (1 + bigCount M ops) := by omega
      rw [e] at this; exact this
    · simp only [hb, Bool.false_eq_true, ↓reduceIte, Nat.zero_add]
      exact hs k stable

/-! ### the start -/

/-- the leaves the theorems speak about: freshly built FunctionAction / SleepAction without timeout -/
def leafOkB (c : Node) : Bool :=
  cleanNode c && c.tmo.isNone && (match c.kind with | .func _ _ => true | .sleep _ => true | _ => false)

/-- ids of the FunctionAction leaves, in child order: the order in which `ParallelAction::onStart` calls them -/
def fnIds (l : List Node) : List Nat := l.filterMap (fun c => match c.kind with | .func _ _ => some c.id | _ => none)

def maxMs (l : List Node) : Nat := (l.map (fun c => match c.kind with | .sleep ms => ms | _ => 0)).foldr max 0

def startN (g : G) (c : Node) : Node × G :=
  match c.kind with
  | .func s tag => (funcDone c g s tag, { (g.emit (.fn c.id)) with nextId := g.nextId + 1 })
  | .sleep ms => (sleepRun c g.now ms, g)
  | _ => (c, g)

def startLs : List Node → G → List Node × G
  | [], g => ([], g)
  | c :: l, g => ((startN g c).1 :: (startLs l (startN g c).2).1, (startLs l (startN g c).2).2)

theorem start_leaf (c : Node) (g : G) (h : leafOkB c = true) : start (.node c .nil) g = (.node (startN g c).1 .nil, (startN g c).2, true) := by
  simp only [leafOkB, Bool.and_eq_true, Option.isNone_iff_eq_none] at h
  obtain ⟨c1, c2, c3, c4, c5, c6, c7, c8, c9, c10, c11⟩ := clean_fields c h.1.1
  have htmo := h.1.2
  cases hk : c.kind with
  | func s tag =>
    have hsh : c.shape = .leaf := by simp [Node.shape, Node.isLeaf, hk]
    rw [start]
    simp only [c1, hsh, hk, startN]
    cases tag <;> simp [finish, c1, Node.isLeaf, hk, post, onFinal, Node.started, G.emit, c3, c11, funcDone, fnWhy]
  | sleep ms =>
    have hsh : c.shape = .leaf := by simp [Node.shape, Node.isLeaf, hk]
    rw [start]
    simp only [c1, hsh, hk, startN]
    simp [Node.started, c1, armTmo, htmo, sleepRun, c4, hk]
  | _ => rw [hk] at h; simp at h

theorem startChildren_leaves : ∀ (l : List Node) (k : Nat) (saf : Bool) (g : G), (∀ c ∈ l, leafOkB c = true) →
    startChildren (ofList l) k saf g = (ofList (startLs l g).1, (startLs l g).2, [])
  | [], _, _, _, _ => by simp [ofList, startChildren, startLs]
  | c :: l, k, saf, g, h => by
    simp only [ofList, startChildren, startLs]
    rw [start_leaf c g (h c (by simp))]
    simp only [Bool.not_true, Bool.false_and, Bool.false_eq_true, ↓reduceIte]
    rw [startChildren_leaves l (k + 1) saf _ (fun x hx => h x (by simp [hx]))]

/-- a leaf right after the start of its parent -/
structure Started (t0 M : Nat) (c : Node) : Prop where
  ok : LeafOk t0 M c
  busy : c.st = .finished → c.tasks ≠ []
  nostop : c.st ≠ .stoped

theorem startN_ok (g : G) (c : Node) (M : Nat) (h : leafOkB c = true) (hM : (match c.kind with | .sleep ms => ms | _ => 0) ≤ M) (hg : GIu g) :
    Started g.now M (startN g c).1 ∧ GIu (startN g c).2 ∧ (startN g c).2.now = g.now ∧
    trOf (startN g c).2.log = trOf g.log ++ (fnIds [c]).map Sum.inl := by
  simp only [leafOkB, Bool.and_eq_true, Option.isNone_iff_eq_none] at h
  obtain ⟨c1, c2, c3, c4, c5, c6, c7, c8, c9, c10, c11⟩ := clean_fields c h.1.1
  cases hk : c.kind with
  | func s tag =>
    simp only [startN, hk, fnIds, List.filterMap_cons, List.filterMap_nil, List.map_cons, List.map_nil]
    refine ⟨⟨⟨Or.inl ⟨s, tag, hk⟩, rfl, ?_, Or.inr (Or.inl rfl), fun hr => by simp [funcDone] at hr, fun _ => c5⟩,
      fun _ => by simp [funcDone], by simp [funcDone]⟩, ⟨⟨hg.1.1, by have := hg.1.2; simp only [G.emit]; omega⟩, hg.2⟩, rfl, ?_⟩
    · intro p hp; simp [funcDone] at hp; exact ⟨s, fnWhy tag, by rw [hp]⟩
    · simp [G.emit, trOf_cons_fn]
  | sleep ms =>
    rw [hk] at hM
    simp only [startN, hk, fnIds, List.filterMap_cons, List.filterMap_nil, List.map_nil, List.append_nil]
    refine ⟨⟨⟨Or.inr ⟨ms, hk⟩, c4, fun p hp => by simp [sleepRun, c3] at hp, Or.inl rfl,
      fun _ => ⟨by simp [sleepRun, c3], g.now + ms, rfl, by simp at hM; omega⟩, fun hn => by simp [sleepRun] at hn⟩,
      fun hf => by simp [sleepRun] at hf, by simp [sleepRun]⟩, hg, by first | trivial | rfl, by first | trivial | rfl⟩
  | _ => rw [hk] at h; simp at h

theorem maxMs_cons (c : Node) (l : List Node) : maxMs (c :: l) = max (match c.kind with | .sleep ms => ms | _ => 0) (maxMs l) := rfl

theorem startLs_ok (M : Nat) : ∀ (l : List Node) (g : G), (∀ c ∈ l, leafOkB c = true) → maxMs l ≤ M → GIu g →
    (∀ c ∈ (startLs l g).1, Started g.now M c) ∧ GIu (startLs l g).2 ∧ (startLs l g).2.now = g.now ∧
    trOf (startLs l g).2.log = trOf g.log ++ (fnIds l).map Sum.inl ∧ (startLs l g).1.length = l.length
  | [], g, _, _, hg => by simp [startLs, fnIds, hg]
  | c :: l, g, h, hM, hg => by
    rw [maxMs_cons] at hM
    obtain ⟨a1, a2, a3, a4⟩ := startN_ok g c M (h c (by simp)) (by omega) hg
    obtain ⟨b1, b2, b3, b4, b5⟩ := startLs_ok M l (startN g c).2 (fun x hx => h x (by simp [hx])) (by omega) a2
    simp only [startLs]
    refine ⟨?_, b2, b3.trans a3, ?_, by simp [b5]⟩
    · intro x hx
      rcases List.mem_cons.1 hx with e | hx
      · rw [e]; exact a1
      · have := b1 x hx; rw [a3] at this; exact this
    · rw [b4, a4]
      have : fnIds (c :: l) = fnIds [c] ++ fnIds l := by simp [fnIds, List.filterMap_cons]; split <;> simp
      rw [this]; simp

theorem cleanL_ofList : ∀ (l : List Node), (∀ c ∈ l, leafOkB c = true) → CleanL (ofList l) = true
  | [], _ => rfl
  | c :: l, h => by
    have hc := h c (by simp)
    simp only [leafOkB, Bool.and_eq_true] at hc
    simp [ofList, CleanL, Clean, hc.1.1, cleanL_ofList l (fun x hx => h x (by simp [hx]))]

/-- **the start of a ParallelAction over leaves**: every child is started, in child order; the invariant holds -/
theorem start_PI (d : Node) (l : List Node) (m : Mode3) (M : Nat) (g : G) (hk : d.kind = .par m) (htmo : d.tmo = none)
    (hc : cleanNode d = true) (hl : ∀ c ∈ l, leafOkB c = true) (hM : maxMs l ≤ M) (hg : GIu g) :
    ∃ d0 l0 g0, start (.node d (ofList l)) g = (.node d0 (ofList l0), g0, true) ∧
      PI m (trOf g.log) (fnIds l) g.now M d0 l0 g0 ∧ l0.length = l.length := by
  obtain ⟨c1, c2, c3, c4, c5, c6, c7, c8, c9, c10, c11⟩ := clean_fields d hc
  obtain ⟨a1, a2, a3, a4, a5⟩ := startLs_ok M l g hl hM hg
  have hclean : Clean (.node d (ofList l)) = true := by simp [Clean, hc, cleanL_ofList l hl]
  have hids0 : IdsOk (.node d (ofList l)) g := by
    intro id; rw [cnt_clean _ hclean id]; unfold cntU; rw [hg.2]; simp
  have hids := idsOk_step hids0 (start_ids (.node d (ofList l)) g)
  have hsh : d.shape = .par := by simp [Node.shape, Node.isLeaf, Node.isPar, hk]
  have hmode : d.parMode = m := by simp [Node.parMode, hk]
  have hst : start (.node d (ofList l)) g =
      if l.length = 0 then (.node (parFin d (startLs l g).2) (ofList ((startLs l g).1.map stopN)), parFinG d (startLs l g).2, true)
      else (.node { d with st := .running } (ofList (startLs l g).1), (startLs l g).2, true) := by
    cases l with
    | nil =>
      rw [start]
      simp [c1, hsh, hmode, startChildren, c9, finish, Node.isLeaf, Node.isPar, hk, hg.1.1, stopAll, post, onFinal, G.emit, parFin, parFinG,
        Node.started, TL.length, ofList, startLs, c3, c11]
    | cons c l' =>
      rw [start]
      simp only [c1, hsh, hmode]
      rw [startChildren_leaves (c :: l') 0 _ g hl]
      have : (0 == (c :: l').length) = false := by simp
      simp [c9, ofList_length, this, Node.started, c1, armTmo, htmo, c4]
  rw [hst] at hids ⊢
  by_cases hn : l.length = 0
  · rw [if_pos hn] at hids ⊢
    refine ⟨_, _, _, rfl, ?_, by rw [List.length_map, a5]⟩
    refine ⟨⟨⟨a2.1.1, by have := a2.1.2; simp only [parFinG]; omega⟩, a2.2⟩, hids, hk, rfl, c5, leaves_map (fun c hc => (a1 c hc).ok), ?_,
      by simp [parFinG, a3], fun hr => by simp [parFin] at hr⟩
    right; left
    refine ⟨rfl, ⟨(startLs l g).2.nextId, by simp [parFin, c3]⟩, ?_⟩
    simp only [parFinG]; rw [trOf_cons_other _ _ (by intro n; simp) (by intro s w st; simp)]; exact a4
  · rw [if_neg hn] at hids ⊢
    refine ⟨_, _, _, rfl, ?_, a5⟩
    refine ⟨a2, hids, hk, c4, c5, fun c hc => (a1 c hc).ok, Or.inl ⟨rfl, c3, a4⟩, by rw [a3]; exact Nat.le_refl _, fun _ => ?_⟩
    refine ⟨by simp [keys, c9], by simp [keys, c9], by simp [c9, a5]; omega, ?_, fun c hc => (a1 c hc).nostop⟩
    intro j c hj hf ht
    exact absurd ht ((a1 c (List.mem_iff_getElem?.2 ⟨j, hj⟩)).busy hf)

/-! ### the theorem -/

theorem evalAll_ofList : ∀ (l : List Node), (∀ c ∈ l, leafOkB c = true) → evalAllTerminate (ofList l) = true
  | [], _ => rfl
  | c :: l, h => by
    have hc := h c (by simp)
    simp only [leafOkB, Bool.and_eq_true] at hc
    have : (eval (.node c .nil)).isSome = true := by
      rw [eval]; revert hc; cases c.kind <;> simp
    simp [ofList, evalAllTerminate, this, evalAll_ofList l (fun x hx => h x (by simp [hx]))]

theorem quietL_ofList : ∀ (l : List Node), (∀ c ∈ l, c.underway = false) → QuietL (ofList l) = true
  | [], _ => rfl
  | c :: l, h => by
    simp [ofList, QuietL, Quiet, h c (by simp), quietL_ofList l (fun x hx => h x (by simp [hx]))]

/-- **ParallelAction over leaves, whole run** — see `C17_result_matches_doc_par_leaves` / `C17_par_leaves_finishes_exactly_once` -/
theorem par_leaves_run (d : Node) (l : List Node) (m : Mode3) (M : Nat) (hk : d.kind = .par m) (htmo : d.tmo = none)
    (hc : cleanNode d = true) (hl : ∀ c ∈ l, leafOkB c = true) (hM : maxMs l ≤ M) (ops : List Op) (hcf : ops.all cfOp = true) :
    eval (.node d (ofList l)) = some (true, 0) ∧
    (trOf (run (.node d (ofList l)) {} (.calls [.start] :: ops)).2.log = (fnIds l).map Sum.inl ∨
     trOf (run (.node d (ofList l)) {} (.calls [.start] :: ops)).2.log = (fnIds l).map Sum.inl ++ [Sum.inr (true, 0)]) ∧
    (3 ≤ bigCount M ops →
      trOf (run (.node d (ofList l)) {} (.calls [.start] :: ops)).2.log = (fnIds l).map Sum.inl ++ [Sum.inr (true, 0)] ∧
      (run (.node d (ofList l)) {} (.calls [.start] :: ops)).1.data.st = .finished ∧
      Quiet (run (.node d (ofList l)) {} (.calls [.start] :: ops)).1 = true) := by
  have hg0 : GIu ({} : G) := ⟨GI_init, rfl⟩
  obtain ⟨d0, l0, g0, e0, h0, _⟩ := start_PI d l m M {} hk htmo hc hl hM hg0
  have er : run (.node d (ofList l)) {} (.calls [.start] :: ops) = run (.node d0 (ofList l0)) g0 (.pass :: ops) := by
    rw [run, run]
    have := step_start (.node d (ofList l)) {}
    simp only [Prod.mk.injEq] at this
    rw [this.1, this.2, e0]
  have hcf1 : (Op.pass :: ops).all cfOp = true := by simp [cfOp, hcf]
  obtain ⟨d1, l1, g1, e1, h1, hs⟩ := run_PI (.pass :: ops) d0 l0 g0 h0 hcf1
  rw [er, e1]
  simp only [trOf_nil, List.nil_append] at h1
  refine ⟨?_, ?_, ?_⟩
  · rw [eval]; simp [hk, evalAll_ofList l hl]
  · rcases h1.phase with ⟨_, _, a⟩ | ⟨_, _, a⟩ | ⟨_, _, a⟩
    · left; simpa using a
    · left; simpa using a
    · right; simpa using a
  · intro hb
    have hst := hs 0 ⟨fun a => by omega, fun a => by omega, fun a => by omega⟩
    rw [bigCount_cons] at hst
    have h3 : 3 ≤ 0 + ((if big M Op.pass = true then 1 else 0) + bigCount M ops) := by omega
    have s1 := hst.1 (by omega)
    have s2 := hst.2.1 (by omega)
    have s3 := hst.2.2 h3
    refine ⟨?_, s2, ?_⟩
    · rcases h1.phase with ⟨a, _, _⟩ | ⟨_, ⟨id, a⟩, _⟩ | ⟨_, _, a⟩
      · rw [s2] at a; cases a
      · rw [s3] at a; cases a
      · simpa using a
    · simp only [Quiet, Node.underway, s2, Bool.and_eq_true]
      refine ⟨by decide, quietL_ofList l1 ?_⟩
      intro c hc'
      rcases (h1.leaves c hc').st with a | a | a
      · exact absurd a (s1 c hc')
      · simp [Node.underway, a]
      · simp [Node.underway, a]

end Tbox.C17
