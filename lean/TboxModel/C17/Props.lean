/-
C17 — PROPERTY THEOREMS.  "Action trees finish once with the documented result; nothing left running."

Layer 1 (Action base lifecycle + the loop's deferred queue) — full, over every operation sequence.
Layer 2 (trees) — the tree invariant `WF` (Inv.lean) is PROVED inductive: it holds in every state
reachable from a freshly built tree by any sequence of ops (control calls at any pass, deferred calls,
emits, clock steps, loop passes), for every tree shape.  Its corollaries: nothing left running below
an ended action, no stale notification queued anywhere in the tree, the final hook ran exactly once
iff the action ended, reset returns the freshly built state.  The control flow of SequenceAction is
proved equal to the documented loop for any number of children; counterexample theorems (kernel
evaluation of the model in the unrepaired configuration) for the defects repaired by
patches/C17-01…05 (01–04 with counterexamples), each paired with the theorem that the repaired configuration behaves.

What is NOT closed is listed at the end as `-- OPEN`.
-/
import TboxModel.C17.BaseProofs
import TboxModel.C17.InvProofs
import TboxModel.C17.SeqProofs
import TboxModel.C17.ExecProofs
import TboxModel.C17.Sim7
import TboxModel.C17.ReentProofs
import TboxModel.C17.Ids
import TboxModel.C17.ExecLog
import TboxModel.C17.Rerun
import TboxModel.C17.Local
import TboxModel.C17.ParLeaves
import TboxModel.C17.NotStuck
import TboxModel.C17.LateProofs
import TboxModel.C17.Tmo
import TboxModel.C17.SimBatch
import TboxModel.C17.TmoCtlProofs
import TboxModel.C17.ParChild3
import TboxModel.C17.ParChild5
namespace Tbox.C17

/-! ## Layer 1 — one action, every call sequence

`brun (.node (action0 tmo) .nil) {} ops` is the state after ANY list `ops` of: start / pause / resume /
stop / reset, the action calling finish(s,w) or block(w) in any state, its timeout firing, the loop
running any queued task id (in any order, also ids that do not exist), clock steps. -/

/-- **finish exactly once**: between two resets at most one finish notification is delivered. -/
theorem C17_base_finish_once (tmo : Option Nat) (ops : List BOp) :
    finsSinceReset (brun (.node (action0 tmo) .nil) {} ops).2.log ≤ 1 := by
  obtain ⟨d, _, h⟩ := brun_inv ops (action0 tmo) {} (init_inv tmo)
  have := h.once; omega

/-- **no stale notification**: every finish notification ever delivered found the action in state
Finished (so none is delivered for a run that was reset, and a stopped action delivers none), and
every block notification found it neither Idle nor Stoped. -/
theorem C17_base_no_stale_after_reset (tmo : Option Nat) (ops : List BOp) :
    (∀ s w st, Ev.rootFin s w st ∈ (brun (.node (action0 tmo) .nil) {} ops).2.log → st = .finished) ∧
    (∀ w st, Ev.rootBlk w st ∈ (brun (.node (action0 tmo) .nil) {} ops).2.log → st ≠ .idle ∧ st ≠ .stoped) := by
  obtain ⟨d, _, h⟩ := brun_inv ops (action0 tmo) {} (init_inv tmo)
  exact ⟨h.logFin, h.logBlk⟩

/-- the same, as a statement about the queue: in every reachable state a queued finish notification
exists only while the action is Finished, a queued block notification only while it is neither Idle
nor Stoped; in particular right after reset() or stop() nothing of that action is queued. -/
theorem C17_base_stopped_delivers_none (tmo : Option Nat) (ops : List BOp) :
    ∃ d, (brun (.node (action0 tmo) .nil) {} ops).1 = .node d .nil ∧
      (∀ p ∈ d.tasks, p.2.isFin = true → d.st = .finished) ∧
      (∀ p ∈ d.tasks, p.2.isBlk = true → d.st ≠ .idle ∧ d.st ≠ .stoped) ∧
      ((d.st = .idle ∨ d.st = .stoped) → d.tasks = []) := by
  obtain ⟨d, e, h⟩ := brun_inv ops (action0 tmo) {} (init_inv tmo)
  refine ⟨d, e, fun p hp hf => (h.fins p hp hf).1, fun p hp hf => ⟨(h.blks p hp hf).2.2.1, (h.blks p hp hf).2.2.2⟩, ?_⟩
  intro hs
  cases hl : d.tasks with
  | nil => rfl
  | cons p ps =>
    have hp : p ∈ d.tasks := by rw [hl]; simp
    rcases h.only p hp with hf | hb
    · have := (h.fins p hp hf).1; rcases hs with hs | hs <;> simp [hs] at this
    · have := h.blks p hp hb; rcases hs with hs | hs
      · exact absurd hs this.2.2.1
      · exact absurd hs this.2.2.2

/-- **the final hook**: `onFinal` is the one place where the final callback event is emitted (for an
assemble action) and where the ghost counter `finals` is incremented; `finish` reaches it exactly when
it takes the action from a not-ended state to Finished, `stop` exactly when it takes it from
Running/Pause to Stoped. -/
theorem C17_final_hook (d : Node) (cs : TL) (g : G) (s : Bool) (w : Nat) :
    ((onFinal d g).1.finals = d.finals + 1 ∧ (onFinal d g).2.log = if d.isLeaf then g.log else .final d.id :: g.log) ∧
    ((finish d cs g s w).2.2.2 = true ↔ (d.st ≠ .finished ∧ d.st ≠ .stoped)) ∧
    ((finish d cs g s w).2.2.2 = false → finish d cs g s w = (d, cs, g, false)) ∧
    (d.underway = false → stop (.node d cs) g = (.node d cs, g)) := by
  refine ⟨⟨rfl, ?_⟩, ?_, ?_, ?_⟩
  · unfold onFinal; split <;> simp [G.emit]
  · unfold finish; split <;> rename_i h <;> simp at h ⊢ <;> grind
  · unfold finish; split
    · intro _; rfl
    · simp
  · intro h; rw [stop]; simp [h]

theorem wf_finals (r : T) (hw : WF r = true) :
    AllNodes (fun d => d.finals == (if d.ended then 1 else 0)) r = true := by
  have h := wf_allNodes _ hw
  have key : ∀ (P Q : Node → Bool), (∀ d, P d = true → Q d = true) →
      (∀ t, AllNodes P t = true → AllNodes Q t = true) ∧ (∀ cs, AllNodesL P cs = true → AllNodesL Q cs = true) := by
    intro P Q hPQ
    exact ⟨fun t => T.rec (motive_1 := fun t => AllNodes P t = true → AllNodes Q t = true)
        (motive_2 := fun cs => AllNodesL P cs = true → AllNodesL Q cs = true)
        (fun d cs ih h => by simp only [AllNodes, Bool.and_eq_true] at h ⊢; exact ⟨hPQ d h.1, ih h.2⟩)
        (fun _ => by simp [AllNodesL])
        (fun t ts iht ihts h => by simp only [AllNodesL, Bool.and_eq_true] at h ⊢; exact ⟨iht h.1, ihts h.2⟩) t,
      fun cs => TL.rec (motive_1 := fun t => AllNodes P t = true → AllNodes Q t = true)
        (motive_2 := fun cs => AllNodesL P cs = true → AllNodesL Q cs = true)
        (fun d cs ih h => by simp only [AllNodes, Bool.and_eq_true] at h ⊢; exact ⟨hPQ d h.1, ih h.2⟩)
        (fun _ => by simp [AllNodesL])
        (fun t ts iht ihts h => by simp only [AllNodesL, Bool.and_eq_true] at h ⊢; exact ⟨iht h.1, ihts h.2⟩) cs⟩
  refine (key nodeOk _ ?_).1 r h
  intro d hd
  simp only [nodeOk, Bool.and_eq_true] at hd
  exact hd.1.2

/-- **the final hook runs exactly once per run that ends, never otherwise**: in every reachable state
of every tree, for every action, the number of times its final hook ran since it was built / last
reset is 1 if it is Finished or Stoped and 0 otherwise. -/
theorem C17_final_once_per_run (t : T) (ops : List Op) (hc : Clean t = true) (hl : LeafShape t = true) :
    AllNodes (fun d => d.finals == (if d.ended then 1 else 0)) (run t {} ops).1 = true :=
  wf_finals _ (reachable_wf t ops hc hl).1

/-- **no restart while under way** (and none after the end without reset): `start` on an action
that is not Idle changes nothing in the tree or the loop — no `onStart`, no child started, no
function called. -/
theorem C17_no_restart_underway (t : T) (g : G) (h : t.data.st ≠ .idle) :
    (start t g).1 = t ∧ (start t g).2.1 = g ∧ ((start t g).2.2 = true ↔ t.data.st = .running) := by
  obtain ⟨d, cs⟩ := t
  simp only [T.data] at h
  rw [start]
  by_cases hr : d.st = .running
  · simp [hr, T.data]
  · have : (d.st == St.running) = false := by simpa using hr
    have h2 : (d.st != St.idle) = true := by simpa using h
    simp [this, h2, T.data, hr]

/-! ## Layer 2 — trees -/

/-- **documented result, SequenceAction**: for any number of children and any results they report,
the handlers of the sequence (onStart / onChildFinished as used by the executable model) finish
with the result of the documented loop, which is also what the reference evaluator computes. -/
theorem C17_result_matches_doc_sequence (m : Mode3) (rs : List (Bool × Nat)) (d : Node)
    (hk : d.kind = .seq m) (hi : d.index = 0) :
    drive rs (rs.length + 1) (serialStart {} d rs.length).1 (serialStart {} d rs.length).2 = some (docSeq m rs (true, 0)) := by
  have := seq_drive_aux m rs rs.length 0 d (true, 0) (by omega) hk hi
  simpa [serialStart, hk] using this

theorem C17_result_matches_doc_sequence_eval (m : Mode3) (cs : TL) (rs : List (Bool × Nat)) (d : Node)
    (hk : d.kind = .seq m) (h : evalList cs = some rs) : eval (.node d cs) = some (docSeq m rs (true, 0)) := by
  rw [eval]; simp only [hk]; exact evalSeq_eq_docSeq m cs rs (true, 0) h

example : docSeq .anyFail [(true, 2), (false, 2), (true, 2)] (true, 0) = (false, 2) := by decide
example : drive [(true, 2), (false, 2)] 3 { id := 0, kind := .seq .all } (.start 0 [] (some (false, 6))) = some (false, 2) := by decide

/-- **the tree invariant holds in every reachable state** (item 1): for every freshly built tree
(any shape over the provided composites, any timeouts) and every op sequence — control calls
start/pause/resume/stop/reset placed at any pass, alone or back to back, deferred with runNext, emits on
dummy leaves, clock steps, loop passes — the state reached satisfies `WF` (Inv.lean). -/
theorem C17_tree_inv (t : T) (ops : List Op) (hc : Clean t = true) (hl : LeafShape t = true) :
    WF (run t {} ops).1 = true :=
  (reachable_wf t ops hc hl).1

/-- **nothing left running**: in every reachable state, below every action that is not under way
(Idle, Finished, Stoped) no action is Running or Pause — whatever ended it: its last child, its own
timeout, a replayed result, stop(). -/
theorem C17_quiescent_after_end (t : T) (ops : List Op) (hc : Clean t = true) (hl : LeafShape t = true) :
    EndedQuiet (run t {} ops).1 = true :=
  wf_endedQuiet _ (C17_tree_inv t ops hc hl)

/-- **after stop nothing is under way**: `stop` in any reachable state leaves the whole tree quiet. -/
theorem C17_quiescent_after_stop (t : T) (ops : List Op) (hc : Clean t = true) (hl : LeafShape t = true) :
    Quiet (stop (run t {} ops).1 (run t {} ops).2).1 = true :=
  (stop_wf _ _ (reachable_wf t ops hc hl).1 (reachable_wf t ops hc hl).2).2.2

/-- **no stale notification anywhere in the tree** (item 5): in every reachable state every action
satisfies `nodeOk`: a finish notification is queued only at an action that is Finished (so none from
a reset or stopped one), a block notification only at one that is neither Idle nor Stoped, a replay of
a held-back result only while neither Idle nor Stoped and tracked by its run id; timers are armed only
while not Idle; an Idle action has exactly the fields of a freshly built one. -/
theorem C17_no_stale_anywhere (t : T) (ops : List Op) (hc : Clean t = true) (hl : LeafShape t = true) :
    AllNodes nodeOk (run t {} ops).1 = true :=
  wf_allNodes _ (C17_tree_inv t ops hc hl)

/-- the per-composite invariants of item 5, as they are stated inside `WF` (`childrenOk`): below a
serial composite that is under way only `curr_action_` may be under way and only it may have a
finish notification queued; a held-back result (stored, or re-posted by onResume) exists only while
there is no current child and no child notification is queued. -/
theorem C17_serial_invariants (d : Node) (cs : TL) (h : WF (.node d cs) = true) (hs : d.isSerial = true) (hu : d.underway = true) :
    QuietExcept cs d.curr = true ∧ NoFinExcept cs d.curr = true ∧
    ((d.held = none ∧ d.tasks.any (fun p => p.2.isReplay) = false) ∨ (d.curr = none ∧ NoFinL cs = true)) := by
  have hch := (wf_parts d cs h).2.2.1
  rw [childrenOk_serial_underway d cs hs hu] at hch
  simp only [Bool.and_eq_true, Bool.or_eq_true, Option.isNone_iff_eq_none, Bool.not_eq_true'] at hch
  exact ⟨hch.1.1, hch.1.2, hch.2⟩

/-- **reset gives back the freshly built tree** (item 4): in every reachable state `reset` yields a tree
all of whose actions have the fields of a freshly built action (`Clean`: state, result, queue, timers,
curr, held-back results, index, bookkeeping of ParallelAction, final-hook counter); what may differ
are the dead fields (run ids, SleepAction's finish_time_/remain, RepeatAction's remain_times_), which
every run overwrites before it reads them; and the invariant holds again, so the next run starts
from the same premises as the first. -/
theorem C17_reset_fresh (t : T) (ops : List Op) (hc : Clean t = true) (hl : LeafShape t = true) :
    Clean (reset (run t {} ops).1 (run t {} ops).2).1 = true ∧ WF (reset (run t {} ops).1 (run t {} ops).2).1 = true := by
  have a := reset_wf _ _ (reachable_wf t ops hc hl).1 (reachable_wf t ops hc hl).2
  exact ⟨a.2.2, a.1⟩

/-! ### the defects (unrepaired configuration `old`) and their repairs, on concrete histories -/

def leaf (id : Nat) (k : Kind) (tmo : Option Nat := none) : T := .node { id := id, kind := k, tmo := tmo } .nil
def tl : List T → TL
  | [] => .nil
  | t :: ts => .cons t (tl ts)
def comp (id : Nat) (k : Kind) (cs : List T) (tmo : Option Nat := none) : T := .node { id := id, kind := k, tmo := tmo } (tl cs)
def old : Cfg := { fixPar := false, fixReplay := false, fixFin := false, fixBlk := false }
def rootSt (r : T × G) : St := r.1.data.st
def rootFins (r : T × G) : List (Bool × St) := r.2.log.filterMap fun e => match e with | .rootFin s _ st => some (s, st) | _ => none
def rootBlks (r : T × G) : List St := r.2.log.filterMap fun e => match e with | .rootBlk _ st => some st | _ => none
def fnCalls (r : T × G) : List Nat := r.2.log.reverse.filterMap fun e => match e with | .fn n => some n | _ => none

/-- freshly built example trees satisfy the hypotheses used above (non-vacuity) -/
example : Clean (comp 0 (.seq .all) [leaf 1 (.func true none), leaf 2 (.sleep 105)]) = true ∧
    LeafShape (comp 0 (.seq .all) [leaf 1 (.func true none), leaf 2 (.sleep 105)]) = true := by decide +kernel
example : WF (run (comp 0 (.seq .all) [leaf 1 (.func true none), leaf 2 (.sleep 105)]) {} [.calls [.start], .pass]).1 = true := by
  decide +kernel

/-- Parallel [Fs, Fs]: `start; pause` before the children's notifications are delivered, `resume`. -/
def parTree : T := comp 0 (.par .all) [leaf 1 (.func true none), leaf 2 (.func true none)]
def parOps : List Op := [.calls [.start, .pause], .pass, .calls [.resume], .pass, .pass, .pass]

/-- unrepaired: the parallel action never finishes (both children Finished, root Running for ever) -/
theorem C17_parallel_lost_result_counterexample :
    rootSt (run parTree { cfg := old } parOps) = .running ∧ rootFins (run parTree { cfg := old } parOps) = [] := by
  decide +kernel
theorem C17_parallel_repaired :
    rootSt (run parTree {} parOps) = .finished ∧ rootFins (run parTree {} parOps) = [(true, .finished)] := by
  decide +kernel

/-- IfElse [Fs, Fs, Ff]: pause, the then-branch's result is held back, `resume; reset`. -/
def ifTree : T := comp 0 (.ifElse true true) [leaf 1 (.func true none), leaf 2 (.func true none), leaf 3 (.func false none)]
def ifOps : List Op := [.calls [.start], .calls [.pause], .pass, .calls [.resume, .reset], .pass, .pass]

/-- unrepaired: the reset (Idle) action turns Finished and notifies for the run that was reset -/
theorem C17_replay_after_reset_counterexample :
    rootSt (run ifTree { cfg := old } ifOps) = .finished ∧ rootFins (run ifTree { cfg := old } ifOps) = [(true, .finished)] ∧
    (run ifTree { cfg := old } [.calls [.start], .calls [.pause], .pass, .calls [.resume, .reset]]).1.data.st = .finished := by
  decide +kernel
theorem C17_replay_repaired :
    rootSt (run ifTree {} ifOps) = .idle ∧ rootFins (run ifTree {} ifOps) = [] := by
  decide +kernel

/-- Sequence [Fs, Sleep, Fs]: `resume; reset; start` — unrepaired, the stale replay advances the NEW
run: child 3 is started while child 2 of the new run is still Running (order broken), and the
sequence finishes with the sleep still running. -/
def seqTree : T := comp 0 (.seq .all) [leaf 1 (.func true none), leaf 2 (.sleep 105), leaf 3 (.func true none)]
def seqOps : List Op := [.calls [.start, .pause], .pass, .calls [.resume, .reset, .start], .pass, .pass]
theorem C17_replay_advances_next_run_counterexample :
    fnCalls (run seqTree { cfg := old } seqOps) = [1, 1, 3] ∧ rootSt (run seqTree { cfg := old } seqOps) = .finished ∧
    Quiet (run seqTree { cfg := old } seqOps).1 = false := by
  decide +kernel
theorem C17_replay_next_run_repaired :
    fnCalls (run seqTree {} seqOps) = [1, 1] ∧ rootSt (run seqTree {} seqOps) = .running := by
  decide +kernel

/-- Sequence with a timeout over a long sleep: the timeout finishes the sequence. -/
def tmoTree : T := comp 0 (.seq .all) [leaf 1 (.sleep 203), leaf 2 (.func true none)] (some 2)
def tmoOps : List Op := [.calls [.start], .adv 100, .pass]
/-- unrepaired: the sequence is Finished (fail) and its child is still Running -/
theorem C17_timeout_leaves_child_running_counterexample :
    rootSt (run tmoTree { cfg := old } tmoOps) = .finished ∧ Quiet (run tmoTree { cfg := old } tmoOps).1 = false := by
  decide +kernel
theorem C17_timeout_repaired :
    rootSt (run tmoTree {} tmoOps) = .finished ∧ Quiet (run tmoTree {} tmoOps).1 = true := by
  decide +kernel

/-- Sequence [Dummy, Fs]: the dummy blocks, then `stop` (resp. a second block, then `reset`). -/
def blkTree : T := comp 0 (.seq .all) [leaf 1 .dummy, leaf 2 (.func true none)]
def blkOps1 : List Op := [.calls [.start], .calls [.emitBlk 1], .calls [.stop], .pass]
def blkOps2 : List Op := [.calls [.start], .calls [.emitBlk 1, .pause, .resume, .emitBlk 1], .calls [.reset], .pass]
/-- unrepaired: a block notification is delivered for a stopped / for a reset action -/
theorem C17_stale_block_counterexample :
    rootBlks (run blkTree { cfg := old } blkOps1) = [.stoped] ∧ rootBlks (run blkTree { cfg := old } blkOps2) = [.idle] := by
  decide +kernel
theorem C17_stale_block_repaired :
    rootBlks (run blkTree {} blkOps1) = [] ∧ rootBlks (run blkTree {} blkOps2) = [] := by
  decide +kernel

/-! ### readings of the documentation -/

/-- the literal last line of the pseudo code in sequence_action.h (`return true`) is not what the code
and the unit tests do: AllFinish over one failing child reports failure. -/
theorem C17_sequence_header_literal_differs :
    rootFins (run (comp 0 (.seq .all) [leaf 1 (.func false none)]) {} [.calls [.start], .pass, .pass]) = [(false, .finished)] ∧
    eval (comp 0 (.seq .all) [leaf 1 (.func false none)]) = some (false, 2) := by
  decide +kernel

/-- RepeatAction(times = 0): the header's `for (i = 0; i < times; …)` would run the child zero times; the
code computes `times - 1` in size_t and repeats "for ever" (here: 5 calls in 4 passes, still running).
The unit test RepeatAction.FunctionActionForeverNoBreak relies on that, so this is a reading of the
documentation, not a defect; the evaluator follows the test. -/
theorem C17_repeat_zero_means_forever :
    fnCalls (run (comp 0 (.repeat_ 0 .noBreak) [leaf 1 (.func true none)]) {} [.calls [.start], .pass, .pass, .pass]) = [1, 1, 1, 1, 1] ∧
    rootSt (run (comp 0 (.repeat_ 0 .noBreak) [leaf 1 (.func true none)]) {} [.calls [.start], .pass, .pass, .pass]) = .running ∧
    eval (comp 0 (.repeat_ 0 .noBreak) [leaf 1 (.func true none)]) = none := by
  decide +kernel

/-! ## The whole-tree theorem (item 2), by simulation through the deferred queue

Route: (a) a loop pass with one queued task is `runTask` (`runQueue_one`); (b) the run of the one active
child embeds into its parent while everything else is inert (`step_embed`, `runU_embed`); (c) a generic
theorem for serial composites over a per-kind specification (`gen`, `KSpec`) with the kinds Wrapper,
Composite, IfElse, IfThen, Switch, Sequence instantiated; (d) structural induction over the tree (`good_all`). -/

/-- **`C17_result_matches_doc`, closed milestones M1 (synchronous leaves), M2 (delayed leaves) and M4
(composites that reset and re-run children) for the serial composites Sequence (all modes, any number of
children), IfElse, IfThen (any number of pairs), Switch, Wrapper (all modes), Composite, Loop (all modes),
LoopIf and Repeat (times ≥ 1, all modes), nested arbitrarily, over FunctionAction and SleepAction leaves,
no timeouts**: start the freshly
built tree, then ANY sequence of loop passes and clock steps.  If the evaluator assigns the result `r`,
the observable trace — calls of the leaf functions (`inl id`) and finish notifications of the root
(`inr (is_succ, reason)`) — is either a prefix of the evaluator's visit order (still under way), or the
complete visit order followed by exactly ONE finish notification, carrying `r`.  In particular the root
never finishes twice, never with another result, and no leaf is called out of the documented order. -/
theorem C17_result_matches_doc_serial (t : T) (hs : SerOk t = true) (hc : Clean t = true) (ops : List Op)
    (hcf : ops.all cfOp = true) (r : Bool × Nat) (hr : eval t = some r) :
    (∃ pfx, pfx <+: visit t ∧ trOf (run t {} (.calls [.start] :: ops)).2.log = pfx.map Sum.inl) ∨
    trOf (run t {} (.calls [.start] :: ops)).2.log = (visit t).map Sum.inl ++ [Sum.inr r] :=
  result_matches_doc_run t hs hc ops hcf r hr

/-- **liveness (L) for the same class — "finishes exactly once with the documented result"**: `cost t`
(one per SleepAction leaf + one per child of every composite, times `n` below a RepeatAction(n)) is a
progress measure.  Start the freshly built tree, then ANY sequence of loop passes and clock steps that
contains at least `cost t + 1` BIG ones — a clock step of at least `M` ms, where `M` bounds every
SleepAction delay of the tree (`maxDelay t ≤ M`); for a tree without delays `M = 0`, and then every loop
pass and every clock step is big.  Small passes and clock steps may be interleaved in any number and
position (a fair schedule), and the schedule may go on for as long as it likes afterwards.  If the
evaluator assigns a result `r` (no loop of the tree runs for ever), the observable trace IS the complete
visit order followed by exactly ONE finish notification carrying `r`. -/
theorem C17_finishes_exactly_once (t : T) (hs : SerOk t = true) (hc : Clean t = true) (ops : List Op)
    (hcf : ops.all cfOp = true) (M : Nat) (hM : maxDelay t ≤ M) (hbig : cost t + 1 ≤ bigCount M ops)
    (r : Bool × Nat) (hr : eval t = some r) :
    trOf (run t {} (.calls [.start] :: ops)).2.log = (visit t).map Sum.inl ++ [Sum.inr r] :=
  finishes_once_run t hs hc ops hcf M hM hbig r hr

/-- **M4, the non-terminating case** (LoopAction kForever, an until-loop whose body never gives the awaited
result, a LoopIfAction whose condition holds — leaves are deterministic, so such a loop never ends):
when the evaluator says "runs for ever", then after ANY sequence of loop passes and clock steps the
owner has observed calls of leaf functions only, never a finish notification. -/
theorem C17_loop_never_finishes (t : T) (hs : SerOk t = true) (hc : Clean t = true) (ops : List Op)
    (hcf : ops.all cfOp = true) (hn : eval t = none) :
    ∃ tr : List Nat, trOf (run t {} (.calls [.start] :: ops)).2.log = tr.map Sum.inl :=
  never_finishes_run t hs hc ops hcf hn

/-- **skeleton preservation** (used by M4: a child that is reset and run again is a clean tree with the
skeleton of the freshly built one, and the documented meaning reads the skeleton only): the static
structure of the tree — which actions, of which kind, with which timeout, in which arrangement — is the
same after EVERY sequence of ops (control calls of any kind, emits, deferred calls, clock steps). -/
theorem C17_skeleton_preserved (t : T) (g : G) (ops : List Op) :
    sk (run t g ops).1 = sk t ∧ eval (run t g ops).1 = eval t ∧ visit (run t g ops).1 = visit t :=
  ⟨run_sk ops t g, (eval_of_sk t _ (run_sk ops t g)).1, (eval_of_sk t _ (run_sk ops t g)).2⟩

/-- a covered tree: Sequence[ F1(succ), IfElse(F3 fail ? F4 : Sleep5), Wrapper-invert(F7 fail) ] -/
def docTree : T :=
  comp 0 (.seq .anyFail) [leaf 1 (.func true none),
    comp 2 (.ifElse true true) [leaf 3 (.func false none), leaf 4 (.func true none), leaf 5 (.sleep 111)],
    comp 6 (.wrapper .invert) [leaf 7 (.func false none)]]

example : SerOk docTree = true ∧ Clean docTree = true ∧ eval docTree = some (true, 2) ∧ visit docTree = [1, 3, 7] := by
  decide +kernel
example : cost docTree = 8 ∧ maxDelay docTree = 111 := by decide +kernel
/-- on this instance; one pass earlier it is a strict prefix -/
example : trOf (run docTree {} [.calls [.start], .pass, .adv 200, .pass, .pass, .pass]).2.log = [Sum.inl 1, Sum.inl 3, Sum.inl 7] := by
  decide +kernel
example : trOf (run docTree {} [.calls [.start], .pass, .pass, .adv 200, .pass, .pass, .pass, .pass, .pass]).2.log =
    [Sum.inl 1, Sum.inl 3, Sum.inl 7, Sum.inr (true, 2)] := by decide +kernel

/-- a covered tree with loops: Repeat(3, no break)[ Sequence[ F1(succ), Sleep2, Loop(until fail)[ F4(fail) ] ] ] -/
def loopTree : T :=
  comp 0 (.repeat_ 3 .noBreak) [comp 5 (.seq .all) [leaf 1 (.func true none), leaf 2 (.sleep 101),
    comp 3 (.loop .untilFail) [leaf 4 (.func false none)]]]

example : SerOk loopTree = true ∧ Clean loopTree = true ∧ eval loopTree = some (true, 7) ∧
    visit loopTree = [1, 4, 1, 4, 1, 4] ∧ cost loopTree = 18 ∧ maxDelay loopTree = 101 := by decide +kernel
/-- … and a tree that runs for ever: Loop(until succ)[ F1(fail) ] -/
example : SerOk (comp 0 (.loop .untilSucc) [leaf 1 (.func false none)]) = true ∧
    eval (comp 0 (.loop .untilSucc) [leaf 1 (.func false none)]) = none := by decide +kernel

/-- **run ids (M3, first step)**: in every reachable state of every tree the queued tasks — finish / block
notifications and replays anywhere in the tree — have pairwise distinct run ids, all below the allocation
counter.  So `runTask id` addresses exactly one queued task, and a task posted by a handler never collides
with one that is still queued: running a task of one subtree cannot touch a task of another (what the
whole-tree theorem needs once several children of a ParallelAction have tasks queued at once). -/
theorem C17_run_ids_distinct (t : T) (ops : List Op) (hc : Clean t = true) :
    ((allTasks (run t {} ops).1 []).map (·.1)).Nodup ∧ ∀ x ∈ allTasks (run t {} ops).1 [], x.1 < (run t {} ops).2.nextId :=
  idsOk_plain _ _ (run_idsOk ops t {} (fun id => by rw [cnt_clean t hc id]; simp [cntU]))

/-- **running a task is local (M3, second step)**: `runTask id` runs a handler at one node (`handlerPath`: the parent
of the posting node for a finish / block notification, the posting node for a replay); every subtree that
lies in another branch is left exactly as it was.  With `C17_run_ids_distinct` the id addresses one task. -/
theorem C17_run_task_local (t : T) (g : G) (id : Nat) (p : List Nat) (hp : handlerPath t id = some p) (q : List Nat) (hq : Apart p q) :
    subAt (runTask t g id).1 q = subAt t q :=
  runTask_local t g id p hp q hq

/-- **a reset tree behaves like a freshly built one** (reset bisimulation, for the covered class and a second run
without control calls): after ANY history — control calls at any pass, back to back, deferred, emits, clock
steps; the first run finished, stopped, paused or still under way —, provided no deferred script call is
still queued, `do reset`, `do start` and then loop passes and clock steps produce what a first run produces:
a prefix of the documented visit order, or all of it followed by exactly ONE finish notification with the
documented result; and with `cost t + 1` big ops the complete trace IS reached. -/
theorem C17_rerun_after_reset (t0 : T) (hs : SerOk t0 = true) (hc : Clean t0 = true) (hist : List Op) (hu : (run t0 {} hist).2.user = [])
    (ops : List Op) (hcf : ops.all cfOp = true) (r : Bool × Nat) (hr : eval t0 = some r) :
    (∃ pfx, pfx <+: visit t0 ∧
      trOf (run t0 {} (hist ++ (.calls [.reset] :: .calls [.start] :: ops))).2.log = trOf (run t0 {} hist).2.log ++ pfx.map Sum.inl) ∨
    trOf (run t0 {} (hist ++ (.calls [.reset] :: .calls [.start] :: ops))).2.log =
      trOf (run t0 {} hist).2.log ++ (visit t0).map Sum.inl ++ [Sum.inr r] :=
  rerun_matches_doc t0 hs hc hist hu ops hcf r hr

theorem C17_rerun_finishes_exactly_once (t0 : T) (hs : SerOk t0 = true) (hc : Clean t0 = true) (hist : List Op)
    (hu : (run t0 {} hist).2.user = []) (ops : List Op) (hcf : ops.all cfOp = true) (M : Nat) (hM : maxDelay t0 ≤ M)
    (hbig : cost t0 + 1 ≤ bigCount M ops) (r : Bool × Nat) (hr : eval t0 = some r) :
    trOf (run t0 {} (hist ++ (.calls [.reset] :: .calls [.start] :: ops))).2.log =
      trOf (run t0 {} hist).2.log ++ (visit t0).map Sum.inl ++ [Sum.inr r] :=
  rerun_finishes_once t0 hs hc hist hu ops hcf M hM hbig r hr

/-- on `docTree`: first run paused in the middle and stopped, then reset and run again -/
example : trOf (run docTree {} ([.calls [.start], .pass, .calls [.pause], .adv 200, .calls [.stop], .pass] ++
      (.calls [.reset] :: .calls [.start] :: [.pass, .pass, .adv 200, .pass, .pass, .pass, .pass, .pass]))).2.log =
    [Sum.inl 1, Sum.inl 3] ++ [Sum.inl 1, Sum.inl 3, Sum.inl 7] ++ [Sum.inr (true, 2)] := by decide +kernel

/-! ## Re-entrant control: callback scripts on the root (Reent.lean, ReentProofs.lean)

`runR t {} ops`: the ops of `run`, plus `cb final|fin|blk <calls>`: attach a one-shot script to the root's
final / finish / block callback.  The next invocation of that callback makes the calls (start, pause,
resume, stop, reset on the root) from INSIDE the callback: the final callback as the last step of
`Action::finish()` / `Action::stop()` of the root — in the middle of the handler, timer callback, replay or
`start()` that finished it —, the finish / block callbacks from the loop's batch.  Any number of scripts,
attached at any time, nested to any depth (a script's `start` may finish the root again, whose final
callback takes the next script …).  The model follows the repaired code (patches/C17-07, C17-08). -/

/-- **the tree invariant with re-entrant control**: `WF` holds in every state reached by any op sequence
with callback scripts. -/
theorem C17_tree_inv_reentrant (t : T) (ops : List OpR) (hc : Clean t = true) (hl : LeafShape t = true) :
    WF (runR t {} ops).1 = true :=
  (reachableR_wf t ops hc hl).1

/-- … and with it the corollaries of layer 2, for histories with callback scripts: nothing is left under
way below an action that ended; stop() leaves the tree quiet; no stale notification, replay or timer
anywhere; the final hook ran exactly once iff the action ended; reset() gives back a fresh tree. -/
theorem C17_quiescent_after_end_reentrant (t : T) (ops : List OpR) (hc : Clean t = true) (hl : LeafShape t = true) :
    EndedQuiet (runR t {} ops).1 = true :=
  wf_endedQuiet _ (C17_tree_inv_reentrant t ops hc hl)

theorem C17_quiescent_after_stop_reentrant (t : T) (ops : List OpR) (hc : Clean t = true) (hl : LeafShape t = true) :
    Quiet (stop (runR t {} ops).1 (runR t {} ops).2).1 = true :=
  (stop_wf _ _ (reachableR_wf t ops hc hl).1 (reachableR_wf t ops hc hl).2).2.2

theorem C17_no_stale_anywhere_reentrant (t : T) (ops : List OpR) (hc : Clean t = true) (hl : LeafShape t = true) :
    AllNodes nodeOk (runR t {} ops).1 = true :=
  wf_allNodes _ (C17_tree_inv_reentrant t ops hc hl)

theorem C17_final_once_per_run_reentrant (t : T) (ops : List OpR) (hc : Clean t = true) (hl : LeafShape t = true) :
    AllNodes (fun d => d.finals == (if d.ended then 1 else 0)) (runR t {} ops).1 = true :=
  wf_finals _ (C17_tree_inv_reentrant t ops hc hl)

theorem C17_reset_fresh_reentrant (t : T) (ops : List OpR) (hc : Clean t = true) (hl : LeafShape t = true) :
    Clean (reset (runR t {} ops).1 (runR t {} ops).2).1 = true ∧ WF (reset (runR t {} ops).1 (runR t {} ops).2).1 = true := by
  have a := reset_wf _ _ (reachableR_wf t ops hc hl).1 (reachableR_wf t ops hc hl).2
  exact ⟨a.2.2, a.1⟩

-- (`stuckRoot`: NotStuck.lean)

def noTail : Cfg := { fixTail := false }
def noLoop : Cfg := { fixLoop := false }

/-- **defect repaired by patches/C17-07** (`Action::start()` is not re-entrant): an empty Sequence finishes
inside its own start(); its final callback resets it; back in start(), `if (last_state == state_)` holds
again (Idle = Idle) and the code as found sets the reset action Running: it stays Running for ever
(nothing queued, armed or under way), and start() on it answers true and does nothing. -/
theorem C17_start_tail_after_reset_counterexample :
    let r := runR (comp 0 (.seq .all) []) { cfg := noTail } [.cb .final [.reset], .op (.calls [.start]), .op .pass, .op (.calls [.start]), .op .pass]
    stuckRoot r.1 = true ∧ rootFins r = [] := by decide +kernel

theorem C17_start_tail_repaired :
    let r := runR (comp 0 (.seq .all) []) {} [.cb .final [.reset], .op (.calls [.start]), .op .pass, .op (.calls [.start]), .op .pass, .op .pass]
    rootSt r = .finished ∧ rootFins r = [(true, .finished)] := by decide +kernel

/-- **defect repaired by patches/C17-08** (the replay loop of ParallelAction is not re-entrant): two results
are held back while the any-succ parallel is paused; after resume the replay feeds the first one in, the
parallel finishes, its final callback resets and restarts it — and the code as found goes on with the
second result, which belongs to the PREVIOUS run: the new run (three DummyActions nobody completed) is
finished by it at once. -/
theorem C17_parallel_replay_into_next_run_counterexample :
    let r := runR (comp 0 (.par .anySucc) [leaf 1 .dummy, leaf 2 .dummy, leaf 3 .dummy]) { cfg := noLoop }
      [.cb .final [.reset, .start], .op (.calls [.start]), .op (.calls [.emitFin 1 true, .emitFin 2 true, .pause]), .op .pass, .op (.calls [.resume]), .op .pass]
    rootSt r = .finished := by decide +kernel

theorem C17_parallel_replay_repaired :
    let r := runR (comp 0 (.par .anySucc) [leaf 1 .dummy, leaf 2 .dummy, leaf 3 .dummy]) {}
      [.cb .final [.reset, .start], .op (.calls [.start]), .op (.calls [.emitFin 1 true, .emitFin 2 true, .pause]), .op .pass, .op (.calls [.resume]), .op .pass]
    rootSt r = .running ∧ AllNodesL (fun d => d.st == .running) r.1.children = true := by decide +kernel

/-- the order the seeded change C17-3 reversed: in `ParallelAction::onChildFinished` the children are stopped
BEFORE `finish()`, so that nothing touches the tree after the final callback: a final callback that
resets and restarts the parallel leaves the children of the new run running. -/
theorem C17_parallel_restart_from_final_callback :
    let r := runR (comp 0 (.par .anySucc) [leaf 1 (.func true none), leaf 2 .dummy]) {}
      [.cb .final [.reset, .start], .op (.calls [.start])]
    rootSt r = .running ∧ (r.1.children.get? 1).map (fun c => c.data.st) = some .running := by decide +kernel

/-! ## ActionExecutor (action_executor.cpp; model Exec.lean, repaired code of patches/C17-06)

`Exec.xrun {} ops` is the state after ANY list of executor operations: append of an action (dummy /
function / already stopped) with a priority 0..2, cancel(id) of any id, cancelCurrent(), cancelAll(),
the owner completing a running action, the loop running the queued finish notifications. -/

/-- **one action at a time**: at most one action of the executor is Running, whatever is appended,
cancelled, pre-empted or completed, in whatever order. -/
theorem C17_exec_one_at_a_time (ops : List Exec.XOp) (hok : ops.all Exec.opOk = true) :
    (Exec.running ((Exec.xrun {} ops).q0 ++ (Exec.xrun {} ops).q1 ++ (Exec.xrun {} ops).q2)).length ≤ 1 :=
  Exec.exec_one_running ops hok

/-- **FIFO within a priority / a Running action is the current head**: in every reachable state the
actions behind the head of each deque were never started (Idle, or stopped before they were
appended), and a Running head is the head of the deque `curr_action_deque_index_` points to. -/
theorem C17_exec_heads_only (ops : List Exec.XOp) (hok : ops.all Exec.opOk = true) :
    (∀ i a rest, (Exec.xrun {} ops).q i = a :: rest → Exec.tailOk rest = true ∧ (a.st = .running → (Exec.xrun {} ops).curr = some (Exec.nrm i))) := by
  intro i a rest e
  have h := Exec.xrun_inv ops {} hok Exec.init_inv1
  have := h.1 i; rw [e] at this; exact this

/-- **highest priority first**: after any sequence of executor operations, a Running action is the head
of the highest-priority non-empty deque — every deque of higher priority (smaller index) is empty.
(`schedule()` pre-empts: it pauses the running head as soon as a higher-priority deque is non-empty, and
the fuel of the modelled loop always suffices for that first iteration.) -/
theorem C17_exec_highest_priority_first (ops : List Exec.XOp) (hok : ops.all Exec.opOk = true) :
    ∀ i a rest, (Exec.xrun {} ops).q i = a :: rest → a.st = .running → ∀ j, j < Exec.nrm i → (Exec.xrun {} ops).q j = [] :=
  Exec.exec_highest_first ops hok

/-- **callbacks at most once per action**: over the whole history of any sequence of executor operations the
started callback and the finished callback fire at most once per action id; an action whose finished
callback fired is gone from the deques, one whose started callback fired is never Idle again. -/
theorem C17_exec_callbacks_once (ops : List Exec.XOp) (hok : ops.all Exec.opOk = true) (id : Nat) :
    (Exec.xrun {} ops).log.count (.started id) ≤ 1 ∧ (Exec.xrun {} ops).log.count (.finished id) ≤ 1 ∧
    (Exec.XEv.finished id ∈ (Exec.xrun {} ops).log → Exec.cP (Exec.xrun {} ops) (Exec.idP id) = 0) ∧
    (Exec.XEv.started id ∈ (Exec.xrun {} ops).log → Exec.cP (Exec.xrun {} ops) (Exec.idleP id) = 0) :=
  Exec.exec_callbacks_once ops hok id

example : (Exec.xrun {} [.append .dummy 2, .append .dummy 2, .append .dummy 0, .emit 3 true, .pass]).curr = some 2 := by decide +kernel


/-! ## ParallelAction in the whole-tree theorem (M3, first closed case: Parallel over leaves; ParLeaves.lean)

The tree is `.node d (ofList l)`: a ParallelAction `d` of any mode (AllFinish / AnyFail / AnySucc) over ANY number of
children `l`, each a freshly built FunctionAction (succ / fail, with or without reason) or SleepAction (any delay), no
timeouts (`leafOkB`, decidable).  Several children are active at once and their notifications share one batch of the
loop, so the proof is an invariant over batches (`PI`), kept by every `runTask id` and every `fireOne` in ANY order. -/

/-- **`C17_result_matches_doc` for Parallel over leaves (all modes)**: start the freshly built tree, then ANY sequence of
loop passes and clock steps.  The documented meaning is "success" (`eval = some (true, 0)`); what the owner observes is the
calls of ALL FunctionAction children in child order (`fnIds l`: `ParallelAction::onStart` starts every child, in order,
within `start()`), followed by NO or exactly ONE finish notification, carrying (true, 0) — never two, never another result,
never a function called again. -/
theorem C17_result_matches_doc_par_leaves (d : Node) (l : List Node) (m : Mode3) (hk : d.kind = .par m) (htmo : d.tmo = none)
    (hc : cleanNode d = true) (hl : ∀ c ∈ l, leafOkB c = true) (ops : List Op) (hcf : ops.all cfOp = true) :
    eval (.node d (ofList l)) = some (true, 0) ∧
    (trOf (run (.node d (ofList l)) {} (.calls [.start] :: ops)).2.log = (fnIds l).map Sum.inl ∨
     trOf (run (.node d (ofList l)) {} (.calls [.start] :: ops)).2.log = (fnIds l).map Sum.inl ++ [Sum.inr (true, 0)]) :=
  ⟨(par_leaves_run d l m (maxMs l) hk htmo hc hl (Nat.le_refl _) ops hcf).1, (par_leaves_run d l m (maxMs l) hk htmo hc hl (Nat.le_refl _) ops hcf).2.1⟩

/-- **`C17_finishes_exactly_once` for Parallel over leaves (all modes) + nothing left running**: if the schedule contains at
least THREE big ops (clock steps of at least `M` ms, `M` ≥ every SleepAction delay; plain passes when `M = 0`) — in any
position, with any other passes and clock steps interleaved, going on for as long as it likes afterwards — then the trace
IS all function calls in child order followed by exactly one finish notification (true, 0), the root is Finished, and no
action of the tree is Running or Pause (children still sleeping when an AnySucc / AnyFail parallel finished were stopped).
Three = one for the delays to expire, one batch for the children's notifications, one for the root's own. -/
theorem C17_par_leaves_finishes_exactly_once (d : Node) (l : List Node) (m : Mode3) (M : Nat) (hk : d.kind = .par m) (htmo : d.tmo = none)
    (hc : cleanNode d = true) (hl : ∀ c ∈ l, leafOkB c = true) (hM : maxMs l ≤ M) (ops : List Op) (hcf : ops.all cfOp = true)
    (hbig : 3 ≤ bigCount M ops) :
    trOf (run (.node d (ofList l)) {} (.calls [.start] :: ops)).2.log = (fnIds l).map Sum.inl ++ [Sum.inr (true, 0)] ∧
    (run (.node d (ofList l)) {} (.calls [.start] :: ops)).1.data.st = .finished ∧
    Quiet (run (.node d (ofList l)) {} (.calls [.start] :: ops)).1 = true :=
  (par_leaves_run d l m M hk htmo hc hl hM ops hcf).2.2 hbig

/-- a covered tree: Parallel(AnySucc)[ F1(fail), Sleep2(101 ms), F3(succ), Sleep4(305 ms) ] -/
def parLeaves : List Node :=
  [{ id := 1, kind := .func false none }, { id := 2, kind := .sleep 101 }, { id := 3, kind := .func true none }, { id := 4, kind := .sleep 305 }]

example : (∀ c ∈ parLeaves, leafOkB c = true) ∧ maxMs parLeaves = 305 ∧ fnIds parLeaves = [1, 3] ∧
    cleanNode { id := 0, kind := .par .anySucc } = true := by decide +kernel
example : bigCount 305 [Op.adv 400, .pass, .adv 305, .adv 100, .adv 1000] = 3 := by decide +kernel
/-- on this instance: F3 succeeds, the AnySucc parallel finishes in the first batch and stops both sleeps -/
example : trOf (run (.node { id := 0, kind := .par .anySucc } (ofList parLeaves)) {} [.calls [.start], .pass, .pass]).2.log =
    [Sum.inl 1, Sum.inl 3, Sum.inr (true, 0)] := by decide +kernel
/-- AllFinish waits for the longest sleep -/
example : trOf (run (.node { id := 0, kind := .par .all } (ofList parLeaves)) {} [.calls [.start], .pass, .adv 200, .pass, .pass]).2.log =
      [Sum.inl 1, Sum.inl 3] ∧
    trOf (run (.node { id := 0, kind := .par .all } (ofList parLeaves)) {} [.calls [.start], .pass, .adv 200, .adv 200, .pass, .pass]).2.log =
      [Sum.inl 1, Sum.inl 3, Sum.inr (true, 0)] := by decide +kernel

/-! ### timeouts: why a pass-free `evalT` cannot be the documented meaning (OPEN T, sharpened) -/

/-- Sequence@202ms[ Sleep(103 ms) ] -/
def raceTree : T := comp 0 (.seq .all) [leaf 1 (.sleep 103)] (some 202)

/-- **the result of a tree with a timeout depends on the granularity of the loop passes**: the child's delay (103 ms) is
shorter than the timeout (202 ms).  When loop passes run in between, the sequence succeeds with the child's result.  When
the loop is late by more than the difference — ONE pass finds both timers expired — `handleExpiredTimers` fires the sleep
first (deadline order), its notification is only QUEUED (runNext), the timeout fires in the same timer phase while the
sequence is still Running, and the sequence FAILS with reason 1 (timeout), its child already Finished.  Both runs are
reproduced on the real code by the generator family `tmo-race`.  So a documented finishing time / result for trees with
timeouts needs a hypothesis on the schedule (a pass between any two deadlines of the tree); it is not a function of the
tree alone. -/
theorem C17_timeout_result_depends_on_pass_granularity :
    rootFins (run raceTree {} [.calls [.start], .adv 150, .pass, .pass, .adv 100, .pass]) = [(true, .finished)] ∧
    rootFins (run raceTree {} [.calls [.start], .adv 300, .pass, .pass]) = [(false, .finished)] ∧
    Quiet (run raceTree {} [.calls [.start], .adv 300, .pass, .pass]).1 = true := by decide +kernel


/-! ## Round 9 — "a Running composite waits for something", late passes, widths, what a firing timeout does -/

-- OPEN C17_never_stuck (full): `stuckRoot` is false in EVERY reachable state of EVERY tree (any control calls).
/-- **`C17_never_stuck_partial`, serial class** (hypotheses: `SerOk`, control-free schedule, the documented meaning terminates — all
decidable): after `start` and ANY sequence of loop passes and clock steps the root is never a Running composite with nothing
queued, nothing armed and nothing under way below it.  (A stuck root is inert, an inert tree is a fixed point of every
control-free step, and `Live` says the root hands in its finish notification after `cost t` big ops.) -/
theorem C17_never_stuck_partial (t : T) (hs : SerOk t = true) (hc : Clean t = true) (ops : List Op) (hcf : ops.all cfOp = true)
    (hr : (eval t).isSome = true) : stuckRoot (run t {} (.calls [.start] :: ops)).1 = false :=
  never_stuck_run t hs hc ops hcf (by intro h; rw [h] at hr; cases hr)

/-- … and for ParallelAction (all modes, any number of Function / Sleep children) as the root -/
theorem C17_never_stuck_par_leaves (d : Node) (l : List Node) (m : Mode3) (hk : d.kind = .par m) (htmo : d.tmo = none)
    (hc : cleanNode d = true) (hl : ∀ c ∈ l, leafOkB c = true) (ops : List Op) (hcf : ops.all cfOp = true) :
    stuckRoot (run (.node d (ofList l)) {} (.calls [.start] :: ops)).1 = false :=
  par_leaves_never_stuck d l m hk htmo hc hl ops hcf

/-- (the full statement is false in the unrepaired configuration only: `C17_start_tail_after_reset_counterexample`.)  Non-vacuity: -/
example : SerOk loopTree = true ∧ (eval loopTree).isSome = true ∧
    stuckRoot (run loopTree {} [.calls [.start], .pass, .adv 50, .pass]).1 = false := by decide +kernel

/-- **the tree invariant with late passes**: `WF` holds in every state reached by any sequence of ops and LATE passes
(`OpL.late ms calls`: the clock moves by `ms` after the timer phase, then control calls are made — `pause()` may find a sleep
whose deadline has passed, `stop()` / `reset()` an action whose timeout is due).  With it all corollaries of layer 2. -/
theorem C17_tree_inv_late (t : T) (ops : List OpL) (hc : Clean t = true) (hl : LeafShape t = true) :
    WF (runL t {} ops).1 = true ∧ EndedQuiet (runL t {} ops).1 = true ∧ AllNodes nodeOk (runL t {} ops).1 = true ∧
    AllNodes (fun d => d.finals == (if d.ended then 1 else 0)) (runL t {} ops).1 = true ∧
    Quiet (stop (runL t {} ops).1 (runL t {} ops).2).1 = true ∧
    Clean (reset (runL t {} ops).1 (runL t {} ops).2).1 = true :=
  have h := reachableL_wf t ops hc hl
  ⟨h.1, wf_endedQuiet _ h.1, wf_allNodes _ h.1, wf_finals _ h.1, (stop_wf _ _ h.1 h.2).2.2, (reset_wf _ _ h.1 h.2).2.2⟩

/-- a late pause: Sequence[Sleep 500 ms, F]: 700 ms pass before `pause()` is called in a pass whose timer phase is over; the
remaining span is −200 ms; `resume()` arms the timer at now − 200 (uint64: `C17_sleep_deadline_width`), it fires at once -/
example : ((runL (comp 0 (.seq .all) [leaf 1 (.sleep 500), leaf 2 (.func true none)]) {}
      [.op (.calls [.start]), .late 700 [.pause], .op (.calls [.resume])]).1.children.get? 0).map (fun c => (c.data.st, c.data.remain))
    = some (.finished, -200) := by decide +kernel

/-- **width of `RepeatAction::remain_times_`** (`remain_times_ = repeat_times_ - 1` in size_t): for every count the type can hold
the model's value IS the 64-bit one: times − 1 for 1 ≤ times < 2^64, and SIZE_MAX ("for ever") for 0. -/
theorem C17_repeat_count_width (cfg : Cfg) (d : Node) (n times : Nat) (m : RepMode) (hk : d.kind = .repeat_ times m) (h : times < 2 ^ 64) :
    (serialStart cfg d n).1.remainTimes = remainTimes64 times ∧
    remainTimes64 times = (if times = 0 then 2 ^ 64 - 1 else times - 1) := by
  rw [serialStart_remain cfg d n times m hk, remainTimes64_eq times h]; exact ⟨rfl, rfl⟩

/-- a count narrowed to 32 / 16 bits would be a different action: 2^32 + 1 and 2^16 + 1 repetitions are not 1 repetition -/
theorem C17_repeat_count_narrowing_counterexample :
    remainTimes64 (2 ^ 32 + 1) = 2 ^ 32 ∧ remainTimes64 ((2 ^ 32 + 1) % 2 ^ 32) = 0 ∧ remainTimes64 ((2 ^ 16 + 1) % 2 ^ 16) = 0 ∧
    remainTimes64 0 = 2 ^ 64 - 1 := by decide +kernel

/-- **width of the timer deadline** (`TimerEventImpl::enable` passes `interval_.count()`, an int64, to
`CommonLoop::addTimer(uint64_t interval)`; `expired = now + interval` in uint64): for a span ≥ 0 with now + span < 2^64 the
deadline is the mathematical sum the model uses (`start`: now + ms); for the NEGATIVE remaining span −r of a late pause the
64-bit sum is now − r whenever r ≤ now — which always holds (`remain = finish_time − now ≥ −now`, third clause) — and that is
the model's `((now : Int) + remain).toNat`. -/
theorem C17_sleep_deadline_width (now ms r : Nat) :
    (now + ms < 2 ^ 64 → deadline64 now (ms : Int) = now + ms) ∧
    (r ≤ now → now < 2 ^ 64 → deadline64 now (-(r : Int)) = now - r ∧ ((now : Int) + -(r : Int)).toNat = now - r) ∧
    (∀ d : Node, -(now : Int) ≤ (Node.paused now d).remain) :=
  ⟨deadline64_nonneg now ms, fun h1 h2 => ⟨deadline64_neg now r h1 h2, by omega⟩, fun d => by simp only [Node.paused]; omega⟩

/-- outside that range the 64-bit deadline is NOT the mathematical one: a remaining span below −now would wrap to a deadline
2^64 − … ms ahead (the sleep would never end); unreachable by the third clause above -/
theorem C17_sleep_deadline_wrap_counterexample : deadline64 5 (-10) = 2 ^ 64 - 5 ∧ ((5 : Int) + -10).toNat = 0 := by decide +kernel

/-- `finish_time_` is an int64 count of nanoseconds: it fits for every clock value + span up to 2^43 ms + 4·10^11 ms (the
bound the driver and the harness put on raw durations and clock steps; about 292 years) -/
theorem C17_finish_time_fits (now ms : Nat) (h : now + ms ≤ 2 ^ 43 + 400000000000) : finishTimeFits now ms = true := by
  simp only [finishTimeFits, decide_eq_true_eq]; omega

/-- **a timeout that fires ends the action for good** (every tree, every reachable state, whatever the schedule): when the
timeout of an action that is Running or Pause fires, the action is Finished with result fail, the finish notification
(false, reason 1 = ActionTimeout) is queued, NO descendant is left Running or Pause, and the tree invariant holds again. -/
theorem C17_timeout_fires (d : Node) (cs : TL) (g : G) (hWF : WF (.node d cs) = true) (hg : GI g) (hu : d.underway = true)
    (ht : d.tmoAt ≠ none) :
    (onTimer d cs g false).1.st = .finished ∧ (onTimer d cs g false).1.res = .fail ∧
    (∃ id, (id, TK.fin false 1) ∈ (onTimer d cs g false).1.tasks) ∧
    QuietL (onTimer d cs g false).2.1 = true ∧ WF (.node (onTimer d cs g false).1 (onTimer d cs g false).2.1) = true :=
  timeout_fires d cs g hWF hg hu ht

/-- **the schedule hypothesis** `fineRun` ("every pass happens before the next expiry": at most one armed timer is due in any
timer phase).  Under it a timer phase is a single timer callback (`fireTimers_fine`), so the race of
`C17_timeout_result_depends_on_pass_granularity` cannot happen: the schedule with passes between the deadlines satisfies it and
gives the child's result; the late schedule violates it. -/
theorem C17_fine_schedule_timer_phase (t : T) (g : G) (h : ((allTimers t []).filter (fun x => x.1 ≤ g.now)).length ≤ 1) :
    fireTimers t g = (t, g) ∨ ∃ x ∈ allTimers t [], x.1 ≤ g.now ∧ fireTimers t g = fireOne t g x.1 x.2.1 x.2.2 :=
  fireTimers_fine t g h

theorem C17_fine_schedule_on_race_tree :
    fineRun raceTree {} [.calls [.start], .adv 150, .pass, .pass, .adv 100, .pass] = true ∧
    rootFins (run raceTree {} [.calls [.start], .adv 150, .pass, .pass, .adv 100, .pass]) = [(true, .finished)] ∧
    fineRun raceTree {} [.calls [.start], .adv 300, .pass, .pass] = false := by decide +kernel

/-! ## Round 10 — towards Parallel BELOW serial composites: the documented order of a parallel node, the batch embedding -/

theorem visitAll_leaves : ∀ (l : List Node), (∀ c ∈ l, leafOkB c = true) → visitAll (ofList l) = fnIds l
  | [], _ => rfl
  | c :: l, h => by
    have hc := h c (by simp)
    have ih := visitAll_leaves l (fun x hx => h x (by simp [hx]))
    simp only [leafOkB, Bool.and_eq_true] at hc
    simp only [ofList, visitAll, fnIds, List.filterMap_cons] at ih ⊢
    rw [ih]
    cases hk : c.kind <;> simp_all [visit]

/-- **the documented visit order of a ParallelAction over Function / Sleep leaves** is the ids of its FunctionAction children in child
order (`visit` now says so; it was `[]` before round 10): `C17_result_matches_doc_par_leaves` in the vocabulary of the serial
theorem — a prefix of… here: exactly `visit t` (all calls happen inside `start()`), then none or exactly one finish notification
carrying `eval t`. -/
theorem C17_result_matches_doc_par_leaves_visit (d : Node) (l : List Node) (m : Mode3) (hk : d.kind = .par m) (htmo : d.tmo = none)
    (hc : cleanNode d = true) (hl : ∀ c ∈ l, leafOkB c = true) (ops : List Op) (hcf : ops.all cfOp = true) :
    ∃ r, eval (.node d (ofList l)) = some r ∧
    (trOf (run (.node d (ofList l)) {} (.calls [.start] :: ops)).2.log = (visit (.node d (ofList l))).map Sum.inl ∨
     trOf (run (.node d (ofList l)) {} (.calls [.start] :: ops)).2.log = (visit (.node d (ofList l))).map Sum.inl ++ [Sum.inr r]) := by
  have hv : visit (.node d (ofList l)) = fnIds l := by rw [visit]; simp only [hk]; exact visitAll_leaves l hl
  rw [hv]
  exact ⟨(true, 0), C17_result_matches_doc_par_leaves d l m hk htmo hc hl ops hcf⟩

/-- **batch form of the embedding lemma** (`runQueue_embed` / `step_embed` of Sim.lean assume at most ONE queued task below the
active child; a ParallelAction child has one per finished leaf): if, while the snapshot of the batch is worked off inside the
child `c`, every task found under a snapshot id is the finish notification of a STRICT descendant of `c` (`BatchOk`), then one
control-free op of the parent IS the op of its active child, embedded — the parent's own fields and the other children are not
touched, whatever the number of notifications in the batch. -/
theorem C17_batch_embed {d : Node} {cs : TL} {i : Nat} {c : T} (h : Ctx d cs i c) (g : G) (op : Op) (hop : cfOp op = true)
    (hu : g.user = []) (hb : BatchOk c (advG g op) (batchOf c)) :
    step (.node d cs) g op = (.node d (setChild cs i (step c g op).1), (step c g op).2.1, []) :=
  step_embed_batch h g op hop hu hb

/-- … and it generalises the one-task case every serial composite is proved with -/
theorem C17_batch_embed_generalises (c : T) (g : G) (hap : AP c) (hnf : hasFin c = false) : BatchOk c g (batchOf c) :=
  batchOk_of_AP c g hap hnf

/-- Sequence[ Parallel(AllFinish)[ F2(succ), F3(fail), Sleep4(105 ms) ], F5(succ) ] -/
def seqOverPar : T :=
  comp 0 (.seq .all) [comp 1 (.par .all) [leaf 2 (.func true none), leaf 3 (.func false none), leaf 4 (.sleep 105)], leaf 5 (.func true none)]

/-- non-vacuity of `C17_batch_embed`: right after `start` the parallel child has TWO notifications queued (not `AP`), the batch is
`BatchOk`, the sequence node is a `Ctx` around it; and the whole run does what the documented meaning says: calls 2, 3 (inside
start()), then — after the sleep — 5, then exactly one finish notification with the result of the last child -/
example :
    let s := start seqOverPar {}
    (allTasks s.1 []).length = 2 ∧
    (∃ c, s.1.children.get? 0 = some c ∧ (allTasks c []).length = 2 ∧
      decide (∀ x ∈ allTasks c [], x.2.1 ≠ []) = true) := by decide +kernel

example : eval seqOverPar = some (true, 2) ∧ visit seqOverPar = [2, 3, 5] ∧
    trOf (run seqOverPar {} [.calls [.start], .pass, .pass]).2.log = [Sum.inl 2, Sum.inl 3] ∧
    trOf (run seqOverPar {} [.calls [.start], .pass, .adv 200, .pass, .pass, .pass, .pass]).2.log =
      [Sum.inl 2, Sum.inl 3, Sum.inl 5, Sum.inr (true, 2)] := by decide +kernel

-- OPEN T, sharpened (round 9): the documented result of a tree with timeouts under `fineRun`.  Closed: what a firing timeout does
--   (`C17_timeout_fires`), the timer phase under the hypothesis (`C17_fine_schedule_timer_phase`).  Missing: "an armed timeout that is
--   not due changes nothing" — `E (step t g op).1 = (step (E t) g op).1` where `E` erases `tmo` / `tmoAt` of the root; every function
--   of Model.lean only WRITES `tmoAt` (`:= none`, `armTmo`) and reads it in `fireOne` alone, so this is one commuting lemma per
--   root-level function (start, pause, resume, stop, reset, finish, block, serialOnChild, applyNext, parOnChild, onChildBlk, onReplay,
--   onTimer); then `C17_result_matches_doc_serial` transfers to the tree with a root timeout for every prefix of the schedule that ends
--   before the deadline.  A Sleep leaf with its OWN timeout does not fit `DoneAs` (when the timeout wins the sleep timer stays armed
--   until the parent resets the leaf — in the code as well: SleepAction has no onFinished; harmless, the late callback finds the
--   action ended), so leaf timeouts need `Inert` weakened to "armed timers belong to ended leaves".
-- OPEN M3 (Parallel below serial composites / over composite children), state after round 10: `visit (.par)` IS the children's
--   visit orders in child order now (`C17_result_matches_doc_par_leaves_visit`), and the batch form of the embedding is proved
--   (`C17_batch_embed`, `BatchOk`; `C17_batch_embed_generalises`: `AP` is an instance).  Stage (i) — Parallel over leaves as a CHILD — still
--   needs, exactly: (1) `AP R.1` in `RunOk` / `OnWay` replaced by `AP R.1 ∨ ∀ ms, BatchOk R.1 {g with now := g.now + ms} (batchOf R.1)`
--   (consumers: `runQueue_embed`, `AP_embed`, `wait_ok`, three sites in `gen` / `genR` / `gen_live`: mechanical with `C17_batch_embed`);
--   (2) `BatchOk` of every `PI` state — the parallel node's OWN notification, posted in the middle of a batch, is not in the snapshot: `Phase`
--   must remember `N0 ≤ id` for the id of that notification (N0 = `nextId` when the batch began; today `∃ id`), then `IdsOk` gives
--   `id ∉ snapshot`; (3) `DoneAs` at the end of the step in which the parallel node finished (`hdel` of `step_PI`: every leaf task of the
--   snapshot has been delivered; leaves stopped by `stopAll` have no timer) — then `Good (par over leaves)` follows from `run_PI`, and
--   `both_size` takes `.par` as one more kind.  Not closed this round (the round went into three new defects of the real code).
--   Round 11: CLOSED as new definitions beside the old ones (ParChild*.lean): (2) `par_leaves_batchOk` (`BX.own`: N0 ≤ id), (3)
--   `par_leaves_doneAs` / `step_PI_done`, (1) `APB` / `RunOkB` / `GoodB` / `OnWayB` with `goodB_of_good`, `goodB_par_leaves`,
--   `good_seqB` / `good_wrapperB` / `good_compositeB`, hence `C17_result_matches_doc_{seq,wrapper,composite}_over_par_leaves` (nestable
--   through these three kinds).  Still open of stage (i): the `B` copies of IfElse / IfThen / Switch / Loop / LoopIf / Repeat
--   (`good_twophase`, Loops.lean: the same substitution), `both_size` with `.par` (so that `SerOk` itself admits the node at any
--   depth), and `Live` / `gen_live` over `GoodB` (liveness of parents over a Parallel child).  Stage (ii) (composite children) untouched.
--   Round 12: the `B` copies of all six are CLOSED (ParChild4.lean: `good_twophaseB` → IfElse / Switch, `good_ifThenB`; `genRB` /
--   `good_serialRB` → Loop / LoopIf / Repeat, where the Parallel child is reset and run AGAIN), and so is the induction: `SerParOk`
--   (ParChild5.lean) is `SerOk` with Parallel-over-leaves nodes allowed wherever a leaf may stand, `goodB_all` is `both_size` with `.par`
--   as one more base case — `C17_result_matches_doc_serial_with_par_leaves`.  Still open of stage (i): `Live` / `gen_live` over `GoodB`
--   (liveness of parents over a Parallel child: `PI` has no progress measure yet), hence no `finishes_exactly_once` for the class.

/-! ## Round 11 — the timeout timer in EVERY lifecycle state (reset of a BLOCKED action), timeout changes at any pass,
ParallelAction over leaves as a CHILD of Sequence / Wrapper / Composite -/

/-- **a blocked action keeps its timeout**: `block()` (the action's own, or the block notification of a child) puts an action that is
under way into Pause and leaves the timeout timer exactly as it was — armed with the deadline of the run, unlike `pause()`.
So Pause is a state with a live timer, and every call that ends or resets the run must disarm it in that state too. -/
theorem C17_block_keeps_timeout (d : Node) (g : G) (w : Nat) (hu : d.underway = true) :
    (block d g w).1.st = .pause ∧ (block d g w).1.tmoAt = d.tmoAt :=
  ⟨block_st d g w hu, block_tmoAt d g w⟩

/-- pause(), stop() and reset() disarm the timers of the action in EVERY state and configuration (no `isRunning()` guard) -/
theorem C17_pause_stop_reset_disarm (cfg : Cfg) (d : Node) (now : Nat) :
    (d.paused now).tmoAt = none ∧ (d.stopped cfg).tmoAt = none ∧ (d.stopped cfg).sleepAt = none ∧
    (d.resetted cfg).tmoAt = none ∧ (d.resetted cfg).sleepAt = none :=
  ⟨rfl, (stopped_tmoAt cfg d).1, (stopped_tmoAt cfg d).2, (resetted_tmoAt cfg d).1, (resetted_tmoAt cfg d).2⟩

/-- **after reset() no timer of the tree is armed** — in every reachable state (Running, paused, BLOCKED with its timeout still live,
ended, with queued notifications), for every tree and history: no timeout timer and no sleep timer of any action survives. -/
theorem C17_reset_disarms_every_timer (t : T) (ops : List Op) (hc : Clean t = true) (hl : LeafShape t = true) :
    allTimers (reset (run t {} ops).1 (run t {} ops).2).1 [] = [] :=
  reset_no_timers _ _ (reachable_wf t ops hc hl).1 (reachable_wf t ops hc hl).2

/-- … so the next run arms its timeout from ITS start: a freshly built or reset action started at `now` is Running with the
deadline `now + timeout` (none without a timeout) -/
theorem C17_restart_deadline (d : Node) (now : Nat) (hc : cleanNode d = true) :
    (d.started now).st = .running ∧ (d.started now).tmoAt = d.tmo.map (now + ·) :=
  started_deadline d now hc

/-- why the disarming matters (`timer_ev_->enable()` is a no-op on an armed one-shot timer): an Idle action whose timer were
still armed with the old deadline 202 would, started at 120 with a timeout of 202 ms, run with the deadline 202 instead of 322 -/
theorem C17_stale_timer_survives_start_counterexample :
    (({ id := 0, kind := .ifThen, tmo := some 202, tmoAt := some 202 } : Node).started 120).tmoAt = some 202 ∧
    (({ id := 0, kind := .ifThen, tmo := some 202 } : Node).started 120).tmoAt = some 322 := by decide

/-- IfThen(timeout 202 ms)[ if: Dummy, then: Function(succ) ] — the tree of the missed seeded change C17-6 -/
def blkTmoTree : T := comp 0 .ifThen [leaf 1 .dummy, leaf 2 (.func true none)] (some 202)
def blkTmoHist : List Op := [.calls [.start], .calls [.emitBlk 1], .pass, .adv 100]
def blkTmoS : List Op := [.adv 100, .pass, .adv 50, .calls [.emitFin 1 true], .pass, .pass]

/-- the history on the model (kernel-evaluated; replayed on the real code by corpus 27 and the generator family
`gen_tmo_block_restart`): the leaf blocks, the root is Pause with its timeout still armed (deadline 202); reset() + start() at
100 ms: the new run has the deadline 302, is still Running at 200 ms and 250 ms (the old deadline has passed), the leaf then
succeeds and the root finishes exactly once with success — the end state and the notifications of the run of the freshly built
tree under the same script -/
theorem C17_reset_of_blocked_action_restart :
    (run blkTmoTree {} blkTmoHist).1.data.st = .pause ∧ (run blkTmoTree {} blkTmoHist).1.data.tmoAt = some 202 ∧
    (run blkTmoTree {} (blkTmoHist ++ [.calls [.reset, .start]])).1.data.tmoAt = some 302 ∧
    TimersFrom 100 (run blkTmoTree {} (blkTmoHist ++ [.calls [.reset, .start]])).1 = true ∧
    rootSt (run blkTmoTree {} (blkTmoHist ++ [.calls [.reset, .start], .adv 100, .pass, .adv 50])) = .running ∧
    rootFins (run blkTmoTree {} (blkTmoHist ++ [.calls [.reset, .start]] ++ blkTmoS)) = [(true, .finished)] ∧
    rootFins (run blkTmoTree {} (.calls [.start] :: blkTmoS)) = [(true, .finished)] ∧
    (run blkTmoTree {} (blkTmoHist ++ [.calls [.reset, .start]] ++ blkTmoS)).1.data.res =
      (run blkTmoTree {} (.calls [.start] :: blkTmoS)).1.data.res := by decide +kernel

/-- **`setTimeout` with the SAME value while Running is not a no-op**: the deadline moves to `now + ms`, whatever was armed -/
theorem C17_set_timeout_same_value_moves_deadline (d : Node) (now ms : Nat) (hr : d.st = .running) :
    (d.setTimeout now ms).tmoAt = some (now + ms) ∧ (d.setTimeout now ms).st = .running := by
  simp [Node.setTimeout, hr]

/-- … while Pause (paused or blocked) it disarms the timer until the next resume(), which arms the full interval; in the other
states it only stores the interval -/
theorem C17_set_timeout_not_running (d : Node) (now ms : Nat) (hr : d.st ≠ .running) :
    (d.setTimeout now ms).tmoAt = none ∧ (armTmo (d.setTimeout now ms) (now + 7)).tmoAt = some (now + 7 + ms) := by
  have : (d.st == St.running) = false := by simpa using hr
  simp [Node.setTimeout, armTmo, this]

-- OPEN C17_set_timeout_keeps_inv (full): for every op sequence with `setTimeout` / `resetTimeout` on ANY action at ANY pass the tree
--   invariant holds.  Proved below with the decidable guard `runTOk` (the target is the root, or it is not Idle): the parent-side
--   relation `R` of InvProofs.lean says "a clean subtree is UNTOUCHED" (`Clean t → t' = t`), and a changed `tmo` of an Idle inner
--   action touches it (harmlessly: `Clean` does not read `tmo`); needed: `R` with `Clean t → Clean t'` and `lift` re-proved.
theorem C17_set_timeout_keeps_inv_partial (t : T) (ops : List OpT) (hc : Clean t = true) (hl : LeafShape t = true)
    (hok : runTOk t {} ops = true) : WF (runT t {} ops).1 = true :=
  (runT_wf_partial ops t {} (wf_of_clean t hc hl) GI_init hok).1

example : runTOk blkTmoTree {} [.base (.op (.calls [.start])), .setTmo 0 (some 202), .setTmo 1 (some 50), .base (.op (.adv 100)), .setTmo 0 none,
    .base (.late 300 [.pause])] = true := by decide +kernel

/-- **ParallelAction over Function / Sleep leaves as a CHILD** (stage (i) of M3, ParChild*.lean): a Sequence (any mode) whose
children are — at any positions, in any number — trees of the serial class or ParallelActions (any mode, any number of children)
over Function / Sleep(≥ 1 ms) leaves: for EVERY pass / clock schedule the observable trace is a prefix of the documented visit
order, or the complete visit order followed by exactly one finish notification carrying the documented result. -/
theorem C17_result_matches_doc_seq_over_par_leaves (ds : Node) (cs : TL) (m : Mode3) (hk : ds.kind = .seq m) (hc : cleanNode ds = true)
    (htmo : ds.tmo = none) (hch : ∀ j c, cs.get? j = some c → ChildOk c) (ops : List Op) (hcf : ops.all cfOp = true)
    (r : Bool × Nat) (hr : eval (.node ds cs) = some r) :
    (∃ pfx, pfx <+: visit (.node ds cs) ∧ trOf (run (.node ds cs) {} (.calls [.start] :: ops)).2.log = pfx.map Sum.inl) ∨
    trOf (run (.node ds cs) {} (.calls [.start] :: ops)).2.log = (visit (.node ds cs)).map Sum.inl ++ [Sum.inr r] :=
  seq_over_par_leaves ds cs m hk hc htmo hch ops hcf r hr

/-- the same below a WrapperAction (all four modes) and a CompositeAction -/
theorem C17_result_matches_doc_wrapper_over_par_leaves (ds : Node) (cs : TL) (m : WrapMode) (hk : ds.kind = .wrapper m)
    (hc : cleanNode ds = true) (htmo : ds.tmo = none) (hch : ∀ j c, cs.get? j = some c → ChildOk c) (hlen : 1 ≤ cs.length)
    (ops : List Op) (hcf : ops.all cfOp = true) (r : Bool × Nat) (hr : eval (.node ds cs) = some r) :
    (∃ pfx, pfx <+: visit (.node ds cs) ∧ trOf (run (.node ds cs) {} (.calls [.start] :: ops)).2.log = pfx.map Sum.inl) ∨
    trOf (run (.node ds cs) {} (.calls [.start] :: ops)).2.log = (visit (.node ds cs)).map Sum.inl ++ [Sum.inr r] :=
  wrapper_over_par_leaves ds cs m hk hc htmo hch hlen ops hcf r hr

theorem C17_result_matches_doc_composite_over_par_leaves (ds : Node) (cs : TL) (hk : ds.kind = .composite)
    (hc : cleanNode ds = true) (htmo : ds.tmo = none) (hch : ∀ j c, cs.get? j = some c → ChildOk c) (hlen : 1 ≤ cs.length)
    (ops : List Op) (hcf : ops.all cfOp = true) (r : Bool × Nat) (hr : eval (.node ds cs) = some r) :
    (∃ pfx, pfx <+: visit (.node ds cs) ∧ trOf (run (.node ds cs) {} (.calls [.start] :: ops)).2.log = pfx.map Sum.inl) ∨
    trOf (run (.node ds cs) {} (.calls [.start] :: ops)).2.log = (visit (.node ds cs)).map Sum.inl ++ [Sum.inr r] :=
  composite_over_par_leaves ds cs hk hc htmo hch hlen ops hcf r hr

/-- the batch invariant behind it: in every state of the control-free run of a Parallel over leaves whose own notification is not
queued, the snapshot of a batch contains only notifications of its leaves (`BatchOk`), so one op of the parent is the op of the
child embedded (`C17_batch_embed`); and the step in which the parallel node finishes ends in `DoneAs (true, 0)` -/
theorem C17_par_leaves_batch_ok {m : Mode3} {L : List (Nat ⊕ (Bool × Nat))} {fns : List Nat} {t0 M : Nat} {d : Node} {l : List Node} {g : G}
    (h : PI m L fns t0 M d l g) (ht : d.tasks = []) :
    ∀ ms, BatchOk (.node d (ofList l)) { g with now := g.now + ms } (batchOf (.node d (ofList l))) :=
  par_leaves_batchOk h ht

theorem C17_par_leaves_done_as {m : Mode3} {L : List (Nat ⊕ (Bool × Nat))} {fns : List Nat} {t0 M : Nat} {d : Node} {l : List Node} {g : G}
    (h : PI m L fns t0 M d l g) (hst : d.st = .running) (op : Op) (hop : cfOp op = true)
    (hfin : (step (.node d (ofList l)) g op).1.data.st = .finished) :
    DoneAs (step (.node d (ofList l)) g op).1 (true, 0) :=
  par_leaves_doneAs h hst op hop hfin

/-- non-vacuity: Sequence[ f, Parallel(all)[ f, sleep 5, f ], f ] satisfies the hypotheses and runs as documented -/
example : (∀ j c, exSeqPar.children.get? j = some c → ChildOk c) ∧ eval exSeqPar = some (true, 2) ∧ visit exSeqPar = [2, 4, 6, 7] :=
  ⟨exSeqPar_covered, exSeqPar_run.1, exSeqPar_run.2.1⟩

/-! ## Round 12 — stage (i) for EVERY serial parent kind, and one theorem over the decidable class -/

/-- **the whole-tree statement over the class `SerParOk`** (decidable; ParChild5.lean): the serial class of
`C17_result_matches_doc_serial` — Function / Sleep(≥ 1 ms) leaves; Wrapper, Composite, IfElse, Switch, Sequence, IfThen, Loop, LoopIf,
Repeat(≥ 1) with their arities, all modes, any depth, no timeouts — in which ANY leaf position may hold a ParallelAction (any mode, any
number of children) over Function / Sleep(≥ 1 ms) leaves.  For every freshly built tree of the class and EVERY pass / clock schedule
the observable trace is a prefix of the documented visit order, or the complete visit order followed by exactly one finish
notification carrying the documented result.  Below Loop / LoopIf / Repeat the ParallelAction is reset and run again. -/
theorem C17_result_matches_doc_serial_with_par_leaves (t : T) (hs : SerParOk t = true) (hc : Clean t = true) (ops : List Op)
    (hcf : ops.all cfOp = true) (r : Bool × Nat) (hr : eval t = some r) :
    (∃ pfx, pfx <+: visit t ∧ trOf (run t {} (.calls [.start] :: ops)).2.log = pfx.map Sum.inl) ∨
    trOf (run t {} (.calls [.start] :: ops)).2.log = (visit t).map Sum.inl ++ [Sum.inr r] :=
  serial_with_par_leaves t hs hc ops hcf r hr

/-- the class contains the old serial class and every child allowed by the round-11 theorems -/
theorem C17_ser_par_class_extends (t : T) : (SerOk t = true → SerParOk t = true) ∧ (ChildOk t → SerParOk t = true ∧ Clean t = true) :=
  ⟨serParOk_of_serOk t, fun h => ⟨serParOk_of_childOk t h, (childOk_goodB t h).2⟩⟩

/-- the remaining six serial parent kinds in the form of the round-11 theorems: the parent over `ChildOk` children (serial trees or
ParallelActions over leaves, at any positions) -/
theorem C17_result_matches_doc_ifelse_over_par_leaves (ds : Node) (cs : TL) (a b : Bool) (hk : ds.kind = .ifElse a b)
    (hc : cleanNode ds = true) (htmo : ds.tmo = none) (hch : ∀ j c, cs.get? j = some c → ChildOk c)
    (hlen : cs.length = 1 + (if a then 1 else 0) + (if b then 1 else 0))
    (ops : List Op) (hcf : ops.all cfOp = true) (r : Bool × Nat) (hr : eval (.node ds cs) = some r) :
    (∃ pfx, pfx <+: visit (.node ds cs) ∧ trOf (run (.node ds cs) {} (.calls [.start] :: ops)).2.log = pfx.map Sum.inl) ∨
    trOf (run (.node ds cs) {} (.calls [.start] :: ops)).2.log = (visit (.node ds cs)).map Sum.inl ++ [Sum.inr r] :=
  kind_over_par_leaves ds cs hc htmo (kindOk_ifElse ds _ a b hk hlen) hch ops hcf r hr

theorem C17_result_matches_doc_ifthen_over_par_leaves (ds : Node) (cs : TL) (hk : ds.kind = .ifThen)
    (hc : cleanNode ds = true) (htmo : ds.tmo = none) (hch : ∀ j c, cs.get? j = some c → ChildOk c) (hlen : cs.length % 2 = 0)
    (ops : List Op) (hcf : ops.all cfOp = true) (r : Bool × Nat) (hr : eval (.node ds cs) = some r) :
    (∃ pfx, pfx <+: visit (.node ds cs) ∧ trOf (run (.node ds cs) {} (.calls [.start] :: ops)).2.log = pfx.map Sum.inl) ∨
    trOf (run (.node ds cs) {} (.calls [.start] :: ops)).2.log = (visit (.node ds cs)).map Sum.inl ++ [Sum.inr r] :=
  kind_over_par_leaves ds cs hc htmo (kindOk_ifThen ds _ hk hlen) hch ops hcf r hr

theorem C17_result_matches_doc_switch_over_par_leaves (ds : Node) (cs : TL) (hd : Bool) (hk : ds.kind = .switch hd)
    (hc : cleanNode ds = true) (htmo : ds.tmo = none) (hch : ∀ j c, cs.get? j = some c → ChildOk c) (hlen : 2 ≤ cs.length)
    (ops : List Op) (hcf : ops.all cfOp = true) (r : Bool × Nat) (hr : eval (.node ds cs) = some r) :
    (∃ pfx, pfx <+: visit (.node ds cs) ∧ trOf (run (.node ds cs) {} (.calls [.start] :: ops)).2.log = pfx.map Sum.inl) ∨
    trOf (run (.node ds cs) {} (.calls [.start] :: ops)).2.log = (visit (.node ds cs)).map Sum.inl ++ [Sum.inr r] :=
  kind_over_par_leaves ds cs hc htmo (kindOk_switch ds _ hd hk hlen) hch ops hcf r hr

theorem C17_result_matches_doc_loop_over_par_leaves (ds : Node) (cs : TL) (m : LoopMode) (hk : ds.kind = .loop m)
    (hc : cleanNode ds = true) (htmo : ds.tmo = none) (hch : ∀ j c, cs.get? j = some c → ChildOk c) (hlen : cs.length = 1)
    (ops : List Op) (hcf : ops.all cfOp = true) (r : Bool × Nat) (hr : eval (.node ds cs) = some r) :
    (∃ pfx, pfx <+: visit (.node ds cs) ∧ trOf (run (.node ds cs) {} (.calls [.start] :: ops)).2.log = pfx.map Sum.inl) ∨
    trOf (run (.node ds cs) {} (.calls [.start] :: ops)).2.log = (visit (.node ds cs)).map Sum.inl ++ [Sum.inr r] :=
  kind_over_par_leaves ds cs hc htmo (kindOk_loop ds _ m hk hlen) hch ops hcf r hr

theorem C17_result_matches_doc_loopif_over_par_leaves (ds : Node) (cs : TL) (fr : Bool) (hk : ds.kind = .loopIf fr)
    (hc : cleanNode ds = true) (htmo : ds.tmo = none) (hch : ∀ j c, cs.get? j = some c → ChildOk c) (hlen : cs.length = 2)
    (ops : List Op) (hcf : ops.all cfOp = true) (r : Bool × Nat) (hr : eval (.node ds cs) = some r) :
    (∃ pfx, pfx <+: visit (.node ds cs) ∧ trOf (run (.node ds cs) {} (.calls [.start] :: ops)).2.log = pfx.map Sum.inl) ∨
    trOf (run (.node ds cs) {} (.calls [.start] :: ops)).2.log = (visit (.node ds cs)).map Sum.inl ++ [Sum.inr r] :=
  kind_over_par_leaves ds cs hc htmo (kindOk_loopIf ds _ fr hk hlen) hch ops hcf r hr

theorem C17_result_matches_doc_repeat_over_par_leaves (ds : Node) (cs : TL) (n : Nat) (m : RepMode) (hk : ds.kind = .repeat_ n m)
    (hc : cleanNode ds = true) (htmo : ds.tmo = none) (hch : ∀ j c, cs.get? j = some c → ChildOk c) (hlen : cs.length = 1) (hn : 1 ≤ n)
    (ops : List Op) (hcf : ops.all cfOp = true) (r : Bool × Nat) (hr : eval (.node ds cs) = some r) :
    (∃ pfx, pfx <+: visit (.node ds cs) ∧ trOf (run (.node ds cs) {} (.calls [.start] :: ops)).2.log = pfx.map Sum.inl) ∨
    trOf (run (.node ds cs) {} (.calls [.start] :: ops)).2.log = (visit (.node ds cs)).map Sum.inl ++ [Sum.inr r] :=
  kind_over_par_leaves ds cs hc htmo (kindOk_repeat ds _ n m hk hlen hn) hch ops hcf r hr

/-- non-vacuity (kernel-evaluated): Repeat(2)[ Parallel(all)[ f4, sleep 3, f6 ] ] — the ParallelAction is reset and run a second
time — and IfElse[ Parallel(anySucc)[ f2, f3 ], Sequence[ f5, Parallel(all)[ sleep 2, f8 ] ], f9 ] are in the class, are NOT in the old
serial class, their evaluator result is defined, and a concrete schedule reaches the second disjunct: the complete documented
trace with exactly one finish notification -/
theorem C17_ser_par_class_examples :
    (SerParOk exRepPar = true ∧ Clean exRepPar = true ∧ SerOk exRepPar = false) ∧
    (eval exRepPar = some (true, 7) ∧ visit exRepPar = [4, 6, 4, 6] ∧
      trOf (run exRepPar {} [.calls [.start], .pass, .adv 3, .pass, .pass, .adv 3, .pass, .pass, .pass]).2.log =
        [Sum.inl 4, Sum.inl 6, Sum.inl 4, Sum.inl 6, Sum.inr (true, 7)]) ∧
    (SerParOk exIfPar = true ∧ Clean exIfPar = true ∧ SerOk exIfPar = false) ∧
    (eval exIfPar = some (true, 0) ∧ visit exIfPar = [2, 3, 5, 8] ∧
      trOf (run exIfPar {} [.calls [.start], .pass, .pass, .adv 2, .pass, .pass, .pass, .pass]).2.log =
        [Sum.inl 2, Sum.inl 3, Sum.inl 5, Sum.inl 8, Sum.inr (true, 0)]) :=
  ⟨exRepPar_covered, exRepPar_run, exIfPar_covered, exIfPar_run⟩

/-- non-vacuity of the six parent theorems: the hypotheses of the Repeat one hold of `exRepPar` -/
example : (∀ j c, exRepPar.children.get? j = some c → ChildOk c) ∧ exRepPar.children.length = 1 := by
  refine ⟨fun j c h => ?_, by decide⟩
  match j, h with
  | 0, h =>
    simp only [exRepPar, T.children, TL.get?, Option.some.injEq] at h; subst h
    exact Or.inr ⟨_, _, .all, rfl, rfl, rfl, by decide, by decide, by decide⟩
  | n + 1, h => simp [exRepPar, T.children, TL.get?] at h

/-! ### OPEN (stated, not proved; carried by the executable model + correspondence + monitors)

-- OPEN C17_result_matches_doc, remaining milestones (closed: `C17_result_matches_doc_serial` incl. Loop /
--   LoopIf / Repeat, `C17_finishes_exactly_once`, `C17_loop_never_finishes`, `C17_skeleton_preserved`):
--   * per-prefix ORDER statement for a non-terminating loop (proved: only leaf calls, no finish; not proved:
--     the calls are a prefix of the infinitely repeated visit order).  Missing: a partial-trace predicate
--     `Part t pfx` beside `visit` (prefix-closed, defined by recursion on the tree like `visit`, unrolling a
--     loop k times) and the corresponding clause in `RunOk` / `KSpec.kstep` / `KSpecR.kstep`.
--   * Repeat(0) ("for ever" by wrap-around to 2^64-1) is outside `kindOk`; see `C17_repeat_zero_means_forever`.
--   * M1/M3 ParallelAction: several children are active at once, so `AP` (at most one queued task) fails.
--     Missing: the locality lemma for `runTask` under "all queued run ids are distinct and below `nextId`"
--     (a new invariant of `step`), and the interleaving statement (children advance in lockstep per pass).
--   * timeouts (`tmo ≠ none`) and DummyAction leaves are outside the evaluator's domain (the evaluator has
--     no notion of time; needed: `evalT` returning the finishing time along with the result).
--   The driver still compares every generated control-free run (all composites, all modes) with `eval`.
-- Re-entrant control below the root (op `icb`): control calls on the root from FunctionAction bodies and from the final
--   callbacks of inner composites are run in FREE mode: the model does not predict them; the harness evaluates, on the
--   real code, the clauses that need no prediction (nothing under way below an ended action; finish notification at most
--   once per run and only while Finished; block notification not while Idle / Stoped; final callback only on an ended
--   action; root not under way / Idle at the end of an op whose last call was stop() / reset(); once settled, no Running
--   composite without a child under way).  Found and repaired: patches/C17-09 … C17-14.
-- OPEN (model): a faithful model of these runs needs resumable continuations — the functions of Model.lean are local (a
--   call returns the new subtree to its caller, which holds a copy of its own node); every function that can have a
--   call-out beneath it would return "interrupted at path p with the rest of the frames".
-- (decided) the "stuck composite" seen in random free runs of round 7 was the harness evaluating `settle` before the
--   queue had drained (every level of the tree needs one pass to hand its notification up): `settle` now lets
--   2·nodes+4 passes run first; 30000 random free runs with several scripts and control calls are clean on HEAD, and
--   `settle` is back in the random free generator.  Control calls on INNER nodes from call-outs are misuse (the parent
--   keeps its own bookkeeping) and are not generated.
-- OPEN M3 (Parallel in the whole-tree theorem): closed `C17_run_ids_distinct` (`step_idsOk`), `C17_run_task_local`, and — round 8 —
--   Parallel (all modes, any number of children) over Function / Sleep leaves as the ROOT: `C17_result_matches_doc_par_leaves`,
--   `C17_par_leaves_finishes_exactly_once` (ParLeaves.lean: batch invariant `PI`, kept by every `runTask` / `fireOne` in any order;
--   a batch delivers every queued child notification because run ids are distinct).  Still open, exactly:
--   (a) Parallel-over-leaves as a CHILD of a serial composite: `Good` (Sim2) contains `AP` (at most one queued task in the
--       subtree) and `runQueue_embed` (Sim) is proved from `AP`; needed: `AP` weakened to "every queued task of the subtree is a
--       finish notification with a run id below `nextId`" plus the batch form of `runQueue_embed` (the ids of the snapshot stay
--       below the ids posted during the batch, so the child's own notification is never in the snapshot) — then `par_leaves_run`
--       gives `Good` / `Live` of the parallel node and `both_size` (Sim7) takes it as one more kind;
--   (b) Parallel over COMPOSITE children: each child needs its own `Ctx` (the others are not inert), i.e. `step_embed` for a
--       family of active children whose handler paths are `Apart` (`C17_run_task_local` is the one-task case), and `PI` with
--       `LeafOk` replaced by "child i is at some state of ITS `Good` run"; the trace clause becomes an interleaving.
--   Old note: (ii) `RunOk` for several active children: `AP` (at most one queued task) replaced by "every child is
--   AP", and the trace clause by "the trace restricted to the leaves of child i is a prefix of / equals `visit c_i`" (an
--   interleaving); (iii) the lockstep lemma: one pass = one `step` of every active child, in run-id order.
-- OPEN T (timeouts in the evaluator's domain): `evalT : T → Option (Bool × Nat × Nat)` with the finishing time needs
--   `Good` to carry absolute times (start time + delay) through `KSpec`; `DPS.tmo = none` is used by every `good_*`.
--   Round 8: `C17_timeout_result_depends_on_pass_granularity` shows that the statement itself needs a schedule hypothesis
--   ("a loop pass runs between any two distinct deadlines of the tree, and `depth` passes before the next deadline"): with one
--   late pass a timeout beats a child whose delay is shorter.  Not closed; the generator family `tmo-race` runs both
--   schedules on the real code in quick.
-- OPEN "a Running composite waits for something" (`stuckRoot` never holds in the repaired configuration): monitored
--   by the driver on every state (`running-composite-waits-for-nothing`); round 9: PROVED for the control-free runs of the serial
--   class and of Parallel over leaves (`C17_never_stuck_partial`, `C17_never_stuck_par_leaves`, via liveness, no new invariant);
--   round 9 also found it FALSE of the code as found in free mode (patches/C17-15: CompositeAction::onFinished stopped the current
--   child twice; corpus 22).  For histories with control calls it needs, as an invariant, beside `WF`, "a Running serial composite has a current child under way, or a notification /
--   replay queued in its subtree, or its timeout armed" (and the analogue for ParallelAction) through every handler.
-- OPEN `stepR` with no script attached is `step` (the driver runs `step` itself in that case): needs the frame lemma
--   "no function of Model.lean changes `g.scr`".
-- OPEN C17_reset_bisim, general form: after `reset` EVERY later op sequence (with control calls) produces the same
--   observable trace as on the freshly built tree, for every kind.  Closed: `C17_reset_fresh` (Clean + WF),
--   `C17_skeleton_preserved`, and `C17_rerun_after_reset` / `C17_rerun_finishes_exactly_once` (covered class, second run
--   without control calls, after ANY first history).  Missing for the general form: a relation `Sim t t'` "equal up to
--   the dead fields (finId, blkId, replayId, finishTime, remain, remainTimes) and a shift of run ids and clock", and
--   `step` preserving it — every handler reads those fields only after writing them in the same run.
-- ActionExecutor: one-at-a-time, heads-only, highest-priority-first and callbacks-once are proved.  Observations
--   (not defects of the invariants): cancelAll() only stops the heads and neither removes anything nor calls
--   schedule(); cancel(id) deletes a Running action without stop(): reported, modelled as is.
-/

end Tbox.C17
