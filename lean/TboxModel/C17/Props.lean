/-
C17 — PROPERTY THEOREMS.  "Action trees finish once with the documented result; nothing left running."

Layer 1 (Action base lifecycle + the loop's deferred queue) — full, over every operation sequence.
Layer 2 (trees) — structural theorems over arbitrary trees under the tree invariants `Inv`
(evaluated by the driver on every state it visits); the control flow of SequenceAction proved equal
to the documented loop for any number of children; counterexample theorems (by kernel evaluation of
the executable model) for the four defects repaired by patches/C17-01…04, each paired with the
theorem that the repaired configuration behaves.

What is NOT closed is listed at the end as `-- OPEN`.
-/
import TboxModel.C17.BaseProofs
import TboxModel.C17.TreeProofs
import TboxModel.C17.SeqProofs
namespace Tbox.C17

/-! ## Layer 1 — one action, every call sequence

`brun (.node (action0 tmo) .nil) {} ops` is the state after ANY list `ops` of: start / pause / resume /
stop / reset, the action calling finish(s,w) or block(w) in any state, its timeout firing, the loop
running any queued task id (in any order, also ids that do not exist), clock steps. -/

/-- **finish exactly once**: between two resets at most one finish notification is delivered. -/
theorem C17_base_finish_once (tmo : Option Nat) (ops : List BOp) :
    finsSinceReset (brun (.node (action0 tmo) .nil) {} ops).2.log ≤ 1 := by
  obtain ⟨d, _, h⟩ := brun_inv ops (action0 tmo) {} (init_inv tmo)
  have := h.once; omega

/-- **no stale notification**: every finish notification ever delivered found the action in state
Finished (so none is delivered for a run that was reset, and a stopped action delivers none), and
every block notification found it neither Idle nor Stoped. -/
theorem C17_base_no_stale_after_reset (tmo : Option Nat) (ops : List BOp) :
    (∀ s w st, Ev.rootFin s w st ∈ (brun (.node (action0 tmo) .nil) {} ops).2.log → st = .finished) ∧
    (∀ w st, Ev.rootBlk w st ∈ (brun (.node (action0 tmo) .nil) {} ops).2.log → st ≠ .idle ∧ st ≠ .stoped) := by
  obtain ⟨d, _, h⟩ := brun_inv ops (action0 tmo) {} (init_inv tmo)
  exact ⟨h.logFin, h.logBlk⟩

/-- the same, as a statement about the queue: in every reachable state a queued finish notification
exists only while the action is Finished, a queued block notification only while it is neither Idle
nor Stoped; in particular right after reset() or stop() nothing of that action is queued. -/
theorem C17_base_stopped_delivers_none (tmo : Option Nat) (ops : List BOp) :
    ∃ d, (brun (.node (action0 tmo) .nil) {} ops).1 = .node d .nil ∧
      (∀ p ∈ d.tasks, p.2.isFin = true → d.st = .finished) ∧
      (∀ p ∈ d.tasks, p.2.isBlk = true → d.st ≠ .idle ∧ d.st ≠ .stoped) ∧
      ((d.st = .idle ∨ d.st = .stoped) → d.tasks = []) := by
  obtain ⟨d, e, h⟩ := brun_inv ops (action0 tmo) {} (init_inv tmo)
  refine ⟨d, e, fun p hp hf => (h.fins p hp hf).1, fun p hp hf => ⟨(h.blks p hp hf).2.2.1, (h.blks p hp hf).2.2.2⟩, ?_⟩
  intro hs
  cases hl : d.tasks with
  | nil => rfl
  | cons p ps =>
    have hp : p ∈ d.tasks := by rw [hl]; simp
    rcases h.only p hp with hf | hb
    · have := (h.fins p hp hf).1; rcases hs with hs | hs <;> simp [hs] at this
    · have := h.blks p hp hb; rcases hs with hs | hs
      · exact absurd hs this.2.2.1
      · exact absurd hs this.2.2.2

/-- **the final hook runs once per run**: `finish` runs the final callback of an assemble action
exactly when it takes the action from a not-ended state to Finished; `stop` exactly when it takes it
from Running/Pause to Stoped.  Both target states are left only by reset (see
`C17_no_restart_underway`), so between two resets the hook runs at most once. -/
theorem C17_final_once_per_run (d : Node) (cs : TL) (g : G) (s : Bool) (w : Nat) :
    ((finish d cs g s w).2.2.2 = true ↔ (d.st ≠ .finished ∧ d.st ≠ .stoped)) ∧
    ((finish d cs g s w).2.2.2 = true → (finish d cs g s w).1.st = .finished) ∧
    ((finish d cs g s w).2.2.2 = false → finish d cs g s w = (d, cs, g, false)) ∧
    (d.underway = false → stop (.node d cs) g = (.node d cs, g)) := by
  refine ⟨?_, ?_, ?_, ?_⟩
  · unfold finish; split <;> rename_i h <;> simp at h ⊢ <;> grind
  · unfold finish; split
    · simp
    · intro _
      simp only [post, stopCurr]
      repeat' split
      all_goals simp
  · unfold finish; split
    · intro _; rfl
    · simp
  · intro h; rw [stop]; simp [h]

/-- **no restart while under way** (and none after the end without reset): `start` on an action
that is not Idle changes nothing in the tree or the loop — no `onStart`, no child started, no
function called. -/
theorem C17_no_restart_underway (t : T) (g : G) (h : t.data.st ≠ .idle) :
    (start t g).1 = t ∧ (start t g).2.1 = g ∧ ((start t g).2.2 = true ↔ t.data.st = .running) := by
  obtain ⟨d, cs⟩ := t
  simp only [T.data] at h
  rw [start]
  by_cases hr : d.st = .running
  · simp [hr, T.data]
  · have : (d.st == St.running) = false := by simpa using hr
    have h2 : (d.st != St.idle) = true := by simpa using h
    simp [this, h2, T.data, hr]

/-! ## Layer 2 — trees -/

/-- **documented result, SequenceAction**: for any number of children and any results they report,
the handlers of the sequence (onStart / onChildFinished as used by the executable model) finish
with the result of the documented loop, which is also what the reference evaluator computes. -/
theorem C17_result_matches_doc_sequence (m : Mode3) (rs : List (Bool × Nat)) (d : Node)
    (hk : d.kind = .seq m) (hi : d.index = 0) :
    drive rs (rs.length + 1) (serialStart d rs.length).1 (serialStart d rs.length).2 = some (docSeq m rs (true, 0)) := by
  have := seq_drive_aux m rs rs.length 0 d (true, 0) (by omega) hk hi
  simpa [serialStart, hk] using this

theorem C17_result_matches_doc_sequence_eval (m : Mode3) (cs : TL) (rs : List (Bool × Nat)) (d : Node)
    (hk : d.kind = .seq m) (h : evalList cs = some rs) : eval (.node d cs) = some (docSeq m rs (true, 0)) := by
  rw [eval]; simp only [hk]; exact evalSeq_eq_docSeq m cs rs (true, 0) h

example : docSeq .anyFail [(true, 2), (false, 2), (true, 2)] (true, 0) = (false, 2) := by decide
example : drive [(true, 2), (false, 2)] 3 { id := 0, kind := .seq .all } (.start 0 [] (some (false, 6))) = some (false, 2) := by decide

/-- **nothing left running after stop**: in a tree satisfying the invariant, `stop` leaves no action
of the tree Running or Pause. -/
theorem C17_quiescent_after_stop (t : T) (g : G) (h : Inv t = true) : Quiet (stop t g).1 = true :=
  stop_quiet t g h

/-- **nothing left running after finish** (repaired code): whenever an action finishes — by its
last child, by its own timeout, by a replayed result — none of its descendants stays Running/Pause. -/
theorem C17_quiescent_after_finish (d : Node) (cs : TL) (g : G) (s : Bool) (w : Nat) (hf : g.cfg.fixFin = true)
    (h : Inv (.node d cs) = true) (hok : (finish d cs g s w).2.2.2 = true) :
    QuietL (finish d cs g s w).2.1 = true :=
  finish_quiet d cs g s w hf h hok

/-! ### the defects (unrepaired configuration `old`) and their repairs, on concrete histories -/

def leaf (id : Nat) (k : Kind) (tmo : Option Nat := none) : T := .node { id := id, kind := k, tmo := tmo } .nil
def tl : List T → TL
  | [] => .nil
  | t :: ts => .cons t (tl ts)
def comp (id : Nat) (k : Kind) (cs : List T) (tmo : Option Nat := none) : T := .node { id := id, kind := k, tmo := tmo } (tl cs)
def old : Cfg := { fixPar := false, fixReplay := false, fixFin := false, fixBlk := false }
def rootSt (r : T × G) : St := r.1.data.st
def rootFins (r : T × G) : List (Bool × St) := r.2.log.filterMap fun e => match e with | .rootFin s _ st => some (s, st) | _ => none
def rootBlks (r : T × G) : List St := r.2.log.filterMap fun e => match e with | .rootBlk _ st => some st | _ => none
def fnCalls (r : T × G) : List Nat := r.2.log.reverse.filterMap fun e => match e with | .fn n => some n | _ => none

/-- example trees satisfy the invariant used above (non-vacuity) -/
example : Inv (comp 0 (.seq .all) [leaf 1 (.func true none), leaf 2 (.sleep 105)]) = true := by decide +kernel
example : Inv (run (comp 0 (.seq .all) [leaf 1 (.func true none), leaf 2 (.sleep 105)]) {} [.calls [.start], .pass]).1 = true := by
  decide +kernel

/-- Parallel [Fs, Fs]: `start; pause` before the children's notifications are delivered, `resume`. -/
def parTree : T := comp 0 (.par .all) [leaf 1 (.func true none), leaf 2 (.func true none)]
def parOps : List Op := [.calls [.start, .pause], .pass, .calls [.resume], .pass, .pass, .pass]

/-- unrepaired: the parallel action never finishes (both children Finished, root Running for ever) -/
theorem C17_parallel_lost_result_counterexample :
    rootSt (run parTree { cfg := old } parOps) = .running ∧ rootFins (run parTree { cfg := old } parOps) = [] := by
  decide +kernel
theorem C17_parallel_repaired :
    rootSt (run parTree {} parOps) = .finished ∧ rootFins (run parTree {} parOps) = [(true, .finished)] := by
  decide +kernel

/-- IfElse [Fs, Fs, Ff]: pause, the then-branch's result is held back, `resume; reset`. -/
def ifTree : T := comp 0 (.ifElse true true) [leaf 1 (.func true none), leaf 2 (.func true none), leaf 3 (.func false none)]
def ifOps : List Op := [.calls [.start], .calls [.pause], .pass, .calls [.resume, .reset], .pass, .pass]

/-- unrepaired: the reset (Idle) action turns Finished and notifies for the run that was reset -/
theorem C17_replay_after_reset_counterexample :
    rootSt (run ifTree { cfg := old } ifOps) = .finished ∧ rootFins (run ifTree { cfg := old } ifOps) = [(true, .finished)] ∧
    (run ifTree { cfg := old } [.calls [.start], .calls [.pause], .pass, .calls [.resume, .reset]]).1.data.st = .finished := by
  decide +kernel
theorem C17_replay_repaired :
    rootSt (run ifTree {} ifOps) = .idle ∧ rootFins (run ifTree {} ifOps) = [] := by
  decide +kernel

/-- Sequence [Fs, Sleep, Fs]: `resume; reset; start` — unrepaired, the stale replay advances the NEW
run: child 3 is started while child 2 of the new run is still Running (order broken), and the
sequence finishes with the sleep still running. -/
def seqTree : T := comp 0 (.seq .all) [leaf 1 (.func true none), leaf 2 (.sleep 105), leaf 3 (.func true none)]
def seqOps : List Op := [.calls [.start, .pause], .pass, .calls [.resume, .reset, .start], .pass, .pass]
theorem C17_replay_advances_next_run_counterexample :
    fnCalls (run seqTree { cfg := old } seqOps) = [1, 1, 3] ∧ rootSt (run seqTree { cfg := old } seqOps) = .finished ∧
    Quiet (run seqTree { cfg := old } seqOps).1 = false := by
  decide +kernel
theorem C17_replay_next_run_repaired :
    fnCalls (run seqTree {} seqOps) = [1, 1] ∧ rootSt (run seqTree {} seqOps) = .running := by
  decide +kernel

/-- Sequence with a timeout over a long sleep: the timeout finishes the sequence. -/
def tmoTree : T := comp 0 (.seq .all) [leaf 1 (.sleep 203), leaf 2 (.func true none)] (some 2)
def tmoOps : List Op := [.calls [.start], .adv 100, .pass]
/-- unrepaired: the sequence is Finished (fail) and its child is still Running -/
theorem C17_timeout_leaves_child_running_counterexample :
    rootSt (run tmoTree { cfg := old } tmoOps) = .finished ∧ Quiet (run tmoTree { cfg := old } tmoOps).1 = false := by
  decide +kernel
theorem C17_timeout_repaired :
    rootSt (run tmoTree {} tmoOps) = .finished ∧ Quiet (run tmoTree {} tmoOps).1 = true := by
  decide +kernel

/-- Sequence [Dummy, Fs]: the dummy blocks, then `stop` (resp. a second block, then `reset`). -/
def blkTree : T := comp 0 (.seq .all) [leaf 1 .dummy, leaf 2 (.func true none)]
def blkOps1 : List Op := [.calls [.start], .calls [.emitBlk 1], .calls [.stop], .pass]
def blkOps2 : List Op := [.calls [.start], .calls [.emitBlk 1, .pause, .resume, .emitBlk 1], .calls [.reset], .pass]
/-- unrepaired: a block notification is delivered for a stopped / for a reset action -/
theorem C17_stale_block_counterexample :
    rootBlks (run blkTree { cfg := old } blkOps1) = [.stoped] ∧ rootBlks (run blkTree { cfg := old } blkOps2) = [.idle] := by
  decide +kernel
theorem C17_stale_block_repaired :
    rootBlks (run blkTree {} blkOps1) = [] ∧ rootBlks (run blkTree {} blkOps2) = [] := by
  decide +kernel

/-! ### readings of the documentation -/

/-- the literal last line of the pseudo code in sequence_action.h (`return true`) is not what the code
and the unit tests do: AllFinish over one failing child reports failure. -/
theorem C17_sequence_header_literal_differs :
    rootFins (run (comp 0 (.seq .all) [leaf 1 (.func false none)]) {} [.calls [.start], .pass, .pass]) = [(false, .finished)] ∧
    eval (comp 0 (.seq .all) [leaf 1 (.func false none)]) = some (false, 2) := by
  decide +kernel

/-- RepeatAction(times = 0): `for (i = 0; i < 0; …)` runs the child zero times; the code computes
`times - 1` in size_t and calls the child again and again (here: 5 calls in 4 passes, still running). -/
theorem C17_repeat_zero_counterexample :
    fnCalls (run (comp 0 (.repeat_ 0 .noBreak) [leaf 1 (.func true none)]) {} [.calls [.start], .pass, .pass, .pass]) = [1, 1, 1, 1, 1] ∧
    rootSt (run (comp 0 (.repeat_ 0 .noBreak) [leaf 1 (.func true none)]) {} [.calls [.start], .pass, .pass, .pass]) = .running := by
  decide +kernel

/-! ### OPEN (stated, not proved; carried by the executable model + correspondence + monitors)

-- OPEN C17_result_matches_doc: for every tree `t` with `evalOk t`, leaves that finish synchronously or
--   after delays and no control call, `run t {} (start :: passes)` delivers exactly one root
--   notification, equal to `eval t`, once enough passes/clock steps were made.  Proved here for the
--   control flow of SequenceAction (`C17_result_matches_doc_sequence`, any number of children);
--   checked against `eval` by the driver on every generated control-free run (all composites).
-- OPEN C17_tree_inv: `Inv` (and "an Idle action has nothing queued/armed and only Idle descendants")
--   is preserved by `step` for every op on every tree in the repaired configuration; the driver
--   evaluates both predicates after every step of every generated history.
-- OPEN C17_reset_fresh: under that invariant `reset` returns every node to its freshly built
--   fields (except the dead fields finishTime/remain/remainTimes/run ids).
-/

end Tbox.C17
