/-
C17 — re-entrant control: callback scripts on the root.

The user of a tree owns its root; from inside the root's callbacks he may call start / pause / resume /
stop / reset on the root again:
  * the FINAL callback (`AssembleAction::onFinal`) is called synchronously as the LAST step of
    `Action::finish()` and of `Action::stop()` — the calls are made in the middle of whatever called
    finish(): a handler run by the loop, the timeout, `Action::start()` (whose tail still runs afterwards),
    `ParallelAction::onStart` (which still calls `stopAllActions()` afterwards);
  * the FINISH and BLOCK callbacks run from the loop (`runNext`), in the position of the notification in
    the batch.
A script is one-shot: every invocation of the callback takes the next script of its list.

The functions of Model.lean are used unchanged for everything below the root; the root-level functions
are repeated here with the call-out made exactly where the code makes it.  `H` is what the final
callback does to the tree (`hookF`); with `H = (·, ·)` every function below is the one of Model.lean.
-/
import TboxModel.C17.Model
namespace Tbox.C17

abbrev Hook := T → G → T × G

/-- `finish()` of the root, with the final callback -/
def finishR (H : Hook) (d : Node) (cs : TL) (g : G) (succ : Bool) (why : Nat) : T × G × Bool :=
  let r := finish d cs g succ why
  if r.2.2.2 && !d.isLeaf then ((H (.node r.1 r.2.1) r.2.2.1).1, (H (.node r.1 r.2.1) r.2.2.1).2, true)
  else (.node r.1 r.2.1, r.2.2.1, r.2.2.2)

/-- the tail of `Action::start` after an `onStart()` in which the action finished:
`if (last_state == state_ [&& no reset() since]) { timer_ev_->enable(); state_ = kRunning; }`.
The state is Idle again only if the final callback reset the action; the repaired code (patches/C17-07)
notices that, the code as found set the reset action Running. -/
def startTail (cfg : Cfg) (now : Nat) (t : T) : T := if cfg.fixTail then t else .node (t.data.started now) t.children

/-- how often action `id` was reset (from a state other than Idle) so far -/
def rstCount (g : G) (id : Nat) : Nat := g.log.count (.rst id)

/-- `Action::start` of the root -/
def startR (H : Hook) : T → G → T × G × Bool
  | .node d cs, g =>
    if d.st == .running then (.node d cs, g, true) else
    if d.st != .idle then (.node d cs, g, false) else
    match d.shape with
    | .leaf => start (.node d cs) g
    | .par =>
        let m := d.parMode
        let sc := startChildren cs 0 (m == .anyFail) g
        let d := { d with finished := sc.2.2.foldl (fun acc i => mapSet acc i false) d.finished }
        if m == .anyFail && !sc.2.2.isEmpty then
          -- finish(true); stopAllActions(); return
          let r := finishR H d sc.1 sc.2.1 true 0
          let sa := stopAll r.1.children r.2.1
          (startTail g.cfg g.now (.node r.1.data sa.1), sa.2, true)
        else if d.finished.length == cs.length then
          let r := finishR H d sc.1 sc.2.1 true 0
          (startTail g.cfg g.now r.1, r.2.1, true)
        else (.node (d.started g.now) sc.1, sc.2.1, true)
    | .serial =>
        let ss := serialStart g.cfg d cs.length
        match ss.2 with
        | .finish s w =>
            let r := finishR H ss.1 cs g s w
            (startTail g.cfg g.now r.1, r.2.1, true)
        | .start i _ onFail =>
            let sa := startAt cs i g
            if sa.2.2 then (.node ({ ss.1 with curr := some i }.started g.now) sa.1, sa.2.1, true)
            else match onFail with
              | some (s, w) =>
                  let r := finishR H ss.1 sa.1 sa.2.1 s w
                  (startTail g.cfg g.now r.1, r.2.1, true)
              | none => (.node (ss.1.started g.now) sa.1, sa.2.1, true)

/-- `Action::stop` of the root: the final callback is its last step -/
def stopR (H : Hook) (t : T) (g : G) : T × G :=
  if t.data.underway && !t.data.isLeaf then H (stop t g).1 (stop t g).2 else stop t g

/-- a handler of the root in which `finish()` is the last thing done: the final callback follows it -/
def afterH (H : Hook) (d : Node) (r : Node × TL × G) : Node × TL × G :=
  if r.1.finals != d.finals && !d.isLeaf then
    ((H (.node r.1 r.2.1) r.2.2).1.data, (H (.node r.1 r.2.1) r.2.2).1.children, (H (.node r.1 r.2.1) r.2.2).2)
  else r

/-- a re-posted held-back result runs in the root -/
def onReplayR (H : Hook) (d : Node) (cs : TL) (g : G) : TK → Node × TL × G
  | .replayPar =>
      -- (repaired, patches/C17-08) the results still to be replayed are dropped when the action is reset meanwhile
      d.heldPar.foldl (fun (p : Node × TL × G) r =>
          if g.cfg.fixLoop && rstCount p.2.2 d.id != rstCount g d.id then p
          else afterH H p.1 (parOnChild p.1 p.2.1 p.2.2 r.1 r.2)) ({ d with heldPar := [], replayId := 0 }, cs, g)
  | tk => afterH H d (onReplay d cs g tk)

/-- one control call on the root -/
def doCallR (H : Hook) (t : T) (g : G) : Call → T × G × Bool
  | .start => startR H t g
  | .stop => ((stopR H t g).1, (stopR H t g).2, true)
  | c => doCall t g c

/-- the calls of a callback script, each result reported as it is made -/
def runCalls (H : Hook) (t : T) (g : G) (calls : List Call) : T × G :=
  calls.foldl (fun (q : T × G) c => ((doCallR H q.1 q.2 c).1, (doCallR H q.1 q.2 c).2.1.emit (.ret (doCallR H q.1 q.2 c).2.2))) (t, g)

/-- the final callback of the root with `n` scripts of fuel: take the next script, make its calls -/
def hookF : Nat → Hook
  | 0, t, g => (t, g)
  | n + 1, t, g =>
    match g.scr.final with
    | [] => (t, g)
    | s :: rest => runCalls (hookF n) t { g with scr := { g.scr with final := rest } } s

/-- run the task `id` if it is still queued -/
def runTaskR (H : Hook) (t : T) (g : G) (id : Nat) : T × G :=
  match (allTasks t []).find? (fun x => x.1 == id) with
  | none => (t, g)
  | some (_, path, tk) =>
    match tk with
    | .fin s w =>
        match splitLast path with
        | none =>
            -- the finish callback of the root: the owner is told, then his script runs
            let g1 := g.emit (.rootFin s w t.data.st)
            match g1.scr.fin with
            | [] => (.node (cancelId t.data id) t.children, g1)
            | sc :: rest => runCalls H (.node (cancelId t.data id) t.children) { g1 with scr := { g1.scr with fin := rest } } sc
        | some ([], i) => modifyAt t [] (fun d cs g => afterH H d (onChildFin d (popChild cs i id) g i s w)) g
        | some (pp, i) => modifyAt t pp (fun d cs g => onChildFin d (popChild cs i id) g i s w) g
    | .blk w =>
        match splitLast path with
        | none =>
            let g1 := g.emit (.rootBlk w t.data.st)
            match g1.scr.blk with
            | [] => (.node (cancelId t.data id) t.children, g1)
            | sc :: rest => runCalls H (.node (cancelId t.data id) t.children) { g1 with scr := { g1.scr with blk := rest } } sc
        | some (pp, i) => modifyAt t pp (fun d cs g => onChildBlk d (popChild cs i id) g w) g
    | tk =>
        match path with
        | [] => modifyAt t [] (fun d cs g => onReplayR H (cancelId d id) cs g tk) g
        | _ => modifyAt t path (fun d cs g => onReplay (cancelId d id) cs g tk) g

def runUserR (H : Hook) (t : T) (g : G) (calls : List Call) : T × G := runCalls H t g calls

def runItemR (H : Hook) (t : T) (g : G) (id : Nat) : T × G :=
  match g.user.find? (fun u => u.1 == id) with
  | some (_, calls) => runUserR H t { g with user := g.user.filter (fun u => u.1 != id) } calls
  | none => runTaskR H t g id

def runQueueR (H : Hook) (t : T) (g : G) : T × G :=
  let ids := sortBy (((allTasks t []).map fun x => (x.1, ())) ++ (g.user.map fun x => (x.1, ())))
  ids.foldl (fun (p : T × G) x => runItemR H p.1 p.2 x.1) (t, g)

def fireOneR (H : Hook) (t : T) (g : G) (dl : Nat) (path : List Nat) (isSleep : Bool) : T × G :=
  match path with
  | [] => modifyAt t [] (fun d cs g =>
      if (if isSleep then d.sleepAt else d.tmoAt) == some dl then afterH H d (onTimer d cs g isSleep) else (d, cs, g)) g
  | _ => fireOne t g dl path isSleep

def fireTimersR (H : Hook) (t : T) (g : G) : T × G :=
  let due := sortBy ((allTimers t []).filter (fun x => x.1 ≤ g.now))
  due.foldl (fun (p : T × G) x => fireOneR H p.1 p.2 x.1 x.2.1 x.2.2) (t, g)

/-- which callback of the root a script is attached to -/
inductive CbKind where | final | fin | blk
deriving DecidableEq, Repr

inductive OpR where
  | op (o : Op)
  | cb (k : CbKind) (calls : List Call)      -- attach a one-shot script
deriving Repr

def doCallsR (H : Hook) (t : T) (g : G) (calls : List Call) : T × G × List Bool :=
  calls.foldl (fun (p : T × G × List Bool) c => ((doCallR H p.1 p.2.1 c).1, (doCallR H p.1 p.2.1 c).2.1, p.2.2 ++ [(doCallR H p.1 p.2.1 c).2.2])) (t, g, [])

def applyOpR (H : Hook) (t : T) (g : G) : OpR → T × G × List Bool
  | .op (.calls cs) => doCallsR H t g cs
  | .op o => applyOp t g o
  | .cb .final cs => (t, { g with scr := { g.scr with final := g.scr.final ++ [cs] } }, [])
  | .cb .fin cs => (t, { g with scr := { g.scr with fin := g.scr.fin ++ [cs] } }, [])
  | .cb .blk cs => (t, { g with scr := { g.scr with blk := g.scr.blk ++ [cs] } }, [])

/-- the hook of a pass: as many final-callback invocations can take a script as there are scripts -/
def hookOf (g : G) (o : OpR) : Hook := hookF (g.scr.final.length + 1)

def stepR (t : T) (g : G) (o : OpR) : T × G × List Bool :=
  let H := hookOf g o
  let a := applyOpR H t g o
  let q := runQueueR H a.1 a.2.1
  let f := fireTimersR H q.1 q.2
  (f.1, f.2, a.2.2)

def runR (t : T) (g : G) : List OpR → T × G
  | [] => (t, g)
  | o :: ops => runR (stepR t g o).1 (stepR t g o).2.1 ops

end Tbox.C17
