/-
C17 — the tree invariant `WF` survives re-entrant control: callback scripts on the root (Reent.lean).
In the repaired code every call-out of the root is the last thing the surrounding function does to the
tree (patches/C17-07: the tail of `Action::start`; patches/C17-08: the replay loop of ParallelAction), so
a call-out is "the old function, then the calls of the script".
-/
import TboxModel.C17.Reent
import TboxModel.C17.InvProofs
import TboxModel.C17.Skel
namespace Tbox.C17
set_option linter.unusedSimpArgs false
set_option linter.unusedVariables false

/-- what the proofs need of a final callback: it keeps the invariant and the kind of the root -/
def HookOk (H : Hook) : Prop :=
  ∀ t g, WF t = true → GI g → WF (H t g).1 = true ∧ GI (H t g).2 ∧ (H t g).1.data.kind = t.data.kind

theorem hookOk_id : HookOk (fun t g => (t, g)) := fun t g h hg => ⟨h, hg, rfl⟩

theorem started_kind (x : Node) (now : Nat) : (x.started now).kind = x.kind := by
  unfold Node.started; split <;> rfl

theorem startTail_fix (g : G) (hg : GI g) (now : Nat) (t : T) : startTail g.cfg now t = t := by
  simp [startTail, hg.1]

theorem node_eta (t : T) : T.node t.data t.children = t := by cases t; rfl

/-- `finish()` of the root followed by its final callback -/
theorem finishR_ok (H : Hook) (hH : HookOk H) (d : Node) (cs : TL) (g : G) (s : Bool) (w : Nat)
    (f : WF (.node (finish d cs g s w).1 (finish d cs g s w).2.1) = true ∧ GI (finish d cs g s w).2.2.1 ∧
      (finish d cs g s w).2.2.2 = true ∧ (finish d cs g s w).1.st = .finished ∧ (finish d cs g s w).1.kind = d.kind ∧
      QuietL (finish d cs g s w).2.1 = true) :
    WF (finishR H d cs g s w).1 = true ∧ GI (finishR H d cs g s w).2.1 ∧ (finishR H d cs g s w).1.data.kind = d.kind := by
  unfold finishR
  simp only [f.2.2.1, Bool.true_and]
  split
  · have a := hH _ _ f.1 f.2.1
    exact ⟨a.1, a.2.1, by rw [a.2.2]; exact f.2.2.2.2.1⟩
  · exact ⟨f.1, f.2.1, f.2.2.2.2.1⟩

theorem startR_wf (H : Hook) (hH : HookOk H) : ∀ (t : T) (g : G), WF t = true → GI g →
    WF (startR H t g).1 = true ∧ GI (startR H t g).2.1 ∧ (startR H t g).1.data.kind = t.data.kind
  | .node d cs, g, h, hg => by
    rw [startR]
    by_cases hr : d.st = .running
    · simp only [hr, beq_self_eq_true, ↓reduceIte, T.data]; exact ⟨h, hg, trivial⟩
    · have hr' : (d.st == St.running) = false := by simpa using hr
      simp only [hr', Bool.false_eq_true, ↓reduceIte]
      by_cases hi : d.st = .idle
      · have hi' : (d.st != St.idle) = false := by simp [hi]
        simp only [hi', Bool.false_eq_true, ↓reduceIte, T.data]
        have h0 := h
        simp only [WF, Bool.and_eq_true] at h
        obtain ⟨⟨⟨hn, hleaf⟩, hch⟩, hcs⟩ := h
        have hN := (nodeOk_iff d).1 hn
        have hc : cleanNode d = true := by
          simp only [nodeOk, Bool.and_eq_true, Bool.or_eq_true, bne_iff_ne, ne_eq] at hn
          rcases hn.2 with h | h
          · exact absurd hi h
          · exact h
        obtain ⟨c1, c2, c3, c4, c5, c6, c7, c8, c9, c10, c11⟩ := clean_fields d hc
        have hcl : CleanL cs = true := by simpa [childrenOk, hi] using hch
        have hq0 : QuietL cs = true := quietL_of_cleanL cs hcl
        have hnf0 : NoFinL cs = true := noFinL_of_cleanL cs hcl
        have hne : d.st ≠ .finished ∧ d.st ≠ .stoped := by simp [hi]
        split
        · -- leaf: no final callback
          have a := start_wf (.node d cs) g h0 hg
          refine ⟨a.1, a.2.1, ?_⟩
          have := start_sk (.node d cs) g
          cases hst : start (.node d cs) g with
          | mk t' r =>
            rw [hst] at this
            cases t' with
            | node d' cs' =>
              simp only [sk, T.node.injEq] at this
              have hk : (skN d').kind = (skN d).kind := by rw [this.1]
              exact hk
        · -- parallel
          rename_i hs
          have hp := (shape_par d).1 hs
          have hnl := par_not_leaf d hp
          have hns : d.isSerial = true → False := fun x => by have := (serial_not_leaf d x).2; simp [hp] at this
          have a := startChildren_wf cs 0 (d.parMode == .anyFail) g hcs hg
          have hfail := a.2.2 hcl
          simp only [hfail, List.foldl_nil, List.isEmpty_nil, Bool.not_true, Bool.and_false, Bool.false_eq_true, ↓reduceIte]
          split
          · have f := finish_wf { d with finished := d.finished } _ _ true 0 hN (by simp [hnl]) a.1 a.2.1 hne (fun x => (hns x).elim)
            have r := finishR_ok H hH { d with finished := d.finished } _ _ true 0 f
            rw [startTail_fix g hg]
            exact r
          · refine ⟨?_, a.2.1, started_kind _ _⟩
            exact start_running_node d _ _ g.now hc hi c3 c11 rfl c7 (by simp [hnl]) a.1 (fun x => (hns x).elim)
        · -- serial
          rename_i hs
          have hser := (shape_serial d).1 hs
          have hnl := (serial_not_leaf d hser).1
          simp only [hg.1]
          have hss : ∀ x, x = (serialStart {} d cs.length).1 → NodeOkP x ∧ cleanNode x = true ∧ x.kind = d.kind ∧ x.curr = none := by
            intro x hx
            rcases serialStart_node {} d cs.length with e | e | ⟨r, e⟩ <;> rw [e] at hx <;> subst hx
            · exact ⟨hN, hc, rfl, c6⟩
            · have : cleanNode { d with index := 0 } = true := by simp [cleanNode, c1, c2, c3, c4, c5, c6, c7, c9, c10, c11]
              exact ⟨nodeOkP_of_clean _ this, this, rfl, c6⟩
            · have : cleanNode { d with remainTimes := r } = true := by simpa [cleanNode] using hc
              exact ⟨nodeOkP_of_clean _ this, this, rfl, c6⟩
          obtain ⟨sN, sc, sk, scur⟩ := hss _ rfl
          obtain ⟨s1, s2, s3, s4, s5, s6, s7, s8, s9, s10, s11⟩ := clean_fields _ sc
          have sne : (serialStart {} d cs.length).1.st ≠ .finished ∧ (serialStart {} d cs.length).1.st ≠ .stoped := by simp [s1]
          have sleaf : ∀ cs' : TL, (!(serialStart {} d cs.length).1.isLeaf || cs'.length == 0) = true := by
            intro cs'; rw [isLeaf_congr d _ sk]; simp [hnl]
          have hg' : GI g := hg
          split
          · rename_i s w hnx
            have f := finish_wf _ cs g s w sN (sleaf cs) hcs hg sne (fun _ => quietExcept_of_quietL cs _ hq0)
            have r := finishR_ok H hH _ cs g s w f
            have e : ({} : Cfg) = g.cfg := hg.1.symm
            rw [show startTail ({} : Cfg) g.now (finishR H (serialStart {} d cs.length).1 cs g s w).1 = (finishR H (serialStart {} d cs.length).1 cs g s w).1 from by simp [startTail]]
            exact ⟨r.1, r.2.1, r.2.2.trans sk⟩
          · rename_i i rs onFail hnx
            have a := startAt_wf cs i g hcs hg
            split
            · refine ⟨?_, a.2.1, by rw [started_kind]; exact sk⟩
              exact start_running_node d _ _ g.now hc s1 s3 s11 sk s7 (by simp [hnl]) a.1
                (fun _ => ⟨a.2.2.1 (quietExcept_of_quietL cs _ hq0), a.2.2.2.1 (noFinExcept_of_noFinL cs _ hnf0)⟩)
            · rename_i hok
              have hok' : (startAt cs i g).2.2 = false := by simpa using hok
              have hsame := a.2.2.2.2 hok'
              split
              · rename_i s w
                have f := finish_wf _ (startAt cs i g).1 (startAt cs i g).2.1 s w sN (sleaf _) a.1 a.2.1 sne
                  (fun _ => by rw [hsame]; exact quietExcept_of_quietL cs _ hq0)
                have r := finishR_ok H hH _ _ _ s w f
                rw [show startTail ({} : Cfg) g.now (finishR H (serialStart {} d cs.length).1 (startAt cs i g).1 (startAt cs i g).2.1 s w).1 =
                  (finishR H (serialStart {} d cs.length).1 (startAt cs i g).1 (startAt cs i g).2.1 s w).1 from by simp [startTail]]
                exact ⟨r.1, r.2.1, r.2.2.trans sk⟩
              · refine ⟨?_, a.2.1, by rw [started_kind]; exact sk⟩
                exact start_running_node d _ _ g.now hc s1 s3 s11 sk s7 (by simp [hnl]) a.1
                  (fun _ => by rw [hsame, scur]; exact ⟨quietExcept_of_quietL cs _ hq0, noFinExcept_of_noFinL cs _ hnf0⟩)
      · have hi' : (d.st != St.idle) = true := by simpa using hi
        simp only [hi', ↓reduceIte, T.data]; exact ⟨h, hg, trivial⟩

theorem kind_of_sk (t t' : T) (h : sk t' = sk t) : t'.data.kind = t.data.kind := by
  cases t with
  | node d cs =>
    cases t' with
    | node d' cs' =>
      simp only [sk, T.node.injEq] at h
      have hk : (skN d').kind = (skN d).kind := by rw [h.1]
      exact hk

theorem stopR_wf (H : Hook) (hH : HookOk H) (t : T) (g : G) (h : WF t = true) (hg : GI g) :
    WF (stopR H t g).1 = true ∧ GI (stopR H t g).2 ∧ (stopR H t g).1.data.kind = t.data.kind := by
  have a := stop_wf t g h hg
  have k := kind_of_sk t _ (stop_sk t g)
  unfold stopR
  split
  · have b := hH _ _ a.1 a.2.1
    exact ⟨b.1, b.2.1, b.2.2.trans k⟩
  · exact ⟨a.1, a.2.1, k⟩

theorem doCallR_wf (H : Hook) (hH : HookOk H) (t : T) (g : G) (c : Call) (h : WF t = true) (hg : GI g) :
    WF (doCallR H t g c).1 = true ∧ GI (doCallR H t g c).2.1 ∧ (doCallR H t g c).1.data.kind = t.data.kind := by
  cases c with
  | start => exact startR_wf H hH t g h hg
  | stop => exact stopR_wf H hH t g h hg
  | pause => have a := doCall_wf t g .pause h hg; exact ⟨a.1, a.2, kind_of_sk t _ (doCall_sk t g .pause)⟩
  | resume => have a := doCall_wf t g .resume h hg; exact ⟨a.1, a.2, kind_of_sk t _ (doCall_sk t g .resume)⟩
  | reset => have a := doCall_wf t g .reset h hg; exact ⟨a.1, a.2, kind_of_sk t _ (doCall_sk t g .reset)⟩
  | emitFin n s => have a := doCall_wf t g (.emitFin n s) h hg; exact ⟨a.1, a.2, kind_of_sk t _ (doCall_sk t g (.emitFin n s))⟩
  | emitBlk n => have a := doCall_wf t g (.emitBlk n) h hg; exact ⟨a.1, a.2, kind_of_sk t _ (doCall_sk t g (.emitBlk n))⟩

theorem runCalls_wf (H : Hook) (hH : HookOk H) : ∀ (calls : List Call) (t : T) (g : G), WF t = true → GI g →
    WF (runCalls H t g calls).1 = true ∧ GI (runCalls H t g calls).2 ∧ (runCalls H t g calls).1.data.kind = t.data.kind
  | [], t, g, h, hg => ⟨h, hg, rfl⟩
  | c :: calls, t, g, h, hg => by
    have a := doCallR_wf H hH t g c h hg
    have b := runCalls_wf H hH calls (doCallR H t g c).1 ((doCallR H t g c).2.1.emit (.ret (doCallR H t g c).2.2)) a.1 (GI_emit _ _ a.2.1)
    simp only [runCalls, List.foldl_cons] at b ⊢
    exact ⟨b.1, b.2.1, b.2.2.trans a.2.2⟩

/-- the final callback of the root keeps the invariant, whatever scripts are attached -/
theorem hookF_ok : ∀ (n : Nat), HookOk (hookF n)
  | 0 => hookOk_id
  | n + 1 => by
    intro t g h hg
    rw [hookF]
    split
    · exact ⟨h, hg, rfl⟩
    · exact runCalls_wf (hookF n) (hookF_ok n) _ t _ h ⟨hg.1, hg.2⟩

theorem afterH_ok (H : Hook) (hH : HookOk H) (d : Node) (r : Node × TL × G) (h : WF (.node r.1 r.2.1) = true) (hg : GI r.2.2) (hk : r.1.kind = d.kind) :
    WF (.node (afterH H d r).1 (afterH H d r).2.1) = true ∧ GI (afterH H d r).2.2 ∧ (afterH H d r).1.kind = d.kind := by
  unfold afterH
  split
  · have a := hH _ _ h hg
    simp only
    rw [node_eta]
    exact ⟨a.1, a.2.1, a.2.2.trans hk⟩
  · exact ⟨h, hg, hk⟩

theorem parOnChild_idle (d : Node) (cs : TL) (g : G) (i : Nat) (s : Bool) (h : d.st = .idle) : parOnChild d cs g i s = (d, cs, g) := by
  unfold parOnChild; simp [h]

/-- the replay of held-back results in the root, with the final callback after every result that ends it -/
theorem parFoldR_wf (H : Hook) (hH : HookOk H) (g0 : G) (id0 : Nat) (k : Kind) (hk : ∀ x : Node, x.kind = k → x.isPar = true) :
    ∀ (l : List (Nat × Bool)) (x : Node) (cs : TL) (g : G), WF (.node x cs) = true → GI g → x.kind = k →
    let r := l.foldl (fun (p : Node × TL × G) r =>
      if g0.cfg.fixLoop && rstCount p.2.2 id0 != rstCount g0 id0 then p
      else afterH H p.1 (parOnChild p.1 p.2.1 p.2.2 r.1 r.2)) (x, cs, g)
    WF (.node r.1 r.2.1) = true ∧ GI r.2.2 ∧ r.1.kind = k
  | [], x, cs, g, h, hg, hx => ⟨h, hg, hx⟩
  | (i, s) :: l, x, cs, g, h, hg, hx => by
    simp only [List.foldl_cons]
    split
    · exact parFoldR_wf H hH g0 id0 k hk l x cs g h hg hx
    · by_cases hi : x.st = .idle
      · rw [parOnChild_idle x cs g i s hi]
        have a := afterH_ok H hH x (x, cs, g) h hg rfl
        exact parFoldR_wf H hH g0 id0 k hk l _ _ _ a.1 a.2.1 (a.2.2.trans hx)
      · obtain ⟨hN, hleaf, hch, hw⟩ := wf_parts x cs h
        have b := parOnChild_wf x cs g i s hN (hk x hx) hi hch hw hg
        have a := afterH_ok H hH x _ b.1 b.2.1 b.2.2.2.1
        exact parFoldR_wf H hH g0 id0 k hk l _ _ _ a.1 a.2.1 (a.2.2.trans hx)

theorem onReplayR_wf (H : Hook) (hH : HookOk H) (d : Node) (cs : TL) (g : G) (id : Nat) (tk : TK) (hWF : WF (.node d cs) = true) (hg : GI g)
    (hmem : (id, tk) ∈ d.tasks) (hr : tk.isReplay = true) :
    WF (.node (onReplayR H (cancelId d id) cs g tk).1 (onReplayR H (cancelId d id) cs g tk).2.1) = true ∧
    GI (onReplayR H (cancelId d id) cs g tk).2.2 := by
  cases tk with
  | fin _ _ => simp [TK.isReplay] at hr
  | blk _ => simp [TK.isReplay] at hr
  | replay hh =>
    have a := replay_HP d cs g id _ hWF hg hmem hr
    have b := afterH_ok H hH (cancelId d id) _ a.1 a.2.1 a.2.2.2.1
    exact ⟨b.1, b.2.1⟩
  | replayPar =>
    obtain ⟨hN, hleaf, hch, hw⟩ := wf_parts d cs hWF
    have c := wf_cancelId d cs id hWF
    obtain ⟨hN1, hleaf1, hch1, _⟩ := wf_parts _ cs c.1
    have sub : ∀ p, p ∈ (cancelId d id).tasks → p ∈ d.tasks ∧ p.1 ≠ id := by
      intro p hp; simp only [cancelId, List.mem_filter, bne_iff_ne, ne_eq] at hp; exact hp
    have hrep := hN.repp id hmem
    have hni : d.st ≠ .idle := hrep.2.2.1
    have hpar := hrep.2.2.2.2
    have hnl := par_not_leaf d hpar
    have hN0 : NodeOkP { cancelId d id with heldPar := [], replayId := 0 } := by
      refine nodeOkP_congr (cancelId d id) _ hN1 hni rfl rfl rfl rfl (Or.inr ⟨?_, ?_⟩) rfl (Or.inr rfl) rfl rfl (Or.inl rfl)
      · intro rid x hm
        have := (hN.rep rid x (sub _ hm).1).2.2.2.2.1
        have := (serial_not_leaf d this).2; simp [hpar] at this
      · intro rid hm
        have := sub _ hm
        exact this.2 ((hN.repp rid this.1).1.trans hrep.1.symm)
    have hch0 : childrenOk { cancelId d id with heldPar := [], replayId := 0 } cs = true :=
      childrenOk_RL d _ cs cs hch (RL_refl cs) rfl rfl rfl rfl
        (by intro hs; have := (serial_not_leaf d hs).2; simp [hpar] at this)
    have hw0 : WF (.node { cancelId d id with heldPar := [], replayId := 0 } cs) = true :=
      wf_mk _ cs hN0 (by simp [Node.isLeaf] at hnl ⊢; exact Or.inl hnl) hch0 hw
    have f := parFoldR_wf H hH g (cancelId d id).id d.kind (fun x hx => by rw [isPar_congr d x hx]; exact hpar)
      (cancelId d id).heldPar _ cs g hw0 hg rfl
    simp only [onReplayR]
    exact ⟨f.1, f.2.1⟩

theorem subAt_nil (t : T) (d : Node) (cs : TL) (h : subAt t [] = some (.node d cs)) : t = .node d cs := by
  cases t; simp only [subAt, Option.some.injEq] at h; exact h

theorem GI_scr (g : G) (s : Scr) (h : GI g) : GI { g with scr := s } := ⟨h.1, h.2⟩

theorem runTaskR_wf (H : Hook) (hH : HookOk H) (t : T) (g : G) (id : Nat) (h : WF t = true) (hg : GI g) :
    WF (runTaskR H t g id).1 = true ∧ GI (runTaskR H t g id).2 := by
  unfold runTaskR
  cases hf : (allTasks t []).find? (fun x => x.1 == id) with
  | none => exact ⟨h, hg⟩
  | some x =>
    obtain ⟨id', path, tk⟩ := x
    have hid : id' = id := by have := List.find?_some hf; simpa using this
    subst hid
    obtain ⟨p, e, dN, csN, hs, hm⟩ := allTasks_at t [] _ (List.mem_of_find?_eq_some hf)
    simp only [List.nil_append] at e; subst e
    simp only at hm hs
    cases tk with
    | fin s w =>
      simp only
      cases hsl : splitLast path with
      | none =>
        have := splitLast_none path hsl; subst this
        obtain ⟨d, cs⟩ := t
        simp only [T.data, T.children]
        have hc := (wf_cancelId d cs id' h).1
        split
        · exact ⟨hc, hg⟩
        · refine (fun a => ⟨a.1, a.2.1⟩) (runCalls_wf H hH _ _ _ hc ?_)
          exact ⟨hg.1, hg.2⟩
      | some q =>
        obtain ⟨pp, i⟩ := q
        have := splitLast_some path pp i hsl; subst this
        obtain ⟨d, cs, hs', hget⟩ := subAt_snoc t pp i _ hs
        have hp := childFin_HP d cs g i id' s w (subAt_wf t pp _ h hs') hg dN csN hget hm
        cases pp with
        | nil =>
          simp only
          have e := subAt_nil t d cs hs'; subst e
          simp only [modifyAt]
          have a := afterH_ok H hH d _ hp.1 hp.2.1 hp.2.2.2.1
          exact ⟨a.1, a.2.1⟩
        | cons j pp' =>
          simp only
          have a := lift t (j :: pp') (fun d cs g => onChildFin d (popChild cs i id') g i s w) g d cs h hs' (HP3 hp)
          exact ⟨a.1, a.2.1⟩
    | blk w =>
      simp only
      cases hsl : splitLast path with
      | none =>
        have := splitLast_none path hsl; subst this
        obtain ⟨d, cs⟩ := t
        simp only [T.data, T.children]
        have hc := (wf_cancelId d cs id' h).1
        split
        · exact ⟨hc, hg⟩
        · refine (fun a => ⟨a.1, a.2.1⟩) (runCalls_wf H hH _ _ _ hc ?_)
          exact ⟨hg.1, hg.2⟩
      | some q =>
        obtain ⟨pp, i⟩ := q
        have := splitLast_some path pp i hsl; subst this
        obtain ⟨d, cs, hs', hget⟩ := subAt_snoc t pp i _ hs
        have a := lift t pp (fun d cs g => onChildBlk d (popChild cs i id') g w) g d cs h hs'
          (HP3 (childBlk_HP d cs g i id' w (subAt_wf t pp _ h hs') hg dN csN hget hm))
        exact ⟨a.1, a.2.1⟩
    | replay hh =>
      simp only
      cases path with
      | nil =>
        simp only
        have e := subAt_nil t dN csN hs; subst e
        simp only [modifyAt]
        exact onReplayR_wf H hH dN csN g id' _ h hg hm rfl
      | cons j pp' =>
        simp only
        have a := lift t (j :: pp') (fun d cs g => onReplay (cancelId d id') cs g (.replay hh)) g dN csN h hs
          (HP3 (replay_HP dN csN g id' _ (subAt_wf t (j :: pp') _ h hs) hg hm rfl))
        exact ⟨a.1, a.2.1⟩
    | replayPar =>
      simp only
      cases path with
      | nil =>
        simp only
        have e := subAt_nil t dN csN hs; subst e
        simp only [modifyAt]
        exact onReplayR_wf H hH dN csN g id' _ h hg hm rfl
      | cons j pp' =>
        simp only
        have a := lift t (j :: pp') (fun d cs g => onReplay (cancelId d id') cs g .replayPar) g dN csN h hs
          (HP3 (replay_HP dN csN g id' _ (subAt_wf t (j :: pp') _ h hs) hg hm rfl))
        exact ⟨a.1, a.2.1⟩

theorem runItemR_wf (H : Hook) (hH : HookOk H) (t : T) (g : G) (id : Nat) (h : WF t = true) (hg : GI g) :
    WF (runItemR H t g id).1 = true ∧ GI (runItemR H t g id).2 := by
  unfold runItemR
  split
  · refine (fun a => ⟨a.1, a.2.1⟩) (runCalls_wf H hH _ _ _ h ?_)
    exact ⟨hg.1, hg.2⟩
  · exact runTaskR_wf H hH t g id h hg

theorem runQueueR_wf (H : Hook) (hH : HookOk H) (t : T) (g : G) (h : WF t = true) (hg : GI g) :
    WF (runQueueR H t g).1 = true ∧ GI (runQueueR H t g).2 := by
  unfold runQueueR
  exact fold_wf (fun (p : T × G) (x : Nat × Unit) => runItemR H p.1 p.2 x.1)
    (fun t g x h hg => runItemR_wf H hH t g x.1 h hg) _ t g h hg

theorem fireOneR_wf (H : Hook) (hH : HookOk H) (t : T) (g : G) (dl : Nat) (path : List Nat) (isSleep : Bool) (h : WF t = true) (hg : GI g) :
    WF (fireOneR H t g dl path isSleep).1 = true ∧ GI (fireOneR H t g dl path isSleep).2 := by
  unfold fireOneR
  cases path with
  | cons j pp => exact fireOne_wf t g dl (j :: pp) isSleep h hg
  | nil =>
    obtain ⟨d, cs⟩ := t
    simp only [modifyAt]
    by_cases hc : ((if isSleep = true then d.sleepAt else d.tmoAt) == some dl) = true
    · simp only [hc, ↓reduceIte]
      have a := onTimer_wf d cs g isSleep h hg (by
        cases isSleep with
        | true => simp at hc ⊢; rw [hc]; simp
        | false => simp at hc ⊢; rw [hc]; simp)
      have b := afterH_ok H hH d _ a.1 a.2.1 a.2.2.2.1
      exact ⟨b.1, b.2.1⟩
    · simp only [hc, Bool.false_eq_true, ↓reduceIte]
      exact ⟨h, hg⟩

theorem fireTimersR_wf (H : Hook) (hH : HookOk H) (t : T) (g : G) (h : WF t = true) (hg : GI g) :
    WF (fireTimersR H t g).1 = true ∧ GI (fireTimersR H t g).2 := by
  unfold fireTimersR
  exact fold_wf (fun (p : T × G) (x : Nat × List Nat × Bool) => fireOneR H p.1 p.2 x.1 x.2.1 x.2.2)
    (fun t g x h hg => fireOneR_wf H hH t g x.1 x.2.1 x.2.2 h hg) _ t g h hg

theorem doCallsR_wf (H : Hook) (hH : HookOk H) (t : T) (g : G) (cs : List Call) (h : WF t = true) (hg : GI g) :
    WF (doCallsR H t g cs).1 = true ∧ GI (doCallsR H t g cs).2.1 := by
  unfold doCallsR
  suffices hgen : ∀ (l : List Call) (t : T) (g : G) (acc : List Bool), WF t = true → GI g →
      WF (l.foldl (fun (p : T × G × List Bool) c => ((doCallR H p.1 p.2.1 c).1, (doCallR H p.1 p.2.1 c).2.1, p.2.2 ++ [(doCallR H p.1 p.2.1 c).2.2])) (t, g, acc)).1 = true ∧
      GI (l.foldl (fun (p : T × G × List Bool) c => ((doCallR H p.1 p.2.1 c).1, (doCallR H p.1 p.2.1 c).2.1, p.2.2 ++ [(doCallR H p.1 p.2.1 c).2.2])) (t, g, acc)).2.1 from
    hgen cs t g [] h hg
  intro l
  induction l with
  | nil => intro t g acc h hg; exact ⟨h, hg⟩
  | cons c l ih =>
    intro t g acc h hg
    have a := doCallR_wf H hH t g c h hg
    simp only [List.foldl_cons]
    exact ih _ _ _ a.1 a.2.1

/-- **the tree invariant is inductive over every op of the re-entrant layer**: control calls, deferred calls,
emits, clock steps, and the attachment of callback scripts; the final callback of the root makes its
calls from inside finish() / stop(), the finish and block callbacks from inside the loop's batch -/
theorem stepR_wf (t : T) (g : G) (o : OpR) (h : WF t = true) (hg : GI g) :
    WF (stepR t g o).1 = true ∧ GI (stepR t g o).2.1 := by
  have hH := hookF_ok (g.scr.final.length + 1)
  have a : WF (applyOpR (hookOf g o) t g o).1 = true ∧ GI (applyOpR (hookOf g o) t g o).2.1 := by
    cases o with
    | op op =>
      cases op with
      | calls cs => exact doCallsR_wf _ hH t g cs h hg
      | defer cs => exact ⟨h, hg.1, by simp only [applyOpR, applyOp]; have := hg.2; omega⟩
      | adv ms => exact ⟨h, hg⟩
      | pass => exact ⟨h, hg⟩
    | cb k cs => cases k <;> exact ⟨h, hg.1, hg.2⟩
  have q := runQueueR_wf _ hH _ _ a.1 a.2
  have f := fireTimersR_wf _ hH _ _ q.1 q.2
  exact f

theorem runR_wf : ∀ (ops : List OpR) (t : T) (g : G), WF t = true → GI g → WF (runR t g ops).1 = true ∧ GI (runR t g ops).2
  | [], t, g, h, hg => ⟨h, hg⟩
  | o :: ops, t, g, h, hg => by
    have a := stepR_wf t g o h hg
    simp only [runR]
    exact runR_wf ops _ _ a.1 a.2

theorem reachableR_wf (t : T) (ops : List OpR) (hc : Clean t = true) (hl : LeafShape t = true) :
    WF (runR t {} ops).1 = true ∧ GI (runR t {} ops).2 :=
  runR_wf ops t {} (wf_of_clean t hc hl) GI_init

end Tbox.C17
