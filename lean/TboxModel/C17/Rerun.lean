/-
C17 — "a reset tree behaves like a freshly built one" for the covered class: after ANY history (control calls
at any moment, emits, deferred calls, clock steps), `reset` followed by `start` and loop passes / clock
steps produces the trace of a first run: the documented visit order and exactly one finish notification.
What makes it work: (1) `reset` of a well-formed tree is `Clean` (InvProofs), (2) the skeleton is preserved by
everything (Skel), (3) the whole-tree theorems hold for EVERY clean tree with a covered skeleton, started
from ANY state of the loop-side globals (`Good` / `Live` quantify over `g`).
-/
import TboxModel.C17.Sim7
import TboxModel.C17.Loops
namespace Tbox.C17
set_option linter.unusedSimpArgs false
set_option linter.unusedVariables false

/-- the whole-tree safety theorem from any loop state `g` (no script task pending): the calls and finish
notifications observed AFTER the start are a prefix of the visit order, or the whole of it plus one finish -/
theorem result_matches_from (t : T) (hs : SerOk t = true) (hc : Clean t = true) (g : G) (hg : GIu g) (ops : List Op) (hcf : ops.all cfOp = true)
    (r : Bool × Nat) (hr : eval t = some r) :
    (∃ pfx, pfx <+: visit t ∧ trOf (run t g (.calls [.start] :: ops)).2.log = trOf g.log ++ pfx.map Sum.inl) ∨
    trOf (run t g (.calls [.start] :: ops)).2.log = trOf g.log ++ (visit t).map Sum.inl ++ [Sum.inr r] := by
  have hgood := good_all t hs hc
  obtain ⟨ok, hg1, _, _, _, hrun⟩ := hgood g hg
  have e0 : run t g (.calls [.start] :: ops) = run (start t g).1 (start t g).2.1 (.pass :: ops) := by
    rw [run, run]
    have := step_start t g
    simp only [Prod.mk.injEq] at this
    rw [this.1, this.2]
  rw [e0, run_runU]
  have hcf1 : (Op.pass :: ops).all cfOp = true := by simp [cfOp, hcf]
  have rk := hrun (.pass :: ops) hcf1
  have hrest := runU_rest (.pass :: ops) (start t g).1 (start t g).2.1
  generalize runU (start t g).1 (start t g).2.1 (.pass :: ops) = R at rk hrest ⊢
  obtain ⟨t', g', rest⟩ := R
  obtain ⟨a1, a2, a3, a4⟩ := rk
  simp only [hr] at a3 a4
  simp only at a1 a2 a3 a4 hrest ⊢
  by_cases hf : hasFin t' = true
  · obtain ⟨⟨r', hr', hdone⟩, htr⟩ := a3 hf
    cases hr'
    cases rest with
    | nil => left; exact ⟨visit t, List.prefix_refl _, by simpa [run] using htr⟩
    | cons op rest' =>
      right
      have hopcf : cfOp op = true ∧ rest'.all cfOp = true := by have := hrest.2 hcf1; simpa using this
      obtain ⟨t'', st, hin, e1, e2⟩ := step_deliver t' g' op hopcf.1 a1.2 r hdone
      rw [run, e1, e2]
      have hi := run_inert rest' t'' ((advG g' op).emit (.rootFin r.1 r.2 st)) hopcf.2 hin (by simp [G.emit, advG_user, a1.2])
      rw [hi.2]
      simp only [G.emit]
      rw [trOf_cons_rootFin, advG_log, htr]
  · have hf' : hasFin t' = false := by simpa using hf
    obtain ⟨hre, hp, _⟩ := a4 hf'
    subst hre
    obtain ⟨pfx, hpp, e⟩ := hp (by simp)
    left; exact ⟨pfx, hpp, by simpa [run] using e⟩

/-- the liveness theorem from any loop state -/
theorem finishes_once_from (t : T) (hs : SerOk t = true) (hc : Clean t = true) (g : G) (hg : GIu g) (ops : List Op) (hcf : ops.all cfOp = true)
    (M : Nat) (hM : maxDelay t ≤ M) (hbig : cost t + 1 ≤ bigCount M ops) (r : Bool × Nat) (hr : eval t = some r) :
    trOf (run t g (.calls [.start] :: ops)).2.log = trOf g.log ++ (visit t).map Sum.inl ++ [Sum.inr r] := by
  obtain ⟨hgood, hlive⟩ := both_all t hs hc
  obtain ⟨ok, hg1, _, _, _, hrun⟩ := hgood g hg
  have e0 : run t g (.calls [.start] :: ops) = run (start t g).1 (start t g).2.1 (.pass :: ops) := by
    rw [run, run]
    have := step_start t g
    simp only [Prod.mk.injEq] at this
    rw [this.1, this.2]
  rw [e0, run_runU]
  have hcf1 : (Op.pass :: ops).all cfOp = true := by simp [cfOp, hcf]
  have hb1 : bigCount M ops ≤ bigCount M (Op.pass :: ops) := by rw [bigCount_cons]; omega
  have rk := hrun (.pass :: ops) hcf1
  have lk := hlive g hg (by rw [hr]; simp) M hM (.pass :: ops) hcf1 (by omega)
  have hrest := runU_rest (.pass :: ops) (start t g).1 (start t g).2.1
  generalize runU (start t g).1 (start t g).2.1 (.pass :: ops) = R at rk lk hrest ⊢
  obtain ⟨t', g', rest⟩ := R
  obtain ⟨a1, a2, a3, a4⟩ := rk
  obtain ⟨hf, hcnt⟩ := lk
  simp only [hr] at a3 a4
  simp only at a1 a2 a3 a4 hrest hf hcnt ⊢
  obtain ⟨⟨r', hr', hdone⟩, htr⟩ := a3 hf
  cases hr'
  cases rest with
  | nil => rw [bigCount_nil] at hcnt; omega
  | cons op rest' =>
    have hopcf : cfOp op = true ∧ rest'.all cfOp = true := by have := hrest.2 hcf1; simpa using this
    obtain ⟨t'', st, hin, e1, e2⟩ := step_deliver t' g' op hopcf.1 a1.2 r hdone
    rw [run, e1, e2]
    have hi := run_inert rest' t'' ((advG g' op).emit (.rootFin r.1 r.2 st)) hopcf.2 hin (by simp [G.emit, advG_user, a1.2])
    rw [hi.2]
    simp only [G.emit]
    rw [trOf_cons_rootFin, advG_log, htr]

theorem run_append : ∀ (a b : List Op) (t : T) (g : G), run t g (a ++ b) = run (run t g a).1 (run t g a).2 b
  | [], _, _, _ => rfl
  | op :: a, b, t, g => by simp only [List.cons_append, run]; exact run_append a b _ _

/-- the op `do reset` on a state with no script task pending: the reset tree, nothing else happens in that pass -/
theorem step_reset (t : T) (g : G) (h : WF t = true) (hg : GI g) (hu : g.user = []) :
    (step t g (.calls [.reset])).1 = (reset t g).1 ∧ (step t g (.calls [.reset])).2.1 = (reset t g).2 := by
  have a := reset_wf t g h hg
  have u : (reset t g).2.user = [] := by rw [(reset_g t g).2.2.2.1]; exact hu
  have hin := clean_inert _ a.2.2
  simp only [step, applyOp, doCalls, doCall, List.foldl_cons, List.foldl_nil]
  rw [runQueue_none _ _ hin.1 u, fireTimers_none _ _ hin.2]
  exact ⟨rfl, rfl⟩

/-- everything the whole-tree theorems need of the tree reached by `history`, then `reset` -/
theorem reset_state (t0 : T) (hs : SerOk t0 = true) (hc : Clean t0 = true) (hist : List Op) (hu : (run t0 {} hist).2.user = []) :
    let t2 := (reset (run t0 {} hist).1 (run t0 {} hist).2).1
    let g2 := (reset (run t0 {} hist).1 (run t0 {} hist).2).2
    SerOk t2 = true ∧ Clean t2 = true ∧ GIu g2 ∧ trOf g2.log = trOf (run t0 {} hist).2.log ∧
    eval t2 = eval t0 ∧ visit t2 = visit t0 ∧ cost t2 = cost t0 ∧ maxDelay t2 = maxDelay t0 := by
  have w := reachable_wf t0 hist hc (serOk_leafShape t0 hs)
  have a := reset_wf _ _ w.1 w.2
  have gq := reset_g (run t0 {} hist).1 (run t0 {} hist).2
  have hsk : sk (reset (run t0 {} hist).1 (run t0 {} hist).2).1 = sk t0 := by rw [reset_sk, run_sk]
  refine ⟨by rw [← serOk_sk, hsk, serOk_sk]; exact hs, a.2.2, ⟨a.2.1, by rw [gq.2.2.2.1]; exact hu⟩, gq.2.2.2.2,
    (eval_of_sk t0 _ hsk).1, (eval_of_sk t0 _ hsk).2, (cost_of_sk t0 _ hsk).1, (cost_of_sk t0 _ hsk).2⟩

/-- **a reset tree behaves like a freshly built one (covered class, second run free of control calls)**:
any history, then `do reset`, `do start`, loop passes and clock steps: what is observed after the reset is a
prefix of the documented visit order, or the whole of it followed by exactly one finish with the documented
result -/
theorem rerun_matches_doc (t0 : T) (hs : SerOk t0 = true) (hc : Clean t0 = true) (hist : List Op) (hu : (run t0 {} hist).2.user = [])
    (ops : List Op) (hcf : ops.all cfOp = true) (r : Bool × Nat) (hr : eval t0 = some r) :
    (∃ pfx, pfx <+: visit t0 ∧
      trOf (run t0 {} (hist ++ (.calls [.reset] :: .calls [.start] :: ops))).2.log = trOf (run t0 {} hist).2.log ++ pfx.map Sum.inl) ∨
    trOf (run t0 {} (hist ++ (.calls [.reset] :: .calls [.start] :: ops))).2.log =
      trOf (run t0 {} hist).2.log ++ (visit t0).map Sum.inl ++ [Sum.inr r] := by
  have w := reachable_wf t0 hist hc (serOk_leafShape t0 hs)
  obtain ⟨s2, c2, g2, tr2, e2, v2, _, _⟩ := reset_state t0 hs hc hist hu
  have sr := step_reset _ _ w.1 w.2 hu
  rw [run_append, run, sr.1, sr.2]
  have := result_matches_from _ s2 c2 _ g2 ops hcf r (by rw [e2]; exact hr)
  rw [v2, tr2] at this
  exact this

/-- … and with enough big ops in the second run the complete trace IS reached -/
theorem rerun_finishes_once (t0 : T) (hs : SerOk t0 = true) (hc : Clean t0 = true) (hist : List Op) (hu : (run t0 {} hist).2.user = [])
    (ops : List Op) (hcf : ops.all cfOp = true) (M : Nat) (hM : maxDelay t0 ≤ M) (hbig : cost t0 + 1 ≤ bigCount M ops)
    (r : Bool × Nat) (hr : eval t0 = some r) :
    trOf (run t0 {} (hist ++ (.calls [.reset] :: .calls [.start] :: ops))).2.log =
      trOf (run t0 {} hist).2.log ++ (visit t0).map Sum.inl ++ [Sum.inr r] := by
  have w := reachable_wf t0 hist hc (serOk_leafShape t0 hs)
  obtain ⟨s2, c2, g2, tr2, e2, v2, co2, md2⟩ := reset_state t0 hs hc hist hu
  have sr := step_reset _ _ w.1 w.2 hu
  rw [run_append, run, sr.1, sr.2]
  have := finishes_once_from _ s2 c2 _ g2 ops hcf M (by rw [md2]; exact hM) (by rw [co2]; exact hbig) r (by rw [e2]; exact hr)
  rw [v2, tr2] at this
  exact this

end Tbox.C17
