/-
C17 — control flow of SequenceAction: its handlers (`serialStart` / `serialNext`, the pure part of
onStart / onChildFinished used by the executable model) driven with arbitrary child results give
the documented loop, for any number of children.
-/
import TboxModel.C17.Spec
namespace Tbox.C17
set_option linter.unusedSimpArgs false

/-- the documented loop of SequenceAction over the results of its children -/
def docSeq (m : Mode3) : List (Bool × Nat) → Bool × Nat → Bool × Nat
  | [], acc => acc
  | (s, w) :: rest, _ => if (m == .anySucc && s) || (m == .anyFail && !s) then (s, w) else docSeq m rest (s, w)

/-- drive the handlers of a serial composite with the results its children report: each
`startThisAction(child i)` is answered, when the child's notification is delivered, by `rs[i]` -/
def drive (rs : List (Bool × Nat)) : Nat → Node → Next → Option (Bool × Nat)
  | 0, _, _ => none
  | _ + 1, _, .finish s w => some (s, w)
  | fuel + 1, d, .start i _ _ =>
      match rs[i]? with
      | none => none
      | some (s, w) => let r := serialNext d rs.length i s w; drive rs fuel r.1 r.2

theorem seq_drive_aux (m : Mode3) (rs : List (Bool × Nat)) :
    ∀ (j k : Nat) (d : Node) (acc : Bool × Nat), k + j = rs.length → d.kind = .seq m → d.index = k →
      drive rs (j + 1) d (seqStartOrFinish d rs.length acc.1 acc.2) = some (docSeq m (rs.drop k) acc) := by
  intro j
  induction j with
  | zero =>
    intro k d acc hk hkind hidx
    have : ¬ d.index < rs.length := by omega
    have hd : rs.drop k = [] := by apply List.drop_eq_nil_of_le; omega
    simp [seqStartOrFinish, this, drive, hd, docSeq]
  | succ j ih =>
    intro k d acc hk hkind hidx
    have hlt : d.index < rs.length := by omega
    have hklt : k < rs.length := by omega
    have hd : rs.drop k = rs[k] :: rs.drop (k + 1) := by simp
    have hlt' : k < rs.length := hklt
    rw [hd]
    cases hrs : rs[k] with
    | mk s w =>
      have hget : rs[k]? = some (s, w) := by rw [List.getElem?_eq_getElem hklt, hrs]
      have e1 : seqStartOrFinish d rs.length acc.1 acc.2 = .start k [] (some (false, 6)) := by
        simp [seqStartOrFinish, hidx, hklt]
      rw [e1]
      simp only [drive, hget, docSeq, serialNext, hkind]
      split
      · simp [drive]
      · have := ih (k + 1) { d with index := d.index + 1 } (s, w) (by omega) hkind (by simp [hidx])
        simpa [hkind] using this

/-- results of all children, when every child terminates -/
def evalList : TL → Option (List (Bool × Nat))
  | .nil => some []
  | .cons t ts => match eval t, evalList ts with
      | some r, some rs => some (r :: rs)
      | _, _ => none

/-- the evaluator of Spec.lean on a sequence is the documented loop over the children's results -/
theorem evalSeq_eq_docSeq (m : Mode3) : ∀ (cs : TL) (rs : List (Bool × Nat)) (acc : Bool × Nat),
    evalList cs = some rs → evalSeq m cs acc = some (docSeq m rs acc)
  | .nil, rs, acc, h => by
    simp [evalList] at h; subst h; simp [evalSeq, docSeq]
  | .cons t ts, rs, acc, h => by
    simp only [evalList] at h
    cases ht : eval t with
    | none => simp [ht] at h
    | some r =>
      cases hts : evalList ts with
      | none => simp [ht, hts] at h
      | some rs' =>
        simp [ht, hts] at h; subst h
        obtain ⟨s, w⟩ := r
        simp only [evalSeq, ht, docSeq]
        split
        · rfl
        · exact evalSeq_eq_docSeq m ts rs' (s, w) hts

end Tbox.C17
