/-
C17 — simulation of control-free runs (item 2): how a parent sees the run of the one child that is
active, when everything else in the tree is inert.  Part 1: definitions and the embedding of one
loop pass of a child into its parent.
-/
import TboxModel.C17.InvProofs
namespace Tbox.C17
set_option linter.unusedSimpArgs false
set_option linter.unusedVariables false

/-- ops of a control-free run: loop passes and clock steps -/
def cfOp : Op → Bool
  | .pass => true
  | .adv _ => true
  | _ => false

/-- nothing queued and nothing armed anywhere in the subtree -/
def Inert (t : T) : Prop := allTasks t [] = [] ∧ allTimers t [] = []

/-- replace child `i` -/
def setChild : TL → Nat → T → TL
  | .nil, _, _ => .nil
  | .cons _ ts, 0, s => .cons s ts
  | .cons t ts, i + 1, s => .cons t (setChild ts i s)

/-- every child except `i` is inert -/
def OthersInert : TL → Option Nat → Prop
  | .nil, _ => True
  | .cons t ts, none => Inert t ∧ OthersInert ts none
  | .cons _ ts, some 0 => OthersInert ts none
  | .cons t ts, some (i + 1) => Inert t ∧ OthersInert ts (some i)

/-- run until the root has its finish notification queued (it is the parent's / the owner's turn then) -/
def runU (t : T) (g : G) : List Op → T × G × List Op
  | [] => (t, g, [])
  | op :: ops => if hasFin t then (t, g, op :: ops) else runU (step t g op).1 (step t g op).2.1 ops

def pre (i : Nat) {α : Type} (x : Nat × List Nat × α) : Nat × List Nat × α := (x.1, i :: x.2.1, x.2.2)

/-! ### paths are prefixes -/

mutual
theorem allTasks_prefix : ∀ (t : T) (p : List Nat), allTasks t p = (allTasks t []).map (fun x => (x.1, p ++ x.2.1, x.2.2))
  | .node d cs, p => by
    rw [allTasks, allTasks]
    simp only [List.map_append, List.map_map]
    congr 1
    · simp [Function.comp]
    · rw [allTasksL_prefix cs p 0]
theorem allTasksL_prefix : ∀ (cs : TL) (p : List Nat) (k : Nat),
    allTasksL cs p k = (allTasksL cs [] k).map (fun x => (x.1, p ++ x.2.1, x.2.2))
  | .nil, _, _ => by simp [allTasksL]
  | .cons t ts, p, k => by
    rw [allTasksL, allTasksL]
    simp only [List.map_append]
    rw [allTasks_prefix t (p ++ [k]), allTasks_prefix t ([] ++ [k]), allTasksL_prefix ts p (k + 1)]
    simp [List.map_map, Function.comp]
end

mutual
theorem allTimers_prefix : ∀ (t : T) (p : List Nat), allTimers t p = (allTimers t []).map (fun x => (x.1, p ++ x.2.1, x.2.2))
  | .node d cs, p => by
    rw [allTimers, allTimers]
    simp only [List.map_append]
    rw [allTimersL_prefix cs p 0]
    cases d.sleepAt <;> cases d.tmoAt <;> simp
theorem allTimersL_prefix : ∀ (cs : TL) (p : List Nat) (k : Nat),
    allTimersL cs p k = (allTimersL cs [] k).map (fun x => (x.1, p ++ x.2.1, x.2.2))
  | .nil, _, _ => by simp [allTimersL]
  | .cons t ts, p, k => by
    rw [allTimersL, allTimersL]
    simp only [List.map_append]
    rw [allTimers_prefix t (p ++ [k]), allTimers_prefix t ([] ++ [k]), allTimersL_prefix ts p (k + 1)]
    simp [List.map_map, Function.comp]
end

/-! ### the queue and the timers of a parent whose other children are inert -/

theorem inert_tasks (t : T) (h : Inert t) (p : List Nat) : allTasks t p = [] := by
  rw [allTasks_prefix, h.1]; rfl
theorem inert_timers (t : T) (h : Inert t) (p : List Nat) : allTimers t p = [] := by
  rw [allTimers_prefix, h.2]; rfl

theorem othersInert_none_tasks : ∀ (cs : TL) (k : Nat), OthersInert cs none → allTasksL cs [] k = [] ∧ allTimersL cs [] k = []
  | .nil, _, _ => by simp [allTasksL, allTimersL]
  | .cons t ts, k, h => by
    have a := othersInert_none_tasks ts (k + 1) h.2
    simp [allTasksL, allTimersL, inert_tasks t h.1, inert_timers t h.1, a.1, a.2]

theorem tasksL_one : ∀ (cs : TL) (i k : Nat) (c : T), OthersInert cs (some i) → cs.get? i = some c →
    allTasksL cs [] k = (allTasks c []).map (fun x => (x.1, (k + i) :: x.2.1, x.2.2)) ∧
    allTimersL cs [] k = (allTimers c []).map (fun x => (x.1, (k + i) :: x.2.1, x.2.2))
  | .nil, _, _, _, _, hg => by simp [TL.get?] at hg
  | .cons t ts, 0, k, c, h, hg => by
    simp only [TL.get?, Option.some.injEq] at hg; subst hg
    have a := othersInert_none_tasks ts (k + 1) h
    rw [allTasksL, allTimersL, a.1, a.2, allTasks_prefix, allTimers_prefix]
    simp
  | .cons t ts, i + 1, k, c, h, hg => by
    simp only [TL.get?] at hg
    have b := tasksL_one ts i (k + 1) c h.2 hg
    rw [allTasksL, allTimersL, inert_tasks t h.1, inert_timers t h.1, b.1, b.2]
    have : k + 1 + i = k + (i + 1) := by omega
    simp [this]

/-- the parent `P = node d cs` of the one active child `c = cs[i]` -/
structure Ctx (d : Node) (cs : TL) (i : Nat) (c : T) : Prop where
  tasks : d.tasks = []
  slp : d.sleepAt = none
  tmo : d.tmoAt = none
  others : OthersInert cs (some i)
  get : cs.get? i = some c

theorem ctx_tasks {d : Node} {cs : TL} {i : Nat} {c : T} (h : Ctx d cs i c) :
    allTasks (.node d cs) [] = (allTasks c []).map (pre i) ∧ allTimers (.node d cs) [] = (allTimers c []).map (pre i) := by
  have a := tasksL_one cs i 0 c h.others h.get
  rw [allTasks, allTimers, h.tasks, h.slp, h.tmo, a.1, a.2]
  simp [pre]

theorem get_setChild : ∀ (cs : TL) (i : Nat) (s : T), (∃ c, cs.get? i = some c) → (setChild cs i s).get? i = some s
  | .nil, _, _, h => by obtain ⟨c, hc⟩ := h; simp [TL.get?] at hc
  | .cons t ts, 0, s, _ => by simp [setChild, TL.get?]
  | .cons t ts, i + 1, s, h => by
    simp only [TL.get?] at h
    simp only [setChild, TL.get?]; exact get_setChild ts i s h

theorem othersInert_setChild : ∀ (cs : TL) (i : Nat) (s : T), OthersInert cs (some i) → OthersInert (setChild cs i s) (some i)
  | .nil, _, _, _ => trivial
  | .cons t ts, 0, s, h => h
  | .cons t ts, i + 1, s, h => ⟨h.1, othersInert_setChild ts i s h.2⟩

theorem ctx_setChild {d : Node} {cs : TL} {i : Nat} {c : T} (h : Ctx d cs i c) (s : T) : Ctx d (setChild cs i s) i s :=
  ⟨h.tasks, h.slp, h.tmo, othersInert_setChild cs i s h.others, get_setChild cs i s ⟨c, h.get⟩⟩

theorem modifyAtL_get : ∀ (cs : TL) (i : Nat) (p : List Nat) (f : Node → TL → G → Node × TL × G) (g : G) (c : T),
    cs.get? i = some c → modifyAtL cs i p f g = (setChild cs i (modifyAt c p f g).1, (modifyAt c p f g).2)
  | .nil, _, _, _, _, _, hg => by simp [TL.get?] at hg
  | .cons t ts, 0, p, f, g, c, hg => by
    simp only [TL.get?, Option.some.injEq] at hg; subst hg
    simp [modifyAtL, setChild]
  | .cons t ts, i + 1, p, f, g, c, hg => by
    simp only [TL.get?] at hg
    simp [modifyAtL, setChild, modifyAtL_get ts i p f g c hg]

/-! ### one queued task / the timers of the active child, seen from the parent -/

theorem setChild_setChild : ∀ (cs : TL) (i : Nat) (a b : T), setChild (setChild cs i a) i b = setChild cs i b
  | .nil, _, _, _ => rfl
  | .cons t ts, 0, a, b => rfl
  | .cons t ts, i + 1, a, b => by simp [setChild, setChild_setChild ts i a b]

theorem insertBy_map {α β : Type} (f : Nat × α → Nat × β) (hf : ∀ x, (f x).1 = x.1) (x : Nat × α) :
    ∀ (l : List (Nat × α)), insertBy (f x) (l.map f) = (insertBy x l).map f
  | [] => rfl
  | y :: ys => by
    simp only [List.map_cons, insertBy, hf]
    split
    · simp
    · simp [insertBy_map f hf x ys]

theorem sortBy_map {α β : Type} (f : Nat × α → Nat × β) (hf : ∀ x, (f x).1 = x.1) :
    ∀ (l : List (Nat × α)), sortBy (l.map f) = (sortBy l).map f
  | [] => rfl
  | y :: ys => by
    simp only [sortBy, List.map_cons, List.foldr_cons]
    have := sortBy_map f hf ys
    simp only [sortBy] at this
    rw [this, insertBy_map f hf y]

theorem fireOne_embed {d : Node} {cs : TL} {i : Nat} {c : T} (h : Ctx d cs i c) (g : G) (dl : Nat) (q : List Nat) (b : Bool) :
    fireOne (.node d cs) g dl (i :: q) b = (.node d (setChild cs i (fireOne c g dl q b).1), (fireOne c g dl q b).2) := by
  unfold fireOne
  rw [modifyAt, modifyAtL_get cs i q _ g c h.get]

theorem fireFold_embed : ∀ (L : List (Nat × List Nat × Bool)) (d : Node) (cs : TL) (i : Nat) (c : T) (g : G), Ctx d cs i c →
    (L.map (pre i)).foldl (fun (p : T × G) x => fireOne p.1 p.2 x.1 x.2.1 x.2.2) (.node d cs, g) =
    (.node d (setChild cs i (L.foldl (fun (p : T × G) x => fireOne p.1 p.2 x.1 x.2.1 x.2.2) (c, g)).1),
     (L.foldl (fun (p : T × G) x => fireOne p.1 p.2 x.1 x.2.1 x.2.2) (c, g)).2)
  | [], d, cs, i, c, g, h => by
    simp only [List.map_nil, List.foldl_nil]
    congr 2
    -- setChild cs i c = cs
    have : ∀ (cs : TL) (i : Nat) (c : T), cs.get? i = some c → setChild cs i c = cs := by
      intro cs; induction cs using TL.rec (motive_1 := fun _ => True) with
      | node => trivial
      | nil => intro i c hg; simp [TL.get?] at hg
      | cons t ts _ ih =>
        intro i c hg
        cases i with
        | zero => simp only [TL.get?, Option.some.injEq] at hg; subst hg; rfl
        | succ j => simp only [TL.get?] at hg; simp [setChild, ih j c hg]
    exact (this cs i c h.get).symm
  | x :: L, d, cs, i, c, g, h => by
    simp only [List.map_cons, List.foldl_cons, pre]
    rw [fireOne_embed h g x.1 x.2.1 x.2.2]
    have ih := fireFold_embed L d (setChild cs i (fireOne c g x.1 x.2.1 x.2.2).1) i (fireOne c g x.1 x.2.1 x.2.2).1
      (fireOne c g x.1 x.2.1 x.2.2).2 (ctx_setChild h _)
    rw [ih, setChild_setChild]

theorem fireTimers_embed {d : Node} {cs : TL} {i : Nat} {c : T} (h : Ctx d cs i c) (g : G) :
    fireTimers (.node d cs) g = (.node d (setChild cs i (fireTimers c g).1), (fireTimers c g).2) := by
  unfold fireTimers
  rw [(ctx_tasks h).2]
  have e : sortBy (List.filter (fun x => decide (x.1 ≤ g.now)) ((allTimers c []).map (pre i))) =
      (sortBy (List.filter (fun x => decide (x.1 ≤ g.now)) (allTimers c []))).map (pre i) := by
    rw [← sortBy_map (pre i) (fun _ => rfl)]
    congr 1
    rw [List.filter_map]; rfl
  rw [e]
  exact fireFold_embed _ d cs i c g h

theorem splitLast_cons (i : Nat) : ∀ (q : List Nat), q ≠ [] → splitLast (i :: q) = (splitLast q).map (fun x => (i :: x.1, x.2))
  | [], h => absurd rfl h
  | a :: r, _ => by
    simp only [splitLast]
    cases hs : splitLast (a :: r) with
    | none => simp
    | some x => simp

theorem splitLast_ne_nil : ∀ (q : List Nat), q ≠ [] → (splitLast q).isSome = true
  | [], h => absurd rfl h
  | [a], _ => by simp [splitLast]
  | a :: b :: r, _ => by
    simp only [splitLast]
    have := splitLast_ne_nil (b :: r) (by simp)
    cases hs : splitLast (b :: r) with
    | none => simp [hs] at this
    | some x => simp

/-- the queued finish notification `id` of a strict descendant of the active child runs: the parent
only sees the child change -/
theorem runTask_embed {d : Node} {cs : TL} {i : Nat} {c : T} (h : Ctx d cs i c) (g : G) (id : Nat) (q : List Nat) (s : Bool) (w : Nat)
    (hq : q ≠ []) (hf : (allTasks c []).find? (fun x => x.1 == id) = some (id, q, TK.fin s w)) :
    runTask (.node d cs) g id = (.node d (setChild cs i (runTask c g id).1), (runTask c g id).2) := by
  have hP : (allTasks (.node d cs) []).find? (fun x => x.1 == id) = some (id, i :: q, TK.fin s w) := by
    rw [(ctx_tasks h).1, List.find?_map]
    have : ((fun (x : Nat × List Nat × TK) => x.1 == id) ∘ pre i) = (fun x => x.1 == id) := by funext x; rfl
    rw [this, hf]; rfl
  obtain ⟨⟨pp, j⟩, hsl⟩ := Option.isSome_iff_exists.1 (splitLast_ne_nil q hq)
  unfold runTask
  rw [hP, hf]
  simp only [splitLast_cons i q hq, hsl, Option.map_some]
  rw [modifyAt, modifyAtL_get cs i pp _ g c h.get]

theorem runQueue_none (t : T) (g : G) (h : allTasks t [] = []) (hu : g.user = []) : runQueue t g = (t, g) := by
  unfold runQueue; simp [h, hu, sortBy]

theorem runQueue_one (t : T) (g : G) (x : Nat × List Nat × TK) (h : allTasks t [] = [x]) (hu : g.user = []) :
    runQueue t g = runTask t g x.1 := by
  unfold runQueue
  simp only [h, hu, List.map_cons, List.map_nil, List.append_nil, sortBy, List.foldr_cons, List.foldr_nil, insertBy,
    List.foldl_cons, List.foldl_nil, runItem, List.find?_nil]

/-! ### one op of a control-free run, seen from the parent -/

/-- at most one task is queued in the subtree, and it is a finish notification -/
def AP (c : T) : Prop := allTasks c [] = [] ∨ ∃ id q s w, allTasks c [] = [(id, q, TK.fin s w)]

def advG (g : G) : Op → G
  | .adv ms => { g with now := g.now + ms }
  | _ => g

theorem step_cf (t : T) (g : G) (op : Op) (h : cfOp op = true) :
    step t g op = ((fireTimers (runQueue t (advG g op)).1 (runQueue t (advG g op)).2).1,
                   (fireTimers (runQueue t (advG g op)).1 (runQueue t (advG g op)).2).2, []) := by
  cases op <;> simp [cfOp] at h <;> simp [step, applyOp, advG]

theorem advG_user (g : G) (op : Op) : (advG g op).user = g.user := by cases op <;> rfl

theorem tasksL_path_ne : ∀ (cs : TL) (k : Nat) (x : Nat × List Nat × TK), x ∈ allTasksL cs [] k → x.2.1 ≠ []
  | .nil, _, _, h => by simp [allTasksL] at h
  | .cons t ts, k, x, h => by
    simp only [allTasksL, List.mem_append] at h
    rcases h with h | h
    · rw [allTasks_prefix] at h
      simp only [List.mem_map] at h
      obtain ⟨y, _, e⟩ := h
      rw [← e]; simp
    · exact tasksL_path_ne ts (k + 1) x h

theorem root_task_of_nil_path (c : T) (id : Nat) (tk : TK) (h : (id, ([] : List Nat), tk) ∈ allTasks c []) : (id, tk) ∈ c.data.tasks := by
  obtain ⟨d, cs⟩ := c
  simp only [allTasks, List.mem_append, List.mem_map] at h
  rcases h with ⟨p, hp, e⟩ | h
  · simp only [Prod.mk.injEq, true_and] at e
    have : p = (id, tk) := by obtain ⟨a, b⟩ := p; simp at e; simp [e]
    rw [← this]; exact hp
  · exact absurd rfl (tasksL_path_ne cs 0 _ h)

theorem setChild_self : ∀ (cs : TL) (i : Nat) (c : T), cs.get? i = some c → setChild cs i c = cs
  | .nil, _, _, hg => by simp [TL.get?] at hg
  | .cons t ts, 0, c, hg => by simp only [TL.get?, Option.some.injEq] at hg; subst hg; rfl
  | .cons t ts, i + 1, c, hg => by simp only [TL.get?] at hg; simp [setChild, setChild_self ts i c hg]

theorem runQueue_embed {d : Node} {cs : TL} {i : Nat} {c : T} (h : Ctx d cs i c) (g : G) (hap : AP c) (hnf : hasFin c = false)
    (hu : g.user = []) :
    runQueue (.node d cs) g = (.node d (setChild cs i (runQueue c g).1), (runQueue c g).2) := by
  rcases hap with h0 | ⟨id, q, s, w, h1⟩
  · rw [runQueue_none c g h0 hu, runQueue_none _ g (by rw [(ctx_tasks h).1, h0]; rfl) hu, setChild_self cs i c h.get]
  · have hq : q ≠ [] := by
      intro e; subst e
      have := root_task_of_nil_path c id (TK.fin s w) (by rw [h1]; simp)
      have hh : hasFin c = true := by
        simp only [hasFin, List.any_eq_true]; exact ⟨_, this, rfl⟩
      rw [hh] at hnf; cases hnf
    rw [runQueue_one c g _ h1 hu, runQueue_one _ g (pre i (id, q, TK.fin s w)) (by rw [(ctx_tasks h).1, h1]; rfl) hu]
    exact runTask_embed h g id q s w hq (by rw [h1]; simp)

theorem step_embed {d : Node} {cs : TL} {i : Nat} {c : T} (h : Ctx d cs i c) (g : G) (op : Op) (hop : cfOp op = true)
    (hap : AP c) (hnf : hasFin c = false) (hu : g.user = []) :
    step (.node d cs) g op = (.node d (setChild cs i (step c g op).1), (step c g op).2.1, []) := by
  rw [step_cf _ g op hop, step_cf c g op hop]
  rw [runQueue_embed h (advG g op) hap hnf (by rw [advG_user]; exact hu)]
  rw [fireTimers_embed (ctx_setChild h _), setChild_setChild]

/-- what the parent needs to know about every state on the child's way -/
def OnWay (c : T) (g : G) : Prop := ∀ ops', ops'.all cfOp = true → AP (runU c g ops').1 ∧ (runU c g ops').2.1.user = []

theorem onWay_step (c : T) (g : G) (op : Op) (hop : cfOp op = true) (h : OnWay c g) (hnf : hasFin c = false) :
    OnWay (step c g op).1 (step c g op).2.1 := by
  intro ops' hcf
  have := h (op :: ops') (by simp [hop, hcf])
  simpa [runU, hnf] using this

/-- the run of the parent while its active child is on its way: the child's run, embedded -/
theorem runU_embed : ∀ (ops : List Op) (d : Node) (cs : TL) (i : Nat) (c : T) (g : G), Ctx d cs i c → ops.all cfOp = true → OnWay c g →
    runU (.node d cs) g ops =
      runU (.node d (setChild cs i (runU c g ops).1)) (runU c g ops).2.1 (runU c g ops).2.2
  | [], d, cs, i, c, g, h, _, _ => by simp [runU, setChild_self cs i c h.get]
  | op :: ops, d, cs, i, c, g, h, hcf, hw => by
    simp only [List.all_cons, Bool.and_eq_true] at hcf
    have hP : hasFin (.node d cs) = false := by simp [hasFin, T.data, h.tasks]
    by_cases hf : hasFin c = true
    · have e : runU c g (op :: ops) = (c, g, op :: ops) := by simp [runU, hf]
      rw [e]; simp only [setChild_self cs i c h.get]
    · have hf' : hasFin c = false := by simpa using hf
      have e : runU c g (op :: ops) = runU (step c g op).1 (step c g op).2.1 ops := by simp [runU, hf']
      rw [e]
      have hw0 := hw [] (by simp)
      have e2 : runU (.node d cs) g (op :: ops) = runU (step (.node d cs) g op).1 (step (.node d cs) g op).2.1 ops := by
        simp [runU, hP]
      rw [e2, step_embed h g op hcf.1 (by simpa [runU] using hw0.1) hf' (by simpa [runU] using hw0.2)]
      have ih := runU_embed ops d (setChild cs i (step c g op).1) i (step c g op).1 (step c g op).2.1 (ctx_setChild h _) hcf.2
        (onWay_step c g op hcf.1 hw hf')
      rw [ih, setChild_setChild]

end Tbox.C17
