/-
C17 — simulation of control-free runs, part 2: what a finished run of a subtree looks like (`Good`),
proved for the leaves.
-/
import TboxModel.C17.Sim
import TboxModel.C17.Spec
namespace Tbox.C17
set_option linter.unusedSimpArgs false
set_option linter.unusedVariables false

/-- what the owner of the tree can observe of a control-free run, oldest first: the calls of the
leaf functions (`inl id`) and the finish notifications of the root (`inr (is_succ, reason)`) -/
def trOf (log : List Ev) : List (Nat ⊕ (Bool × Nat)) :=
  (log.filterMap (fun e => match e with
    | .fn n => some (Sum.inl n)
    | .rootFin s w _ => some (Sum.inr (s, w))
    | _ => none)).reverse

theorem trOf_cons_fn (n : Nat) (log : List Ev) : trOf (.fn n :: log) = trOf log ++ [Sum.inl n] := by simp [trOf]
theorem trOf_cons_rootFin (s : Bool) (w : Nat) (st : St) (log : List Ev) : trOf (.rootFin s w st :: log) = trOf log ++ [Sum.inr (s, w)] := by
  simp [trOf]
theorem trOf_cons_other (e : Ev) (log : List Ev) (h : ∀ n, e ≠ .fn n) (h2 : ∀ s w st, e ≠ .rootFin s w st) : trOf (e :: log) = trOf log := by
  cases e <;> simp_all [trOf]

/-- loop-side invariant of a control-free run: repaired configuration, no script tasks -/
def GIu (g : G) : Prop := GI g ∧ g.user = []

/-- the subtree has finished with result `r` and is waiting for its parent: exactly its own finish
notification is queued, nothing is armed -/
def DoneAs (t : T) (r : Bool × Nat) : Prop :=
  (∃ id, allTasks t [] = [(id, [], TK.fin r.1 r.2)]) ∧ allTimers t [] = [] ∧ t.data.st = .finished

/-- what a (partial) control-free run `R` must look like, given the calls made before it (`L`), the
evaluator's result `v` and visit order `vs` -/
def RunOk (R : T × G × List Op) (L : List (Nat ⊕ (Bool × Nat))) (v : Option (Bool × Nat)) (vs : List Nat) : Prop :=
  GIu R.2.1 ∧ AP R.1 ∧
  (hasFin R.1 = true → (∃ r, v = some r ∧ DoneAs R.1 r) ∧ trOf R.2.1.log = L ++ vs.map Sum.inl) ∧
  (hasFin R.1 = false → R.2.2 = [] ∧ (v ≠ none → ∃ pfx, pfx <+: vs ∧ trOf R.2.1.log = L ++ pfx.map Sum.inl) ∧
    ∃ tr : List Nat, trOf R.2.1.log = L ++ tr.map Sum.inl)

/-- the control-free behaviour of a freshly built subtree `s`, started at any moment -/
def Good (s : T) : Prop := ∀ g : G, GIu g →
  (start s g).2.2 = true ∧ GIu (start s g).2.1 ∧ (start s g).2.1.now = g.now ∧
  True ∧
  (∀ x ∈ allTimers (start s g).1 [], g.now < x.1) ∧
  ∀ ops, ops.all cfOp = true → RunOk (runU (start s g).1 (start s g).2.1 ops) (trOf g.log) (eval s) (visit s)

theorem runU_hasFin (t : T) (g : G) (ops : List Op) (h : hasFin t = true) : runU t g ops = (t, g, ops) := by
  cases ops <;> simp [runU, h]

/-! ### FunctionAction -/

/-- reason code reported by a FunctionAction -/
def fnWhy : Option Nat → Nat
  | some t => 100 + t
  | none => 2

/-- the node of a FunctionAction leaf after its start() -/
def funcDone (d : Node) (g : G) (succ : Bool) (tag : Option Nat) : Node :=
  { d with st := .finished, tmoAt := none, res := (if succ then Res.success else Res.fail), finId := g.nextId,
           tasks := [(g.nextId, TK.fin succ (fnWhy tag))], finals := 1 }


theorem good_func (d : Node) (succ : Bool) (tag : Option Nat) (hk : d.kind = .func succ tag) (hc : cleanNode d = true) :
    Good (.node d .nil) := by
  obtain ⟨c1, c2, c3, c4, c5, c6, c7, c8, c9, c10, c11⟩ := clean_fields d hc
  intro g hg
  have hsh : d.shape = .leaf := by simp [Node.shape, Node.isLeaf, hk]
  have hl : d.isLeaf = true := by simp [Node.isLeaf, hk]
  have hst : start (.node d .nil) g = (.node (funcDone d g succ tag) .nil, { (g.emit (.fn d.id)) with nextId := g.nextId + 1 }, true) := by
    rw [start]
    simp only [c1, hsh, hk]
    cases tag <;> simp [finish, c1, Node.isLeaf, hk, post, onFinal, Node.started, G.emit, c3, c11, funcDone, fnWhy]
  rw [hst]
  have hfin : hasFin (.node (funcDone d g succ tag) .nil) = true := by
    simp [hasFin, T.data, TK.isFin, funcDone]
  have hgi : GIu { (g.emit (.fn d.id)) with nextId := g.nextId + 1 } :=
    ⟨⟨hg.1.1, by have := hg.1.2; simp only [G.emit]; omega⟩, hg.2⟩
  refine ⟨rfl, hgi, rfl, trivial, by simp [allTimers, allTimersL, c5, funcDone], ?_⟩
  intro ops _
  rw [runU_hasFin _ _ ops hfin]
  refine ⟨hgi, ?_, ?_, ?_⟩
  · right; exact ⟨g.nextId, [], succ, fnWhy tag, by simp [allTasks, allTasksL, funcDone]⟩
  · intro _
    refine ⟨⟨(succ, fnWhy tag), by cases tag <;> simp [eval, hk, fnWhy], ⟨g.nextId, by simp [allTasks, allTasksL, funcDone]⟩,
      by simp [allTimers, allTimersL, c5, funcDone], rfl⟩, ?_⟩
    simp [G.emit, trOf_cons_fn, visit, hk]
  · intro h; rw [hfin] at h; cases h

/-! ### SleepAction -/

/-- the node of a sleeping SleepAction (started at time `t0`) -/
def sleepRun (d : Node) (t0 ms : Nat) : Node :=
  { d with finishTime := t0 + ms, sleepAt := some (t0 + ms), st := .running }

/-- … and after its timer fired -/
def sleepDone (d : Node) (t0 ms : Nat) (g : G) : Node :=
  { d with finishTime := t0 + ms, sleepAt := none, st := .finished, tmoAt := none, res := Res.success, finId := g.nextId,
           tasks := [(g.nextId, TK.fin true 3)], finals := 1 }

theorem advG_GIu (g : G) (op : Op) (h : GIu g) : GIu (advG g op) := by
  cases op <;> exact h

theorem advG_log (g : G) (op : Op) : (advG g op).log = g.log := by cases op <;> rfl

theorem sleep_step (d : Node) (ms t0 : Nat) (hk : d.kind = .sleep ms) (hc : cleanNode d = true) (htmo : d.tmo = none)
    (g : G) (op : Op) (hop : cfOp op = true) (hu : g.user = []) :
    step (.node (sleepRun d t0 ms) .nil) g op =
      if t0 + ms ≤ (advG g op).now then
        (.node (sleepDone d t0 ms (advG g op)) .nil, { (advG g op) with nextId := (advG g op).nextId + 1 }, [])
      else (.node (sleepRun d t0 ms) .nil, advG g op, []) := by
  obtain ⟨c1, c2, c3, c4, c5, c6, c7, c8, c9, c10, c11⟩ := clean_fields d hc
  rw [step_cf _ g op hop]
  have ht : allTasks (.node (sleepRun d t0 ms) .nil) [] = [] := by simp [allTasks, allTasksL, sleepRun, c3]
  rw [runQueue_none _ _ ht (by rw [advG_user]; exact hu)]
  unfold fireTimers
  have htm : allTimers (.node (sleepRun d t0 ms) .nil) [] = [(t0 + ms, [], true)] := by
    simp [allTimers, allTimersL, sleepRun, c4]
  rw [htm]
  by_cases hdue : t0 + ms ≤ (advG g op).now
  · simp only [hdue, List.filter_cons, decide_true, ↓reduceIte, List.filter_nil, sortBy, List.foldr_cons, List.foldr_nil, insertBy,
      List.foldl_cons, List.foldl_nil]
    simp [fireOne, modifyAt, sleepRun, onTimer, finish3, finish, Node.isLeaf, hk, post, onFinal, sleepDone, c3, c11, c4]
  · simp [hdue, sortBy]

theorem sleep_run (d : Node) (ms t0 : Nat) (hk : d.kind = .sleep ms) (hc : cleanNode d = true) (htmo : d.tmo = none) :
    ∀ (ops : List Op) (g : G), ops.all cfOp = true → GIu g →
      GIu (runU (.node (sleepRun d t0 ms) .nil) g ops).2.1 ∧
      (runU (.node (sleepRun d t0 ms) .nil) g ops).2.1.log = g.log ∧
      ((runU (.node (sleepRun d t0 ms) .nil) g ops).1 = .node (sleepRun d t0 ms) .nil ∧ (runU (.node (sleepRun d t0 ms) .nil) g ops).2.2 = [] ∨
       ∃ g', (runU (.node (sleepRun d t0 ms) .nil) g ops).1 = .node (sleepDone d t0 ms g') .nil)
  | [], g, _, hg => ⟨hg, rfl, Or.inl ⟨rfl, rfl⟩⟩
  | op :: ops, g, hcf, hg => by
    obtain ⟨c1, c2, c3, c4, c5, c6, c7, c8, c9, c10, c11⟩ := clean_fields d hc
    simp only [List.all_cons, Bool.and_eq_true] at hcf
    have hnf : hasFin (.node (sleepRun d t0 ms) .nil) = false := by simp [hasFin, T.data, sleepRun, c3]
    have e : runU (.node (sleepRun d t0 ms) .nil) g (op :: ops) =
        runU (step (.node (sleepRun d t0 ms) .nil) g op).1 (step (.node (sleepRun d t0 ms) .nil) g op).2.1 ops := by
      simp [runU, hnf]
    rw [e, sleep_step d ms t0 hk hc htmo g op hcf.1 hg.2]
    have hga := advG_GIu g op hg
    by_cases hdue : t0 + ms ≤ (advG g op).now
    · simp only [hdue, ↓reduceIte]
      have hfin : hasFin (.node (sleepDone d t0 ms (advG g op)) .nil) = true := by simp [hasFin, T.data, sleepDone, TK.isFin]
      rw [runU_hasFin _ _ ops hfin]
      refine ⟨⟨⟨hga.1.1, by have := hga.1.2; simp only []; omega⟩, hga.2⟩, by simp [advG_log], Or.inr ⟨_, rfl⟩⟩
    · simp only [hdue, ↓reduceIte]
      have ih := sleep_run d ms t0 hk hc htmo ops (advG g op) hcf.2 hga
      rw [advG_log] at ih
      exact ih

theorem good_sleep (d : Node) (ms : Nat) (hk : d.kind = .sleep ms) (hms : 1 ≤ ms) (hc : cleanNode d = true) (htmo : d.tmo = none) :
    Good (.node d .nil) := by
  obtain ⟨c1, c2, c3, c4, c5, c6, c7, c8, c9, c10, c11⟩ := clean_fields d hc
  intro g hg
  have hsh : d.shape = .leaf := by simp [Node.shape, Node.isLeaf, hk]
  have hst : start (.node d .nil) g = (.node (sleepRun d g.now ms) .nil, g, true) := by
    rw [start]
    simp only [c1, hsh, hk]
    simp [Node.started, c1, armTmo, htmo, sleepRun, c4, hk]
  rw [hst]
  refine ⟨rfl, hg, rfl, trivial, by simp [allTimers, allTimersL, sleepRun, c4]; omega, ?_⟩
  intro ops hcf
  have r := sleep_run d ms g.now hk hc htmo ops g hcf hg
  refine ⟨r.1, ?_, ?_, ?_⟩
  · rcases r.2.2 with ⟨e, _⟩ | ⟨g', e⟩
    · rw [e]; left; simp [allTasks, allTasksL, sleepRun, c3]
    · rw [e]; right; exact ⟨g'.nextId, [], true, 3, by simp [allTasks, allTasksL, sleepDone]⟩
  · intro hf
    rcases r.2.2 with ⟨e, _⟩ | ⟨g', e⟩
    · rw [e] at hf; simp [hasFin, T.data, sleepRun, c3] at hf
    · refine ⟨⟨(true, 3), by simp [eval, hk], ?_⟩, by rw [r.2.1]; simp [visit, hk]⟩
      rw [e]
      exact ⟨⟨g'.nextId, by simp [allTasks, allTasksL, sleepDone]⟩, by simp [allTimers, allTimersL, sleepDone], rfl⟩
  · intro hf
    rcases r.2.2 with ⟨e, hr⟩ | ⟨g', e⟩
    · exact ⟨hr, fun _ => ⟨[], by simp, by rw [r.2.1]; simp⟩, [], by rw [r.2.1]; simp⟩
    · rw [e] at hf; simp [hasFin, T.data, sleepDone, TK.isFin] at hf

end Tbox.C17
