/-
C17 — simulation of control-free runs, part 3: a serial composite at a decision point — finishing,
starting a child, and the pass in which the finished child's notification is delivered.
-/
import TboxModel.C17.Sim2
namespace Tbox.C17
set_option linter.unusedSimpArgs false
set_option linter.unusedVariables false

/-- the parent at a decision point: nothing current, nothing queued / armed / held, no timeout configured,
not ended; all children inert -/
structure DPS (d : Node) (cs : TL) : Prop where
  st : d.st = .running
  curr : d.curr = none
  tasks : d.tasks = []
  tmoAt : d.tmoAt = none
  slp : d.sleepAt = none
  tmo : d.tmo = none
  ser : d.isSerial = true
  fin0 : d.finals = 0
  inert : OthersInert cs none

theorem othersInert_some_of_none : ∀ (cs : TL) (j : Nat), OthersInert cs none → OthersInert cs (some j)
  | .nil, _, _ => trivial
  | .cons t ts, 0, h => h.2
  | .cons t ts, j + 1, h => ⟨h.1, othersInert_some_of_none ts j h.2⟩

theorem othersInert_none_of_some : ∀ (cs : TL) (j : Nat) (c : T), OthersInert cs (some j) → cs.get? j = some c → Inert c → OthersInert cs none
  | .nil, _, _, _, _, _ => trivial
  | .cons t ts, 0, c, h, hg, hi => by simp only [TL.get?, Option.some.injEq] at hg; subst hg; exact ⟨hi, h⟩
  | .cons t ts, j + 1, c, h, hg, hi => by simp only [TL.get?] at hg; exact ⟨h.1, othersInert_none_of_some ts j c h.2 hg hi⟩

theorem inert_all_tasks (d : Node) (cs : TL) (h : OthersInert cs none) (h1 : d.sleepAt = none) (h2 : d.tmoAt = none) :
    allTasks (.node d cs) [] = d.tasks.map (fun p => (p.1, [], p.2)) ∧ allTimers (.node d cs) [] = [] := by
  have a := othersInert_none_tasks cs 0 h
  rw [allTasks, allTimers, a.1, a.2, h1, h2]; simp

/-- the node after `finish(s, w)` -/
def finNode (d : Node) (g : G) (s : Bool) (w : Nat) : Node :=
  { d with st := .finished, tmoAt := none, res := (if s then Res.success else Res.fail), finId := g.nextId,
           tasks := d.tasks ++ [(g.nextId, TK.fin s w)], finals := d.finals + 1 }

/-- `finish` of a serial composite that has no current child (repaired configuration) -/
theorem finish3_nocurr (d : Node) (cs : TL) (g : G) (s : Bool) (w : Nat) (hg : GI g) (hser : d.isSerial = true)
    (hne : d.st ≠ .finished ∧ d.st ≠ .stoped) (hcur : d.curr = none) :
    finish3 d cs g s w = (finNode d g s w, cs, { (g.emit (.final d.id)) with nextId := g.nextId + 1 }) := by
  have hl := (serial_not_leaf d hser).1
  have hp := (serial_not_leaf d hser).2
  have hne' : (d.st == St.finished || d.st == St.stoped) = false := by simp [hne.1, hne.2]
  have e1 : ({ d with st := St.finished, tmoAt := none } : Node).isLeaf = false := by rw [← hl]; exact isLeaf_congr d _ rfl
  have e2 : ({ d with st := St.finished, tmoAt := none } : Node).isPar = false := by rw [← hp]; exact isPar_congr d _ rfl
  unfold finish3 finish
  simp only [hne', Bool.false_eq_true, ↓reduceIte, hg.1, e1, e2, Bool.or_true]
  have hl2 : (match d.kind with | Kind.func succ tag => true | Kind.sleep ms => true | Kind.dummy => true | x => false) = false := hl
  simp [stopCurr, hcur, post, onFinal, finNode, G.emit, Node.isLeaf]
  exact hl2

/-- the composite after it finished at a decision point: it waits for its parent -/
theorem done_of_finish (d : Node) (cs : TL) (g : G) (s : Bool) (w : Nat) (h : DPS d cs) :
    DoneAs (.node (finNode d g s w) cs) (s, w) ∧ hasFin (.node (finNode d g s w) cs) = true := by
  have a := inert_all_tasks (finNode d g s w) cs h.inert (by simp [finNode, h.slp]) (by simp [finNode])
  refine ⟨⟨⟨g.nextId, ?_⟩, a.2, rfl⟩, by simp [hasFin, T.data, finNode, TK.isFin]⟩
  rw [a.1]; simp [finNode, h.tasks]

theorem startAt_get : ∀ (cs : TL) (j : Nat) (g : G) (c : T), cs.get? j = some c →
    startAt cs j g = (setChild cs j (start c g).1, (start c g).2.1, (start c g).2.2)
  | .nil, _, _, _, hg => by simp [TL.get?] at hg
  | .cons t ts, 0, g, c, hg => by simp only [TL.get?, Option.some.injEq] at hg; subst hg; simp [startAt, setChild]
  | .cons t ts, j + 1, g, c, hg => by simp only [TL.get?] at hg; simp [startAt, setChild, startAt_get ts j g c hg]

/-- starting child `j` at a decision point -/
theorem applyNext_start (d : Node) (cs : TL) (g : G) (j : Nat) (onFail : Option (Bool × Nat)) (c : T)
    (hget : cs.get? j = some c) (hok : (start c g).2.2 = true) :
    applyNext d cs g (.start j [] onFail) = ({ d with curr := some j }, setChild cs j (start c g).1, (start c g).2.1) := by
  simp [applyNext, startAt_get cs j g c hget, hok]

theorem ctx_of_dps (d : Node) (cs : TL) (j : Nat) (c s : T) (h : DPS d cs) (hget : cs.get? j = some c) :
    Ctx { d with curr := some j } (setChild cs j s) j s :=
  ⟨h.tasks, h.slp, h.tmoAt, othersInert_setChild cs j s (othersInert_some_of_none cs j h.inert), get_setChild cs j s ⟨c, hget⟩⟩

theorem length_setChild : ∀ (cs : TL) (j : Nat) (s : T), (setChild cs j s).length = cs.length
  | .nil, _, _ => rfl
  | .cons t ts, 0, s => rfl
  | .cons t ts, j + 1, s => by simp [setChild, TL.length, length_setChild ts j s]

theorem length_popChild : ∀ (cs : TL) (j id : Nat), (popChild cs j id).length = cs.length
  | .nil, _, _ => rfl
  | .cons t ts, 0, id => rfl
  | .cons t ts, j + 1, id => by simp [popChild, TL.length, length_popChild ts j id]

/-- popping the finish notification of the finished child `c = cs[j]` leaves it inert -/
theorem popChild_done : ∀ (cs : TL) (j id : Nat) (c : T) (r : Bool × Nat), cs.get? j = some c →
    allTasks c [] = [(id, [], TK.fin r.1 r.2)] → allTimers c [] = [] → OthersInert cs (some j) → OthersInert (popChild cs j id) none
  | .nil, _, _, _, _, hg, _, _, _ => by simp [TL.get?] at hg
  | .cons t ts, 0, id, c, r, hg, ht, htm, ho => by
    simp only [TL.get?, Option.some.injEq] at hg; subst hg
    refine ⟨?_, ho⟩
    obtain ⟨d, ccs⟩ := t
    simp only [T.data, T.children]
    -- the only task of the subtree is the root's: the children have none
    have hroot : d.tasks = [(id, TK.fin r.1 r.2)] ∧ allTasksL ccs [] 0 = [] := by
      rw [allTasks] at ht
      cases hd : d.tasks with
      | nil =>
        rw [hd] at ht; simp only [List.map_nil, List.nil_append] at ht
        have : (id, ([] : List Nat), TK.fin r.1 r.2) ∈ allTasksL ccs [] 0 := by rw [ht]; simp
        exact absurd rfl (tasksL_path_ne ccs 0 _ this)
      | cons p ps =>
        rw [hd] at ht
        simp only [List.map_cons, List.cons_append, List.cons.injEq] at ht
        have h2 := ht.2
        have hps : ps = [] := by
          cases ps with
          | nil => rfl
          | cons q qs => simp at h2
        subst hps
        simp only [List.map_nil, List.nil_append] at h2
        refine ⟨?_, h2⟩
        obtain ⟨a, b⟩ := p
        simp only [Prod.mk.injEq] at ht
        simp [ht.1.1, ht.1.2.2]
    constructor
    · rw [allTasks]; simp [cancelId, hroot.1, hroot.2]
    · rw [allTimers] at htm ⊢; exact htm
  | .cons t ts, j + 1, id, c, r, hg, ht, htm, ho => by
    simp only [TL.get?] at hg
    exact ⟨ho.1, popChild_done ts j id c r hg ht htm ho.2⟩

/-- the pass in which the finished child's notification is delivered to its serial parent -/
theorem step_done {d : Node} {cs : TL} {j : Nat} {c : T} (h : Ctx d cs j c) (hser : d.isSerial = true) (g : G) (hu : g.user = [])
    (op : Op) (hop : cfOp op = true) (id : Nat) (r : Bool × Nat) (ht : allTasks c [] = [(id, [], TK.fin r.1 r.2)]) :
    step (.node d cs) g op =
      ((fireTimers (.node (serialOnChild d (popChild cs j id) (advG g op) j r.1 r.2).1 (serialOnChild d (popChild cs j id) (advG g op) j r.1 r.2).2.1)
          (serialOnChild d (popChild cs j id) (advG g op) j r.1 r.2).2.2).1,
       (fireTimers (.node (serialOnChild d (popChild cs j id) (advG g op) j r.1 r.2).1 (serialOnChild d (popChild cs j id) (advG g op) j r.1 r.2).2.1)
          (serialOnChild d (popChild cs j id) (advG g op) j r.1 r.2).2.2).2, []) := by
  have hp := (serial_not_leaf d hser).2
  have hP : allTasks (.node d cs) [] = [(id, [j], TK.fin r.1 r.2)] := by rw [(ctx_tasks h).1, ht]; rfl
  rw [step_cf _ g op hop, runQueue_one _ _ _ hP (by rw [advG_user]; exact hu)]
  have e : runTask (.node d cs) (advG g op) id =
      (.node (serialOnChild d (popChild cs j id) (advG g op) j r.1 r.2).1 (serialOnChild d (popChild cs j id) (advG g op) j r.1 r.2).2.1,
       (serialOnChild d (popChild cs j id) (advG g op) j r.1 r.2).2.2) := by
    unfold runTask
    rw [hP]
    simp [splitLast, modifyAt, onChildFin, hp]
  rw [e]

/-! ### small facts used by the generic serial-composite theorem -/

theorem fireTimers_notdue (t : T) (g : G) (h : ∀ x ∈ allTimers t [], g.now < x.1) : fireTimers t g = (t, g) := by
  unfold fireTimers
  have : List.filter (fun x => decide (x.1 ≤ g.now)) (allTimers t []) = [] := by
    simp only [List.filter_eq_nil_iff, decide_eq_true_eq]
    intro x hx; have := h x hx; omega
  rw [this]; rfl

theorem AP_embed {d : Node} {cs : TL} {i : Nat} {c : T} (h : Ctx d cs i c) (hap : AP c) : AP (.node d cs) := by
  rcases hap with h0 | ⟨id, q, s, w, h1⟩
  · left; rw [(ctx_tasks h).1, h0]; rfl
  · right; exact ⟨id, i :: q, s, w, by rw [(ctx_tasks h).1, h1]; rfl⟩

theorem hasFin_of_no_tasks (d : Node) (cs : TL) (h : d.tasks = []) : hasFin (.node d cs) = false := by
  simp [hasFin, T.data, h]

theorem curr_roundtrip (d : Node) (j : Nat) (h : d.curr = none) : ({ ({ d with curr := some j } : Node) with curr := none } : Node) = d := by
  cases d; simp at h; subst h; rfl

theorem get_setChild_ne : ∀ (cs : TL) (j k : Nat) (s : T), k ≠ j → (setChild cs j s).get? k = cs.get? k
  | .nil, _, _, _, _ => rfl
  | .cons t ts, 0, 0, s, h => absurd rfl h
  | .cons t ts, 0, k + 1, s, _ => rfl
  | .cons t ts, j + 1, 0, s, _ => rfl
  | .cons t ts, j + 1, k + 1, s, h => by simp [setChild, TL.get?, get_setChild_ne ts j k s (by omega)]

theorem get_popChild_ne : ∀ (cs : TL) (j k id : Nat), k ≠ j → (popChild cs j id).get? k = cs.get? k
  | .nil, _, _, _, _ => rfl
  | .cons t ts, 0, 0, id, h => absurd rfl h
  | .cons t ts, 0, k + 1, id, _ => rfl
  | .cons t ts, j + 1, 0, id, _ => rfl
  | .cons t ts, j + 1, k + 1, id, h => by simp [popChild, TL.get?, get_popChild_ne ts j k id (by omega)]

theorem evalAt_get : ∀ (cs : TL) (j : Nat) (c : T), cs.get? j = some c → evalAt cs j = eval c ∧ visitAt cs j = visit c
  | .nil, _, _, h => by simp [TL.get?] at h
  | .cons t ts, 0, c, h => by simp only [TL.get?, Option.some.injEq] at h; subst h; simp [evalAt, visitAt]
  | .cons t ts, j + 1, c, h => by simp only [TL.get?] at h; simpa [evalAt, visitAt] using evalAt_get ts j c h

theorem timers_embed_notdue {d : Node} {cs : TL} {i : Nat} {c : T} (h : Ctx d cs i c) (now : Nat)
    (hc : ∀ x ∈ allTimers c [], now < x.1) : ∀ x ∈ allTimers (.node d cs) [], now < x.1 := by
  intro x hx
  rw [(ctx_tasks h).2] at hx
  simp only [List.mem_map] at hx
  obtain ⟨y, hy, e⟩ := hx
  rw [← e]; exact hc y hy

end Tbox.C17
