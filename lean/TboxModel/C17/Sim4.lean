/-
C17 — simulation of control-free runs, part 4: the generic theorem for serial composites.  The control
flow of a kind enters through `KI` (which decision points are valid, with the set `F` of children not
yet started), `val` (the result the documented meaning assigns to the rest of the run) and `vis` (the
leaf calls still to come).
-/
import TboxModel.C17.Sim3
namespace Tbox.C17
set_option linter.unusedSimpArgs false
set_option linter.unusedVariables false

/-- the children in `F` are still the freshly built ones of `cs0`, and they behave -/
def Fresh (cs0 cs : TL) (F : List Nat) : Prop := ∀ j ∈ F, ∃ c, cs.get? j = some c ∧ cs0.get? j = some c ∧ Good c

/-- what a kind has to provide -/
structure KSpec (cs0 : TL) (KI : Node → Next → List Nat → Prop) (val : Node → Next → Option (Bool × Nat))
    (vis : Node → Next → List Nat) : Prop where
  kfin : ∀ d s w F, KI d (.finish s w) F → val d (.finish s w) = some (s, w) ∧ vis d (.finish s w) = []
  kstart : ∀ d j rst onFail F, KI d (.start j rst onFail) F → rst = [] ∧ j ∈ F
  kstep : ∀ d j onFail F c r, KI d (.start j [] onFail) F → cs0.get? j = some c → eval c = some r →
      (viaLast d.kind j = true → val d (.start j [] onFail) = some r ∧ vis d (.start j [] onFail) = visit c) ∧
      (viaLast d.kind j = false →
        KI (serialNext d cs0.length j r.1 r.2).1 (serialNext d cs0.length j r.1 r.2).2 (F.erase j) ∧
        val d (.start j [] onFail) = val (serialNext d cs0.length j r.1 r.2).1 (serialNext d cs0.length j r.1 r.2).2 ∧
        vis d (.start j [] onFail) = visit c ++ vis (serialNext d cs0.length j r.1 r.2).1 (serialNext d cs0.length j r.1 r.2).2)
  kdiv : ∀ d j onFail F c, KI d (.start j [] onFail) F → cs0.get? j = some c → eval c = none → val d (.start j [] onFail) = none

theorem dps_serialNext (d : Node) (cs : TL) (n i : Nat) (s : Bool) (w : Nat) (h : DPS d cs) : DPS (serialNext d n i s w).1 cs := by
  obtain ⟨idx, r, e⟩ := serialNext_node d n i s w
  rw [e]
  exact ⟨h.st, h.curr, h.tasks, h.tmoAt, h.slp, h.tmo, by rw [← h.ser]; exact isSerial_congr d _ rfl, h.fin0, h.inert⟩

theorem serialNext_kind (d : Node) (n i : Nat) (s : Bool) (w : Nat) : (serialNext d n i s w).1.kind = d.kind ∧ (serialNext d n i s w).1.id = d.id := by
  obtain ⟨idx, r, e⟩ := serialNext_node d n i s w
  rw [e]; exact ⟨rfl, rfl⟩

/-- all timers of the tree right after a decision was carried out are in the future -/
theorem applyNext_notdue (cs0 : TL) (KI : Node → Next → List Nat → Prop) (val : Node → Next → Option (Bool × Nat))
    (vis : Node → Next → List Nat) (hK : KSpec cs0 KI val vis) (d : Node) (cs : TL) (g : G) (nx : Next) (F : List Nat)
    (hd : DPS d cs) (hF : Fresh cs0 cs F) (hki : KI d nx F) (hg : GIu g) :
    ∀ x ∈ allTimers (.node (applyNext d cs g nx).1 (applyNext d cs g nx).2.1) [], g.now < x.1 := by
  cases nx with
  | finish s w =>
    have hne : d.st ≠ .finished ∧ d.st ≠ .stoped := by simp [hd.st]
    simp only [applyNext]
    rw [finish3_nocurr d cs g s w hg.1 hd.ser hne hd.curr]
    have := (inert_all_tasks (finNode d g s w) cs hd.inert (by simp [finNode, hd.slp]) (by simp [finNode])).2
    simp only
    rw [this]; intro x hx; cases hx
  | start j rst onFail =>
    obtain ⟨hr, hj⟩ := hK.kstart d j rst onFail F hki
    subst hr
    obtain ⟨c, hget, hget0, hgood⟩ := hF j hj
    obtain ⟨ok, hg0, hnow, _, htim, _⟩ := hgood g hg
    rw [applyNext_start d cs g j onFail c hget ok]
    exact timers_embed_notdue (ctx_of_dps d cs j c _ hd hget) g.now htim

theorem fresh_erase (cs0 cs : TL) (F : List Nat) (j id : Nat) (c' : T) (h : Fresh cs0 cs F) (hnd : F.Nodup) :
    Fresh cs0 (popChild (setChild cs j c') j id) (F.erase j) := by
  intro k hk
  have hne : k ≠ j := by
    intro e; subst e
    exact (List.Nodup.mem_erase_iff hnd).1 hk |>.1 rfl
  obtain ⟨c, h1, h2, h3⟩ := h k (List.mem_of_mem_erase hk)
  exact ⟨c, by rw [get_popChild_ne _ _ _ _ hne, get_setChild_ne _ _ _ _ hne]; exact h1, h2, h3⟩

theorem runOk_shift (R : T × G × List Op) (L : List (Nat ⊕ (Bool × Nat))) (a : List Nat) (v : Option (Bool × Nat)) (vs : List Nat)
    (h : RunOk R (L ++ a.map Sum.inl) v vs) : RunOk R L v (a ++ vs) := by
  obtain ⟨h1, h2, h3, h4⟩ := h
  refine ⟨h1, h2, ?_, ?_⟩
  · intro hf; obtain ⟨x, y⟩ := h3 hf; exact ⟨x, by rw [y, List.map_append, List.append_assoc]⟩
  · intro hf; obtain ⟨x, y, tr, z⟩ := h4 hf
    refine ⟨x, fun hv => ?_, a ++ tr, by rw [z, List.map_append, List.append_assoc]⟩
    obtain ⟨pfx, hp, e⟩ := y hv
    exact ⟨a ++ pfx, (List.prefix_append_right_inj a).2 hp, by rw [e, List.map_append, List.append_assoc]⟩

theorem runU_rest : ∀ (ops : List Op) (t : T) (g : G), (runU t g ops).2.2.length ≤ ops.length ∧
    (ops.all cfOp = true → (runU t g ops).2.2.all cfOp = true)
  | [], t, g => by simp [runU]
  | op :: ops, t, g => by
    by_cases h : hasFin t = true
    · simp [runU, h]
    · have h' : hasFin t = false := by simpa using h
      have ih := runU_rest ops (step t g op).1 (step t g op).2.1
      simp only [runU, h', Bool.false_eq_true, ↓reduceIte, List.length_cons, List.all_cons, Bool.and_eq_true]
      exact ⟨by omega, fun hc => ih.2 hc.2⟩

/-- carrying out a decision does not move the clock -/
theorem applyNext_now (cs0 : TL) (KI : Node → Next → List Nat → Prop) (val : Node → Next → Option (Bool × Nat))
    (vis : Node → Next → List Nat) (hK : KSpec cs0 KI val vis) (d : Node) (cs : TL) (g : G) (nx : Next) (F : List Nat)
    (hd : DPS d cs) (hF : Fresh cs0 cs F) (hki : KI d nx F) (hg : GIu g) : (applyNext d cs g nx).2.2.now = g.now := by
  cases nx with
  | finish s w =>
    have hne : d.st ≠ .finished ∧ d.st ≠ .stoped := by simp [hd.st]
    simp only [applyNext]
    rw [finish3_nocurr d cs g s w hg.1 hd.ser hne hd.curr]; rfl
  | start j rst onFail =>
    obtain ⟨hr, hj⟩ := hK.kstart d j rst onFail F hki
    subst hr
    obtain ⟨c, hget, hget0, hgood⟩ := hF j hj
    obtain ⟨ok, hg0, hnow, _, htim, _⟩ := hgood g hg
    rw [applyNext_start d cs g j onFail c hget ok]; exact hnow

/-- the parent while its child is on its way, or done with no op left to deliver its notification -/
theorem wait_ok {d' : Node} {cs' : TL} {j : Nat} {c' : T} (hctx : Ctx d' cs' j c') (g' : G) (L : List (Nat ⊕ (Bool × Nat)))
    (v : Option (Bool × Nat)) (vs vc : List Nat) (a1 : GIu g') (a2 : AP c')
    (a3 : hasFin c' = true → trOf g'.log = L ++ vc.map Sum.inl)
    (a4 : hasFin c' = false → v ≠ none → ∃ pfx, pfx <+: vc ∧ trOf g'.log = L ++ pfx.map Sum.inl)
    (a5 : hasFin c' = false → ∃ tr : List Nat, trOf g'.log = L ++ tr.map Sum.inl)
    (hvis : v ≠ none → vc <+: vs) : RunOk (.node d' cs', g', []) L v vs := by
  have hPnf : hasFin (.node d' cs') = false := hasFin_of_no_tasks _ _ hctx.tasks
  refine ⟨a1, AP_embed hctx a2, (fun hf => absurd hf (by rw [hPnf]; simp)), (fun _ => ⟨rfl, fun hv => ?_, ?_⟩)⟩
  · by_cases hcf' : hasFin c' = true
    · exact ⟨vc, hvis hv, a3 hcf'⟩
    · obtain ⟨pfx, hp, e⟩ := a4 (by simpa using hcf') hv
      exact ⟨pfx, List.IsPrefix.trans hp (hvis hv), e⟩
  · by_cases hcf' : hasFin c' = true
    · exact ⟨vc, a3 hcf'⟩
    · exact a5 (by simpa using hcf')

/-- **the generic serial-composite theorem**: from a valid decision point, the control-free run does
what `val` / `vis` say -/
theorem gen (cs0 : TL) (KI : Node → Next → List Nat → Prop) (val : Node → Next → Option (Bool × Nat))
    (vis : Node → Next → List Nat) (hK : KSpec cs0 KI val vis) :
    ∀ (n : Nat) (ops : List Op), ops.length ≤ n → ∀ (d : Node) (cs : TL) (g : G) (nx : Next) (F : List Nat),
      ops.all cfOp = true → DPS d cs → cs.length = cs0.length → Fresh cs0 cs F → F.Nodup → KI d nx F → GIu g →
      RunOk (runU (.node (applyNext d cs g nx).1 (applyNext d cs g nx).2.1) (applyNext d cs g nx).2.2 ops)
        (trOf g.log) (val d nx) (vis d nx) := by
  intro n
  induction n with
  | zero =>
    intro ops hlen d cs g nx F hcf hd hlen0 hF hnd hki hg
    have : ops = [] := List.eq_nil_of_length_eq_zero (by omega)
    subst this
    -- no op: the state right after the decision
    cases nx with
    | finish s w =>
      have hne : d.st ≠ .finished ∧ d.st ≠ .stoped := by simp [hd.st]
      simp only [applyNext, runU]
      rw [finish3_nocurr d cs g s w hg.1 hd.ser hne hd.curr]
      have hdn := done_of_finish d cs g s w hd
      have hv := hK.kfin d s w F hki
      refine ⟨⟨⟨hg.1.1, by have := hg.1.2; simp only [G.emit]; omega⟩, hg.2⟩, ?_, ?_, ?_⟩
      · right; obtain ⟨⟨id, e⟩, _, _⟩ := hdn.1; exact ⟨id, [], s, w, e⟩
      · intro _; exact ⟨⟨(s, w), hv.1, hdn.1⟩, by simp only [G.emit]; rw [trOf_cons_other _ _ (by intro n; simp) (by intro a b c; simp), hv.2]; simp⟩
      · intro hf; rw [hdn.2] at hf; cases hf
    | start j rst onFail =>
      obtain ⟨hr, hj⟩ := hK.kstart d j rst onFail F hki
      subst hr
      obtain ⟨c, hget, hget0, hgood⟩ := hF j hj
      obtain ⟨ok, hg0, hnow, _, htim, hrun⟩ := hgood g hg
      rw [applyNext_start d cs g j onFail c hget ok]
      have hctx := ctx_of_dps d cs j c (start c g).1 hd hget
      have r0 := hrun [] (by simp)
      simp only [runU] at r0 ⊢
      obtain ⟨a1, a2, a3, a4⟩ := r0
      have hPnf : hasFin (.node { d with curr := some j } (setChild cs j (start c g).1)) = false := hasFin_of_no_tasks _ _ hd.tasks
      refine ⟨a1, AP_embed hctx a2, (fun hf => absurd hf (by rw [hPnf]; simp)), (fun _ => ⟨rfl, fun hv => ?_, ?_⟩)⟩
      rotate_left
      · by_cases hcf' : hasFin (start c g).1 = true
        · exact ⟨visit c, (a3 hcf').2⟩
        · exact (a4 (by simpa using hcf')).2.2
      -- the calls made so far are the child's so far: a prefix of its visit order
      have hec : eval c ≠ none := fun e => hv (hK.kdiv d j onFail F c hki hget0 e)
      obtain ⟨r, her⟩ := Option.ne_none_iff_exists'.1 hec
      have hvis : visit c <+: vis d (.start j [] onFail) := by
        have ks := hK.kstep d j onFail F c r hki hget0 her
        by_cases hvl : viaLast d.kind j = true
        · rw [(ks.1 hvl).2]; exact List.prefix_refl _
        · rw [(ks.2 (by simpa using hvl)).2.2]; exact List.prefix_append _ _
      by_cases hcf' : hasFin (start c g).1 = true
      · exact ⟨visit c, hvis, (a3 hcf').2⟩
      · obtain ⟨pfx, hp, e⟩ := (a4 (by simpa using hcf')).2.1 hec
        exact ⟨pfx, List.IsPrefix.trans hp hvis, e⟩
  | succ n ih =>
    intro ops hlen d cs g nx F hcf hd hlen0 hF hnd hki hg
    cases nx with
    | finish s w =>
      have hne : d.st ≠ .finished ∧ d.st ≠ .stoped := by simp [hd.st]
      simp only [applyNext]
      rw [finish3_nocurr d cs g s w hg.1 hd.ser hne hd.curr]
      have hdn := done_of_finish d cs g s w hd
      have hv := hK.kfin d s w F hki
      rw [runU_hasFin _ _ ops hdn.2]
      refine ⟨⟨⟨hg.1.1, by have := hg.1.2; simp only [G.emit]; omega⟩, hg.2⟩, ?_, ?_, ?_⟩
      · right; obtain ⟨⟨id, e⟩, _, _⟩ := hdn.1; exact ⟨id, [], s, w, e⟩
      · intro _; exact ⟨⟨(s, w), hv.1, hdn.1⟩, by simp only [G.emit]; rw [trOf_cons_other _ _ (by intro n; simp) (by intro a b c; simp), hv.2]; simp⟩
      · intro hf; rw [hdn.2] at hf; cases hf
    | start j rst onFail =>
      obtain ⟨hr, hj⟩ := hK.kstart d j rst onFail F hki
      subst hr
      obtain ⟨c, hget, hget0, hgood⟩ := hF j hj
      obtain ⟨ok, hg0, hnow, _, htim, hrun⟩ := hgood g hg
      rw [applyNext_start d cs g j onFail c hget ok]
      have hctx := ctx_of_dps d cs j c (start c g).1 hd hget
      have hway : OnWay (start c g).1 (start c g).2.1 := fun ops' hc' => ⟨(hrun ops' hc').2.1, (hrun ops' hc').1.2⟩
      rw [runU_embed ops _ _ j _ _ hctx hcf hway]
      -- the child's run over `ops`
      have rc := hrun ops hcf
      generalize hR : runU (start c g).1 (start c g).2.1 ops = R at rc ⊢
      obtain ⟨c', g', rest⟩ := R
      obtain ⟨a1, a2, a3, a4⟩ := rc
      simp only at a1 a2 a3 a4 ⊢
      have hctx' : Ctx { d with curr := some j } (setChild (setChild cs j (start c g).1) j c') j c' := ctx_setChild hctx c'
      rw [setChild_setChild] at hctx' ⊢
      have hPnf : hasFin (.node { d with curr := some j } (setChild cs j c')) = false := hasFin_of_no_tasks _ _ hd.tasks
      -- what `vis` / `val` of this decision look like once the child's result is known
      have hvis : val d (.start j [] onFail) ≠ none → visit c <+: vis d (.start j [] onFail) := by
        intro hv
        have hec : eval c ≠ none := fun e => hv (hK.kdiv d j onFail F c hki hget0 e)
        obtain ⟨r, her⟩ := Option.ne_none_iff_exists'.1 hec
        have ks := hK.kstep d j onFail F c r hki hget0 her
        by_cases hvl : viaLast d.kind j = true
        · rw [(ks.1 hvl).2]; exact List.prefix_refl _
        · rw [(ks.2 (by simpa using hvl)).2.2]; exact List.prefix_append _ _
      have hwait : RunOk (.node { d with curr := some j } (setChild cs j c'), g', []) (trOf g.log)
          (val d (.start j [] onFail)) (vis d (.start j [] onFail)) :=
        wait_ok hctx' g' _ _ _ (visit c) a1 a2 (fun hf => (a3 hf).2)
          (fun hf hv => (a4 hf).2.1 (fun e => hv (hK.kdiv d j onFail F c hki hget0 e))) (fun hf => (a4 hf).2.2) hvis
      have hrr := runU_rest ops (start c g).1 (start c g).2.1
      rw [hR] at hrr
      simp only at hrr
      cases rest with
      | nil => simpa [runU] using hwait
      | cons op rest' =>
        -- the child must be done (otherwise it would have consumed all ops)
        have hcf' : hasFin c' = true := by
          cases hh : hasFin c' with
          | true => rfl
          | false => have := (a4 hh).1; cases this
        obtain ⟨⟨r, her, ⟨id, ht⟩, htm, hcst⟩, hfn⟩ := a3 hcf'
        have hopcf : cfOp op = true ∧ rest'.all cfOp = true := by
          have := hrr.2 hcf; simpa using this
        have e1 : runU (.node { d with curr := some j } (setChild cs j c')) g' (op :: rest') =
            runU (step (.node { d with curr := some j } (setChild cs j c')) g' op).1
                 (step (.node { d with curr := some j } (setChild cs j c')) g' op).2.1 rest' := by
          simp [runU, hPnf]
        rw [e1, step_done hctx' (by rw [← hd.ser]; exact isSerial_congr d _ rfl) g' a1.2 op hopcf.1 id r ht]
        -- the handler: the node is the decision node again
        have hinert := popChild_done (setChild cs j c') j id c' r hctx'.get ht htm hctx'.others
        have hdp : DPS d (popChild (setChild cs j c') j id) :=
          ⟨hd.st, hd.curr, hd.tasks, hd.tmoAt, hd.slp, hd.tmo, hd.ser, hd.fin0, hinert⟩
        have hlenp : (popChild (setChild cs j c') j id).length = cs0.length := by
          rw [length_popChild, length_setChild]; exact hlen0
        have hg1 : GIu (advG g' op) := advG_GIu g' op a1
        have hso : serialOnChild { d with curr := some j } (popChild (setChild cs j c') j id) (advG g' op) j r.1 r.2 =
            if viaLast d.kind j then finish3 d (popChild (setChild cs j c') j id) (advG g' op) r.1 r.2
            else applyNext (serialNext d cs0.length j r.1 r.2).1 (popChild (setChild cs j c') j id) (advG g' op)
                   (serialNext d cs0.length j r.1 r.2).2 := by
          unfold serialOnChild
          have e : ({ ({ d with curr := some j } : Node) with curr := none } : Node) = d := curr_roundtrip d j hd.curr
          have c1 : (d.st == St.running) = true := by simp [hd.st]
          simp only [e, c1, ↓reduceIte, hlenp]
        rw [hso]
        have ks := hK.kstep d j onFail F c r hki hget0 her
        have hne : d.st ≠ .finished ∧ d.st ≠ .stoped := by simp [hd.st]
        by_cases hvl : viaLast d.kind j = true
        · -- the child's result is the composite's result
          simp only [hvl, ↓reduceIte]
          rw [finish3_nocurr d _ (advG g' op) r.1 r.2 hg1.1 hd.ser hne hd.curr]
          have hdn := done_of_finish d _ (advG g' op) r.1 r.2 hdp
          simp only
          rw [fireTimers_notdue _ _ (by rw [hdn.1.2.1]; intro x hx; cases hx)]
          rw [runU_hasFin _ _ rest' hdn.2]
          refine ⟨⟨⟨hg1.1.1, by have := hg1.1.2; simp only [G.emit]; omega⟩, hg1.2⟩, ?_, ?_, ?_⟩
          · right; obtain ⟨⟨id2, e⟩, _, _⟩ := hdn.1; exact ⟨id2, [], r.1, r.2, e⟩
          · intro _
            refine ⟨⟨r, (ks.1 hvl).1, hdn.1⟩, ?_⟩
            simp only [G.emit]
            rw [trOf_cons_other _ _ (by intro n; simp) (by intro a b c; simp), advG_log, hfn, (ks.1 hvl).2]
          · intro hf; rw [hdn.2] at hf; cases hf
        · have hvl' : viaLast d.kind j = false := by simpa using hvl
          simp only [hvl', Bool.false_eq_true, ↓reduceIte]
          obtain ⟨k1, k2, k3⟩ := ks.2 hvl'
          have hd1 := dps_serialNext d (popChild (setChild cs j c') j id) cs0.length j r.1 r.2 hdp
          have hF1 := fresh_erase cs0 cs F j id c' hF hnd
          have hnd1 : (F.erase j).Nodup := hnd.erase j
          rw [fireTimers_notdue _ _ (by
            rw [applyNext_now cs0 KI val vis hK _ _ _ _ _ hd1 hF1 k1 hg1]
            exact applyNext_notdue cs0 KI val vis hK _ _ _ _ _ hd1 hF1 k1 hg1)]
          have hlen' : rest'.length ≤ n := by
            have := hrr.1; simp only [List.length_cons] at this hlen; omega
          have ihr := ih rest' hlen' _ _ (advG g' op) _ (F.erase j) hopcf.2 hd1 hlenp hF1 hnd1 k1 hg1
          rw [advG_log, hfn] at ihr
          rw [k2, k3]
          exact runOk_shift _ _ _ _ _ ihr

end Tbox.C17
