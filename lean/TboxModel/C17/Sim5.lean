/-
C17 — simulation of control-free runs, part 5: from the generic theorem to `Good` of a serial composite.
-/
import TboxModel.C17.Live
namespace Tbox.C17
set_option linter.unusedSimpArgs false
set_option linter.unusedVariables false

mutual
theorem clean_inert : ∀ (t : T), Clean t = true → Inert t
  | .node d cs, h => by
    simp only [Clean, Bool.and_eq_true] at h
    obtain ⟨c1, c2, c3, c4, c5, c6, c7, c8, c9, c10, c11⟩ := clean_fields d h.1
    have a := cleanL_inert cs h.2
    exact (inert_all_tasks d cs a c5 c4).imp (fun x => by rw [x, c3]; rfl) id
theorem cleanL_inert : ∀ (cs : TL), CleanL cs = true → OthersInert cs none
  | .nil, _ => trivial
  | .cons t ts, h => by
    simp only [CleanL, Bool.and_eq_true] at h
    exact ⟨clean_inert t h.1, cleanL_inert ts h.2⟩
end

/-- the decision node of a freshly built composite that has just been started -/
def decNode (d : Node) (n : Nat) : Node := { (serialStart {} d n).1 with st := .running }

theorem serialStart_fields (c : Cfg) (d : Node) (n : Nat) :
    (serialStart c d n).1.st = d.st ∧ (serialStart c d n).1.curr = d.curr ∧ (serialStart c d n).1.tasks = d.tasks ∧
    (serialStart c d n).1.tmoAt = d.tmoAt ∧ (serialStart c d n).1.sleepAt = d.sleepAt ∧ (serialStart c d n).1.tmo = d.tmo ∧
    (serialStart c d n).1.kind = d.kind ∧ (serialStart c d n).1.finals = d.finals ∧ (serialStart c d n).1.id = d.id := by
  rcases serialStart_node c d n with e | e | ⟨r, e⟩ <;> rw [e] <;> exact ⟨rfl, rfl, rfl, rfl, rfl, rfl, rfl, rfl, rfl⟩

theorem dps_decNode (d : Node) (cs : TL) (hc : cleanNode d = true) (hser : d.isSerial = true) (htmo : d.tmo = none)
    (hcl : CleanL cs = true) : DPS (decNode d cs.length) cs := by
  obtain ⟨c1, c2, c3, c4, c5, c6, c7, c8, c9, c10, c11⟩ := clean_fields d hc
  obtain ⟨f1, f2, f3, f4, f5, f6, f7, f8, f9⟩ := serialStart_fields {} d cs.length
  refine ⟨rfl, ?_, ?_, ?_, ?_, ?_, ?_, ?_, cleanL_inert cs hcl⟩
  · show (serialStart {} d cs.length).1.curr = none; rw [f2, c6]
  · show (serialStart {} d cs.length).1.tasks = []; rw [f3, c3]
  · show (serialStart {} d cs.length).1.tmoAt = none; rw [f4, c4]
  · show (serialStart {} d cs.length).1.sleepAt = none; rw [f5, c5]
  · show (serialStart {} d cs.length).1.tmo = none; rw [f6, htmo]
  · rw [← hser]; exact isSerial_congr d _ (by show (serialStart {} d cs.length).1.kind = d.kind; exact f7)
  · show (serialStart {} d cs.length).1.finals = 0; rw [f8, c11]

/-- `start` of a freshly built serial composite carries out the first decision at its decision node -/
theorem start_serial (d : Node) (cs : TL) (g : G) (hc : cleanNode d = true) (hser : d.isSerial = true) (htmo : d.tmo = none)
    (hg : GI g)
    (hnx : ∀ j rst onFail, (serialStart {} d cs.length).2 = .start j rst onFail → rst = [] ∧ ∃ c, cs.get? j = some c ∧ (start c g).2.2 = true) :
    start (.node d cs) g =
      (.node (applyNext (decNode d cs.length) cs g (serialStart {} d cs.length).2).1 (applyNext (decNode d cs.length) cs g (serialStart {} d cs.length).2).2.1,
       (applyNext (decNode d cs.length) cs g (serialStart {} d cs.length).2).2.2, true) := by
  obtain ⟨c1, c2, c3, c4, c5, c6, c7, c8, c9, c10, c11⟩ := clean_fields d hc
  obtain ⟨f1, f2, f3, f4, f5, f6, f7, f8, f9⟩ := serialStart_fields {} d cs.length
  have hsh : d.shape = .serial := (shape_serial d).2 hser
  have hser' : (serialStart {} d cs.length).1.isSerial = true := by rw [← hser]; exact isSerial_congr d _ f7
  rw [start]
  have hi : (d.st == St.running) = false := by simp [c1]
  have hi2 : (d.st != St.idle) = false := by simp [c1]
  simp only [hi, hi2, Bool.false_eq_true, ↓reduceIte, hsh, hg.1]
  cases hn : (serialStart {} d cs.length).2 with
  | finish s w =>
    simp only [applyNext]
    have hne : (serialStart {} d cs.length).1.st ≠ .finished ∧ (serialStart {} d cs.length).1.st ≠ .stoped := by rw [f1, c1]; simp
    have hne2 : (decNode d cs.length).st ≠ .finished ∧ (decNode d cs.length).st ≠ .stoped := by simp [decNode]
    have e1 := finish3_nocurr (serialStart {} d cs.length).1 cs g s w hg hser' hne (by rw [f2, c6])
    have e2 := finish3_nocurr (decNode d cs.length) cs g s w hg (by rw [← hser']; exact isSerial_congr _ _ rfl) hne2
      (by show (serialStart {} d cs.length).1.curr = none; rw [f2, c6])
    rw [e2]
    have e1' : finish (serialStart {} d cs.length).1 cs g s w =
        ((finish3 (serialStart {} d cs.length).1 cs g s w).1, (finish3 (serialStart {} d cs.length).1 cs g s w).2.1,
         (finish3 (serialStart {} d cs.length).1 cs g s w).2.2, (finish (serialStart {} d cs.length).1 cs g s w).2.2.2) := rfl
    rw [e1', e1]
    simp [Node.started, finNode, decNode]
  | start j rst onFail =>
    obtain ⟨hr, c, hget, hok⟩ := hnx j rst onFail hn
    subst hr
    rw [applyNext_start _ cs g j onFail c hget hok]
    simp only [startAt_get cs j g c hget, hok, ↓reduceIte]
    simp [Node.started, f1, c1, armTmo, f6, htmo, decNode]

theorem get_of_lt : ∀ (cs : TL) (j : Nat), j < cs.length → ∃ c, cs.get? j = some c
  | .nil, _, h => by simp [TL.length] at h
  | .cons t ts, 0, _ => ⟨t, rfl⟩
  | .cons t ts, j + 1, h => by simp only [TL.length] at h; simpa [TL.get?] using get_of_lt ts j (by omega)

/-- from the kind's specification to the behaviour of the freshly built composite -/
theorem good_serial (d : Node) (cs : TL) (hc : cleanNode d = true) (hser : d.isSerial = true) (htmo : d.tmo = none)
    (hcl : CleanL cs = true) (hgoodc : ∀ j c, cs.get? j = some c → Good c)
    (KI : Node → Next → List Nat → Prop) (val : Node → Next → Option (Bool × Nat)) (vis : Node → Next → List Nat)
    (hK : KSpec cs KI val vis)
    (hki : KI (decNode d cs.length) (serialStart {} d cs.length).2 (List.range cs.length))
    (hval : val (decNode d cs.length) (serialStart {} d cs.length).2 = eval (.node d cs))
    (hvis : vis (decNode d cs.length) (serialStart {} d cs.length).2 = visit (.node d cs)) : Good (.node d cs) := by
  intro g hg
  have hF : Fresh cs cs (List.range cs.length) := by
    intro j hj
    obtain ⟨c, hcget⟩ := get_of_lt cs j (List.mem_range.1 hj)
    exact ⟨c, hcget, hcget, hgoodc j c hcget⟩
  have hd := dps_decNode d cs hc hser htmo hcl
  have hnx : ∀ j rst onFail, (serialStart {} d cs.length).2 = .start j rst onFail →
      rst = [] ∧ ∃ c, cs.get? j = some c ∧ (start c g).2.2 = true := by
    intro j rst onFail e
    rw [e] at hki
    obtain ⟨hr, hj⟩ := hK.kstart _ j rst onFail _ hki
    obtain ⟨c, hcget, _, hgc⟩ := hF j hj
    exact ⟨hr, c, hcget, (hgc g hg).1⟩
  rw [start_serial d cs g hc hser htmo hg.1 hnx]
  have hgen := fun ops hcf => gen cs KI val vis hK (List.length ops) ops (Nat.le_refl _) (decNode d cs.length) cs g
    (serialStart {} d cs.length).2 (List.range cs.length) hcf hd rfl hF (List.nodup_range) hki hg
  refine ⟨rfl, ?_, applyNext_now cs KI val vis hK _ _ _ _ _ hd hF hki hg, trivial,
    applyNext_notdue cs KI val vis hK _ _ _ _ _ hd hF hki hg, ?_⟩
  · have := (hgen [] (by simp)).1; simpa [runU] using this
  · intro ops hcf
    have := hgen ops hcf
    rw [hval, hvis] at this
    exact this

/-- ... and to its progress: finished after `cost` big ops -/
theorem live_serial (d : Node) (cs : TL) (hc : cleanNode d = true) (hser : d.isSerial = true) (htmo : d.tmo = none)
    (hcl : CleanL cs = true) (hgoodc : ∀ j c, cs.get? j = some c → Good c)
    (KI : Node → Next → List Nat → Prop) (val : Node → Next → Option (Bool × Nat)) (vis : Node → Next → List Nat)
    (hK : KSpec cs KI val vis)
    (hki : KI (decNode d cs.length) (serialStart {} d cs.length).2 (List.range cs.length))
    (hval : val (decNode d cs.length) (serialStart {} d cs.length).2 = eval (.node d cs)) (hmult : mult d = 1)
    (hlivec : ∀ j c, cs.get? j = some c → Live c) : Live (.node d cs) := by
  intro g hg hev M hM ops hcf hcost
  have hF : Fresh cs cs (List.range cs.length) := by
    intro j hj
    obtain ⟨c, hcget⟩ := get_of_lt cs j (List.mem_range.1 hj)
    exact ⟨c, hcget, hcget, hgoodc j c hcget⟩
  have hd := dps_decNode d cs hc hser htmo hcl
  have hnx : ∀ j rst onFail, (serialStart {} d cs.length).2 = .start j rst onFail →
      rst = [] ∧ ∃ c, cs.get? j = some c ∧ (start c g).2.2 = true := by
    intro j rst onFail e
    rw [e] at hki
    obtain ⟨hr, hj⟩ := hK.kstart _ j rst onFail _ hki
    obtain ⟨c, hcget, _, hgc⟩ := hF j hj
    exact ⟨hr, c, hcget, (hgc g hg).1⟩
  rw [start_serial d cs g hc hser htmo hg.1 hnx]
  have hsk : d.isLeaf = false := by
    cases hl : d.isLeaf with
    | false => rfl
    | true => simp [Node.isSerial, hl] at hser
  have hcostE : cost (.node d cs) = costL cs := by
    rw [cost, hmult]; cases hk : d.kind <;> simp [Node.isLeaf, hk] at hsk ⊢
  have hML : maxDelayL cs ≤ M := by
    have : maxDelayL cs ≤ maxDelay (.node d cs) := by rw [maxDelay]; omega
    omega
  have hL : ∀ j c, cs.get? j = some c → Live c ∧ maxDelay c ≤ M := fun j c h =>
    ⟨hlivec j c h, Nat.le_trans (maxDelayL_get cs j c h) hML⟩
  have := gen_live cs KI val vis hK M hL (List.length ops) ops (Nat.le_refl _) (decNode d cs.length) cs g
    (serialStart {} d cs.length).2 (List.range cs.length) hcf hd rfl hF (List.nodup_range) hki hg
    (by rw [hval]; exact hev) (by rw [need_range, ← hcostE]; exact hcost)
  rw [need_range, ← hcostE] at this
  exact this

theorem both_serial (d : Node) (cs : TL) (hc : cleanNode d = true) (hser : d.isSerial = true) (htmo : d.tmo = none)
    (hcl : CleanL cs = true) (hgoodc : ∀ j c, cs.get? j = some c → Good c) (hmult : mult d = 1)
    (KI : Node → Next → List Nat → Prop) (val : Node → Next → Option (Bool × Nat)) (vis : Node → Next → List Nat)
    (hK : KSpec cs KI val vis)
    (hki : KI (decNode d cs.length) (serialStart {} d cs.length).2 (List.range cs.length))
    (hval : val (decNode d cs.length) (serialStart {} d cs.length).2 = eval (.node d cs))
    (hvis : vis (decNode d cs.length) (serialStart {} d cs.length).2 = visit (.node d cs)) :
    Good (.node d cs) ∧ ((∀ j c, cs.get? j = some c → Live c) → Live (.node d cs)) :=
  ⟨good_serial d cs hc hser htmo hcl hgoodc KI val vis hK hki hval hvis,
   live_serial d cs hc hser htmo hcl hgoodc KI val vis hK hki hval hmult⟩

end Tbox.C17
