/-
C17 — simulation of control-free runs, part 6: the kinds.  For each serial composite: which decision
points occur (`KI`), what the documented meaning assigns to the rest of the run (`val`, `vis`), and the
proof that the handlers follow it (`KSpec`).
-/
import TboxModel.C17.Sim5
namespace Tbox.C17
set_option linter.unusedSimpArgs false
set_option linter.unusedVariables false

theorem serial_of_kind (d : Node) (h : d.isLeaf = false ∧ d.isPar = false) : d.isSerial = true := by
  simp [Node.isSerial, h.1, h.2]

/-! ### WrapperAction -/

def wrapRes (m : WrapMode) (r : Bool × Nat) : Bool × Nat :=
  match m with
  | .normal => r
  | .invert => (!r.1, r.2)
  | .alwaysSucc => (true, r.2)
  | .alwaysFail => (false, r.2)

theorem good_wrapper (d : Node) (cs : TL) (m : WrapMode) (hk : d.kind = .wrapper m) (hc : cleanNode d = true) (htmo : d.tmo = none)
    (hcl : CleanL cs = true) (hgoodc : ∀ j c, cs.get? j = some c → Good c) (hlen : 1 ≤ cs.length) : Good (.node d cs) := by
  have hser : d.isSerial = true := serial_of_kind d (by simp [Node.isLeaf, Node.isPar, hk])
  refine good_serial d cs hc hser htmo hcl hgoodc
    (fun d' nx F => d'.kind = .wrapper m ∧ ((nx = .start 0 [] none ∧ 0 ∈ F) ∨ ∃ s w, nx = .finish s w))
    (fun _ nx => match nx with | .finish s w => some (s, w) | .start _ _ _ => (evalAt cs 0).map (wrapRes m))
    (fun _ nx => match nx with | .finish _ _ => [] | .start _ _ _ => visitAt cs 0)
    ⟨?_, ?_, ?_, ?_⟩ ?_ ?_ ?_
  · intro d' s w F _; exact ⟨rfl, rfl⟩
  · intro d' j rst onFail F h
    rcases h.2 with ⟨e, h0⟩ | ⟨s, w, e⟩
    · cases e; exact ⟨rfl, h0⟩
    · cases e
  · intro d' j onFail F c r h hget her
    rcases h.2 with ⟨e, h0⟩ | ⟨s, w, e⟩
    · cases e
      have hev := (evalAt_get cs 0 c hget)
      refine ⟨fun hv => by simp [viaLast, h.1] at hv, fun _ => ?_⟩
      have hsn : serialNext d' cs.length 0 r.1 r.2 = (d', .finish (wrapRes m r).1 (wrapRes m r).2) := by
        unfold serialNext; rw [h.1]; cases m <;> simp [wrapRes]
      rw [hsn]
      refine ⟨⟨h.1, Or.inr ⟨_, _, rfl⟩⟩, ?_, ?_⟩
      · simp [hev.1, her]
      · simp [hev.2]
    · cases e
  · intro d' j onFail F c h hget her
    rcases h.2 with ⟨e, h0⟩ | ⟨s, w, e⟩
    · cases e; simp [(evalAt_get cs 0 c hget).1, her]
    · cases e
  · refine ⟨by simp [decNode, serialStart, hk], Or.inl ⟨by simp [serialStart, hk], List.mem_range.2 (by omega)⟩⟩
  · simp only [serialStart, hk]
    rw [eval]; simp only [hk]
    cases evalAt cs 0 with
    | none => rfl
    | some r => cases m <;> simp [wrapRes]
  · simp only [serialStart, hk]; rw [visit]; simp only [hk]

/-! ### CompositeAction -/

theorem good_composite (d : Node) (cs : TL) (hk : d.kind = .composite) (hc : cleanNode d = true) (htmo : d.tmo = none)
    (hcl : CleanL cs = true) (hgoodc : ∀ j c, cs.get? j = some c → Good c) (hlen : 1 ≤ cs.length) : Good (.node d cs) := by
  have hser : d.isSerial = true := serial_of_kind d (by simp [Node.isLeaf, Node.isPar, hk])
  refine good_serial d cs hc hser htmo hcl hgoodc
    (fun d' nx F => d'.kind = .composite ∧ nx = .start 0 [] none ∧ 0 ∈ F)
    (fun _ nx => match nx with | .finish s w => some (s, w) | .start _ _ _ => evalAt cs 0)
    (fun _ nx => match nx with | .finish _ _ => [] | .start _ _ _ => visitAt cs 0)
    ⟨?_, ?_, ?_, ?_⟩ ?_ ?_ ?_
  · intro d' s w F _; exact ⟨rfl, rfl⟩
  · intro d' j rst onFail F h; cases h.2.1; exact ⟨rfl, h.2.2⟩
  · intro d' j onFail F c r h hget her
    cases h.2.1
    have hev := evalAt_get cs 0 c hget
    refine ⟨fun _ => ⟨by simp [hev.1, her], by simp [hev.2]⟩, fun hv => by simp [viaLast, h.1] at hv⟩
  · intro d' j onFail F c h hget her
    cases h.2.1; simp [(evalAt_get cs 0 c hget).1, her]
  · exact ⟨by simp [decNode, serialStart, hk], by simp [serialStart, hk], List.mem_range.2 (by omega)⟩
  · simp only [serialStart, hk]; rw [eval]; simp only [hk]
  · simp only [serialStart, hk]; rw [visit]; simp only [hk]

/-! ### two-phase kinds (IfElseAction, SwitchAction): child 0, then at most one branch child -/

theorem good_twophase (d : Node) (cs : TL) (hc : cleanNode d = true) (hser : d.isSerial = true) (htmo : d.tmo = none)
    (hcl : CleanL cs = true) (hgoodc : ∀ j c, cs.get? j = some c → Good c) (hlen : 1 ≤ cs.length)
    (branch : Bool × Nat → Next)
    (hstart : ∀ d', d'.kind = d.kind → (serialStart {} d' cs.length) = (d', .start 0 [] none))
    (hnext : ∀ d' r, d'.kind = d.kind → serialNext d' cs.length 0 r.1 r.2 = (d', branch r))
    (hbr : ∀ r, (∃ s w, branch r = .finish s w) ∨ (∃ k, 1 ≤ k ∧ k < cs.length ∧ branch r = .start k [] none))
    (hvl : ∀ k, viaLast d.kind k = decide (1 ≤ k))
    (heval : eval (.node d cs) = match evalAt cs 0 with
        | none => none
        | some r => match branch r with | .finish s w => some (s, w) | .start k _ _ => evalAt cs k)
    (hvisit : visit (.node d cs) = visitAt cs 0 ++ match evalAt cs 0 with
        | none => []
        | some r => match branch r with | .finish _ _ => [] | .start k _ _ => visitAt cs k) : Good (.node d cs) := by
  refine good_serial d cs hc hser htmo hcl hgoodc
    (fun d' nx F => d'.kind = d.kind ∧
      ((nx = .start 0 [] none ∧ ∀ k, k < cs.length → k ∈ F) ∨ (∃ k, 1 ≤ k ∧ nx = .start k [] none ∧ k ∈ F) ∨ ∃ s w, nx = .finish s w))
    (fun _ nx => match nx with
      | .finish s w => some (s, w)
      | .start k _ _ => if k = 0 then eval (.node d cs) else evalAt cs k)
    (fun _ nx => match nx with
      | .finish _ _ => []
      | .start k _ _ => if k = 0 then visit (.node d cs) else visitAt cs k)
    ⟨?_, ?_, ?_, ?_⟩ ?_ ?_ ?_
  · intro d' s w F _; exact ⟨rfl, rfl⟩
  · intro d' j rst onFail F h
    rcases h.2 with ⟨e, hF⟩ | ⟨k, hk1, e, hkF⟩ | ⟨s, w, e⟩
    · cases e; exact ⟨rfl, hF 0 (by omega)⟩
    · cases e; exact ⟨rfl, hkF⟩
    · cases e
  · intro d' j onFail F c r h hget her
    have hev := evalAt_get cs j c hget
    rcases h.2 with ⟨e, hF⟩ | ⟨k, hk1, e, hkF⟩ | ⟨s, w, e⟩
    · cases e
      refine ⟨fun hv => by rw [h.1, hvl] at hv; simp at hv, fun _ => ?_⟩
      rw [hnext d' r h.1]
      have hev0 : evalAt cs 0 = some r := by rw [hev.1, her]
      rcases hbr r with ⟨s, w, eb⟩ | ⟨k, hk1, hkn, eb⟩
      · refine ⟨⟨h.1, Or.inr (Or.inr ⟨s, w, eb⟩)⟩, ?_, ?_⟩
        · simp only [↓reduceIte, eb]; rw [heval, hev0]; simp [eb]
        · simp only [↓reduceIte, eb]; rw [hvisit, hev0, hev.2]; simp [eb]
      · have hkne : k ≠ 0 := by omega
        refine ⟨⟨h.1, Or.inr (Or.inl ⟨k, hk1, eb, List.mem_erase_of_ne hkne |>.2 (hF k hkn)⟩)⟩, ?_, ?_⟩
        · simp only [↓reduceIte, eb, hkne]; rw [heval, hev0]; simp [eb]
        · simp only [↓reduceIte, eb, hkne]; rw [hvisit, hev0, hev.2]; simp [eb]
    · cases e
      have hkne : j ≠ 0 := by omega
      refine ⟨fun _ => ⟨by simp [hkne, hev.1, her], by simp [hkne, hev.2]⟩, fun hv => by rw [h.1, hvl] at hv; simp at hv; omega⟩
    · cases e
  · intro d' j onFail F c h hget her
    have hev := evalAt_get cs j c hget
    rcases h.2 with ⟨e, hF⟩ | ⟨k, hk1, e, hkF⟩ | ⟨s, w, e⟩
    · cases e; simp only [↓reduceIte]; rw [heval, hev.1, her]
    · cases e; have hkne : j ≠ 0 := by omega
      simp [hkne, hev.1, her]
    · cases e
  · have hs := hstart (decNode d cs.length) (by simp [decNode]; exact (serialStart_fields {} d cs.length).2.2.2.2.2.2.1)
    refine ⟨by simp [decNode]; exact (serialStart_fields {} d cs.length).2.2.2.2.2.2.1, Or.inl ⟨?_, fun k hk => List.mem_range.2 hk⟩⟩
    have := hstart d rfl; rw [this]
  · have := hstart d rfl; rw [this]; simp
  · have := hstart d rfl; rw [this]; simp

/-! ### IfElseAction -/

def ifElseBranch (a b : Bool) (r : Bool × Nat) : Next :=
  if r.1 then (if a then .start 1 [] none else .finish true r.2)
  else (if b then .start (if a then 2 else 1) [] none else .finish true r.2)

theorem good_ifElse (d : Node) (cs : TL) (a b : Bool) (hk : d.kind = .ifElse a b) (hc : cleanNode d = true) (htmo : d.tmo = none)
    (hcl : CleanL cs = true) (hgoodc : ∀ j c, cs.get? j = some c → Good c)
    (hlen : cs.length = 1 + (if a then 1 else 0) + (if b then 1 else 0)) : Good (.node d cs) := by
  have hser : d.isSerial = true := serial_of_kind d (by simp [Node.isLeaf, Node.isPar, hk])
  refine good_twophase d cs hc hser htmo hcl hgoodc (by omega) (ifElseBranch a b) ?_ ?_ ?_ ?_ ?_ ?_
  · intro d' hk'; rw [hk] at hk'; simp [serialStart, hk']
  · intro d' r hk'; rw [hk] at hk'
    unfold serialNext ifElseBranch; rw [hk']
    cases r.1 <;> cases a <;> cases b <;> simp
  · intro r
    unfold ifElseBranch
    cases r.1 <;> cases a <;> cases b <;> simp_all <;> omega
  · intro k; simp [viaLast, hk]
  · rw [eval]; simp only [hk]
    cases evalAt cs 0 with
    | none => rfl
    | some r => obtain ⟨c, w⟩ := r; unfold ifElseBranch; cases c <;> cases a <;> cases b <;> simp
  · rw [visit]; simp only [hk]
    cases evalAt cs 0 with
    | none => rfl
    | some r => obtain ⟨c, w⟩ := r; unfold ifElseBranch; cases c <;> cases a <;> cases b <;> simp

/-! ### SwitchAction -/

def switchBranch (n : Nat) (hd : Bool) (r : Bool × Nat) : Next :=
  if r.1 then
    (if r.2 ≥ 100 && r.2 - 100 < n - 1 - (if hd then 1 else 0) then .start (1 + (r.2 - 100)) [] none
     else if hd then .start (n - 1) [] none else .finish false 9)
  else .finish false 8

theorem good_switch (d : Node) (cs : TL) (hd : Bool) (hk : d.kind = .switch hd) (hc : cleanNode d = true) (htmo : d.tmo = none)
    (hcl : CleanL cs = true) (hgoodc : ∀ j c, cs.get? j = some c → Good c) (hlen : 2 ≤ cs.length) : Good (.node d cs) := by
  have hser : d.isSerial = true := serial_of_kind d (by simp [Node.isLeaf, Node.isPar, hk])
  refine good_twophase d cs hc hser htmo hcl hgoodc (by omega) (switchBranch cs.length hd) ?_ ?_ ?_ ?_ ?_ ?_
  · intro d' hk'; rw [hk] at hk'; simp [serialStart, hk']
  · intro d' r hk'; rw [hk] at hk'
    unfold serialNext switchBranch; rw [hk']
    cases r.1 <;> simp
    split <;> (try split) <;> simp_all
  · intro r
    unfold switchBranch
    by_cases h1 : r.1 = true
    · simp only [h1, ↓reduceIte]
      by_cases h2 : (decide (r.2 ≥ 100) && decide (r.2 - 100 < cs.length - 1 - (if hd = true then 1 else 0))) = true
      · simp only [h2, ↓reduceIte]
        right; refine ⟨1 + (r.2 - 100), by omega, ?_, rfl⟩
        simp only [Bool.and_eq_true, decide_eq_true_eq] at h2
        have := h2.2
        cases hd <;> simp at this <;> omega
      · simp only [h2, Bool.false_eq_true, ↓reduceIte]
        cases hd
        · left; exact ⟨false, 9, by simp⟩
        · right; exact ⟨cs.length - 1, by omega, by omega, by simp⟩
    · simp only [h1, Bool.false_eq_true, ↓reduceIte]; left; exact ⟨false, 8, rfl⟩
  · intro k; simp [viaLast, hk]
  · rw [eval]; simp only [hk]
    cases evalAt cs 0 with
    | none => rfl
    | some r =>
      obtain ⟨c, w⟩ := r; unfold switchBranch
      cases c <;> simp
      split <;> (try split) <;> simp_all
  · rw [visit]; simp only [hk]
    cases evalAt cs 0 with
    | none => simp
    | some r =>
      obtain ⟨c, w⟩ := r; unfold switchBranch
      cases c <;> simp
      split <;> (try split) <;> simp_all

end Tbox.C17
