/-
C17 — simulation of control-free runs, part 6: the kinds.  For each serial composite: which decision
points occur (`KI`), what the documented meaning assigns to the rest of the run (`val`, `vis`), and the
proof that the handlers follow it (`KSpec`).
-/
import TboxModel.C17.Sim5
namespace Tbox.C17
set_option linter.unusedSimpArgs false
set_option linter.unusedVariables false

theorem serial_of_kind (d : Node) (h : d.isLeaf = false ∧ d.isPar = false) : d.isSerial = true := by
  simp [Node.isSerial, h.1, h.2]

/-! ### WrapperAction -/

def wrapRes (m : WrapMode) (r : Bool × Nat) : Bool × Nat :=
  match m with
  | .normal => r
  | .invert => (!r.1, r.2)
  | .alwaysSucc => (true, r.2)
  | .alwaysFail => (false, r.2)

theorem good_wrapper (d : Node) (cs : TL) (m : WrapMode) (hk : d.kind = .wrapper m) (hc : cleanNode d = true) (htmo : d.tmo = none)
    (hcl : CleanL cs = true) (hgoodc : ∀ j c, cs.get? j = some c → Good c) (hlen : 1 ≤ cs.length) :
    Good (.node d cs) ∧ ((∀ j c, cs.get? j = some c → Live c) → Live (.node d cs)) := by
  have hser : d.isSerial = true := serial_of_kind d (by simp [Node.isLeaf, Node.isPar, hk])
  refine both_serial d cs hc hser htmo hcl hgoodc (by simp [mult, hk])
    (fun d' nx F => d'.kind = .wrapper m ∧ ((nx = .start 0 [] none ∧ 0 ∈ F) ∨ ∃ s w, nx = .finish s w))
    (fun _ nx => match nx with | .finish s w => some (s, w) | .start _ _ _ => (evalAt cs 0).map (wrapRes m))
    (fun _ nx => match nx with | .finish _ _ => [] | .start _ _ _ => visitAt cs 0)
    ⟨?_, ?_, ?_, ?_⟩ ?_ ?_ ?_
  · intro d' s w F _; exact ⟨rfl, rfl⟩
  · intro d' j rst onFail F h
    rcases h.2 with ⟨e, h0⟩ | ⟨s, w, e⟩
    · cases e; exact ⟨rfl, h0⟩
    · cases e
  · intro d' j onFail F c r h hget her
    rcases h.2 with ⟨e, h0⟩ | ⟨s, w, e⟩
    · cases e
      have hev := (evalAt_get cs 0 c hget)
      refine ⟨fun hv => by simp [viaLast, h.1] at hv, fun _ => ?_⟩
      have hsn : serialNext d' cs.length 0 r.1 r.2 = (d', .finish (wrapRes m r).1 (wrapRes m r).2) := by
        unfold serialNext; rw [h.1]; cases m <;> simp [wrapRes]
      rw [hsn]
      refine ⟨⟨h.1, Or.inr ⟨_, _, rfl⟩⟩, ?_, ?_⟩
      · simp [hev.1, her]
      · simp [hev.2]
    · cases e
  · intro d' j onFail F c h hget her
    rcases h.2 with ⟨e, h0⟩ | ⟨s, w, e⟩
    · cases e; simp [(evalAt_get cs 0 c hget).1, her]
    · cases e
  · refine ⟨by simp [decNode, serialStart, hk], Or.inl ⟨by simp [serialStart, hk], List.mem_range.2 (by omega)⟩⟩
  · simp only [serialStart, hk]
    rw [eval]; simp only [hk]
    cases evalAt cs 0 with
    | none => rfl
    | some r => cases m <;> simp [wrapRes]
  · simp only [serialStart, hk]; rw [visit]; simp only [hk]

/-! ### CompositeAction -/

theorem good_composite (d : Node) (cs : TL) (hk : d.kind = .composite) (hc : cleanNode d = true) (htmo : d.tmo = none)
    (hcl : CleanL cs = true) (hgoodc : ∀ j c, cs.get? j = some c → Good c) (hlen : 1 ≤ cs.length) :
    Good (.node d cs) ∧ ((∀ j c, cs.get? j = some c → Live c) → Live (.node d cs)) := by
  have hser : d.isSerial = true := serial_of_kind d (by simp [Node.isLeaf, Node.isPar, hk])
  refine both_serial d cs hc hser htmo hcl hgoodc (by simp [mult, hk])
    (fun d' nx F => d'.kind = .composite ∧ nx = .start 0 [] none ∧ 0 ∈ F)
    (fun _ nx => match nx with | .finish s w => some (s, w) | .start _ _ _ => evalAt cs 0)
    (fun _ nx => match nx with | .finish _ _ => [] | .start _ _ _ => visitAt cs 0)
    ⟨?_, ?_, ?_, ?_⟩ ?_ ?_ ?_
  · intro d' s w F _; exact ⟨rfl, rfl⟩
  · intro d' j rst onFail F h; cases h.2.1; exact ⟨rfl, h.2.2⟩
  · intro d' j onFail F c r h hget her
    cases h.2.1
    have hev := evalAt_get cs 0 c hget
    refine ⟨fun _ => ⟨by simp [hev.1, her], by simp [hev.2]⟩, fun hv => by simp [viaLast, h.1] at hv⟩
  · intro d' j onFail F c h hget her
    cases h.2.1; simp [(evalAt_get cs 0 c hget).1, her]
  · exact ⟨by simp [decNode, serialStart, hk], by simp [serialStart, hk], List.mem_range.2 (by omega)⟩
  · simp only [serialStart, hk]; rw [eval]; simp only [hk]
  · simp only [serialStart, hk]; rw [visit]; simp only [hk]

/-! ### two-phase kinds (IfElseAction, SwitchAction): child 0, then at most one branch child -/

theorem good_twophase (d : Node) (cs : TL) (hc : cleanNode d = true) (hser : d.isSerial = true) (htmo : d.tmo = none)
    (hcl : CleanL cs = true) (hgoodc : ∀ j c, cs.get? j = some c → Good c) (hlen : 1 ≤ cs.length) (hmult : mult d = 1)
    (branch : Bool × Nat → Next)
    (hstart : ∀ d', d'.kind = d.kind → (serialStart {} d' cs.length) = (d', .start 0 [] none))
    (hnext : ∀ d' r, d'.kind = d.kind → serialNext d' cs.length 0 r.1 r.2 = (d', branch r))
    (hbr : ∀ r, (∃ s w, branch r = .finish s w) ∨ (∃ k, 1 ≤ k ∧ k < cs.length ∧ branch r = .start k [] none))
    (hvl : ∀ k, viaLast d.kind k = decide (1 ≤ k))
    (heval : eval (.node d cs) = match evalAt cs 0 with
        | none => none
        | some r => match branch r with | .finish s w => some (s, w) | .start k _ _ => evalAt cs k)
    (hvisit : visit (.node d cs) = visitAt cs 0 ++ match evalAt cs 0 with
        | none => []
        | some r => match branch r with | .finish _ _ => [] | .start k _ _ => visitAt cs k) :
    Good (.node d cs) ∧ ((∀ j c, cs.get? j = some c → Live c) → Live (.node d cs)) := by
  refine both_serial d cs hc hser htmo hcl hgoodc hmult
    (fun d' nx F => d'.kind = d.kind ∧
      ((nx = .start 0 [] none ∧ ∀ k, k < cs.length → k ∈ F) ∨ (∃ k, 1 ≤ k ∧ nx = .start k [] none ∧ k ∈ F) ∨ ∃ s w, nx = .finish s w))
    (fun _ nx => match nx with
      | .finish s w => some (s, w)
      | .start k _ _ => if k = 0 then eval (.node d cs) else evalAt cs k)
    (fun _ nx => match nx with
      | .finish _ _ => []
      | .start k _ _ => if k = 0 then visit (.node d cs) else visitAt cs k)
    ⟨?_, ?_, ?_, ?_⟩ ?_ ?_ ?_
  · intro d' s w F _; exact ⟨rfl, rfl⟩
  · intro d' j rst onFail F h
    rcases h.2 with ⟨e, hF⟩ | ⟨k, hk1, e, hkF⟩ | ⟨s, w, e⟩
    · cases e; exact ⟨rfl, hF 0 (by omega)⟩
    · cases e; exact ⟨rfl, hkF⟩
    · cases e
  · intro d' j onFail F c r h hget her
    have hev := evalAt_get cs j c hget
    rcases h.2 with ⟨e, hF⟩ | ⟨k, hk1, e, hkF⟩ | ⟨s, w, e⟩
    · cases e
      refine ⟨fun hv => by rw [h.1, hvl] at hv; simp at hv, fun _ => ?_⟩
      rw [hnext d' r h.1]
      have hev0 : evalAt cs 0 = some r := by rw [hev.1, her]
      rcases hbr r with ⟨s, w, eb⟩ | ⟨k, hk1, hkn, eb⟩
      · refine ⟨⟨h.1, Or.inr (Or.inr ⟨s, w, eb⟩)⟩, ?_, ?_⟩
        · simp only [↓reduceIte, eb]; rw [heval, hev0]; simp [eb]
        · simp only [↓reduceIte, eb]; rw [hvisit, hev0, hev.2]; simp [eb]
      · have hkne : k ≠ 0 := by omega
        refine ⟨⟨h.1, Or.inr (Or.inl ⟨k, hk1, eb, List.mem_erase_of_ne hkne |>.2 (hF k hkn)⟩)⟩, ?_, ?_⟩
        · simp only [↓reduceIte, eb, hkne]; rw [heval, hev0]; simp [eb]
        · simp only [↓reduceIte, eb, hkne]; rw [hvisit, hev0, hev.2]; simp [eb]
    · cases e
      have hkne : j ≠ 0 := by omega
      refine ⟨fun _ => ⟨by simp [hkne, hev.1, her], by simp [hkne, hev.2]⟩, fun hv => by rw [h.1, hvl] at hv; simp at hv; omega⟩
    · cases e
  · intro d' j onFail F c h hget her
    have hev := evalAt_get cs j c hget
    rcases h.2 with ⟨e, hF⟩ | ⟨k, hk1, e, hkF⟩ | ⟨s, w, e⟩
    · cases e; simp only [↓reduceIte]; rw [heval, hev.1, her]
    · cases e; have hkne : j ≠ 0 := by omega
      simp [hkne, hev.1, her]
    · cases e
  · have hs := hstart (decNode d cs.length) (by simp [decNode]; exact (serialStart_fields {} d cs.length).2.2.2.2.2.2.1)
    refine ⟨by simp [decNode]; exact (serialStart_fields {} d cs.length).2.2.2.2.2.2.1, Or.inl ⟨?_, fun k hk => List.mem_range.2 hk⟩⟩
    have := hstart d rfl; rw [this]
  · have := hstart d rfl; rw [this]; simp
  · have := hstart d rfl; rw [this]; simp

/-! ### IfElseAction -/

def ifElseBranch (a b : Bool) (r : Bool × Nat) : Next :=
  if r.1 then (if a then .start 1 [] none else .finish true r.2)
  else (if b then .start (if a then 2 else 1) [] none else .finish true r.2)

theorem good_ifElse (d : Node) (cs : TL) (a b : Bool) (hk : d.kind = .ifElse a b) (hc : cleanNode d = true) (htmo : d.tmo = none)
    (hcl : CleanL cs = true) (hgoodc : ∀ j c, cs.get? j = some c → Good c)
    (hlen : cs.length = 1 + (if a then 1 else 0) + (if b then 1 else 0)) :
    Good (.node d cs) ∧ ((∀ j c, cs.get? j = some c → Live c) → Live (.node d cs)) := by
  have hser : d.isSerial = true := serial_of_kind d (by simp [Node.isLeaf, Node.isPar, hk])
  refine good_twophase d cs hc hser htmo hcl hgoodc (by omega) (by simp [mult, hk]) (ifElseBranch a b) ?_ ?_ ?_ ?_ ?_ ?_
  · intro d' hk'; rw [hk] at hk'; simp [serialStart, hk']
  · intro d' r hk'; rw [hk] at hk'
    unfold serialNext ifElseBranch; rw [hk']
    cases r.1 <;> cases a <;> cases b <;> simp
  · intro r
    unfold ifElseBranch
    cases r.1 <;> cases a <;> cases b <;> simp_all <;> omega
  · intro k; simp [viaLast, hk]
  · rw [eval]; simp only [hk]
    cases evalAt cs 0 with
    | none => rfl
    | some r => obtain ⟨c, w⟩ := r; unfold ifElseBranch; cases c <;> cases a <;> cases b <;> simp
  · rw [visit]; simp only [hk]
    cases evalAt cs 0 with
    | none => rfl
    | some r => obtain ⟨c, w⟩ := r; unfold ifElseBranch; cases c <;> cases a <;> cases b <;> simp

/-! ### SwitchAction -/

def switchBranch (n : Nat) (hd : Bool) (r : Bool × Nat) : Next :=
  if r.1 then
    (if r.2 ≥ 100 && r.2 - 100 < n - 1 - (if hd then 1 else 0) then .start (1 + (r.2 - 100)) [] none
     else if hd then .start (n - 1) [] none else .finish false 9)
  else .finish false 8

theorem good_switch (d : Node) (cs : TL) (hd : Bool) (hk : d.kind = .switch hd) (hc : cleanNode d = true) (htmo : d.tmo = none)
    (hcl : CleanL cs = true) (hgoodc : ∀ j c, cs.get? j = some c → Good c) (hlen : 2 ≤ cs.length) :
    Good (.node d cs) ∧ ((∀ j c, cs.get? j = some c → Live c) → Live (.node d cs)) := by
  have hser : d.isSerial = true := serial_of_kind d (by simp [Node.isLeaf, Node.isPar, hk])
  refine good_twophase d cs hc hser htmo hcl hgoodc (by omega) (by simp [mult, hk]) (switchBranch cs.length hd) ?_ ?_ ?_ ?_ ?_ ?_
  · intro d' hk'; rw [hk] at hk'; simp [serialStart, hk']
  · intro d' r hk'; rw [hk] at hk'
    unfold serialNext switchBranch; rw [hk']
    cases r.1 <;> simp
    split <;> (try split) <;> simp_all
  · intro r
    unfold switchBranch
    by_cases h1 : r.1 = true
    · simp only [h1, ↓reduceIte]
      by_cases h2 : (decide (r.2 ≥ 100) && decide (r.2 - 100 < cs.length - 1 - (if hd = true then 1 else 0))) = true
      · simp only [h2, ↓reduceIte]
        right; refine ⟨1 + (r.2 - 100), by omega, ?_, rfl⟩
        simp only [Bool.and_eq_true, decide_eq_true_eq] at h2
        have := h2.2
        cases hd <;> simp at this <;> omega
      · simp only [h2, Bool.false_eq_true, ↓reduceIte]
        cases hd
        · left; exact ⟨false, 9, by simp⟩
        · right; exact ⟨cs.length - 1, by omega, by omega, by simp⟩
    · simp only [h1, Bool.false_eq_true, ↓reduceIte]; left; exact ⟨false, 8, rfl⟩
  · intro k; simp [viaLast, hk]
  · rw [eval]; simp only [hk]
    cases evalAt cs 0 with
    | none => rfl
    | some r =>
      obtain ⟨c, w⟩ := r; unfold switchBranch
      cases c <;> simp
      split <;> (try split) <;> simp_all
  · rw [visit]; simp only [hk]
    cases evalAt cs 0 with
    | none => simp
    | some r =>
      obtain ⟨c, w⟩ := r; unfold switchBranch
      cases c <;> simp
      split <;> (try split) <;> simp_all

/-! ### SequenceAction -/

def dropTL : TL → Nat → TL
  | cs, 0 => cs
  | .nil, _ + 1 => .nil
  | .cons _ ts, i + 1 => dropTL ts i

theorem dropTL_get : ∀ (cs : TL) (j : Nat) (c : T), cs.get? j = some c → dropTL cs j = .cons c (dropTL cs (j + 1))
  | .nil, _, _, h => by simp [TL.get?] at h
  | .cons t ts, 0, c, h => by
    simp only [TL.get?, Option.some.injEq] at h; subst h
    cases ts <;> simp [dropTL]
  | .cons t ts, j + 1, c, h => by
    simp only [TL.get?] at h
    simpa [dropTL] using dropTL_get ts j c h

theorem dropTL_ge : ∀ (cs : TL) (j : Nat), cs.length ≤ j → dropTL cs j = .nil
  | .nil, 0, _ => rfl
  | .nil, _ + 1, _ => rfl
  | .cons t ts, 0, h => by simp [TL.length] at h
  | .cons t ts, j + 1, h => by simp only [TL.length] at h; simpa [dropTL] using dropTL_ge ts j (by omega)

theorem dropTL_lt_ne : ∀ (cs : TL) (j : Nat), j < cs.length → ∃ t ts, dropTL cs j = .cons t ts := by
  intro cs j h
  obtain ⟨c, hc⟩ := get_of_lt cs j h
  exact ⟨c, _, dropTL_get cs j c hc⟩

theorem good_seq (d : Node) (cs : TL) (m : Mode3) (hk : d.kind = .seq m) (hc : cleanNode d = true) (htmo : d.tmo = none)
    (hcl : CleanL cs = true) (hgoodc : ∀ j c, cs.get? j = some c → Good c) :
    Good (.node d cs) ∧ ((∀ j c, cs.get? j = some c → Live c) → Live (.node d cs)) := by
  have hser : d.isSerial = true := serial_of_kind d (by simp [Node.isLeaf, Node.isPar, hk])
  obtain ⟨c1, c2, c3, c4, c5, c6, c7, c8, c9, c10, c11⟩ := clean_fields d hc
  refine both_serial d cs hc hser htmo hcl hgoodc (by simp [mult, hk])
    (fun d' nx F => d'.kind = .seq m ∧
      ((∃ onFail, nx = .start d'.index [] onFail ∧ d'.index < cs.length ∧ ∀ k, d'.index ≤ k → k < cs.length → k ∈ F) ∨ ∃ s w, nx = .finish s w))
    (fun _ nx => match nx with | .finish s w => some (s, w) | .start i _ _ => evalSeq m (dropTL cs i) (true, 0))
    (fun _ nx => match nx with | .finish _ _ => [] | .start i _ _ => visitSeq m (dropTL cs i))
    ⟨?_, ?_, ?_, ?_⟩ ?_ ?_ ?_
  · intro d' s w F _; exact ⟨rfl, rfl⟩
  · intro d' j rst onFail F h
    rcases h.2 with ⟨of, e, hlt, hF⟩ | ⟨s, w, e⟩
    · cases e; exact ⟨rfl, hF _ (Nat.le_refl _) hlt⟩
    · cases e
  · intro d' j onFail F c r h hget her
    rcases h.2 with ⟨of, e, hlt, hF⟩ | ⟨s, w, e⟩
    · cases e
      have hdrop := dropTL_get cs d'.index c hget
      refine ⟨fun hv => by simp [viaLast, h.1] at hv, fun _ => ?_⟩
      by_cases hb : ((m == .anySucc && r.1) || (m == .anyFail && !r.1)) = true
      · have hsn : serialNext d' cs.length d'.index r.1 r.2 = (d', .finish r.1 r.2) := by
          unfold serialNext; rw [h.1]; simp only [hb, ↓reduceIte]
        rw [hsn]
        refine ⟨⟨h.1, Or.inr ⟨_, _, rfl⟩⟩, ?_, ?_⟩
        · simp only [hdrop, evalSeq, her, hb, ↓reduceIte]
        · simp only [hdrop, visitSeq, her, hb, ↓reduceIte, List.append_nil]
      · have hb' : ((m == .anySucc && r.1) || (m == .anyFail && !r.1)) = false := by simpa using hb
        have hsn : serialNext d' cs.length d'.index r.1 r.2 =
            ({ d' with index := d'.index + 1 }, seqStartOrFinish { d' with index := d'.index + 1 } cs.length r.1 r.2) := by
          unfold serialNext; rw [h.1]; simp only [hb', Bool.false_eq_true, ↓reduceIte]
        rw [hsn]
        by_cases hn : d'.index + 1 < cs.length
        · have e2 : seqStartOrFinish { d' with index := d'.index + 1 } cs.length r.1 r.2 = .start (d'.index + 1) [] (some (false, 6)) := by
            simp [seqStartOrFinish, hn]
          rw [e2]
          obtain ⟨t2, ts2, hd2⟩ := dropTL_lt_ne cs (d'.index + 1) hn
          refine ⟨⟨h.1, Or.inl ⟨_, rfl, hn, fun k hk1 hk2 => by
            have hk1' : d'.index + 1 ≤ k := hk1
            exact (List.mem_erase_of_ne (by omega)).2 (hF k (by omega) hk2)⟩⟩, ?_, ?_⟩
          · simp only [hdrop, evalSeq, her, hb', Bool.false_eq_true, ↓reduceIte, hd2]
          · simp only [hdrop, visitSeq, her, hb', Bool.false_eq_true, ↓reduceIte]
        · have e2 : seqStartOrFinish { d' with index := d'.index + 1 } cs.length r.1 r.2 = .finish r.1 r.2 := by
            simp [seqStartOrFinish, hn]
          rw [e2]
          have hd2 := dropTL_ge cs (d'.index + 1) (by omega)
          refine ⟨⟨h.1, Or.inr ⟨_, _, rfl⟩⟩, ?_, ?_⟩
          · simp only [hdrop, evalSeq, her, hb', Bool.false_eq_true, ↓reduceIte, hd2]
          · simp only [hdrop, visitSeq, her, hb', Bool.false_eq_true, ↓reduceIte, hd2, List.append_nil]
    · cases e
  · intro d' j onFail F c h hget her
    rcases h.2 with ⟨of, e, hlt, hF⟩ | ⟨s, w, e⟩
    · cases e; simp only [dropTL_get cs d'.index c hget, evalSeq, her]
    · cases e
  · have hidx : (decNode d cs.length).index = 0 := by simp [decNode, serialStart, hk, c8]
    refine ⟨by simp [decNode, serialStart, hk], ?_⟩
    simp only [serialStart, hk, seqStartOrFinish, c8]
    by_cases hn : 0 < cs.length
    · simp only [hn, ↓reduceIte]
      exact Or.inl ⟨_, by rw [hidx], by rw [hidx]; exact hn, fun k _ hk => List.mem_range.2 hk⟩
    · simp only [hn, ↓reduceIte]; exact Or.inr ⟨_, _, rfl⟩
  · simp only [serialStart, hk, seqStartOrFinish, c8]
    rw [eval]; simp only [hk]
    by_cases hn : 0 < cs.length
    · simp [hn, dropTL]
    · have : cs = .nil := by cases cs with | nil => rfl | cons a b => simp [TL.length] at hn
      subst this; simp [TL.length, evalSeq]
  · simp only [serialStart, hk, seqStartOrFinish, c8]
    rw [visit]; simp only [hk]
    by_cases hn : 0 < cs.length
    · simp [hn, dropTL]
    · have : cs = .nil := by cases cs with | nil => rfl | cons a b => simp [TL.length] at hn
      subst this; simp [TL.length, visitSeq]

/-! ### IfThenAction -/

theorem good_ifThen (d : Node) (cs : TL) (hk : d.kind = .ifThen) (hc : cleanNode d = true) (htmo : d.tmo = none)
    (hcl : CleanL cs = true) (hgoodc : ∀ j c, cs.get? j = some c → Good c) (heven : cs.length % 2 = 0) :
    Good (.node d cs) ∧ ((∀ j c, cs.get? j = some c → Live c) → Live (.node d cs)) := by
  have hser : d.isSerial = true := serial_of_kind d (by simp [Node.isLeaf, Node.isPar, hk])
  obtain ⟨c1, c2, c3, c4, c5, c6, c7, c8, c9, c10, c11⟩ := clean_fields d hc
  refine both_serial d cs hc hser htmo hcl hgoodc (by simp [mult, hk])
    (fun d' nx F => d'.kind = .ifThen ∧
      ((nx = .start (2 * d'.index) [] none ∧ 2 * d'.index + 1 < cs.length ∧ ∀ k, 2 * d'.index ≤ k → k < cs.length → k ∈ F) ∨
       (nx = .start (2 * d'.index + 1) [] none ∧ 2 * d'.index + 1 < cs.length ∧ (2 * d'.index + 1) ∈ F) ∨ ∃ s w, nx = .finish s w))
    (fun _ nx => match nx with
      | .finish s w => some (s, w)
      | .start i _ _ => if i % 2 = 0 then evalIfThen (dropTL cs i) else evalAt cs i)
    (fun _ nx => match nx with
      | .finish _ _ => []
      | .start i _ _ => if i % 2 = 0 then visitIfThen (dropTL cs i) else visitAt cs i)
    ⟨?_, ?_, ?_, ?_⟩ ?_ ?_ ?_
  · intro d' s w F _; exact ⟨rfl, rfl⟩
  · intro d' j rst onFail F h
    rcases h.2 with ⟨e, hlt, hF⟩ | ⟨e, hlt, hF⟩ | ⟨s, w, e⟩
    · cases e; exact ⟨rfl, hF _ (Nat.le_refl _) (by omega)⟩
    · cases e; exact ⟨rfl, hF⟩
    · cases e
  · intro d' j onFail F c r h hget her
    have hev := evalAt_get cs j c hget
    rcases h.2 with ⟨e, hlt, hF⟩ | ⟨e, hlt, hF⟩ | ⟨s, w, e⟩
    · cases e
      have hmod : (2 * d'.index) % 2 = 0 := by omega
      obtain ⟨th, hth⟩ := get_of_lt cs (2 * d'.index + 1) hlt
      have hdrop : dropTL cs (2 * d'.index) = .cons c (.cons th (dropTL cs (2 * d'.index + 2))) := by
        rw [dropTL_get cs _ c hget, dropTL_get cs _ th hth]
      have hevt := evalAt_get cs (2 * d'.index + 1) th hth
      refine ⟨fun hv => by simp [viaLast, h.1, hmod] at hv, fun _ => ?_⟩
      by_cases hs : r.1 = true
      · have hsn : serialNext d' cs.length (2 * d'.index) r.1 r.2 = (d', .start (2 * d'.index + 1) [] none) := by
          unfold serialNext; rw [h.1]; simp [hs]
        rw [hsn]
        have hmod1 : (2 * d'.index + 1) % 2 ≠ 0 := by omega
        have hr' : eval c = some (true, r.2) := by rw [her]; obtain ⟨a, b⟩ := r; simp at hs; simp [hs]
        refine ⟨⟨h.1, Or.inr (Or.inl ⟨rfl, hlt, (List.mem_erase_of_ne (show 2 * d'.index + 1 ≠ 2 * d'.index by omega)).2 (hF _ (by omega) hlt)⟩)⟩, ?_, ?_⟩
        · simp only [hmod, ↓reduceIte, hmod1, hdrop, evalIfThen, hr', hevt.1]
        · simp only [hmod, ↓reduceIte, hmod1, hdrop, visitIfThen, hr', hevt.2]
      · have hs' : r.1 = false := by simpa using hs
        have hr' : eval c = some (false, r.2) := by rw [her]; obtain ⟨a, b⟩ := r; simp at hs'; simp [hs']
        have hsn : serialNext d' cs.length (2 * d'.index) r.1 r.2 =
            ({ d' with index := d'.index + 1 }, ifThenDoStart { d' with index := d'.index + 1 } cs.length) := by
          unfold serialNext; rw [h.1]; simp [hs']
        rw [hsn]
        by_cases hn : d'.index + 1 ≥ cs.length / 2
        · have e2 : ifThenDoStart { d' with index := d'.index + 1 } cs.length = .finish false 10 := by
            simp [ifThenDoStart, hn]
          rw [e2]
          have hd2 := dropTL_ge cs (2 * d'.index + 2) (by omega)
          refine ⟨⟨h.1, Or.inr (Or.inr ⟨_, _, rfl⟩)⟩, ?_, ?_⟩
          · simp only [hmod, ↓reduceIte, hdrop, evalIfThen, hr', hd2]
          · simp only [hmod, ↓reduceIte, hdrop, visitIfThen, hr', hd2, List.append_nil]
        · have e2 : ifThenDoStart { d' with index := d'.index + 1 } cs.length = .start (2 * (d'.index + 1)) [] none := by
            simp [ifThenDoStart, hn]
          rw [e2]
          have hmod2 : (2 * (d'.index + 1)) % 2 = 0 := by omega
          have e3 : 2 * (d'.index + 1) = 2 * d'.index + 2 := by omega
          refine ⟨⟨h.1, Or.inl ⟨rfl, by show 2 * (d'.index + 1) + 1 < cs.length; omega, fun k hk1 hk2 => by
            have hk1' : 2 * (d'.index + 1) ≤ k := hk1
            exact (List.mem_erase_of_ne (by omega)).2 (hF k (by omega) hk2)⟩⟩, ?_, ?_⟩
          · have hm3 : (2 * d'.index + 2) % 2 = 0 := by omega
            simp only [hmod, ↓reduceIte, hmod2, hdrop, evalIfThen, hr', e3, hm3]
          · have hm3 : (2 * d'.index + 2) % 2 = 0 := by omega
            simp only [hmod, ↓reduceIte, hmod2, hdrop, visitIfThen, hr', e3, hm3]
    · cases e
      have hmod1 : (2 * d'.index + 1) % 2 ≠ 0 := by omega
      refine ⟨fun _ => ⟨by simp [hmod1, hev.1, her], by simp [hmod1, hev.2]⟩, fun hv => by simp [viaLast, h.1] at hv⟩
    · cases e
  · intro d' j onFail F c h hget her
    have hev := evalAt_get cs j c hget
    rcases h.2 with ⟨e, hlt, hF⟩ | ⟨e, hlt, hF⟩ | ⟨s, w, e⟩
    · cases e
      have hmod : (2 * d'.index) % 2 = 0 := by omega
      obtain ⟨th, hth⟩ := get_of_lt cs (2 * d'.index + 1) hlt
      simp only [hmod, ↓reduceIte, dropTL_get cs _ c hget, dropTL_get cs _ th hth, evalIfThen, her]
    · cases e
      have hmod1 : (2 * d'.index + 1) % 2 ≠ 0 := by omega
      simp [hmod1, hev.1, her]
    · cases e
  · have hidx : (decNode d cs.length).index = 0 := by simp [decNode, serialStart, hk]
    refine ⟨by simp [decNode, serialStart, hk], ?_⟩
    simp only [serialStart, hk, ifThenDoStart]
    by_cases hn : 0 ≥ cs.length / 2
    · simp only [hn, ↓reduceIte]; exact Or.inr (Or.inr ⟨_, _, rfl⟩)
    · simp only [hn, ↓reduceIte]
      exact Or.inl ⟨by rw [hidx], by rw [hidx]; omega, fun k _ hk => List.mem_range.2 hk⟩
  · simp only [serialStart, hk, ifThenDoStart]
    rw [eval]; simp only [hk]
    by_cases hn : 0 ≥ cs.length / 2
    · have : cs = .nil := by
        cases cs with
        | nil => rfl
        | cons a b => cases b with
          | nil => simp [TL.length] at heven
          | cons x y => simp [TL.length] at hn; omega
      subst this; simp [TL.length, evalIfThen]
    · simp [hn, dropTL]
  · simp only [serialStart, hk, ifThenDoStart]
    rw [visit]; simp only [hk]
    by_cases hn : 0 ≥ cs.length / 2
    · have : cs = .nil := by
        cases cs with
        | nil => rfl
        | cons a b => cases b with
          | nil => simp [TL.length] at heven
          | cons x y => simp [TL.length] at hn; omega
      subst this; simp [TL.length, visitIfThen]
    · simp [hn, dropTL]


end Tbox.C17
