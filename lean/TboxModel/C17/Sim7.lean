/-
C17 — simulation of control-free runs, part 7: structural induction over the tree, and the statement
about `run` (the root's owner sees exactly one finish notification, with the evaluator's result, and the
leaf functions were called in the evaluator's visit order).
-/
import TboxModel.C17.Loops
namespace Tbox.C17
set_option linter.unusedSimpArgs false
set_option linter.unusedVariables false

/-- the trees covered: no timeouts; leaves FunctionAction / SleepAction (≥ 1 ms); composites Wrapper,
Composite, IfElse, Switch (with their arities), Sequence (all modes, any number of children), IfThen (any
number of if/then pairs), Loop (all modes), LoopIf, Repeat (times ≥ 1; all modes) -/
def kindOk (d : Node) (n : Nat) : Bool :=
  match d.kind with
  | .func _ _ => n == 0
  | .sleep ms => n == 0 && decide (1 ≤ ms)
  | .wrapper _ => decide (1 ≤ n)
  | .composite => decide (1 ≤ n)
  | .ifElse a b => n == 1 + (if a then 1 else 0) + (if b then 1 else 0)
  | .switch _ => decide (2 ≤ n)
  | .seq _ => true
  | .ifThen => n % 2 == 0
  | .loop _ => n == 1
  | .loopIf _ => n == 2
  | .repeat_ k _ => n == 1 && decide (1 ≤ k)
  | _ => false

mutual
def SerOk : T → Bool
  | .node d cs => d.tmo.isNone && kindOk d cs.length && SerOkL cs
def SerOkL : TL → Bool
  | .nil => true
  | .cons t ts => SerOk t && SerOkL ts
end

mutual
def size : T → Nat
  | .node _ cs => 1 + sizeL cs
def sizeL : TL → Nat
  | .nil => 0
  | .cons t ts => size t + sizeL ts
end

mutual
theorem size_sk : ∀ (t : T), size (sk t) = size t
  | .node d cs => by simp only [sk, size, sizeL_sk cs]
theorem sizeL_sk : ∀ (cs : TL), sizeL (skL cs) = sizeL cs
  | .nil => rfl
  | .cons t ts => by simp only [skL, sizeL, size_sk t, sizeL_sk ts]
end

mutual
theorem serOk_sk : ∀ (t : T), SerOk (sk t) = SerOk t
  | .node d cs => by
    have h1 : (skN d).tmo = d.tmo := rfl
    have h2 : kindOk (skN d) = kindOk d := rfl
    simp only [sk, SerOk, h1, h2, skL_length, serOkL_sk cs]
theorem serOkL_sk : ∀ (cs : TL), SerOkL (skL cs) = SerOkL cs
  | .nil => rfl
  | .cons t ts => by simp only [skL, SerOkL, serOk_sk t, serOkL_sk ts]
end

theorem sizeL_get : ∀ (cs : TL) (j : Nat) (c : T), cs.get? j = some c → size c ≤ sizeL cs
  | .nil, _, _, h => by simp [TL.get?] at h
  | .cons t ts, 0, c, h => by simp only [TL.get?, Option.some.injEq] at h; subst h; simp only [sizeL]; omega
  | .cons t ts, j + 1, c, h => by simp only [TL.get?] at h; have := sizeL_get ts j c h; simp only [sizeL]; omega

theorem serOkL_get : ∀ (cs : TL) (j : Nat) (c : T), SerOkL cs = true → cs.get? j = some c → SerOk c = true
  | .nil, _, _, _, h => by simp [TL.get?] at h
  | .cons t ts, 0, c, hs, h => by
    simp only [SerOkL, Bool.and_eq_true] at hs; simp only [TL.get?, Option.some.injEq] at h; subst h; exact hs.1
  | .cons t ts, j + 1, c, hs, h => by
    simp only [SerOkL, Bool.and_eq_true] at hs; simp only [TL.get?] at h; exact serOkL_get ts j c hs.2 h

mutual
theorem serOk_leafShape : ∀ (t : T), SerOk t = true → LeafShape t = true
  | .node d cs, h => by
    simp only [SerOk, Bool.and_eq_true] at h
    simp only [LeafShape, Bool.and_eq_true, Bool.or_eq_true, Bool.not_eq_true', beq_iff_eq]
    refine ⟨?_, serOkL_leafShape cs h.2⟩
    have hk := h.1.2
    unfold kindOk at hk
    cases hkd : d.kind <;> simp [hkd, Node.isLeaf] at hk ⊢ <;> first | exact hk | exact hk.1
theorem serOkL_leafShape : ∀ (cs : TL), SerOkL cs = true → LeafShapeL cs = true
  | .nil, _ => rfl
  | .cons t ts, h => by
    simp only [SerOkL, Bool.and_eq_true] at h
    simp only [LeafShapeL, Bool.and_eq_true]
    exact ⟨serOk_leafShape t h.1, serOkL_leafShape ts h.2⟩
end

/-- structural induction over the tree, by size: a composite that runs a child again needs the statement
for every clean tree with the child's skeleton -/
theorem both_size : ∀ (n : Nat) (t : T), size t ≤ n → SerOk t = true → Clean t = true → Good t ∧ Live t := by
  intro n
  induction n with
  | zero => intro t h; cases t; simp only [size] at h; omega
  | succ n ih =>
    intro t hsz hs hc
    obtain ⟨d, cs⟩ := t
    simp only [size] at hsz
    simp only [SerOk, Bool.and_eq_true, Option.isNone_iff_eq_none] at hs
    simp only [Clean, Bool.and_eq_true] at hc
    obtain ⟨⟨htmo, hko⟩, hsl⟩ := hs
    have hboth : ∀ j c, cs.get? j = some c → Good c ∧ Live c := fun j c h =>
      ih c (by have := sizeL_get cs j c h; omega) (serOkL_get cs j c hsl h) (cleanL_get cs j c hc.2 h)
    have hch := fun j c h => (hboth j c h).1
    have hlv := fun j c h => (hboth j c h).2
    have hG : ∀ j c0, cs.get? j = some c0 → ∀ c, sk c = sk c0 → Clean c = true → Good c ∧ Live c := fun j c0 h c e hcl =>
      ih c (by have := sizeL_get cs j c0 h; rw [← size_sk c, e, size_sk]; omega)
        (by rw [← serOk_sk c, e, serOk_sk]; exact serOkL_get cs j c0 hsl h) hcl
    have hwf : WFL cs = true := wfL_of_cleanL cs hc.2 (serOkL_leafShape cs hsl)
    unfold kindOk at hko
    split at hko
    · rename_i s tag hk
      have : cs = .nil := by cases cs with | nil => rfl | cons a b => simp [TL.length] at hko
      subst this; exact ⟨good_func d s tag hk hc.1, live_func d s tag hk hc.1⟩
    · rename_i ms hk
      simp only [Bool.and_eq_true, beq_iff_eq, decide_eq_true_eq] at hko
      have : cs = .nil := by cases cs with | nil => rfl | cons a b => simp [TL.length] at hko
      subst this; exact ⟨good_sleep d ms hk hko.2 hc.1 htmo, live_sleep d ms hk hc.1 htmo⟩
    · rename_i m hk; exact (good_wrapper d cs m hk hc.1 htmo hc.2 hch (by simpa using hko)).imp id (fun f => f hlv)
    · rename_i hk; exact (good_composite d cs hk hc.1 htmo hc.2 hch (by simpa using hko)).imp id (fun f => f hlv)
    · rename_i a b hk; exact (good_ifElse d cs a b hk hc.1 htmo hc.2 hch (by simpa using hko)).imp id (fun f => f hlv)
    · rename_i hd hk; exact (good_switch d cs hd hk hc.1 htmo hc.2 hch (by simpa using hko)).imp id (fun f => f hlv)
    · rename_i m hk; exact (good_seq d cs m hk hc.1 htmo hc.2 hch).imp id (fun f => f hlv)
    · rename_i hk; exact (good_ifThen d cs hk hc.1 htmo hc.2 hch (by simpa using hko)).imp id (fun f => f hlv)
    · rename_i m hk; exact good_loop d cs m hk hc.1 htmo hc.2 hwf hG (by simpa using hko)
    · rename_i fr hk; exact good_loopIf d cs fr hk hc.1 htmo hc.2 hwf hG (by simpa using hko)
    · rename_i k m hk
      simp only [Bool.and_eq_true, beq_iff_eq, decide_eq_true_eq] at hko
      exact good_repeat d cs k m hk hc.1 htmo hc.2 hwf hG hko.1 hko.2
    · cases hko

theorem both_all (t : T) (hs : SerOk t = true) (hc : Clean t = true) : Good t ∧ Live t := both_size (size t) t (Nat.le_refl _) hs hc

theorem good_all (t : T) (hs : SerOk t = true) (hc : Clean t = true) : Good t := (both_all t hs hc).1
theorem live_all (t : T) (hs : SerOk t = true) (hc : Clean t = true) : Live t := (both_all t hs hc).2

/-! ### the run as the owner of the root sees it -/

/-- finish notifications delivered to the owner of the root, oldest first -/
def rootFinsOf (log : List Ev) : List (Bool × Nat) :=
  (log.filterMap (fun e => match e with | .rootFin s w _ => some (s, w) | _ => none)).reverse

theorem step_start (t : T) (g : G) :
    ((step t g (.calls [.start])).1, (step t g (.calls [.start])).2.1) =
    ((step (start t g).1 (start t g).2.1 .pass).1, (step (start t g).1 (start t g).2.1 .pass).2.1) := by
  simp [step, applyOp, doCalls, doCall]

theorem run_runU : ∀ (ops : List Op) (t : T) (g : G), run t g ops = run (runU t g ops).1 (runU t g ops).2.1 (runU t g ops).2.2
  | [], t, g => by simp [runU]
  | op :: ops, t, g => by
    by_cases h : hasFin t = true
    · simp [runU, h]
    · have h' : hasFin t = false := by simpa using h
      simp only [runU, h', Bool.false_eq_true, ↓reduceIte]
      rw [run]; exact run_runU ops _ _

theorem fireTimers_none (t : T) (g : G) (h : allTimers t [] = []) : fireTimers t g = (t, g) :=
  fireTimers_notdue t g (by rw [h]; intro x hx; cases hx)

/-- nothing queued, nothing armed: loop passes and clock steps change nothing but the clock -/
theorem run_inert : ∀ (ops : List Op) (t : T) (g : G), ops.all cfOp = true → Inert t → g.user = [] →
    (run t g ops).1 = t ∧ (run t g ops).2.log = g.log
  | [], t, g, _, _, _ => ⟨rfl, rfl⟩
  | op :: ops, t, g, hcf, hi, hu => by
    simp only [List.all_cons, Bool.and_eq_true] at hcf
    have e : step t g op = (t, advG g op, []) := by
      rw [step_cf t g op hcf.1, runQueue_none t _ hi.1 (by rw [advG_user]; exact hu), fireTimers_none t _ hi.2]
    rw [run, e]
    have ih := run_inert ops t (advG g op) hcf.2 hi (by rw [advG_user]; exact hu)
    exact ⟨ih.1, by rw [ih.2, advG_log]⟩

/-- the pass in which the root's own finish notification reaches its owner -/
theorem step_deliver (t : T) (g : G) (op : Op) (hop : cfOp op = true) (hu : g.user = []) (r : Bool × Nat) (hd : DoneAs t r) :
    ∃ t' st, Inert t' ∧ (step t g op).1 = t' ∧ (step t g op).2.1 = (advG g op).emit (.rootFin r.1 r.2 st) := by
  obtain ⟨⟨id, ht⟩, htm, _⟩ := hd
  obtain ⟨d, cs⟩ := t
  -- the root's own queue holds exactly that notification; the children hold nothing
  have hroot : d.tasks = [(id, TK.fin r.1 r.2)] ∧ allTasksL cs [] 0 = [] := by
    rw [allTasks] at ht
    cases hdt : d.tasks with
    | nil =>
      rw [hdt] at ht; simp only [List.map_nil, List.nil_append] at ht
      have : (id, ([] : List Nat), TK.fin r.1 r.2) ∈ allTasksL cs [] 0 := by rw [ht]; simp
      exact absurd rfl (tasksL_path_ne cs 0 _ this)
    | cons p ps =>
      rw [hdt] at ht
      simp only [List.map_cons, List.cons_append, List.cons.injEq] at ht
      have h2 := ht.2
      have hps : ps = [] := by
        cases ps with
        | nil => rfl
        | cons q qs => simp at h2
      subst hps
      simp only [List.map_nil, List.nil_append] at h2
      refine ⟨?_, h2⟩
      obtain ⟨a, b⟩ := p
      simp only [Prod.mk.injEq] at ht
      simp [ht.1.1, ht.1.2.2]
  have e : runTask (.node d cs) (advG g op) id = (.node (cancelId d id) cs, (advG g op).emit (.rootFin r.1 r.2 d.st)) := by
    unfold runTask; rw [ht]; simp [splitLast, T.data, T.children]
  have hin : Inert (.node (cancelId d id) cs) := by
    constructor
    · rw [allTasks]; simp [cancelId, hroot.1, hroot.2]
    · rw [allTimers] at htm ⊢; exact htm
  refine ⟨_, d.st, hin, ?_, ?_⟩
  · rw [step_cf _ g op hop, runQueue_one _ _ _ ht (by rw [advG_user]; exact hu), e, fireTimers_none _ _ hin.2]
  · rw [step_cf _ g op hop, runQueue_one _ _ _ ht (by rw [advG_user]; exact hu), e, fireTimers_none _ _ hin.2]

theorem trOf_nil : trOf ([] : List Ev) = [] := rfl

/-- **`C17_result_matches_doc` for the serial trees covered by `SerOk`**: start the freshly built tree,
then any sequence of loop passes and clock steps.  What the owner observes — the calls of the leaf
functions and the finish notifications of the root — is, when the evaluator assigns the result `r`:
either a prefix of the evaluator's visit order (the run is still under way), or the complete visit order
followed by exactly one finish notification carrying `r`. -/
theorem result_matches_doc_run (t : T) (hs : SerOk t = true) (hc : Clean t = true) (ops : List Op) (hcf : ops.all cfOp = true)
    (r : Bool × Nat) (hr : eval t = some r) :
    (∃ pfx, pfx <+: visit t ∧ trOf (run t {} (.calls [.start] :: ops)).2.log = pfx.map Sum.inl) ∨
    trOf (run t {} (.calls [.start] :: ops)).2.log = (visit t).map Sum.inl ++ [Sum.inr r] := by
  have hgood := good_all t hs hc
  have hg0 : GIu ({} : G) := ⟨GI_init, rfl⟩
  obtain ⟨ok, hg1, _, _, _, hrun⟩ := hgood {} hg0
  -- the first op = start, then the rest of that loop pass
  have e0 : run t {} (.calls [.start] :: ops) = run (start t {}).1 (start t {}).2.1 (.pass :: ops) := by
    rw [run, run]
    have := step_start t {}
    simp only [Prod.mk.injEq] at this
    rw [this.1, this.2]
  rw [e0, run_runU]
  have hcf1 : (Op.pass :: ops).all cfOp = true := by simp [cfOp, hcf]
  have rk := hrun (.pass :: ops) hcf1
  have hrest := runU_rest (.pass :: ops) (start t {}).1 (start t {}).2.1
  generalize runU (start t {}).1 (start t {}).2.1 (.pass :: ops) = R at rk hrest ⊢
  obtain ⟨t', g', rest⟩ := R
  obtain ⟨a1, a2, a3, a4⟩ := rk
  simp only [trOf_nil, List.nil_append, hr] at a3 a4
  simp only at a1 a2 a3 a4 hrest ⊢
  by_cases hf : hasFin t' = true
  · obtain ⟨⟨r', hr', hdone⟩, htr⟩ := a3 hf
    cases hr'
    cases rest with
    | nil => left; exact ⟨visit t, List.prefix_refl _, by simpa [run] using htr⟩
    | cons op rest' =>
      right
      have hopcf : cfOp op = true ∧ rest'.all cfOp = true := by have := hrest.2 hcf1; simpa using this
      obtain ⟨t'', st, hin, e1, e2⟩ := step_deliver t' g' op hopcf.1 a1.2 r hdone
      rw [run, e1, e2]
      have hi := run_inert rest' t'' ((advG g' op).emit (.rootFin r.1 r.2 st)) hopcf.2 hin (by simp [G.emit, advG_user, a1.2])
      rw [hi.2]
      simp only [G.emit]
      rw [trOf_cons_rootFin, advG_log, htr]
  · have hf' : hasFin t' = false := by simpa using hf
    obtain ⟨hre, hp, _⟩ := a4 hf'
    subst hre
    obtain ⟨pfx, hpp, e⟩ := hp (by simp)
    left; exact ⟨pfx, hpp, by simpa [run] using e⟩

theorem bigCount_replicate (M n : Nat) : bigCount M (List.replicate n (Op.adv M)) = n := by
  induction n with
  | zero => rfl
  | succ n ih => rw [List.replicate_succ, bigCount_cons, ih]; simp [big]; omega

/-- **liveness for the serial trees covered by `SerOk`**: start the freshly built tree, then any sequence
of loop passes and clock steps among which at least `cost t + 1` are big (a clock step of at least the
longest SleepAction delay of the tree; when the tree has no delay, every pass and clock step counts).
If the evaluator assigns a result `r` (no loop of the tree runs for ever), the owner has observed the
complete visit order followed by exactly one finish notification, carrying `r` — however long the
schedule goes on afterwards. -/
theorem finishes_once_run (t : T) (hs : SerOk t = true) (hc : Clean t = true) (ops : List Op) (hcf : ops.all cfOp = true)
    (M : Nat) (hM : maxDelay t ≤ M) (hbig : cost t + 1 ≤ bigCount M ops) (r : Bool × Nat) (hr : eval t = some r) :
    trOf (run t {} (.calls [.start] :: ops)).2.log = (visit t).map Sum.inl ++ [Sum.inr r] := by
  obtain ⟨hgood, hlive⟩ := both_all t hs hc
  have hg0 : GIu ({} : G) := ⟨GI_init, rfl⟩
  obtain ⟨ok, hg1, _, _, _, hrun⟩ := hgood {} hg0
  have e0 : run t {} (.calls [.start] :: ops) = run (start t {}).1 (start t {}).2.1 (.pass :: ops) := by
    rw [run, run]
    have := step_start t {}
    simp only [Prod.mk.injEq] at this
    rw [this.1, this.2]
  rw [e0, run_runU]
  have hcf1 : (Op.pass :: ops).all cfOp = true := by simp [cfOp, hcf]
  have hb1 : bigCount M ops ≤ bigCount M (Op.pass :: ops) := by rw [bigCount_cons]; omega
  have rk := hrun (.pass :: ops) hcf1
  have lk := hlive {} hg0 (by rw [hr]; simp) M hM (.pass :: ops) hcf1 (by omega)
  have hrest := runU_rest (.pass :: ops) (start t {}).1 (start t {}).2.1
  generalize runU (start t {}).1 (start t {}).2.1 (.pass :: ops) = R at rk lk hrest ⊢
  obtain ⟨t', g', rest⟩ := R
  obtain ⟨a1, a2, a3, a4⟩ := rk
  obtain ⟨hf, hcnt⟩ := lk
  simp only [trOf_nil, List.nil_append, hr] at a3 a4
  simp only at a1 a2 a3 a4 hrest hf hcnt ⊢
  obtain ⟨⟨r', hr', hdone⟩, htr⟩ := a3 hf
  cases hr'
  cases rest with
  | nil => rw [bigCount_nil] at hcnt; omega
  | cons op rest' =>
    have hopcf : cfOp op = true ∧ rest'.all cfOp = true := by have := hrest.2 hcf1; simpa using this
    obtain ⟨t'', st, hin, e1, e2⟩ := step_deliver t' g' op hopcf.1 a1.2 r hdone
    rw [run, e1, e2]
    have hi := run_inert rest' t'' ((advG g' op).emit (.rootFin r.1 r.2 st)) hopcf.2 hin (by simp [G.emit, advG_user, a1.2])
    rw [hi.2]
    simp only [G.emit]
    rw [trOf_cons_rootFin, advG_log, htr]

/-- **a tree whose documented meaning is "runs for ever" never finishes**: whatever loop passes and clock
steps follow the start, the owner observes calls of leaf functions only — no finish notification. -/
theorem never_finishes_run (t : T) (hs : SerOk t = true) (hc : Clean t = true) (ops : List Op) (hcf : ops.all cfOp = true)
    (hn : eval t = none) : ∃ tr : List Nat, trOf (run t {} (.calls [.start] :: ops)).2.log = tr.map Sum.inl := by
  have hgood := good_all t hs hc
  have hg0 : GIu ({} : G) := ⟨GI_init, rfl⟩
  obtain ⟨ok, hg1, _, _, _, hrun⟩ := hgood {} hg0
  have e0 : run t {} (.calls [.start] :: ops) = run (start t {}).1 (start t {}).2.1 (.pass :: ops) := by
    rw [run, run]
    have := step_start t {}
    simp only [Prod.mk.injEq] at this
    rw [this.1, this.2]
  rw [e0, run_runU]
  have hcf1 : (Op.pass :: ops).all cfOp = true := by simp [cfOp, hcf]
  have rk := hrun (.pass :: ops) hcf1
  generalize runU (start t {}).1 (start t {}).2.1 (.pass :: ops) = R at rk ⊢
  obtain ⟨t', g', rest⟩ := R
  obtain ⟨a1, a2, a3, a4⟩ := rk
  simp only [trOf_nil, List.nil_append, hn] at a3 a4
  simp only at a1 a2 a3 a4 ⊢
  cases hf : hasFin t' with
  | true => obtain ⟨⟨r, e, _⟩, _⟩ := a3 hf; cases e
  | false =>
    obtain ⟨hre, _, tr, e⟩ := a4 hf
    subst hre
    exact ⟨tr, by simpa [run] using e⟩

end Tbox.C17
