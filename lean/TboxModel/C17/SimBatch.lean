/-
C17 — simulation of control-free runs, batch form (round 10): the embedding of a child's run into its parent when SEVERAL
notifications are queued below the child at once (a ParallelAction child: every Function / Sleep child of it may have its
finish notification in the same batch of the loop).  `runQueue_embed` (Sim.lean) is the case of at most one queued task (`AP`).

`BatchOk c g ids`: while the batch `ids` (the snapshot `handleNextFunc` took, in run-id order) is worked off on the subtree `c`,
every task that is found under one of those ids is the finish notification of a STRICT descendant of `c` (its path below `c` is
not empty): `c`'s own notification — posted during the batch, with a fresh id — is never in the snapshot, so it stays queued
for the parent's handler in the NEXT batch.  Under that condition the parent only sees its child change.
-/
import TboxModel.C17.Sim
import TboxModel.C17.Ids
namespace Tbox.C17
set_option linter.unusedSimpArgs false
set_option linter.unusedVariables false

/-- the batch `ids` can be worked off inside the subtree `c` -/
def BatchOk : T → G → List (Nat × Unit) → Prop
  | _, _, [] => True
  | c, g, x :: ids =>
      (∀ q tk, (allTasks c []).find? (fun y => y.1 == x.1) = some (x.1, q, tk) → q ≠ [] ∧ ∃ s w, tk = TK.fin s w) ∧
      BatchOk (runTask c g x.1).1 (runTask c g x.1).2 ids

theorem find_id {α : Type} (l : List (Nat × α)) (id : Nat) (y : Nat × α) (h : l.find? (fun x => x.1 == id) = some y) : y.1 = id := by
  have := List.find?_some h
  simpa using this

theorem runTask_absent (t : T) (g : G) (id : Nat) (h : (allTasks t []).find? (fun x => x.1 == id) = none) : runTask t g id = (t, g) := by
  unfold runTask; rw [h]

/-- one item of the batch, seen from the parent -/
theorem runItem_embed {d : Node} {cs : TL} {i : Nat} {c : T} (h : Ctx d cs i c) (g : G) (hu : g.user = []) (id : Nat)
    (hb : ∀ q tk, (allTasks c []).find? (fun y => y.1 == id) = some (id, q, tk) → q ≠ [] ∧ ∃ s w, tk = TK.fin s w) :
    runItem (.node d cs) g id = (.node d (setChild cs i (runItem c g id).1), (runItem c g id).2) := by
  have e1 : ∀ t : T, runItem t g id = runTask t g id := fun t => by simp [runItem, hu]
  rw [e1, e1]
  cases hf : (allTasks c []).find? (fun y => y.1 == id) with
  | none =>
    have hP : (allTasks (.node d cs) []).find? (fun x => x.1 == id) = none := by
      rw [(ctx_tasks h).1, List.find?_map]
      have : ((fun (x : Nat × List Nat × TK) => x.1 == id) ∘ pre i) = (fun x => x.1 == id) := by funext x; rfl
      rw [this, hf]; rfl
    rw [runTask_absent _ g id hP, runTask_absent c g id hf, setChild_self cs i c h.get]
  | some y =>
    obtain ⟨id', q, tk⟩ := y
    have hid : id' = id := find_id _ id _ hf
    subst hid
    obtain ⟨hq, s, w, htk⟩ := hb q tk hf
    subst htk
    exact runTask_embed h g id' q s w hq hf

/-- **the batch form of `runQueue_embed`** (the fold over the snapshot) -/
theorem runItems_embed : ∀ (ids : List (Nat × Unit)) (d : Node) (cs : TL) (i : Nat) (c : T) (g : G), Ctx d cs i c → g.user = [] →
    BatchOk c g ids →
    ids.foldl (fun (p : T × G) x => runItem p.1 p.2 x.1) (.node d cs, g) =
      (.node d (setChild cs i (ids.foldl (fun (p : T × G) x => runItem p.1 p.2 x.1) (c, g)).1),
       (ids.foldl (fun (p : T × G) x => runItem p.1 p.2 x.1) (c, g)).2)
  | [], d, cs, i, c, g, h, _, _ => by simp [setChild_self cs i c h.get]
  | x :: ids, d, cs, i, c, g, h, hu, hb => by
    have e1 : runItem c g x.1 = runTask c g x.1 := by simp [runItem, hu]
    have hu' : (runItem c g x.1).2.user = [] := by
      rw [e1, (runTask_ids c g x.1).user]; exact hu
    rw [List.foldl_cons, List.foldl_cons, runItem_embed h g hu x.1 hb.1]
    have hb' : BatchOk (runItem c g x.1).1 (runItem c g x.1).2 ids := by rw [e1]; exact hb.2
    have ih := runItems_embed ids d (setChild cs i (runItem c g x.1).1) i (runItem c g x.1).1 (runItem c g x.1).2
      (ctx_setChild h _) hu' hb'
    rw [ih, setChild_setChild]

/-- the snapshot of the parent is the snapshot of the child (the same run ids, in the same order) -/
theorem snapshot_embed {d : Node} {cs : TL} {i : Nat} {c : T} (h : Ctx d cs i c) :
    (allTasks (.node d cs) []).map (fun x => (x.1, ())) = (allTasks c []).map (fun x => (x.1, ())) := by
  rw [(ctx_tasks h).1, List.map_map]; rfl

/-- the batch of the subtree `c` in the state `g` -/
def batchOf (c : T) : List (Nat × Unit) := sortBy ((allTasks c []).map fun x => (x.1, ()))

theorem runQueue_embed_batch {d : Node} {cs : TL} {i : Nat} {c : T} (h : Ctx d cs i c) (g : G) (hu : g.user = [])
    (hb : BatchOk c g (batchOf c)) :
    runQueue (.node d cs) g = (.node d (setChild cs i (runQueue c g).1), (runQueue c g).2) := by
  unfold runQueue
  rw [hu]
  simp only [List.map_nil, List.append_nil]
  rw [snapshot_embed h]
  exact runItems_embed _ d cs i c g h hu hb

/-- … and of `step_embed`: one op of a control-free run of the parent is the op of its active child, embedded -/
theorem step_embed_batch {d : Node} {cs : TL} {i : Nat} {c : T} (h : Ctx d cs i c) (g : G) (op : Op) (hop : cfOp op = true)
    (hu : g.user = []) (hb : BatchOk c (advG g op) (batchOf c)) :
    step (.node d cs) g op = (.node d (setChild cs i (step c g op).1), (step c g op).2.1, []) := by
  rw [step_cf _ g op hop, step_cf c g op hop]
  rw [runQueue_embed_batch h (advG g op) (by rw [advG_user]; exact hu) hb]
  rw [fireTimers_embed (ctx_setChild h _), setChild_setChild]

/-- the old hypothesis is an instance: at most one queued task, not the child's own notification -/
theorem batchOk_of_AP (c : T) (g : G) (hap : AP c) (hnf : hasFin c = false) : BatchOk c g (batchOf c) := by
  rcases hap with h0 | ⟨id, q, s, w, h1⟩
  · simp [batchOf, h0, sortBy, BatchOk]
  · have hq : q ≠ [] := by
      intro e; subst e
      have := root_task_of_nil_path c id (TK.fin s w) (by rw [h1]; simp)
      have hh : hasFin c = true := by
        simp only [hasFin, List.any_eq_true]; exact ⟨_, this, rfl⟩
      rw [hh] at hnf; cases hnf
    simp only [batchOf, h1, List.map_cons, List.map_nil, sortBy, List.foldr_cons, List.foldr_nil, insertBy, BatchOk, and_true]
    intro q' tk hf
    simp only [List.find?_cons, beq_self_eq_true, Option.some.injEq, Prod.mk.injEq, true_and] at hf
    obtain ⟨e1, e2⟩ := hf
    subst e1; subst e2
    exact ⟨hq, s, w, rfl⟩

end Tbox.C17
