/-
C17 — the static skeleton of a tree (which actions, of which kind, with which timeout, in which
arrangement) never changes: not by control calls, not by anything the loop runs.  `sk t` is the tree as
it was built (every dynamic field at its initial value).
-/
import TboxModel.C17.Spec
import TboxModel.C17.InvProofs
namespace Tbox.C17
set_option linter.unusedSimpArgs false
set_option linter.unusedVariables false

def skN (d : Node) : Node := { id := d.id, kind := d.kind, tmo := d.tmo }

mutual
def sk : T → T
  | .node d cs => .node (skN d) (skL cs)
def skL : TL → TL
  | .nil => .nil
  | .cons t ts => .cons (sk t) (skL ts)
end

theorem skN_eq (d d' : Node) (h1 : d'.id = d.id) (h2 : d'.kind = d.kind) (h3 : d'.tmo = d.tmo) : skN d' = skN d := by
  simp [skN, h1, h2, h3]

/-! ### node-local pieces -/

@[simp] theorem skN_post (d : Node) (g : G) (tk : TK) : skN (post d g tk).1 = skN d := rfl
@[simp] theorem skN_cancelId (d : Node) (id : Nat) : skN (cancelId d id) = skN d := rfl
@[simp] theorem skN_onFinal (d : Node) (g : G) : skN (onFinal d g).1 = skN d := rfl
@[simp] theorem skN_armTmo (d : Node) (n : Nat) : skN (armTmo d n) = skN d := rfl
@[simp] theorem skN_cancelDispatched (d : Node) : skN (cancelDispatched d) = skN d := rfl
@[simp] theorem skN_cancelReplay (c : Cfg) (d : Node) : skN (cancelReplay c d) = skN d := by
  unfold cancelReplay; split <;> (try split) <;> rfl
@[simp] theorem skN_stopped (c : Cfg) (d : Node) : skN (d.stopped c) = skN d := by
  unfold Node.stopped; simp only [skN_cancelReplay]; split <;> rfl
@[simp] theorem skN_resetted (c : Cfg) (d : Node) : skN (d.resetted c) = skN d := by
  unfold Node.resetted
  have := skN_cancelReplay c d
  simp only [skN, cancelDispatched] at this ⊢
  simpa using this
@[simp] theorem skN_paused (n : Nat) (d : Node) : skN (d.paused n) = skN d := rfl
@[simp] theorem skN_resumed (n : Nat) (d : Node) : skN (d.resumed n) = skN d := rfl
@[simp] theorem skN_started (n : Nat) (d : Node) : skN (d.started n) = skN d := by
  unfold Node.started; split <;> rfl

/-! ### calls that go down the tree -/

mutual
theorem stop_sk : ∀ (t : T) (g : G), sk (stop t g).1 = sk t
  | .node d cs, g => by
    rw [stop]
    split
    · rfl
    · split
      · simp [sk]
      · have := stopAll_sk cs g; simp [sk, this]
      · split
        · rename_i i _; have := stopAt_sk cs i g; simp [sk, this]
        · simp [sk]
theorem stopAt_sk : ∀ (cs : TL) (i : Nat) (g : G), skL (stopAt cs i g).1 = skL cs
  | .nil, _, _ => rfl
  | .cons t ts, 0, g => by have := stop_sk t g; simp [stopAt, skL, this]
  | .cons t ts, i + 1, g => by have := stopAt_sk ts i g; simp [stopAt, skL, this]
theorem stopAll_sk : ∀ (cs : TL) (g : G), skL (stopAll cs g).1 = skL cs
  | .nil, _ => rfl
  | .cons t ts, g => by
    have a := stop_sk t g
    have b := stopAll_sk ts (stop t g).2
    simp [stopAll, skL, a, b]
end

theorem stopCurr_sk (d : Node) (cs : TL) (g : G) : skN (stopCurr d cs g).1 = skN d ∧ skL (stopCurr d cs g).2.1 = skL cs := by
  unfold stopCurr
  split
  · rename_i i _; exact ⟨rfl, stopAt_sk cs i g⟩
  · exact ⟨rfl, rfl⟩

theorem finish_sk (d : Node) (cs : TL) (g : G) (s : Bool) (w : Nat) :
    skN (finish d cs g s w).1 = skN d ∧ skL (finish d cs g s w).2.1 = skL cs := by
  unfold finish
  split
  · exact ⟨rfl, rfl⟩
  · simp only
    split
    · exact ⟨rfl, rfl⟩
    · split
      · split
        · exact ⟨rfl, stopAll_sk cs g⟩
        · exact ⟨rfl, rfl⟩
      · split
        · have := stopCurr_sk { d with st := .finished, tmoAt := none } cs g
          exact ⟨by simp only [skN_onFinal]; exact this.1, this.2⟩
        · exact ⟨rfl, rfl⟩

theorem finish3_sk (d : Node) (cs : TL) (g : G) (s : Bool) (w : Nat) :
    skN (finish3 d cs g s w).1 = skN d ∧ skL (finish3 d cs g s w).2.1 = skL cs := finish_sk d cs g s w

theorem block_sk (d : Node) (g : G) (w : Nat) : skN (block d g w).1 = skN d := by
  unfold block
  split
  · rfl
  · simp only; split <;> rfl

mutual
theorem reset_sk : ∀ (t : T) (g : G), sk (reset t g).1 = sk t
  | .node d cs, g => by
    rw [reset]
    split
    · rfl
    · split
      · simp [sk]
      · have := resetAll_sk cs (g.emit (.rst d.id)); simp [sk, this]
theorem resetAll_sk : ∀ (cs : TL) (g : G), skL (resetAll cs g).1 = skL cs
  | .nil, _ => rfl
  | .cons t ts, g => by
    have a := reset_sk t g
    have b := resetAll_sk ts (reset t g).2
    simp [resetAll, skL, a, b]
end

theorem resetAt_sk : ∀ (cs : TL) (i : Nat) (g : G), skL (resetAt cs i g).1 = skL cs
  | .nil, _, _ => rfl
  | .cons t ts, 0, g => by have := reset_sk t g; simp [resetAt, skL, this]
  | .cons t ts, i + 1, g => by have := resetAt_sk ts i g; simp [resetAt, skL, this]

mutual
theorem pause_sk : ∀ (t : T) (g : G), sk (pause t g).1 = sk t
  | .node d cs, g => by
    rw [pause]
    split
    · rfl
    · split
      · rfl
      · split
        · simp [sk]
        · have := pauseAll_sk cs g; simp [sk, this]
        · split
          · rename_i i _; have := pauseAt_sk cs i g; simp [sk, this]
          · simp [sk]
theorem pauseAt_sk : ∀ (cs : TL) (i : Nat) (g : G), skL (pauseAt cs i g).1 = skL cs
  | .nil, _, _ => rfl
  | .cons t ts, 0, g => by have := pause_sk t g; simp [pauseAt, skL, this]
  | .cons t ts, i + 1, g => by have := pauseAt_sk ts i g; simp [pauseAt, skL, this]
theorem pauseAll_sk : ∀ (cs : TL) (g : G), skL (pauseAll cs g).1 = skL cs
  | .nil, _ => rfl
  | .cons t ts, g => by
    have a := pause_sk t g
    have b := pauseAll_sk ts (pause t g).2.1
    simp [pauseAll, skL, a, b]
end

mutual
theorem resume_sk : ∀ (t : T) (g : G), sk (resume t g).1 = sk t
  | .node d cs, g => by
    rw [resume]
    split
    · rfl
    · split
      · rfl
      · split
        · simp only [sk, skN_resumed]; split <;> rfl
        · have := resumePaused_sk cs g
          simp only
          split <;> simp [sk, this] <;> rfl
        · split
          · rename_i i _; have := resumeAt_sk cs i g; simp [sk, this]
          · split <;> simp [sk] <;> rfl
theorem resumeAt_sk : ∀ (cs : TL) (i : Nat) (g : G), skL (resumeAt cs i g).1 = skL cs
  | .nil, _, _ => rfl
  | .cons t ts, 0, g => by have := resume_sk t g; simp [resumeAt, skL, this]
  | .cons t ts, i + 1, g => by have := resumeAt_sk ts i g; simp [resumeAt, skL, this]
theorem resumePaused_sk : ∀ (cs : TL) (g : G), skL (resumePaused cs g).1 = skL cs
  | .nil, _ => rfl
  | .cons (.node d cs) ts, g => by
    rw [resumePaused]
    split
    · have a := resume_sk (.node d cs) g
      have b := resumePaused_sk ts (resume (.node d cs) g).2.1
      simp [skL, a, b]
    · have b := resumePaused_sk ts g
      simp [skL, b]
end

theorem skN_serialStart (c : Cfg) (d : Node) (n : Nat) : skN (serialStart c d n).1 = skN d := by
  unfold serialStart; split <;> rfl

theorem skN_serialNext (d : Node) (n i : Nat) (s : Bool) (w : Nat) : skN (serialNext d n i s w).1 = skN d := by
  obtain ⟨idx, r, e⟩ := serialNext_node d n i s w
  rw [e]; rfl

mutual
theorem start_sk : ∀ (t : T) (g : G), sk (start t g).1 = sk t
  | .node d cs, g => by
    rw [start]
    split
    · rfl
    · split
      · rfl
      · split
        · split
          · have := finish_sk d cs (g.emit (.fn d.id)); simp [sk, this]
          · simp [sk]; rfl
          · simp [sk]
        · have a := fun saf => startChildren_sk cs 0 saf g
          simp only
          split
          · have f := finish_sk { d with finished := (startChildren cs 0 (d.parMode == .anyFail) g).2.2.foldl (fun acc i => mapSet acc i false) d.finished }
              (startChildren cs 0 (d.parMode == .anyFail) g).1 (startChildren cs 0 (d.parMode == .anyFail) g).2.1 true 0
            have sa := stopAll_sk (finish { d with finished := (startChildren cs 0 (d.parMode == .anyFail) g).2.2.foldl (fun acc i => mapSet acc i false) d.finished }
              (startChildren cs 0 (d.parMode == .anyFail) g).1 (startChildren cs 0 (d.parMode == .anyFail) g).2.1 true 0).2.1
              (finish { d with finished := (startChildren cs 0 (d.parMode == .anyFail) g).2.2.foldl (fun acc i => mapSet acc i false) d.finished }
              (startChildren cs 0 (d.parMode == .anyFail) g).1 (startChildren cs 0 (d.parMode == .anyFail) g).2.1 true 0).2.2.1
            simp only [sk, skN_started, sa, f.1, f.2, a]; rfl
          · split
            · have f := finish_sk { d with finished := (startChildren cs 0 (d.parMode == .anyFail) g).2.2.foldl (fun acc i => mapSet acc i false) d.finished }
                (startChildren cs 0 (d.parMode == .anyFail) g).1 (startChildren cs 0 (d.parMode == .anyFail) g).2.1 true 0
              simp only [sk, skN_started, f.1, f.2, a]; rfl
            · simp only [sk, skN_started, a]; rfl
        · simp only
          split
          · have f := finish_sk (serialStart g.cfg d cs.length).1 cs g
            simp only [sk, skN_started, f, skN_serialStart]
          · rename_i i rs onFail _
            have a := startAt_sk cs i g
            split
            · simp only [sk, skN_started, a]
              have := skN_serialStart g.cfg d cs.length
              simp only [skN] at this ⊢; simpa using this
            · split
              · have f := finish_sk (serialStart g.cfg d cs.length).1 (startAt cs i g).1 (startAt cs i g).2.1
                simp only [sk, skN_started, f, skN_serialStart, a]
              · simp only [sk, skN_started, skN_serialStart, a]
theorem startAt_sk : ∀ (cs : TL) (i : Nat) (g : G), skL (startAt cs i g).1 = skL cs
  | .nil, _, _ => rfl
  | .cons t ts, 0, g => by have := start_sk t g; simp [startAt, skL, this]
  | .cons t ts, i + 1, g => by have := startAt_sk ts i g; simp [startAt, skL, this]
theorem startChildren_sk : ∀ (cs : TL) (idx : Nat) (saf : Bool) (g : G), skL (startChildren cs idx saf g).1 = skL cs
  | .nil, _, _, _ => rfl
  | .cons t ts, idx, saf, g => by
    have a := start_sk t g
    have b := startChildren_sk ts (idx + 1) saf (start t g).2.1
    rw [startChildren]
    simp only
    split <;> simp [skL, a, b]
end

/-! ### handlers run by the loop -/

/-- a handler that keeps the skeleton of the node it runs in -/
def HSk (f : Node → TL → G → Node × TL × G) : Prop :=
  ∀ d cs g, skN (f d cs g).1 = skN d ∧ skL (f d cs g).2.1 = skL cs

theorem resets_sk : ∀ (rs : List Nat) (cs : TL) (g : G),
    skL (rs.foldl (fun (p : TL × G) j => resetAt p.1 j p.2) (cs, g)).1 = skL cs
  | [], _, _ => rfl
  | j :: rs, cs, g => by
    simp only [List.foldl_cons]
    rw [resets_sk rs (resetAt cs j g).1 (resetAt cs j g).2, resetAt_sk]

theorem applyNext_sk (d : Node) (cs : TL) (g : G) (nx : Next) :
    skN (applyNext d cs g nx).1 = skN d ∧ skL (applyNext d cs g nx).2.1 = skL cs := by
  cases nx with
  | finish s w => exact finish3_sk d cs g s w
  | start i rs onFail =>
    simp only [applyNext]
    have r := resets_sk rs cs g
    have a := startAt_sk (rs.foldl (fun (p : TL × G) j => resetAt p.1 j p.2) (cs, g)).1 i
      (rs.foldl (fun (p : TL × G) j => resetAt p.1 j p.2) (cs, g)).2
    split
    · exact ⟨rfl, by rw [a, r]⟩
    · split
      · have f := finish3_sk d (startAt (rs.foldl (fun (p : TL × G) j => resetAt p.1 j p.2) (cs, g)).1 i
          (rs.foldl (fun (p : TL × G) j => resetAt p.1 j p.2) (cs, g)).2).1
          (startAt (rs.foldl (fun (p : TL × G) j => resetAt p.1 j p.2) (cs, g)).1 i
          (rs.foldl (fun (p : TL × G) j => resetAt p.1 j p.2) (cs, g)).2).2.1
        rename_i s w
        exact ⟨(f s w).1, by rw [(f s w).2, a, r]⟩
      · exact ⟨rfl, by rw [a, r]⟩

theorem serialOnChild_sk (i : Nat) (s : Bool) (w : Nat) : HSk (fun d cs g => serialOnChild d cs g i s w) := by
  intro d cs g
  simp only [serialOnChild]
  split
  · split
    · exact finish3_sk _ cs g s w
    · split <;> exact ⟨rfl, rfl⟩
  · split
    · have a := applyNext_sk (serialNext { d with curr := none } cs.length i s w).1 cs g (serialNext { d with curr := none } cs.length i s w).2
      exact ⟨by rw [a.1, skN_serialNext]; rfl, a.2⟩
    · split <;> exact ⟨rfl, rfl⟩

theorem parOnChild_sk (i : Nat) (s : Bool) : HSk (fun d cs g => parOnChild d cs g i s) := by
  intro d cs g
  simp only [parOnChild]
  split
  · split
    · have f := finish3_sk { d with finished := mapSet d.finished i s } (stopAll cs g).1 (stopAll cs g).2 true 0
      exact ⟨f.1, by rw [f.2, stopAll_sk]⟩
    · split
      · exact finish3_sk _ cs g true 0
      · exact ⟨rfl, rfl⟩
  · split <;> exact ⟨rfl, rfl⟩

theorem onChildFin_sk (i : Nat) (s : Bool) (w : Nat) : HSk (fun d cs g => onChildFin d cs g i s w) := by
  intro d cs g
  simp only [onChildFin]
  split
  · exact parOnChild_sk i s d cs g
  · exact serialOnChild_sk i s w d cs g

theorem onChildBlk_sk (w : Nat) : HSk (fun d cs g => onChildBlk d cs g w) := by
  intro d cs g
  simp only [onChildBlk]
  split
  · split
    · exact ⟨block_sk d _ w, pauseAll_sk cs g⟩
    · exact ⟨rfl, rfl⟩
  · exact ⟨block_sk d g w, rfl⟩

theorem parFold_sk : ∀ (l : List (Nat × Bool)) (d : Node) (cs : TL) (g : G),
    skN (l.foldl (fun (p : Node × TL × G) r => parOnChild p.1 p.2.1 p.2.2 r.1 r.2) (d, cs, g)).1 = skN d ∧
    skL (l.foldl (fun (p : Node × TL × G) r => parOnChild p.1 p.2.1 p.2.2 r.1 r.2) (d, cs, g)).2.1 = skL cs
  | [], _, _, _ => ⟨rfl, rfl⟩
  | r :: l, d, cs, g => by
    simp only [List.foldl_cons]
    have a := parOnChild_sk r.1 r.2 d cs g
    have b := parFold_sk l (parOnChild d cs g r.1 r.2).1 (parOnChild d cs g r.1 r.2).2.1 (parOnChild d cs g r.1 r.2).2.2
    exact ⟨by rw [b.1]; exact a.1, by rw [b.2]; exact a.2⟩

theorem onReplay_sk (tk : TK) : HSk (fun d cs g => onReplay d cs g tk) := by
  intro d cs g
  cases tk with
  | replay h =>
    cases h with
    | child i s w => exact serialOnChild_sk i s w d cs g
    | last s w => exact finish3_sk d cs g s w
  | replayPar =>
    simp only [onReplay]
    have := parFold_sk d.heldPar { d with heldPar := [], replayId := 0 } cs g
    exact ⟨by rw [this.1]; rfl, this.2⟩
  | fin s w => exact ⟨rfl, rfl⟩
  | blk w => exact ⟨rfl, rfl⟩

theorem onTimer_sk (b : Bool) : HSk (fun d cs g => onTimer d cs g b) := by
  intro d cs g
  simp only [onTimer]
  split
  · have := finish3_sk { d with sleepAt := none } cs g true 3; exact ⟨by rw [this.1]; rfl, this.2⟩
  · have := finish3_sk { d with tmoAt := none } cs g false 1; exact ⟨by rw [this.1]; rfl, this.2⟩

mutual
theorem modifyAt_sk : ∀ (t : T) (p : List Nat) (f : Node → TL → G → Node × TL × G) (g : G), HSk f → sk (modifyAt t p f g).1 = sk t
  | .node d cs, [], f, g, h => by simp [modifyAt, sk, (h d cs g).1, (h d cs g).2]
  | .node d cs, i :: p, f, g, h => by simp [modifyAt, sk, modifyAtL_sk cs i p f g h]
theorem modifyAtL_sk : ∀ (cs : TL) (i : Nat) (p : List Nat) (f : Node → TL → G → Node × TL × G) (g : G), HSk f →
    skL (modifyAtL cs i p f g).1 = skL cs
  | .nil, _, _, _, _, _ => rfl
  | .cons t ts, 0, p, f, g, h => by simp [modifyAtL, skL, modifyAt_sk t p f g h]
  | .cons t ts, i + 1, p, f, g, h => by simp [modifyAtL, skL, modifyAtL_sk ts i p f g h]
end

theorem popChild_sk : ∀ (cs : TL) (i id : Nat), skL (popChild cs i id) = skL cs
  | .nil, _, _ => rfl
  | .cons (.node d ccs) ts, 0, id => by simp [popChild, skL, sk, T.data, T.children]
  | .cons t ts, i + 1, id => by simp [popChild, skL, popChild_sk ts i id]

theorem runTask_sk (t : T) (g : G) (id : Nat) : sk (runTask t g id).1 = sk t := by
  unfold runTask
  split
  · rfl
  · rename_i x path tk _
    cases tk with
    | fin s w =>
      simp only
      split
      · obtain ⟨d, cs⟩ := t; simp [sk, T.data, T.children]
      · rename_i pp i _
        exact modifyAt_sk t pp _ g (fun d cs g => by
          have := onChildFin_sk i s w d (popChild cs i id) g
          exact ⟨this.1, by rw [this.2, popChild_sk]⟩)
    | blk w =>
      simp only
      split
      · obtain ⟨d, cs⟩ := t; simp [sk, T.data, T.children]
      · rename_i pp i _
        exact modifyAt_sk t pp _ g (fun d cs g => by
          have := onChildBlk_sk w d (popChild cs i id) g
          exact ⟨this.1, by rw [this.2, popChild_sk]⟩)
    | replay h =>
      exact modifyAt_sk t path _ g (fun d cs g => by
        have := onReplay_sk (.replay h) (cancelId d id) cs g; exact ⟨by rw [this.1]; rfl, this.2⟩)
    | replayPar =>
      exact modifyAt_sk t path _ g (fun d cs g => by
        have := onReplay_sk .replayPar (cancelId d id) cs g; exact ⟨by rw [this.1]; rfl, this.2⟩)

theorem doCall_sk (t : T) (g : G) (c : Call) : sk (doCall t g c).1 = sk t := by
  cases c with
  | start => exact start_sk t g
  | pause => exact pause_sk t g
  | resume => exact resume_sk t g
  | stop => exact stop_sk t g
  | reset => exact reset_sk t g
  | emitFin n s =>
    simp only [doCall]
    split
    · rfl
    · split
      · exact modifyAt_sk t _ _ g (fun d cs g => finish3_sk d cs g s 0)
      · rfl
  | emitBlk n =>
    simp only [doCall]
    split
    · rfl
    · split
      · exact modifyAt_sk t _ _ g (fun d cs g => ⟨block_sk d g 0, rfl⟩)
      · rfl

theorem doCalls_sk : ∀ (cs : List Call) (t : T) (g : G) (acc : List Bool),
    sk (cs.foldl (fun (p : T × G × List Bool) c => ((doCall p.1 p.2.1 c).1, (doCall p.1 p.2.1 c).2.1, p.2.2 ++ [(doCall p.1 p.2.1 c).2.2])) (t, g, acc)).1 = sk t
  | [], _, _, _ => rfl
  | c :: cs, t, g, acc => by
    simp only [List.foldl_cons]
    rw [doCalls_sk cs, doCall_sk]

theorem runUser_sk : ∀ (cs : List Call) (t : T) (g : G), sk (runUser t g cs).1 = sk t
  | [], _, _ => rfl
  | c :: cs, t, g => by
    simp only [runUser, List.foldl_cons]
    have := runUser_sk cs (doCall t g c).1 ((doCall t g c).2.1.emit (.ret (doCall t g c).2.2))
    simp only [runUser] at this
    rw [this, doCall_sk]

theorem runItem_sk (t : T) (g : G) (id : Nat) : sk (runItem t g id).1 = sk t := by
  unfold runItem
  split
  · exact runUser_sk _ t _
  · exact runTask_sk t g id

theorem foldItems_sk : ∀ (ids : List (Nat × Unit)) (t : T) (g : G),
    sk (ids.foldl (fun (p : T × G) x => runItem p.1 p.2 x.1) (t, g)).1 = sk t
  | [], _, _ => rfl
  | x :: ids, t, g => by
    simp only [List.foldl_cons]
    rw [foldItems_sk ids, runItem_sk]

theorem runQueue_sk (t : T) (g : G) : sk (runQueue t g).1 = sk t := foldItems_sk _ t g

theorem fireOne_sk (t : T) (g : G) (dl : Nat) (path : List Nat) (b : Bool) : sk (fireOne t g dl path b).1 = sk t :=
  modifyAt_sk t path _ g (fun d cs g => by
    by_cases h : ((if b then d.sleepAt else d.tmoAt) == some dl) = true
    · simp only [h, ↓reduceIte]; exact onTimer_sk b d cs g
    · simp only [h, ↓reduceIte]; exact ⟨rfl, rfl⟩)

theorem foldTimers_sk : ∀ (l : List (Nat × List Nat × Bool)) (t : T) (g : G),
    sk (l.foldl (fun (p : T × G) x => fireOne p.1 p.2 x.1 x.2.1 x.2.2) (t, g)).1 = sk t
  | [], _, _ => rfl
  | x :: l, t, g => by
    simp only [List.foldl_cons]
    rw [foldTimers_sk l, fireOne_sk]

theorem fireTimers_sk (t : T) (g : G) : sk (fireTimers t g).1 = sk t := foldTimers_sk _ t g

/-- **the skeleton is preserved by every op** -/
theorem step_sk (t : T) (g : G) (op : Op) : sk (step t g op).1 = sk t := by
  simp only [step]
  rw [fireTimers_sk, runQueue_sk]
  cases op with
  | calls cs => exact doCalls_sk cs t g []
  | defer cs => rfl
  | adv ms => rfl
  | pass => rfl

theorem run_sk : ∀ (ops : List Op) (t : T) (g : G), sk (run t g ops).1 = sk t
  | [], _, _ => rfl
  | op :: ops, t, g => by rw [run, run_sk ops, step_sk]

/-! ### the documented meaning reads the skeleton only -/

theorem skL_length : ∀ (cs : TL), (skL cs).length = cs.length
  | .nil => rfl
  | .cons t ts => by simp [skL, TL.length, skL_length ts]

theorem skL_get : ∀ (cs : TL) (j : Nat), (skL cs).get? j = (cs.get? j).map sk
  | .nil, _ => rfl
  | .cons t ts, 0 => rfl
  | .cons t ts, j + 1 => by simp [skL, TL.get?, skL_get ts j]

mutual
theorem eval_sk : ∀ (t : T), eval (sk t) = eval t
  | .node d cs => by
    have hk : (skN d).kind = d.kind := rfl
    simp only [sk, eval, hk, evalAt_sk cs, evalSeq_sk, evalIfThen_sk cs, evalAllTerminate_sk cs, evalAny_sk cs, skL_length]
theorem evalAt_sk : ∀ (cs : TL) (i : Nat), evalAt (skL cs) i = evalAt cs i
  | .nil, _ => rfl
  | .cons t ts, 0 => by simp only [skL, evalAt, eval_sk t]
  | .cons t ts, i + 1 => by simp only [skL, evalAt, evalAt_sk ts i]
theorem evalSeq_sk : ∀ (m : Mode3) (cs : TL) (acc : Bool × Nat), evalSeq m (skL cs) acc = evalSeq m cs acc
  | _, .nil, _ => rfl
  | m, .cons t ts, acc => by simp only [skL, evalSeq, eval_sk t, evalSeq_sk m ts]
theorem evalIfThen_sk : ∀ (cs : TL), evalIfThen (skL cs) = evalIfThen cs
  | .nil => rfl
  | .cons i .nil => rfl
  | .cons i (.cons th rest) => by simp only [skL, evalIfThen, eval_sk i, eval_sk th, evalIfThen_sk rest]
theorem evalAllTerminate_sk : ∀ (cs : TL), evalAllTerminate (skL cs) = evalAllTerminate cs
  | .nil => rfl
  | .cons t ts => by simp only [skL, evalAllTerminate, eval_sk t, evalAllTerminate_sk ts]
theorem evalAny_sk : ∀ (cs : TL) (b : Bool), evalAny (skL cs) b = evalAny cs b
  | .nil, _ => rfl
  | .cons t ts, b => by simp only [skL, evalAny, eval_sk t, evalAny_sk ts b]
end

mutual
theorem visit_sk : ∀ (t : T), visit (sk t) = visit t
  | .node d cs => by
    have hk : (skN d).kind = d.kind := rfl
    have hi : (skN d).id = d.id := rfl
    simp only [sk, visit, hk, hi, visitAt_sk cs, visitSeq_sk, visitIfThen_sk cs, visitAll_sk cs, evalAt_sk cs, skL_length]
theorem visitAll_sk : ∀ (cs : TL), visitAll (skL cs) = visitAll cs
  | .nil => rfl
  | .cons t ts => by simp only [skL, visitAll, visit_sk t, visitAll_sk ts]
theorem visitAt_sk : ∀ (cs : TL) (i : Nat), visitAt (skL cs) i = visitAt cs i
  | .nil, _ => rfl
  | .cons t ts, 0 => by simp only [skL, visitAt, visit_sk t]
  | .cons t ts, i + 1 => by simp only [skL, visitAt, visitAt_sk ts i]
theorem visitSeq_sk : ∀ (m : Mode3) (cs : TL), visitSeq m (skL cs) = visitSeq m cs
  | _, .nil => rfl
  | m, .cons t ts => by simp only [skL, visitSeq, visit_sk t, eval_sk t, visitSeq_sk m ts]
theorem visitIfThen_sk : ∀ (cs : TL), visitIfThen (skL cs) = visitIfThen cs
  | .nil => rfl
  | .cons i .nil => rfl
  | .cons i (.cons th rest) => by simp only [skL, visitIfThen, visit_sk i, visit_sk th, eval_sk i, visitIfThen_sk rest]
end

theorem eval_of_sk (t t' : T) (h : sk t' = sk t) : eval t' = eval t ∧ visit t' = visit t := by
  rw [← eval_sk t', ← visit_sk t', h, eval_sk, visit_sk]; exact ⟨rfl, rfl⟩

end Tbox.C17
