/-
C17 — reference meaning of the composites: a big-step evaluator over leaf outcomes, written from
the C-like pseudo code in the headers (actions/*.h), independent of loop passes, queues and states.

  result = `some (is_succ, reason code)` when the action terminates, `none` when it runs for ever
  (LoopAction kForever, an until-loop whose child never gives the awaited result, a LoopIfAction
  whose condition holds, a DummyAction nobody completes).

Leaves are deterministic (a FunctionAction returns the same value every time it is called), so a
loop either ends in its first iteration or never.

Readings fixed here (see the report):
* SequenceAction: the header's pseudo code ends with `return true`; the unit tests
  (`FinishIfAnySucc_AllFail`, `FinishIfAllFinish_AllFail` expect false) and the code return the
  result of the LAST child that ran (true for no children).  The evaluator follows the tests;
  `C17_sequence_header_literal_differs` in Props.lean records the difference.
* ParallelAction has no pseudo code; it always reports success (`finish(true)`).
* IfElseAction with the selected branch absent reports success.
* RepeatAction with times = 0: the header's `for (i = 0; i < times; ++i)` would run nothing, but the
  code computes `times - 1` in `size_t` and the unit test RepeatAction.FunctionActionForeverNoBreak
  uses exactly that as "repeat for ever"; the evaluator follows the test (diverges unless a break
  condition ends it).
-/
import TboxModel.C17.Model
namespace Tbox.C17

mutual
def eval : T → Option (Bool × Nat)
  | .node d cs =>
    match d.kind with
    | .func s tag => some (s, match tag with | some t => 100 + t | none => 2)
    | .sleep _ => some (true, 3)
    | .dummy => none
    | .seq m => evalSeq m cs (true, 0)
    | .par m =>
        -- terminates when every child does, or when a child gives the awaited result
        if evalAllTerminate cs then some (true, 0)
        else if m == .anySucc && evalAny cs true then some (true, 0)
        else if m == .anyFail && evalAny cs false then some (true, 0)
        else none
    | .ifElse hasThen hasElse =>
        match evalAt cs 0 with
        | none => none
        | some (c, w) =>
          if c then (if hasThen then evalAt cs 1 else some (true, w))
          else (if hasElse then evalAt cs (if hasThen then 2 else 1) else some (true, w))
    | .ifThen => evalIfThen cs
    | .switch hasDefault =>
        match evalAt cs 0 with
        | none => none
        | some (false, _) => some (false, 8)
        | some (true, w) =>
          let ncases := cs.length - 1 - (if hasDefault then 1 else 0)
          if w ≥ 100 && w - 100 < ncases then evalAt cs (1 + (w - 100))
          else if hasDefault then evalAt cs (cs.length - 1)
          else some (false, 9)
    | .loop m =>
        match evalAt cs 0 with
        | none => none
        | some (s, w) => if (m == .untilSucc && s) || (m == .untilFail && !s) then some (s, w) else none
    | .loopIf fr =>
        match evalAt cs 0 with
        | some (false, w) => some (fr, w)
        | _ => none
    | .repeat_ n m =>
        match evalAt cs 0 with
        | none => none
        | some (s, w) =>
          if (m == .breakSucc && s) || (m == .breakFail && !s) then some (s, w)
          -- times = 0 means "for ever" (remain_times_ = times - 1 in size_t; unit test FunctionActionForeverNoBreak)
          else if n == 0 then none else some (true, 7)
    | .wrapper m =>
        match evalAt cs 0 with
        | none => none
        | some (s, w) =>
          match m with
          | .normal => some (s, w)
          | .invert => some (!s, w)
          | .alwaysSucc => some (true, w)
          | .alwaysFail => some (false, w)
    | .composite => evalAt cs 0
def evalAt : TL → Nat → Option (Bool × Nat)
  | .nil, _ => none
  | .cons t _, 0 => eval t
  | .cons _ ts, i + 1 => evalAt ts i
/-- `for (item : action_vec) { is_succ = item(); if (break condition) return is_succ; } return last` -/
def evalSeq : Mode3 → TL → Bool × Nat → Option (Bool × Nat)
  | _, .nil, acc => some acc
  | m, .cons t ts, _ =>
      match eval t with
      | none => none
      | some (s, w) => if (m == .anySucc && s) || (m == .anyFail && !s) then some (s, w) else evalSeq m ts (s, w)
/-- `if (if_1()) return then_1(); else if (if_2()) return then_2(); … else return false;` -/
def evalIfThen : TL → Option (Bool × Nat)
  | .cons i (.cons th rest) =>
      match eval i with
      | none => none
      | some (true, _) => eval th
      | some (false, _) => evalIfThen rest
  | _ => some (false, 10)
def evalAllTerminate : TL → Bool
  | .nil => true
  | .cons t ts => (eval t).isSome && evalAllTerminate ts
def evalAny : TL → Bool → Bool
  | .nil, _ => false
  | .cons t ts, want => (match eval t with | some (s, _) => s == want | none => false) || evalAny ts want
end

mutual
/-- trees on which the evaluator speaks: no timeouts anywhere -/
def evalOk : T → Bool
  | .node d cs => d.tmo.isNone && evalOkL cs
def evalOkL : TL → Bool
  | .nil => true
  | .cons t ts => evalOk t && evalOkL ts
end

/-! ### the evaluator's visit order: ids of the FunctionAction leaves in the order their functions are called

(meaningful when `eval` terminates; a child that is run again — RepeatAction — is visited again) -/

mutual
def visit : T → List Nat
  | .node d cs =>
    match d.kind with
    | .func _ _ => [d.id]
    | .sleep _ => []
    | .dummy => []
    | .seq m => visitSeq m cs
    | .par _ => visitAll cs  -- `ParallelAction::onStart` starts every child, in child order, inside start(): for Function / Sleep
                             -- children these are ALL the calls (`fnIds`, ParLeaves.lean); for composite children it is the order
                             -- in which the children are started, their later calls interleave by loop pass (not covered)
    | .ifElse hasThen hasElse =>
        visitAt cs 0 ++
        (match evalAt cs 0 with
         | none => []
         | some (c, _) =>
           if c then (if hasThen then visitAt cs 1 else [])
           else (if hasElse then visitAt cs (if hasThen then 2 else 1) else []))
    | .ifThen => visitIfThen cs
    | .switch hasDefault =>
        visitAt cs 0 ++
        (match evalAt cs 0 with
         | some (true, w) =>
           let ncases := cs.length - 1 - (if hasDefault then 1 else 0)
           if w ≥ 100 && w - 100 < ncases then visitAt cs (1 + (w - 100))
           else if hasDefault then visitAt cs (cs.length - 1) else []
         | _ => [])
    | .loop _ => visitAt cs 0
    | .loopIf _ => visitAt cs 0
    | .repeat_ n m =>
        match evalAt cs 0 with
        | none => visitAt cs 0
        | some (s, _) =>
          if (m == .breakSucc && s) || (m == .breakFail && !s) then visitAt cs 0
          else (List.replicate n (visitAt cs 0)).flatten
    | .wrapper _ => visitAt cs 0
    | .composite => visitAt cs 0
def visitAll : TL → List Nat
  | .nil => []
  | .cons t ts => visit t ++ visitAll ts
def visitAt : TL → Nat → List Nat
  | .nil, _ => []
  | .cons t _, 0 => visit t
  | .cons _ ts, i + 1 => visitAt ts i
def visitSeq : Mode3 → TL → List Nat
  | _, .nil => []
  | m, .cons t ts =>
      visit t ++
      (match eval t with
       | none => []
       | some (s, _) => if (m == .anySucc && s) || (m == .anyFail && !s) then [] else visitSeq m ts)
def visitIfThen : TL → List Nat
  | .cons i (.cons th rest) =>
      visit i ++
      (match eval i with
       | some (true, _) => visit th
       | some (false, _) => visitIfThen rest
       | none => [])
  | _ => []
end

end Tbox.C17
