/- C17 — timeouts (round 9): what a firing timeout does, in every state of every tree; the fine-schedule hypothesis. -/
import TboxModel.C17.InvProofs
namespace Tbox.C17

theorem finish_fields (d : Node) (cs : TL) (g : G) (s : Bool) (w : Nat) (hne : d.st ≠ .finished ∧ d.st ≠ .stoped) :
    (finish d cs g s w).1.st = .finished ∧ (finish d cs g s w).1.res = (if s then .success else .fail) ∧
    (finish d cs g s w).1.tmoAt = none ∧ ∃ id, (id, TK.fin s w) ∈ (finish d cs g s w).1.tasks := by
  have hne' : (d.st == St.finished || d.st == St.stoped) = false := by simp [hne.1, hne.2]
  unfold finish
  simp only [hne', Bool.false_eq_true, ↓reduceIte]
  unfold stopCurr onFinal post
  split <;> (try split) <;> (try split) <;> (try split) <;> simp

/-- **a timeout that fires ends the action for good**: in any state satisfying the tree invariant, when the timeout of an
action that is Running or Pause fires, the action is Finished with result fail, a finish notification (false, reason 1 =
ActionTimeout) is queued, no timer of its own stays armed by the timeout, every descendant is neither Running nor Pause,
and the tree invariant holds again. -/
theorem timeout_fires (d : Node) (cs : TL) (g : G) (hWF : WF (.node d cs) = true) (hg : GI g) (hu : d.underway = true)
    (ht : d.tmoAt ≠ none) :
    (onTimer d cs g false).1.st = .finished ∧ (onTimer d cs g false).1.res = .fail ∧
    (∃ id, (id, TK.fin false 1) ∈ (onTimer d cs g false).1.tasks) ∧
    QuietL (onTimer d cs g false).2.1 = true ∧ WF (.node (onTimer d cs g false).1 (onTimer d cs g false).2.1) = true := by
  have hp := onTimer_wf d cs g false hWF hg (by simpa using ht)
  have hne : ({ d with tmoAt := none } : Node).st ≠ .finished ∧ ({ d with tmoAt := none } : Node).st ≠ .stoped := by
    simp only [Node.underway, Bool.or_eq_true, beq_iff_eq] at hu
    rcases hu with h | h <;> simp [h]
  have ff := finish_fields { d with tmoAt := none } cs g false 1 hne
  have e : onTimer d cs g false = finish3 { d with tmoAt := none } cs g false 1 := by simp [onTimer]
  rw [e] at hp ⊢
  simp only [finish3]
  refine ⟨ff.1, by simpa using ff.2.1, ff.2.2.2, ?_, hp.1⟩
  have hq := wf_endedQuiet _ hp.1
  simp only [finish3, EndedQuiet, Bool.and_eq_true, Bool.or_eq_true] at hq
  rcases hq.1 with h | h
  · simp [Node.underway, ff.1] at h
  · exact h

/-- the schedule hypothesis for documented results of trees with timeouts: in the timer phase that follows `op`, at most ONE
armed timer of the tree is due ("every pass happens before the next expiry"; passes at least as fine as the deadlines) -/
def finePass (t : T) (g : G) (op : Op) : Bool :=
  let a := applyOp t g op
  let q := runQueue a.1 a.2.1
  ((allTimers q.1 []).filter (fun x => x.1 ≤ q.2.now)).length ≤ 1

def fineRun (t : T) (g : G) : List Op → Bool
  | [] => true
  | op :: ops => finePass t g op && fineRun (step t g op).1 (step t g op).2.1 ops

/-- under the hypothesis the timer phase is ONE timer callback (or none): no second timer can find the tree changed by the first -/
theorem fireTimers_fine (t : T) (g : G) (h : ((allTimers t []).filter (fun x => x.1 ≤ g.now)).length ≤ 1) :
    fireTimers t g = (t, g) ∨ ∃ x ∈ allTimers t [], x.1 ≤ g.now ∧ fireTimers t g = fireOne t g x.1 x.2.1 x.2.2 := by
  unfold fireTimers
  cases hd : (allTimers t []).filter (fun x => x.1 ≤ g.now) with
  | nil => left; simp [sortBy]
  | cons x xs =>
    have hx : xs = [] := by
      cases xs with
      | nil => rfl
      | cons y ys => rw [hd] at h; simp at h
    subst hx
    right
    have hm : x ∈ (allTimers t []).filter (fun x => x.1 ≤ g.now) := by rw [hd]; simp
    rw [List.mem_filter] at hm
    exact ⟨x, hm.1, by simpa using hm.2, by simp [sortBy, insertBy]⟩

end Tbox.C17
