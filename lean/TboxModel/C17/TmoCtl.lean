/-
C17 — the timeout timer as part of the node state in EVERY lifecycle state (round 11).

`Action::setTimeout(ms)` and `Action::resetTimeout()` may be called at any moment, not only at construction time
(Model.lean knew `tmo` as a constant of the node).  Transcribed from action.cpp:

  setTimeout(ms):   if (timer_ev_ == nullptr) create it; else timer_ev_->disable();
                    timer_ev_->initialize(ms, kOneshot);  if (state_ == kRunning) timer_ev_->enable();
  resetTimeout():   timer_ev_ = nullptr; old->disable(); runNext(delete old)

so a call with the SAME value while Running is not a no-op: the deadline moves to now + ms; a call while the action
is Pause (paused, or BLOCKED - `block()` keeps the timer armed, `pause()` disarms it) disarms the timer until the
next resume(); a call in any other state only stores the interval.

Where the timer is armed, per lifecycle state (all in Model.lean, collected in TmoCtlProofs.lean):
  Idle      never (`cleanNode`)                     Running   iff a timeout is configured and it has not fired
  Pause     by pause(): never; by block(): still armed with the deadline of the run (the blocked action is subject
            to its timeout); resume() arms it if it is not armed (full interval)
  Finished / Stoped   never (`nodeOk`);             reset() disarms it in every state.
-/
import TboxModel.C17.Late
namespace Tbox.C17

/-- `Action::setTimeout(ms)` on a node in any state -/
def Node.setTimeout (d : Node) (now ms : Nat) : Node :=
  { d with tmo := some ms, tmoAt := if d.st == .running then some (now + ms) else none }

/-- `Action::resetTimeout()` -/
def Node.resetTimeout (d : Node) : Node := { d with tmo := none, tmoAt := none }

/-- `setTimeout` / `resetTimeout` on the node with id `n` (no such node: nothing happens) -/
def setTimeoutAt (t : T) (g : G) (n : Nat) (ms : Option Nat) : T × G :=
  match pathOf t n [] with
  | none => (t, g)
  | some p => modifyAt t p (fun d cs g => ((match ms with | some ms => d.setTimeout g.now ms | none => d.resetTimeout), cs, g)) g

/-- ops of `runL` plus timeout changes at any pass -/
inductive OpT where
  | base (o : OpL)
  | setTmo (n : Nat) (ms : Option Nat)
deriving Repr

/-- the timeout change is made from the fd callback of the pass, then the rest of the pass runs -/
def stepT (t : T) (g : G) : OpT → T × G × List Bool
  | .base o => stepL t g o
  | .setTmo n ms => step (setTimeoutAt t g n ms).1 (setTimeoutAt t g n ms).2 .pass

def runT (t : T) (g : G) : List OpT → T × G
  | [] => (t, g)
  | o :: ops => runT (stepT t g o).1 (stepT t g o).2.1 ops

/-- the node with id `n` is the root, or it is not Idle (see `C17_set_timeout_keeps_inv_partial`) -/
def tmoTargetOk (t : T) (n : Nat) : Bool :=
  match pathOf t n [] with
  | none => true
  | some [] => true
  | some p => match subAt t p with
      | some s => s.data.st != .idle
      | none => true

mutual
/-- every armed timer of the tree was armed at `now`: its deadline is `now` + the configured interval -/
def TimersFrom (now : Nat) : T → Bool
  | .node d cs =>
      (match d.tmoAt with | none => true | some dl => d.tmo.any (fun ms => dl == now + ms)) &&
      (match d.sleepAt with | none => true | some dl => (match d.kind with | .sleep ms => dl == now + ms | _ => false)) &&
      TimersFromL now cs
def TimersFromL (now : Nat) : TL → Bool
  | .nil => true
  | .cons t ts => TimersFrom now t && TimersFromL now ts
end

end Tbox.C17
