/- C17 — the timeout timer in every lifecycle state (round 11): where it is armed, that reset() disarms every timer of the
tree whatever the state (also Pause-by-block, where the timer is still live), that a restarted run arms its timers from the
new start, and that `setTimeout` / `resetTimeout` at any pass keep the tree invariant. -/
import TboxModel.C17.InvProofs
import TboxModel.C17.LateProofs
import TboxModel.C17.TmoCtl
namespace Tbox.C17
set_option linter.unusedSimpArgs false
set_option linter.unusedVariables false

/-! ### node level: what each lifecycle call does to the timeout timer -/

/-- `block()` does NOT touch the timeout timer: an action that is Pause because it is blocked keeps the deadline of its run -/
theorem block_tmoAt (d : Node) (g : G) (w : Nat) : (block d g w).1.tmoAt = d.tmoAt := by
  unfold block post cancelId
  split
  · rfl
  · split <;> rfl

theorem block_st (d : Node) (g : G) (w : Nat) (hu : d.underway = true) : (block d g w).1.st = .pause := by
  have : (d.st == St.finished || d.st == St.stoped) = false := by
    simp only [Node.underway, Bool.or_eq_true, beq_iff_eq] at hu
    rcases hu with h | h <;> simp [h]
  unfold block post cancelId
  simp only [this, Bool.false_eq_true, ↓reduceIte]

/-- `pause()` disarms it, `stop()` disarms it, `reset()` disarms it — in EVERY state and configuration -/
theorem paused_tmoAt (d : Node) (now : Nat) : (d.paused now).tmoAt = none := rfl

theorem cancelReplay_timers (cfg : Cfg) (d : Node) :
    (cancelReplay cfg d).tmoAt = d.tmoAt ∧ (cancelReplay cfg d).sleepAt = d.sleepAt := by
  unfold cancelReplay; split <;> (split <;> exact ⟨rfl, rfl⟩)

theorem stopped_tmoAt (cfg : Cfg) (d : Node) : (d.stopped cfg).tmoAt = none ∧ (d.stopped cfg).sleepAt = none := by
  unfold Node.stopped
  simp only
  rw [(cancelReplay_timers cfg _).1, (cancelReplay_timers cfg _).2]
  split <;> exact ⟨rfl, rfl⟩

theorem resetted_tmoAt (cfg : Cfg) (d : Node) : (d.resetted cfg).tmoAt = none ∧ (d.resetted cfg).sleepAt = none := by
  unfold Node.resetted
  exact ⟨rfl, rfl⟩

/-- `resume()` / `start()`: `timer_ev_->enable()` — a no-op on a timer that is armed -/
theorem armTmo_armed (d : Node) (now dl : Nat) (h : d.tmoAt = some dl) : (armTmo d now).tmoAt = some dl := by
  unfold armTmo
  cases d.tmo <;> simp [h]

theorem armTmo_fresh (d : Node) (now : Nat) (h : d.tmoAt = none) : (armTmo d now).tmoAt = d.tmo.map (now + ·) := by
  unfold armTmo
  cases d.tmo <;> simp [h]

/-- the run of a freshly built / reset action has the deadline `now + timeout` -/
theorem started_deadline (d : Node) (now : Nat) (hc : cleanNode d = true) :
    (d.started now).st = .running ∧ (d.started now).tmoAt = d.tmo.map (now + ·) := by
  obtain ⟨h1, _, _, h4, _⟩ := clean_fields d hc
  simp only [Node.started, h1, beq_self_eq_true, ↓reduceIte]
  exact ⟨trivial, armTmo_fresh d now h4⟩

/-! ### tree level: no timer is armed in a clean tree; reset() makes every tree clean -/

mutual
theorem clean_no_timers : ∀ (t : T) (p : List Nat), Clean t = true → allTimers t p = []
  | .node d cs, p, h => by
    simp only [Clean, Bool.and_eq_true] at h
    obtain ⟨_, _, _, h4, h5, _⟩ := clean_fields d h.1
    simp only [allTimers, h4, h5, List.nil_append]
    exact cleanL_no_timers cs p 0 h.2
theorem cleanL_no_timers : ∀ (cs : TL) (p : List Nat) (i : Nat), CleanL cs = true → allTimersL cs p i = []
  | .nil, _, _, _ => rfl
  | .cons t ts, p, i, h => by
    simp only [CleanL, Bool.and_eq_true] at h
    simp only [allTimersL, clean_no_timers t _ h.1, cleanL_no_timers ts p (i + 1) h.2, List.append_nil]
end

mutual
theorem clean_timersFrom : ∀ (t : T) (now : Nat), Clean t = true → TimersFrom now t = true
  | .node d cs, now, h => by
    simp only [Clean, Bool.and_eq_true] at h
    obtain ⟨_, _, _, h4, h5, _⟩ := clean_fields d h.1
    simp only [TimersFrom, h4, h5, Bool.true_and, cleanL_timersFrom cs now h.2]
theorem cleanL_timersFrom : ∀ (cs : TL) (now : Nat), CleanL cs = true → TimersFromL now cs = true
  | .nil, _, _ => rfl
  | .cons t ts, now, h => by
    simp only [CleanL, Bool.and_eq_true] at h
    simp only [TimersFromL, clean_timersFrom t now h.1, cleanL_timersFrom ts now h.2, Bool.and_self]
end

/-- reset() in any state satisfying the tree invariant leaves NO timer armed anywhere in the tree -/
theorem reset_no_timers (t : T) (g : G) (h : WF t = true) (hg : GI g) : allTimers (reset t g).1 [] = [] :=
  clean_no_timers _ [] (reset_wf t g h hg).2.2

/-! ### `setTimeout` / `resetTimeout` at any pass keep the tree invariant -/

theorem setTimeout_kind (d : Node) (now ms : Nat) : (d.setTimeout now ms).kind = d.kind := rfl

theorem nodeOkP_setTimeout (d : Node) (now ms : Nat) (h : NodeOkP d) : NodeOkP (d.setTimeout now ms) := by
  obtain ⟨h1, h2, h3, h4, h5, h6, h7, h8⟩ := h
  refine ⟨h1, h2, h3, h4, ?_, h6, h7, ?_⟩
  · simp only [Node.setTimeout]
    by_cases hr : d.st = .running
    · right; left; exact hr
    · left; simp [hr]
  · intro hi
    have := h8 hi
    have hi' : d.st = .idle := hi
    simp only [Node.setTimeout, hi', show (St.idle == St.running) = false from rfl, Bool.false_eq_true, ↓reduceIte]
    exact ⟨this.1, this.2.1, trivial, this.2.2.2⟩

theorem nodeOkP_resetTimeout (d : Node) (h : NodeOkP d) : NodeOkP d.resetTimeout := by
  obtain ⟨h1, h2, h3, h4, h5, h6, h7, h8⟩ := h
  refine ⟨h1, h2, h3, h4, Or.inl rfl, h6, h7, ?_⟩
  intro hi
  have := h8 hi
  exact ⟨this.1, this.2.1, rfl, this.2.2.2⟩

theorem childrenOk_tmo (d d' : Node) (cs : TL) (hst : d'.st = d.st) (hk : d'.kind = d.kind) (hc : d'.curr = d.curr)
    (hh : d'.held = d.held) (ht : d'.tasks = d.tasks) : childrenOk d' cs = childrenOk d cs := by
  have hs := isSerial_congr d d' hk
  unfold childrenOk Node.underway
  rw [hs, hst, hc, hh, ht]

/-- the subtree whose root changes its timeout satisfies the invariant again -/
theorem setTimeout_wf (d : Node) (cs : TL) (now : Nat) (ms : Option Nat) (h : WF (.node d cs) = true) :
    WF (.node (match ms with | some ms => d.setTimeout now ms | none => d.resetTimeout) cs) = true := by
  obtain ⟨hN, hleaf, hch, hw⟩ := wf_parts d cs h
  cases ms with
  | some ms =>
    show WF (.node (d.setTimeout now ms) cs) = true
    refine wf_mk _ cs (nodeOkP_setTimeout d now ms hN) ?_ ?_ hw
    · rw [isLeaf_congr d (d.setTimeout now ms) rfl]; exact hleaf
    · rw [childrenOk_tmo d (d.setTimeout now ms) cs rfl rfl rfl rfl rfl]; exact hch
  | none =>
    show WF (.node d.resetTimeout cs) = true
    refine wf_mk _ cs (nodeOkP_resetTimeout d hN) ?_ ?_ hw
    · rw [isLeaf_congr d d.resetTimeout rfl]; exact hleaf
    · rw [childrenOk_tmo d d.resetTimeout cs rfl rfl rfl rfl rfl]; exact hch

theorem quiet_tmo (d d' : Node) (cs : TL) (hst : d'.st = d.st) : Quiet (.node d' cs) = Quiet (.node d cs) := by
  simp only [Quiet, Node.underway, hst]

/-- seen from the parent (`R`), when the node is not Idle -/
theorem setTimeout_R (d : Node) (cs : TL) (now : Nat) (ms : Option Nat) (hni : d.st ≠ .idle) :
    R (.node d cs) (.node (match ms with | some ms => d.setTimeout now ms | none => d.resetTimeout) cs) := by
  have hcl : Clean (.node d cs) = true → False := by
    intro hc
    simp only [Clean, Bool.and_eq_true] at hc
    exact hni (clean_fields d hc.1).1
  cases ms with
  | some ms =>
    show R (.node d cs) (.node (d.setTimeout now ms) cs)
    exact ⟨fun hq => by rw [quiet_tmo d (d.setTimeout now ms) cs rfl]; exact hq, fun hc => (hcl hc).elim, fun hf => Or.inl hf⟩
  | none =>
    show R (.node d cs) (.node d.resetTimeout cs)
    exact ⟨fun hq => by rw [quiet_tmo d d.resetTimeout cs rfl]; exact hq, fun hc => (hcl hc).elim, fun hf => Or.inl hf⟩

theorem setTimeoutAt_wf_partial (t : T) (g : G) (n : Nat) (ms : Option Nat) (h : WF t = true) (hg : GI g)
    (hok : tmoTargetOk t n = true) : WF (setTimeoutAt t g n ms).1 = true ∧ GI (setTimeoutAt t g n ms).2 := by
  unfold setTimeoutAt
  unfold tmoTargetOk at hok
  cases hp : pathOf t n [] with
  | none => exact ⟨h, hg⟩
  | some p =>
    simp only [hp] at hok ⊢
    cases p with
    | nil =>
      obtain ⟨d, cs⟩ := t
      simp only [modifyAt]
      exact ⟨setTimeout_wf d cs g.now ms h, hg⟩
    | cons i q =>
      simp only at hok
      cases hs : subAt t (i :: q) with
      | none => rw [modifyAt_none t _ _ g hs]; exact ⟨h, hg⟩
      | some s =>
        obtain ⟨d, cs⟩ := s
        simp only [hs, T.data, bne_iff_ne, ne_eq] at hok
        have hWF := subAt_wf t _ _ h hs
        have a := lift t (i :: q) (fun d cs g => ((match ms with | some ms => d.setTimeout g.now ms | none => d.resetTimeout), cs, g)) g d cs h hs
          ⟨setTimeout_wf d cs g.now ms hWF, hg, setTimeout_R d cs g.now ms hok⟩
        exact ⟨a.1, a.2.1⟩

/-- every op of `runT` keeps the invariant when the timeout changes are made on the root or on actions that are not Idle -/
def opTOk (t : T) : OpT → Bool
  | .base _ => true
  | .setTmo n _ => tmoTargetOk t n

theorem stepT_wf_partial (t : T) (g : G) (o : OpT) (h : WF t = true) (hg : GI g) (hok : opTOk t o = true) :
    WF (stepT t g o).1 = true ∧ GI (stepT t g o).2.1 := by
  cases o with
  | base o => exact stepL_wf t g o h hg
  | setTmo n ms =>
    have a := setTimeoutAt_wf_partial t g n ms h hg hok
    exact step_wf _ _ .pass a.1 a.2

/-- the guard of `stepT_wf_partial` along a run -/
def runTOk (t : T) (g : G) : List OpT → Bool
  | [] => true
  | o :: ops => opTOk t o && runTOk (stepT t g o).1 (stepT t g o).2.1 ops

theorem runT_wf_partial : ∀ (ops : List OpT) (t : T) (g : G), WF t = true → GI g → runTOk t g ops = true →
    WF (runT t g ops).1 = true ∧ GI (runT t g ops).2
  | [], t, g, h, hg, _ => ⟨h, hg⟩
  | o :: ops, t, g, h, hg, hok => by
    simp only [runTOk, Bool.and_eq_true] at hok
    have a := stepT_wf_partial t g o h hg hok.1
    simp only [runT]
    exact runT_wf_partial ops _ _ a.1 a.2 hok.2

end Tbox.C17
