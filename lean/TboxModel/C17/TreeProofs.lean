/-
C17 layer 2 — structural facts about arbitrary trees: after stop() / after a finish of the repaired
composites no descendant is left under way, given the tree invariant `Inv` (an action that is not
under way has no descendant under way; below a serial composite that is under way only the current
child may be under way).  The driver evaluates the same predicate on every state it visits
(monitor `descendant-left-underway-below-ended-node`).
-/
import TboxModel.C17.Spec
import TboxModel.C17.BaseProofs
namespace Tbox.C17
set_option linter.unusedSimpArgs false

mutual
def Inv : T → Bool
  | .node d cs => InvL cs &&
      (if d.underway then (if d.isLeaf then QuietL cs else (d.isPar || QuietExcept cs d.curr)) else QuietL cs)
def InvL : TL → Bool
  | .nil => true
  | .cons t ts => Inv t && InvL ts
end

theorem quietExcept_of_quietL : ∀ (cs : TL) (o : Option Nat), QuietL cs = true → QuietExcept cs o = true
  | .nil, _, _ => by simp [QuietExcept]
  | .cons t ts, none, h => by simpa [QuietExcept] using h
  | .cons t ts, some 0, h => by simp [QuietExcept, QuietL] at *; exact h.2
  | .cons t ts, some (i + 1), h => by
      simp [QuietExcept, QuietL] at *
      exact ⟨h.1, quietExcept_of_quietL ts (some i) h.2⟩

@[simp] theorem cancelReplay_st (c : Cfg) (d : Node) : (cancelReplay c d).st = d.st := by
  unfold cancelReplay cancelId; split <;> (try split) <;> (try split) <;> simp

theorem stopd_st (b : Bool) (d : Node) :
    (if b = true then cancelDispatched { d with st := .stoped, tmoAt := none } else { d with st := .stoped, tmoAt := none }).st = .stoped := by
  split <;> simp

mutual
theorem stop_quiet : ∀ (t : T) (g : G), Inv t = true → Quiet (stop t g).1 = true
  | .node d cs, g, h => by
    rw [stop]
    simp only [Inv, Bool.and_eq_true] at h
    by_cases hu : d.underway = true
    · simp only [hu, Bool.not_true, Bool.false_eq_true, ↓reduceIte] at h ⊢
      have hs := stopd_st g.cfg.fixBlk d
      split
      · rename_i hk; have : d.isLeaf = true := by simp [Node.isLeaf, hk]
        simp only [this, ↓reduceIte] at h
        simp [Quiet, Node.underway, hs, h.2]
      · rename_i hk; have : d.isLeaf = true := by simp [Node.isLeaf, hk]
        simp only [this, ↓reduceIte] at h
        simp [Quiet, Node.underway, hs, h.2]
      · rename_i hk; have : d.isLeaf = true := by simp [Node.isLeaf, hk]
        simp only [this, ↓reduceIte] at h
        simp [Quiet, Node.underway, hs, h.2]
      · -- parallel: every child is stopped
        have := stopAll_quiet cs g h.1
        simp [Quiet, Node.underway, hs, this]
      · -- serial: the current child is stopped, the others were quiet already
        rename_i h1 h2 h3 h4
        have hl : d.isLeaf = false := by
          cases hk : d.kind <;> simp_all [Node.isLeaf]
        have hp : d.isPar = false := by
          cases hk : d.kind <;> simp_all [Node.isPar]
        simp only [hl, hp, Bool.false_eq_true, ↓reduceIte, Bool.false_or] at h
        split
        · rename_i i hc
          rw [hc] at h
          have := stopAt_quiet cs i g h.1 h.2
          simp [Quiet, Node.underway, hs, this]
        · rename_i hc
          rw [hc] at h
          have : QuietL cs = true := by
            cases cs with
            | nil => simp [QuietL]
            | cons t ts => simpa [QuietExcept] using h.2
          simp [Quiet, Node.underway, hs, this]
    · have hq : QuietL cs = true := by simpa [hu] using h.2
      simp [hu, Quiet, hq]
theorem stopAll_quiet : ∀ (cs : TL) (g : G), InvL cs = true → QuietL (stopAll cs g).1 = true
  | .nil, g, _ => by simp [stopAll, QuietL]
  | .cons t ts, g, h => by
    simp only [InvL, Bool.and_eq_true] at h
    simp only [stopAll, QuietL, Bool.and_eq_true]
    exact ⟨stop_quiet t g h.1, stopAll_quiet ts _ h.2⟩
theorem stopAt_quiet : ∀ (cs : TL) (i : Nat) (g : G), InvL cs = true → QuietExcept cs (some i) = true →
    QuietL (stopAt cs i g).1 = true
  | .nil, _, g, _, _ => by simp [stopAt, QuietL]
  | .cons t ts, 0, g, h, hq => by
    simp only [InvL, Bool.and_eq_true] at h
    simp only [QuietExcept] at hq
    simp only [stopAt, QuietL, Bool.and_eq_true]
    exact ⟨stop_quiet t g h.1, hq⟩
  | .cons t ts, i + 1, g, h, hq => by
    simp only [InvL, Bool.and_eq_true] at h
    simp only [QuietExcept, Bool.and_eq_true] at hq
    simp only [stopAt, QuietL, Bool.and_eq_true]
    exact ⟨hq.1, stopAt_quiet ts i _ h.2 hq.2⟩
end

theorem quietL_of_except_none (cs : TL) (h : QuietExcept cs none = true) : QuietL cs = true := by
  cases cs with
  | nil => simp [QuietL]
  | cons t ts => simpa [QuietExcept] using h

theorem stopCurr_quiet (d : Node) (cs : TL) (g : G) (hi : InvL cs = true) (hq : QuietExcept cs d.curr = true) :
    QuietL (stopCurr d cs g).2.1 = true := by
  unfold stopCurr
  split
  · rename_i i hc; rw [hc] at hq; exact stopAt_quiet cs i g hi hq
  · rename_i hc; rw [hc] at hq; exact quietL_of_except_none cs hq

/-- the children part of `Inv` for the node itself, whatever its state -/
theorem children_quiet_except (d : Node) (cs : TL) (h : Inv (.node d cs) = true) (hl : d.isLeaf = false) (hp : d.isPar = false) :
    QuietExcept cs d.curr = true := by
  simp only [Inv, Bool.and_eq_true] at h
  by_cases hu : d.underway = true
  · simpa [hu, hl, hp] using h.2
  · have : QuietL cs = true := by simpa [hu] using h.2
    exact quietExcept_of_quietL cs _ this

theorem finish_quiet (d : Node) (cs : TL) (g : G) (s : Bool) (w : Nat) (hf : g.cfg.fixFin = true)
    (h : Inv (.node d cs) = true) (hok : (finish d cs g s w).2.2.2 = true) :
    QuietL (finish d cs g s w).2.1 = true := by
  have hi : InvL cs = true := by simp only [Inv, Bool.and_eq_true] at h; exact h.1
  unfold finish at hok ⊢
  split
  · rename_i h1; simp [h1] at hok
  · simp only [hf]
    by_cases hl : d.isLeaf = true
    · -- a leaf has no children under way
      have hq : QuietL cs = true := by
        simp only [Inv, Bool.and_eq_true] at h
        by_cases hu : d.underway = true
        · simpa [hu, hl] using h.2
        · simpa [hu] using h.2
      have e : ({ d with st := St.finished, tmoAt := none } : Node).isLeaf = true := hl
      simp [e, hq]
    · have hl' : d.isLeaf = false := by simpa using hl
      have e : ({ d with st := St.finished, tmoAt := none } : Node).isLeaf = false := hl'
      by_cases hp : d.isPar = true
      · have e2 : ({ d with st := St.finished, tmoAt := none } : Node).isPar = true := hp
        simp only [e, e2, Bool.false_eq_true, ↓reduceIte]
        exact stopAll_quiet cs g hi
      · have hp' : d.isPar = false := by simpa using hp
        have e2 : ({ d with st := St.finished, tmoAt := none } : Node).isPar = false := hp'
        simp only [e, e2, Bool.false_eq_true, ↓reduceIte, Bool.or_true]
        have := stopCurr_quiet { d with st := St.finished, tmoAt := none } cs g hi (children_quiet_except d cs h hl' hp')
        exact this

end Tbox.C17
