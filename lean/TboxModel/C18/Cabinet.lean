/-
C18 — cabinet bookkeeping: every live routine sits in its own cell, the free list names empty
cells only.  `SameC` is the frame relation "nothing the cabinet depends on changed".
-/
import TboxModel.C18.Tower
namespace Tbox.C18

structure Cab (s : State) : Prop where
  live : ∀ r, r < s.n → (s.R r).freed = false → s.cells[(s.R r).pos]? = some (some r)
  cell : ∀ p r, s.cells[p]? = some (some r) → r < s.n ∧ (s.R r).freed = false ∧ (s.R r).pos = p
  freeNone : ∀ p, p ∈ s.free → s.cells[p]? = some none
  nodup : s.free.Nodup
  notStuck : s.stuck = false

/-- nothing the cabinet (or the cleanup bookkeeping) depends on changed; cancel flags only grow -/
structure SameC (s s' : State) : Prop where
  inCleanup : s'.inCleanup = s.inCleanup
  n : s'.n = s.n
  cells : s'.cells = s.cells
  free : s'.free = s.free
  stuck : s'.stuck = s.stuck
  fr : ∀ r, (s'.R r).freed = (s.R r).freed ∧ (s'.R r).pos = (s.R r).pos ∧ (s'.R r).started = (s.R r).started
  canc : ∀ r, (s.R r).canceled = true → (s'.R r).canceled = true

theorem SameC.refl (s : State) : SameC s s := ⟨rfl, rfl, rfl, rfl, rfl, fun _ => ⟨rfl, rfl, rfl⟩, fun _ h => h⟩

theorem SameC.trans {a b c : State} (h1 : SameC a b) (h2 : SameC b c) : SameC a c :=
  ⟨h2.inCleanup.trans h1.inCleanup, h2.n.trans h1.n, h2.cells.trans h1.cells, h2.free.trans h1.free,
   h2.stuck.trans h1.stuck,
   fun r => ⟨(h2.fr r).1.trans (h1.fr r).1, (h2.fr r).2.1.trans (h1.fr r).2.1, (h2.fr r).2.2.trans (h1.fr r).2.2⟩,
   fun r h => h2.canc r (h1.canc r h)⟩

theorem Woke.sameC {s s' : State} (w : Woke s s') : SameC s s' :=
  ⟨w.inCleanup, w.n, w.cells, w.free, w.stuck,
   fun r => ⟨(w.fields r).2.2.2.2.1, (w.fields r).2.2.2.2.2.2.2.2.2, (w.fields r).2.2.2.2.2.1⟩,
   fun r h => by rw [(w.fields r).2.2.1]; exact h⟩

theorem SameC.cab {s s' : State} (h : SameC s s') (c : Cab s) : Cab s' := by
  constructor
  · intro r hr hf
    rw [h.n] at hr; rw [(h.fr r).1] at hf
    rw [h.cells, (h.fr r).2.1]; exact c.live r hr hf
  · intro p r hp
    rw [h.cells] at hp
    rw [h.n, (h.fr r).1, (h.fr r).2.1]; exact c.cell p r hp
  · intro p hp; rw [h.free] at hp; rw [h.cells]; exact c.freeNone p hp
  · rw [h.free]; exact c.nodup
  · rw [h.stuck]; exact c.notStuck

/-- `X` is reachable from `s` by a frame-preserving update, then so is `X` with one more update -/
theorem SameC.setR {s X : State} (h : SameC s X) (r : Nat) (x : Routine)
    (hx : x.freed = (X.R r).freed ∧ x.pos = (X.R r).pos ∧ x.started = (X.R r).started ∧
          ((X.R r).canceled = true → x.canceled = true)) : SameC s (X.setR r x) := by
  refine h.trans ⟨rfl, rfl, rfl, rfl, rfl, ?_, ?_⟩
  · intro i; simp only [State.R, State.setR]; split
    · rename_i e; subst e; exact ⟨hx.1, hx.2.1, hx.2.2.1⟩
    · exact ⟨rfl, rfl, rfl⟩
  · intro i hi; simp only [State.R, State.setR] at hi ⊢; split
    · rename_i e; subst e; exact hx.2.2.2 hi
    · exact hi

theorem SameC.setCh {s X : State} (h : SameC s X) (c : Nat) (x : Chan) : SameC s (X.setCh c x) :=
  h.trans ⟨rfl, rfl, rfl, rfl, rfl, fun _ => ⟨rfl, rfl, rfl⟩, fun _ h => h⟩
theorem SameC.setMx {s X : State} (h : SameC s X) (c : Nat) (x : Mutex) : SameC s (X.setMx c x) :=
  h.trans ⟨rfl, rfl, rfl, rfl, rfl, fun _ => ⟨rfl, rfl, rfl⟩, fun _ h => h⟩
theorem SameC.setSm {s X : State} (h : SameC s X) (c : Nat) (x : Sem) : SameC s (X.setSm c x) :=
  h.trans ⟨rfl, rfl, rfl, rfl, rfl, fun _ => ⟨rfl, rfl, rfl⟩, fun _ h => h⟩
theorem SameC.setBc {s X : State} (h : SameC s X) (c : Nat) (x : Bcast) : SameC s (X.setBc c x) :=
  h.trans ⟨rfl, rfl, rfl, rfl, rfl, fun _ => ⟨rfl, rfl, rfl⟩, fun _ h => h⟩
theorem SameC.setCd {s X : State} (h : SameC s X) (c : Nat) (x : Cond) : SameC s (X.setCd c x) :=
  h.trans ⟨rfl, rfl, rfl, rfl, rfl, fun _ => ⟨rfl, rfl, rfl⟩, fun _ h => h⟩
theorem SameC.tag {s X : State} (h : SameC s X) (t : String) : SameC s (tag X t) := h.trans (Woke.tag X t).sameC
theorem SameC.tagIf {s X : State} (h : SameC s X) (b : Bool) (t : String) : SameC s (tagIf X b t) :=
  h.trans (Woke.tagIf X b t).sameC
theorem SameC.wakeAll {s X : State} (h : SameC s X) (ts : List Nat) : SameC s (wakeAll X ts) :=
  h.trans (Woke.wakeAll X ts).sameC
theorem SameC.resume {s X : State} (h : SameC s X) (t : Nat) : SameC s (resume X t).1 :=
  h.trans (Woke.resume X t).sameC
theorem SameC.resumeOpt {s X : State} (h : SameC s X) (t : Option Nat) : SameC s (resumeOpt X t) := by
  cases t with
  | none => exact h
  | some t => exact h.resume t

theorem SameC.makeReady {s X : State} (h : SameC s X) (t : Nat) : SameC s (makeReady X t).1 := by
  unfold Tbox.C18.makeReady
  split
  · exact h
  · refine h.trans ⟨rfl, rfl, rfl, rfl, rfl, ?_, ?_⟩
    · intro i; simp only [State.R, State.setR]; split
      · rename_i e; subst e; exact ⟨rfl, rfl, rfl⟩
      · exact ⟨rfl, rfl, rfl⟩
    · intro i hi; simp only [State.R, State.setR] at hi ⊢; split
      · rename_i e; subst e; exact hi
      · exact hi

theorem SameC.wake {s X : State} (h : SameC s X) (ts : List Nat) (e : Bool) : SameC s (wake X ts e).1 := by
  unfold Tbox.C18.wake
  simp only []
  split
  · exact ((h.tagIf _ _).tagIf _ _).wakeAll ts
  · split
    · split
      · exact ((h.tagIf _ _).tagIf _ _).resume _
      · dsimp only; exact (h.tagIf _ _).tagIf _ _
    · dsimp only; exact (h.tagIf _ _).tagIf _ _

theorem SameC.finish {s X : State} (h : SameC s X) (me : Nat) (op : Op) (rest : List Op) (res : Res) :
    SameC s (finish X me op rest res).1 := by
  refine h.trans ⟨rfl, rfl, rfl, rfl, rfl, ?_, ?_⟩
  · intro i; simp only [Tbox.C18.finish, State.R, State.setR]; split
    · rename_i e; subst e; exact ⟨rfl, rfl, rfl⟩
    · exact ⟨rfl, rfl, rfl⟩
  · intro i hi; simp only [Tbox.C18.finish, State.R, State.setR] at hi ⊢; split
    · rename_i e; subst e; exact hi
    · exact hi

theorem SameC.blockIn {s X : State} (h : SameC s X) (me : Nat) (op : Op) (rest : List Op) :
    SameC s (blockIn X me op rest).1 := by
  unfold Tbox.C18.blockIn
  exact h.setR me _ ⟨rfl, rfl, rfl, fun h => h⟩

theorem SameC.waitBlock {s X : State} (h : SameC s X) (me : Nat) (op : Op) (rest : List Op) :
    SameC s (waitBlock X me op rest).1 := by
  unfold Tbox.C18.waitBlock
  split
  · exact h.finish _ _ _ _
  · exact (h.setR me { X.R me with state := .suspend } ⟨rfl, rfl, rfl, fun h => h⟩).blockIn _ _ _

theorem SameC.cancelR {s X : State} (h : SameC s X) (t : Nat) : SameC s (cancelR X t).1 := by
  unfold Tbox.C18.cancelR
  split
  · exact (h.setR t { X.R t with canceled := true } ⟨rfl, rfl, rfl, fun _ => rfl⟩).makeReady t
  · exact h

theorem SameC.die {s X : State} (h : SameC s X) (me : Nat) : SameC s (die X me) := by
  unfold Tbox.C18.die
  exact h.setR me _ ⟨rfl, rfl, rfl, fun h => h⟩

macro "samec" : tactic => `(tactic| (
  repeat' (first
    | exact SameC.refl _
    | apply SameC.finish | apply SameC.blockIn | apply SameC.waitBlock | apply SameC.cancelR
    | apply SameC.setCh | apply SameC.setMx | apply SameC.setSm | apply SameC.setBc | apply SameC.setCd
    | apply SameC.tag | apply SameC.tagIf | apply SameC.wakeAll | apply SameC.resumeOpt | apply SameC.makeReady
    | apply SameC.wake
    | (apply SameC.setR; rotate_left; · simp [State.R, State.setR, State.setBc, State.setCd])))) 

/-- every operation except an accepted `create` leaves the cabinet alone -/
theorem execOp_sameC (s : State) (me : Nat) (op : Op) (rest : List Op)
    (h : s.inCleanup = true ∨ ∀ d now, op ≠ .create d now) : SameC s (execOp s me op rest).1 := by
  cases op with
  | create d now =>
    rcases h with h | h
    · simp only [execOp, h, ite_true]; samec
    · exact absurd rfl (h d now)
  | send c v =>
    simp only [execOp]
    have := (SameC.refl s).wake (s.ch c).tokens (s.ch c).queue.isEmpty
    cases hw : wake s (s.ch c).tokens (s.ch c).queue.isEmpty with
    | mk s1 toks => rw [hw] at this; simp only []; exact (this.setCh _ _).finish _ _ _ _
  | unlock m =>
    simp only [execOp]
    split
    · have := (SameC.refl s).wake (s.mx m).waiters true
      cases hw : wake s (s.mx m).waiters true with
      | mk s1 toks => rw [hw] at this; simp only []; exact (this.setMx _ _).finish _ _ _ _
    · samec
  | release k =>
    simp only [execOp]
    have := (SameC.refl s).wake (s.sm k).tokens (decide ((s.sm k).count = 0))
    cases hw : wake s (s.sm k).tokens (decide ((s.sm k).count = 0)) with
    | mk s1 toks => rw [hw] at this; simp only []; exact (this.setSm _ _).finish _ _ _ _
  | cancel t =>
    simp only [execOp]
    have := (SameC.refl s).cancelR t
    cases hw : cancelR s t with
    | mk s1 b => rw [hw] at this; simp only []; exact this.finish _ _ _ _
  | resume t =>
    simp only [execOp]
    have := (SameC.refl s).resume t
    cases hw : resume s t with
    | mk s1 b => rw [hw] at this; simp only []; exact this.finish _ _ _ _
  | exit => simp only [execOp]; exact SameC.refl s
  | throw => simp only [execOp]; exact (Woke.abort s).sameC
  | rcleanup => simp only [execOp]; exact (Woke.abort s).sameC
  | yield => simp only [execOp]; repeat' split
             all_goals samec
  | wait => simp only [execOp]; repeat' split
            all_goals samec
  | recv c => simp only [execOp]; repeat' split
              all_goals samec
  | lock m => simp only [execOp]; repeat' split
              all_goals samec
  | acquire k => simp only [execOp]; repeat' split
                 all_goals samec
  | post b => simp only [execOp]; samec
  | bwait b => simp only [execOp]; repeat' split
               all_goals samec
  | cadd k v => simp only [execOp]; samec
  | cwait k => simp only [execOp]; repeat' split
               all_goals samec
  | cpost k v => simp only [execOp]; repeat' split
                 all_goals samec
  | join t => simp only [execOp]; repeat' split
              all_goals samec

theorem SameC.unwindList {s X : State} (h : SameC s X) (me : Nat) (ms : List Nat) : SameC s (unwindList me ms X) := by
  induction ms generalizing X with
  | nil => exact h
  | cons m ms ih =>
    exact ih (h.trans (execOp_sameC X me (.unlock m) [] (Or.inr (by intro d now; simp))))

theorem SameC.unwind {s X : State} (h : SameC s X) (me : Nat) : SameC s (unwind X me) := by
  unfold Tbox.C18.unwind
  split
  · exact h.unwindList me _
  · exact h

/-- the entry function returns: Locker scopes are left (RAII scripts), `state = kDead` -/
theorem SameC.fin {s X : State} (h : SameC s X) (me : Nat) : SameC s (fin X me) :=
  (h.unwind me).die me

theorem finish_ctl (s : State) (me : Nat) (op : Op) (rest : List Op) (res : Res) : (finish s me op rest res).2 ≠ .block := by
  unfold Tbox.C18.finish; simp only []; split <;> simp

/-- no operation of a cancelled routine can switch out (stated as a property theorem in Props) -/
theorem C18_cancel_unblocks' (s : State) (me : Nat) (op : Op) (rest : List Op) (hc : (s.R me).canceled = true) :
    (execOp s me op rest).2 ≠ .block := by
  cases op <;> simp only [execOp, waitBlock, hc] <;> repeat' split
  all_goals first
    | exact finish_ctl _ _ _ _ _
    | simp_all [State.R, State.setR, State.setBc, State.setCh, State.setMx, State.setSm, tagIf]

end Tbox.C18
