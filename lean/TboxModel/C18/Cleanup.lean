/-
C18 — the cabinet invariant through every step, and `cleanup()`: one sweep frees every routine.
-/
import TboxModel.C18.Cabinet
namespace Tbox.C18

theorem lt_of_get {α : Type} {l : List α} {i : Nat} {x : α} (h : l[i]? = some x) : i < l.length := by
  rcases List.getElem?_eq_some_iff.mp h with ⟨h, _⟩; exact h

theorem createCore_cab {s : State} (d : Nat) (c : Cab s) : Cab (createCore s d) := by
  have c1 := c.live; have c2 := c.cell; have c3 := c.freeNone; have c4 := c.nodup
  unfold createCore
  cases hf : s.free with
  | nil =>
    simp only [hf] at *
    constructor
    · intro r hr hfr
      simp only [State.R] at hr hfr ⊢
      by_cases e : r = s.n
      · subst e; simp
      · have := c1 r (by omega) (by simpa [State.R, e] using hfr)
        simp only [e, ite_false, State.R] at this ⊢
        rw [List.getElem?_append_left]
        · exact this
        · exact lt_of_get this
    · intro p r hp
      simp only [State.R] at hp ⊢
      by_cases hlt : p < s.cells.length
      · rw [List.getElem?_append_left hlt] at hp
        have := c2 p r hp
        have hne : r ≠ s.n := by omega
        simp only [State.R] at this
        simp [hne, this]; omega
      · have hp' : p = s.cells.length := by
          have := lt_of_get hp
          simp at this; omega
        subst hp'
        simp at hp; subst hp; simp
    · intro p hp; cases hp
    · exact List.nodup_nil
    · exact c.notStuck
  | cons p f =>
    simp only [hf] at *
    have hp0 : s.cells[p]? = some none := c3 p (by simp)
    have hplt : p < s.cells.length := lt_of_get hp0
    have hnd : p ∉ f ∧ f.Nodup := by simpa using c4
    constructor
    · intro r hr hfr
      simp only [State.R] at hr hfr ⊢
      by_cases e : r = s.n
      · subst e; simp [List.getElem?_set, hplt]
      · have := c1 r (by omega) (by simpa [State.R, e] using hfr)
        simp only [e, ite_false, State.R] at this ⊢
        have hne : p ≠ (s.rts r).pos := by
          intro h; rw [← h, hp0] at this; cases this
        rw [List.getElem?_set]; simp [hne, this]
    · intro q r hq
      simp only [State.R] at hq ⊢
      rw [List.getElem?_set] at hq
      by_cases e : p = q
      · subst e; simp [hplt] at hq; subst hq; simp
      · simp only [e, ite_false] at hq
        have := c2 q r hq
        have hne : r ≠ s.n := by omega
        simp only [State.R] at this
        simp [hne, this]; omega
    · intro q hq
      have hne : p ≠ q := fun h => hnd.1 (h ▸ hq)
      rw [List.getElem?_set]; simp only [hne, ite_false]
      exact c3 q (by simp [hq])
    · exact hnd.2
    · exact c.notStuck

theorem create_cab {s : State} (d : Nat) (now : Bool) (c : Cab s) : Cab (create s d now) := by
  unfold create
  split
  · exact ((SameC.refl _).makeReady _).cab (createCore_cab d c)
  · exact createCore_cab d c

/-- pre-existing routines keep `freed`, the table only grows -/
def Ext (s s' : State) : Prop := s.n ≤ s'.n ∧ ∀ r, r < s.n → (s'.R r).freed = (s.R r).freed

theorem Ext.refl (s : State) : Ext s s := ⟨Nat.le_refl _, fun _ _ => rfl⟩
theorem Ext.trans {a b c : State} (h1 : Ext a b) (h2 : Ext b c) : Ext a c :=
  ⟨Nat.le_trans h1.1 h2.1, fun r hr => (h2.2 r (Nat.lt_of_lt_of_le hr h1.1)).trans (h1.2 r hr)⟩
theorem SameC.ext {s s' : State} (h : SameC s s') : Ext s s' := ⟨by rw [h.n]; exact Nat.le_refl _, fun r _ => (h.fr r).1⟩

theorem create_ext (s : State) (d : Nat) (now : Bool) : Ext s (create s d now) := by
  have h1 : Ext s (createCore s d) := by
    refine ⟨by simp [createCore], ?_⟩
    intro r hr
    have : r ≠ s.n := by omega
    simp [createCore, State.R, this]
  unfold create
  split
  · exact h1.trans ((SameC.refl _).makeReady _).ext
  · exact h1

theorem execOp_cab {s : State} (me : Nat) (op : Op) (rest : List Op) (c : Cab s) :
    Cab (execOp s me op rest).1 ∧ Ext s (execOp s me op rest).1 := by
  by_cases h : s.inCleanup = true ∨ ∀ d now, op ≠ .create d now
  · have := execOp_sameC s me op rest h
    exact ⟨this.cab c, this.ext⟩
  · have h1 : ¬ s.inCleanup = true := fun x => h (Or.inl x)
    cases op with
    | create d now =>
      simp only [execOp, h1]
      exact ⟨((SameC.refl _).finish _ _ _ _).cab (create_cab d now c),
             (create_ext s d now).trans ((SameC.refl _).finish _ _ _ _).ext⟩
    | _ => exact absurd (Or.inr (by intro d now; simp)) h

theorem runOps_cab (me : Nat) (ops : List Op) {s : State} (c : Cab s) :
    Cab (runOps me ops s) ∧ Ext s (runOps me ops s) := by
  induction ops generalizing s with
  | nil => exact ⟨((SameC.refl s).fin me).cab c, ((SameC.refl s).fin me).ext⟩
  | cons op rest ih =>
    have key := execOp_cab me op rest c
    simp only [runOps]
    split
    · rename_i s1 e; rw [e] at key; exact ⟨(ih key.1).1, key.2.trans (ih key.1).2⟩
    · rename_i s1 e; rw [e] at key; exact key
    · rename_i s1 e; rw [e] at key
      exact ⟨((SameC.refl s1).fin me).cab key.1, key.2.trans ((SameC.refl s1).fin me).ext⟩

theorem freeRoutine_cab {s : State} {r : Nat} (c : Cab s) (hr : r < s.n) (hf : (s.R r).freed = false) :
    Cab (freeRoutine s r) := by
  have c1 := c.live; have c2 := c.cell; have c3 := c.freeNone; have c4 := c.nodup
  have hcell := c1 r hr hf
  have hplt : (s.R r).pos < s.cells.length := lt_of_get hcell
  unfold freeRoutine
  constructor
  · intro x hx hfx
    simp only [State.R, State.setR] at hx hfx ⊢
    by_cases e : x = r
    · subst e; simp at hfx
    · simp only [e, ite_false] at hfx ⊢
      have := c1 x hx hfx
      simp only [State.R] at this hcell
      have hne : (s.rts r).pos ≠ (s.rts x).pos := by
        intro h; rw [h, this] at hcell; injection hcell with h2; injection h2 with h3; exact e h3
      rw [List.getElem?_set]; simp [hne, this]
  · intro q x hq
    simp only [State.R, State.setR] at hq ⊢
    rw [List.getElem?_set] at hq
    by_cases e : (s.rts r).pos = q
    · simp [e] at hq
    · simp only [e, ite_false] at hq
      have := c2 q x hq
      simp only [State.R] at this
      have hne : x ≠ r := by intro h; subst h; exact e this.2.2
      simp [hne, this]
  · intro q hq
    simp only [State.R, State.setR] at hq ⊢
    rw [List.getElem?_set]
    simp only [List.mem_cons] at hq
    rcases hq with hq | hq
    · subst hq; simp only [State.R] at hplt; simp [hplt]
    · have := c3 q hq
      have hne : (s.rts r).pos ≠ q := by
        intro h; simp only [State.R] at hcell; rw [h, this] at hcell; cases hcell
      simp [hne, this]
  · simp only [State.R, State.setR]
    refine List.nodup_cons.mpr ⟨?_, c4⟩
    intro hmem
    have := c3 _ hmem
    simp only [State.R] at hcell; rw [this] at hcell; cases hcell
  · exact c.notStuck

theorem Cab.setR {s : State} (c : Cab s) (r : Nat) (x : Routine) (h1 : x.freed = (s.R r).freed) (h2 : x.pos = (s.R r).pos) :
    Cab (s.setR r x) := by
  simp only [State.R] at h1 h2
  constructor
  · intro i hi hf
    have := c.live i hi
    simp only [State.R, State.setR] at hf this ⊢
    split
    · rename_i e; subst e; simp only [ite_true] at hf; rw [h2]; exact this (by rw [← h1]; exact hf)
    · rename_i e; simp only [e, ite_false] at hf; exact this hf
  · intro p i hp
    have := c.cell p i hp
    simp only [State.R, State.setR] at this ⊢
    split
    · rename_i e; subst e; rw [h1, h2]; exact this
    · exact this
  · exact c.freeNone
  · exact c.nodup
  · exact c.notStuck

theorem switchTo_cab {s : State} {r : Nat} (c : Cab s) (ha : alive s r = true) : Cab (switchTo s r) := by
  simp only [alive, Bool.and_eq_true, decide_eq_true_eq, Bool.not_eq_true'] at ha
  unfold switchTo
  simp only []
  have c1 : Cab (s.setR r { s.R r with state := .running, started := true }) := c.setR r _ rfl rfl
  have key := runOps_cab r ((s.setR r { s.R r with state := .running, started := true }).R r).script c1
  split
  · have hlt : r < (runOps r ((s.setR r { s.R r with state := .running, started := true }).R r).script
        (s.setR r { s.R r with state := .running, started := true })).n :=
      Nat.lt_of_lt_of_le (show r < (s.setR r { s.R r with state := .running, started := true }).n from ha.1) key.2.1
    have hnf := key.2.2 r (show r < (s.setR r { s.R r with state := .running, started := true }).n from ha.1)
    have hnf' : ((runOps r ((s.setR r { s.R r with state := .running, started := true }).R r).script
        (s.setR r { s.R r with state := .running, started := true })).R r).freed = false := by
      rw [hnf]; simp [State.R, State.setR]; exact ha.2
    have c3 := freeRoutine_cab key.1 hlt hnf'
    exact ((SameC.refl _).resumeOpt _).cab c3
  · exact key.1

theorem Cab.of_eq {s s' : State} (c : Cab s) (e1 : s'.n = s.n) (e2 : s'.cells = s.cells) (e3 : s'.free = s.free)
    (e4 : s'.rts = s.rts) (e5 : s'.stuck = s.stuck) : Cab s' := by
  constructor
  · intro r; simp only [State.R]; rw [e1, e2, e4]; exact c.live r
  · intro p r; simp only [State.R]; rw [e1, e2, e4]; exact c.cell p r
  · rw [e2, e3]; exact c.freeNone
  · rw [e3]; exact c.nodup
  · rw [e5]; exact c.notStuck

theorem drain_cab (q : List Nat) {s : State} (c : Cab s) : Cab (drain q s) := by
  induction q generalizing s with
  | nil => exact c
  | cons t rest ih =>
    simp only [drain]
    apply ih
    have c0 : Cab { s with tmp := rest } := c.of_eq rfl rfl rfl rfl rfl
    split
    · rename_i ha; exact switchTo_cab c0 ha
    · exact c0

theorem schedule_cab {s : State} (c : Cab s) : Cab (schedule s) :=
  drain_cab _ (c.of_eq rfl rfl rfl rfl rfl)

theorem batch_cab (k : Nat) {s : State} (c : Cab s) : Cab (batch k s) := by
  induction k generalizing s with
  | zero => exact c
  | succ k ih => exact ih (schedule_cab c)

theorem loopPass_cab {s : State} (c : Cab s) : Cab (loopPass s) :=
  batch_cab _ (c.of_eq rfl rfl rfl rfl rfl)


/-! ### `cleanup()` -/

/-- state inside `cleanup()` after the first pass: everything still in the cabinet is started and cancelled -/
structure Clean (s : State) (L : Nat) : Prop where
  cab : Cab s
  inv : Inv s
  ic : s.inCleanup = true
  all : ∀ r, alive s r = true → (s.R r).started = true ∧ (s.R r).canceled = true
  len : s.cells.length = L

theorem markAll_R (s : State) (r : Nat) : (markAll s).R r =
    if alive s r then
      if (s.R r).started then { s.R r with canceled := true } else { s.R r with freed := true, state := .dead }
    else s.R r := rfl

theorem markAll_cells (s : State) (p : Nat) : (markAll s).cells[p]? =
    (s.cells[p]?).map fun c => match c with
      | some r => if (s.R r).started then some r else none
      | none => none := by
  simp only [markAll, List.getElem?_map]; rfl

theorem alive_iff (s : State) (r : Nat) : alive s r = true ↔ r < s.n ∧ (s.R r).freed = false := by
  simp [alive]

theorem markAll_cab {s : State} (c : Cab s) : Cab (markAll s) := by
  have c1 := c.live; have c2 := c.cell; have c3 := c.freeNone
  constructor
  · intro r hr hf
    have hr' : r < s.n := hr
    rw [markAll_R] at hf ⊢
    cases ha : alive s r
    · rw [ha] at hf
      simp only [Bool.false_eq_true, ite_false] at hf
      have : alive s r = true := (alive_iff s r).mpr ⟨hr', hf⟩
      rw [ha] at this; cases this
    · rw [ha] at hf
      simp only [ite_true] at hf ⊢
      have hfr := ((alive_iff s r).mp ha).2
      cases hst : (s.R r).started
      · rw [hst] at hf; simp at hf
      · simp only [ite_true]
        rw [markAll_cells, c1 r hr' hfr]
        simp [hst]
  · intro p r hp
    rw [markAll_cells] at hp
    cases hc : s.cells[p]? with
    | none => rw [hc] at hp; cases hp
    | some o =>
      rw [hc] at hp
      cases o with
      | none => cases hp
      | some x =>
        have hx := c2 p x hc
        cases hst : (s.R x).started
        · simp [hst] at hp
        · simp only [Option.map_some, hst, ite_true] at hp
          injection hp with hp; injection hp with hp; subst hp
          have ha : alive s x = true := (alive_iff s x).mpr ⟨hx.1, hx.2.1⟩
          rw [markAll_R, ha]
          simp only [ite_true, hst]
          exact ⟨hx.1, hx.2.1, hx.2.2⟩
  · intro p hp
    have : s.cells[p]? = some none := c3 p hp
    rw [markAll_cells, this]; rfl
  · exact c.nodup
  · exact c.notStuck

theorem markAll_clean {s : State} (c : Cab s) (h : Inv s) : Clean (markAll s) s.cells.length := by
  refine ⟨markAll_cab c, markAll_inv h, rfl, ?_, by simp [markAll]⟩
  intro r ha
  have ha' := (alive_iff _ r).mp ha
  have hr' : r < s.n := ha'.1
  have hf := ha'.2
  rw [markAll_R] at hf ⊢
  cases hal : alive s r
  · rw [hal] at hf
    simp only [Bool.false_eq_true, ite_false] at hf
    have : alive s r = true := (alive_iff s r).mpr ⟨hr', hf⟩
    rw [hal] at this; cases this
  · rw [hal] at hf
    simp only [ite_true] at hf ⊢
    cases hst : (s.R r).started
    · rw [hst] at hf; simp at hf
    · simp [hst]

/-- a cancelled routine switched to inside `cleanup()` runs to the end of its script -/
theorem runOps_canceled (me : Nat) (ops : List Op) {s : State} (hic : s.inCleanup = true)
    (hc : (s.R me).canceled = true) :
    SameC s (runOps me ops s) ∧ ((runOps me ops s).R me).state = .dead := by
  induction ops generalizing s with
  | nil => exact ⟨(SameC.refl s).fin me, by simp [runOps, fin, die, State.R, State.setR]⟩
  | cons op rest ih =>
    have key := execOp_sameC s me op rest (Or.inl hic)
    have nb := C18_cancel_unblocks' s me op rest hc
    simp only [runOps]
    split
    · rename_i s1 e; rw [e] at key
      have := ih (s := s1) (by rw [key.inCleanup]; exact hic) (key.canc me hc)
      exact ⟨key.trans this.1, this.2⟩
    · rename_i s1 e; rw [e] at nb; exact absurd rfl nb
    · rename_i s1 e; rw [e] at key
      exact ⟨key.fin me, by simp [fin, die, State.R, State.setR]⟩

theorem freeRoutine_R_ne (s : State) (r x : Nat) (e : x ≠ r) : (freeRoutine s r).R x = s.R x := by
  simp [freeRoutine, State.R, State.setR, e]

theorem switch_clean {s : State} {L p r : Nat} (h : Clean s L) (hp : s.cells[p]? = some (some r)) :
    Clean (switchTo s r) L ∧ (switchTo s r).cells = s.cells.set p none := by
  have hc := h.cab.cell p r hp
  have ha : alive s r = true := (alive_iff s r).mpr ⟨hc.1, hc.2.1⟩
  have hall := h.all r ha
  have k1 : SameC s (s.setR r { s.R r with state := .running, started := true }) :=
    (SameC.refl s).setR r _ ⟨rfl, rfl, by simp [hall.1], fun x => x⟩
  have k2 := runOps_canceled r ((s.setR r { s.R r with state := .running, started := true }).R r).script
    (s := s.setR r { s.R r with state := .running, started := true }) h.ic
    (by simp only [State.R, State.setR, ite_true]; exact hall.2)
  have k12 := k1.trans k2.1
  -- the final state: the routine is freed, then its joiner (if any) resumed
  have key : ∃ Z, SameC s Z ∧ switchTo s r = resumeOpt (freeRoutine Z r) ((freeRoutine Z r).R r).joiner :=
    ⟨_, k12, by unfold switchTo; simp only [k2.2, ite_true]⟩
  obtain ⟨Z, kz, e⟩ := key
  have ky : SameC (freeRoutine Z r) (resumeOpt (freeRoutine Z r) ((freeRoutine Z r).R r).joiner) :=
    (SameC.refl _).resumeOpt _
  generalize resumeOpt (freeRoutine Z r) ((freeRoutine Z r).R r).joiner = Y at e ky
  rw [e]
  have hcellsF : (freeRoutine Z r).cells = s.cells.set p none := by
    show Z.cells.set (Z.R r).pos none = _
    rw [kz.cells, (kz.fr r).2.1, hc.2.2]
  refine ⟨⟨?_, ?_, ?_, ?_, ?_⟩, ?_⟩
  · rw [← e]; exact switchTo_cab h.cab ha
  · rw [← e]; exact switchTo_inv' h.inv ha
  · rw [ky.inCleanup]; show Z.inCleanup = true; rw [kz.inCleanup]; exact h.ic
  · intro x hx
    have hx' := (alive_iff Y x).mp hx
    rw [ky.n, (ky.fr x).1] at hx'
    by_cases ex : x = r
    · subst ex
      have : ((freeRoutine Z x).R x).freed = true := by simp [freeRoutine, State.R, State.setR]
      rw [this] at hx'; cases hx'.2
    · rw [freeRoutine_R_ne Z r x ex] at hx'
      have hx1 : x < s.n := by
        have : (freeRoutine Z r).n = Z.n := rfl
        rw [this, kz.n] at hx'; exact hx'.1
      have hx2 : (s.R x).freed = false := by rw [← (kz.fr x).1]; exact hx'.2
      have hs := h.all x ((alive_iff s x).mpr ⟨hx1, hx2⟩)
      refine ⟨?_, ?_⟩
      · rw [(ky.fr x).2.2, freeRoutine_R_ne Z r x ex, (kz.fr x).2.2]; exact hs.1
      · apply ky.canc
        rw [freeRoutine_R_ne Z r x ex]
        exact kz.canc x hs.2
  · rw [ky.cells, hcellsF, List.length_set]; exact h.len
  · rw [ky.cells, hcellsF]

theorem sweep_clean (k : Nat) {s : State} {L p : Nat} (h : Clean s L) (hk : p + k = L)
    (hdone : ∀ q, q < p → s.cells[q]? = some none) :
    Clean (sweep k p s) L ∧ ∀ q, q < L → (sweep k p s).cells[q]? = some none := by
  induction k generalizing s p with
  | zero =>
    simp only [sweep]
    exact ⟨h, fun q hq => hdone q (by omega)⟩
  | succ k ih =>
    simp only [sweep]
    have hplt : p < s.cells.length := by rw [h.len]; omega
    have hget : s.cells.getD p none = s.cells[p] := by simp [List.getD, List.getElem?_eq_getElem hplt]
    rw [hget]
    cases hcp : s.cells[p] with
    | none =>
      simp only []
      apply ih h (by omega)
      intro q hq
      by_cases e : q = p
      · subst e; rw [List.getElem?_eq_getElem hplt, hcp]
      · exact hdone q (by omega)
    | some r =>
      simp only []
      have hp : s.cells[p]? = some (some r) := by rw [List.getElem?_eq_getElem hplt, hcp]
      have hc := h.cab.cell p r hp
      have ha : alive s r = true := by simp [alive, hc.1, hc.2.1]
      simp only [ha, ite_true]
      have key := switch_clean h hp
      apply ih key.1 (by omega)
      intro q hq
      rw [key.2, List.getElem?_set]
      by_cases e : p = q
      · subst e; simp [hplt]
      · simp only [e, ite_false]; exact hdone q (by omega)

theorem empty_of_none {s : State} (h : ∀ q, q < s.cells.length → s.cells[q]? = some none) : cabinetEmpty s = true := by
  simp only [cabinetEmpty, List.all_eq_true]
  intro x hx
  rcases List.getElem_of_mem hx with ⟨i, hi, e⟩
  have := h i hi
  rw [List.getElem?_eq_getElem hi, e] at this
  injection this with this; subst this; rfl

/-- **one sweep suffices**: after the first `foreach` pass of the `while (!empty)` loop the cabinet
is empty, whatever the scripts of the routines being cleaned up do -/
theorem cleanup_one_sweep {s : State} (c : Cab s) (h : Inv s) :
    cabinetEmpty (sweep (markAll s).cells.length 0 (markAll s)) = true ∧
    Clean (sweep (markAll s).cells.length 0 (markAll s)) s.cells.length := by
  have h1 := markAll_clean c h
  have hl : (markAll s).cells.length = s.cells.length := h1.len
  have key := sweep_clean (markAll s).cells.length (p := 0) h1 (by omega) (fun q hq => absurd hq (Nat.not_lt_zero q))
  refine ⟨empty_of_none (fun q hq => key.2 q (by rw [key.1.len] at hq; exact hq)), key.1⟩

theorem sweepLoop_two {s : State} (he : cabinetEmpty (sweep s.cells.length 0 s) = true) :
    sweepLoop 2 s = s ∨ sweepLoop 2 s = sweep s.cells.length 0 s := by
  simp only [sweepLoop]
  split
  · exact Or.inl rfl
  · right; simp [he]

theorem all_freed_of_empty {s : State} (c : Cab s) (he : cabinetEmpty s = true) (r : Nat) (hr : r < s.n) :
    (s.R r).freed = true := by
  cases hf : (s.R r).freed
  · have := c.live r hr hf
    simp only [cabinetEmpty, List.all_eq_true] at he
    have hm := List.mem_of_getElem? this
    have := he _ hm
    simp at this
  · rfl

/-- `cleanup()` terminates after at most one sweep of the `while (!empty)` loop and leaves every
routine freed (deleted) -/
theorem cleanup_all_freed {s : State} (c : Cab s) (h : Inv s) :
    (∀ r, r < (cleanup s).n → ((cleanup s).R r).freed = true) ∧ (cleanup s).stuck = false ∧ Cab (cleanup s) := by
  have one := cleanup_one_sweep c h
  have h1 := markAll_clean c h
  have key : ∃ Y, sweepLoop 2 (markAll s) = Y ∧ Cab Y ∧ cabinetEmpty Y = true := by
    rcases sweepLoop_two one.1 with e | e
    · refine ⟨_, e, h1.cab, ?_⟩
      have := e
      simp only [sweepLoop] at this
      by_cases he : cabinetEmpty (markAll s) = true
      · exact he
      · simp only [he] at this
        -- the loop ran the sweep and returned it, and it equals `markAll s`
        simp [one.1] at this
        rw [← this]; exact one.1
    · exact ⟨_, e, one.2.cab, one.1⟩
  obtain ⟨Y, e, cY, eY⟩ := key
  have hfreed : ∀ r, r < Y.n → (Y.R r).freed = true := all_freed_of_empty cY eY
  unfold cleanup
  simp only [e]
  refine ⟨hfreed, cY.notStuck, ?_⟩
  constructor
  · intro r hr hf; have := hfreed r hr; simp only [State.R] at this hf; rw [this] at hf; cases hf
  · intro p r hp; simp at hp
  · intro p hp; cases hp
  · exact List.nodup_nil
  · exact cY.notStuck

theorem cleanup_cab {s : State} (c : Cab s) (h : Inv s) : Cab (cleanup s) := (cleanup_all_freed c h).2.2

theorem SameC.logMain {s X : State} (h : SameC s X) (op : Op) (res : Res) : SameC s (logMain X op res) :=
  h.trans ⟨rfl, rfl, rfl, rfl, rfl, fun _ => ⟨rfl, rfl, rfl⟩, fun _ h => h⟩

theorem SameC.abort {s X : State} (h : SameC s X) : SameC s (abort X) := h.trans (Woke.abort X).sameC

/-- a call from the main context never touches the cabinet -/
theorem mainCall_sameC (s : State) (op : Op) : SameC s (mainCall s op) := by
  cases op with
  | send c v =>
    simp only [mainCall]
    have := (SameC.refl s).wake (s.ch c).tokens (s.ch c).queue.isEmpty
    cases hw : wake s (s.ch c).tokens (s.ch c).queue.isEmpty with
    | mk s1 toks => rw [hw] at this; simp only []; exact (this.setCh _ _).logMain _ _
  | release k =>
    simp only [mainCall]
    have := (SameC.refl s).wake (s.sm k).tokens (decide ((s.sm k).count = 0))
    cases hw : wake s (s.sm k).tokens (decide ((s.sm k).count = 0)) with
    | mk s1 toks => rw [hw] at this; simp only []; exact (this.setSm _ _).logMain _ _
  | recv c => simp only [mainCall]; split
              · exact ((SameC.refl s).setCh _ _).logMain _ _
              · exact (SameC.refl s).abort
  | acquire k => simp only [mainCall]; split
                 · exact (SameC.refl s).abort
                 · exact ((SameC.refl s).setSm _ _).logMain _ _
  | post b => simp only [mainCall]; exact (((SameC.refl s).wakeAll _).setBc _ _).logMain _ _
  | cadd k v => simp only [mainCall]; exact ((SameC.refl s).setCd _ _).logMain _ _
  | cwait k => simp only [mainCall]; split
               · exact (SameC.refl s).logMain _ _
               · exact (SameC.refl s).abort
  | cpost k v =>
    simp only [mainCall]
    repeat' split
    all_goals first
      | exact (((SameC.refl s).resumeOpt _).setCd _ _).logMain _ _
      | exact ((SameC.refl s).setCd _ _).logMain _ _
      | exact (SameC.refl s).logMain _ _
  | yield => exact (SameC.refl s).abort
  | wait => exact (SameC.refl s).abort
  | lock m => exact (SameC.refl s).abort
  | unlock m => exact (SameC.refl s).abort
  | bwait b => exact (SameC.refl s).abort
  | join t => exact (SameC.refl s).abort
  | create d now => exact (SameC.refl s).abort
  | cancel t => exact (SameC.refl s).abort
  | resume t => exact (SameC.refl s).abort
  | exit => exact (SameC.refl s).abort
  | throw => exact (SameC.refl s).abort
  | rcleanup => exact (SameC.refl s).abort

theorem applyMain_cab {s : State} (op : MainOp) (c : Cab s) (h : Inv s) : Cab (applyMain s op) := by
  cases op with
  | call op => exact (mainCall_sameC s op).cab c
  | define xf ops => exact c.of_eq rfl rfl rfl rfl rfl
  | defineR ops => exact c.of_eq rfl rfl rfl rfl rfl
  | stack b => exact c.of_eq rfl rfl rfl rfl rfl
  | new d now => exact create_cab d now c
  | resume r => exact ((SameC.refl s).resume r).cab c
  | cancel r => exact ((SameC.refl s).cancelR r).cab c
  | cleanup => exact cleanup_cab c h
  | pass => exact c

theorem run_cab (ops : List MainOp) {s : State} (c : Cab s) (h : Inv s) (ht : s.tmp = []) : Cab (run s ops) := by
  induction ops generalizing s with
  | nil => exact c
  | cons op ops ih =>
    have h1 := step_inv op h ht
    refine ih ?_ h1.1 h1.2
    unfold step
    split
    · exact c
    · simp only []
      split
      · exact applyMain_cab op c h
      · exact loopPass_cab (applyMain_cab op c h)

theorem init_cab : Cab init := by
  constructor <;> simp [init, State.R]


/-! ### the trace only grows -/

@[simp] theorem finish_log (s : State) (me op rest res) :
    (finish s me op rest res).1.log = s.log ++ [{ r := me, op := op, res := res, canc := (s.R me).canceled }] := rfl
@[simp] theorem blockIn_log (s : State) (me op rest) : (blockIn s me op rest).1.log = s.log := rfl
@[simp] theorem resume_log (s : State) (t) : (resume s t).1.log = s.log := (Woke.resume s t).log
@[simp] theorem makeReady_log (s : State) (t) : (makeReady s t).1.log = s.log := by
  unfold makeReady; split <;> rfl
@[simp] theorem wakeAll_log (s : State) (ts) : (wakeAll s ts).log = s.log := (Woke.wakeAll s ts).log
@[simp] theorem tag_log (s : State) (t) : (tag s t).log = s.log := rfl
@[simp] theorem tagIf_log (s : State) (b t) : (tagIf s b t).log = s.log := (Woke.tagIf s b t).log
@[simp] theorem wake_log (s : State) (ts e) : (wake s ts e).1.log = s.log := by
  unfold wake
  simp only []
  split
  · simp
  · split
    · split <;> simp
    · simp
@[simp] theorem resumeOpt_log (s : State) (t) : (resumeOpt s t).log = s.log := by
  cases t <;> simp [resumeOpt]
@[simp] theorem cancelR_log (s : State) (t) : (cancelR s t).1.log = s.log := by
  unfold cancelR; split <;> simp [State.setR]
@[simp] theorem create_log (s : State) (d now) : (create s d now).log = s.log := by
  unfold create; split <;> simp [createCore]
@[simp] theorem setR_log (s : State) (r x) : (s.setR r x).log = s.log := rfl
@[simp] theorem setCh_log (s : State) (r x) : (s.setCh r x).log = s.log := rfl
@[simp] theorem setMx_log (s : State) (r x) : (s.setMx r x).log = s.log := rfl
@[simp] theorem setSm_log (s : State) (r x) : (s.setSm r x).log = s.log := rfl
@[simp] theorem setBc_log (s : State) (r x) : (s.setBc r x).log = s.log := rfl
@[simp] theorem setCd_log (s : State) (r x) : (s.setCd r x).log = s.log := rfl
@[simp] theorem waitBlock_log_prefix (s : State) (me op rest) : s.log <+: (waitBlock s me op rest).1.log := by
  unfold waitBlock; split <;> simp [blockIn]

@[simp] theorem abort_log (s : State) : (abort s).log = s.log := (Woke.abort s).log

theorem execOp_log (s : State) (me : Nat) (op : Op) (rest : List Op) : s.log <+: (execOp s me op rest).1.log := by
  cases op <;> simp only [execOp] <;> repeat' split
  all_goals first
    | simp
    | exact (by simpa using waitBlock_log_prefix _ _ _ _)
    | (refine List.IsPrefix.trans ?_ (waitBlock_log_prefix _ _ _ _); simp)

theorem unwindList_log (me : Nat) (ms : List Nat) (s : State) : s.log <+: (unwindList me ms s).log := by
  induction ms generalizing s with
  | nil => exact List.prefix_refl _
  | cons m ms ih => exact (execOp_log s me (.unlock m) []).trans (ih _)

theorem fin_log (s : State) (me : Nat) : s.log <+: (fin s me).log := by
  show s.log <+: (unwind s me).log
  unfold unwind
  split
  · exact unwindList_log _ _ _
  · exact List.prefix_refl _

theorem runOps_log (me : Nat) (ops : List Op) (s : State) : s.log <+: (runOps me ops s).log := by
  induction ops generalizing s with
  | nil => exact fin_log s me
  | cons op rest ih =>
    have key := execOp_log s me op rest
    simp only [runOps]
    split
    · rename_i s1 e; rw [e] at key; exact key.trans (ih s1)
    · rename_i s1 e; rw [e] at key; exact key
    · rename_i s1 e; rw [e] at key; exact key.trans (fin_log s1 me)

theorem switchTo_log (s : State) (r : Nat) : s.log <+: (switchTo s r).log := by
  unfold switchTo
  simp only []
  have := runOps_log r ((s.setR r { s.R r with state := .running, started := true }).R r).script
    (s.setR r { s.R r with state := .running, started := true })
  split
  · simpa [freeRoutine] using this
  · simpa using this

end Tbox.C18
