/-
C18 — scale (round 5).  The model keeps its tables (`rts`, `ch`, `mx`, `sm`, `bc`, `cd`) as functions updated by
`fun i => if i = r then x else old i`: after k updates a lookup walks k closures, so a case with 10^4 routines costs
10^8 steps and more.  `compact` re-tabulates every table into an `Array` (lookup O(1) below the bound, the old function
above it) and is PROVED to be the identity on states (`C18_compact_eq`); `runOpsC … stepC` are the model's `runOps …
step` with a `compact` every 64 operations / switches, PROVED equal to them (`C18_stepC_eq`).  The driver executes
`stepC`, i.e. the model itself.  Core Lean only: this file is linked into the driver.
-/
import TboxModel.C18.Model
namespace Tbox.C18

/-- `f`, read from the array `a` below its size -/
def tabA {α : Type} (a : Array α) (f : Nat → α) (i : Nat) : α :=
  if h : i < a.size then a[i] else f i

/-- `f`, read from an array below `n` (the array is built once, when `tab n f` is formed: `tabA` is applied partially) -/
def tab {α : Type} (n : Nat) (f : Nat → α) : Nat → α :=
  tabA (Array.ofFn (n := n) (fun i => f i.val)) f

theorem tab_eq {α : Type} (n : Nat) (f : Nat → α) : tab n f = f := by
  funext i
  simp only [tab, tabA]
  split
  · simp
  · rfl

theorem tabA_eq {α : Type} (n : Nat) (f : Nat → α) : tabA (Array.ofFn (n := n) (fun i => f i.val)) f = f := tab_eq n f

/-- every table re-tabulated: routines below `s.n`, primitives below `np`.  The arrays are built HERE (strict `let`s),
the new tables are partial applications of `tabA` to them. -/
def compact (np : Nat) (s : State) : State :=
  let n := s.n
  let r0 := s.rts; let c0 := s.ch; let m0 := s.mx; let s0 := s.sm; let b0 := s.bc; let d0 := s.cd
  let ar := Array.ofFn (n := n) (fun i => r0 i.val)
  let ac := Array.ofFn (n := np) (fun i => c0 i.val)
  let am := Array.ofFn (n := np) (fun i => m0 i.val)
  let as := Array.ofFn (n := np) (fun i => s0 i.val)
  let ab := Array.ofFn (n := np) (fun i => b0 i.val)
  let ad := Array.ofFn (n := np) (fun i => d0 i.val)
  { s with rts := tabA ar r0, ch := tabA ac c0, mx := tabA am m0, sm := tabA as s0, bc := tabA ab b0, cd := tabA ad d0 }

/-- **compaction is the identity** -/
theorem C18_compact_eq (np : Nat) (s : State) : compact np s = s := by
  simp only [compact, tabA_eq]

def every (k : Nat) : Bool := k % 64 == 63

def runOpsC (np me : Nat) : Nat → List Op → State → State
  | _, [], s => fin s me
  | k, op :: rest, s =>
      match execOp s me op rest with
      | (s1, .next) => runOpsC np me (k + 1) rest (if every k then compact np s1 else s1)
      | (s1, .block) => s1
      | (s1, .quit) => fin s1 me

theorem runOpsC_eq (np me : Nat) : ∀ (l : List Op) (k : Nat) (s : State), runOpsC np me k l s = runOps me l s
  | [], _, _ => rfl
  | op :: rest, k, s => by
      simp only [runOpsC, runOps]
      rcases h : execOp s me op rest with ⟨s1, c⟩
      cases c
      · simp only [runOpsC_eq np me rest]
        split <;> simp only [C18_compact_eq]
      · rfl
      · rfl

def switchToC (np : Nat) (s : State) (r : Nat) : State :=
  let s1 := s.setR r { s.R r with state := .running, started := true }
  let s2 := runOpsC np r 0 (s1.R r).script s1
  if (s2.R r).state = .dead then
    let s3 := freeRoutine s2 r
    resumeOpt s3 (s3.R r).joiner
  else s2

theorem switchToC_eq (np : Nat) (s : State) (r : Nat) : switchToC np s r = switchTo s r := by
  simp only [switchToC, switchTo, runOpsC_eq]

def drainC (np : Nat) : Nat → List Nat → State → State
  | _, [], s => s
  | k, t :: rest, s =>
      let s0 := { s with tmp := rest }
      let s1 := if alive s0 t then switchToC np s0 t else s0
      drainC np (k + 1) rest (if every k then compact np s1 else s1)

theorem drainC_eq (np : Nat) : ∀ (l : List Nat) (k : Nat) (s : State), drainC np k l s = drain l s
  | [], _, _ => rfl
  | t :: rest, k, s => by
      simp only [drainC, drain, switchToC_eq]
      rw [drainC_eq np rest]
      split <;> simp only [C18_compact_eq]

def scheduleC (np : Nat) (s : State) : State :=
  compact np (drainC np 0 s.readyq { s with readyq := [], tmp := s.readyq })

theorem scheduleC_eq (np : Nat) (s : State) : scheduleC np s = schedule s := by
  simp only [scheduleC, schedule, drainC_eq, C18_compact_eq]

def batchC (np : Nat) : Nat → State → State
  | 0, s => s
  | k + 1, s => batchC np k (scheduleC np s)

theorem batchC_eq (np : Nat) : ∀ (k : Nat) (s : State), batchC np k s = batch k s
  | 0, _ => rfl
  | k + 1, s => by simp only [batchC, batch, scheduleC_eq, batchC_eq np k]

def loopPassC (np : Nat) (s : State) : State := batchC np s.pend { s with pend := 0 }

def stepC (np : Nat) (s : State) (op : MainOp) : State :=
  if s.aborted then s else
    let s1 := compact np (applyMain s op)
    if s1.aborted then s1 else loopPassC np s1

/-- **the driver's step is the model's step** -/
theorem C18_stepC_eq (np : Nat) (s : State) (op : MainOp) : stepC np s op = step s op := by
  simp only [stepC, step, loopPassC, loopPass, batchC_eq, C18_compact_eq]

end Tbox.C18
