/-
C18 — helper lemmas: one script operation preserves the trace-level invariant `InvL`
(channel FIFO, mutex owners, semaphore accounting).
-/
import TboxModel.C18.ExecS
namespace Tbox.C18

theorem InvL.of_eq {s s' : State} (h : InvL s) (e1 : s'.log = s.log) (e2 : s'.ch = s.ch) (e3 : s'.mx = s.mx)
    (e4 : s'.sm = s.sm) : InvL s' := by
  constructor
  · rw [e1, e2]; exact h.fifo
  · rw [e1, e3]; exact h.owners
  · rw [e1, e4]; exact h.semCount
  · rw [e4]; exact h.semInit

def neutral (op : Op) (res : Res) : Bool :=
  match op, res with
  | .send _ _, _ => false
  | .recv _, .val _ => false
  | .lock _, .ok => false
  | .unlock _, _ => false
  | .acquire _, .ok => false
  | .release _, _ => false
  | _, _ => true

theorem sentOf_snoc (c : Nat) (log : List Ev) (e : Ev) :
    sentOf c (log ++ [e]) = sentOf c log ++ (match e.op with | .send c' v => if c' = c then [v] else [] | _ => []) := by
  unfold sentOf
  rw [List.filterMap_append]
  congr 1
  cases e with | mk r op res canc => cases op <;> simp [List.filterMap] <;> split <;> simp_all

theorem rcvdOf_snoc (c : Nat) (log : List Ev) (e : Ev) :
    rcvdOf c (log ++ [e]) = rcvdOf c log ++ (match e.op, e.res with | .recv c', .val v => if c' = c then [v] else [] | _, _ => []) := by
  unfold rcvdOf
  rw [List.filterMap_append]
  congr 1
  cases e with | mk r op res canc => cases op <;> cases res <;> simp [List.filterMap] <;> split <;> simp_all

theorem ownersOf_snoc (m : Nat) (log : List Ev) (e : Ev) : ownersOf m (log ++ [e]) = ownStep m (ownersOf m log) e := by
  simp [ownersOf, List.foldl_append]

theorem acqOf_snoc (k : Nat) (log : List Ev) (e : Ev) : acqOf k (log ++ [e]) = acqOf k log + (if isAcq k e then 1 else 0) := by
  simp [acqOf, List.countP_append, List.countP_cons]

theorem relOf_snoc (k : Nat) (log : List Ev) (e : Ev) : relOf k (log ++ [e]) = relOf k log + (if isRel k e then 1 else 0) := by
  simp [relOf, List.countP_append, List.countP_cons]

theorem finish_L_neutral {s : State} (me : Nat) (op : Op) (rest : List Op) (res : Res) (h : InvL s)
    (hn : neutral op res = true) : InvL (finish s me op rest res).1 := by
  constructor
  · intro c
    have := h.fifo c
    simp only [finish, State.setR, sentOf_snoc, rcvdOf_snoc]
    cases op <;> cases res <;> simp_all [neutral]
  · intro m
    have := h.owners m
    simp only [finish, State.setR, ownersOf_snoc, ownStep]
    cases op <;> cases res <;> simp_all [neutral]
  · intro k
    have := h.semCount k
    simp only [finish, State.setR, acqOf_snoc, relOf_snoc, isAcq, isRel]
    cases op <;> cases res <;> simp_all [neutral]
  · exact h.semInit

theorem blockIn_L {s : State} (me : Nat) (op : Op) (rest : List Op) (h : InvL s) : InvL (blockIn s me op rest).1 :=
  h.of_eq rfl rfl rfl rfl

theorem setR_L {s : State} (r : Nat) (x : Routine) (h : InvL s) : InvL (s.setR r x) := h.of_eq rfl rfl rfl rfl
theorem setBc_L {s : State} (r : Nat) (x : Bcast) (h : InvL s) : InvL (s.setBc r x) := h.of_eq rfl rfl rfl rfl
theorem setCd_L {s : State} (r : Nat) (x : Cond) (h : InvL s) : InvL (s.setCd r x) := h.of_eq rfl rfl rfl rfl

theorem waitBlock_L {s : State} (me : Nat) (op : Op) (rest : List Op) (h : InvL s) (hn : neutral op .fail = true) :
    InvL (waitBlock s me op rest).1 := by
  unfold waitBlock
  split
  · exact finish_L_neutral me op rest .fail h hn
  · exact blockIn_L me op rest (setR_L _ _ h)

theorem setCh_L {s : State} (c : Nat) (x : Chan) (h : InvL s) (hq : x.queue = (s.ch c).queue) : InvL (s.setCh c x) := by
  constructor
  · intro c'
    have := h.fifo c'
    simp only [State.setCh]
    split
    · rename_i e; subst e; rw [hq]; exact this
    · exact this
  · exact h.owners
  · exact h.semCount
  · exact h.semInit

theorem setMx_L {s : State} (c : Nat) (x : Mutex) (h : InvL s) (hq : x.hold = (s.mx c).hold) : InvL (s.setMx c x) := by
  constructor
  · exact h.fifo
  · intro c'
    have := h.owners c'
    simp only [State.setMx]
    split
    · rename_i e; subst e; rw [hq]; exact this
    · exact this
  · exact h.semCount
  · exact h.semInit

theorem setSm_L {s : State} (c : Nat) (x : Sem) (h : InvL s) (hq : x.count = (s.sm c).count) (hi : x.init = (s.sm c).init) :
    InvL (s.setSm c x) := by
  constructor
  · exact h.fifo
  · exact h.owners
  · intro c'
    have := h.semCount c'
    simp only [State.setSm]
    split
    · rename_i e; subst e; rw [hq, hi]; exact this
    · exact this
  · intro c'
    have := h.semInit c'
    simp only [State.setSm]
    split
    · rename_i e; subst e; rw [hi]; exact this
    · exact this

theorem cancelR_L {s : State} (t : Nat) (h : InvL s) : InvL (cancelR s t).1 := by
  unfold cancelR
  split
  · rename_i ha
    simp only [alive, Bool.and_eq_true, decide_eq_true_eq] at ha
    refine Woke.invL (Woke.makeReady _ t ?_) (setR_L _ _ h); exact ha.1
  · exact h

theorem create_L {s : State} (d : Nat) (now : Bool) (h : InvL s) : InvL (create s d now) := by
  have h1 : InvL (createCore s d) := h.of_eq rfl rfl rfl rfl
  unfold create
  split
  · refine Woke.invL (Woke.makeReady _ s.n ?_) h1; simp [createCore]
  · exact h1

/-- the six operations the trace-level invariant speaks about -/
theorem send_L {s s1 : State} (me c v : Nat) (rest : List Op) (toks : List Nat) (h : InvL s) (w : Woke s s1) :
    InvL (finish (s1.setCh c { queue := (s.ch c).queue ++ [v], tokens := toks }) me (.send c v) rest .ok).1 := by
  have h1 := w.invL h
  constructor
  · intro c'
    have := h1.fifo c'
    rw [w.ch] at this
    simp only [finish, State.setR, State.setCh, sentOf_snoc, rcvdOf_snoc]
    by_cases e : c = c'
    · subst e; simp [← this, List.append_assoc]
    · have e' : ¬ c' = c := fun x => e x.symm
      simp [e, e', this, w.ch]
  · intro m; have := h1.owners m
    simpa [finish, State.setR, State.setCh, ownersOf_snoc, ownStep] using this
  · intro k; have := h1.semCount k
    simpa [finish, State.setR, State.setCh, acqOf_snoc, relOf_snoc, isAcq, isRel] using this
  · intro k; have := h1.semInit k
    simpa [finish, State.setR, State.setCh] using this

theorem recv_L {s : State} (me c v : Nat) (q : List Nat) (rest : List Op) (h : InvL s) (hq : (s.ch c).queue = v :: q) :
    InvL (finish (s.setCh c { s.ch c with queue := q }) me (.recv c) rest (.val v)).1 := by
  constructor
  · intro c'
    have := h.fifo c'
    simp only [finish, State.setR, State.setCh, sentOf_snoc, rcvdOf_snoc]
    by_cases e : c = c'
    · subst e; rw [hq] at this; simp [← this]
    · have e' : ¬ c' = c := fun x => e x.symm
      simp [e, e', this]
  · intro m; have := h.owners m
    simpa [finish, State.setR, State.setCh, ownersOf_snoc, ownStep] using this
  · intro k; have := h.semCount k
    simpa [finish, State.setR, State.setCh, acqOf_snoc, relOf_snoc, isAcq, isRel] using this
  · intro k; have := h.semInit k
    simpa [finish, State.setR, State.setCh] using this

theorem lock_L {s : State} (me m : Nat) (rest : List Op) (x : Mutex) (h : InvL s) (hx : x.hold = some me)
    (hq : (s.mx m).hold = none ∨ (s.mx m).hold = some me) :
    InvL (finish (s.setMx m x) me (.lock m) rest .ok).1 := by
  constructor
  · intro c; have := h.fifo c
    simpa [finish, State.setR, State.setMx, sentOf_snoc, rcvdOf_snoc] using this
  · intro m'
    have := h.owners m'
    simp only [finish, State.setR, State.setMx, ownersOf_snoc, ownStep]
    by_cases e : m = m'
    · subst e
      rcases hq with hq | hq <;> rw [hq] at this <;> simp [this, hx]
    · have e' : ¬ m' = m := fun x => e x.symm
      simp [e, e', this]
  · intro k; have := h.semCount k
    simpa [finish, State.setR, State.setMx, acqOf_snoc, relOf_snoc, isAcq, isRel] using this
  · intro k; have := h.semInit k
    simpa [finish, State.setR, State.setMx] using this

theorem lock_same_L {s : State} (me m : Nat) (rest : List Op) (h : InvL s) (hq : (s.mx m).hold = some me) :
    InvL (finish s me (.lock m) rest .ok).1 := by
  have := lock_L me m rest (s.mx m) h hq (Or.inr hq)
  have e : s.setMx m (s.mx m) = s := by
    simp only [State.setMx]
    have : (fun i => if i = m then s.mx m else s.mx i) = s.mx := by funext i; split <;> simp_all
    rw [this]
  rwa [e] at this

theorem unlock_L {s s1 : State} (me m : Nat) (rest : List Op) (toks : List Nat) (h : InvL s) (w : Woke s s1)
    (hq : (s.mx m).hold = some me) :
    InvL (finish (s1.setMx m { hold := none, waiters := toks }) me (.unlock m) rest .ok).1 := by
  have h1 := w.invL h
  constructor
  · intro c; have := h1.fifo c
    simpa [finish, State.setR, State.setMx, sentOf_snoc, rcvdOf_snoc] using this
  · intro m'
    have := h1.owners m'
    rw [w.mx] at this
    simp only [finish, State.setR, State.setMx, ownersOf_snoc, ownStep]
    by_cases e : m = m'
    · subst e; rw [hq] at this; simp [this]
    · have e' : ¬ m' = m := fun x => e x.symm
      simp [e, e', this, w.mx]
  · intro k; have := h1.semCount k
    simpa [finish, State.setR, State.setMx, acqOf_snoc, relOf_snoc, isAcq, isRel] using this
  · intro k; have := h1.semInit k
    simpa [finish, State.setR, State.setMx] using this

theorem unlock_other_L {s : State} (me m : Nat) (rest : List Op) (h : InvL s) (hq : (s.mx m).hold ≠ some me) :
    InvL (finish s me (.unlock m) rest .ok).1 := by
  constructor
  · intro c; have := h.fifo c
    simpa [finish, State.setR, sentOf_snoc, rcvdOf_snoc] using this
  · intro m'
    have := h.owners m'
    simp only [finish, State.setR, ownersOf_snoc, ownStep]
    by_cases e : m = m'
    · subst e
      simp only [ite_true, this]
      cases hh : (s.mx m).hold with
      | none => simp
      | some x =>
        rw [hh] at hq
        have : x ≠ me := fun e => hq (by rw [e])
        simp [this]
    · simp [e, this]
  · intro k; have := h.semCount k
    simpa [finish, State.setR, acqOf_snoc, relOf_snoc, isAcq, isRel] using this
  · intro k; have := h.semInit k
    simpa [finish, State.setR] using this

theorem acquire_L {s : State} (me k : Nat) (rest : List Op) (h : InvL s) (hq : (s.sm k).count ≠ 0) :
    InvL (finish (s.setSm k { s.sm k with count := (s.sm k).count - 1 }) me (.acquire k) rest .ok).1 := by
  constructor
  · intro c; have := h.fifo c
    simpa [finish, State.setR, State.setSm, sentOf_snoc, rcvdOf_snoc] using this
  · intro m; have := h.owners m
    simpa [finish, State.setR, State.setSm, ownersOf_snoc, ownStep] using this
  · intro k'
    have := h.semCount k'
    simp only [finish, State.setR, State.setSm, acqOf_snoc, relOf_snoc, isAcq, isRel]
    by_cases e : k = k'
    · subst e; simp; omega
    · have e' : ¬ k' = k := fun x => e x.symm
      simp [e, e', this]
  · intro k'
    have := h.semInit k'
    simp only [finish, State.setR, State.setSm]
    split
    · rename_i e; subst e; exact this
    · exact this

theorem release_L {s s1 : State} (me k : Nat) (rest : List Op) (toks : List Nat) (h : InvL s) (w : Woke s s1) :
    InvL (finish (s1.setSm k { s.sm k with count := (s.sm k).count + 1, tokens := toks }) me (.release k) rest .ok).1 := by
  have h1 := w.invL h
  constructor
  · intro c; have := h1.fifo c
    simpa [finish, State.setR, State.setSm, sentOf_snoc, rcvdOf_snoc] using this
  · intro m; have := h1.owners m
    simpa [finish, State.setR, State.setSm, ownersOf_snoc, ownStep] using this
  · intro k'
    have := h1.semCount k'
    rw [w.sm] at this
    simp only [finish, State.setR, State.setSm, acqOf_snoc, relOf_snoc, isAcq, isRel]
    by_cases e : k = k'
    · subst e; simp; omega
    · have e' : ¬ k' = k := fun x => e x.symm
      simp [e, e', this, w.sm]
  · intro k'
    have := h1.semInit k'
    rw [w.sm] at this
    simp only [finish, State.setR, State.setSm]
    split
    · rename_i e; subst e; exact this
    · rw [w.sm]; exact this

end Tbox.C18
