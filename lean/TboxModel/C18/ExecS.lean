/-
C18 — helper lemmas: one script operation (`execOp`) preserves the structural invariant.
-/
import TboxModel.C18.Local
namespace Tbox.C18

theorem susp_alive {s : State} (h : InvS s) {r : Nat} {op : Op} (hs : susp s r op) : alive s r = true := by
  have h1 := (h.inOpOk r hs.2.1).2
  have h2 := h.freedDead r
  have h3 := hs.1
  simp only [alive, Bool.and_eq_true, decide_eq_true_eq, Bool.not_eq_true']
  refine ⟨h1, ?_⟩
  cases hf : (s.R r).freed
  · rfl
  · rw [h2 hf] at h3; cases h3

theorem alive_tagIf (s : State) (b : Bool) (t : String) (r : Nat) : alive (tagIf s b t) r = alive s r := by
  unfold tagIf; split <;> rfl

theorem wake_fixed {s : State} (ts : List Nat) (edge : Bool) (h : InvS s) :
    ∃ s1, wake s ts edge = (s1, []) ∧ Woke s s1 ∧ ∀ r ∈ ts, alive s r = true → (s1.R r).state ≠ .suspend := by
  have w0 : Woke s (tagIf (tagIf s (decide (2 ≤ ts.length)) "wake2") (!ts.isEmpty && !edge) "nonedge") :=
    (Woke.tagIf _ _ _).trans (Woke.tagIf _ _ _)
  refine ⟨wakeAll (tagIf (tagIf s (decide (2 ≤ ts.length)) "wake2") (!ts.isEmpty && !edge) "nonedge") ts, ?_,
    w0.trans (Woke.wakeAll _ _), ?_⟩
  · unfold wake
    have : (tagIf (tagIf s (decide (2 ≤ ts.length)) "wake2") (!ts.isEmpty && !edge) "nonedge").fixed = true := by
      rw [w0.fixed]; exact h.fixed
    simp only [this, ite_true]
  · intro r hr ha
    apply wakeAll_wakes _ ts r hr
    rw [alive_tagIf, alive_tagIf]; exact ha

theorem no_susp_after {s s1 : State} {op : Op} (h : InvS s) (w : Woke s s1) (ts : List Nat)
    (hw : ∀ r ∈ ts, alive s r = true → (s1.R r).state ≠ .suspend) (hreg : ∀ r, susp s r op → r ∈ ts) :
    ∀ r, ¬ susp s1 r op := by
  intro r hs1
  have hs := w.susp hs1
  exact hw r (hreg r hs) (susp_alive h hs) hs1.1

theorem resume_wakes (s : State) (t : Nat) (ha : alive s t = true) : ((resume s t).1.R t).state ≠ .suspend :=
  wakeAll_wakes s [t] t (by simp) ha

/-- result of a step that did not switch out keeps `me` running -/
def Post (p : State × Ctl) (me : Nat) : Prop := InvS p.1 ∧ (p.2 ≠ .block → Run p.1 me)

theorem post_finish {s : State} {me : Nat} (op : Op) (rest : List Op) (res : Res) (h : InvS s) (hr : Run s me) :
    Post (finish s me op rest res) me :=
  ⟨(finish_S op rest res h hr).1, fun _ => (finish_S op rest res h hr).2⟩

theorem post_block {p : State × Ctl} {me : Nat} (h : InvS p.1) (hb : p.2 = .block) : Post p me :=
  ⟨h, fun hc => absurd hb hc⟩

theorem run_setCh {s : State} {me : Nat} (c : Nat) (x : Chan) (h : Run s me) : Run (s.setCh c x) me := ⟨h.lt, h.st, h.nf, h.started⟩
theorem run_setMx {s : State} {me : Nat} (c : Nat) (x : Mutex) (h : Run s me) : Run (s.setMx c x) me := ⟨h.lt, h.st, h.nf, h.started⟩
theorem run_setSm {s : State} {me : Nat} (c : Nat) (x : Sem) (h : Run s me) : Run (s.setSm c x) me := ⟨h.lt, h.st, h.nf, h.started⟩
theorem run_setBc {s : State} {me : Nat} (c : Nat) (x : Bcast) (h : Run s me) : Run (s.setBc c x) me := ⟨h.lt, h.st, h.nf, h.started⟩
theorem run_setCd {s : State} {me : Nat} (c : Nat) (x : Cond) (h : Run s me) : Run (s.setCd c x) me := ⟨h.lt, h.st, h.nf, h.started⟩

theorem post_waitBlock {s : State} {me : Nat} (op : Op) (rest : List Op) (h : InvS s) (hr : Run s me) (hreg : RegOK s me op) :
    Post (waitBlock s me op rest) me := waitBlock_S op rest h hr hreg

theorem execOp_S {s : State} {me : Nat} (op : Op) (rest : List Op) (h : InvS s) (hr : Run s me) :
    Post (execOp s me op rest) me := by
  have hfix := h.fixed
  cases op with
  | yield =>
    simp only [execOp]
    split
    · exact post_finish _ _ _ h hr
    · split
      · exact post_finish _ _ _ h hr
      · have w := Woke.makeReady s me hr.lt
        exact post_block (blockIn_S _ _ (w.invS h) (w.run hr)) rfl
  | wait =>
    simp only [execOp]
    split
    · exact post_finish _ _ _ h hr
    · split
      · exact post_finish _ _ _ h hr
      · exact post_block (block_S _ _ h hr trivial) rfl
  | send c v =>
    simp only [execOp]
    obtain ⟨s1, e1, w, hw⟩ := wake_fixed (s.ch c).tokens (s.ch c).queue.isEmpty h
    rw [e1]
    have hn := no_susp_after (op := .recv c) h w _ hw (fun r hs => h.chReg r c hs)
    exact post_finish _ _ _ (setCh_S c _ (w.invS h) (fun hne => absurd rfl hne) (fun r hs => absurd hs (hn r)))
      (run_setCh _ _ (w.run hr))
  | recv c =>
    simp only [execOp]
    split
    · exact post_finish _ _ _ ((Woke.tag s _).invS h) ((Woke.tag s _).run hr)
    · split
      · rename_i v q hq
        refine post_finish _ _ _ (setCh_S c _ h ?_ ?_) (run_setCh _ _ hr)
        · intro hne; have := h.chAvail c hne; rw [hq] at this; cases this
        · intro r hs; exact h.chReg r c hs
      · rename_i hq
        split
        · rename_i hc; simp [hfix] at hc
        · have w := Woke.tagIf (s.setCh c { s.ch c with tokens := (s.ch c).tokens ++ [me] }) (s.R me).inOp "rewait"
          have h1 : InvS (s.setCh c { s.ch c with tokens := (s.ch c).tokens ++ [me] }) :=
            setCh_S c _ h (fun _ => hq) (fun r hs => List.mem_append_left _ (h.chReg r c hs))
          refine post_waitBlock _ _ (w.invS h1) (w.run (run_setCh _ _ hr)) ?_
          simp only [RegOK, w.ch]; simp [State.setCh]
  | lock m =>
    simp only [execOp]
    split
    · exact post_finish _ _ _ ((Woke.tag s _).invS h) ((Woke.tag s _).run hr)
    · split
      · rename_i hq
        refine post_finish _ _ _ (setMx_S m _ h ?_ ?_) (run_setMx _ _ hr)
        · intro _; simp
        · intro r hs; exact h.mxReg r m hs
      · rename_i hh hq
        split
        · exact post_finish _ _ _ h hr
        · split
          · rename_i hc; simp [hfix] at hc
          · have w := Woke.tagIf (s.setMx m { s.mx m with waiters := (s.mx m).waiters ++ [me] }) (s.R me).inOp "rewait"
            have h1 : InvS (s.setMx m { s.mx m with waiters := (s.mx m).waiters ++ [me] }) :=
              setMx_S m _ h (fun _ => by simp [hq]) (fun r hs => List.mem_append_left _ (h.mxReg r m hs))
            refine post_waitBlock _ _ (w.invS h1) (w.run (run_setMx _ _ hr)) ?_
            simp only [RegOK, w.mx]; simp [State.setMx]
  | unlock m =>
    simp only [execOp]
    split
    · obtain ⟨s1, e1, w, hw⟩ := wake_fixed (s.mx m).waiters true h
      rw [e1]
      have hn := no_susp_after (op := .lock m) h w _ hw (fun r hs => h.mxReg r m hs)
      exact post_finish _ _ _ (setMx_S m _ (w.invS h) (fun hne => absurd rfl hne) (fun r hs => absurd hs (hn r)))
        (run_setMx _ _ (w.run hr))
    · exact post_finish _ _ _ h hr
  | acquire k =>
    simp only [execOp]
    split
    · exact post_finish _ _ _ ((Woke.tag s _).invS h) ((Woke.tag s _).run hr)
    · split
      · rename_i hq
        split
        · rename_i hc; simp [hfix] at hc
        · have w := Woke.tagIf (s.setSm k { s.sm k with tokens := (s.sm k).tokens ++ [me] }) (s.R me).inOp "rewait"
          have h1 : InvS (s.setSm k { s.sm k with tokens := (s.sm k).tokens ++ [me] }) :=
            setSm_S k _ h (fun _ => hq) (fun r hs => List.mem_append_left _ (h.smReg r k hs))
          refine post_waitBlock _ _ (w.invS h1) (w.run (run_setSm _ _ hr)) ?_
          simp only [RegOK, w.sm]; simp [State.setSm]
      · rename_i hq
        refine post_finish _ _ _ (setSm_S k _ h ?_ ?_) (run_setSm _ _ hr)
        · intro hne; have := h.smAvail k hne; exact absurd this hq
        · intro r hs; exact h.smReg r k hs
  | release k =>
    simp only [execOp]
    obtain ⟨s1, e1, w, hw⟩ := wake_fixed (s.sm k).tokens (decide ((s.sm k).count = 0)) h
    rw [e1]
    have hn := no_susp_after (op := .acquire k) h w _ hw (fun r hs => h.smReg r k hs)
    exact post_finish _ _ _ (setSm_S k _ (w.invS h) (fun hne => absurd rfl hne) (fun r hs => absurd hs (hn r)))
      (run_setSm _ _ (w.run hr))
  | post b =>
    simp only [execOp]
    have w := Woke.wakeAll s (s.bc b).tokens
    have hn := no_susp_after (op := .bwait b) h w _ (fun r hr' ha => wakeAll_wakes s _ r hr' ha) (fun r hs => (h.bcReg r b hs).1)
    exact post_finish _ _ _ (setBc_S b _ (w.invS h) (fun r hs => absurd hs (hn r))) (run_setBc _ _ (w.run hr))
  | bwait b =>
    simp only [execOp]
    split
    · exact post_finish _ _ _ h hr
    · have h1 : InvS (s.setBc b { s.bc b with tokens := (s.bc b).tokens ++ [me] }) :=
        setBc_S b _ h (fun r hs => ⟨List.mem_append_left _ (h.bcReg r b hs).1, (h.bcReg r b hs).2⟩)
      have h2 := setWepoch_S (s := s.setBc b { s.bc b with tokens := (s.bc b).tokens ++ [me] }) (me := me) (s.bc b).epoch h1 (run_setBc _ _ hr)
      refine post_waitBlock _ _ h2.1 h2.2 ?_
      simp [RegOK, State.setBc, State.setR, State.R]
  | cadd k v =>
    simp only [execOp]
    refine post_finish _ _ _ (setCd_S k _ h (fun r hs => ⟨(h.cdReg r k hs).1, ?_⟩)) (run_setCd _ _ hr)
    have := (h.cdReg r k hs).2
    simp only [condInsert]
    split
    · exact this
    · simp
  | cwait k =>
    simp only [execOp, hfix, ite_true]
    split
    · split
      · rename_i htok
        -- `me` owns the registration and is running: nobody is suspended in this wait
        have hno : ∀ r, ¬ susp s r (.cwait k) := fun r hs => by
          have := (h.cdReg r k hs).1; rw [htok] at this; cases this; exact hr.st hs.1
        exact post_finish _ _ _ (setCd_S k _ h (fun r hs => absurd hs (hno r))) (run_setCd _ _ hr)
      · exact post_finish _ _ _ h hr
    · split
      · exact post_finish _ _ _ h hr
      · rename_i hc
        have hnone : (s.cd k).tok = none := by
          cases ht : (s.cd k).tok with
          | none => rfl
          | some x => simp [ht] at hc
        have hne : (s.cd k).conds ≠ [] := by
          intro e; apply hc; right; rw [e]; rfl
        have hno : ∀ r, ¬ susp s r (.cwait k) := fun r hs => by have := (h.cdReg r k hs).1; rw [hnone] at this; cases this
        split
        · exact post_finish _ _ _ (setCd_S k _ h (fun r hs => absurd hs (hno r))) (run_setCd _ _ hr)
        · have h1 : InvS (s.setCd k { s.cd k with tok := some me }) := setCd_S k _ h (fun r hs => absurd hs (hno r))
          refine post_block (block_S (s := s.setCd k { s.cd k with tok := some me }) _ _ h1 (run_setCd _ _ hr) ?_) rfl
          simp [RegOK, State.setCd, hne]
  | cpost k v =>
    simp only [execOp]
    have key : ∃ s1, resumeOpt s (s.cd k).tok = s1 ∧ Woke s s1 ∧
        ∀ r, ¬ susp s1 r (.cwait k) := by
      cases ht : (s.cd k).tok with
      | none =>
        refine ⟨s, rfl, Woke.refl s, ?_⟩
        intro r hs; have := (h.cdReg r k hs).1; rw [ht] at this; cases this
      | some t =>
        refine ⟨(resume s t).1, rfl, Woke.resume s t, ?_⟩
        intro r hs1
        have hs := (Woke.resume s t).susp hs1
        have := (h.cdReg r k hs).1
        rw [ht] at this
        cases this
        exact resume_wakes s t (susp_alive h hs) hs1.1
    obtain ⟨s1, e1, w, hno⟩ := key
    rw [e1]
    have A := fun x => post_finish (.cpost k v) rest .ok (setCd_S k x (w.invS h) (fun r hs => absurd hs (hno r))) (run_setCd k x (w.run hr))
    have B := fun x (hx : x.tok = (s.cd k).tok) (hc : x.conds ≠ []) =>
      post_finish (.cpost k v) rest .ok (setCd_S k x h (fun r hs => ⟨hx ▸ (h.cdReg r k hs).1, hc⟩)) (run_setCd k x hr)
    split
    · cases hall : (s.cd k).all <;> simp only [ite_true, Bool.false_eq_true, ite_false, List.isEmpty_nil]
      · exact A _
      · split
        · exact A _
        · rename_i hne
          exact B _ rfl (by intro e; apply hne; have e2 : (s.cd k).conds.erase v = [] := e; rw [e2]; rfl)
    · exact post_finish _ _ _ h hr
  | join t =>
    simp only [execOp]
    split
    · exact post_finish _ _ _ h hr
    · split
      · exact post_finish _ _ _ h hr
      · split
        · rename_i ha
          split
          · exact post_finish _ _ _ h hr
          · split
            · exact post_finish _ _ _ h hr
            · rename_i hj
              have hjn : (s.R t).joiner = none := by
                cases hx : (s.R t).joiner with
                | none => rfl
                | some x => simp [hx] at hj
              simp only [alive, Bool.and_eq_true, decide_eq_true_eq, Bool.not_eq_true'] at ha
              have h1 := setJoiner_S (me := me) h hr hjn ha.1
              refine post_block (block_S _ _ h1.1 h1.2 ?_) rfl
              simp only [RegOK, State.R, State.setR]
              left
              simp only [State.R] at ha
              simp [ha.1, ha.2]
        · exact post_finish _ _ _ h hr
  | create d now =>
    simp only [execOp]
    split
    · exact post_finish _ _ _ h hr
    · exact post_finish _ _ _ (create_S d now h) (create_run d now hr)
  | cancel t =>
    simp only [execOp]
    exact post_finish _ _ _ (cancelR_S t h) (cancelR_run t hr)
  | resume t =>
    simp only [execOp]
    exact post_finish _ _ _ ((Woke.resume s t).invS h) ((Woke.resume s t).run hr)
  | exit =>
    simp only [execOp]
    exact ⟨h, fun _ => hr⟩
  | throw =>
    simp only [execOp]
    exact ⟨(Woke.abort s).invS h, fun _ => (Woke.abort s).run hr⟩
  | rcleanup =>
    simp only [execOp]
    exact ⟨(Woke.abort s).invS h, fun _ => (Woke.abort s).run hr⟩

end Tbox.C18
