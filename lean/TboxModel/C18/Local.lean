/-
C18 — helper lemmas: every elementary state update made by a running routine preserves the
structural invariant `InvS`.
-/
import TboxModel.C18.Woke
namespace Tbox.C18

/-- `me` is the routine the scheduler has switched to -/
structure Run (s : State) (me : Nat) : Prop where
  lt : me < s.n
  st : (s.R me).state ≠ .suspend
  nf : (s.R me).freed = false
  started : (s.R me).started = true

theorem Woke.run {s s' : State} (w : Woke s s') {me : Nat} (h : Run s me) : Run s' me := by
  have F := w.fields me
  refine ⟨by rw [w.n]; exact h.lt, ?_, by rw [F.2.2.2.2.1]; exact h.nf, by rw [F.2.2.2.2.2.1]; exact h.started⟩
  intro hs
  have := w.state_suspend me hs
  rw [this] at hs; exact h.st hs

/-- registration required before `me` may suspend inside `op` -/
def RegOK (s : State) (me : Nat) : Op → Prop
  | .recv c => me ∈ (s.ch c).tokens
  | .lock m => me ∈ (s.mx m).waiters
  | .acquire k => me ∈ (s.sm k).tokens
  | .bwait b => me ∈ (s.bc b).tokens ∧ (s.R me).wepoch = (s.bc b).epoch
  | .cwait k => (s.cd k).tok = some me ∧ (s.cd k).conds ≠ []
  | .join t => ((s.R t).joiner = some me ∧ (s.R t).freed = false ∧ t < s.n) ∨ (s.R me).canceled = true
  | _ => True

macro "crunch" : tactic => `(tactic| (simp only [susp, finish, blockIn, State.R, State.setR, State.setCh, State.setMx,
  State.setSm, State.setBc, State.setCd, tag, RegOK, die, freeRoutine, alive, markAll] at *; grind))

/-- template: prove `InvS s'` clause by clause from `h : InvS s` -/
macro "invS_from" h:ident : tactic => `(tactic| (
  constructor
  · first | exact ($h).fixed | (have := ($h).fixed; crunch)
  · first | exact ($h).chAvail | (intro c hs; have := ($h).chAvail c; crunch)
  · intro r c hs; have := ($h).chReg r c; crunch
  · first | exact ($h).mxAvail | (intro c hs; have := ($h).mxAvail c; crunch)
  · intro r c hs; have := ($h).mxReg r c; crunch
  · first | exact ($h).smAvail | (intro c hs; have := ($h).smAvail c; crunch)
  · intro r c hs; have := ($h).smReg r c; crunch
  · intro r c hs; have := ($h).bcReg r c; crunch
  · intro r c hs; have := ($h).cdReg r c; crunch
  · intro r t hs; have := ($h).joinReg r t; have := ($h).inOpOk r; have := ($h).freedDead r; crunch
  · intro r hf; have := ($h).freedDead r; crunch
  · intro r hf; have := ($h).inOpOk r; crunch
  · intro r hf; have := ($h).outside r; crunch
  · intro r hf; have := ($h).ready r; crunch))

theorem finish_S {s : State} {me : Nat} (op : Op) (rest : List Op) (res : Res) (h : InvS s) (hr : Run s me) :
    InvS (finish s me op rest res).1 ∧ Run (finish s me op rest res).1 me := by
  have hst := hr.st; have hlt := hr.lt; have hnf := hr.nf; have hsd := hr.started
  refine ⟨?_, ?_⟩
  · invS_from h
  · constructor <;> crunch

theorem block_S {s : State} {me : Nat} (op : Op) (rest : List Op) (h : InvS s) (hr : Run s me) (hreg : RegOK s me op) :
    InvS (blockIn (s.setR me { s.R me with state := .suspend }) me op rest).1 := by
  have hst := hr.st; have hlt := hr.lt; have hnf := hr.nf; have hsd := hr.started
  invS_from h

/-- switching out without suspending (`yield`) -/
theorem blockIn_S {s : State} {me : Nat} (op : Op) (rest : List Op) (h : InvS s) (hr : Run s me) :
    InvS (blockIn s me op rest).1 := by
  have hst := hr.st; have hlt := hr.lt; have hnf := hr.nf; have hsd := hr.started
  invS_from h

theorem waitBlock_S {s : State} {me : Nat} (op : Op) (rest : List Op) (h : InvS s) (hr : Run s me) (hreg : RegOK s me op) :
    InvS (waitBlock s me op rest).1 ∧ ((waitBlock s me op rest).2 ≠ .block → Run (waitBlock s me op rest).1 me) := by
  unfold waitBlock
  split
  · exact ⟨(finish_S op rest .fail h hr).1, fun _ => (finish_S op rest .fail h hr).2⟩
  · exact ⟨block_S op rest h hr hreg, fun hc => absurd rfl hc⟩

theorem die_S {s : State} {me : Nat} (h : InvS s) (hr : Run s me) : InvS (die s me) := by
  have hst := hr.st; have hlt := hr.lt; have hnf := hr.nf; have hsd := hr.started
  invS_from h

theorem setCh_S {s : State} (c : Nat) (x : Chan) (h : InvS s) (ha : x.tokens ≠ [] → x.queue = [])
    (hreg : ∀ r, susp s r (.recv c) → r ∈ x.tokens) : InvS (s.setCh c x) := by
  invS_from h

theorem setMx_S {s : State} (c : Nat) (x : Mutex) (h : InvS s) (ha : x.waiters ≠ [] → x.hold ≠ none)
    (hreg : ∀ r, susp s r (.lock c) → r ∈ x.waiters) : InvS (s.setMx c x) := by
  invS_from h

theorem setSm_S {s : State} (c : Nat) (x : Sem) (h : InvS s) (ha : x.tokens ≠ [] → x.count = 0)
    (hreg : ∀ r, susp s r (.acquire c) → r ∈ x.tokens) : InvS (s.setSm c x) := by
  invS_from h

theorem setBc_S {s : State} (c : Nat) (x : Bcast) (h : InvS s)
    (hreg : ∀ r, susp s r (.bwait c) → r ∈ x.tokens ∧ (s.R r).wepoch = x.epoch) : InvS (s.setBc c x) := by
  invS_from h

theorem setCd_S {s : State} (c : Nat) (x : Cond) (h : InvS s)
    (hreg : ∀ r, susp s r (.cwait c) → x.tok = some r ∧ x.conds ≠ []) : InvS (s.setCd c x) := by
  invS_from h

theorem setWepoch_S {s : State} {me : Nat} (e : Nat) (h : InvS s) (hr : Run s me) :
    InvS (s.setR me { s.R me with wepoch := e }) ∧ Run (s.setR me { s.R me with wepoch := e }) me := by
  have hst := hr.st; have hlt := hr.lt; have hnf := hr.nf; have hsd := hr.started
  refine ⟨?_, ?_⟩
  · invS_from h
  · constructor <;> crunch

theorem setJoiner_S {s : State} {me t : Nat} (h : InvS s) (hr : Run s me) (hj : (s.R t).joiner = none) (ht : t < s.n) :
    InvS (s.setR t { s.R t with joiner := some me }) ∧ Run (s.setR t { s.R t with joiner := some me }) me := by
  have hst := hr.st; have hlt := hr.lt; have hnf := hr.nf; have hsd := hr.started
  refine ⟨?_, ?_⟩
  · invS_from h
  · constructor <;> crunch

theorem setCanceled_S {s : State} (t : Nat) (h : InvS s) : InvS (s.setR t { s.R t with canceled := true }) := by
  invS_from h

theorem setCanceled_run {s : State} {me : Nat} (t : Nat) (hr : Run s me) : Run (s.setR t { s.R t with canceled := true }) me := by
  have hst := hr.st; have hlt := hr.lt; have hnf := hr.nf; have hsd := hr.started
  constructor <;> crunch

theorem cancelR_S {s : State} (t : Nat) (h : InvS s) : InvS (cancelR s t).1 := by
  unfold cancelR
  split
  · rename_i ha
    simp only [alive, Bool.and_eq_true, decide_eq_true_eq] at ha
    refine Woke.invS (Woke.makeReady _ t ?_) (setCanceled_S t h); exact ha.1
  · exact h

theorem cancelR_run {s : State} {me : Nat} (t : Nat) (hr : Run s me) : Run (cancelR s t).1 me := by
  unfold cancelR
  split
  · rename_i ha
    simp only [alive, Bool.and_eq_true, decide_eq_true_eq] at ha
    refine Woke.run (Woke.makeReady _ t ?_) (setCanceled_run t hr); exact ha.1
  · exact hr

theorem createCore_S {s : State} (d : Nat) (h : InvS s) : InvS (createCore s d) := by
  have ho := h.outside s.n (Nat.le_refl _)
  have hi := h.inOpOk s.n
  unfold createCore
  constructor
  · exact h.fixed
  · exact h.chAvail
  · intro r c hs; have := h.chReg r c; crunch
  · exact h.mxAvail
  · intro r c hs; have := h.mxReg r c; crunch
  · exact h.smAvail
  · intro r c hs; have := h.smReg r c; crunch
  · intro r c hs; have := h.bcReg r c; crunch
  · intro r c hs; have := h.cdReg r c; crunch
  · intro r t hs; have := h.joinReg r t; crunch
  · intro r hf; have := h.freedDead r; crunch
  · intro r hf; have := h.inOpOk r; crunch
  · intro r hf; have := h.outside r; crunch
  · intro r hf; have := h.ready r; crunch

theorem createCore_run {s : State} {me : Nat} (d : Nat) (hr : Run s me) : Run (createCore s d) me := by
  have hst := hr.st; have hlt := hr.lt; have hnf := hr.nf; have hsd := hr.started
  unfold createCore
  constructor <;> crunch

theorem create_S {s : State} (d : Nat) (now : Bool) (h : InvS s) : InvS (create s d now) := by
  unfold create
  split
  · refine Woke.invS (Woke.makeReady _ s.n ?_) (createCore_S d h); simp [createCore]
  · exact createCore_S d h

theorem create_run {s : State} {me : Nat} (d : Nat) (now : Bool) (hr : Run s me) : Run (create s d now) me := by
  unfold create
  split
  · refine Woke.run (Woke.makeReady _ s.n ?_) (createCore_run d hr); simp [createCore]
  · exact createCore_run d hr

end Tbox.C18
