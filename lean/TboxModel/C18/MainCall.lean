/-
C18 — primitives called from the MAIN context (`mainCall`): the paths that do not abort keep the
invariant, exactly as the same call made inside a routine; the others only set `aborted`.
-/
import TboxModel.C18.ExecL
namespace Tbox.C18

theorem logMain_S {X : State} (op : Op) (res : Res) (h : InvS X) : InvS (logMain X op res) :=
  ⟨h.fixed, h.chAvail, h.chReg, h.mxAvail, h.mxReg, h.smAvail, h.smReg, h.bcReg, h.cdReg, h.joinReg,
    h.freedDead, h.inOpOk, h.outside, h.ready⟩

/-- the trace-level invariant does not look at who logged an event, except for lock / unlock -/
theorem logMain_L_of_finish {X : State} (me : Nat) (op : Op) (rest : List Op) (res : Res)
    (hop : ∀ m, op ≠ .lock m ∧ op ≠ .unlock m) (h : InvL (finish X me op rest res).1) : InvL (logMain X op res) := by
  constructor
  · intro c
    have := h.fifo c
    simp only [finish, State.setR, logMain, sentOf_snoc, rcvdOf_snoc] at this ⊢
    exact this
  · intro m
    have := h.owners m
    simp only [finish, State.setR, logMain, ownersOf_snoc, ownStep] at this ⊢
    cases op <;> cases res <;> simp_all
  · intro k
    have := h.semCount k
    simp only [finish, State.setR, logMain, acqOf_snoc, relOf_snoc, isAcq, isRel] at this ⊢
    exact this
  · exact h.semInit

theorem logMain_L_neutral {X : State} (op : Op) (res : Res) (h : InvL X) (hn : neutral op res = true)
    (hop : ∀ m, op ≠ .lock m ∧ op ≠ .unlock m) : InvL (logMain X op res) :=
  logMain_L_of_finish mainR op [] res hop (finish_L_neutral mainR op [] res h hn)

theorem abort_S {s : State} (h : InvS s) : InvS (abort s) := (Woke.abort s).invS h
theorem abort_L {s : State} (h : InvL s) : InvL (abort s) := (Woke.abort s).invL h

theorem abort_tmp (s : State) : (abort s).tmp = s.tmp := (Woke.abort s).tmp

theorem mainCall_S {s : State} (op : Op) (h : InvS s) : InvS (mainCall s op) := by
  cases op with
  | send c v =>
    simp only [mainCall]
    obtain ⟨s1, e1, w, hw⟩ := wake_fixed (s.ch c).tokens (s.ch c).queue.isEmpty h
    rw [e1]
    have hn := no_susp_after (op := .recv c) h w _ hw (fun r hs => h.chReg r c hs)
    exact logMain_S _ _ (setCh_S c _ (w.invS h) (fun hne => absurd rfl hne) (fun r hs => absurd hs (hn r)))
  | recv c =>
    simp only [mainCall]
    split
    · rename_i v q hq
      refine logMain_S _ _ (setCh_S c _ h ?_ ?_)
      · intro hne; have := h.chAvail c hne; rw [hq] at this; cases this
      · intro r hs; exact h.chReg r c hs
    · exact abort_S h
  | acquire k =>
    simp only [mainCall]
    split
    · exact abort_S h
    · rename_i hq
      refine logMain_S _ _ (setSm_S k _ h ?_ ?_)
      · intro hne; have := h.smAvail k hne; exact absurd this hq
      · intro r hs; exact h.smReg r k hs
  | release k =>
    simp only [mainCall]
    obtain ⟨s1, e1, w, hw⟩ := wake_fixed (s.sm k).tokens (decide ((s.sm k).count = 0)) h
    rw [e1]
    have hn := no_susp_after (op := .acquire k) h w _ hw (fun r hs => h.smReg r k hs)
    exact logMain_S _ _ (setSm_S k _ (w.invS h) (fun hne => absurd rfl hne) (fun r hs => absurd hs (hn r)))
  | post b =>
    simp only [mainCall]
    have w := Woke.wakeAll s (s.bc b).tokens
    have hn := no_susp_after (op := .bwait b) h w _ (fun r hr' ha => wakeAll_wakes s _ r hr' ha) (fun r hs => (h.bcReg r b hs).1)
    exact logMain_S _ _ (setBc_S b _ (w.invS h) (fun r hs => absurd hs (hn r)))
  | cadd k v =>
    simp only [mainCall]
    refine logMain_S _ _ (setCd_S k _ h (fun r hs => ⟨(h.cdReg r k hs).1, ?_⟩))
    have := (h.cdReg r k hs).2
    simp only [condInsert]
    split
    · exact this
    · simp
  | cwait k =>
    simp only [mainCall]
    split
    · exact logMain_S _ _ h
    · exact abort_S h
  | cpost k v =>
    simp only [mainCall]
    have key : ∃ s1, resumeOpt s (s.cd k).tok = s1 ∧ Woke s s1 ∧
        ∀ r, ¬ susp s1 r (.cwait k) := by
      cases ht : (s.cd k).tok with
      | none =>
        refine ⟨s, rfl, Woke.refl s, ?_⟩
        intro r hs; have := (h.cdReg r k hs).1; rw [ht] at this; cases this
      | some t =>
        refine ⟨(resume s t).1, rfl, Woke.resume s t, ?_⟩
        intro r hs1
        have hs := (Woke.resume s t).susp hs1
        have := (h.cdReg r k hs).1
        rw [ht] at this
        cases this
        exact resume_wakes s t (susp_alive h hs) hs1.1
    obtain ⟨s1, e1, w, hno⟩ := key
    rw [e1]
    have A := fun x => logMain_S (.cpost k v) .ok (setCd_S k x (w.invS h) (fun r hs => absurd hs (hno r)))
    have B := fun x (hx : x.tok = (s.cd k).tok) (hc : x.conds ≠ []) =>
      logMain_S (.cpost k v) .ok (setCd_S k x h (fun r hs => ⟨hx ▸ (h.cdReg r k hs).1, hc⟩))
    split
    · cases hall : (s.cd k).all <;> simp only [ite_true, Bool.false_eq_true, ite_false, List.isEmpty_nil]
      · exact A _
      · split
        · exact A _
        · rename_i hne
          exact B _ rfl (by intro e; apply hne; have e2 : (s.cd k).conds.erase v = [] := e; rw [e2]; rfl)
    · exact logMain_S _ _ h
  | yield => exact abort_S h
  | wait => exact abort_S h
  | lock m => exact abort_S h
  | unlock m => exact abort_S h
  | bwait b => exact abort_S h
  | join t => exact abort_S h
  | create d now => exact abort_S h
  | cancel t => exact abort_S h
  | resume t => exact abort_S h
  | exit => exact abort_S h
  | throw => exact abort_S h
  | rcleanup => exact abort_S h

theorem mainCall_L {s : State} (op : Op) (h : InvL s) (hS : InvS s) : InvL (mainCall s op) := by
  cases op with
  | send c v =>
    simp only [mainCall]
    obtain ⟨s1, e1, w, _⟩ := wake_fixed (s.ch c).tokens (s.ch c).queue.isEmpty hS
    rw [e1]
    exact logMain_L_of_finish mainR _ [] _ (by intro m; simp) (send_L mainR c v [] [] h w)
  | recv c =>
    simp only [mainCall]
    split
    · rename_i v q hq
      exact logMain_L_of_finish mainR _ [] _ (by intro m; simp) (recv_L mainR c v q [] h hq)
    · exact abort_L h
  | acquire k =>
    simp only [mainCall]
    split
    · exact abort_L h
    · rename_i hq
      exact logMain_L_of_finish mainR _ [] _ (by intro m; simp) (acquire_L mainR k [] h hq)
  | release k =>
    simp only [mainCall]
    obtain ⟨s1, e1, w, _⟩ := wake_fixed (s.sm k).tokens (decide ((s.sm k).count = 0)) hS
    rw [e1]
    exact logMain_L_of_finish mainR _ [] _ (by intro m; simp) (release_L mainR k [] [] h w)
  | post b =>
    simp only [mainCall]
    exact logMain_L_neutral _ _ (setBc_L _ _ ((Woke.wakeAll s _).invL h)) rfl (by intro m; simp)
  | cadd k v =>
    simp only [mainCall]
    exact logMain_L_neutral _ _ (setCd_L _ _ h) rfl (by intro m; simp)
  | cwait k =>
    simp only [mainCall]
    split
    · exact logMain_L_neutral _ _ h rfl (by intro m; simp)
    · exact abort_L h
  | cpost k v =>
    simp only [mainCall]
    have w : Woke s (resumeOpt s (s.cd k).tok) := by
      cases (s.cd k).tok with
      | none => exact Woke.refl s
      | some t => exact Woke.resume s t
    repeat' split
    all_goals first
      | exact logMain_L_neutral _ _ (setCd_L _ _ (w.invL h)) rfl (by intro m; simp)
      | exact logMain_L_neutral _ _ (setCd_L _ _ h) rfl (by intro m; simp)
      | exact logMain_L_neutral _ _ h rfl (by intro m; simp)
  | yield => exact abort_L h
  | wait => exact abort_L h
  | lock m => exact abort_L h
  | unlock m => exact abort_L h
  | bwait b => exact abort_L h
  | join t => exact abort_L h
  | create d now => exact abort_L h
  | cancel t => exact abort_L h
  | resume t => exact abort_L h
  | exit => exact abort_L h
  | throw => exact abort_L h
  | rcleanup => exact abort_L h

end Tbox.C18
