/-
C18 — executable model of the coroutine scheduler and its primitives:
  modules/coroutine/scheduler.{h,cpp}   (create/resume/cancel/wait/yield/join/cleanup/schedule/
                                         makeRoutineReady/switchToRoutine, Cabinet cell reuse)
  modules/coroutine/channel.hpp, mutex.hpp, semaphore.hpp, broadcast.hpp, condition.hpp

The scheduler is deterministic.  A routine is a *script* (list of `Op`) interpreted inside a
real ucontext routine by the harness; the model keeps the remaining script, and `inOp` says
that the routine switched back to the main context from inside the head operation (so that
switching to it again continues that operation after its `sch_.wait()` / `yield()` call —
the blocking loops `do wait while …` are modelled with their loop).

Routine tokens are modelled by the creation index: Cabinet ids are never reissued (also not
by `clear()` since the C08 repair), so `at(token)` is "the routine has not been freed".
Cabinet *positions* are reused (LIFO free list) and determine the order in which `cleanup()`
visits routines, so cells and the free list are modelled.

`fixed = true` is the code after patches/C18-01..03 and C18-05 (and C18-04: no `create()` during `cleanup()`, in both variants) (every queued waiter is woken when the
resource becomes available; a waiter registers again before every wait).  `fixed = false` is
the code as found (one waiter woken, only on the unavailable→available edge; registration only
before the first wait); it is kept for the counterexample theorems.

Round 4: `MainOp.call` = a primitive / scheduler member called from the MAIN context (`mainCall`): the paths
that reach `getToken/wait/yield/join` abort (TBOX_ASSERT of the debug build), the others (send, release, post,
Condition::add/post, `>>` on a non-empty channel, `acquire` on a positive count) run as inside a routine and
are logged under the pseudo routine `mainR`; `Op.throw` (exception leaves the routine body: std::terminate) and
`Op.rcleanup` (`cleanup()` inside a routine) abort too.  `Semaphore::count_` is a natural number here (initial
count k >= 0); its `int` width is modelled in SemWidth.lean.

Round 5: `Op.resume` = `Scheduler::resume(token)` called from inside a routine (also on the running routine itself);
`MainOp.defineR` = a script whose `lock m` / `unlock m` are the constructor / scope end of a `Mutex::Locker` (RAII): when
the entry function returns (end of script, `exit`) the open scopes are left innermost first (`unwind`, each destructor is
the `unlock` it calls and is logged as such); the constructor ignores the result of `lock()`, so RAII scripts never return
"because lock failed" (xfail = false).  `MainOp.stack` = the `stack_size` argument of the following `create()` calls:
`effStack` is the clamp of patches/C18-08 (`fixed`), `corrupt` records a first frame that does not fit (code as found).
Compact.lean gives an array-backed execution of this model proved equal to it (what the driver runs).

The event loop's run-next queue is modelled by the number `pend` of queued
`Scheduler::schedule` tasks: every `makeRoutineReady` posts one, a loop pass runs the ones
queued when the pass started.
-/
namespace Tbox.C18

inductive Op where
  | yield | wait
  | send (c v : Nat) | recv (c : Nat)
  | lock (m : Nat) | unlock (m : Nat)
  | acquire (k : Nat) | release (k : Nat)
  | post (b : Nat) | bwait (b : Nat)
  | cadd (k v : Nat) | cwait (k : Nat) | cpost (k v : Nat)
  | join (t : Nat) | create (d : Nat) (now : Bool) | cancel (t : Nat) | exit
  | resume (t : Nat)                -- `Scheduler::resume(token)` called from inside a routine (round 5)
  | throw                           -- the routine body throws: nothing catches it below `Routine::mainEntry`
  | rcleanup                        -- `Scheduler::cleanup()` called from inside a routine
deriving DecidableEq, Repr

inductive Res where
  | ok | fail | val (v : Nat)
deriving DecidableEq, Repr

/-- one completed script operation: routine, operation, result, `isCanceled()` afterwards -/
structure Ev where
  r : Nat
  op : Op
  res : Res
  canc : Bool
deriving DecidableEq, Repr

inductive RState where
  | suspend | ready | running | dead
deriving DecidableEq, Repr

structure Routine where
  script   : List Op := []
  xfail    : Bool := false          -- the script returns as soon as an operation fails
  state    : RState := .suspend
  started  : Bool := false
  canceled : Bool := false
  joiner   : Option Nat := none     -- join_token
  freed    : Bool := false          -- removed from the cabinet and deleted
  pos      : Nat := 0               -- cabinet cell
  inOp     : Bool := false
  done     : Nat := 0               -- operations completed (observable: script position)
  wepoch   : Nat := 0               -- ghost: broadcast epoch at registration
  raii     : Bool := false          -- round 5: every `lock m` of the script is `Mutex::Locker l(m)`, `unlock m` ends the innermost scope
  orig     : List Op := []          -- the script the routine was created with (the executed prefix is `orig.take done`)
  ss       : Nat := 0               -- effective stack size in bytes (`Routine::Routine`, after the clamp of patches/C18-08)
deriving Repr

structure Chan where
  queue  : List Nat := []
  tokens : List Nat := []
deriving Repr

structure Mutex where
  hold    : Option Nat := none
  waiters : List Nat := []
deriving Repr

structure Sem where
  count  : Nat := 0
  tokens : List Nat := []
  init   : Nat := 0                 -- ghost: constructor argument
deriving Repr

structure Bcast where
  tokens : List Nat := []
  epoch  : Nat := 0                 -- ghost: number of posts so far
deriving Repr

structure Cond where
  all   : Bool := true              -- Logic::kAll / kAny
  conds : List Nat := []            -- std::set (only membership and emptiness are used)
  tok   : Option Nat := none
deriving Repr

structure State where
  fixed  : Bool := true
  n      : Nat := 0
  rts    : Nat → Routine := fun _ => {}
  readyq : List Nat := []           -- ready_routines
  tmp    : List Nat := []           -- the swapped-out queue of the running schedule() pass
  pend   : Nat := 0                 -- schedule() tasks queued in the loop
  cells  : List (Option Nat) := []  -- cabinet cells (position → routine)
  free   : List Nat := []           -- cabinet free list
  inCleanup : Bool := false
  defs   : List (Bool × List Op) := []
  ch     : Nat → Chan := fun _ => {}
  mx     : Nat → Mutex := fun _ => {}
  sm     : Nat → Sem := fun k => { count := k, init := k }      -- Semaphore(sch, k)
  bc     : Nat → Bcast := fun _ => {}
  cd     : Nat → Cond := fun k => { all := k % 2 == 0 }
  log    : List Ev := []
  stuck  : Bool := false            -- cleanup() ran out of fuel (never observed; see Props)
  aborted : Bool := false           -- the process called `abort()` (failed TBOX_ASSERT / std::terminate)
  abortAt : Nat := 0                -- ghost: length of `log` at the first abort
  tags   : List String := []        -- branch tags for the distribution statistics (never read by the model)
  rdefs  : List Nat := []           -- round 5: indices of the definitions whose scripts use `Mutex::Locker` (RAII)
  stackReq : Nat := 262144          -- round 5: the `stack_size` argument of the next `create()` calls (bytes)
  corrupt : Bool := false           -- round 5: `makecontext` wrote outside the stack block (code as found, stack_size too small)

def State.R (s : State) (r : Nat) : Routine := s.rts r
def State.setR (s : State) (r : Nat) (x : Routine) : State :=
  { s with rts := fun i => if i = r then x else s.rts i }
def State.setCh (s : State) (c : Nat) (x : Chan) : State :=
  { s with ch := fun i => if i = c then x else s.ch i }
def State.setMx (s : State) (c : Nat) (x : Mutex) : State :=
  { s with mx := fun i => if i = c then x else s.mx i }
def State.setSm (s : State) (c : Nat) (x : Sem) : State :=
  { s with sm := fun i => if i = c then x else s.sm i }
def State.setBc (s : State) (c : Nat) (x : Bcast) : State :=
  { s with bc := fun i => if i = c then x else s.bc i }
def State.setCd (s : State) (c : Nat) (x : Cond) : State :=
  { s with cd := fun i => if i = c then x else s.cd i }

def tag (s : State) (t : String) : State := { s with tags := s.tags ++ [t] }
def tagIf (s : State) (b : Bool) (t : String) : State := if b then tag s t else s

/-- `routine_cabinet.at(token) != nullptr` -/
def alive (s : State) (r : Nat) : Bool := decide (r < s.n) && !(s.R r).freed

/-- `Scheduler::makeRoutineReady` -/
def makeReady (s : State) (r : Nat) : State × Bool :=
  if (s.R r).state = .ready ∨ (s.R r).state = .dead then (s, false)
  else ({ s.setR r { s.R r with state := .ready } with readyq := s.readyq ++ [r], pend := s.pend + 1 }, true)

/-- `Scheduler::resume` -/
def resume (s : State) (t : Nat) : State × Bool :=
  if alive s t then makeReady s t else (s, false)

/-- `if (!token.isNull()) resume(token)` -/
def resumeOpt (s : State) : Option Nat → State
  | some t => (resume s t).1
  | none => s

/-- `Scheduler::cancel` -/
def cancelR (s : State) (t : Nat) : State × Bool :=
  if alive s t then makeReady (s.setR t { s.R t with canceled := true }) t else (s, false)

/-- resume every token of a waiter list, front first -/
def wakeAll (s : State) : List Nat → State
  | [] => s
  | t :: ts => wakeAll (resume s t).1 ts

/-- smallest stack `Routine::Routine` allocates (patches/C18-08: `ROUTINE_STACK_MIN_SIZE`) -/
def stackMin : Nat := 8192

/-- the clamp of `Routine::Routine`: `if (ss < ROUTINE_STACK_MIN_SIZE) ss = ROUTINE_STACK_MIN_SIZE` (as found: none) -/
def effStack (fixed : Bool) (req : Nat) : Nat := if fixed ∧ req < stackMin then stackMin else req

/-- bytes `makecontext` + the entry frame of `RoutineMainEntry` write at the top of the block before any user code
runs (x86-64: return address, link pointer, alignment; observed with memcheck: 16-24 bytes below a `malloc(0)` block) -/
def frameMin : Nat := 32

/-- `Cabinet::alloc` + `new Routine` -/
def createCore (s : State) (d : Nat) : State :=
  let df := s.defs.getD d (false, [])
  let r := s.n
  let pcf : Nat × List (Option Nat) × List Nat := match s.free with
    | p :: f => (p, s.cells.set p (some r), f)
    | [] => (s.cells.length, s.cells ++ [some r], [])
  let rai := decide (d ∈ s.rdefs)
  { s with n := r + 1, cells := pcf.2.1, free := pcf.2.2,
           corrupt := s.corrupt || decide (effStack s.fixed s.stackReq < frameMin),
           rts := fun i => if i = r then { script := df.2, xfail := df.1 && !rai, pos := pcf.1, raii := rai, orig := df.2,
                                           ss := effStack s.fixed s.stackReq } else s.rts i }

/-- `Scheduler::create` -/
def create (s : State) (d : Nat) (now : Bool) : State :=
  if now then (makeReady (createCore s d) s.n).1 else createCore s d

/-- `Cabinet::free` + `delete routine` -/
def freeRoutine (s : State) (r : Nat) : State :=
  { s.setR r { s.R r with freed := true, state := .dead } with
    cells := s.cells.set (s.R r).pos none, free := (s.R r).pos :: s.free }

/-- `std::abort()`: a failed `TBOX_ASSERT` (debug build, the one the harness compiles) or `std::terminate`
for an exception that leaves a routine body.  The process is gone: `step` does nothing any more; what the
model computes for the rest of the pass in which the abort happens is never observed (the driver cuts the
trace at `abortAt`). -/
def abort (s : State) : State :=
  if s.aborted then s else { s with aborted := true, abortAt := s.log.length }

inductive Ctl where
  | next | block | quit
deriving DecidableEq, Repr

/-- the head operation `op` of `me` returns `res`; the script continues with `rest` -/
def finish (s : State) (me : Nat) (op : Op) (rest : List Op) (res : Res) : State × Ctl :=
  let x := s.R me
  let s1 := { s.setR me { x with script := rest, inOp := false, done := x.done + 1 } with
              log := s.log ++ [{ r := me, op := op, res := res, canc := x.canceled }] }
  (s1, if res = .fail ∧ x.xfail then .quit else .next)

/-- switched back to the main context from inside `op` -/
def blockIn (s : State) (me : Nat) (op : Op) (rest : List Op) : State × Ctl :=
  (s.setR me { s.R me with script := op :: rest, inOp := true }, .block)

/-- `sch_.wait()` inside a primitive followed by `if (isCanceled()) return false`:
a cancelled routine does not switch, the call fails; otherwise the routine is suspended -/
def waitBlock (s : State) (me : Nat) (op : Op) (rest : List Op) : State × Ctl :=
  if (s.R me).canceled then finish s me op rest .fail
  else blockIn (s.setR me { s.R me with state := .suspend }) me op rest

/-- wake-up issued when a resource becomes available -/
def wake (s0 : State) (tokens : List Nat) (edge : Bool) : State × List Nat :=
  let s := tagIf (tagIf s0 (decide (2 ≤ tokens.length)) "wake2") (!tokens.isEmpty && !edge) "nonedge"
  if s.fixed then (wakeAll s tokens, [])
  else match tokens with
    | t :: ts => if edge then ((resume s t).1, ts) else (s, tokens)
    | [] => (s, [])

def condInsert (l : List Nat) (v : Nat) : List Nat := if v ∈ l then l else l ++ [v]

/-- one operation of routine `me` (first entry when `inOp = false`, continuation after the
switch back when `inOp = true`) -/
def execOp (s : State) (me : Nat) (op : Op) (rest : List Op) : State × Ctl :=
  let x := s.R me
  let cont := x.inOp
  match op with
  | .yield =>
      if cont then finish s me op rest .ok
      else if x.canceled then finish s me op rest .ok
      else blockIn (makeReady s me).1 me op rest
  | .wait =>
      if cont then finish s me op rest .ok
      else if x.canceled then finish s me op rest .ok
      else blockIn (s.setR me { x with state := .suspend }) me op rest
  | .send c v =>
      let ch := s.ch c
      let (s1, toks) := wake s ch.tokens ch.queue.isEmpty
      finish (s1.setCh c { queue := ch.queue ++ [v], tokens := toks }) me op rest .ok
  | .recv c =>
      let ch := s.ch c
      if cont ∧ x.canceled then finish (tag s "cancel-blocked") me op rest .fail
      else match ch.queue with
        | v :: q => finish (s.setCh c { ch with queue := q }) me op rest (.val v)
        | [] =>
            if cont ∧ !s.fixed then waitBlock (tag s "rewait") me op rest
            else waitBlock (tagIf (s.setCh c { ch with tokens := ch.tokens ++ [me] }) cont "rewait") me op rest
  | .lock m =>
      let mx := s.mx m
      if cont ∧ x.canceled then finish (tag s "cancel-blocked") me op rest .fail
      else match mx.hold with
        | none => finish (s.setMx m { mx with hold := some me }) me op rest .ok
        | some h =>
            if !cont ∧ h = me then finish s me op rest .ok
            else if cont ∧ !s.fixed then waitBlock (tag s "rewait") me op rest
            else waitBlock (tagIf (s.setMx m { mx with waiters := mx.waiters ++ [me] }) cont "rewait") me op rest
  | .unlock m =>
      let mx := s.mx m
      if mx.hold = some me then
        let (s1, toks) := wake s mx.waiters true
        finish (s1.setMx m { hold := none, waiters := toks }) me op rest .ok
      else finish s me op rest .ok
  | .acquire k =>
      let sm := s.sm k
      if cont ∧ x.canceled then finish (tag s "cancel-blocked") me op rest .fail
      else if sm.count = 0 then
        if cont ∧ !s.fixed then waitBlock (tag s "rewait") me op rest
        else waitBlock (tagIf (s.setSm k { sm with tokens := sm.tokens ++ [me] }) cont "rewait") me op rest
      else finish (s.setSm k { sm with count := sm.count - 1 }) me op rest .ok
  | .release k =>
      let sm := s.sm k
      let (s1, toks) := wake s sm.tokens (sm.count = 0)
      finish (s1.setSm k { sm with count := sm.count + 1, tokens := toks }) me op rest .ok
  | .post b =>
      let bc := s.bc b
      finish ((wakeAll s bc.tokens).setBc b { tokens := [], epoch := bc.epoch + 1 }) me op rest .ok
  | .bwait b =>
      let bc := s.bc b
      if cont then finish s me op rest (if x.canceled then .fail else .ok)
      else
        let s1 := (s.setBc b { bc with tokens := bc.tokens ++ [me] }).setR me { x with wepoch := bc.epoch }
        waitBlock s1 me op rest
  | .cadd k v =>
      let cd := s.cd k
      finish (s.setCd k { cd with conds := condInsert cd.conds v }) me op rest .ok
  | .cwait k =>
      let cd := s.cd k
      if cont then
        -- patches/C18-05: only a wait that still owns the registration (interrupted by cancel / a resume by
        -- hand) clears the conditions and releases the token; as found: `conds_.clear()` unconditionally
        if s.fixed then
          (if cd.tok = some me then finish (s.setCd k { cd with conds := [], tok := none }) me op rest (if x.canceled then .fail else .ok)
           else finish s me op rest (if x.canceled then .fail else .ok))
        else finish (s.setCd k { cd with conds := [] }) me op rest (if x.canceled then .fail else .ok)
      else if cd.tok.isSome ∨ cd.conds.isEmpty then finish s me op rest .fail
      else if x.canceled then
        finish (s.setCd k { cd with tok := if s.fixed then none else some me, conds := [] }) me op rest .fail
      else blockIn ((s.setCd k { cd with tok := some me }).setR me { x with state := .suspend }) me op rest
  | .cpost k v =>
      let cd := s.cd k
      if v ∈ cd.conds then
        let conds := if cd.all then cd.conds.erase v else []
        if conds.isEmpty then
          finish ((resumeOpt s cd.tok).setCd k { cd with conds := [], tok := none }) me op rest .ok
        else finish (s.setCd k { cd with conds := conds }) me op rest .ok
      else finish s me op rest .ok
  | .join t =>
      if cont then finish s me op rest (if x.canceled then .fail else .ok)
      else if x.canceled then finish s me op rest .fail
      else if alive s t then
        if (s.R t).state = .dead then finish s me op rest .ok
        else if (s.R t).joiner.isSome then finish s me op rest .fail
        else
          let s1 := s.setR t { s.R t with joiner := some me }
          blockIn (s1.setR me { s1.R me with state := .suspend }) me op rest
      else finish s me op rest .fail
  | .create d now =>
      -- `create()` returns a null token while `cleanup()` is running (patches/C18-04)
      if s.inCleanup then finish s me op rest .fail
      else finish (create s d now) me op rest .ok
  | .cancel t =>
      let (s1, b) := cancelR s t
      finish s1 me op rest (if b then .ok else .fail)
  | .resume t =>
      let (s1, b) := resume s t
      finish s1 me op rest (if b then .ok else .fail)
  | .exit => (s, .quit)
  -- an exception leaving `entry(scheduler)` unwinds to the bottom of the makecontext stack: std::terminate
  | .throw => (abort s, .quit)
  -- `TBOX_ASSERT(isInMainRoutine())` at the top of `Scheduler::cleanup`
  | .rcleanup => (abort s, .quit)

/-- the entry function returned: `state = kDead` -/
def die (s : State) (me : Nat) : State :=
  s.setR me { s.R me with state := .dead, script := [], inOp := false }

/-- the `Mutex::Locker` objects alive after the executed prefix of a RAII script, innermost first:
`lock m` constructs one, `unlock m` ends the innermost scope when that scope is the one of `m` -/
def openLk : List Nat → List Op → List Nat
  | st, [] => st
  | st, .lock m :: l => openLk (m :: st) l
  | m' :: st, .unlock m :: l => if m = m' then openLk st l else openLk (m' :: st) l
  | st, _ :: l => openLk st l

/-- `~Locker()` of every live Locker, innermost first: each is `m_.unlock()` -/
def unwindList (me : Nat) : List Nat → State → State
  | [], s => s
  | m :: ms, s => unwindList me ms (execOp s me (.unlock m) []).1

/-- the entry function of a RAII script returns (end of script, `exit`): the scopes are left -/
def unwind (s : State) (me : Nat) : State :=
  if (s.R me).raii then unwindList me (openLk [] ((s.R me).orig.take (s.R me).done)) s else s

/-- the entry function returns -/
def fin (s : State) (me : Nat) : State := die (unwind s me) me

/-- run routine `me` until it switches back to the main context or returns -/
def runOps (me : Nat) : List Op → State → State
  | [], s => fin s me
  | op :: rest, s =>
      match execOp s me op rest with
      | (s1, .next) => runOps me rest s1
      | (s1, .block) => s1
      | (s1, .quit) => fin s1 me

/-- `Scheduler::switchToRoutine` -/
def switchTo (s : State) (r : Nat) : State :=
  let s1 := s.setR r { s.R r with state := .running, started := true }
  let s2 := runOps r (s1.R r).script s1
  if (s2.R r).state = .dead then
    let s3 := freeRoutine s2 r
    resumeOpt s3 (s3.R r).joiner
  else s2

/-- the loop of `Scheduler::schedule` over the swapped-out queue -/
def drain : List Nat → State → State
  | [], s => s
  | t :: rest, s =>
      let s0 := { s with tmp := rest }
      drain rest (if alive s0 t then switchTo s0 t else s0)

/-- `Scheduler::schedule` -/
def schedule (s : State) : State :=
  drain s.readyq { s with readyq := [], tmp := s.readyq }

/-- the schedule() tasks of one loop pass -/
def batch : Nat → State → State
  | 0, s => s
  | k + 1, s => batch k (schedule s)

def loopPass (s : State) : State := batch s.pend { s with pend := 0 }

/-- first `foreach` of `cleanup()`: delete unstarted routines, cancel the others.  The visit
order of this pass is unobservable (nothing runs, the free list it builds is discarded by the
final `clear()` and no routine is created during `cleanup()`), so it is modelled as one update
of every routine still in the cabinet. -/
def markAll (s : State) : State :=
  { s with
    rts := fun r =>
      if alive s r then
        if (s.R r).started then { s.R r with canceled := true }
        else { s.R r with freed := true, state := .dead }
      else s.R r,
    cells := s.cells.map fun c => match c with
      | some r => if (s.R r).started then some r else none
      | none => none,
    inCleanup := true }

/-- one `foreach` of the `while (!empty)` loop: switch to every routine still in its cell -/
def sweep : Nat → Nat → State → State
  | 0, _, s => s
  | k + 1, p, s =>
      match s.cells.getD p none with
      | some r => sweep k (p + 1) (if alive s r then switchTo s r else s)
      | none => sweep k (p + 1) s

def cabinetEmpty (s : State) : Bool := s.cells.all (·.isNone)

def sweepLoop : Nat → State → State
  | 0, s => { s with stuck := !cabinetEmpty s }
  | f + 1, s => if cabinetEmpty s then s else sweepLoop f (sweep s.cells.length 0 s)

/-- `Scheduler::cleanup` -/
def cleanup (s : State) : State :=
  let s1 := markAll s
  let s2 := sweepLoop 2 s1
  { s2 with cells := [], free := [], inCleanup := false }

/-- pseudo routine index under which calls made from the MAIN context are logged -/
def mainR : Nat := 1000000000

def logMain (s : State) (op : Op) (res : Res) : State :=
  { s with log := s.log ++ [{ r := mainR, op := op, res := res, canc := false }] }

/-- a primitive / scheduler member called from the main context (outside every routine).
`Scheduler::wait/yield/join/getToken/isCanceled/getName` start with `TBOX_ASSERT(!isInMainRoutine())`:
every path of a primitive that reaches one of them aborts; the paths that do not (send, release, post,
Condition::add/post, `>>` on a non-empty channel, `acquire` on a positive count, `Condition::wait` refused)
run exactly as inside a routine. -/
def mainCall (s : State) : Op → State
  | .send c v =>
      let ch := s.ch c
      let (s1, toks) := wake s ch.tokens ch.queue.isEmpty
      logMain (s1.setCh c { queue := ch.queue ++ [v], tokens := toks }) (.send c v) .ok
  | .recv c =>
      let ch := s.ch c
      match ch.queue with
      | v :: q => logMain (s.setCh c { ch with queue := q }) (.recv c) (.val v)
      | [] => abort s                       -- `token_.push(sch_.getToken())`
  | .acquire k =>
      let sm := s.sm k
      if sm.count = 0 then abort s          -- `token_.push(sch_.getToken())`
      else logMain (s.setSm k { sm with count := sm.count - 1 }) (.acquire k) .ok
  | .release k =>
      let sm := s.sm k
      let (s1, toks) := wake s sm.tokens (sm.count = 0)
      logMain (s1.setSm k { sm with count := sm.count + 1, tokens := toks }) (.release k) .ok
  | .post b =>
      let bc := s.bc b
      logMain ((wakeAll s bc.tokens).setBc b { tokens := [], epoch := bc.epoch + 1 }) (.post b) .ok
  | .cadd k v =>
      let cd := s.cd k
      logMain (s.setCd k { cd with conds := condInsert cd.conds v }) (.cadd k v) .ok
  | .cwait k =>
      let cd := s.cd k
      if cd.tok.isSome ∨ cd.conds.isEmpty then logMain s (.cwait k) .fail
      else abort s                          -- `wait_token_ = sch_.getToken()`
  | .cpost k v =>
      let cd := s.cd k
      if v ∈ cd.conds then
        let conds := if cd.all then cd.conds.erase v else []
        if conds.isEmpty then
          logMain ((resumeOpt s cd.tok).setCd k { cd with conds := [], tok := none }) (.cpost k v) .ok
        else logMain (s.setCd k { cd with conds := conds }) (.cpost k v) .ok
      else logMain s (.cpost k v) .ok
  -- yield / wait / join: TBOX_ASSERT(!isInMainRoutine()); lock / unlock / Broadcast::wait: getToken() first;
  -- create / cancel from the main context are the main operations `new` / `cancel`
  | _ => abort s

inductive MainOp where
  | call (op : Op)
  | define (xfail : Bool) (ops : List Op)
  | defineR (ops : List Op)         -- round 5: a script whose `lock m … unlock m` are `{ Mutex::Locker l(m); … }` scopes
  | stack (bytes : Nat)             -- round 5: the `stack_size` argument of the `create()` calls that follow
  | new (d : Nat) (now : Bool)
  | resume (r : Nat)
  | cancel (r : Nat)
  | cleanup
  | pass
deriving Repr

def applyMain (s : State) : MainOp → State
  | .call op => mainCall s op
  | .define xf ops => { s with defs := s.defs ++ [(xf, ops)] }
  | .defineR ops => { s with defs := s.defs ++ [(false, ops)], rdefs := s.rdefs ++ [s.defs.length] }
  | .stack b => { s with stackReq := b }
  | .new d now => create s d now
  | .resume r => (resume s r).1
  | .cancel r => (cancelR s r).1
  | .cleanup => cleanup s
  | .pass => s

/-- one op line: the main-context operation, then one pass of the event loop -/
def step (s : State) (op : MainOp) : State :=
  if s.aborted then s else
    let s1 := applyMain s op
    if s1.aborted then s1 else loopPass s1

def run (s : State) : List MainOp → State
  | [] => s
  | op :: ops => run (step s op) ops

def init : State := {}
def initOrig : State := { fixed := false }

end Tbox.C18
