/-
C18 — no reachable state of the repaired code (`fixed = true`, patches/C18-08: the clamp of `Routine::Routine`)
is `corrupt`: a traversal of every function of the model for the pair of fields (`fixed`, `corrupt`).

`FC s = (s.fixed, s.fixed && s.corrupt)` is left unchanged by every function of the model, unconditionally:
`fixed` is never written, and `corrupt` is only written by `createCore`, where the new disjunct
`effStack s.fixed s.stackReq < frameMin` is false when `s.fixed = true` (the clamp gives at least `stackMin = 8192`
bytes, `frameMin = 32`), while for `s.fixed = false` the second component is `false` before and after.
-/
import TboxModel.C18.Model
namespace Tbox.C18

/-- the observed pair: the variant flag, and the corruption flag masked by it -/
def FC (s : State) : Bool × Bool := (s.fixed, s.fixed && s.corrupt)

@[simp] theorem setR_FC (s : State) (r x) : FC (s.setR r x) = FC s := rfl
@[simp] theorem setCh_FC (s : State) (r x) : FC (s.setCh r x) = FC s := rfl
@[simp] theorem setMx_FC (s : State) (r x) : FC (s.setMx r x) = FC s := rfl
@[simp] theorem setSm_FC (s : State) (r x) : FC (s.setSm r x) = FC s := rfl
@[simp] theorem setBc_FC (s : State) (r x) : FC (s.setBc r x) = FC s := rfl
@[simp] theorem setCd_FC (s : State) (r x) : FC (s.setCd r x) = FC s := rfl
@[simp] theorem tag_FC (s : State) (t) : FC (tag s t) = FC s := rfl
@[simp] theorem tagIf_FC (s : State) (b t) : FC (tagIf s b t) = FC s := by
  unfold tagIf; split <;> rfl
@[simp] theorem makeReady_FC (s : State) (t) : FC (makeReady s t).1 = FC s := by
  unfold makeReady; split <;> rfl
@[simp] theorem resume_FC (s : State) (t) : FC (resume s t).1 = FC s := by
  unfold resume; split <;> simp
@[simp] theorem resumeOpt_FC (s : State) (t) : FC (resumeOpt s t) = FC s := by
  cases t <;> simp [resumeOpt]
@[simp] theorem cancelR_FC (s : State) (t) : FC (cancelR s t).1 = FC s := by
  unfold cancelR; split <;> simp
@[simp] theorem wakeAll_FC (s : State) (ts) : FC (wakeAll s ts) = FC s := by
  induction ts generalizing s with
  | nil => rfl
  | cons t ts ih => simp only [wakeAll]; rw [ih, resume_FC]
@[simp] theorem finish_FC (s : State) (me op rest res) : FC (finish s me op rest res).1 = FC s := rfl
@[simp] theorem blockIn_FC (s : State) (me op rest) : FC (blockIn s me op rest).1 = FC s := rfl
@[simp] theorem waitBlock_FC (s : State) (me op rest) : FC (waitBlock s me op rest).1 = FC s := by
  unfold waitBlock; split <;> rfl
@[simp] theorem wake_FC (s : State) (ts e) : FC (wake s ts e).1 = FC s := by
  unfold wake
  simp only []
  split
  · simp
  · split
    · split <;> simp
    · simp

/-- the only writer of `corrupt`: with the clamp the first frame always fits -/
@[simp] theorem createCore_FC (s : State) (d) : FC (createCore s d) = FC s := by
  cases hf : s.fixed <;> simp [FC, createCore, effStack, stackMin, frameMin, hf]
  split <;> omega

@[simp] theorem create_FC (s : State) (d now) : FC (create s d now) = FC s := by
  unfold create; split <;> simp
@[simp] theorem freeRoutine_FC (s : State) (r) : FC (freeRoutine s r) = FC s := rfl
@[simp] theorem abort_FC (s : State) : FC (abort s) = FC s := by
  unfold abort; split <;> rfl
@[simp] theorem logMain_FC (s : State) (op res) : FC (logMain s op res) = FC s := rfl
@[simp] theorem die_FC (s : State) (me) : FC (die s me) = FC s := rfl

theorem execOp_FC (s : State) (me : Nat) (op : Op) (rest : List Op) : FC (execOp s me op rest).1 = FC s := by
  cases op <;> simp only [execOp] <;> repeat' split
  all_goals simp

theorem mainCall_FC (s : State) (op : Op) : FC (mainCall s op) = FC s := by
  cases op <;> simp only [mainCall] <;> repeat' split
  all_goals simp

theorem unwindList_FC (me : Nat) (ms : List Nat) (s : State) : FC (unwindList me ms s) = FC s := by
  induction ms generalizing s with
  | nil => rfl
  | cons m ms ih => simp only [unwindList]; rw [ih, execOp_FC]

theorem unwind_FC (s : State) (me : Nat) : FC (unwind s me) = FC s := by
  unfold unwind
  split
  · exact unwindList_FC _ _ _
  · rfl

theorem fin_FC (s : State) (me : Nat) : FC (fin s me) = FC s := by
  show FC (die (unwind s me) me) = FC s
  rw [die_FC, unwind_FC]

theorem runOps_FC (me : Nat) (ops : List Op) (s : State) : FC (runOps me ops s) = FC s := by
  induction ops generalizing s with
  | nil => exact fin_FC s me
  | cons op rest ih =>
    have key := execOp_FC s me op rest
    simp only [runOps]
    split
    · rename_i s1 e; rw [e] at key; rw [ih, key]
    · rename_i s1 e; rw [e] at key; exact key
    · rename_i s1 e; rw [e] at key; rw [fin_FC]; exact key

theorem switchTo_FC (s : State) (r : Nat) : FC (switchTo s r) = FC s := by
  unfold switchTo
  simp only []
  split
  · simp [runOps_FC]
  · simp [runOps_FC]

theorem drain_FC (q : List Nat) (s : State) : FC (drain q s) = FC s := by
  induction q generalizing s with
  | nil => rfl
  | cons t rest ih =>
    simp only [drain]
    rw [ih]
    split
    · rw [switchTo_FC]; rfl
    · rfl

theorem schedule_FC (s : State) : FC (schedule s) = FC s := by
  unfold schedule
  rw [drain_FC]; rfl

theorem batch_FC (k : Nat) (s : State) : FC (batch k s) = FC s := by
  induction k generalizing s with
  | zero => rfl
  | succ k ih => simp only [batch]; rw [ih, schedule_FC]

theorem loopPass_FC (s : State) : FC (loopPass s) = FC s := by
  unfold loopPass
  rw [batch_FC]; rfl

theorem markAll_FC (s : State) : FC (markAll s) = FC s := rfl

theorem sweep_FC (k p : Nat) (s : State) : FC (sweep k p s) = FC s := by
  induction k generalizing s p with
  | zero => rfl
  | succ k ih =>
    simp only [sweep]
    split
    · split
      · rw [ih, switchTo_FC]
      · rw [ih]
    · rw [ih]

theorem sweepLoop_FC (f : Nat) (s : State) : FC (sweepLoop f s) = FC s := by
  induction f generalizing s with
  | zero => rfl
  | succ f ih =>
    simp only [sweepLoop]
    split
    · rfl
    · rw [ih, sweep_FC]

theorem cleanup_FC (s : State) : FC (cleanup s) = FC s := by
  unfold cleanup
  show FC (sweepLoop 2 (markAll s)) = FC s
  rw [sweepLoop_FC, markAll_FC]

theorem applyMain_FC (s : State) (op : MainOp) : FC (applyMain s op) = FC s := by
  cases op with
  | call op => exact mainCall_FC s op
  | define xf ops => rfl
  | defineR ops => rfl
  | stack b => rfl
  | new d now => exact create_FC s d now
  | resume r => exact resume_FC s r
  | cancel r => exact cancelR_FC s r
  | cleanup => exact cleanup_FC s
  | pass => rfl

theorem step_FC (s : State) (op : MainOp) : FC (step s op) = FC s := by
  unfold step
  split
  · rfl
  · simp only []
    split
    · exact applyMain_FC s op
    · rw [loopPass_FC, applyMain_FC]

theorem run_FC (s : State) (ops : List MainOp) : FC (run s ops) = FC s := by
  induction ops generalizing s with
  | nil => rfl
  | cons op ops ih => simp only [run]; rw [ih, step_FC]

/-- `FC` unchanged, read back on the two fields -/
theorem FC_fields {s s' : State} (h : FC s' = FC s) (hf : s.fixed = true) (hc : s.corrupt = false) :
    s'.fixed = true ∧ s'.corrupt = false := by
  have h1 : s'.fixed = s.fixed := congrArg Prod.fst h
  have h2 : (s'.fixed && s'.corrupt) = (s.fixed && s.corrupt) := congrArg Prod.snd h
  rw [h1, hf, hc] at h2
  rw [h1, hf]
  simpa using h2

/-- one op line of the repaired code never sets `corrupt` -/
theorem C18_step_not_corrupt (s : State) (op : MainOp) (hf : s.fixed = true) (hc : s.corrupt = false) :
    (step s op).fixed = true ∧ (step s op).corrupt = false :=
  FC_fields (step_FC s op) hf hc

/-- the same for every run from any state of the repaired code that is not corrupt -/
theorem C18_run_not_corrupt (s : State) (ops : List MainOp) (hf : s.fixed = true) (hc : s.corrupt = false) :
    (run s ops).fixed = true ∧ (run s ops).corrupt = false :=
  FC_fields (run_FC s ops) hf hc

/-- no reachable state of the repaired code is corrupt -/
theorem C18_never_corrupt (ops : List MainOp) : (run init ops).fixed = true ∧ (run init ops).corrupt = false :=
  C18_run_not_corrupt init ops rfl rfl

/-- non-vacuity: the code as found (no clamp) does get corrupt with `stack_size = 0` -/
example : (run initOrig [.stack 0, .define false [.yield], .new 0 true]).corrupt = true := by decide

end Tbox.C18
