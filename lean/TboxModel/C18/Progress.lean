/-
C18 — the PROGRESS form of "no lost wake-up".

`Inv` (Spec.lean) is the invariant form: a routine suspended in recv / lock / acquire implies that the
channel is empty / the mutex is held / the count is zero.  Here: in every maximal execution (the ready
queue is drained at a pass boundary) of a script program whose blocking calls are matched, ALL routines
are dead.

Script programs: the main context only defines scripts (no xfail), creates routines (run_now = true)
and lets the loop run.  Every created script has a role:
  producer  yield / send / release            (never blocks)
  consumer  yield / recv / acquire / join     (blocks only on what producers supply, or until a routine
            created EARLIER has returned: the i-th created routine joins only routines with index < i, so the
            join graph is acyclic; a refused join - second joiner, target already gone - returns `fail` and
            the script runs on, scripts of the class having no xfail)
  locker    critical sections `lock m … unlock m` around producer operations, NESTED under a global lock
            order: inside sections a routine locks only a mutex strictly smaller than the innermost one it
            holds, and unlocks in LIFO order
and per channel the receives do not outnumber the sends, per semaphore `k` (initial count `k`) the
acquires do not outnumber `k` + the releases.

Deadlock freedom of the lockers is the classic lock-order argument (`quiescent_dead`, step `hC`, induction
on the mutex index); termination of the joiners is induction on the creation index.  Both side conditions
are needed: `C18_progress_unordered_locks_counterexample`, `C18_progress_join_cycle_counterexample`.
-/
import TboxModel.C18.Trace
namespace Tbox.C18

/-! ## the program class (all `Bool`) -/

/-- never blocks -/
def simpleOp : Op → Bool
  | .yield | .send _ _ | .release _ => true
  | _ => false

/-- consumer operation: blocks only on things producers supply, or until another routine has returned;
never sends / releases -/
def consOp : Op → Bool
  | .yield | .recv _ | .acquire _ | .join _ => true
  | _ => false

/-- the operations in which a routine of the class can be suspended -/
def blkOp : Op → Bool
  | .recv _ | .lock _ | .acquire _ | .join _ => true
  | _ => false

/-- critical sections `lock m … unlock m` around simple operations, NESTED under a global lock order.
The state is the stack of the open mutexes, innermost first: inside sections `lock m` is allowed only when
`m` is strictly smaller than the innermost open mutex (every routine acquires in strictly decreasing index
order), `unlock m` must name the innermost open mutex (LIFO), simple operations are allowed anywhere, and
the script ends with the stack empty. -/
def sections : List Nat → List Op → Bool
  | st, [] => st.isEmpty
  | st, op :: rest =>
      if simpleOp op then sections st rest
      else match op, st with
        | .lock m, [] => sections [m] rest
        | .lock m, m' :: st' => decide (m < m') && sections (m :: m' :: st') rest
        | .unlock m, m' :: st' => decide (m = m') && sections st' rest
        | _, _ => false

/-- producer, consumer or locker -/
def roleOK (l : List Op) : Bool := l.all simpleOp || l.all consOp || sections [] l

/-- producers and consumers only -/
def noLocker (l : List Op) : Bool := l.all simpleOp || l.all consOp

def MainOK : MainOp → Bool
  | .define false _ | .new _ true | .pass => true
  | _ => false

/-- the scripts of the routines created, in creation order (`defs` as `applyMain`/`createCore` keep them) -/
def createdAux : List (Bool × List Op) → List MainOp → List (List Op)
  | _, [] => []
  | defs, .define xf l :: ops => createdAux (defs ++ [(xf, l)]) ops
  | defs, .new d _ :: ops => (defs.getD d (false, [])).2 :: createdAux defs ops
  | defs, _ :: ops => createdAux defs ops

def created (ops : List MainOp) : List (List Op) := createdAux [] ops

def isSend (c : Nat) : Op → Bool
  | .send c' _ => c' == c
  | _ => false
def isRecv (c : Nat) : Op → Bool
  | .recv c' => c' == c
  | _ => false
def isAcqOp (k : Nat) : Op → Bool
  | .acquire k' => k' == k
  | _ => false
def isRelOp (k : Nat) : Op → Bool
  | .release k' => k' == k
  | _ => false

/-- the channels mentioned -/
def chansOf (l : List Op) : List Nat :=
  l.filterMap fun
    | .recv c => some c
    | .send c _ => some c
    | _ => none

/-- the semaphores mentioned -/
def semsOf (l : List Op) : List Nat :=
  l.filterMap fun
    | .acquire k => some k
    | .release k => some k
    | _ => none

/-- receives ≤ sends per channel, acquires ≤ initial count + releases per semaphore -/
def balanced (F : List Op) : Bool :=
  (chansOf F).all (fun c => decide (F.countP (isRecv c) ≤ F.countP (isSend c))) &&
  (semsOf F).all (fun k => decide (F.countP (isAcqOp k) ≤ k + F.countP (isRelOp k)))

/-- every `join t` of the script names a routine created before routine `i` -/
def joinsLt (i : Nat) (l : List Op) : Bool :=
  l.all fun op => match op with
    | .join t => decide (t < i)
    | _ => true

/-- acyclicity of `join`: the `i`-th created routine (creation order = index in `created ops` = routine
token) joins only routines with a smaller index; the first argument is the index of the head script -/
def joinsOK : Nat → List (List Op) → Bool
  | _, [] => true
  | i, l :: ls => joinsLt i l && joinsOK (i + 1) ls

def Matched (ops : List MainOp) : Bool :=
  ops.all MainOK && (created ops).all roleOK && balanced (created ops).flatten && joinsOK 0 (created ops)

/-! ## roles of remaining scripts -/

/-- a stack of open mutexes: strictly increasing from the innermost (head) outwards -/
def Incr (st : List Nat) : Prop := st.Pairwise (· < ·)

/-- role of a *remaining* script (suffix closed) -/
def rrole (l : List Op) : Prop :=
  l.all simpleOp = true ∨ l.all consOp = true ∨ ∃ st, Incr st ∧ sections st l = true

theorem roleOK_rrole {l : List Op} (h : roleOK l = true) : rrole l := by
  unfold roleOK at h
  simp only [Bool.or_eq_true] at h
  rcases h with (h | h) | h
  · exact Or.inl h
  · exact Or.inr (Or.inl h)
  · exact Or.inr (Or.inr ⟨[], List.Pairwise.nil, h⟩)

/-- the three kinds of step inside sections: a simple operation, `lock m` below the innermost open mutex,
`unlock` of the innermost open mutex -/
theorem sections_cons {st : List Nat} {op : Op} {rest : List Op} (h : sections st (op :: rest) = true) :
    (simpleOp op = true ∧ sections st rest = true) ∨
    (∃ m, op = .lock m ∧ (∀ m' st', st = m' :: st' → m < m') ∧ sections (m :: st) rest = true) ∨
    (∃ m st', st = m :: st' ∧ op = .unlock m ∧ sections st' rest = true) := by
  unfold sections at h
  by_cases hs : simpleOp op = true
  · simp only [hs, if_true] at h; exact Or.inl ⟨hs, h⟩
  · simp only [hs] at h
    cases st <;> cases op <;> simp_all [simpleOp]
    rename_i a st' m
    exact ⟨a, st', ⟨rfl, rfl⟩, rfl, h.2⟩

/-- pushing a mutex below the innermost one keeps the stack increasing -/
theorem Incr.push {st : List Nat} {m : Nat} (hi : Incr st) (h : ∀ m' st', st = m' :: st' → m < m') :
    Incr (m :: st) := by
  unfold Incr at *
  cases st with
  | nil => exact List.pairwise_singleton _ _
  | cons a st' =>
      have ha := h a st' rfl
      refine List.pairwise_cons.mpr ⟨fun x hx => ?_, hi⟩
      rcases List.mem_cons.mp hx with e | e
      · omega
      · have := (List.pairwise_cons.mp hi).1 x e; omega

theorem Incr.tail {st : List Nat} {m : Nat} (hi : Incr (m :: st)) : Incr st :=
  (List.pairwise_cons.mp hi).2

/-- the innermost open mutex is the smallest -/
theorem Incr.head_le {st : List Nat} {m0 m : Nat} (hi : Incr (m0 :: st)) (hm : m ∈ m0 :: st) : m0 ≤ m := by
  rcases List.mem_cons.mp hm with e | e
  · omega
  · have := (List.pairwise_cons.mp hi).1 m e; omega

theorem rrole_tail {op : Op} {rest : List Op} (h : rrole (op :: rest)) : rrole rest := by
  rcases h with h | h | ⟨st, hi, h⟩
  · simp only [List.all_cons, Bool.and_eq_true] at h; exact Or.inl h.2
  · simp only [List.all_cons, Bool.and_eq_true] at h; exact Or.inr (Or.inl h.2)
  · rcases sections_cons h with ⟨_, h'⟩ | ⟨m, _, hl, h'⟩ | ⟨m, st', e, _, h'⟩
    · exact Or.inr (Or.inr ⟨_, hi, h'⟩)
    · exact Or.inr (Or.inr ⟨_, hi.push hl, h'⟩)
    · subst e; exact Or.inr (Or.inr ⟨_, hi.tail, h'⟩)

/-- the eight operations of the class -/
def okOp : Op → Bool
  | .yield | .send _ _ | .release _ | .recv _ | .acquire _ | .lock _ | .unlock _ | .join _ => true
  | _ => false

theorem rrole_head {op : Op} {rest : List Op} (h : rrole (op :: rest)) : okOp op = true := by
  rcases h with h | h | ⟨st, _, h⟩
  · simp only [List.all_cons, Bool.and_eq_true] at h; cases op <;> simp_all [simpleOp, okOp]
  · simp only [List.all_cons, Bool.and_eq_true] at h; cases op <;> simp_all [consOp, okOp]
  · rcases sections_cons h with ⟨h, _⟩ | ⟨m, h, _⟩ | ⟨m, _, _, h, _⟩
    · cases op <;> simp_all [simpleOp, okOp]
    · subst h; rfl
    · subst h; rfl

/-- `lock m` in a script of the class: the rest runs with `m` pushed on an increasing stack -/
theorem rrole_lock {m : Nat} {rest : List Op} (h : rrole (.lock m :: rest)) :
    ∃ st, Incr (m :: st) ∧ sections (m :: st) rest = true := by
  rcases h with h | h | ⟨st, hi, h⟩
  · simp [simpleOp] at h
  · simp [consOp] at h
  · rcases sections_cons h with ⟨h, _⟩ | ⟨m', h, hl, h'⟩ | ⟨m', _, _, h, _⟩
    · simp [simpleOp] at h
    · cases h; exact ⟨st, hi.push hl, h'⟩
    · cases h

/-- `unlock m` in a script of the class closes the innermost section, which is the one of `m` -/
theorem rrole_unlock {m : Nat} {rest : List Op} (h : rrole (.unlock m :: rest)) :
    ∃ st, Incr (m :: st) ∧ sections st rest = true := by
  rcases h with h | h | ⟨st, hi, h⟩
  · simp [simpleOp] at h
  · simp [consOp] at h
  · rcases sections_cons h with ⟨h, _⟩ | ⟨m', h, _⟩ | ⟨m', st', e, h, h'⟩
    · simp [simpleOp] at h
    · cases h
    · cases h; subst e; exact ⟨st', hi, h'⟩

/-- the remaining script `l` is inside the sections of a stack of open mutexes that contains `m` -/
def Held (m : Nat) (l : List Op) : Prop := ∃ st, m ∈ st ∧ Incr st ∧ sections st l = true

theorem Held.ne_nil {m : Nat} (h : Held m []) : False := by
  obtain ⟨st, hm, _, h⟩ := h
  cases st with
  | nil => cases hm
  | cons a st' => simp [sections] at h

/-- inside the sections of `m'` the next operation is simple, a `lock` of a smaller mutex, or the `unlock`
of the innermost open mutex (which is at most `m'`) -/
theorem sections_some_cons {m' : Nat} {op : Op} {rest : List Op} (h : Held m' (op :: rest)) :
    (simpleOp op = true ∧ Held m' rest) ∨ (∃ m, op = .lock m ∧ m < m' ∧ Held m' rest) ∨
    (∃ m, op = .unlock m ∧ m ≤ m' ∧ (m ≠ m' → Held m' rest)) := by
  obtain ⟨st, hm, hi, h⟩ := h
  rcases sections_cons h with ⟨h1, h2⟩ | ⟨m, e, hl, h2⟩ | ⟨m, st', e, e', h2⟩
  · exact Or.inl ⟨h1, st, hm, hi, h2⟩
  · refine Or.inr (Or.inl ⟨m, e, ?_, m :: st, List.mem_cons_of_mem _ hm, hi.push hl, h2⟩)
    cases st with
    | nil => cases hm
    | cons a st' => have := hl a st' rfl; have := hi.head_le hm; omega
  · subst e
    refine Or.inr (Or.inr ⟨m, e', hi.head_le hm, fun hne => ⟨st', ?_, hi.tail, h2⟩⟩)
    rcases List.mem_cons.mp hm with e | e
    · exact absurd e.symm hne
    · exact e

/-- a completed operation other than `unlock m` leaves the routine inside the sections of `m` -/
theorem Held.step {m : Nat} {op : Op} {rest : List Op} (h : Held m (op :: rest)) (hop : op ≠ .unlock m) :
    Held m rest := by
  rcases sections_some_cons h with ⟨_, h⟩ | ⟨_, _, _, h⟩ | ⟨m2, e, _, h⟩
  · exact h
  · exact h
  · exact h (fun e' => hop (e' ▸ e))

/-- a routine inside the sections of `m` blocks only in `lock` of a strictly smaller mutex -/
theorem Held.blk {m : Nat} {op : Op} {rest : List Op} (h : Held m (op :: rest)) (hb : blkOp op = true) :
    ∃ m', op = .lock m' ∧ m' < m := by
  rcases sections_some_cons h with ⟨h, _⟩ | ⟨m', e, hl, _⟩ | ⟨m2, e, _⟩
  · cases op <;> simp [blkOp, simpleOp] at hb h
  · exact ⟨m', e, hl⟩
  · subst e; simp [blkOp] at hb

/-! ## counting -/

/-- operations with `f` left in the scripts of the routines `< k` -/
def remN (f : Op → Bool) (s : State) : Nat → Nat
  | 0 => 0
  | k + 1 => remN f s k + (s.R k).script.countP f

/-- operations with `f` completed (trace) or still to do (scripts) -/
def total (f : Op → Bool) (s : State) : Nat := s.log.countP (fun e => f e.op) + remN f s s.n

theorem remN_congr {f : Op → Bool} {s s' : State} (k : Nat)
    (h : ∀ r, r < k → (s'.R r).script = (s.R r).script) : remN f s' k = remN f s k := by
  induction k with
  | zero => rfl
  | succ k ih =>
      simp only [remN]
      rw [ih (fun r hr => h r (by omega)), h k (by omega)]

theorem remN_upd {f : Op → Bool} {s s' : State} {me : Nat} {op : Op} {rest : List Op} (k : Nat) (hk : me < k)
    (h : ∀ r, r ≠ me → (s'.R r).script = (s.R r).script)
    (h1 : (s.R me).script = op :: rest) (h2 : (s'.R me).script = rest) :
    remN f s k = remN f s' k + (if f op = true then 1 else 0) := by
  induction k with
  | zero => omega
  | succ k ih =>
      simp only [remN]
      by_cases hm : me = k
      · subst hm
        rw [remN_congr (s := s) (s' := s') me (fun r hr => h r (by omega)), h1, h2, List.countP_cons]
        omega
      · rw [ih (by omega), h k (fun e => hm e.symm)]
        omega

theorem remN_le {f : Op → Bool} {s : State} {r : Nat} (k : Nat) (hr : r < k) :
    (s.R r).script.countP f ≤ remN f s k := by
  induction k with
  | zero => omega
  | succ k ih =>
      simp only [remN]
      by_cases h : r = k
      · subst h; omega
      · have := ih (by omega); omega

theorem remN_zero {f : Op → Bool} {s : State} (k : Nat)
    (h : ∀ r, r < k → (s.R r).script.countP f = 0) : remN f s k = 0 := by
  induction k with
  | zero => rfl
  | succ k ih =>
      simp only [remN]
      rw [ih (fun r hr => h r (by omega)), h k (by omega)]

theorem total_congr {f : Op → Bool} {s s' : State} (hn : s'.n = s.n) (hl : s'.log = s.log)
    (h : ∀ r, (s'.R r).script = (s.R r).script) : total f s' = total f s := by
  unfold total
  rw [hn, hl, remN_congr s.n (fun r _ => h r)]

theorem total_fin {f : Op → Bool} {s s' : State} {me : Nat} {op : Op} {rest : List Op} {e : Ev}
    (hn : s'.n = s.n) (hl : s'.log = s.log ++ [e]) (he : e.op = op) (hk : me < s.n)
    (h : ∀ r, r ≠ me → (s'.R r).script = (s.R r).script)
    (h1 : (s.R me).script = op :: rest) (h2 : (s'.R me).script = rest) : total f s' = total f s := by
  unfold total
  rw [hn, hl, remN_upd (f := f) s.n hk h h1 h2, List.countP_append, List.countP_cons, he]
  simp only [List.countP_nil]
  omega

/-! ## wake-ups: a frame relation -/

/-- `s'` is `s` after some wake-ups and updates of registrations: the only visible change is that
routines that were not dead became ready -/
structure Wk (s s' : State) : Prop where
  n : s'.n = s.n
  ab : s'.aborted = s.aborted
  log : s'.log = s.log
  defs : s'.defs = s.defs
  hold : ∀ m, (s'.mx m).hold = (s.mx m).hold
  scr : ∀ r, (s'.R r).script = (s.R r).script
  inop : ∀ r, (s'.R r).inOp = (s.R r).inOp
  canc : ∀ r, (s'.R r).canceled = (s.R r).canceled
  st : ∀ r, (s'.R r).state = (s.R r).state ∨ ((s'.R r).state = .ready ∧ (s.R r).state ≠ .dead)
  raii : ∀ r, (s'.R r).raii = (s.R r).raii
  rdefs : s'.rdefs = s.rdefs
  xf : ∀ r, (s'.R r).xfail = (s.R r).xfail
  frd : ∀ r, (s.R r).freed = true → (s'.R r).freed = true

theorem Wk.refl (s : State) : Wk s s :=
  ⟨rfl, rfl, rfl, rfl, fun _ => rfl, fun _ => rfl, fun _ => rfl, fun _ => rfl, fun _ => Or.inl rfl, fun _ => rfl, rfl, fun _ => rfl, fun _ h => h⟩

theorem Wk.trans {a b c : State} (h1 : Wk a b) (h2 : Wk b c) : Wk a c := by
  refine ⟨h2.n.trans h1.n, h2.ab.trans h1.ab, h2.log.trans h1.log, h2.defs.trans h1.defs,
    fun m => (h2.hold m).trans (h1.hold m), fun r => (h2.scr r).trans (h1.scr r),
    fun r => (h2.inop r).trans (h1.inop r), fun r => (h2.canc r).trans (h1.canc r), fun r => ?_,
    fun r => (h2.raii r).trans (h1.raii r), h2.rdefs.trans h1.rdefs,
    fun r => (h2.xf r).trans (h1.xf r), fun r h => h2.frd r (h1.frd r h)⟩
  rcases h1.st r with e1 | ⟨e1, d1⟩ <;> rcases h2.st r with e2 | ⟨e2, d2⟩
  · left; rw [e2, e1]
  · right; exact ⟨e2, by rw [← e1]; exact d2⟩
  · right; exact ⟨by rw [e2, e1], d1⟩
  · right; exact ⟨e2, d1⟩

theorem makeReady_wk (s : State) (r : Nat) : Wk s (makeReady s r).1 := by
  unfold makeReady
  split
  · exact Wk.refl s
  · rename_i h
    refine ⟨rfl, rfl, rfl, rfl, fun _ => rfl, fun i => ?_, fun i => ?_, fun i => ?_, fun i => ?_, fun i => ?_, rfl,
      fun i => ?_, fun i hf => ?_⟩
    all_goals simp only [State.setR, State.R] at *
    all_goals by_cases hi : i = r
    all_goals simp only [hi, if_true, if_false]
    · right; subst hi; exact ⟨trivial, fun e => h (Or.inr e)⟩
    · left; trivial
    · subst hi; exact hf
    · exact hf

theorem resume_wk (s : State) (r : Nat) : Wk s (resume s r).1 := by
  unfold resume
  split
  · exact makeReady_wk s r
  · exact Wk.refl s

theorem resumeOpt_wk (s : State) (o : Option Nat) : Wk s (resumeOpt s o) := by
  cases o
  · exact Wk.refl s
  · exact resume_wk s _

theorem wakeAll_wk : ∀ (l : List Nat) (s : State), Wk s (wakeAll s l)
  | [], s => Wk.refl s
  | t :: ts, s => (resume_wk s t).trans (wakeAll_wk ts _)

theorem tag_wk (s : State) (t : String) : Wk s (tag s t) :=
  ⟨rfl, rfl, rfl, rfl, fun _ => rfl, fun _ => rfl, fun _ => rfl, fun _ => rfl, fun _ => Or.inl rfl, fun _ => rfl, rfl, fun _ => rfl, fun _ h => h⟩

theorem tagIf_wk (s : State) (b : Bool) (t : String) : Wk s (tagIf s b t) := by
  unfold tagIf
  split
  · exact tag_wk s t
  · exact Wk.refl s

theorem wake_wk (s : State) (toks : List Nat) (e : Bool) : Wk s (wake s toks e).1 := by
  have h0 : Wk s (tagIf (tagIf s (decide (2 ≤ toks.length)) "wake2") (!toks.isEmpty && !e) "nonedge") :=
    (tagIf_wk _ _ _).trans (tagIf_wk _ _ _)
  unfold wake
  simp only
  split
  · exact h0.trans (wakeAll_wk _ _)
  · split
    · split
      · exact h0.trans (resume_wk _ _)
      · exact h0
    · exact h0

theorem setCh_wk (s : State) (c : Nat) (x : Chan) : Wk s (s.setCh c x) :=
  ⟨rfl, rfl, rfl, rfl, fun _ => rfl, fun _ => rfl, fun _ => rfl, fun _ => rfl, fun _ => Or.inl rfl, fun _ => rfl, rfl, fun _ => rfl, fun _ h => h⟩

theorem setSm_wk (s : State) (c : Nat) (x : Sem) : Wk s (s.setSm c x) :=
  ⟨rfl, rfl, rfl, rfl, fun _ => rfl, fun _ => rfl, fun _ => rfl, fun _ => rfl, fun _ => Or.inl rfl, fun _ => rfl, rfl, fun _ => rfl, fun _ h => h⟩

theorem setMx_wk (s : State) (m : Nat) (x : Mutex) (h : x.hold = (s.mx m).hold) : Wk s (s.setMx m x) := by
  refine ⟨rfl, rfl, rfl, rfl, fun i => ?_, fun _ => rfl, fun _ => rfl, fun _ => rfl, fun _ => Or.inl rfl, fun _ => rfl, rfl, fun _ => rfl, fun _ h => h⟩
  simp only [State.setMx]
  by_cases hi : i = m
  · simp only [hi, if_true]; exact h
  · simp only [hi, if_false]

/-- `join` registers the caller as the joiner of the target -/
theorem setJoiner_wk (s : State) (t : Nat) (j : Option Nat) : Wk s (s.setR t { s.R t with joiner := j }) := by
  refine ⟨rfl, rfl, rfl, rfl, fun _ => rfl, fun i => ?_, fun i => ?_, fun i => ?_, fun i => ?_, fun i => ?_, rfl,
    fun i => ?_, fun i hf => ?_⟩
  all_goals simp only [State.setR, State.R] at *
  all_goals by_cases hi : i = t
  all_goals simp only [hi, if_true, if_false]
  · left; trivial
  · left; trivial
  · subst hi; exact hf
  · exact hf

/-! ## the invariant -/

/-- switched back to the main context from inside a blocking operation -/
def blkHead (x : Routine) : Prop :=
  x.inOp = true ∧ ∃ op rest, x.script = op :: rest ∧ blkOp op = true

/-- what holds at every point of a restricted execution -/
structure Core (s : State) : Prop where
  nab : s.aborted = false
  canc : ∀ r, (s.R r).canceled = false
  role : ∀ r, rrole (s.R r).script
  hold : ∀ m h, (s.mx m).hold = some h → h < s.n ∧ Held m (s.R h).script
  dead : ∀ r, (s.R r).state = .dead → (s.R r).script = []
  raii : ∀ r, (s.R r).raii = false      -- no `Mutex::Locker` scripts in the class (`MainOK` excludes `defineR`)
  rdefs : s.rdefs = []
  xf : ∀ r, (s.R r).xfail = false       -- a refused `join` (result `fail`) does not end the script
  dxf : ∀ p, p ∈ s.defs → p.1 = false
  jlt : ∀ r t, Op.join t ∈ (s.R r).script → t < r   -- joins go to routines created earlier

/-- routine `r` is not running, and if it is suspended then inside a blocking operation -/
def Loc (s : State) (r : Nat) : Prop :=
  (s.R r).state ≠ .running ∧ ((s.R r).state = .suspend → s.n ≤ r ∨ blkHead (s.R r))

/-- while routine `me` runs -/
structure Mid (s : State) (me : Nat) : Prop where
  core : Core s
  loc : ∀ r, r ≠ me → Loc s r
  stme : (s.R me).state = .running ∨ (s.R me).state = .ready
  lt : me < s.n
  fd : ∀ r, (s.R r).state = .dead → (s.R r).freed = true

/-- in the main context -/
structure Bd (s : State) : Prop where
  core : Core s
  loc : ∀ r, Loc s r
  fd : ∀ r, (s.R r).state = .dead → (s.R r).freed = true    -- a routine is freed in the step in which it dies

/-- when `runOps me` is back in `switchTo`: as `Bd`, but `me` may have returned and is not freed yet -/
structure BdR (s : State) (me : Nat) : Prop where
  core : Core s
  loc : ∀ r, Loc s r
  fd : ∀ r, r ≠ me → (s.R r).state = .dead → (s.R r).freed = true

theorem Bd.toR {s : State} (h : Bd s) (me : Nat) : BdR s me := ⟨h.core, h.loc, fun r _ => h.fd r⟩

/-- frame: number of routines, definitions, conservation of operations -/
structure Fr (s s' : State) : Prop where
  n : s'.n = s.n
  defs : s'.defs = s.defs
  tot : ∀ f, total f s' = total f s

theorem Fr.refl (s : State) : Fr s s := ⟨rfl, rfl, fun _ => rfl⟩
theorem Fr.trans {a b c : State} (h1 : Fr a b) (h2 : Fr b c) : Fr a c :=
  ⟨h2.n.trans h1.n, h2.defs.trans h1.defs, fun f => (h2.tot f).trans (h1.tot f)⟩

theorem Wk.fr {s s' : State} (w : Wk s s') : Fr s s' :=
  ⟨w.n, w.defs, fun _ => total_congr w.n w.log w.scr⟩

theorem Wk.core {s s' : State} (w : Wk s s') (h : Core s) : Core s' := by
  refine ⟨w.ab.trans h.nab, fun r => (w.canc r).trans (h.canc r), fun r => by rw [w.scr]; exact h.role r,
    fun m x hx => ?_, fun r hr => ?_, fun r => (w.raii r).trans (h.raii r), w.rdefs.trans h.rdefs,
    fun r => (w.xf r).trans (h.xf r), fun p hp => h.dxf p (by rw [← w.defs]; exact hp),
    fun r t ht => h.jlt r t (by rw [← w.scr]; exact ht)⟩
  · rw [w.hold] at hx; rw [w.n, w.scr]; exact h.hold m x hx
  · rw [w.scr]
    rcases w.st r with e | ⟨e, _⟩
    · exact h.dead r (e ▸ hr)
    · rw [e] at hr; cases hr

theorem Wk.loc {s s' : State} (w : Wk s s') {r : Nat} (h : Loc s r) : Loc s' r := by
  unfold Loc blkHead at *
  rw [w.n, w.scr, w.inop]
  rcases w.st r with e | ⟨e, _⟩
  · rw [e]; exact h
  · rw [e]; exact ⟨fun x => (by cases x), fun x => (by cases x)⟩

theorem Wk.fd {s s' : State} (w : Wk s s') {r : Nat} (h : (s.R r).state = .dead → (s.R r).freed = true) :
    (s'.R r).state = .dead → (s'.R r).freed = true := by
  intro hd
  rcases w.st r with e | ⟨e, _⟩
  · exact w.frd r (h (e ▸ hd))
  · rw [e] at hd; cases hd

theorem Wk.mid {s s' : State} (w : Wk s s') {me : Nat} (h : Mid s me) : Mid s' me := by
  refine ⟨w.core h.core, fun r hr => w.loc (h.loc r hr), ?_, w.n ▸ h.lt, fun r => w.fd (h.fd r)⟩
  rcases w.st me with e | ⟨e, _⟩
  · rw [e]; exact h.stme
  · exact Or.inr e

theorem Wk.bd {s s' : State} (w : Wk s s') (h : Bd s) : Bd s' :=
  ⟨w.core h.core, fun r => w.loc (h.loc r), fun r => w.fd (h.fd r)⟩

/-- `me` returned inside `switchTo`, which then freed it (and woke its joiner) -/
theorem BdR.bd_of_wk {s s' : State} {me : Nat} (h : BdR s me) (w : Wk s s') (hf : (s'.R me).freed = true) :
    Bd s' := by
  refine ⟨w.core h.core, fun r => w.loc (h.loc r), fun r => ?_⟩
  by_cases e : r = me
  · subst e; exact fun _ => hf
  · exact w.fd (h.fd r e)

theorem BdR.bd_of_alive {s : State} {me : Nat} (h : BdR s me) (hd : (s.R me).state ≠ .dead) : Bd s := by
  refine ⟨h.core, h.loc, fun r hr => ?_⟩
  by_cases e : r = me
  · subst e; exact absurd hr hd
  · exact h.fd r e hr

/-- result of one operation of `me`: it completed and `me` runs on, or `me` switched back -/
def OpPost (s : State) (me : Nat) (rest : List Op) (p : State × Ctl) : Prop :=
  Fr s p.1 ∧ ((p.2 = .next ∧ Mid p.1 me ∧ (p.1.R me).script = rest) ∨ (p.2 = .block ∧ Bd p.1))

theorem OpPost.mono {s0 s : State} {me : Nat} {rest : List Op} {p : State × Ctl} (f : Fr s0 s)
    (h : OpPost s me rest p) : OpPost s0 me rest p := ⟨f.trans h.1, h.2⟩

/-- an operation completes (the mutex table may have changed in between); scripts of the class are created
without xfail, so also a failed operation (a refused `join`) lets the script run on -/
theorem fin_post {s s1 : State} {me : Nat} {op : Op} {rest : List Op} {res : Res}
    (hM : Mid s me) (hs : (s.R me).script = op :: rest)
    (hn : s1.n = s.n) (hd : s1.defs = s.defs) (ha : s1.aborted = s.aborted) (hl : s1.log = s.log)
    (hr : s1.rts = s.rts) (hrd : s1.rdefs = s.rdefs)
    (hh : ∀ m h, (s1.mx m).hold = some h →
      h < s.n ∧ Held m (if h = me then rest else (s.R h).script)) :
    OpPost s me rest (finish s1 me op rest res) := by
  have hR : ∀ r, (finish s1 me op rest res).1.R r =
      if r = me then { s.R me with script := rest, inOp := false, done := (s.R me).done + 1 } else s.R r := by
    intro r; simp only [finish, State.setR, State.R, hr]
  have hme := hR me
  simp only [if_true] at hme
  have hne : ∀ r, r ≠ me → (finish s1 me op rest res).1.R r = s.R r := by
    intro r h; rw [hR r]; simp only [h, if_false]
  have hn' : (finish s1 me op rest res).1.n = s.n := hn
  have hraii : ∀ r, ((finish s1 me op rest res).1.R r).raii = false := by
    intro r
    by_cases h : r = me
    · subst h; rw [hme]; exact hM.core.raii r
    · rw [hne r h]; exact hM.core.raii r
  have hxf : ∀ r, ((finish s1 me op rest res).1.R r).xfail = false := by
    intro r
    by_cases h : r = me
    · subst h; rw [hme]; exact hM.core.xf r
    · rw [hne r h]; exact hM.core.xf r
  have hdxf : ∀ p, p ∈ (finish s1 me op rest res).1.defs → p.1 = false := by
    intro p hp
    have hp' : p ∈ s1.defs := hp
    rw [hd] at hp'
    exact hM.core.dxf p hp'
  have hjlt : ∀ r t, Op.join t ∈ ((finish s1 me op rest res).1.R r).script → t < r := by
    intro r t ht
    by_cases h : r = me
    · subst h; rw [hme] at ht
      exact hM.core.jlt r t (by rw [hs]; exact List.mem_cons_of_mem _ ht)
    · rw [hne r h] at ht; exact hM.core.jlt r t ht
  have hfd : ∀ r, ((finish s1 me op rest res).1.R r).state = .dead → ((finish s1 me op rest res).1.R r).freed = true := by
    intro r hx
    by_cases h : r = me
    · subst h; rw [hme] at hx
      rcases hM.stme with e | e <;> rw [e] at hx <;> cases hx
    · rw [hne r h] at hx ⊢; exact hM.fd r hx
  have hx1 : (s1.R me).xfail = false := by
    simp only [State.R, hr]; exact hM.core.xf me
  refine ⟨⟨hn, hd, fun f => ?_⟩, Or.inl ⟨?_, ⟨⟨?_, ?_, ?_, ?_, ?_, hraii, hrd.trans hM.core.rdefs, hxf, hdxf, hjlt⟩,
    ?_, ?_, ?_, hfd⟩, ?_⟩⟩
  · refine total_fin (e := { r := me, op := op, res := res, canc := (s1.R me).canceled }) hn' ?_ rfl hM.lt
      (fun r h => by rw [hne r h]) hs (by rw [hme])
    simp only [finish, hl]
  · simp only [finish, hx1, Bool.false_eq_true, and_false, if_false]
  · exact ha.trans hM.core.nab
  · intro r
    by_cases h : r = me
    · subst h; rw [hme]; exact hM.core.canc r
    · rw [hne r h]; exact hM.core.canc r
  · intro r
    by_cases h : r = me
    · subst h; rw [hme]; exact rrole_tail (hs ▸ hM.core.role r)
    · rw [hne r h]; exact hM.core.role r
  · intro m h hx
    have := hh m h hx
    rw [hn']
    refine ⟨this.1, ?_⟩
    by_cases e : h = me
    · subst e; rw [hme]; simpa using this.2
    · rw [hne h e]; simpa [e] using this.2
  · intro r hx
    by_cases h : r = me
    · subst h; rw [hme] at hx ⊢
      rcases hM.stme with e | e <;> rw [e] at hx <;> cases hx
    · rw [hne r h] at hx ⊢; exact hM.core.dead r hx
  · intro r h
    have := hM.loc r h
    unfold Loc at *
    rw [hne r h, hn']; exact this
  · rw [hme]; exact hM.stme
  · rw [hn']; exact hM.lt
  · rw [hme]

/-- an operation other than `unlock` completes, nothing else changes -/
theorem fin_post0 {s : State} {me : Nat} {op : Op} {rest : List Op} {res : Res}
    (hM : Mid s me) (hs : (s.R me).script = op :: rest) (hop : ∀ m, op ≠ .unlock m) :
    OpPost s me rest (finish s me op rest res) := by
  refine fin_post hM hs rfl rfl rfl rfl rfl rfl (fun m h hx => ?_)
  have := hM.core.hold m h hx
  refine ⟨this.1, ?_⟩
  by_cases e : h = me
  · subst e
    simp only [if_true]
    rw [hs] at this
    exact this.2.step (hop m)
  · simp only [e, if_false]; exact this.2

/-- `me` switches back to the main context -/
theorem blk_post {s s2 : State} {me : Nat} {op : Op} {rest : List Op}
    (hM : Mid s me) (hs : (s.R me).script = op :: rest)
    (hn : s2.n = s.n) (hd : s2.defs = s.defs) (ha : s2.aborted = s.aborted) (hl : s2.log = s.log)
    (hmx : s2.mx = s.mx) (hrd : s2.rdefs = s.rdefs) (h5 : (s2.R me).raii = false ∧ (s2.R me).xfail = false)
    (ho : ∀ r, r ≠ me → s2.R r = s.R r)
    (h1 : (s2.R me).script = op :: rest) (h2 : (s2.R me).inOp = true) (h3 : (s2.R me).canceled = false)
    (h4 : (s2.R me).state = .ready ∨ ((s2.R me).state = .suspend ∧ blkOp op = true)) :
    OpPost s me rest (s2, .block) := by
  have hscr : ∀ r, (s2.R r).script = (s.R r).script := by
    intro r
    by_cases h : r = me
    · subst h; rw [h1, hs]
    · rw [ho r h]
  have hraii : ∀ r, (s2.R r).raii = false := by
    intro r
    by_cases h : r = me
    · subst h; exact h5.1
    · rw [ho r h]; exact hM.core.raii r
  have hxf : ∀ r, (s2.R r).xfail = false := by
    intro r
    by_cases h : r = me
    · subst h; exact h5.2
    · rw [ho r h]; exact hM.core.xf r
  have hfd : ∀ r, (s2.R r).state = .dead → (s2.R r).freed = true := by
    intro r hx
    by_cases h : r = me
    · subst h
      rcases h4 with e | ⟨e, _⟩ <;> rw [e] at hx <;> cases hx
    · rw [ho r h] at hx ⊢; exact hM.fd r hx
  refine ⟨⟨hn, hd, fun f => total_congr hn hl hscr⟩, Or.inr ⟨rfl, ⟨⟨?_, ?_, ?_, ?_, ?_, hraii, hrd.trans hM.core.rdefs,
    hxf, fun p hp => hM.core.dxf p (by rw [← hd]; exact hp),
    fun r t ht => hM.core.jlt r t (by rw [← hscr]; exact ht)⟩, ?_, hfd⟩⟩⟩
  · exact ha.trans hM.core.nab
  · intro r
    by_cases h : r = me
    · subst h; exact h3
    · rw [ho r h]; exact hM.core.canc r
  · intro r; rw [hscr]; exact hM.core.role r
  · intro m h hx
    show h < s2.n ∧ _
    rw [hmx] at hx; rw [hn, hscr]; exact hM.core.hold m h hx
  · intro r hx
    by_cases h : r = me
    · subst h
      rcases h4 with e | ⟨e, _⟩ <;> rw [e] at hx <;> cases hx
    · rw [hscr]; rw [ho r h] at hx; exact hM.core.dead r hx
  · intro r
    by_cases h : r = me
    · subst h
      unfold Loc
      rcases h4 with e | ⟨e, b⟩
      · rw [e]; exact ⟨fun x => (by cases x), fun x => (by cases x)⟩
      · rw [e]; exact ⟨fun x => (by cases x), fun _ => Or.inr ⟨h2, op, rest, h1, b⟩⟩
    · have := hM.loc r h
      unfold Loc at *
      rw [ho r h, hn]; exact this

theorem makeReady_state {s : State} {r : Nat} (h : (s.R r).state ≠ .dead) :
    ((makeReady s r).1.R r).state = .ready := by
  unfold makeReady
  split
  · rename_i h'
    rcases h' with h' | h'
    · exact h'
    · exact absurd h' h
  · simp only [State.setR, State.R, if_true]

theorem yield_post {s : State} {me : Nat} {op : Op} {rest : List Op}
    (hM : Mid s me) (hs : (s.R me).script = op :: rest) :
    OpPost s me rest (blockIn (makeReady s me).1 me op rest) := by
  have w := makeReady_wk s me
  have hnd : (s.R me).state ≠ .dead := by
    rcases hM.stme with e | e <;> rw [e] <;> exact fun x => by cases x
  have hst := makeReady_state hnd
  refine OpPost.mono w.fr ?_
  refine blk_post (w.mid hM) ((w.scr me).trans hs) rfl rfl rfl rfl rfl rfl ?_ (fun r h => ?_) ?_ ?_ ?_ ?_
  · simp only [State.setR, State.R, if_true]; exact ⟨(w.mid hM).core.raii me, (w.mid hM).core.xf me⟩
  · simp only [State.setR, State.R, h, if_false]
  · simp only [State.setR, State.R, if_true]
  · simp only [State.setR, State.R, if_true]
  · simp only [State.setR, State.R, if_true]; exact (w.canc me).trans (hM.core.canc me)
  · left; simp only [State.setR, State.R, if_true]; exact hst

theorem waitBlock_post {s : State} {me : Nat} {op : Op} {rest : List Op}
    (hM : Mid s me) (hs : (s.R me).script = op :: rest) (hb : blkOp op = true) :
    OpPost s me rest (waitBlock s me op rest) := by
  unfold waitBlock
  rw [hM.core.canc me]
  simp only [Bool.false_eq_true, if_false]
  refine blk_post hM hs rfl rfl rfl rfl rfl rfl ?_ (fun r h => ?_) ?_ ?_ ?_ ?_
  · simp only [State.setR, State.R, if_true]; exact ⟨hM.core.raii me, hM.core.xf me⟩
  · simp only [State.setR, State.R, h, if_false]
  · simp only [State.setR, State.R, if_true]
  · simp only [State.setR, State.R, if_true]
  · simp only [State.setR, State.R, if_true]; exact hM.core.canc me
  · right; simp only [State.setR, State.R, if_true]; exact ⟨trivial, hb⟩

/-- the same after wake-ups / registration updates -/
theorem waitBlock_post' {s s1 : State} {me : Nat} {op : Op} {rest : List Op} (w : Wk s s1)
    (hM : Mid s me) (hs : (s.R me).script = op :: rest) (hb : blkOp op = true) :
    OpPost s me rest (waitBlock s1 me op rest) :=
  OpPost.mono w.fr (waitBlock_post (w.mid hM) ((w.scr me).trans hs) hb)

theorem fin_post' {s s1 : State} {me : Nat} {op : Op} {rest : List Op} {res : Res} (w : Wk s s1)
    (hM : Mid s me) (hs : (s.R me).script = op :: rest) (hop : ∀ m, op ≠ .unlock m) :
    OpPost s me rest (finish s1 me op rest res) :=
  OpPost.mono w.fr (fin_post0 (w.mid hM) ((w.scr me).trans hs) hop)

/-! ## one operation -/

theorem execOp_post {s : State} {me : Nat} {op : Op} {rest : List Op}
    (hM : Mid s me) (hs : (s.R me).script = op :: rest) : OpPost s me rest (execOp s me op rest) := by
  have hrole : rrole (op :: rest) := hs ▸ hM.core.role me
  have hok := rrole_head hrole
  have hc := hM.core.canc me
  cases op <;> simp only [okOp, Bool.false_eq_true] at hok
  case yield =>
    simp only [execOp, hc, Bool.false_eq_true, if_false]
    split
    · exact fin_post0 hM hs (fun m => by simp)
    · exact yield_post hM hs
  case send c v =>
    show OpPost s me rest (finish ((wake s (s.ch c).tokens (s.ch c).queue.isEmpty).1.setCh c
      { queue := (s.ch c).queue ++ [v], tokens := (wake s (s.ch c).tokens (s.ch c).queue.isEmpty).2 })
      me (.send c v) rest .ok)
    exact fin_post' ((wake_wk _ _ _).trans (setCh_wk _ _ _)) hM hs (fun m => by simp)
  case release k =>
    show OpPost s me rest (finish ((wake s (s.sm k).tokens (decide ((s.sm k).count = 0))).1.setSm k
      { s.sm k with count := (s.sm k).count + 1,
                    tokens := (wake s (s.sm k).tokens (decide ((s.sm k).count = 0))).2 })
      me (.release k) rest .ok)
    exact fin_post' ((wake_wk _ _ _).trans (setSm_wk _ _ _)) hM hs (fun m => by simp)
  case recv c =>
    simp only [execOp, hc, Bool.false_eq_true, and_false, if_false]
    split
    · exact fin_post' (setCh_wk _ _ _) hM hs (fun m => by simp)
    · split
      · exact waitBlock_post' (tag_wk _ _) hM hs rfl
      · exact waitBlock_post' ((setCh_wk _ _ _).trans (tagIf_wk _ _ _)) hM hs rfl
  case acquire k =>
    simp only [execOp, hc, Bool.false_eq_true, and_false, if_false]
    split
    · split
      · exact waitBlock_post' (tag_wk _ _) hM hs rfl
      · exact waitBlock_post' ((setSm_wk _ _ _).trans (tagIf_wk _ _ _)) hM hs rfl
    · exact fin_post' (setSm_wk _ _ _) hM hs (fun m => by simp)
  case join t =>
    simp only [execOp, hc, Bool.false_eq_true, if_false]
    split
    · exact fin_post0 hM hs (fun m => by simp)
    · split
      · split
        · exact fin_post0 hM hs (fun m => by simp)
        · split
          · exact fin_post0 hM hs (fun m => by simp)      -- refused: `t` has a joiner already (result `fail`)
          · have w := setJoiner_wk s t (some me)
            have h := waitBlock_post' w hM hs rfl
            unfold waitBlock at h
            rw [(w.canc me).trans hc] at h
            simpa using h
      · exact fin_post0 hM hs (fun m => by simp)          -- refused: `t` is freed or was never created
  case lock m =>
    obtain ⟨st0, hi0, hsec⟩ := rrole_lock hrole
    simp only [execOp, hc, Bool.false_eq_true, and_false, if_false]
    split
    · refine fin_post hM hs rfl rfl rfl rfl rfl rfl (fun m' h hx => ?_)
      by_cases e : m' = m
      · subst e
        simp only [State.setMx, if_true, Option.some.injEq] at hx
        subst hx
        simp only [if_true]
        exact ⟨hM.lt, m' :: st0, List.mem_cons_self, hi0, hsec⟩
      · simp only [State.setMx, e, if_false] at hx
        have := hM.core.hold m' h hx
        refine ⟨this.1, ?_⟩
        by_cases e' : h = me
        · subst e'
          rw [hs] at this
          simp only [if_true]
          exact this.2.step (by simp)
        · simp only [e', if_false]; exact this.2
    · split
      · exact fin_post0 hM hs (fun m => by simp)
      · split
        · exact waitBlock_post' (tag_wk _ _) hM hs rfl
        · exact waitBlock_post' ((setMx_wk s m { s.mx m with waiters := (s.mx m).waiters ++ [me] } rfl).trans (tagIf_wk _ _ _)) hM hs rfl
  case unlock m =>
    simp only [execOp]
    split
    · rename_i hh
      show OpPost s me rest (finish ((wake s (s.mx m).waiters true).1.setMx m
        { hold := none, waiters := (wake s (s.mx m).waiters true).2 }) me (.unlock m) rest .ok)
      have w := wake_wk s (s.mx m).waiters true
      have hM1 := w.mid hM
      have hs1 := (w.scr me).trans hs
      refine OpPost.mono w.fr (fin_post hM1 hs1 rfl rfl rfl rfl rfl rfl (fun m' h hx => ?_))
      by_cases e : m' = m
      · subst e
        simp only [State.setMx, if_true] at hx
        cases hx
      · simp only [State.setMx, e, if_false] at hx
        have := hM1.core.hold m' h hx
        refine ⟨this.1, ?_⟩
        by_cases e' : h = me
        · subst e'
          rw [hs1] at this
          simp only [if_true]
          exact this.2.step (by simpa using fun e'' => e e''.symm)
        · simp only [e', if_false]; exact this.2
    · rename_i hh
      refine fin_post hM hs rfl rfl rfl rfl rfl rfl (fun m' h hx => ?_)
      have := hM.core.hold m' h hx
      refine ⟨this.1, ?_⟩
      by_cases e' : h = me
      · subst e'
        rw [hs] at this
        simp only [if_true]
        refine this.2.step (fun e'' => ?_)
        cases e''
        exact hh hx
      · simp only [e', if_false]; exact this.2

/-! ## a routine runs, a pass of the loop -/

theorem die_bd {s : State} {me : Nat} (hM : Mid s me) (hs : (s.R me).script = []) :
    BdR (die s me) me ∧ Fr s (die s me) := by
  have ho : ∀ r, r ≠ me → (die s me).R r = s.R r := by
    intro r h; simp only [die, State.setR, State.R, h, if_false]
  have hme : (die s me).R me = { s.R me with state := .dead, script := [], inOp := false } := by
    simp only [die, State.setR, State.R, if_true]
  have hscr : ∀ r, ((die s me).R r).script = (s.R r).script := by
    intro r
    by_cases h : r = me
    · subst h; rw [hme, hs]
    · rw [ho r h]
  have hraii : ∀ r, ((die s me).R r).raii = false := by
    intro r
    by_cases h : r = me
    · subst h; rw [hme]; exact hM.core.raii r
    · rw [ho r h]; exact hM.core.raii r
  have hxf : ∀ r, ((die s me).R r).xfail = false := by
    intro r
    by_cases h : r = me
    · subst h; rw [hme]; exact hM.core.xf r
    · rw [ho r h]; exact hM.core.xf r
  refine ⟨⟨⟨hM.core.nab, ?_, ?_, ?_, ?_, hraii, hM.core.rdefs, hxf, hM.core.dxf,
    fun r t ht => hM.core.jlt r t (by rw [← hscr]; exact ht)⟩, ?_, ?_⟩, ⟨rfl, rfl, fun f => total_congr rfl rfl hscr⟩⟩
  · intro r
    by_cases h : r = me
    · subst h; rw [hme]; exact hM.core.canc r
    · rw [ho r h]; exact hM.core.canc r
  · intro r; rw [hscr]; exact hM.core.role r
  · intro m h hx
    show h < s.n ∧ _
    rw [hscr]; exact hM.core.hold m h hx
  · intro r hx
    by_cases h : r = me
    · subst h; rw [hme]
    · rw [hscr]; rw [ho r h] at hx; exact hM.core.dead r hx
  · intro r
    by_cases h : r = me
    · subst h
      unfold Loc
      rw [hme]
      exact ⟨fun x => (by cases x), fun x => (by cases x)⟩
    · have := hM.loc r h
      unfold Loc at *
      rw [ho r h]; exact this
  · intro r h hx
    rw [ho r h] at hx ⊢; exact hM.fd r hx

theorem runOps_bd {me : Nat} : ∀ (ops : List Op) (s : State), Mid s me → (s.R me).script = ops →
    BdR (runOps me ops s) me ∧ Fr s (runOps me ops s)
  | [], s, hM, hs => by
      have e : runOps me [] s = die s me := by
        simp only [runOps, fin, unwind, hM.core.raii me, Bool.false_eq_true, if_false]
      rw [e]; exact die_bd hM hs
  | op :: rest, s, hM, hs => by
      have hp := execOp_post hM hs
      rw [runOps]
      rcases h : execOp s me op rest with ⟨s1, c⟩
      rw [h] at hp
      rcases hp with ⟨fr, ⟨h1, h2, h3⟩ | ⟨h1, h2⟩⟩
      · simp only at h1 h2 h3
        subst h1
        have := runOps_bd rest s1 h2 h3
        exact ⟨this.1, fr.trans this.2⟩
      · simp only at h1 h2
        subst h1
        exact ⟨h2.toR me, fr⟩

theorem freeRoutine_wk {s : State} {r : Nat} (h : (s.R r).state = .dead) : Wk s (freeRoutine s r) := by
  refine ⟨rfl, rfl, rfl, rfl, fun _ => rfl, fun i => ?_, fun i => ?_, fun i => ?_, fun i => ?_, fun i => ?_, rfl,
    fun i => ?_, fun i hf => ?_⟩
  all_goals simp only [freeRoutine, State.setR, State.R] at *
  all_goals by_cases hi : i = r
  all_goals simp only [hi, if_true, if_false]
  · left; exact h.symm
  · left; trivial
  · exact hf

theorem switchTo_bd {s : State} {r : Nat} (hB : Bd s) (hr : r < s.n) :
    Bd (switchTo s r) ∧ Fr s (switchTo s r) := by
  have ho : ∀ i, i ≠ r → (s.setR r { s.R r with state := .running, started := true }).R i = s.R i := by
    intro i h; simp only [State.setR, State.R, h, if_false]
  have hme : (s.setR r { s.R r with state := .running, started := true }).R r =
      { s.R r with state := .running, started := true } := by
    simp only [State.setR, State.R, if_true]
  have hscr : ∀ i, ((s.setR r { s.R r with state := .running, started := true }).R i).script =
      (s.R i).script := by
    intro i
    by_cases h : i = r
    · subst h; rw [hme]
    · rw [ho i h]
  have hM : Mid (s.setR r { s.R r with state := .running, started := true }) r := by
    have hxf : ∀ i, ((s.setR r { s.R r with state := .running, started := true }).R i).xfail = false := by
      intro i
      by_cases h : i = r
      · subst h; rw [hme]; exact hB.core.xf i
      · rw [ho i h]; exact hB.core.xf i
    have hfd : ∀ i, ((s.setR r { s.R r with state := .running, started := true }).R i).state = .dead →
        ((s.setR r { s.R r with state := .running, started := true }).R i).freed = true := by
      intro i hx
      by_cases h : i = r
      · subst h; rw [hme] at hx; cases hx
      · rw [ho i h] at hx ⊢; exact hB.fd i hx
    refine ⟨⟨hB.core.nab, ?_, ?_, ?_, ?_, ?_, hB.core.rdefs, hxf, hB.core.dxf,
      fun i t ht => hB.core.jlt i t (by rw [← hscr]; exact ht)⟩, ?_, ?_, hr, hfd⟩
    · intro i
      by_cases h : i = r
      · subst h; rw [hme]; exact hB.core.canc i
      · rw [ho i h]; exact hB.core.canc i
    · intro i; rw [hscr]; exact hB.core.role i
    · intro m h hx
      show h < s.n ∧ _
      rw [hscr]; exact hB.core.hold m h hx
    · intro i hx
      by_cases h : i = r
      · subst h; rw [hme] at hx; cases hx
      · rw [hscr]; rw [ho i h] at hx; exact hB.core.dead i hx
    · intro i
      by_cases h : i = r
      · subst h; rw [hme]; exact hB.core.raii i
      · rw [ho i h]; exact hB.core.raii i
    · intro i h
      have := hB.loc i
      unfold Loc at *
      rw [ho i h]; exact this
    · left; rw [hme]
  have fr0 : Fr s (s.setR r { s.R r with state := .running, started := true }) :=
    ⟨rfl, rfl, fun f => total_congr rfl rfl hscr⟩
  have h2 := runOps_bd _ _ hM rfl
  unfold switchTo
  simp only
  split
  · rename_i hd
    have w1 := freeRoutine_wk hd
    have w := fun o => w1.trans (resumeOpt_wk _ o)
    refine ⟨h2.1.bd_of_wk (w _) ((resumeOpt_wk _ _).frd r ?_), (fr0.trans h2.2).trans (w _).fr⟩
    simp only [freeRoutine, State.setR, State.R, if_true]
  · rename_i hd
    exact ⟨h2.1.bd_of_alive hd, fr0.trans h2.2⟩

theorem drain_bd : ∀ (l : List Nat) (s : State), Bd s → Bd (drain l s) ∧ Fr s (drain l s)
  | [], s, h => ⟨h, Fr.refl s⟩
  | t :: rest, s, h => by
      have w0 : Wk s { s with tmp := rest } :=
        ⟨rfl, rfl, rfl, rfl, fun _ => rfl, fun _ => rfl, fun _ => rfl, fun _ => rfl, fun _ => Or.inl rfl, fun _ => rfl, rfl, fun _ => rfl, fun _ h => h⟩
      rw [drain]
      split
      · rename_i ha
        have hlt : t < s.n := by
          simp only [alive, Bool.and_eq_true, decide_eq_true_eq] at ha
          exact ha.1
        have h1 := switchTo_bd (w0.bd h) (r := t) hlt
        have h2 := drain_bd rest _ h1.1
        exact ⟨h2.1, (w0.fr.trans h1.2).trans h2.2⟩
      · have h2 := drain_bd rest _ (w0.bd h)
        exact ⟨h2.1, w0.fr.trans h2.2⟩

theorem schedule_bd {s : State} (h : Bd s) : Bd (schedule s) ∧ Fr s (schedule s) := by
  have w0 : Wk s { s with readyq := [], tmp := s.readyq } :=
    ⟨rfl, rfl, rfl, rfl, fun _ => rfl, fun _ => rfl, fun _ => rfl, fun _ => rfl, fun _ => Or.inl rfl, fun _ => rfl, rfl, fun _ => rfl, fun _ h => h⟩
  have h2 := drain_bd s.readyq _ (w0.bd h)
  exact ⟨h2.1, w0.fr.trans h2.2⟩

theorem batch_bd : ∀ (k : Nat) (s : State), Bd s → Bd (batch k s) ∧ Fr s (batch k s)
  | 0, s, h => ⟨h, Fr.refl s⟩
  | k + 1, s, h => by
      have h1 := schedule_bd h
      have h2 := batch_bd k _ h1.1
      exact ⟨h2.1, h1.2.trans h2.2⟩

theorem loopPass_bd {s : State} (h : Bd s) : Bd (loopPass s) ∧ Fr s (loopPass s) := by
  have w0 : Wk s { s with pend := 0 } :=
    ⟨rfl, rfl, rfl, rfl, fun _ => rfl, fun _ => rfl, fun _ => rfl, fun _ => rfl, fun _ => Or.inl rfl, fun _ => rfl, rfl, fun _ => rfl, fun _ h => h⟩
  have h2 := batch_bd s.pend _ (w0.bd h)
  exact ⟨h2.1, w0.fr.trans h2.2⟩

/-! ## the main context: define / new / pass -/

theorem getD_xf {defs : List (Bool × List Op)} (h : ∀ p, p ∈ defs → p.1 = false) (d : Nat) :
    (defs.getD d (false, [])).1 = false := by
  rw [List.getD_eq_getElem?_getD]
  cases hd : defs[d]? with
  | none => rfl
  | some p => exact h p (List.mem_of_getElem? hd)

theorem create_bd {s : State} {d : Nat} (h : Bd s) (hrole : rrole (s.defs.getD d (false, [])).2)
    (hj : ∀ t, Op.join t ∈ (s.defs.getD d (false, [])).2 → t < s.n) :
    Bd (create s d true) ∧ (create s d true).defs = s.defs ∧ (create s d true).n = s.n + 1 ∧
    ∀ f, total f (create s d true) = total f s + (s.defs.getD d (false, [])).2.countP f := by
  have ho : ∀ i, i ≠ s.n → (createCore s d).R i = s.R i := by
    intro i hi; simp only [createCore, State.R, hi, if_false]
  have h1 : ((createCore s d).R s.n).script = (s.defs.getD d (false, [])).2 := by
    simp only [createCore, State.R, if_true]
  have h2 : ((createCore s d).R s.n).state = .suspend := by
    simp only [createCore, State.R, if_true]
  have h3 : ((createCore s d).R s.n).canceled = false := by
    simp only [createCore, State.R, if_true]
  have hn : (createCore s d).n = s.n + 1 := rfl
  have h4 : ((createCore s d).R s.n).xfail = false := by
    simp only [createCore, State.R, if_true, getD_xf h.core.dxf d, Bool.false_and]
  have hC : Core (createCore s d) := by
    refine ⟨h.core.nab, ?_, ?_, ?_, ?_, ?_, h.core.rdefs, ?_, h.core.dxf, ?_⟩
    · intro i
      by_cases hi : i = s.n
      · subst hi; exact h3
      · rw [ho i hi]; exact h.core.canc i
    · intro i
      by_cases hi : i = s.n
      · subst hi; rw [h1]; exact hrole
      · rw [ho i hi]; exact h.core.role i
    · intro m x hx
      have := h.core.hold m x hx
      rw [hn, ho x (by omega)]
      exact ⟨by omega, this.2⟩
    · intro i hx
      by_cases hi : i = s.n
      · subst hi; rw [h2] at hx; cases hx
      · rw [ho i hi] at hx ⊢; exact h.core.dead i hx
    · intro i
      by_cases hi : i = s.n
      · subst hi; simp only [createCore, State.R, if_true, h.core.rdefs, List.not_mem_nil, decide_false]
      · rw [ho i hi]; exact h.core.raii i
    · intro i
      by_cases hi : i = s.n
      · subst hi; exact h4
      · rw [ho i hi]; exact h.core.xf i
    · intro i t ht
      by_cases hi : i = s.n
      · subst hi; rw [h1] at ht; exact hj t ht
      · rw [ho i hi] at ht; exact h.core.jlt i t ht
  have w := makeReady_wk (createCore s d) s.n
  have hst : ((makeReady (createCore s d) s.n).1.R s.n).state = .ready :=
    makeReady_state (by rw [h2]; exact fun x => (by cases x))
  have hcr : create s d true = (makeReady (createCore s d) s.n).1 := by
    simp only [create, if_true]
  rw [hcr]
  refine ⟨⟨w.core hC, fun i => ?_, fun i => ?_⟩, w.defs, w.n.trans hn, fun f => ?_⟩
  · by_cases hi : i = s.n
    · subst hi
      unfold Loc
      rw [hst]
      exact ⟨fun x => (by cases x), fun x => (by cases x)⟩
    · refine w.loc ?_
      have := h.loc i
      unfold Loc at *
      rw [ho i hi, hn]
      refine ⟨this.1, fun hx => ?_⟩
      rcases this.2 hx with h | h
      · left; omega
      · right; exact h
  · by_cases hi : i = s.n
    · subst hi; rw [hst]; exact fun x => (by cases x)
    · refine w.fd ?_
      rw [ho i hi]; exact h.fd i
  · rw [w.fr.tot f]
    unfold total
    rw [hn]
    simp only [remN]
    rw [h1, remN_congr (s := s) (s' := createCore s d) s.n (fun r hr => by rw [ho r (by omega)])]
    show List.countP (fun e => f e.op) s.log + _ = _
    omega

/-- the invariant along `run`: `P` is the list of the scripts created so far (so the next routine created
has index `P.length`) -/
def PInv (P : List (List Op)) (s : State) : Prop :=
  Bd s ∧ P.length = s.n ∧ ∀ f, total f s = P.flatten.countP f

theorem step_eq {s : State} {op : MainOp} (h1 : s.aborted = false) (h2 : (applyMain s op).aborted = false) :
    step s op = loopPass (applyMain s op) := by
  simp only [step, h1, h2, Bool.false_eq_true, if_false]

theorem joinsLt_mem {i : Nat} {l : List Op} (h : joinsLt i l = true) {t : Nat} (ht : Op.join t ∈ l) : t < i := by
  have := List.all_eq_true.mp h _ ht
  simpa using this

theorem run_pinv : ∀ (ops : List MainOp) (s : State) (P : List (List Op)),
    ops.all MainOK = true → (∀ p, p ∈ createdAux s.defs ops → roleOK p = true) →
    joinsOK P.length (createdAux s.defs ops) = true → PInv P s →
    PInv (P ++ createdAux s.defs ops) (run s ops)
  | [], s, P, _, _, _, h => by simpa [createdAux, run] using h
  | op :: ops, s, P, hok, hro, hjo, h => by
      simp only [List.all_cons, Bool.and_eq_true] at hok
      cases op with
      | define xf l =>
          have hxf : xf = false := by cases xf <;> simp_all [MainOK]
          subst hxf
          let s1 : State := { s with defs := s.defs ++ [(false, l)] }
          have hB1 : Bd s1 :=
            ⟨⟨h.1.core.nab, h.1.core.canc, h.1.core.role, h.1.core.hold, h.1.core.dead, h.1.core.raii, h.1.core.rdefs,
              h.1.core.xf, fun p hp => by
                rcases List.mem_append.mp hp with hp | hp
                · exact h.1.core.dxf p hp
                · rw [List.mem_singleton.mp hp],
              h.1.core.jlt⟩, h.1.loc, h.1.fd⟩
          have ht1 : ∀ f, total f s1 = total f s := fun f => total_congr rfl rfl (fun _ => rfl)
          have h2 := loopPass_bd hB1
          have hst : step s (.define false l) = loopPass s1 := step_eq h.1.core.nab h.1.core.nab
          have hd : (loopPass s1).defs = s.defs ++ [(false, l)] := h2.2.defs
          rw [run, hst]
          have := run_pinv ops (loopPass s1) P hok.2 (by rw [hd]; exact hro) (by rw [hd]; exact hjo)
            ⟨h2.1, h.2.1.trans h2.2.n.symm, fun f => by rw [h2.2.tot f, ht1 f]; exact h.2.2 f⟩
          rw [hd] at this
          exact this
      | new d now =>
          have hnow : now = true := by cases now <;> simp_all [MainOK]
          subst hnow
          have hr1 : rrole (s.defs.getD d (false, [])).2 :=
            roleOK_rrole (hro _ (by simp [createdAux]))
          simp only [createdAux, joinsOK, Bool.and_eq_true] at hjo
          have h1 := create_bd h.1 hr1 (fun t ht => by rw [← h.2.1]; exact joinsLt_mem hjo.1 ht)
          have h2 := loopPass_bd h1.1
          have hst : step s (.new d true) = loopPass (create s d true) := step_eq h.1.core.nab h1.1.core.nab
          have hd : (loopPass (create s d true)).defs = s.defs := h2.2.defs.trans h1.2.1
          rw [run, hst]
          have := run_pinv ops (loopPass (create s d true)) (P ++ [(s.defs.getD d (false, [])).2]) hok.2
            (by rw [hd]; exact fun p hp => hro p (by simp [createdAux, hp]))
            (by rw [hd]; simpa using hjo.2)
            ⟨h2.1, by rw [h2.2.n, h1.2.2.1, ← h.2.1]; simp, fun f => by
              rw [h2.2.tot f, h1.2.2.2 f, h.2.2 f]
              simp [List.countP_append]⟩
          rw [hd] at this
          simpa [createdAux] using this
      | pass =>
          have h2 := loopPass_bd h.1
          have hst : step s .pass = loopPass s := step_eq h.1.core.nab h.1.core.nab
          rw [run, hst]
          have := run_pinv ops (loopPass s) P hok.2 (by rw [h2.2.defs]; exact hro) (by rw [h2.2.defs]; exact hjo)
            ⟨h2.1, h.2.1.trans h2.2.n.symm, fun f => by rw [h2.2.tot f]; exact h.2.2 f⟩
          rw [h2.2.defs] at this
          exact this
      | call _ => simp [MainOK] at hok
      | defineR _ => simp [MainOK] at hok
      | stack _ => simp [MainOK] at hok
      | resume _ => simp [MainOK] at hok
      | cancel _ => simp [MainOK] at hok
      | cleanup => simp [MainOK] at hok

theorem init_pinv : PInv [] init := by
  refine ⟨⟨⟨rfl, fun _ => rfl, fun _ => Or.inl rfl, fun m h hx => ?_, fun r hx => ?_, fun _ => rfl, rfl,
    fun _ => rfl, fun p hp => ?_, fun r t ht => ?_⟩, fun r => ?_, fun r hx => ?_⟩, rfl, fun f => ?_⟩
  · cases hx
  · cases hx
  · cases hp
  · cases ht
  · exact ⟨fun x => (by cases x), fun _ => Or.inl (Nat.zero_le _)⟩
  · cases hx
  · rfl

/-! ## the trace counts of Spec.lean against the operation counts -/

theorem sentOf_len (c : Nat) : ∀ log : List Ev, (sentOf c log).length = log.countP (fun e => isSend c e.op)
  | [] => rfl
  | e :: l => by
      have ih := sentOf_len c l
      unfold sentOf at ih ⊢
      rw [List.filterMap_cons, List.countP_cons]
      generalize List.countP (fun e => isSend c e.op) l = N at ih ⊢
      rcases e with ⟨r, op, res, cc⟩
      cases op <;> simp only [isSend, ih, Bool.false_eq_true, if_false, Nat.add_zero]
      rename_i c' v
      by_cases h : c' = c <;> simp [h, ih]

theorem rcvdOf_len (c : Nat) : ∀ log : List Ev, (rcvdOf c log).length ≤ log.countP (fun e => isRecv c e.op)
  | [] => Nat.le_refl _
  | e :: l => by
      have ih := rcvdOf_len c l
      unfold rcvdOf at ih ⊢
      rw [List.filterMap_cons, List.countP_cons]
      generalize List.countP (fun e => isRecv c e.op) l = N at ih ⊢
      split
      · omega
      · simp only [List.length_cons]
        rename_i v hv
        rcases e with ⟨r, op, res, cc⟩
        cases op <;> cases res <;> simp at hv
        rename_i c' v'
        have : c' = c := by
          by_cases h : c' = c
          · exact h
          · simp [h] at hv
        simp only [isRecv, this, beq_self_eq_true, if_true]
        omega

theorem acqOf_le (k : Nat) (log : List Ev) : acqOf k log ≤ log.countP (fun e => isAcqOp k e.op) := by
  unfold acqOf
  apply List.countP_mono_left
  intro e _ h
  simp only [isAcq, decide_eq_true_eq] at h
  simp [h.1, isAcqOp]

theorem relOf_eq (k : Nat) (log : List Ev) : relOf k log = log.countP (fun e => isRelOp k e.op) := by
  unfold relOf
  apply List.countP_congr
  intro e _
  rcases e with ⟨r, op, res, cc⟩
  cases op <;> simp [isRel, isRelOp]

theorem mem_chansOf {F : List Op} {c : Nat} (h : 0 < F.countP (isRecv c)) : c ∈ chansOf F := by
  obtain ⟨op, hop, hf⟩ := List.countP_pos_iff.mp h
  cases op <;> simp [isRecv] at hf
  subst hf
  exact List.mem_filterMap.mpr ⟨_, hop, rfl⟩

theorem mem_semsOf {F : List Op} {k : Nat} (h : 0 < F.countP (isAcqOp k)) : k ∈ semsOf F := by
  obtain ⟨op, hop, hf⟩ := List.countP_pos_iff.mp h
  cases op <;> simp [isAcqOp] at hf
  subst hf
  exact List.mem_filterMap.mpr ⟨_, hop, rfl⟩

/-! ## the quiescent state -/

theorem blk_not_simple {op : Op} (h1 : blkOp op = true) (h2 : simpleOp op = true) : False := by
  cases op <;> simp [blkOp, simpleOp] at h1 h2

theorem cons_not_send {op : Op} (c : Nat) (h : consOp op = true) : isSend c op = false := by
  cases op <;> simp [consOp, isSend] at h ⊢

theorem cons_not_rel {op : Op} (k : Nat) (h : consOp op = true) : isRelOp k op = false := by
  cases op <;> simp [consOp, isRelOp] at h ⊢

/-- at a quiescent pass boundary of a matched program every routine is dead -/
theorem quiescent_dead {s : State} {F : List Op} (hI : Inv s) (ht : s.tmp = []) (hq : s.readyq = [])
    (hB : Bd s) (htot : ∀ f, total f s = F.countP f) (hbal : balanced F = true) :
    ∀ r, r < s.n → (s.R r).state = .dead := by
  -- nobody is ready, nobody runs: a routine that is not dead is suspended in a blocking operation
  have hA : ∀ r, (s.R r).state ≠ .ready := by
    intro r h
    have := hI.S.ready r h
    rw [ht, hq] at this
    cases this
  have hBk : ∀ r, r < s.n → (s.R r).state ≠ .dead → (s.R r).state = .suspend ∧ blkHead (s.R r) := by
    intro r hr hd
    have hl := hB.loc r
    unfold Loc at hl
    cases hst : (s.R r).state
    · rcases hl.2 hst with h | h
      · omega
      · exact ⟨rfl, h⟩
    · exact absurd hst (hA r)
    · exact absurd hst hl.1
    · exact absurd hst hd
  -- nobody is suspended in `lock`, by induction along the lock order: the holder of `m` is inside the
  -- sections of `m`, where the only blocking operation is `lock` of a strictly smaller mutex
  have hC : ∀ m r, r < s.n → ¬ susp s r (.lock m) := by
    intro m
    induction m using Nat.strongRecOn with
    | ind m ih =>
      intro r hr hs
      have h1 := hI.S.mxReg r m hs
      have h2 := hI.S.mxAvail m (fun e => by rw [e] at h1; cases h1)
      cases hh : (s.mx m).hold with
      | none => exact h2 hh
      | some h =>
          have h3 := hB.core.hold m h hh
          have hd : (s.R h).state ≠ .dead := by
            intro e
            have := hB.core.dead h e
            rw [this] at h3
            exact h3.2.ne_nil
          obtain ⟨h4, h4', op, rest, h5, h6⟩ := hBk h h3.1 hd
          rw [h5] at h3
          obtain ⟨m', e, hlt⟩ := h3.2.blk h6
          subst e
          exact ih m' hlt h h3.1 ⟨h4, h4', by rw [h5]; rfl⟩
  -- so every remaining operation is a consumer operation
  have hD : ∀ r, r < s.n → ∀ op, op ∈ (s.R r).script → consOp op = true := by
    intro r hr op hop
    by_cases hd : (s.R r).state = .dead
    · rw [hB.core.dead r hd] at hop; cases hop
    · obtain ⟨hs, hi, o, rest, h5, h6⟩ := hBk r hr hd
      have hro := hB.core.role r
      rw [h5] at hro hop
      rcases hro with h | h | ⟨st, h⟩
      · simp only [List.all_cons, Bool.and_eq_true] at h
        exact (blk_not_simple h6 h.1).elim
      · exact List.all_eq_true.mp h op hop
      · rcases sections_cons h.2 with ⟨h, _⟩ | ⟨m, h, _⟩ | ⟨m, _, _, h, _⟩
        · exact (blk_not_simple h6 h).elim
        · subst h
          exact absurd ⟨hs, hi, by rw [h5]; rfl⟩ (hC m r hr)
        · subst h; simp [blkOp] at h6
  have hZ : ∀ f : Op → Bool, (∀ op, consOp op = true → f op = false) → remN f s s.n = 0 := by
    intro f hf
    refine remN_zero s.n (fun r hr => ?_)
    rw [List.countP_eq_zero]
    intro op hop
    rw [hf op (hD r hr op hop)]
    exact Bool.false_ne_true
  -- by induction along the creation order (a routine joins only routines created before it)
  intro r
  induction r using Nat.strongRecOn with
  | ind r ih =>
  intro hr
  refine Decidable.byContradiction (fun hd => ?_)
  obtain ⟨hs, hi, op, rest, h5, h6⟩ := hBk r hr hd
  unfold balanced at hbal
  simp only [Bool.and_eq_true, List.all_eq_true, decide_eq_true_eq] at hbal
  cases op <;> simp only [blkOp, Bool.false_eq_true] at h6
  case lock m => exact hC m r hr ⟨hs, hi, by rw [h5]; rfl⟩
  case join t =>
    -- the target was created earlier, so it is dead, and a dead routine is freed at a pass boundary;
    -- but the target of a suspended joiner is still in the cabinet
    have hsu : susp s r (.join t) := ⟨hs, hi, by rw [h5]; rfl⟩
    have hlt : t < r := hB.core.jlt r t (by rw [h5]; exact List.mem_cons_self)
    have hdt := ih t hlt (by omega)
    rcases hI.S.joinReg r t hsu with ⟨_, hf, _⟩ | hc
    · rw [hB.fd t hdt] at hf; cases hf
    · rw [hB.core.canc r] at hc; cases hc
  case recv c =>
    have hsu : susp s r (.recv c) := ⟨hs, hi, by rw [h5]; rfl⟩
    have h1 := hI.S.chReg r c hsu
    have h2 := hI.S.chAvail c (fun e => by rw [e] at h1; cases h1)
    have h3 := hI.L.fifo c
    rw [h2, List.append_nil] at h3
    have h4 := sentOf_len c s.log
    have h7 := rcvdOf_len c s.log
    rw [h3] at h7
    have hs0 : remN (isSend c) s s.n = 0 := hZ _ (fun op h => cons_not_send c h)
    have hr1 : 1 ≤ remN (isRecv c) s s.n := by
      refine Nat.le_trans ?_ (remN_le s.n hr)
      rw [h5]; simp [isRecv]
    have t1 := htot (isSend c)
    have t2 := htot (isRecv c)
    unfold total at t1 t2
    have hm := hbal.1 c (mem_chansOf (by omega))
    omega
  case acquire k =>
    have hsu : susp s r (.acquire k) := ⟨hs, hi, by rw [h5]; rfl⟩
    have h1 := hI.S.smReg r k hsu
    have h2 := hI.S.smAvail k (fun e => by rw [e] at h1; cases h1)
    have h3 := hI.L.semCount k
    rw [h2, hI.L.semInit k, relOf_eq] at h3
    have h7 := acqOf_le k s.log
    have hs0 : remN (isRelOp k) s s.n = 0 := hZ _ (fun op h => cons_not_rel k h)
    have hr1 : 1 ≤ remN (isAcqOp k) s s.n := by
      refine Nat.le_trans ?_ (remN_le s.n hr)
      rw [h5]; simp [isAcqOp]
    have t1 := htot (isRelOp k)
    have t2 := htot (isAcqOp k)
    unfold total at t1 t2
    have hm := hbal.2 k (mem_semsOf (by omega))
    omega

/-! ## the theorem -/

/-- PROGRESS form of "no lost wake-up": when the ready queue of a matched script program is drained
(at a pass boundary), every routine has returned. -/
theorem C18_progress (ops : List MainOp) (hm : Matched ops = true) (hq : (run init ops).readyq = []) :
    ∀ r, r < (run init ops).n → ((run init ops).R r).state = .dead := by
  unfold Matched at hm
  simp only [Bool.and_eq_true] at hm
  obtain ⟨⟨⟨h1, h2⟩, h3⟩, h4⟩ := hm
  have hP : PInv ([] ++ created ops) (run init ops) :=
    run_pinv ops init [] h1 (fun p hp => List.all_eq_true.mp h2 p hp) h4 init_pinv
  have hI := run_inv ops init_inv rfl
  exact quiescent_dead hI.1 hI.2 hq hP.1 (fun f => by simpa using hP.2.2 f) h3

/-- the restricted execution never aborts, nobody is cancelled, and every operation of every created
script is in the trace or still in a script (conservation) -/
theorem C18_progress_conservation (ops : List MainOp) (hm : Matched ops = true) (f : Op → Bool) :
    (run init ops).aborted = false ∧ (∀ r, ((run init ops).R r).canceled = false) ∧
    total f (run init ops) = (created ops).flatten.countP f := by
  unfold Matched at hm
  simp only [Bool.and_eq_true] at hm
  obtain ⟨⟨⟨h1, h2⟩, _⟩, h4⟩ := hm
  have hP : PInv ([] ++ created ops) (run init ops) :=
    run_pinv ops init [] h1 (fun p hp => List.all_eq_true.mp h2 p hp) h4 init_pinv
  exact ⟨hP.1.core.nab, hP.1.core.canc, by simpa using hP.2.2 f⟩

/-! ## non-vacuity -/

/-- two producers and two consumers on channel 0, yields in between -/
def progChannel : List MainOp :=
  [.define false [.send 0 1, .yield, .send 0 2], .define false [.recv 0, .yield, .recv 0],
   .new 1 true, .new 0 true, .new 1 true, .new 0 true, .pass, .pass, .pass, .pass]

example : Matched progChannel = true ∧ (run init progChannel).readyq = [] ∧ (run init progChannel).n = 4 := by
  decide

/-- three lockers of mutex 0 that yield (and send) inside the critical section -/
def progMutex : List MainOp :=
  [.define false [.yield, .lock 0, .yield, .send 1 5, .yield, .unlock 0, .lock 0, .unlock 0],
   .new 0 true, .new 0 true, .new 0 true,
   .pass, .pass, .pass, .pass, .pass, .pass, .pass, .pass, .pass, .pass, .pass, .pass]

example : Matched progMutex = true ∧ (run init progMutex).readyq = [] ∧ (run init progMutex).n = 3 := by
  decide

/-- two acquirers and one releaser on semaphore 0 (initial count 0) -/
def progSemaphore : List MainOp :=
  [.define false [.acquire 0, .yield], .define false [.yield, .release 0, .yield, .release 0],
   .new 0 true, .new 0 true, .new 1 true, .pass, .pass, .pass, .pass]

example : Matched progSemaphore = true ∧ (run init progSemaphore).readyq = [] ∧
    (run init progSemaphore).n = 3 := by
  decide

/-- all three kinds together: a locker that releases inside its section, a consumer of both -/
def progMixed : List MainOp :=
  [.define false [.lock 2, .send 0 7, .yield, .release 0, .unlock 2],
   .define false [.recv 0, .acquire 0, .recv 0, .acquire 0],
   .new 1 true, .new 0 true, .new 0 true, .pass, .pass, .pass, .pass, .pass]

example : Matched progMixed = true ∧ (run init progMixed).readyq = [] ∧ (run init progMixed).n = 3 := by
  decide

/-- the matching hypothesis is needed: one more `recv` than sends, the receiver is suspended for ever -/
def progUnmatched : List MainOp :=
  [.define false [.send 0 1], .define false [.recv 0, .recv 0], .new 0 true, .new 1 true, .pass, .pass]

example : Matched progUnmatched = false ∧ (run init progUnmatched).readyq = [] ∧
    ((run init progUnmatched).R 1).state = .suspend ∧ 1 < (run init progUnmatched).n := by
  decide

/-- nested sections under the global lock order: two routines take mutex 1, then mutex 0 inside, with
yields (and a send) inside both sections; a third one takes 2, 1, 0 -/
def progNestedOrdered : List MainOp :=
  [.define false [.lock 1, .yield, .lock 0, .yield, .send 3 1, .unlock 0, .yield, .unlock 1],
   .define false [.yield, .lock 2, .lock 1, .yield, .lock 0, .unlock 0, .unlock 1, .unlock 2, .lock 0, .unlock 0],
   .new 0 true, .new 0 true, .new 1 true,
   .pass, .pass, .pass, .pass, .pass, .pass, .pass, .pass, .pass, .pass, .pass, .pass]

example : Matched progNestedOrdered = true ∧ (run init progNestedOrdered).readyq = [] ∧
    (run init progNestedOrdered).n = 3 ∧
    ((run init progNestedOrdered).R 0).state = .dead ∧ ((run init progNestedOrdered).R 1).state = .dead ∧
    ((run init progNestedOrdered).R 2).state = .dead := by
  decide

/-- the lock order is checked: a script that takes 0 and then 1 inside, one that unlocks out of LIFO order,
one that ends inside a section and one that locks the mutex it holds again are outside the class -/
example : roleOK [.lock 0, .lock 1, .unlock 1, .unlock 0] = false ∧
    roleOK [.lock 1, .lock 0, .unlock 1, .unlock 0] = false ∧
    roleOK [.lock 1, .lock 0, .unlock 0] = false ∧
    roleOK [.lock 1, .lock 1, .unlock 1, .unlock 1] = false ∧
    roleOK [.lock 1, .lock 0, .yield, .unlock 0, .send 0 0, .unlock 1, .lock 5, .unlock 5] = true := by
  decide

/-- … and so is the role hypothesis: nested sections in opposite order deadlock -/
def progNested : List MainOp :=
  [.define false [.lock 0, .yield, .yield, .lock 1, .unlock 1, .unlock 0],
   .define false [.lock 1, .yield, .yield, .lock 0, .unlock 0, .unlock 1], .new 0 true, .new 1 true,
   .pass, .pass, .pass]

/-- the global lock order is needed: the classic two-lock program (0 then 1 against 1 then 0) is outside the
class, its ready queue drains, and both routines stay suspended in `lock` (of the mutex the other one holds)
for ever: further passes change nothing -/
theorem C18_progress_unordered_locks_counterexample :
    Matched progNested = false ∧ (run init progNested).readyq = [] ∧ (run init progNested).n = 2 ∧
    susp (run init progNested) 0 (.lock 1) ∧ susp (run init progNested) 1 (.lock 0) ∧
    ((run init progNested).mx 0).hold = some 0 ∧ ((run init progNested).mx 1).hold = some 1 ∧
    (run init (progNested ++ [.pass, .pass, .pass])).readyq = [] ∧
    susp (run init (progNested ++ [.pass, .pass, .pass])) 0 (.lock 1) ∧
    susp (run init (progNested ++ [.pass, .pass, .pass])) 1 (.lock 0) := by
  decide

/-- a join chain: routine 0 is a producer, routine 1 joins 0 and then receives what 0 sent, routine 2 joins 1;
after the third `new` both joiners are suspended (2 waits for 1, which waits for 0) -/
def progJoinChain : List MainOp :=
  [.define false [.yield, .yield, .yield, .yield, .yield, .yield, .send 0 4, .yield],
   .define false [.join 0, .recv 0], .define false [.join 1, .yield],
   .new 0 true, .new 1 true, .new 2 true, .pass, .pass, .pass, .pass, .pass, .pass]

example : Matched progJoinChain = true ∧
    susp (run init (progJoinChain.take 6)) 1 (.join 0) ∧ susp (run init (progJoinChain.take 6)) 2 (.join 1) ∧
    (run init progJoinChain).readyq = [] ∧ (run init progJoinChain).n = 3 ∧
    ((run init progJoinChain).R 0).state = .dead ∧ ((run init progJoinChain).R 1).state = .dead ∧
    ((run init progJoinChain).R 2).state = .dead ∧
    ((run init progJoinChain).log.filter (fun e => e.r != 0)).map (fun e => (e.r, e.op, e.res)) =
      [(1, .join 0, .ok), (1, .recv 0, .val 4), (2, .join 1, .ok), (2, .yield, .ok)] := by
  decide

/-- refused joins are in the class: routines 1 and 2 both join 0 (the second joiner gets `fail` and runs on),
routine 3 joins 0 after it has returned (`fail`: the token is gone) -/
def progJoinRefused : List MainOp :=
  [.define false [.yield, .yield, .yield], .define false [.join 0, .yield], .define false [.yield, .yield, .yield, .yield, .join 0],
   .new 0 true, .new 1 true, .new 1 true, .new 2 true, .pass, .pass, .pass, .pass, .pass, .pass]

example : Matched progJoinRefused = true ∧ (run init progJoinRefused).readyq = [] ∧ (run init progJoinRefused).n = 4 ∧
    (∀ r, r < 4 → ((run init progJoinRefused).R r).state = .dead) ∧
    ((run init progJoinRefused).log.filter (fun e => e.op == .join 0)).map (fun e => (e.r, e.res)) =
      [(2, .fail), (1, .ok), (3, .fail)] := by
  decide

/-- two consumers that join each other -/
def progJoinCycle : List MainOp :=
  [.define false [.yield, .join 1], .define false [.join 0], .new 0 true, .new 1 true, .pass, .pass]

/-- the creation-order condition on `join` is needed: two routines joining each other (0 joins 1, 1 joins 0)
are outside the class - only because of that condition: roles and balance are fine -, the ready queue
drains, and both stay suspended in `join` for ever: further passes change nothing -/
theorem C18_progress_join_cycle_counterexample :
    Matched progJoinCycle = false ∧ progJoinCycle.all MainOK = true ∧ (created progJoinCycle).all roleOK = true ∧
    balanced (created progJoinCycle).flatten = true ∧ joinsOK 0 (created progJoinCycle) = false ∧
    (run init progJoinCycle).readyq = [] ∧ (run init progJoinCycle).n = 2 ∧
    susp (run init progJoinCycle) 0 (.join 1) ∧ susp (run init progJoinCycle) 1 (.join 0) ∧
    ((run init progJoinCycle).R 1).joiner = some 0 ∧ ((run init progJoinCycle).R 0).joiner = some 1 ∧
    (run init (progJoinCycle ++ [.pass, .pass, .pass])).readyq = [] ∧
    susp (run init (progJoinCycle ++ [.pass, .pass, .pass])) 0 (.join 1) ∧
    susp (run init (progJoinCycle ++ [.pass, .pass, .pass])) 1 (.join 0) := by
  decide

/-- the index in the `join` condition is the creation index, not the definition index -/
example : Matched [.define false [.join 0], .define false [.yield], .new 1 true, .new 0 true, .pass] = true ∧
    Matched [.define false [.join 0], .define false [.yield], .new 0 true, .new 1 true, .pass] = false ∧
    Matched [.define false [.yield, .join 0], .new 0 true, .pass] = false := by
  decide

end Tbox.C18
